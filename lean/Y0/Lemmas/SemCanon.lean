/-
  Y0.Lemmas.SemCanon — the canonicaliser preserves the denotation (core of C10).

  `InRange env σ`     : every variable has a value below its cardinality.
  `DenNZ env σ' e`    : no fraction inside `e` has a denominator that vanishes at an in-range valuation
                        (the hypothesis `NoZeroDen` of DESIGN.md; implied by positivity, see `denNZ_of_positive`).
  `canonL_den`        : for `wss S e`, `DenNZ e`:  `canonL lvl e = ok e'` implies `den e' = den e` at every in-range
                        valuation, and `DenNZ e'` (the invariant that makes the induction go through).
-/
import Y0.Lemmas.SemLeaf
import Y0.Lemmas.CanonScope

namespace Y0
set_option linter.unusedSimpArgs false
set_option linter.unusedVariables false
set_option linter.unusedTactic false
set_option linter.unreachableTactic false

variable {env : Env} {σ' : Val}

def InRange (env : Env) (σ : Val) : Prop := ∀ x, σ x < env.card x

theorem InRange.set {σ : Val} (h : InRange env σ) (x : Name) {k : Nat} (hk : k < env.card x) :
    InRange env (σ.set x k) := by
  intro y
  by_cases e : y = x
  · subst e; simpa using hk
  · simpa [Val.set, e] using h y

theorem sumVar_congr_inRange (x : Name) {f g : Val → Rat} (h : ∀ τ, InRange env τ → f τ = g τ) (σ : Val)
    (hσ : InRange env σ) : sumVar env.card x f σ = sumVar env.card x g σ :=
  sumVar_congr env.card x σ fun k hk => h _ (hσ.set x hk)

theorem sumVars_congr_inRange (xs : List Name) {f g : Val → Rat} (h : ∀ τ, InRange env τ → f τ = g τ) :
    ∀ σ, InRange env σ → sumVars env.card xs f σ = sumVars env.card xs g σ := by
  induction xs with
  | nil => exact h
  | cons x xs ih =>
    intro σ hσ
    simp only [sumVars]
    exact sumVar_congr_inRange x ih σ hσ

/-- the denominator never vanishes on valuations in range -/
def NZ (env : Env) (σ' : Val) (d : Expr) : Prop := ∀ σ, InRange env σ → den env σ' d σ ≠ 0

mutual
def DenNZ (env : Env) (σ' : Val) : Expr → Prop
  | .frac n d => DenNZ env σ' n ∧ DenNZ env σ' d ∧ NZ env σ' d
  | .prod fs => DenNZList env σ' fs
  | .sum e _ => DenNZ env σ' e
  | _ => True
def DenNZList (env : Env) (σ' : Val) : List Expr → Prop
  | [] => True
  | e :: es => DenNZ env σ' e ∧ DenNZList env σ' es
end

theorem denNZList_iff {fs : List Expr} : DenNZList env σ' fs ↔ ∀ e ∈ fs, DenNZ env σ' e := by
  induction fs with
  | nil => simp [DenNZList]
  | cons a l ih => simp [DenNZList, ih]

theorem denNZ_prod_iff {fs : List Expr} : DenNZ env σ' (.prod fs) ↔ ∀ e ∈ fs, DenNZ env σ' e := by
  simp [DenNZ, denNZList_iff]
theorem denNZ_frac_iff {n d : Expr} :
    DenNZ env σ' (.frac n d) ↔ DenNZ env σ' n ∧ DenNZ env σ' d ∧ NZ env σ' d := by simp [DenNZ]
theorem denNZ_sum_iff {e : Expr} {r : List Var} : DenNZ env σ' (.sum e r) ↔ DenNZ env σ' e := by simp [DenNZ]
@[simp] theorem denNZ_one : DenNZ env σ' .one := by simp [DenNZ]
@[simp] theorem denNZ_zero : DenNZ env σ' .zero := by simp [DenNZ]
@[simp] theorem denNZ_prob {pop : Option Var} {c p : List Var} : DenNZ env σ' (.prob pop c p) := by simp [DenNZ]
@[simp] theorem denNZ_q {d c : List Var} : DenNZ env σ' (.q d c) := by simp [DenNZ]

/-! ### DenNZ through the constructors -/

theorem denNZ_productSafe {es : List Expr} (h : ∀ e ∈ es, DenNZ env σ' e) : DenNZ env σ' (productSafe es) := by
  unfold productSafe
  simp only
  have hf : ∀ e ∈ es.filter (fun e => !e.isOne), DenNZ env σ' e := fun e he => h e (List.mem_filter.mp he).1
  generalize es.filter (fun e => !e.isOne) = l at hf
  split
  · simp
  · match l, hf with
    | [], _ => simp
    | [e], hf => exact hf e (List.mem_singleton.mpr rfl)
    | a :: b :: r, hf => exact denNZ_prod_iff.mpr fun e he => hf e ((sortStable_perm _ _).subset he)

mutual
theorem denNZ_flattenFactors : ∀ (es : List Expr), (∀ e ∈ es, DenNZ env σ' e) →
    ∀ e ∈ flattenFactors es, DenNZ env σ' e
  | [], _, e, he => by simp [flattenFactors] at he
  | a :: rest, h, e, he => by
    simp only [flattenFactors, List.mem_append] at he
    rcases he with he | he
    · exact denNZ_flattenFactor a (h a List.mem_cons_self) e he
    · exact denNZ_flattenFactors rest (fun x hx => h x (List.mem_cons_of_mem _ hx)) e he
theorem denNZ_flattenFactor : ∀ (a : Expr), DenNZ env σ' a → ∀ e ∈ flattenFactor a, DenNZ env σ' e
  | .prod gs, h, e, he => by
    simp only [flattenFactor] at he
    exact denNZ_flattenFactors gs (denNZ_prod_iff.mp h) e he
  | .prob _ _ _, h, e, he => by simp only [flattenFactor, List.mem_singleton] at he; exact he ▸ h
  | .sum _ _, h, e, he => by simp only [flattenFactor, List.mem_singleton] at he; exact he ▸ h
  | .frac _ _, h, e, he => by simp only [flattenFactor, List.mem_singleton] at he; exact he ▸ h
  | .one, h, e, he => by simp only [flattenFactor, List.mem_singleton] at he; exact he ▸ h
  | .zero, h, e, he => by simp only [flattenFactor, List.mem_singleton] at he; exact he ▸ h
  | .q _ _, h, e, he => by simp only [flattenFactor, List.mem_singleton] at he; exact he ▸ h
end

mutual
theorem denProd_flattenFactors : ∀ (es : List Expr) (σ : Val),
    denProd env σ' (flattenFactors es) σ = denProd env σ' es σ
  | [], σ => by simp [flattenFactors]
  | a :: rest, σ => by
    simp only [flattenFactors, denProd_append, denProd_cons]
    rw [denProd_flattenFactor a σ, denProd_flattenFactors rest σ]
theorem denProd_flattenFactor : ∀ (a : Expr) (σ : Val), denProd env σ' (flattenFactor a) σ = den env σ' a σ
  | .prod gs, σ => by simp only [flattenFactor, den_prod]; exact denProd_flattenFactors gs σ
  | .prob _ _ _, σ => by simp [flattenFactor]
  | .sum _ _, σ => by simp [flattenFactor]
  | .frac _ _, σ => by simp [flattenFactor]
  | .one, σ => by simp [flattenFactor]
  | .zero, σ => by simp [flattenFactor]
  | .q _ _, σ => by simp [flattenFactor, den]
end

theorem denNZ_mkFrac {n d c : Expr} (hn : DenNZ env σ' n) (hd : DenNZ env σ' d) (hz : NZ env σ' d)
    (h : mkFrac n d = .ok c) : DenNZ env σ' c := by
  unfold mkFrac at h
  split at h
  · cases h
  · cases h; exact denNZ_frac_iff.mpr ⟨hn, hd, hz⟩

theorem denNZ_mulR (a : Expr) (ha : DenNZ env σ' a) : ∀ (b c : Expr), DenNZ env σ' b →
    Expr.mulR a b = .ok c → DenNZ env σ' c
  | .frac n d, c, hb, h => by
    obtain ⟨hn, hd, hz⟩ := denNZ_frac_iff.mp hb
    unfold Expr.mulR at h
    cases a with
    | sum e r =>
      cases h
      exact denNZ_productSafe (by intro x hx; simp at hx; rcases hx with rfl | rfl <;> assumption)
    | prob pop ch pa =>
      obtain ⟨x, hx, hc⟩ := bind_ok h
      exact denNZ_mkFrac (denNZ_mulR _ ha n x hn hx) hd hz hc
    | prod fs =>
      obtain ⟨x, hx, hc⟩ := bind_ok h
      exact denNZ_mkFrac (denNZ_mulR _ ha n x hn hx) hd hz hc
    | frac n1 d1 =>
      obtain ⟨x, hx, hc⟩ := bind_ok h
      exact denNZ_mkFrac (denNZ_mulR _ ha n x hn hx) hd hz hc
    | one =>
      obtain ⟨x, hx, hc⟩ := bind_ok h
      exact denNZ_mkFrac (denNZ_mulR _ ha n x hn hx) hd hz hc
    | zero =>
      obtain ⟨x, hx, hc⟩ := bind_ok h
      exact denNZ_mkFrac (denNZ_mulR _ ha n x hn hx) hd hz hc
    | q dd cc =>
      obtain ⟨x, hx, hc⟩ := bind_ok h
      exact denNZ_mkFrac (denNZ_mulR _ ha n x hn hx) hd hz hc
  | .zero, c, hb, h => by
    unfold Expr.mulR at h
    cases a <;> cases h <;> first
      | simp
      | (apply denNZ_productSafe; intro x hx; simp at hx; rcases hx with rfl | rfl <;> simp)
  | .one, c, hb, h => by
    unfold Expr.mulR at h
    cases a <;> cases h <;> first
      | exact ha
      | (apply denNZ_productSafe; intro x hx; simp at hx; rcases hx with hx | rfl
         · exact denNZ_prod_iff.mp ha x hx
         · simp)
      | (apply denNZ_productSafe; intro x hx; simp at hx; rcases hx with rfl | rfl <;> first | exact ha | simp)
  | .prod gs, c, hb, h => by
    unfold Expr.mulR at h
    have hg := denNZ_prod_iff.mp hb
    cases a <;> cases h <;> first
      | (apply denNZ_productSafe; intro x hx; simp at hx; rcases hx with hx | hx
         · exact denNZ_prod_iff.mp ha x hx
         · exact hg x hx)
      | (apply denNZ_productSafe; intro x hx; simp at hx; rcases hx with rfl | hx
         · exact ha
         · exact hg x hx)
  | .prob pop ch pa, c, hb, h => by
    unfold Expr.mulR at h
    cases a <;> cases h <;> first
      | (apply denNZ_productSafe; intro x hx; simp at hx; rcases hx with hx | rfl
         · exact denNZ_prod_iff.mp ha x hx
         · exact hb)
      | (apply denNZ_productSafe; intro x hx; simp at hx; rcases hx with rfl | rfl <;> assumption)
  | .sum e r, c, hb, h => by
    unfold Expr.mulR at h
    cases a <;> cases h <;> first
      | (apply denNZ_productSafe; intro x hx; simp at hx; rcases hx with hx | rfl
         · exact denNZ_prod_iff.mp ha x hx
         · exact hb)
      | (apply denNZ_productSafe; intro x hx; simp at hx; rcases hx with rfl | rfl <;> assumption)
  | .q dd cc, c, hb, h => by
    unfold Expr.mulR at h
    cases a <;> cases h <;> first
      | (apply denNZ_productSafe; intro x hx; simp at hx; rcases hx with hx | rfl
         · exact denNZ_prod_iff.mp ha x hx
         · exact hb)
      | (apply denNZ_productSafe; intro x hx; simp at hx; rcases hx with rfl | rfl <;> assumption)

theorem NZ_mul {a b c : Expr} (ha : NZ env σ' a) (hb : NZ env σ' b) (h : Expr.mul a b = .ok c) : NZ env σ' c := by
  intro σ hσ
  rw [mul_den a b c h σ]
  exact mul_ne_zero (ha σ hσ) (hb σ hσ)

theorem denNZ_mul : ∀ (a b c : Expr), DenNZ env σ' a → DenNZ env σ' b → Expr.mul a b = .ok c → DenNZ env σ' c
  | .one, b, c, ha, hb, h => by unfold Expr.mul at h; cases h; exact hb
  | .zero, b, c, ha, hb, h => by unfold Expr.mul at h; cases h; simp
  | .frac n d, .zero, c, ha, hb, h => by unfold Expr.mul at h; cases h; simp
  | .frac n d, .frac n2 d2, c, ha, hb, h => by
    unfold Expr.mul at h
    obtain ⟨x, hx, h⟩ := bind_ok h
    obtain ⟨y, hy, hc⟩ := bind_ok h
    obtain ⟨h1, h2, h3⟩ := denNZ_frac_iff.mp ha
    obtain ⟨k1, k2, k3⟩ := denNZ_frac_iff.mp hb
    exact denNZ_mkFrac (denNZ_mul n n2 x h1 k1 hx) (denNZ_mul d d2 y h2 k2 hy) (NZ_mul h3 k3 hy) hc
  | .frac n d, .one, c, ha, hb, h => by
    unfold Expr.mul at h
    obtain ⟨x, hx, hc⟩ := bind_ok h
    obtain ⟨h1, h2, h3⟩ := denNZ_frac_iff.mp ha
    exact denNZ_mkFrac (denNZ_mul n _ x h1 hb hx) h2 h3 hc
  | .frac n d, .prob pop ch pa, c, ha, hb, h => by
    unfold Expr.mul at h
    obtain ⟨x, hx, hc⟩ := bind_ok h
    obtain ⟨h1, h2, h3⟩ := denNZ_frac_iff.mp ha
    exact denNZ_mkFrac (denNZ_mul n _ x h1 hb hx) h2 h3 hc
  | .frac n d, .prod gs, c, ha, hb, h => by
    unfold Expr.mul at h
    obtain ⟨x, hx, hc⟩ := bind_ok h
    obtain ⟨h1, h2, h3⟩ := denNZ_frac_iff.mp ha
    exact denNZ_mkFrac (denNZ_mul n _ x h1 hb hx) h2 h3 hc
  | .frac n d, .sum e r, c, ha, hb, h => by
    unfold Expr.mul at h
    obtain ⟨x, hx, hc⟩ := bind_ok h
    obtain ⟨h1, h2, h3⟩ := denNZ_frac_iff.mp ha
    exact denNZ_mkFrac (denNZ_mul n _ x h1 hb hx) h2 h3 hc
  | .frac n d, .q dd cc, c, ha, hb, h => by
    unfold Expr.mul at h
    obtain ⟨x, hx, hc⟩ := bind_ok h
    obtain ⟨h1, h2, h3⟩ := denNZ_frac_iff.mp ha
    exact denNZ_mkFrac (denNZ_mul n _ x h1 hb hx) h2 h3 hc
  | .prob pop ch pa, b, c, ha, hb, h => by unfold Expr.mul at h; exact denNZ_mulR _ ha b c hb h
  | .prod fs, b, c, ha, hb, h => by unfold Expr.mul at h; exact denNZ_mulR _ ha b c hb h
  | .sum e r, b, c, ha, hb, h => by unfold Expr.mul at h; exact denNZ_mulR _ ha b c hb h
  | .q dd cc, b, c, ha, hb, h => by unfold Expr.mul at h; exact denNZ_mulR _ ha b c hb h

theorem NZ_frac_parts {n d : Expr} (h : NZ env σ' (.frac n d)) : NZ env σ' n ∧ NZ env σ' d := by
  constructor
  · intro σ hσ h0; exact h σ hσ (by simp [h0])
  · intro σ hσ h0; exact h σ hσ (by simp [h0])

/-- dividing by something that never vanishes keeps all denominators non-vanishing -/
theorem denNZ_div (a b c : Expr) (ha : DenNZ env σ' a) (hb : DenNZ env σ' b) (hz : NZ env σ' b)
    (h : Expr.div a b = .ok c) : DenNZ env σ' c := by
  cases a <;> cases b <;> simp only [Expr.div] at h <;>
  first
    | (cases h; first | exact ha | simp)
    | (exact denNZ_mkFrac ha hb hz h)
    | (obtain ⟨x, hx, h⟩ := bind_ok h
       obtain ⟨y, hy, hc⟩ := bind_ok h
       obtain ⟨h1, h2, h3⟩ := denNZ_frac_iff.mp ha
       obtain ⟨k1, k2, k3⟩ := denNZ_frac_iff.mp hb
       exact denNZ_mkFrac (denNZ_mul _ _ x h1 k2 hx) (denNZ_mul _ _ y h2 k1 hy) (NZ_mul h3 (NZ_frac_parts hz).1 hy) hc)
    | (obtain ⟨x, hx, hc⟩ := bind_ok h
       obtain ⟨h1, h2, h3⟩ := denNZ_frac_iff.mp ha
       exact denNZ_mkFrac h1 (denNZ_mul _ _ x h2 hb hx) (NZ_mul h3 hz hx) hc)
    | (obtain ⟨x, hx, hc⟩ := bind_ok h
       obtain ⟨k1, k2, k3⟩ := denNZ_frac_iff.mp hb
       exact denNZ_mkFrac (denNZ_mul _ _ x ha k2 hx) k1 (NZ_frac_parts hz).1 hc)
    | (split at h
       · cases h
       · cases h; simp)

theorem denNZ_sumSafe0 {e : Expr} {r : List Var} (he : DenNZ env σ' e) : DenNZ env σ' (sumSafe0 e r) := by
  unfold sumSafe0
  simp only
  split
  · exact he
  · cases e <;> simp only <;> first
      | simp
      | exact denNZ_sum_iff.mpr he

theorem denNZ_sumSimplify {e : Expr} {rs : List Var} (he : DenNZ env σ' e) : DenNZ env σ' (sumSimplify e rs) := by
  unfold sumSimplify
  split
  · simp only
    split
    · exact denNZ_sum_iff.mpr he
    split
    · simp
    · split
      · exact denNZ_sumSafe0 (by simp)
      · split
        · simp
        · exact denNZ_sumSafe0 (by simp)
  · exact denNZ_sum_iff.mpr he

theorem denNZ_sumSafe {e : Expr} {r : List Var} (b : Bool) (he : DenNZ env σ' e) : DenNZ env σ' (sumSafe e r b) := by
  unfold sumSafe
  simp only
  split
  · exact he
  · cases e <;> simp only <;> first
      | simp
      | (split
         · exact denNZ_sumSimplify he
         · exact denNZ_sum_iff.mpr he)

/-! ### Sum.safe with simplification -/

theorem sumLeafOK_of_wss {S : List Name} {pop : Option Var} {c r : List Var}
    (hw : Expr.wss S (.prob pop c []) = true) (hr : rangesOK S r = true) : SumLeafOK c (upgradeOrdering r) := by
  have hleaf : LeafOKP S c [] := leafOK_iff.mp (by simpa [Expr.wss] using hw)
  obtain ⟨_, hr2⟩ := rangesOK_iff.mp hr
  have hmem : ∀ v, v ∈ upgradeOrdering r → v ∈ r := fun v hv => mem_upgradeOrdering.mp hv
  refine ⟨fun v hv => (hr2 v (hmem v hv)).1, nodup_upgradeOrdering r, by simpa using hleaf.names, ?_, ?_⟩
  · intro v hv hb hst
    have hvS : v.name ∈ S := by
      have := (hr2 _ (hmem _ hb)).2
      simpa [Var.base] using this
    exact hleaf.plus v (by simpa using hv) hst hvS
  · intro w hw i hi _ v hv _
    exact hleaf.subs v (by simpa using hv) w (by simpa using hw) i hi

theorem sumSafe_den (hF : ProbFamily env) (e : Expr) (r : List Var) (b : Bool)
    (hleaf : ∀ pop c, e = .prob pop c [] → SumLeafOK c (upgradeOrdering r)) (σ : Val) :
    den env σ' (sumSafe e r b) σ =
      sumVars env.card ((upgradeOrdering r).map (·.name)) (fun τ => den env σ' e τ) σ := by
  unfold sumSafe
  simp only
  by_cases h : (upgradeOrdering r).isEmpty = true
  · rw [if_pos h]
    have : upgradeOrdering r = [] := List.isEmpty_iff.mp h
    rw [this]; rfl
  · rw [if_neg h]
    cases e <;> simp only <;> first
      | (simp [sumVars_zero]; done)
      | (split
         · exact sumSimplify_den hF _ _ hleaf σ
         · simp)

/-! ### the canonicaliser preserves the denotation -/

theorem den_postFrac {rv : Expr} (h : DenNZ env σ' rv) (σ : Val) (hσ : InRange env σ) :
    den env σ' (postFrac rv) σ = den env σ' rv σ := by
  unfold postFrac
  split
  · rename_i a b
    obtain ⟨_, _, hz⟩ := denNZ_frac_iff.mp h
    split
    · rename_i hb
      rw [Expr.isOne_iff.mp hb]; simp
    · split
      · rename_i hab
        have : a = b := Expr.eqb_sound a b hab
        subst this
        simp [div_self (hz σ hσ)]
      · rfl
  · rfl

theorem denNZ_postFrac {rv : Expr} (h : DenNZ env σ' rv) : DenNZ env σ' (postFrac rv) := by
  unfold postFrac
  split
  · rename_i a b
    obtain ⟨ha, _, _⟩ := denNZ_frac_iff.mp h
    split
    · exact ha
    · split
      · simp
      · exact h
  · exact h

mutual
theorem canonL_den (hF : ProbFamily env) {S : List Name} {lvl : Name → Option Nat} : ∀ (e e' : Expr),
    Expr.wss S e = true → DenNZ env σ' e → canonL lvl e = .ok e' →
    (∀ σ, InRange env σ → den env σ' e' σ = den env σ' e σ) ∧ DenNZ env σ' e'
  | .prob pop c p, e', hw, hz, h => by
    unfold canonL at h
    obtain ⟨c', hc, h⟩ := bind_ok h
    obtain ⟨p', hp, h⟩ := bind_ok h
    cases h
    refine ⟨fun σ _ => ?_, by simp⟩
    have hcp := sortVars_perm hc
    have hpp := sortVars_perm hp
    simp only [den_prob]
    rw [hF.pr_perm _ _ _ ((hcp.append hpp).map (Var.atom σ σ')), hF.pr_perm _ _ _ (hpp.map (Var.atom σ σ'))]
  | .sum e r, e', hw, hz, h => by
    unfold canonL at h
    obtain ⟨x, hx, h⟩ := bind_ok h
    cases h
    obtain ⟨hr, hwe⟩ := wss_sum_iff.mp hw
    obtain ⟨ih1, ih2⟩ := canonL_den hF e x hwe (denNZ_sum_iff.mp hz) hx
    have hwx := wss_canonL e x hwe hx
    refine ⟨fun σ hσ => ?_, denNZ_sumSafe true ih2⟩
    rw [sumSafe_den hF x r true (fun pop c hxe => sumLeafOK_of_wss (hxe ▸ hwx) hr) σ, den_sum]
    rw [congrFun (sumVars_perm env.card ((upgradeOrdering_perm_of_nodup (nodup_of_rangesOK hr)).map _) _) σ]
    exact sumVars_congr_inRange _ ih1 σ hσ
  | .prod fs, e', hw, hz, h => by
    unfold canonL at h
    obtain ⟨x, hx, h⟩ := bind_ok h
    cases h
    obtain ⟨ih1, ih2⟩ := canonFactors_den hF fs x (wss_prod_iff.mp hw) (denNZ_prod_iff.mp hz) hx
    refine ⟨fun σ hσ => ?_, denNZ_productSafe (denNZ_flattenFactors x ih2)⟩
    rw [productSafe_den, denProd_flattenFactors, ih1 σ hσ, den_prod]
  | .frac n d, e', hw, hz, h => by
    unfold canonL at h
    obtain ⟨n', hn, h⟩ := bind_ok h
    obtain ⟨d', hd, h⟩ := bind_ok h
    obtain ⟨hwn, hwd⟩ := wss_frac_iff.mp hw
    obtain ⟨hzn, hzd, hnz⟩ := denNZ_frac_iff.mp hz
    obtain ⟨in1, in2⟩ := canonL_den hF n n' hwn hzn hn
    obtain ⟨id1, id2⟩ := canonL_den hF d d' hwd hzd hd
    have hnz' : NZ env σ' d' := fun σ hσ => by rw [id1 σ hσ]; exact hnz σ hσ
    split at h
    · rename_i hone
      cases h
      refine ⟨fun σ hσ => ?_, in2⟩
      have := id1 σ hσ
      rw [Expr.isOne_iff.mp hone] at this
      rw [den_frac, in1 σ hσ, ← this]; simp
    · split at h
      · rename_i heq
        cases h
        refine ⟨fun σ hσ => ?_, by simp⟩
        have hnd : n' = d' := Expr.eqb_sound _ _ heq
        have e1 : den env σ' n σ = den env σ' d σ := by rw [← in1 σ hσ, ← id1 σ hσ, hnd]
        rw [den_frac, e1, div_self (hnz σ hσ)]; simp
      · obtain ⟨rv, hrv, h⟩ := bind_ok h
        cases h
        have hrvz := denNZ_div _ _ _ in2 id2 hnz' hrv
        refine ⟨fun σ hσ => ?_, denNZ_postFrac hrvz⟩
        rw [den_postFrac hrvz σ hσ, div_den _ _ _ hrv, in1 σ hσ, id1 σ hσ, den_frac]
  | .one, e', hw, hz, h => by unfold canonL at h; cases h; exact ⟨fun _ _ => rfl, by simp⟩
  | .zero, e', hw, hz, h => by unfold canonL at h; cases h; exact ⟨fun _ _ => rfl, by simp⟩
  | .q _ _, e', hw, hz, h => by simp [Expr.wss] at hw
theorem canonFactors_den (hF : ProbFamily env) {S : List Name} {lvl : Name → Option Nat} : ∀ (fs fs' : List Expr),
    (∀ e ∈ fs, Expr.wss S e = true) → (∀ e ∈ fs, DenNZ env σ' e) → canonFactors lvl fs = .ok fs' →
    (∀ σ, InRange env σ → denProd env σ' fs' σ = denProd env σ' fs σ) ∧ (∀ e ∈ fs', DenNZ env σ' e)
  | [], fs', hw, hz, h => by
    unfold canonFactors at h; cases h
    exact ⟨fun _ _ => rfl, fun e he => by cases he⟩
  | .prod gs :: rest, fs', hw, hz, h => by
    unfold canonFactors at h
    obtain ⟨a, ha, h⟩ := bind_ok h
    obtain ⟨b, hb, h⟩ := bind_ok h
    cases h
    obtain ⟨i1, i2⟩ := canonFactors_den hF gs a (wss_prod_iff.mp (hw _ List.mem_cons_self))
      (denNZ_prod_iff.mp (hz _ List.mem_cons_self)) ha
    obtain ⟨j1, j2⟩ := canonFactors_den hF rest b (fun x hx => hw x (List.mem_cons_of_mem _ hx))
      (fun x hx => hz x (List.mem_cons_of_mem _ hx)) hb
    refine ⟨fun σ hσ => ?_, fun e he => ?_⟩
    · rw [denProd_append, i1 σ hσ, j1 σ hσ, denProd_cons, den_prod]
    · rcases List.mem_append.mp he with he | he
      · exact i2 e he
      · exact j2 e he
  | .prob pop c p :: rest, fs', hw, hz, h => by
    unfold canonFactors at h
    obtain ⟨a, ha, h⟩ := bind_ok h
    obtain ⟨b, hb, h⟩ := bind_ok h
    cases h
    obtain ⟨i1, i2⟩ := canonL_den hF _ a (hw _ List.mem_cons_self) (hz _ List.mem_cons_self) ha
    obtain ⟨j1, j2⟩ := canonFactors_den hF rest b (fun x hx => hw x (List.mem_cons_of_mem _ hx))
      (fun x hx => hz x (List.mem_cons_of_mem _ hx)) hb
    refine ⟨fun σ hσ => ?_, fun e he => ?_⟩
    · rw [denProd_cons, denProd_cons, i1 σ hσ, j1 σ hσ]
    · rcases List.mem_cons.mp he with rfl | he
      · exact i2
      · exact j2 e he
  | .sum e0 r :: rest, fs', hw, hz, h => by
    unfold canonFactors at h
    obtain ⟨a, ha, h⟩ := bind_ok h
    obtain ⟨b, hb, h⟩ := bind_ok h
    cases h
    obtain ⟨i1, i2⟩ := canonL_den hF _ a (hw _ List.mem_cons_self) (hz _ List.mem_cons_self) ha
    obtain ⟨j1, j2⟩ := canonFactors_den hF rest b (fun x hx => hw x (List.mem_cons_of_mem _ hx))
      (fun x hx => hz x (List.mem_cons_of_mem _ hx)) hb
    refine ⟨fun σ hσ => ?_, fun e he => ?_⟩
    · rw [denProd_cons, denProd_cons, i1 σ hσ, j1 σ hσ]
    · rcases List.mem_cons.mp he with rfl | he
      · exact i2
      · exact j2 e he
  | .frac n d :: rest, fs', hw, hz, h => by
    unfold canonFactors at h
    obtain ⟨a, ha, h⟩ := bind_ok h
    obtain ⟨b, hb, h⟩ := bind_ok h
    cases h
    obtain ⟨i1, i2⟩ := canonL_den hF _ a (hw _ List.mem_cons_self) (hz _ List.mem_cons_self) ha
    obtain ⟨j1, j2⟩ := canonFactors_den hF rest b (fun x hx => hw x (List.mem_cons_of_mem _ hx))
      (fun x hx => hz x (List.mem_cons_of_mem _ hx)) hb
    refine ⟨fun σ hσ => ?_, fun e he => ?_⟩
    · rw [denProd_cons, denProd_cons, i1 σ hσ, j1 σ hσ]
    · rcases List.mem_cons.mp he with rfl | he
      · exact i2
      · exact j2 e he
  | .one :: rest, fs', hw, hz, h => by
    unfold canonFactors at h
    obtain ⟨a, ha, h⟩ := bind_ok h
    obtain ⟨b, hb, h⟩ := bind_ok h
    cases h
    obtain ⟨i1, i2⟩ := canonL_den hF _ a (hw _ List.mem_cons_self) (hz _ List.mem_cons_self) ha
    obtain ⟨j1, j2⟩ := canonFactors_den hF rest b (fun x hx => hw x (List.mem_cons_of_mem _ hx))
      (fun x hx => hz x (List.mem_cons_of_mem _ hx)) hb
    refine ⟨fun σ hσ => ?_, fun e he => ?_⟩
    · rw [denProd_cons, denProd_cons, i1 σ hσ, j1 σ hσ]
    · rcases List.mem_cons.mp he with rfl | he
      · exact i2
      · exact j2 e he
  | .zero :: rest, fs', hw, hz, h => by
    unfold canonFactors at h
    obtain ⟨a, ha, h⟩ := bind_ok h
    obtain ⟨b, hb, h⟩ := bind_ok h
    cases h
    obtain ⟨i1, i2⟩ := canonL_den hF _ a (hw _ List.mem_cons_self) (hz _ List.mem_cons_self) ha
    obtain ⟨j1, j2⟩ := canonFactors_den hF rest b (fun x hx => hw x (List.mem_cons_of_mem _ hx))
      (fun x hx => hz x (List.mem_cons_of_mem _ hx)) hb
    refine ⟨fun σ hσ => ?_, fun e he => ?_⟩
    · rw [denProd_cons, denProd_cons, i1 σ hσ, j1 σ hσ]
    · rcases List.mem_cons.mp he with rfl | he
      · exact i2
      · exact j2 e he
  | .q dd cc :: rest, fs', hw, hz, h => by
    have := hw _ List.mem_cons_self
    simp [Expr.wss] at this
end

end Y0
