/-
  Y0.Lemmas.PrintBuiltEval — `built_of_eval`: the interpreter `PyEval.eval`, run on a construction tree that writes
  each name once per distribution (`namesOnce`), only produces values satisfying the invariant `GoodV`; in particular
  every EXPRESSION it returns is `built`.  Induction over the tree, one operator lemma (Y0.Lemmas.PrintBuiltOps) per
  branch of the interpreter's dispatch.
-/
import Y0.Lemmas.PrintBuiltOps

namespace Y0
namespace PyEval
open Print

variable (lt : Expr → Expr → Bool)

theorem lok_nil : LOk lt [] [] := by
  refine ⟨?_, ?_, ?_, ?_, rfl⟩ <;> simp [argVars]

theorem lok_cons {a : Ast} {as : List Ast} {v : Val} {vs : List Val} (hv : GoodV lt a v) (hvs : LOk lt as vs) :
    LOk lt (a :: as) (v :: vs) := by
  obtain ⟨⟨hc, hn, hs⟩, hk⟩ := hv
  obtain ⟨lc, ln, ls, lk, ll⟩ := hvs
  have hcons : argVars (v :: vs) = valVars v ++ argVars vs := by simp [argVars]
  refine ⟨?_, ?_, ?_, ?_, by simp [ll]⟩
  · intro w hw
    rw [hcons] at hw
    rcases List.mem_append.mp hw with h | h
    · exact hc w h
    · exact lc w h
  · intro hnd
    simp only [namesL] at hnd
    rw [hcons, List.map_append]
    exact nodup_append_of_sub hn (ln (List.nodup_append.mp hnd).2.1) hs ls hnd
  · intro x hx
    rw [hcons, List.map_append] at hx
    simp only [namesL, List.mem_append]
    rcases List.mem_append.mp hx with h | h
    · exact Or.inl (hs x h)
    · exact Or.inr (ls x h)
  · intro x hx
    rcases List.mem_cons.mp hx with h | h
    · subst h; exact hk
    · exact lk x h

mutual
/-- the interpreter's invariant holds at every node of a `namesOnce` construction tree -/
theorem goodv_eval (hasym : Asymm lt) : ∀ (a : Ast) (v : Val), namesOnce a = true → eval lt a = .ok v → GoodV lt a v
  | .name n, v, _, h => by
    simp only [eval, Except.ok.injEq] at h
    subst h
    exact ⟨⟨by simp [valVars, canonVar_plain], by simp [valVars], by simp [valVars, names, Var.plain]⟩, trivial⟩
  | .kw k, v, _, h => by
    cases k <;> simp only [eval, Except.ok.injEq] at h <;> subst h
    case TargetDomain =>
      exact ⟨⟨by simp [valVars, targetDomain, canonVar_plain], by simp [valVars],
        by simp [valVars, names, targetDomain, Var.plain]⟩, trivial⟩
    all_goals refine ⟨vok_of_novars _ _ rfl, ?_⟩ <;> simp [KOk, canonPop]
  | .tuple xs, v, hn, h => by
    simp only [eval, bind, Except.bind] at h
    cases hl : evalList lt xs with
    | error e => simp [hl] at h
    | ok vs =>
      simp only [hl, pure, Except.pure, Except.ok.injEq] at h
      subst h
      simp only [namesOnce, Bool.and_eq_true, Bool.not_eq_true', List.isEmpty_eq_false_iff] at hn
      obtain ⟨lc, ln, ls, _, ll⟩ := goodv_evalList hasym xs vs hn.1.2 hl
      have hsub := tupleVars_sublist vs
      refine ⟨⟨?_, ?_, ?_⟩, ?_⟩
      · intro w hw; exact lc w (hsub.subset hw)
      · exact (ln (nodup_of_distinct hn.2)).sublist (hsub.map Var.name)
      · intro x hx
        simpa [names] using ls x ((hsub.map Var.name).subset hx)
      · show vs ≠ []
        intro h0
        subst h0
        exact hn.1.1 (List.length_eq_zero_iff.mp ll.symm)
  | .un op a, v, hn, h => by
    simp only [eval, bind, Except.bind] at h
    cases ha : eval lt a with
    | error e => simp [ha] at h
    | ok x =>
      simp only [ha] at h
      simp only [namesOnce] at hn
      exact good_unop lt op a x v (goodv_eval hasym a x hn ha) h
  | .bin op l r, v, hn, h => by
    simp only [eval, bind, Except.bind] at h
    cases hl : eval lt l with
    | error e => simp [hl] at h
    | ok x =>
      cases hr : eval lt r with
      | error e => simp [hl, hr] at h
      | ok y =>
        simp only [hl, hr] at h
        cases op with
        | matmul =>
          simp only [namesOnce, Bool.and_eq_true] at hn
          exact good_matmul lt l r x y v (goodv_eval hasym l x hn.1.1 hl) (goodv_eval hasym r y hn.1.2 hr) h
        | bor =>
          simp only [namesOnce, Bool.and_eq_true] at hn
          exact good_bor lt l r x y v (goodv_eval hasym l x hn.1.1 hl) (goodv_eval hasym r y hn.1.2 hr)
            (nodup_of_distinct hn.2) (by simpa [binop] using h)
        | band =>
          simp only [namesOnce, Bool.and_eq_true] at hn
          exact good_band lt l r x y v (goodv_eval hasym l x hn.1.1 hl) (goodv_eval hasym r y hn.1.2 hr)
            (nodup_of_distinct hn.2) (by simpa [binop] using h)
        | mul =>
          simp only [namesOnce, Bool.and_eq_true] at hn
          exact goodv_mul lt hasym l r x y v (goodv_eval hasym l x hn.1 hl) (goodv_eval hasym r y hn.2 hr) h
        | div =>
          simp only [namesOnce, Bool.and_eq_true] at hn
          exact goodv_div lt hasym l r x y v (goodv_eval hasym l x hn.1 hl) (goodv_eval hasym r y hn.2 hr) h
        | add => simp [binop] at h
        | sub => simp [binop] at h
  | .call f args, v, hn, h => by
    simp only [eval, bind, Except.bind] at h
    cases hf : eval lt f with
    | error e => simp [hf] at h
    | ok fv =>
      cases hl : evalList lt args with
      | error e => simp [hf, hl] at h
      | ok as =>
        simp only [hf, hl] at h
        simp only [namesOnce, Bool.and_eq_true] at hn
        exact good_call lt f args fv as v (goodv_eval hasym f fv hn.1.1 hf).2 (goodv_evalList hasym args as hn.1.2 hl)
          (nodup_of_distinct hn.2) h
  | .sub f i, v, hn, h => by
    simp only [eval, bind, Except.bind] at h
    cases hf : eval lt f with
    | error e => simp [hf] at h
    | ok fv =>
      cases hi : eval lt i with
      | error e => simp [hf, hi] at h
      | ok iv =>
        simp only [hf, hi] at h
        simp only [namesOnce, Bool.and_eq_true] at hn
        exact good_subscript lt f i fv iv v (goodv_eval hasym f fv hn.1.1 hf).2 (goodv_eval hasym i iv hn.1.2 hi) h
theorem goodv_evalList (hasym : Asymm lt) : ∀ (as : List Ast) (vs : List Val), namesOnceL as = true →
    evalList lt as = .ok vs → LOk lt as vs
  | [], vs, _, h => by
    simp only [evalList, Except.ok.injEq] at h
    subst h
    exact lok_nil lt
  | a :: as, vs, hn, h => by
    simp only [evalList, bind, Except.bind] at h
    cases ha : eval lt a with
    | error e => simp [ha] at h
    | ok x =>
      cases hl : evalList lt as with
      | error e => simp [ha, hl] at h
      | ok xs =>
        simp only [ha, hl, pure, Except.pure, Except.ok.injEq] at h
        subst h
        simp only [namesOnceL, Bool.and_eq_true] at hn
        exact lok_cons lt (goodv_eval hasym a x hn.1 ha) (goodv_evalList hasym as xs hn.2 hl)
end

/-- **`built_of_eval`**: every expression object the interpreter produces from a construction tree over the public
builders and operators that writes each name once per distribution is `built` -/
theorem built_of_eval' (hasym : Asymm lt) (a : Ast) (e : Expr) (hn : namesOnce a = true)
    (h : eval lt a = .ok (.expr e)) : built lt e = true :=
  (goodv_eval lt hasym a (.expr e) hn h).2

theorem built_of_evalExpr (hasym : Asymm lt) (a : Ast) (e : Expr) (hn : namesOnce a = true)
    (h : evalExpr lt a = .ok e) : built lt e = true := by
  unfold evalExpr at h
  cases hv : eval lt a with
  | error err => simp [hv] at h
  | ok v =>
    cases v <;> simp only [hv, Except.ok.injEq, reduceCtorEq] at h
    subst h
    exact built_of_eval' lt hasym a _ hn hv

end PyEval
end Y0
