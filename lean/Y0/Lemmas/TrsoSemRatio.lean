/-
  Y0.Lemmas.TrsoSemRatio — lines 9 and 10 of TRSO (Tian's c-factor formula): under the semantic invariant `SemInv`
  (Lemmas/TrsoSem) the product over a district `D` of the current graph of the conditionals
  `Σ_{later} e / Σ_{this and later} e` (or `P(v | predecessors)` when the carried `e` is a joint) denotes `Q[D]`
  (Tian–Pearl Lemma 4 = `Scm.Q_ratio_list`, Lemmas/QFactor).
-/
import Y0.Lemmas.TrsoSem

namespace Y0
namespace Trso
open TrDsl MG IdAux

/-- what `regular nodes of graph.topological_sort()` is: a duplicate-free list of the regular nodes in which no later
element is a parent of an earlier one -/
theorem regularOrder_spec {G : MG Name} (hG : G.WF) {order : List Name} (h : regularOrder G = .ok order) :
    order.Nodup ∧ (∀ v, v ∈ order ↔ v ∈ regularNodes G) ∧
      (∀ l1 l2, order = l1 ++ l2 → ∀ a ∈ l1, ∀ r ∈ l2, ¬ G.DiEdge r a) := by
  unfold regularOrder at h
  obtain ⟨t, ht, h⟩ := bind_ok h
  simp only [pure, Except.pure, Except.ok.injEq] at h
  subst h
  obtain ⟨hperm, hfwd⟩ := topologicalSort_spec G hG t ht
  have htnd : t.Nodup := hperm.nodup_iff.mpr hG.nodup
  have hnd : (t.filter (fun n => !isTnode n)).Nodup := htnd.filter _
  refine ⟨hnd, fun v => ?_, ?_⟩
  · rw [mem_regularNodes, List.mem_filter, hperm.mem_iff]; simp
  · intro l1 l2 hsplit a ha r hr hra
    obtain ⟨m1, m2, m3, hm⟩ := hfwd r a hra
    have haf : a ∈ t.filter (fun n => !isTnode n) := hsplit ▸ List.mem_append_left _ ha
    have hrf : r ∈ t.filter (fun n => !isTnode n) := hsplit ▸ List.mem_append_right _ hr
    have hsub : List.Sublist [r, a] t := by
      rw [hm, List.append_assoc]
      apply List.sublist_append_of_sublist_right
      apply List.Sublist.cons_cons
      apply List.sublist_append_of_sublist_right
      simp
    have hsub' := hsub.filter (fun n => !isTnode n)
    have hf : [r, a].filter (fun n => !isTnode n) = [r, a] := by
      rw [List.filter_eq_self]
      intro x hx
      rcases List.mem_cons.1 hx with rfl | hx
      · exact (List.mem_filter.1 hrf).2
      · rcases List.mem_cons.1 hx with rfl | hx
        · exact (List.mem_filter.1 haf).2
        · cases hx
    rw [hf, hsplit] at hsub'
    rw [hsplit] at hnd
    have hdisj := (List.nodup_append.mp hnd).2.2
    obtain ⟨s1, s2, hs, h1, h2⟩ := List.sublist_append_iff.mp hsub'
    match s1, hs, h1 with
    | [], hs, _ =>
      simp only [List.nil_append] at hs
      subst hs
      exact hdisj a ha a (h2.subset (by simp)) rfl
    | [x], hs, h1 =>
      simp only [List.cons_append, List.nil_append, List.cons.injEq] at hs
      obtain ⟨rfl, rfl⟩ := hs
      exact hdisj r (h1.subset (by simp)) r hr rfl
    | x :: y :: s, hs, h1 =>
      simp only [List.cons_append, List.cons.injEq] at hs
      obtain ⟨rfl, -, -⟩ := hs
      exact hdisj r (h1.subset (by simp)) r hr rfl

/-- `ordering.index(node)` splits the order at the node -/
theorem indexOf_split {order : List Name} {node : Name} {i : Nat} (h : indexOf? order node = .ok i) :
    ∃ l1 l2, order = l1 ++ node :: l2 ∧ l1.length = i ∧ node ∉ l1 := by
  induction order generalizing i with
  | nil => simp [indexOf?] at h
  | cons a l ih =>
    unfold indexOf? at h
    rw [List.findIdx?_cons] at h
    by_cases ha : a = node
    · subst ha
      simp only [decide_true, if_true, Except.ok.injEq] at h
      exact ⟨[], l, rfl, by simpa using h, by simp⟩
    · simp only [ha, decide_false, Bool.false_eq_true, if_false] at h
      cases hl : l.findIdx? (· = node) with
      | none => rw [hl] at h; simp at h
      | some j =>
        rw [hl] at h
        simp only [Option.map_some, Except.ok.injEq] at h
        obtain ⟨l1, l2, h1, h2, h3⟩ := ih (i := j) (by unfold indexOf?; rw [hl])
        exact ⟨a :: l1, l2, by rw [h1]; rfl, by simp [h2, h], by simp [h3, Ne.symm ha]⟩

/-- nodes of different districts of the current graph share no latent of the model -/
theorem district_sep' {ctx : Ctx} {Mb : Nat} {q : Query} {G : MG Name} (hq : QInv Mb q G) (h : SemInv ctx q G)
    {D : List Name} (hD : D ∈ G.districts) :
    ∀ v ∈ D, v ∈ regularNodes G → ∀ w ∈ regularNodes G, w ∉ D → ∀ u, u ∈ ctx.M.latOf v → u ∉ ctx.M.latOf w := by
  intro v hv hvR w hw hwD u hu1 hu2
  have hne : v ≠ w := fun e => hwD (e ▸ hv)
  have hbi := ctx.sctx.hM.compat v (h.rsub.nodes v hvR) w (h.rsub.nodes w hw) hne ⟨u, hu1, hu2⟩
  have hbi' : G.BiEdge v w := h.rsub.bi v w hvR hw hbi
  exact hwD ((districts_spec G hq.wfG D hD v hv w).mpr (.single hbi'))

/-- one factor of Tian's formula read off the carried expression: `Σ_{later} e / Σ_{node and later} e` -/
theorem den_ratio {ctx : Ctx} {Mb : Nat} {q : Query} {G : MG Name} (hq : QInv Mb q G) (h : SemInv ctx q G)
    {order l1 l2 : List Name} {node : Name} (hord : regularOrder G = .ok order) (hsplit : order = l1 ++ node :: l2)
    {fr : Expr}
    (hfr : truediv (ratioParts q.expr order l1.length).1 (ratioParts q.expr order l1.length).2 = .ok fr) :
    Good ctx.S fr ∧ SumND fr ∧ (Wf OneName (fun _ => True) q.expr → Wf OneName (fun _ => True) fr) ∧
      ∀ σ, denL ctx.M.card ctx.leaf fr σ =
        sumVars ctx.M.card l2 (ctx.M.Q order) σ / sumVars ctx.M.card (node :: l2) (ctx.M.Q order) σ := by
  obtain ⟨hnd, hmem, _⟩ := regularOrder_spec hq.wfG hord
  have hd1 : order.drop (l1.length + 1) = l2 := by
    rw [hsplit, ← List.drop_drop, List.drop_left]; rfl
  have hd2 : order.drop l1.length = node :: l2 := by rw [hsplit, List.drop_left]
  have hnd2 : (node :: l2).Nodup := (List.nodup_append.mp (hsplit ▸ hnd)).2.1
  have hl2nd : l2.Nodup := (List.nodup_cons.mp hnd2).2
  have hin2 : ∀ n ∈ node :: l2, n ∈ regularNodes G := fun n hn =>
    (hmem n).1 (hsplit ▸ List.mem_append_right _ hn)
  have hin1 : ∀ n ∈ l2, n ∈ regularNodes G := fun n hn => hin2 n (List.mem_cons_of_mem _ hn)
  have hQ : ctx.M.Q (regularNodes G) = ctx.M.Q order :=
    ctx.M.Q_congr_set (regularNodes_nodup hq.wfG) hnd (fun x => (hmem x).symm)
  unfold ratioParts at hfr
  simp only [hd1, hd2] at hfr
  have g1 : Good ctx.S (sumSafe q.expr (plainVars l2)) := good_sumSafe ctx.S false h.good (h.rng hin1)
  have g2 : Good ctx.S (sumSafe q.expr (plainVars (node :: l2))) := good_sumSafe ctx.S false h.good (h.rng hin2)
  refine ⟨good_truediv ctx.S g1 g2 hfr, sumND_truediv (sumND_sumSafe false h.nd) (sumND_sumSafe false h.nd) hfr,
    fun hwf => wf_truediv (wf_sumSafe oneName_mono false hwf (fun _ _ => trivial))
      (wf_sumSafe oneName_mono false hwf (fun _ _ => trivial)) hfr, fun σ => ?_⟩
  rw [denL_truediv hfr σ, denL_sumSafe_false, denL_sumSafe_false,
    sumVars_plainVars_set ctx.M.card (fun n hn => regular_notT (hin1 n hn)) hl2nd (fun _ => Iff.rfl),
    sumVars_plainVars_set ctx.M.card (fun n hn => regular_notT (hin2 n hn)) hnd2 (fun _ => Iff.rfl),
    show (fun τ => denL ctx.M.card ctx.leaf q.expr τ) = ctx.M.Q order from (funext h.est).trans hQ]

/-- the value of the factor of Tian's formula for `v`: `Σ_{later} Q[order] / Σ_{v and later} Q[order]` -/
noncomputable def TrsoAux.ratioVal (M : Scm) (order : List Name) (σ : Val) (v : Name) : Rat :=
  sumVars M.card (order.drop ((order.takeWhile (· ≠ v)).length + 1)) (M.Q order) σ /
    sumVars M.card (order.drop (order.takeWhile (· ≠ v)).length) (M.Q order) σ

theorem TrsoAux.ratioVal_split (M : Scm) {order l1 l2 : List Name} {v : Name} (hnd : order.Nodup)
    (h : order = l1 ++ v :: l2) (σ : Val) :
    TrsoAux.ratioVal M order σ v = sumVars M.card l2 (M.Q order) σ / sumVars M.card (v :: l2) (M.Q order) σ := by
  have hvl1 : v ∉ l1 := fun hc =>
    (List.nodup_append.mp (h ▸ hnd)).2.2 v hc v List.mem_cons_self rfl
  obtain ⟨_, hs2, hs3⟩ := order_split h hvl1
  unfold TrsoAux.ratioVal
  rw [show order.drop ((order.takeWhile (· ≠ v)).length + 1) = l2 from hs3,
    show order.drop (order.takeWhile (· ≠ v)).length = v :: l2 from hs2]

/-- Tian–Pearl Lemma 4 along the regular order of the current graph: the ratios of a duplicate-free list `D` of
regular nodes with the members of a district multiply to `Q[D]` -/
theorem TrsoAux.tian_prod {ctx : Ctx} {Mb : Nat} {q : Query} {G : MG Name} (hq : QInv Mb q G) (h : SemInv ctx q G)
    {order : List Name} (hord : regularOrder G = .ok order) {D d : List Name} (hd : d ∈ G.districts)
    (hDnd : D.Nodup) (hDd : ∀ v, v ∈ D ↔ v ∈ d) (hDT : ∀ v ∈ D, isTnode v = false) (σ : Val) :
    (D.map (TrsoAux.ratioVal ctx.M order σ)).prod = ctx.M.Q D σ := by
  obtain ⟨hnd, hmem, htopo⟩ := regularOrder_spec hq.wfG hord
  have hDR : ∀ v ∈ D, v ∈ regularNodes G := fun v hv =>
    mem_regularNodes.2 ⟨mem_nodes_of_mem_district hq.wfG hd ((hDd v).1 hv), hDT v hv⟩
  apply Scm.Q_ratio_list ctx.sctx.hM ctx.sctx.hG0 ctx.sctx.hrank order hnd
    (fun v hv => h.rsub.nodes v ((hmem v).1 hv))
  · intro l1 l2 hsplit a ha r hr hpa
    have haV : a ∈ regularNodes G := (hmem a).1 (hsplit ▸ List.mem_append_left _ ha)
    have hrV : r ∈ regularNodes G := (hmem r).1 (hsplit ▸ List.mem_append_right _ hr)
    exact htopo l1 l2 hsplit a ha r hr (h.rsub.di r a hrV haV hpa)
  · exact hDnd
  · exact fun v hv => (hmem v).2 (hDR v hv)
  · intro v hv w hw hwD
    exact district_sep' hq h hd v ((hDd v).1 hv) (hDR v hv) w ((hmem w).1 hw) (fun hc => hwD ((hDd w).2 hc))
  · exact fun l1 v l2 hsplit => TrsoAux.ratioVal_split ctx.M hnd hsplit σ

/-- one step of the loop of line 9 -/
theorem TrsoAux.line9_step_sem {ctx : Ctx} {Mb : Nat} {q : Query} {G : MG Name} (hq : QInv Mb q G)
    (h : SemInv ctx q G) {order : List Name} (hord : regularOrder G = .ok order) {acc acc' : Expr} {node : Name}
    (hg : Good ctx.S acc) (hn : SumND acc) (hsh : acc = .one ∨ FracClean acc)
    (hs : (do let i ← indexOf? order node
              let fr ← truediv (ratioParts q.expr order i).1 (ratioParts q.expr order i).2
              mul acc fr) = Except.ok acc') :
    Good ctx.S acc' ∧ SumND acc' ∧ FracClean acc' ∧
      ∀ σ, denL ctx.M.card ctx.leaf acc' σ = denL ctx.M.card ctx.leaf acc σ * TrsoAux.ratioVal ctx.M order σ node := by
  obtain ⟨acc'', hs', hfc⟩ := line9_step (e := q.expr) (order := order) (node := node) (acc := acc) h.good.1
    (by obtain ⟨i, hi, _⟩ := bind_ok hs; exact indexOf_mem hi) hsh
  rw [hs] at hs'
  cases hs'
  obtain ⟨i, hi, hs⟩ := bind_ok hs
  obtain ⟨fr, hfr, hs⟩ := bind_ok hs
  obtain ⟨l1, l2, hsplit, hlen, _⟩ := indexOf_split hi
  rw [← hlen] at hfr
  obtain ⟨gfr, nfr, _, vfr⟩ := den_ratio hq h hord hsplit hfr
  have hnd := (regularOrder_spec hq.wfG hord).1
  refine ⟨good_mul ctx.S hg gfr hs, sumND_mul hn nfr hs, hfc, fun σ => ?_⟩
  rw [denL_mul hs σ, vfr σ, TrsoAux.ratioVal_split ctx.M hnd hsplit σ]

/-- the loop of line 9 -/
theorem TrsoAux.line9_fold {ctx : Ctx} {Mb : Nat} {q : Query} {G : MG Name} (hq : QInv Mb q G)
    (h : SemInv ctx q G) {order : List Name} (hord : regularOrder G = .ok order) :
    ∀ (L : List Name) (acc r : Expr), Good ctx.S acc → SumND acc → (acc = .one ∨ FracClean acc) →
      L.foldlM (fun (acc : Expr) node => do
        let i ← indexOf? order node
        let fr ← truediv (ratioParts q.expr order i).1 (ratioParts q.expr order i).2
        mul acc fr) acc = Except.ok r →
      Good ctx.S r ∧ SumND r ∧ ((L = [] ∧ r = acc) ∨ FracClean r) ∧
        ∀ σ, denL ctx.M.card ctx.leaf r σ =
          denL ctx.M.card ctx.leaf acc σ * (L.map (TrsoAux.ratioVal ctx.M order σ)).prod := by
  intro L
  induction L with
  | nil =>
    intro acc r hg hn _ hr
    simp only [List.foldlM, pure, Except.pure, Except.ok.injEq] at hr
    subst hr
    exact ⟨hg, hn, Or.inl ⟨rfl, rfl⟩, fun σ => by simp⟩
  | cons a L ih =>
    intro acc r hg hn hsh hr
    rw [List.foldlM_cons] at hr
    obtain ⟨acc', hs, hr⟩ := bind_ok hr
    obtain ⟨g', n', f', v'⟩ := TrsoAux.line9_step_sem hq h hord hg hn hsh hs
    obtain ⟨g2, n2, f2, v2⟩ := ih acc' r g' n' (Or.inr f') hr
    refine ⟨g2, n2, Or.inr ?_, fun σ => ?_⟩
    · rcases f2 with ⟨_, rfl⟩ | f2
      · exact f'
      · exact f2
    · rw [v2 σ, v' σ, List.map_cons, List.prod_cons, mul_assoc]

/-- **line 9**: the expression built for a component `c` with the members of a district `d` of the current graph
(regular nodes only) denotes
`Σ_{c ∖ Y} Q[c]` -/
theorem sound_line9_core {ctx : Ctx} {Mb : Nat} {q : Query} {G : MG Name} (hq : QInv Mb q G) (h : SemInv ctx q G)
    {c d : List Name} (hd : d ∈ G.districts) (hdc : ∀ v, v ∈ d ↔ v ∈ c) (hcT : ∀ v ∈ c, isTnode v = false)
    (hcne : c ≠ []) {e9 : Expr} (he : line9 q G c = .ok e9) :
    Good ctx.S e9 ∧ SumND e9 ∧ ∀ σ, denL ctx.M.card ctx.leaf e9 σ =
      sumVars ctx.M.card ((nsort c).filter (· ∉ q.Y)) (ctx.M.Q (nsort c)) σ := by
  unfold line9 at he
  split at he
  · cases he
  obtain ⟨order, hord, he⟩ := bind_ok he
  obtain ⟨prod, hprod, he⟩ := bind_ok he
  obtain ⟨prod', hprod', he⟩ := bind_ok he
  simp only [pure, Except.pure, Except.ok.injEq] at he
  subst he
  have hcR : ∀ v ∈ c, v ∈ regularNodes G := fun v hv =>
    mem_regularNodes.2 ⟨mem_nodes_of_mem_district hq.wfG hd ((hdc v).2 hv), hcT v hv⟩
  obtain ⟨gp, np, shp, vp⟩ := TrsoAux.line9_fold hq h hord (nsort c) .one prod ⟨trivial, trivial⟩ trivial
    (Or.inl rfl) hprod
  have hfc : FracClean prod := by
    rcases shp with ⟨h0, _⟩ | hfc
    · exact absurd h0 (nsort_nonempty hcne)
    · exact hfc
  obtain ⟨n, d, rfl, _, _⟩ := hfc
  have gn : Good ctx.S n := ⟨gp.1.1, gp.2.1⟩
  have gd : Good ctx.S d := ⟨gp.1.2, gp.2.2⟩
  have gp' : Good ctx.S prod' := good_fracSimplify ctx.S gn gd hprod'
  have np' : SumND prod' := sumND_simplifyCast np hprod'
  have vp' : (fun τ => denL ctx.M.card ctx.leaf prod' τ) = ctx.M.Q (nsort c) := by
    funext τ
    rw [denL_simplifyCast_frac ctx.S gn gd hprod' τ, ← TrsoAux.denL_frac, vp τ, TrsoAux.denL_one, one_mul]
    exact TrsoAux.tian_prod hq h hord hd (nsort_nodup' c) (fun v => by rw [mem_nsort, hdc v])
      (fun v hv => hcT v ((mem_nsort v c).1 hv)) τ
  have hns : ∀ n ∈ diff' c q.Y, n ∈ regularNodes G := fun n hn => hcR n (mem_diff'.1 hn).1
  refine ⟨good_sumSafe ctx.S false gp' (h.rng hns), sumND_sumSafe false np', fun σ => ?_⟩
  rw [denL_sumSafe_false, vp',
    sumVars_plainVars_set ctx.M.card (fun n hn => regular_notT (hns n hn))
      (xs := (nsort c).filter (· ∉ q.Y)) ((nsort_nodup' c).filter _)
      (fun v => by simp [mem_diff', List.mem_filter, mem_nsort])]

theorem TrsoAux.mem_vnames_plainVars (n : Name) (l : List Name) : n ∈ vnames (plainVars l) ↔ n ∈ l := by
  unfold vnames
  rw [List.mem_map]
  constructor
  · rintro ⟨v, hv, rfl⟩
    obtain ⟨m, hm, rfl⟩ := (mem_plainVars v l).1 hv
    exact hm
  · intro hn
    exact ⟨Var.plain n, (mem_plainVars _ l).2 ⟨n, hn, rfl⟩, rfl⟩

/-- the conditional `P[dom](node | predecessors)` read off a carried joint is the factor of Tian's formula -/
theorem TrsoAux.line10_joint_sem {ctx : Ctx} {Mb : Nat} {q : Query} {G : MG Name} (hq : QInv Mb q G)
    {order l1 l2 : List Name} {node : Name} (hord : regularOrder G = .ok order)
    (hsplit : order = l1 ++ node :: l2) {c : List Var} (jc : JC ctx q G c) :
    Good ctx.S (.prob (some (popVar q.domain)) [Var.plain node] (plainVars l1)) ∧
      ∀ σ, ctx.leaf (some (popVar q.domain)) [Var.plain node] (plainVars l1) σ =
        sumVars ctx.M.card l2 (ctx.M.Q order) σ / sumVars ctx.M.card (node :: l2) (ctx.M.Q order) σ := by
  obtain ⟨hnd, hmem, _⟩ := regularOrder_spec hq.wfG hord
  have hnd' : (l1 ++ node :: l2).Nodup := hsplit ▸ hnd
  have hnd2 : (node :: l2).Nodup := (List.nodup_append.mp hnd').2.1
  have hl2nd : l2.Nodup := (List.nodup_cons.mp hnd2).2
  have hvl1 : node ∉ l1 := fun hc => (List.nodup_append.mp hnd').2.2 node hc node List.mem_cons_self rfl
  have hvl2 : node ∉ l2 := (List.nodup_cons.mp hnd2).1
  have hl1l2 : ∀ x ∈ l1, x ∉ l2 := fun x hx hx2 =>
    (List.nodup_append.mp hnd').2.2 x hx x (List.mem_cons_of_mem _ hx2) rfl
  have hordm : ∀ x, x ∈ regularNodes G ↔ x ∈ l1 ∨ x = node ∨ x ∈ l2 := by
    intro x; rw [← hmem x, hsplit]; simp
  have hQ : ctx.M.Q (regularNodes G) = ctx.M.Q order :=
    ctx.M.Q_congr_set (regularNodes_nodup hq.wfG) hnd (fun x => (hmem x).symm)
  have hvars : ∀ v ∈ [Var.plain node] ++ plainVars l1,
      (v.ivs = [] ∧ v.star = none ∧ v.isIv = false) ∧ v.name ∈ regularNodes G := by
    intro v hv
    rcases List.mem_append.1 hv with hv | hv
    · rw [List.mem_singleton] at hv
      subst hv
      exact ⟨⟨rfl, rfl, rfl⟩, (hordm node).2 (Or.inr (Or.inl rfl))⟩
    · obtain ⟨m, hm, rfl⟩ := (mem_plainVars v l1).1 hv
      exact ⟨⟨rfl, rfl, rfl⟩, (hordm m).2 (Or.inl hm)⟩
  have hS1 : ∀ n ∈ vnames ([Var.plain node] ++ plainVars l1), n ∈ regularNodes G ∨ n ∈ ctx.ign := by
    intro n hn
    obtain ⟨v, hv, rfl⟩ := List.mem_map.1 hn
    exact Or.inl (hvars v hv).2
  have hS2 : ∀ n ∈ vnames (plainVars l1), n ∈ regularNodes G ∨ n ∈ ctx.ign := fun n hn =>
    Or.inl ((hordm n).2 (Or.inl ((TrsoAux.mem_vnames_plainVars n l1).1 hn)))
  refine ⟨⟨trivial, jc.adm (fun v hv => (hvars v hv).1) (fun v hv => Or.inl (hvars v hv).2)⟩, fun σ => ?_⟩
  rw [ctx.S.leaf_eq (some (popVar q.domain)) [] [Var.plain node] (plainVars l1) jc.okW
    (fun v hv => ⟨(hvars v hv).1.1, (hvars v hv).1.2.1, (hvars v hv).1.2.2, jc.okN v.name (Or.inl (hvars v hv).2)⟩) σ,
    jc.marg _ hS1 σ, jc.marg _ hS2 σ, hQ]
  congr 1
  · refine congrFun (sumVars_congr_set ctx.M.card ((regularNodes_nodup hq.wfG).filter _) hl2nd (fun x => ?_) _) σ
    simp only [List.mem_filter, decide_eq_true_eq, hordm x, vnames, List.map_append, List.mem_append,
      List.map_cons, List.map_nil, List.mem_singleton]
    rw [show x ∈ (plainVars l1).map (·.name) ↔ x ∈ l1 from TrsoAux.mem_vnames_plainVars x l1]
    show (_ ∧ ¬ (x = node ∨ x ∈ l1)) ↔ _
    constructor
    · rintro ⟨h1 | h1 | h1, h2⟩
      · exact absurd (Or.inr h1) h2
      · exact absurd (Or.inl h1) h2
      · exact h1
    · intro h1
      exact ⟨Or.inr (Or.inr h1), fun h2 => h2.elim (fun e => hvl2 (e ▸ h1)) (fun h3 => hl1l2 x h3 h1)⟩
  · refine congrFun (sumVars_congr_set ctx.M.card ((regularNodes_nodup hq.wfG).filter _) hnd2 (fun x => ?_) _) σ
    simp only [List.mem_filter, decide_eq_true_eq, hordm x, List.mem_cons]
    rw [TrsoAux.mem_vnames_plainVars x l1]
    constructor
    · rintro ⟨h1 | h1 | h1, h2⟩
      · exact absurd h1 h2
      · exact Or.inl h1
      · exact Or.inr h1
    · rintro (h1 | h1)
      · exact ⟨Or.inr (Or.inl h1), fun h2 => hvl1 (h1 ▸ h2)⟩
      · exact ⟨Or.inr (Or.inr h1), fun h2 => hl1l2 x h2 h1⟩

/-- one factor of line 10 is the factor of Tian's formula -/
theorem TrsoAux.line10_factor_sem {ctx : Ctx} {Mb : Nat} {q : Query} {G : MG Name} (hq : QInv Mb q G)
    (h : SemInv ctx q G) {order : List Name} (hord : regularOrder G = .ok order) {cj : Bool}
    (hT : cj = true → ∃ c, JC ctx q G c) (hF : cj = false → Wf OneName (fun _ => True) q.expr)
    {node : Name} {f : Expr} (hf : line10Factor q order cj node = .ok f) :
    Good ctx.S f ∧ SumND f ∧ Wf OneName (fun _ => True) f ∧
      ∀ σ, denL ctx.M.card ctx.leaf f σ = TrsoAux.ratioVal ctx.M order σ node := by
  have hnd := (regularOrder_spec hq.wfG hord).1
  unfold line10Factor at hf
  obtain ⟨i, hi, hf⟩ := bind_ok hf
  obtain ⟨l1, l2, hsplit, hlen, _⟩ := indexOf_split hi
  rw [← hlen] at hf
  cases cj with
  | true =>
    simp only [if_true, pure, Except.pure, Except.ok.injEq] at hf
    subst hf
    obtain ⟨c, jc⟩ := hT rfl
    have htake : order.take l1.length = l1 := by rw [hsplit, List.take_left]
    rw [htake]
    obtain ⟨g, v⟩ := TrsoAux.line10_joint_sem hq hord hsplit jc
    refine ⟨g, trivial, ?_, fun σ => ?_⟩
    · intro v hv w hw
      rw [List.mem_singleton] at hv hw
      rw [hv, hw]
    · rw [TrsoAux.denL_prob, v σ, TrsoAux.ratioVal_split ctx.M hnd hsplit σ]
  | false =>
    simp only [Bool.false_eq_true, if_false] at hf
    obtain ⟨g, n, w, v⟩ := den_ratio hq h hord hsplit hf
    exact ⟨g, n, w (hF rfl), fun σ => by rw [v σ, TrsoAux.ratioVal_split ctx.M hnd hsplit σ]⟩

/-- **line 10**: the expression carried into the recursion on the district `c'` denotes `Q[c']`; its leaves have one
child name each; when the carried expression was not a joint the ratio branch was taken -/
theorem sound_line10_core {ctx : Ctx} {Mb : Nat} {q q' : Query} {G : MG Name} (hq : QInv Mb q G) (h : SemInv ctx q G)
    {c' : List Name} (hc' : c' ∈ G.districts) (hcT : ∀ v ∈ c', isTnode v = false) {s : List (Pop × List Name)}
    (hq' : line10 q G c' s = .ok q') :
    Good ctx.S q'.expr ∧ SumND q'.expr ∧ Wf OneName (fun _ => True) q'.expr ∧
      ∀ σ, denL ctx.M.card ctx.leaf q'.expr σ = ctx.M.Q (nsort c') σ := by
  unfold line10 at hq'
  obtain ⟨order, hord, hq'⟩ := bind_ok hq'
  simp only [] at hq'
  obtain ⟨factors, hfac, hq'⟩ := bind_ok hq'
  obtain ⟨e', he', hq'⟩ := bind_ok hq'
  simp only [pure, Except.pure, Except.ok.injEq] at hq'
  subst hq'
  simp only []
  have hfs : ∃ cj, (cj = true → ∃ c, JC ctx q G c) ∧ (cj = false → Wf OneName (fun _ => True) q.expr) ∧
      (nsort c').mapM (line10Factor q order cj) = .ok factors := by
    revert hfac
    split
    · rename_i pop c hexpr
      intro hfac
      refine ⟨true, fun _ => ?_, fun hc => (by cases hc), hfac⟩
      rcases h.shape with ⟨pop', c2, hexpr', jc⟩ | ⟨hnj, _⟩
      · exact ⟨c2, jc⟩
      · exact absurd hexpr (hnj _ _)
    · rename_i hno
      intro hfac
      refine ⟨false, fun hc => (by cases hc), fun _ => ?_, hfac⟩
      rcases h.shape with ⟨pop', c2, hexpr', _⟩ | ⟨_, hwf⟩
      · exact absurd hexpr' (hno pop' c2)
      · exact hwf
  obtain ⟨cj, hT, hF, hfac'⟩ := hfs
  have hall : ∀ f ∈ factors, Good ctx.S f ∧ SumND f ∧ Wf OneName (fun _ => True) f := by
    intro f hf
    obtain ⟨node, _, hnode⟩ := mapM_ok hfac' f hf
    obtain ⟨g, n, w, _⟩ := TrsoAux.line10_factor_sem hq h hord hT hF hnode
    exact ⟨g, n, w⟩
  have hmap : ∀ (D' : List Name) (fs' : List Expr),
      List.Forall₂ (fun a b => line10Factor q order cj a = .ok b) D' fs' →
      ∀ σ, fs'.map (denL ctx.M.card ctx.leaf · σ) = D'.map (TrsoAux.ratioVal ctx.M order σ) := by
    intro D' fs' hF2 σ
    induction hF2 with
    | nil => rfl
    | cons h1 _ ih =>
      simp only [List.map_cons]
      rw [(TrsoAux.line10_factor_sem hq h hord hT hF h1).2.2.2 σ, ih]
  have gP : Good ctx.S (productSafe factors) := good_productSafe ctx.S (fun f hf => (hall f hf).1)
  have nP : SumND (productSafe factors) := sumND_productSafe (fun f hf => (hall f hf).2.1)
  refine ⟨good_canonicalize ctx.S gP he', sumND_canonicalize nP he',
    wf_canonicalize oneName_mono (wf_productSafe ((wfList_iff _ _ _).2 (fun f hf => (hall f hf).2.2))) he',
    fun σ => ?_⟩
  rw [denL_canonicalize ctx.S gP nP he' σ, denL_productSafe,
    hmap _ _ ((mapM_ok_iff _ _ _).mp hfac') σ]
  exact TrsoAux.tian_prod hq h hord hc' (nsort_nodup' c') (fun v => mem_nsort v c')
    (fun v hv => hcT v ((mem_nsort v c').1 hv)) σ

end Trso
end Y0
