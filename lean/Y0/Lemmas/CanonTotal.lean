/-
  Y0.Lemmas.CanonTotal — the canonicaliser returns an expression on every well-scoped input whose event variables are
  covered by the ordering and whose denominators do not vanish (no KeyError, TypeError, ZeroDivisionError).
-/
import Y0.Lemmas.SemCanon

namespace Y0
set_option linter.unusedSimpArgs false
set_option linter.unusedVariables false
set_option linter.unusedTactic false
set_option linter.unreachableTactic false

variable {env : Env} {σ' : Val}

theorem exists_inRange (hF : ProbFamily env) : ∃ σ, InRange env σ := ⟨fun _ => 0, fun x => hF.card_pos x⟩

theorem not_isZero_of_NZ (hF : ProbFamily env) {d : Expr} (h : NZ env σ' d) : d.isZero = false := by
  obtain ⟨σ, hσ⟩ := exists_inRange hF
  cases d <;> simp [Expr.isZero]
  exact h σ hσ (by simp)

theorem mkFrac_total (hF : ProbFamily env) (n : Expr) {d : Expr} (h : NZ env σ' d) : ∃ c, mkFrac n d = .ok c := by
  unfold mkFrac
  rw [not_isZero_of_NZ hF h]
  exact ⟨_, rfl⟩

theorem mulR_total (hF : ProbFamily env) (a : Expr) : ∀ (b : Expr), DenNZ env σ' b → ∃ c, Expr.mulR a b = .ok c
  | .frac n d, hb => by
    obtain ⟨hn, hd, hz⟩ := denNZ_frac_iff.mp hb
    obtain ⟨x, hx⟩ := mulR_total hF a n hn
    obtain ⟨c, hc⟩ := mkFrac_total hF x hz
    unfold Expr.mulR
    cases a <;> first
      | exact ⟨_, rfl⟩
      | (simp only [hx]; exact ⟨c, hc⟩)
  | .zero, _ => by unfold Expr.mulR; cases a <;> exact ⟨_, rfl⟩
  | .one, _ => by unfold Expr.mulR; cases a <;> exact ⟨_, rfl⟩
  | .prod gs, _ => by unfold Expr.mulR; cases a <;> exact ⟨_, rfl⟩
  | .prob _ _ _, _ => by unfold Expr.mulR; cases a <;> exact ⟨_, rfl⟩
  | .sum _ _, _ => by unfold Expr.mulR; cases a <;> exact ⟨_, rfl⟩
  | .q _ _, _ => by unfold Expr.mulR; cases a <;> exact ⟨_, rfl⟩

theorem mul_total (hF : ProbFamily env) : ∀ (a b : Expr), DenNZ env σ' a → DenNZ env σ' b → ∃ c, Expr.mul a b = .ok c
  | .one, b, _, _ => by unfold Expr.mul; exact ⟨_, rfl⟩
  | .zero, b, _, _ => by unfold Expr.mul; exact ⟨_, rfl⟩
  | .frac n d, .zero, _, _ => by unfold Expr.mul; exact ⟨_, rfl⟩
  | .frac n d, .frac n2 d2, ha, hb => by
    obtain ⟨h1, h2, h3⟩ := denNZ_frac_iff.mp ha
    obtain ⟨k1, k2, k3⟩ := denNZ_frac_iff.mp hb
    obtain ⟨x, hx⟩ := mul_total hF n n2 h1 k1
    obtain ⟨y, hy⟩ := mul_total hF d d2 h2 k2
    obtain ⟨c, hc⟩ := mkFrac_total hF x (NZ_mul h3 k3 hy)
    unfold Expr.mul
    simp only [hx, hy]
    exact ⟨c, hc⟩
  | .frac n d, .one, ha, hb => by
    obtain ⟨h1, h2, h3⟩ := denNZ_frac_iff.mp ha
    obtain ⟨x, hx⟩ := mul_total hF n _ h1 hb
    obtain ⟨c, hc⟩ := mkFrac_total hF x h3
    unfold Expr.mul; simp only [hx]; exact ⟨c, hc⟩
  | .frac n d, .prob pop ch pa, ha, hb => by
    obtain ⟨h1, h2, h3⟩ := denNZ_frac_iff.mp ha
    obtain ⟨x, hx⟩ := mul_total hF n _ h1 hb
    obtain ⟨c, hc⟩ := mkFrac_total hF x h3
    unfold Expr.mul; simp only [hx]; exact ⟨c, hc⟩
  | .frac n d, .prod gs, ha, hb => by
    obtain ⟨h1, h2, h3⟩ := denNZ_frac_iff.mp ha
    obtain ⟨x, hx⟩ := mul_total hF n _ h1 hb
    obtain ⟨c, hc⟩ := mkFrac_total hF x h3
    unfold Expr.mul; simp only [hx]; exact ⟨c, hc⟩
  | .frac n d, .sum e r, ha, hb => by
    obtain ⟨h1, h2, h3⟩ := denNZ_frac_iff.mp ha
    obtain ⟨x, hx⟩ := mul_total hF n _ h1 hb
    obtain ⟨c, hc⟩ := mkFrac_total hF x h3
    unfold Expr.mul; simp only [hx]; exact ⟨c, hc⟩
  | .frac n d, .q dd cc, ha, hb => by
    obtain ⟨h1, h2, h3⟩ := denNZ_frac_iff.mp ha
    obtain ⟨x, hx⟩ := mul_total hF n _ h1 hb
    obtain ⟨c, hc⟩ := mkFrac_total hF x h3
    unfold Expr.mul; simp only [hx]; exact ⟨c, hc⟩
  | .prob pop ch pa, b, _, hb => by unfold Expr.mul; exact mulR_total hF _ b hb
  | .prod fs, b, _, hb => by unfold Expr.mul; exact mulR_total hF _ b hb
  | .sum e r, b, _, hb => by unfold Expr.mul; exact mulR_total hF _ b hb
  | .q dd cc, b, _, hb => by unfold Expr.mul; exact mulR_total hF _ b hb

/-- `a / b` does not raise when the divisor never vanishes -/
theorem div_total (hF : ProbFamily env) (a b : Expr) (ha : DenNZ env σ' a) (hb : DenNZ env σ' b) (hz : NZ env σ' b) :
    ∃ c, Expr.div a b = .ok c := by
  have hbz := not_isZero_of_NZ hF hz
  cases a <;> cases b <;> simp only [Expr.div] <;>
  first
    | exact ⟨_, rfl⟩
    | exact mkFrac_total hF _ hz
    | (simp [Expr.isZero] at hbz; done)
    | (simp only [hbz]; exact ⟨_, rfl⟩)
    | (obtain ⟨h1, h2, h3⟩ := denNZ_frac_iff.mp ha
       obtain ⟨k1, k2, k3⟩ := denNZ_frac_iff.mp hb
       obtain ⟨x, hx⟩ := mul_total hF _ _ h1 k2
       obtain ⟨y, hy⟩ := mul_total hF _ _ h2 k1
       obtain ⟨c, hc⟩ := mkFrac_total hF x (NZ_mul h3 (NZ_frac_parts hz).1 hy)
       simp only [hx, hy]; exact ⟨c, hc⟩)
    | (obtain ⟨h1, h2, h3⟩ := denNZ_frac_iff.mp ha
       obtain ⟨y, hy⟩ := mul_total hF _ _ h2 hb
       obtain ⟨c, hc⟩ := mkFrac_total hF _ (NZ_mul h3 hz hy)
       simp only [hy]; exact ⟨c, hc⟩)
    | (obtain ⟨k1, k2, k3⟩ := denNZ_frac_iff.mp hb
       obtain ⟨x, hx⟩ := mul_total hF _ _ ha k2
       obtain ⟨c, hc⟩ := mkFrac_total hF x (NZ_frac_parts hz).1
       simp only [hx]; exact ⟨c, hc⟩)

theorem sortVars_total {lvl : Name → Option Nat} : ∀ (vs : List Var), (∀ v ∈ vs, (lvl v.name).isSome = true) →
    ∃ vs', sortVars lvl vs = .ok vs' := by
  intro vs h
  have : ∃ keyed, vs.mapM (fun v => do pure (← varLevelKey lvl v, v)) = Except.ok keyed := by
    induction vs with
    | nil => exact ⟨[], rfl⟩
    | cons v vs ih =>
      obtain ⟨keyed, hk⟩ := ih (fun w hw => h w (List.mem_cons_of_mem _ hw))
      obtain ⟨l, hl⟩ := Option.isSome_iff_exists.mp (h v List.mem_cons_self)
      refine ⟨(.tup [.atom l, v.totalKey], v) :: keyed, ?_⟩
      rw [List.mapM_cons, hk]
      simp [varLevelKey, hl]
  obtain ⟨keyed, hk⟩ := this
  exact ⟨_, by unfold sortVars; rw [hk]; rfl⟩

theorem covers_sum {lvl : Name → Option Nat} {e : Expr} {r : List Var} (h : Covers lvl (.sum e r)) : Covers lvl e := by
  intro v hv; exact h v (by simpa [Expr.eventVars] using hv)
theorem covers_frac {lvl : Name → Option Nat} {n d : Expr} (h : Covers lvl (.frac n d)) :
    Covers lvl n ∧ Covers lvl d :=
  ⟨fun v hv => h v (by simp [Expr.eventVars, hv]), fun v hv => h v (by simp [Expr.eventVars, hv])⟩
def CoversList (lvl : Name → Option Nat) (fs : List Expr) : Prop := ∀ v ∈ Expr.eventVarsList fs, (lvl v.name).isSome = true
theorem covers_prod {lvl : Name → Option Nat} {fs : List Expr} (h : Covers lvl (.prod fs)) : CoversList lvl fs := by
  intro v hv; exact h v (by simpa [Expr.eventVars] using hv)
theorem coversList_cons {lvl : Name → Option Nat} {e : Expr} {es : List Expr} (h : CoversList lvl (e :: es)) :
    Covers lvl e ∧ CoversList lvl es :=
  ⟨fun v hv => h v (by simp [Expr.eventVarsList, hv]), fun v hv => h v (by simp [Expr.eventVarsList, hv])⟩

mutual
/-- **totality** (C10 `canon_total`) -/
theorem canonL_total (hF : ProbFamily env) {S : List Name} {lvl : Name → Option Nat} : ∀ (e : Expr),
    Expr.wss S e = true → Covers lvl e → DenNZ env σ' e → ∃ e', canonL lvl e = .ok e'
  | .prob pop c p, hw, hc, _ => by
    obtain ⟨c', h1⟩ := sortVars_total (lvl := lvl) c (fun v hv => hc v (by simp [Expr.eventVars, hv]))
    obtain ⟨p', h2⟩ := sortVars_total (lvl := lvl) p (fun v hv => hc v (by simp [Expr.eventVars, hv]))
    exact ⟨.prob pop c' p', by unfold canonL; rw [h1, h2]; rfl⟩
  | .sum e r, hw, hc, hz => by
    obtain ⟨x, hx⟩ := canonL_total hF e (wss_sum_iff.mp hw).2 (covers_sum hc) (denNZ_sum_iff.mp hz)
    exact ⟨_, by unfold canonL; rw [hx]; rfl⟩
  | .prod fs, hw, hc, hz => by
    obtain ⟨x, hx⟩ := canonFactors_total hF fs (wss_prod_iff.mp hw) (covers_prod hc) (denNZ_prod_iff.mp hz)
    exact ⟨_, by unfold canonL; rw [hx]; rfl⟩
  | .frac n d, hw, hc, hz => by
    obtain ⟨hwn, hwd⟩ := wss_frac_iff.mp hw
    obtain ⟨hzn, hzd, hnz⟩ := denNZ_frac_iff.mp hz
    obtain ⟨n', hn⟩ := canonL_total hF n hwn (covers_frac hc).1 hzn
    obtain ⟨d', hd⟩ := canonL_total hF d hwd (covers_frac hc).2 hzd
    obtain ⟨in1, in2⟩ := canonL_den hF n n' hwn hzn hn
    obtain ⟨id1, id2⟩ := canonL_den hF d d' hwd hzd hd
    have hnz' : NZ env σ' d' := fun σ hσ => by rw [id1 σ hσ]; exact hnz σ hσ
    obtain ⟨rv, hrv⟩ := div_total hF n' d' in2 id2 hnz'
    unfold canonL
    rw [hn, hd]
    simp only [bind, Except.bind]
    split
    · exact ⟨_, rfl⟩
    · split
      · exact ⟨_, rfl⟩
      · rw [hrv]; exact ⟨_, rfl⟩
  | .one, _, _, _ => ⟨.one, by unfold canonL; rfl⟩
  | .zero, _, _, _ => ⟨.zero, by unfold canonL; rfl⟩
  | .q _ _, hw, _, _ => by simp [Expr.wss] at hw
theorem canonFactors_total (hF : ProbFamily env) {S : List Name} {lvl : Name → Option Nat} : ∀ (fs : List Expr),
    (∀ e ∈ fs, Expr.wss S e = true) → CoversList lvl fs → (∀ e ∈ fs, DenNZ env σ' e) →
    ∃ fs', canonFactors lvl fs = .ok fs'
  | [], _, _, _ => ⟨[], by unfold canonFactors; rfl⟩
  | .prod gs :: rest, hw, hc, hz => by
    obtain ⟨a, ha⟩ := canonFactors_total hF gs (wss_prod_iff.mp (hw _ List.mem_cons_self))
      (covers_prod (coversList_cons hc).1) (denNZ_prod_iff.mp (hz _ List.mem_cons_self))
    obtain ⟨b, hb⟩ := canonFactors_total hF rest (fun x hx => hw x (List.mem_cons_of_mem _ hx)) (coversList_cons hc).2
      (fun x hx => hz x (List.mem_cons_of_mem _ hx))
    exact ⟨a ++ b, by unfold canonFactors; rw [ha, hb]; rfl⟩
  | .prob pop c p :: rest, hw, hc, hz => by
    obtain ⟨a, ha⟩ := canonL_total hF _ (hw _ List.mem_cons_self) (coversList_cons hc).1 (hz _ List.mem_cons_self)
    obtain ⟨b, hb⟩ := canonFactors_total hF rest (fun x hx => hw x (List.mem_cons_of_mem _ hx)) (coversList_cons hc).2
      (fun x hx => hz x (List.mem_cons_of_mem _ hx))
    exact ⟨a :: b, by unfold canonFactors; rw [ha, hb]; rfl⟩
  | .sum e0 r :: rest, hw, hc, hz => by
    obtain ⟨a, ha⟩ := canonL_total hF _ (hw _ List.mem_cons_self) (coversList_cons hc).1 (hz _ List.mem_cons_self)
    obtain ⟨b, hb⟩ := canonFactors_total hF rest (fun x hx => hw x (List.mem_cons_of_mem _ hx)) (coversList_cons hc).2
      (fun x hx => hz x (List.mem_cons_of_mem _ hx))
    exact ⟨a :: b, by unfold canonFactors; rw [ha, hb]; rfl⟩
  | .frac n d :: rest, hw, hc, hz => by
    obtain ⟨a, ha⟩ := canonL_total hF _ (hw _ List.mem_cons_self) (coversList_cons hc).1 (hz _ List.mem_cons_self)
    obtain ⟨b, hb⟩ := canonFactors_total hF rest (fun x hx => hw x (List.mem_cons_of_mem _ hx)) (coversList_cons hc).2
      (fun x hx => hz x (List.mem_cons_of_mem _ hx))
    exact ⟨a :: b, by unfold canonFactors; rw [ha, hb]; rfl⟩
  | .one :: rest, hw, hc, hz => by
    obtain ⟨a, ha⟩ := canonL_total hF _ (hw _ List.mem_cons_self) (coversList_cons hc).1 (hz _ List.mem_cons_self)
    obtain ⟨b, hb⟩ := canonFactors_total hF rest (fun x hx => hw x (List.mem_cons_of_mem _ hx)) (coversList_cons hc).2
      (fun x hx => hz x (List.mem_cons_of_mem _ hx))
    exact ⟨a :: b, by unfold canonFactors; rw [ha, hb]; rfl⟩
  | .zero :: rest, hw, hc, hz => by
    obtain ⟨a, ha⟩ := canonL_total hF _ (hw _ List.mem_cons_self) (coversList_cons hc).1 (hz _ List.mem_cons_self)
    obtain ⟨b, hb⟩ := canonFactors_total hF rest (fun x hx => hw x (List.mem_cons_of_mem _ hx)) (coversList_cons hc).2
      (fun x hx => hz x (List.mem_cons_of_mem _ hx))
    exact ⟨a :: b, by unfold canonFactors; rw [ha, hb]; rfl⟩
  | .q dd cc :: rest, hw, _, _ => by
    have := hw _ List.mem_cons_self
    simp [Expr.wss] at this
end

end Y0
