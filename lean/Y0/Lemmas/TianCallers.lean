/-
  Y0.Lemmas.TianCallers — the way y0 itself calls the Tian–Pearl routines.

  The only caller of `tian_id.py` inside y0 is `transport_district_intervening_on_parents`
  (counterfactual_transport/api.py, Algorithm 4 of Correa, Lee & Bareinboim 2022; `Y0.CtfTr.sigmaTRDomain`):

      Q[B]  := compute_c_factor(B, V, P^k(V), topo)            -- Lemma 1 on the domain's distribution
      result := identify_district_variables(C, B, Q[B], G^k, topo)

  so the expression handed to IDENTIFY as `Q[T]` is never arbitrary: it is the OUTPUT of `compute_c_factor`.
  `computeCFactor_probShape` shows that this output always satisfies the shape hypothesis `ProbShape` of
  `Y0.tian_sound` (it is a `Product`/`Fraction`/`Sum`, or the single factor `P_w(v | Z ∪ pred(v))` of a one-variable
  district), provided the distribution given for the domain does.  The recursion of IDENTIFY itself re-establishes the
  shape at every level in the same way (`TianIdentify.identifyAux_sound`).
-/
import Y0.Lemmas.TianTotal
import Y0.Lemmas.CtfFactor
import Y0.Lemmas.TrsoVocab
import Y0.Model.CtfTr

namespace Y0
namespace TianCallers
open Tian TianDsl TianDen TianSpec TianLemma1 TianIdentify TianGraph

/-! ### `sorted(set(…))` is duplicate free -/

theorem trInsertStable_perm {α} (lt : α → α → Bool) (x : α) :
    ∀ l : List α, (TrDsl.insertStable lt x l).Perm (x :: l)
  | [] => List.Perm.refl _
  | y :: ys => by
    unfold TrDsl.insertStable
    split
    · exact ((trInsertStable_perm lt x ys).cons y).trans (List.Perm.swap x y ys)
    · exact List.Perm.refl _

theorem trSsort_perm {α} (lt : α → α → Bool) : ∀ l : List α, (TrDsl.ssort lt l).Perm l
  | [] => List.Perm.refl _
  | x :: xs => by
    show (TrDsl.insertStable lt x (TrDsl.ssort lt xs)).Perm (x :: xs)
    exact (trInsertStable_perm lt x _).trans ((trSsort_perm lt xs).cons x)

theorem nsort_nodup (l : List Name) : (Trso.nsort l).Nodup := by
  unfold Trso.nsort
  exact (trSsort_perm _ _).nodup_iff.mpr (nodup_dedup' l)

theorem mem_nsort' (v : Name) (l : List Name) : v ∈ Trso.nsort l ↔ v ∈ l := by
  unfold Trso.nsort
  rw [(trSsort_perm _ _).mem_iff, mem_dedup']

/-! ### the output of `compute_c_factor` has the shape IDENTIFY needs -/

/-- whatever `compute_c_factor` returns for the district `D` satisfies `ProbShape … D`: Lemma 4 never returns a bare
probability, Lemma 1 returns one only for a one-variable district, and then it is `P_w(v | Z ∪ pred(v))` -/
theorem computeCFactor_probShape {G : MG Name} {topo S D : List Name} {q e : Expr}
    (hsub : ∀ v ∈ topo.filter (· ∈ S), v ∈ G.nodes)
    (hDH : ∀ v ∈ D, v ∈ topo.filter (· ∈ S)) (hDnd : D.Nodup)
    (hshape : ProbShape q (topo.filter (· ∈ S)))
    (h : computeCFactor D S q topo = .ok e) (D' : List Name) (hD' : D.Perm D') : ProbShape e D' := by
  unfold computeCFactor at h
  simp only at h
  split at h
  · rename_i hfps
    exact probShape_of_not_prob (lemma4_not_prob (isProb_of_fps hfps) h)
  · split at h
    · cases h
    · rename_i hprob
      cases q with
      | prob pop ch pa =>
        obtain ⟨w, hs⟩ := shape_of_probShape (G := G) hshape
        exact lemma1_probShape hs hsub hDH hDnd h _ hD'
      | _ => simp [isProb] at hprob

/-! ### districts are closed under bidirected edges -/

theorem district_biClosed (G : MG Name) (hG : G.WF) (d : List Name) (hd : d ∈ G.districts) (H : List Name) :
    BiClosedIn G d H := by
  intro v hv w _ hwd
  by_contra hbi
  have hbi' : G.hasBi v w = true := by simpa using hbi
  exact hwd ((MG.districts_spec G hG d hd v hv w).mpr
    (Relation.ReflTransGen.single ((MG.hasBi_iff G v w).mp hbi')))

theorem biClosedIn_congr {G : MG Name} {D D' H : List Name} (h : ∀ v, v ∈ D ↔ v ∈ D')
    (hc : BiClosedIn G D H) : BiClosedIn G D' H :=
  fun v hv w hw hwd => hc v ((h v).mpr hv) w hw (fun hm => hwd ((h w).mp hm))

/-! ### one domain of `transport_district_intervening_on_parents` -/

/-- what a successful run of `sigmaTRDomain` went through: `B` (sorted, duplicate free) is empty or has the members
of one district of the domain graph; `Q[B]` comes from `compute_c_factor`; the answer from IDENTIFY -/
theorem sigmaTRDomain_inv {district : List Name} {d : CtfTr.Domain} {r : Option Expr} (hG : d.graph.WF)
    (h : CtfTr.sigmaTRDomain district d = .ok r) :
    ∃ (B : List Name) (q : Expr), B.Nodup ∧ (∀ H, BiClosedIn d.graph B H) ∧
      computeCFactor B (CtfTr.regular d.graph) d.pop d.topo = .ok q ∧
      identify d.graph (Trso.nsort district) B q d.topo = .ok r := by
  unfold CtfTr.sigmaTRDomain at h
  cases hds : district.mapM d.graph.getDistrict with
  | error err => rw [hds] at h; simp [bind, Except.bind] at h
  | ok ds =>
    rw [hds] at h
    simp only [bind, Except.bind] at h
    split at h
    · simp [throw, throwThe, MonadExceptOf.throw] at h
    · rename_i hany
      cases hq : computeCFactor (Trso.nsort ds.flatten) (CtfTr.regular d.graph) d.pop d.topo with
      | error err => rw [hq] at h; simp at h
      | ok q =>
        rw [hq] at h
        simp only at h
        refine ⟨Trso.nsort ds.flatten, q, nsort_nodup _, ?_, hq, h⟩
        intro H
        cases ds with
        | nil =>
          intro v hv
          simp [Trso.nsort, TrDsl.ssort, dedup'] at hv
        | cons x xs =>
          have hall := mapM_ok_forall₂ _ _ _ hds
          obtain ⟨a, _, hax⟩ := forall₂_exists_left hall x List.mem_cons_self
          obtain ⟨hxd, _⟩ := Ctf.getDistrict_ok d.graph a x hax
          have hseq : seteq' x (Trso.nsort (x :: xs).flatten) = true := by
            have := hany
            simp only [List.any_eq_true, Bool.not_eq_true', not_exists, not_and, Bool.not_eq_false] at this
            exact this x List.mem_cons_self
          exact biClosedIn_congr (seteq'_iff.mp hseq) (district_biClosed d.graph hG x hxd H)

end TianCallers
end Y0
