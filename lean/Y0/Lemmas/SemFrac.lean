/-
  Y0.Lemmas.SemFrac — `Fraction.simplify` / `_simplify_parts` preserve the denotation when the denominator does not vanish.
-/
import Y0.Lemmas.SemMutate
import Mathlib.Data.List.Range

namespace Y0
set_option linter.unusedSimpArgs false
set_option linter.unusedVariables false

variable {env : Env} {σ' : Val}

/-- the denominator factors that are not cancelled -/
def remaining (l : List (Expr × Nat)) (can : List Nat) : List Expr :=
  (l.filter (fun p => decide (p.2 ∉ can))).map (·.1)

theorem findCancel_go_spec (n : Expr) (can : List Nat) : ∀ (ds : List Expr) (j0 j : Nat),
    findCancel.go n can ds j0 = some j → j ∉ can ∧ ∃ d, (d, j) ∈ ds.zipIdx j0 ∧ n = d
  | [], j0, j, h => by simp [findCancel.go] at h
  | d :: ds, j0, j, h => by
    unfold findCancel.go at h
    split at h
    · obtain ⟨h1, d', hd', e⟩ := findCancel_go_spec n can ds (j0 + 1) j h
      exact ⟨h1, d', by simp [List.zipIdx_cons, hd'], e⟩
    · rename_i hj
      split at h
      · rename_i heq
        cases h
        exact ⟨hj, d, by simp [List.zipIdx_cons], Expr.eqb_sound _ _ heq⟩
      · obtain ⟨h1, d', hd', e⟩ := findCancel_go_spec n can ds (j0 + 1) j h
        exact ⟨h1, d', by simp [List.zipIdx_cons, hd'], e⟩

theorem denProd_remaining_step (σ : Val) : ∀ (l : List (Expr × Nat)), (l.map (·.2)).Nodup →
    ∀ (d : Expr) (j : Nat) (can : List Nat), (d, j) ∈ l → j ∉ can →
    denProd env σ' (remaining l can) σ = den env σ' d σ * denProd env σ' (remaining l (j :: can)) σ := by
  intro l
  induction l with
  | nil => intro _ d j can h; cases h
  | cons a l ih =>
    intro hn d j can hm hj
    rw [List.map_cons, List.nodup_cons] at hn
    unfold remaining at *
    rcases List.mem_cons.mp hm with rfl | hm
    · -- the head is the cancelled one; nothing else has index j
      have h1 : (((d, j) :: l).filter (fun p => decide (p.2 ∉ can))) = (d, j) :: l.filter (fun p => decide (p.2 ∉ can)) := by
        rw [List.filter_cons_of_pos (by simpa using hj)]
      have h2 : (((d, j) :: l).filter (fun p => decide (p.2 ∉ j :: can))) = l.filter (fun p => decide (p.2 ∉ can)) := by
        rw [List.filter_cons_of_neg (by simp)]
        apply List.filter_congr
        intro p hp
        have : p.2 ≠ j := fun e => hn.1 (List.mem_map.mpr ⟨p, hp, e⟩)
        simp [this]
      rw [h1, h2]; simp
    · have hne : a.2 ≠ j := fun e => hn.1 (by rw [e]; exact List.mem_map.mpr ⟨(d, j), hm, rfl⟩)
      by_cases ha : a.2 ∈ can
      · rw [List.filter_cons_of_neg (by simpa using ha), List.filter_cons_of_neg (by simp [ha])]
        exact ih hn.2 d j can hm hj
      · rw [List.filter_cons_of_pos (by simpa using ha), List.filter_cons_of_pos (by simp [ha, hne])]
        simp only [List.map_cons, denProd_cons]
        rw [ih hn.2 d j can hm hj]; ring

theorem nodup_zipIdx_snd (ds : List Expr) (k : Nat) : ((ds.zipIdx k).map (·.2)).Nodup := by
  induction ds generalizing k with
  | nil => simp
  | cons d ds ih =>
    simp only [List.zipIdx_cons, List.map_cons, List.nodup_cons]
    refine ⟨?_, ih (k + 1)⟩
    intro h
    obtain ⟨p, hp, e⟩ := List.mem_map.mp h
    have := List.le_snd_of_mem_zipIdx hp
    omega

theorem remaining_nil (ds : List Expr) : remaining ds.zipIdx [] = ds := by
  unfold remaining
  simp

/-- invariant of the cancellation loop -/
theorem loop_spec (ds : List Expr) (σ : Val) (hnz : ∀ f ∈ ds, den env σ' f σ ≠ 0) :
    ∀ (ns keptRev : List Expr) (can : List Nat),
      denProd env σ' keptRev.reverse σ * denProd env σ' ns σ / denProd env σ' (remaining ds.zipIdx can) σ =
        denProd env σ' (simplifyPartsHelper.loop ds ns keptRev can).1 σ /
          denProd env σ' (remaining ds.zipIdx (simplifyPartsHelper.loop ds ns keptRev can).2) σ
  | [], keptRev, can => by simp [simplifyPartsHelper.loop]
  | n :: ns, keptRev, can => by
    unfold simplifyPartsHelper.loop
    split
    · rename_i j hj
      unfold findCancel at hj
      obtain ⟨hjc, d, hd, rfl⟩ := findCancel_go_spec n can ds 0 j hj
      rw [← loop_spec ds σ hnz ns keptRev (j :: can)]
      rw [denProd_remaining_step σ _ (nodup_zipIdx_snd ds 0) n j can hd hjc]
      have hn0 : den env σ' n σ ≠ 0 := hnz n (List.fst_mem_of_mem_zipIdx hd)
      simp only [denProd_cons]
      rw [mul_comm (den env σ' n σ) (denProd env σ' ns σ), ← mul_assoc, mul_comm (den env σ' n σ), mul_div_mul_right _ _ hn0]
    · rw [← loop_spec ds σ hnz ns (n :: keptRev) can]
      simp only [List.reverse_cons, denProd_append, denProd_cons, denProd_nil, mul_one, mul_assoc]

theorem simplifyPartsHelper_den (ns ds : List Expr) (σ : Val) (hnz : ∀ f ∈ ds, den env σ' f σ ≠ 0) :
    denProd env σ' (simplifyPartsHelper ns ds).1 σ / denProd env σ' (simplifyPartsHelper ns ds).2 σ =
      denProd env σ' ns σ / denProd env σ' ds σ := by
  have := loop_spec ds σ hnz ns [] []
  simp only [List.reverse_nil, denProd_nil, one_mul, remaining_nil] at this
  rw [this]
  unfold simplifyPartsHelper remaining
  rfl

theorem simplifyParts_den {ns ds : List Expr} {c : Expr} (h : simplifyParts ns ds = .ok c) (σ : Val)
    (hnz : ∀ f ∈ ds, den env σ' f σ ≠ 0) : den env σ' c σ = denProd env σ' ns σ / denProd env σ' ds σ := by
  rw [← simplifyPartsHelper_den ns ds σ hnz]
  unfold simplifyParts at h
  generalize simplifyPartsHelper ns ds = r at h ⊢
  obtain ⟨nn, dd⟩ := r
  simp only at h ⊢
  match nn, dd, h with
  | [], [], h => cases h; simp
  | _ :: _, [], h => cases h; simp [productSafe_den]
  | [], _ :: _, h => rw [div_den _ _ _ h]; simp [productSafe_den]
  | _ :: _, _ :: _, h => rw [den_mkFrac h]; simp [productSafe_den]

theorem denProd_ne_zero_iff {fs : List Expr} {σ : Val} (h : denProd env σ' fs σ ≠ 0) :
    ∀ f ∈ fs, den env σ' f σ ≠ 0 := by
  intro f hf h0
  exact h (denProd_eq_zero_of_mem hf σ h0)

theorem fracSimplifyTail_den {n d c : Expr} (h : fracSimplifyTail n d = .ok c) (σ : Val)
    (hd : den env σ' d σ ≠ 0) : den env σ' c σ = den env σ' n σ / den env σ' d σ := by
  unfold fracSimplifyTail at h
  split at h
  · rename_i h4
    cases h
    have := Expr.eqb_sound _ _ h4; subst this
    simp [div_self hd]
  · split at h
    · rw [simplifyParts_den h σ (denProd_ne_zero_iff (by simpa using hd))]; simp
    · rw [simplifyParts_den h σ (by intro f hf; simp at hf; subst hf; exact hd)]; simp
    · rw [simplifyParts_den h σ (denProd_ne_zero_iff (by simpa using hd))]; simp
    · cases h; simp

/-- **`Fraction(n, d).simplify()` denotes `n / d`** wherever the denominator does not vanish (C13 `fraction_simplify_den`) -/
theorem fraction_simplify_den : ∀ (n d c : Expr), Expr.fracSimplify n d = .ok c → ∀ σ,
    den env σ' d σ ≠ 0 → den env σ' c σ = den env σ' n σ / den env σ' d σ
  | n, .one, c, h, σ, hd => by unfold Expr.fracSimplify at h; cases h; simp
  | n, .frac dn dd, c, h, σ, hd => by
    unfold Expr.fracSimplify at h
    split at h
    · rename_i h2; cases h; rw [Expr.isZero_iff.mp h2]; simp
    · split at h
      · rename_i h3
        split at h
        · cases h
        · have hnd : den env σ' dn σ ≠ 0 := fun h0 => hd (by simp [h0])
          rw [fraction_simplify_den dd dn c h σ hnd, Expr.isOne_iff.mp h3]
          simp
      · exact fracSimplifyTail_den h σ hd
  | n, .prob pop ch pa, c, h, σ, hd => by
    unfold Expr.fracSimplify at h
    split at h
    · rename_i h2; cases h; rw [Expr.isZero_iff.mp h2]; simp
    · split at h
      · cases h; simp
      · exact fracSimplifyTail_den h σ hd
  | n, .prod ds, c, h, σ, hd => by
    unfold Expr.fracSimplify at h
    split at h
    · rename_i h2; cases h; rw [Expr.isZero_iff.mp h2]; simp
    · split at h
      · cases h; simp
      · exact fracSimplifyTail_den h σ hd
  | n, .sum e r, c, h, σ, hd => by
    unfold Expr.fracSimplify at h
    split at h
    · rename_i h2; cases h; rw [Expr.isZero_iff.mp h2]; simp
    · split at h
      · cases h; simp
      · exact fracSimplifyTail_den h σ hd
  | n, .zero, c, h, σ, hd => by simp at hd
  | n, .q dd cc, c, h, σ, hd => by
    unfold Expr.fracSimplify at h
    split at h
    · rename_i h2; cases h; rw [Expr.isZero_iff.mp h2]; simp
    · split at h
      · cases h; simp
      · exact fracSimplifyTail_den h σ hd

end Y0
