/-
  Y0.Lemmas.CfFscm — elementary facts about the probability of a conjunction of counterfactual events in a
  functional SCM (Y0/Spec/Fscm.lean): an intervened variable takes its intervention value, a conjunction that can
  never hold has probability 0, probability only depends on which noise points satisfy the conjunction.
-/
import Y0.Spec.Fscm
import Mathlib.Data.Rat.Defs
import Mathlib.Data.List.Basic

namespace Y0.Fscm

/-! ### sums -/

theorem sum_map_zero {α} (l : List α) (f : α → Rat) (h : ∀ x ∈ l, f x = 0) : (l.map f).sum = 0 := by
  induction l with
  | nil => rfl
  | cons x xs ih =>
    simp only [List.map_cons, List.sum_cons]
    rw [h x (by simp), ih (fun y hy => h y (by simp [hy]))]
    exact zero_add 0

theorem sum_map_congr {α} (l : List α) (f g : α → Rat) (h : ∀ x ∈ l, f x = g x) : (l.map f).sum = (l.map g).sum := by
  induction l with
  | nil => rfl
  | cons x xs ih =>
    simp only [List.map_cons, List.sum_cons]
    rw [h x (by simp), ih (fun y hy => h y (by simp [hy]))]

/-- a conjunction that holds at no noise point has probability 0 -/
theorem prob_eq_zero_of_never (M : Model) (cs : List Conjunct) (h : ∀ u, cs.all (holds M u) = false) :
    prob M cs = 0 := by
  unfold prob
  apply sum_map_zero
  rintro ⟨u, w⟩ _
  simp [h u]

/-- the probability only depends on the set of noise points at which the conjunction holds -/
theorem prob_congr (M : Model) (cs cs' : List Conjunct) (h : ∀ u, cs.all (holds M u) = cs'.all (holds M u)) :
    prob M cs = prob M cs' := by
  unfold prob
  apply sum_map_congr
  rintro ⟨u, w⟩ _
  simp [h u]

/-! ### effectiveness: an intervened variable takes its intervention value -/

theorem step_self (M : Model) (u : NoisePoint) (d : Do) (σ : Valuation) (v : Name) (x : Nat)
    (h : forced d v = some x) : step M u d σ v v = x := by
  simp [step, h, update]

theorem step_other (M : Model) (u : NoisePoint) (d : Do) (σ : Valuation) (v w : Name) (h : w ≠ v) :
    step M u d σ v w = σ w := by
  unfold step
  cases forced d v <;> simp [update, h]

theorem foldl_step_forced (M : Model) (u : NoisePoint) (d : Do) (v : Name) (x : Nat) (h : forced d v = some x)
    (l : List Name) (σ : Valuation) (hσ : σ v = x ∨ v ∈ l) : (l.foldl (step M u d) σ) v = x := by
  induction l generalizing σ with
  | nil => simpa using hσ
  | cons w ws ih =>
    simp only [List.foldl_cons]
    apply ih
    by_cases hw : v = w
    · subst hw; exact Or.inl (step_self M u d σ v x h)
    · rcases hσ with hσ | hσ
      · exact Or.inl (by rw [step_other M u d σ w v hw]; exact hσ)
      · simp only [List.mem_cons] at hσ
        rcases hσ with hσ | hσ
        · exact absurd hσ hw
        · exact Or.inr hσ

/-- **Effectiveness.**  In the world `d`, a variable of the model that `d` forces to `x` has the value `x`,
at every noise point. -/
theorem solve_forced (M : Model) (u : NoisePoint) (d : Do) (v : Name) (x : Nat) (hv : v ∈ M.order)
    (h : forced d v = some x) : solve M u d v = x :=
  foldl_step_forced M u d v x h M.order _ (Or.inr hv)

/-! ### conjunctions -/

/-- a conjunct that forces its own variable to another value never holds -/
theorem holds_false_of_forced_ne (M : Model) (u : NoisePoint) (c : Conjunct) (x : Nat) (hv : c.var ∈ M.order)
    (h : forced c.world c.var = some x) (hne : x ≠ c.val) : holds M u c = false := by
  simp [holds, solve_forced M u c.world c.var x hv h, hne]

/-- a conjunct that forces its own variable to its own value always holds -/
theorem holds_true_of_forced_eq (M : Model) (u : NoisePoint) (c : Conjunct) (hv : c.var ∈ M.order)
    (h : forced c.world c.var = some c.val) : holds M u c = true := by
  simp [holds, solve_forced M u c.world c.var c.val hv h]

/-- **ID\* line 2 / 'inconsistent'.**  A conjunction containing a conjunct that can never hold has probability 0. -/
theorem prob_zero_of_impossible_conjunct (M : Model) (cs : List Conjunct) (c : Conjunct) (hc : c ∈ cs)
    (h : ∀ u, holds M u c = false) : prob M cs = 0 := by
  apply prob_eq_zero_of_never
  intro u
  rw [List.all_eq_false]
  exact ⟨c, hc, by simp [h u]⟩

/-- **ID\* line 3.**  Dropping conjuncts that always hold does not change the probability. -/
theorem prob_filter_of_always (M : Model) (cs : List Conjunct) (keep : Conjunct → Bool)
    (h : ∀ c ∈ cs, keep c = false → ∀ u, holds M u c = true) : prob M (cs.filter keep) = prob M cs := by
  apply prob_congr
  intro u
  rw [Bool.eq_iff_iff]
  simp only [List.all_eq_true, List.mem_filter]
  constructor
  · intro hall c hc
    by_cases hk : keep c = true
    · exact hall c ⟨hc, hk⟩
    · exact h c hc (by simpa using hk) u
  · intro hall c hc
    exact hall c hc.1

/-- **Conflict.**  If two conjuncts are about the same random variable on the support of the conjunction but demand
different values, the conjunction has probability 0. -/
theorem prob_zero_of_conflict (M : Model) (cs : List Conjunct) (c₁ c₂ : Conjunct) (h₁ : c₁ ∈ cs) (h₂ : c₂ ∈ cs)
    (hsame : ∀ u, cs.all (holds M u) = true → solve M u c₁.world c₁.var = solve M u c₂.world c₂.var)
    (hne : c₁.val ≠ c₂.val) : prob M cs = 0 := by
  apply prob_eq_zero_of_never
  intro u
  by_contra hall
  have hall : cs.all (holds M u) = true := by simpa using hall
  have e := hsame u hall
  rw [List.all_eq_true] at hall
  have a₁ := hall c₁ h₁
  have a₂ := hall c₂ h₂
  simp only [holds, beq_iff_eq] at a₁ a₂
  exact hne (by rw [← a₁, ← a₂, e])

/-- **Relabelling (Lemma 25, one step).**  Replacing a conjunct about `b` by the same demand on `a` preserves the
probability when `a` and `b` coincide wherever the remaining conjuncts hold. -/
theorem prob_relabel (M : Model) (rest : List Conjunct) (c c' : Conjunct) (hval : c.val = c'.val)
    (hsame : ∀ u, rest.all (holds M u) = true → solve M u c.world c.var = solve M u c'.world c'.var) :
    prob M (c :: rest) = prob M (c' :: rest) := by
  apply prob_congr
  intro u
  simp only [List.all_cons]
  by_cases hr : rest.all (holds M u) = true
  · simp only [hr, Bool.and_true, holds, hsame u hr, hval]
  · have : rest.all (holds M u) = false := by simpa using hr
    simp [this]

/-! ### events of the DSL -/

/-- a subscript set that assigns at most one value per variable -/
def ConsistentSubs (S : List Iv) : Prop := ∀ i ∈ S, ∀ j ∈ S, i.name = j.name → i = j

theorem forced_worldOf (ν : BaseValues) (S : List Iv) (i : Iv) (hi : i ∈ S) (hS : ConsistentSubs S) :
    forced (worldOf ν S) i.name = some (ivValue ν i) := by
  unfold forced worldOf
  induction S with
  | nil => cases hi
  | cons j js ih =>
    simp only [List.map_cons, List.find?_cons]
    by_cases hj : j.name = i.name
    · have : j = i := hS j (by simp) i hi hj
      subst this
      simp
    · simp only [hj, decide_false]
      have hi' : i ∈ js := by
        rcases List.mem_cons.1 hi with rfl | h
        · exact absurd rfl hj
        · exact h
      exact ih hi' (fun a ha b hb => hS a (by simp [ha]) b (by simp [hb]))

end Y0.Fscm

namespace Y0.Fscm

/-- generalisation of `prob_filter_of_always` to a list that is mapped to conjuncts -/
theorem prob_map_filter {α} (M : Model) (l : List α) (f : α → Conjunct) (keep : α → Bool)
    (h : ∀ a ∈ l, keep a = false → ∀ u, holds M u (f a) = true) :
    prob M ((l.filter keep).map f) = prob M (l.map f) := by
  apply prob_congr
  intro u
  rw [Bool.eq_iff_iff]
  simp only [List.all_eq_true, List.mem_map, List.mem_filter]
  constructor
  · rintro hall c ⟨a, ha, rfl⟩
    by_cases hk : keep a = true
    · exact hall _ ⟨a, ⟨ha, hk⟩, rfl⟩
    · exact h a ha (by simpa using hk) u
  · rintro hall c ⟨a, ⟨ha, _⟩, rfl⟩
    exact hall _ ⟨a, ha, rfl⟩

/-- an event over variables of the model, with values named after their variable and consistent subscript sets:
the quantifier of C07 / C08 / C18 ("V under interventions S takes value v, S a consistent value assignment") -/
structure EventWF (M : Model) (ev : List (Var × Iv)) : Prop where
  names : ∀ p ∈ ev, p.2.name = p.1.name
  inModel : ∀ p ∈ ev, p.1.name ∈ M.order
  subs : ∀ p ∈ ev, ConsistentSubs p.1.ivs

/-- a conjunct `V_S = v` whose subscript fixes `V` itself to the OTHER value never holds -/
theorem holds_false_of_effectiveness (M : Model) (ν : BaseValues) (hν : ν.Distinct) (p : Var × Iv) (i : Iv)
    (hi : i ∈ p.1.ivs) (hname : i.name = p.2.name) (hstar : i.star ≠ p.2.star)
    (hn : p.2.name = p.1.name) (hm : p.1.name ∈ M.order) (hs : ConsistentSubs p.1.ivs) (u : NoisePoint) :
    holds M u (conjunctOf ν p) = false := by
  have hf := forced_worldOf ν p.1.ivs i hi hs
  apply holds_false_of_forced_ne M u (conjunctOf ν p) (ivValue ν i) hm
  · simpa [conjunctOf, hname, hn] using hf
  · simp only [conjunctOf, ivValue, hname]
    rcases i with ⟨n, s⟩
    rcases p with ⟨v, ⟨n', s'⟩⟩
    simp only at hname hstar hn ⊢
    subst hname
    cases s <;> cases s'
    · exact absurd rfl hstar
    · exact hν n
    · exact (hν n).symm
    · exact absurd rfl hstar

/-- a conjunct `V_S = v` whose subscript fixes `V` itself to the SAME value always holds -/
theorem holds_true_of_tautology (M : Model) (ν : BaseValues) (p : Var × Iv) (i : Iv)
    (hi : i ∈ p.1.ivs) (hname : i.name = p.2.name) (hstar : i.star = p.2.star)
    (hn : p.2.name = p.1.name) (hm : p.1.name ∈ M.order) (hs : ConsistentSubs p.1.ivs) (u : NoisePoint) :
    holds M u (conjunctOf ν p) = true := by
  have hf := forced_worldOf ν p.1.ivs i hi hs
  apply holds_true_of_forced_eq M u (conjunctOf ν p) hm
  have : ivValue ν i = ivValue ν p.2 := by simp [ivValue, hname, hstar]
  simpa [conjunctOf, hname, hn, this] using hf

end Y0.Fscm

namespace Y0.Fscm

/-! ### the structural equation holds in every world (semantic core of Lemma 24) -/

theorem foldl_step_not_mem (M : Model) (u : NoisePoint) (d : Do) (l : List Name) (σ : Valuation) (w : Name)
    (hw : w ∉ l) : (l.foldl (step M u d) σ) w = σ w := by
  induction l generalizing σ with
  | nil => rfl
  | cons v vs ih =>
    simp only [List.foldl_cons]
    simp only [List.mem_cons, not_or] at hw
    rw [ih _ hw.2, step_other M u d σ v w hw.1]

/-- `order` evaluates parents first (what `Compatible.topo` states) -/
def TopoOrder (M : Model) : Prop :=
  M.order.Nodup ∧ ∀ l₁ v l₂, M.order = l₁ ++ v :: l₂ → ∀ p ∈ M.pa v, p ∈ l₁

/-- **Structural equation.**  A variable that the world does not force takes the value its mechanism computes from the
values of its parents in that world and the (shared) noise. -/
theorem solve_unforced (M : Model) (hM : TopoOrder M) (u : NoisePoint) (d : Do) (v : Name) (hv : v ∈ M.order)
    (hf : forced d v = none) :
    solve M u d v = M.f v ((M.pa v).map (solve M u d)) ((M.lat v).map fun j => u.getD j 0) := by
  obtain ⟨l₁, l₂, hsplit⟩ := List.append_of_mem hv
  have hnd := hM.1
  rw [hsplit] at hnd
  have hv1 : v ∉ l₁ := fun h => by
    have := List.nodup_append.1 hnd
    exact this.2.2 v h v (by simp) rfl
  have hv2 : v ∉ l₂ := (List.nodup_cons.1 (List.nodup_append.1 hnd).2.1).1
  have hdisj : ∀ p ∈ l₁, p ∉ v :: l₂ := fun p hp hq => (List.nodup_append.1 hnd).2.2 p hp p hq rfl
  unfold solve
  rw [hsplit, List.foldl_append, List.foldl_cons]
  set σ₁ := l₁.foldl (step M u d) (fun _ => 0) with hσ₁
  -- value of v after its own step, unchanged afterwards
  rw [foldl_step_not_mem M u d l₂ _ v hv2]
  have hstep : step M u d σ₁ v v = M.f v ((M.pa v).map σ₁) ((M.lat v).map fun j => u.getD j 0) := by
    simp [step, hf, update]
  rw [hstep]
  congr 1
  apply List.map_congr_left
  intro p hp
  have hp1 : p ∈ l₁ := hM.2 l₁ v l₂ hsplit p hp
  have hpn := hdisj p hp1
  simp only [List.mem_cons, not_or] at hpn
  rw [foldl_step_not_mem M u d l₂ _ p hpn.2, step_other M u d σ₁ v p hpn.1]

/-- **Lemma 24, semantic form.**  Two copies `V` under `d₁` and `V` under `d₂` of a variable that neither world forces have
the same mechanism; if all their parents take the same values at the noise point `u`, so do they.  (What remains OPEN for
C18 is that the syntactic test `lemma24Holds` of cg.py guarantees this premise wherever the rest of the event holds.) -/
theorem solve_eq_of_parents_eq (M : Model) (hM : TopoOrder M) (u : NoisePoint) (d₁ d₂ : Do) (v : Name) (hv : v ∈ M.order)
    (h₁ : forced d₁ v = none) (h₂ : forced d₂ v = none)
    (hpa : ∀ p ∈ M.pa v, solve M u d₁ p = solve M u d₂ p) : solve M u d₁ v = solve M u d₂ v := by
  rw [solve_unforced M hM u d₁ v hv h₁, solve_unforced M hM u d₂ v hv h₂]
  congr 1
  exact List.map_congr_left hpa

/-- a parentless, un-forced variable is the same random variable in every world -/
theorem solve_root (M : Model) (hM : TopoOrder M) (u : NoisePoint) (d₁ d₂ : Do) (v : Name) (hv : v ∈ M.order)
    (h₁ : forced d₁ v = none) (h₂ : forced d₂ v = none) (hroot : M.pa v = []) : solve M u d₁ v = solve M u d₂ v :=
  solve_eq_of_parents_eq M hM u d₁ d₂ v hv h₁ h₂ (by simp [hroot])

theorem Compatible.topoOrder {M : Model} {G : MG Name} (h : Compatible M G) : TopoOrder M := ⟨h.nodup, h.topo⟩

end Y0.Fscm
