/-
  Y0.Lemmas.TrsoQ6 — line 6 of TRSO (`Y0.Model.Trso`) in the target phase with usable experiments (`active = []`,
  `surr ≠ []`), under the all-phase invariant `QInv` of `Y0.Lemmas.TrsoQInv`:

    * the separation tests never fail (`line6_ok` is total),
    * every sub-query that is produced satisfies the invariant of the SOURCE phase (every child of a selection node is
      a target intervention: this is what the positive separation test buys once line 3 no longer fires),
    * and the measure `mu2` drops (the flag goes from 1 to 0).
-/
import Y0.Lemmas.TrsoQInv
import Y0.Lemmas.TrsoT234
import Y0.Lemmas.TrsoT610

namespace Y0
namespace Trso
open TrDsl MG Relation

/-! ### `removeNodes` keeps what the invariant needs -/

theorem mem_di_removeNodes (G : MG Name) (S : List Name) (e : Name × Name) :
    e ∈ (G.removeNodes S).di ↔ e ∈ G.di ∧ e.1 ∉ S ∧ e.2 ∉ S :=
  diEdge_removeNodes G S e.1 e.2

theorem mem_bi_removeNodes_sub (G : MG Name) (S : List Name) (e : Name × Name) (h : e ∈ (G.removeNodes S).bi) :
    e ∈ G.bi := by
  unfold removeNodes at h
  exact (List.mem_filter.1 (mem_bi_fromEdges_sub _ _ _ e h)).1

theorem ranked_removeNodes {G : MG Name} (h : G.Ranked) (S : List Name) : (G.removeNodes S).Ranked := by
  obtain ⟨rank, hr⟩ := h
  exact ⟨rank, fun e he => hr e ((mem_di_removeNodes G S e).1 he).1⟩

theorem length_removeNodes_le {G : MG Name} (hG : G.WF) (S : List Name) :
    (G.removeNodes S).nodes.length ≤ G.nodes.length := by
  have hnd : (G.removeNodes S).nodes.Nodup := (wf_removeNodes G S).nodup
  have hsub : (G.removeNodes S).nodes ⊆ G.nodes := fun v hv => ((mem_nodes_removeNodes G hG S v).1 hv).1
  exact (List.subperm_of_subset hnd hsub).length_le

/-! ### line 3 does not fire: every node outside `X` is an ancestor of an outcome in `G` without the edges into `X` -/

theorem noEffect_empty_anc {G : MG Name} {X Y extra : List Name} (hex : noEffectOnOutcomes G X Y = .ok extra)
    (hemp : extra.isEmpty = true) : ∀ v ∈ G.nodes, v ∉ X → (G.removeInEdges X).Anc Y v := by
  unfold noEffectOnOutcomes at hex
  obtain ⟨a, ha, hex⟩ := bind_ok hex
  simp only [pure, Except.pure, Except.ok.injEq] at hex
  subst hex
  intro v hv hvX
  apply (ancestorsInclusive_spec _ (wf_removeInEdges G X) Y a ha v).1
  by_contra hva
  have hm : v ∈ G.nodes.filter (fun v => v ∉ X ∧ v ∉ a) :=
    List.mem_filter.2 ⟨hv, by simpa using ⟨hvX, hva⟩⟩
  have h0 : G.nodes.filter (fun v => v ∉ X ∧ v ∉ a) = [] := List.isEmpty_iff.1 hemp
  rw [h0] at hm
  cases hm

/-! ### what line 6 returns -/

theorem line6Helper_some' {sep : SepTest} {q s : Query} {d : Pop} {G : MG Name}
    (h : line6Helper sep q d G = .ok (some s)) :
    ∃ Z, lookup q.surr d = .ok Z ∧ inter' Z q.X ≠ [] ∧ allTransportsDSeparated sep G q.X q.Y = .ok true ∧
      s = line6Query q d G Z := by
  unfold line6Helper at h
  split at h
  · cases h
  · rename_i Z hZ
    split at h
    · cases h
    · rename_i hne
      split at h
      · cases h
      · cases h
      · rename_i htrue
        cases h
        exact ⟨Z, hZ, by intro h0; apply hne; simp [h0], htrue, rfl⟩

theorem line6_mem' {sep : SepTest} {q : Query} {subs : List (Pop × Query)} (h : line6 sep q = .ok subs) :
    ∀ ds ∈ subs, ∃ Z g, (ds.1, g) ∈ q.graphs ∧ ds.1 ≠ targetPop ∧ lookup q.surr ds.1 = .ok Z ∧
      inter' Z q.X ≠ [] ∧ allTransportsDSeparated sep g q.X q.Y = .ok true ∧ ds.2 = line6Query q ds.1 g Z := by
  unfold line6 at h
  obtain ⟨rs, hrs, h⟩ := bind_ok h
  simp [pure, Except.pure] at h; subst h
  intro ds hds
  simp only [List.mem_filterMap] at hds
  obtain ⟨⟨d, o⟩, hmem, ho⟩ := hds
  cases o with
  | none => simp at ho
  | some s =>
    simp at ho; subst ho
    obtain ⟨⟨d', g⟩, hin, hdg⟩ := mapM_ok hrs _ hmem
    obtain ⟨o', ho', hdg⟩ := bind_ok hdg
    simp [pure, Except.pure] at hdg
    obtain ⟨rfl, rfl⟩ := hdg
    have hin' := List.mem_filter.1 hin
    have hne : d' ≠ targetPop := by simpa using hin'.2
    obtain ⟨Z, h1, h2, h3, h4⟩ := line6Helper_some' ho'
    exact ⟨Z, g, hin'.1, hne, h1, h2, h3, h4⟩

/-- line 6 succeeds as soon as the helper succeeds on every source-domain graph -/
theorem line6_total {sep : SepTest} {q : Query}
    (h : ∀ p ∈ q.graphs, p.1 ≠ targetPop → ∃ o, line6Helper sep q p.1 p.2 = .ok o) :
    ∃ subs, line6 sep q = .ok subs := by
  unfold line6
  obtain ⟨rs, hrs, _⟩ := mapM_ok_of (fun _ : Pop × Option Query => True)
    (f := fun (x : Pop × MG Name) => match x with
      | (d, g) => (do pure (d, ← line6Helper sep q d g) : Except Err (Pop × Option Query)))
    (q.graphs.filter (fun p => p.1 ≠ targetPop)) (by
      rintro ⟨d, g⟩ hp
      have hp' := List.mem_filter.1 hp
      have hne : d ≠ targetPop := by simpa using hp'.2
      obtain ⟨o, ho⟩ : ∃ o, line6Helper sep q d g = .ok o := h (d, g) hp'.1 hne
      refine ⟨(d, o), ?_, trivial⟩
      simp only [ho]
      rfl)
  rw [hrs]
  exact ⟨_, rfl⟩

/-- the helper succeeds when the experiments of the domain are declared and the separation test is total -/
theorem line6Helper_total {sep : SepTest} {q : Query} {d : Pop} {G : MG Name} {Z : List Name}
    (hZ : lookup q.surr d = .ok Z) (hsep : ∃ b, allTransportsDSeparated sep G q.X q.Y = .ok b) :
    ∃ o, line6Helper sep q d G = .ok o := by
  unfold line6Helper
  rw [hZ]
  simp only
  split
  · exact ⟨_, rfl⟩
  · obtain ⟨b, hb⟩ := hsep
    rw [hb]
    cases b
    · exact ⟨_, rfl⟩
    · exact ⟨_, rfl⟩

/-! ### the target phase with usable experiments -/

/-- what `Phase` says when `active = []` and `surr ≠ []` -/
theorem QInv.phaseT0 {M q G} (h : QInv M q G) (hact : q.active = []) (hsurr : q.surr ≠ []) :
    q.domain = targetPop ∧ (∀ v ∈ G.nodes, isTnode v = false) ∧
      (∀ p ∈ q.graphs, p.1 ≠ targetPop → ∃ Z, lookup q.surr p.1 = .ok Z) ∧ (∀ p ∈ q.graphs, RegEq p.2 G) := by
  rcases h.phase with ⟨_, hdom, hnoT, hs | ⟨hk, hreg⟩⟩ | ⟨hne, _⟩
  · exact absurd hs hsurr
  · exact ⟨hdom, hnoT, hk, hreg⟩
  · exact absurd hact hne

theorem flag_eq_one {q : Query} (hact : q.active = []) (hsurr : q.surr ≠ []) : flag q = 1 := by
  unfold flag
  have h1 : q.surr.isEmpty = false := by
    cases hs : q.surr with
    | nil => exact absurd hs hsurr
    | cons a as => rfl
  simp [hact, h1]

theorem flag_eq_zero {q : Query} (hact : q.active ≠ []) : flag q = 0 := by
  unfold flag
  have h1 : q.active.isEmpty = false := by
    cases hs : q.active with
    | nil => exact absurd hs hact
    | cons a as => rfl
  simp [h1]

/-- the sub-query of line 6 for a usable domain satisfies the invariant of the source phase -/
theorem line6Query_inv {M q G} (h : QInv M q G) (hact : q.active = []) (hsurr : q.surr ≠ [])
    {extra : List Name} (hex : noEffectOnOutcomes G q.X q.Y = .ok extra) (hemp : extra.isEmpty = true)
    {d : Pop} {g : MG Name} {Z : List Name} (hp : (d, g) ∈ q.graphs) (hne : inter' Z q.X ≠ [])
    (htrue : allTransportsDSeparated dSeparated g q.X q.Y = .ok true) :
    QInv M (line6Query q d g Z) (g.removeNodes (inter' Z q.X)) := by
  obtain ⟨_, hnoT, _, hreg⟩ := h.phaseT0 hact hsurr
  have hgG : RegEq g G := hreg _ hp
  have hgwf : g.WF := h.wf _ hp
  have hmemN := mem_nodes_removeNodes g hgwf (inter' Z q.X)
  have hcases : ∀ p ∈ (line6Query q d g Z).graphs, p = (d, g.removeNodes (inter' Z q.X)) ∨ p ∈ q.graphs :=
    fun p hp' => mem_assign hp'
  have hXg : ∀ x ∈ q.X, x ∈ g.nodes := fun x hx =>
    (hgG.1 x (hnoT x (h.Xin x hx))).2 (h.Xin x hx)
  refine
    { look := lookup_assign_self, wf := ?_, rk := ?_, tpl := ?_, tbi := ?_, Yin := ?_, YT := h.YT, Yne := h.Yne,
      Xin := ?_, XY := ?_, sub := ?_, size := ?_, phase := ?_ }
  · intro p hp'
    rcases hcases p hp' with rfl | hp'
    · exact wf_removeNodes _ _
    · exact h.wf p hp'
  · intro p hp'
    rcases hcases p hp' with rfl | hp'
    · exact ranked_removeNodes (h.rk _ hp) _
    · exact h.rk p hp'
  · intro p hp'
    rcases hcases p hp' with rfl | hp'
    · intro e he
      exact h.tpl _ hp e ((mem_di_removeNodes _ _ e).1 he).1
    · exact h.tpl p hp'
  · intro p hp'
    rcases hcases p hp' with rfl | hp'
    · intro e he
      exact h.tbi _ hp e (mem_bi_removeNodes_sub _ _ e he)
    · exact h.tbi p hp'
  · intro p hp' y hy
    have hy' : y ∈ q.Y := hy
    rcases hcases p hp' with rfl | hp'
    · exact (hmemN y).2 ⟨h.Yin _ hp y hy', fun hc => h.XY y hy' (mem_inter'.1 hc).2⟩
    · exact h.Yin p hp' y hy'
  · intro x hx
    have hx' : x ∈ q.X ∧ x ∉ Z := mem_diff'.1 hx
    exact (hmemN x).2 ⟨hXg x hx'.1, fun hc => hx'.2 (mem_inter'.1 hc).1⟩
  · intro y hy hyx
    have hy' : y ∈ q.Y := hy
    have hx' : y ∈ q.X ∧ y ∉ Z := mem_diff'.1 hyx
    exact h.XY y hy' hx'.1
  · intro p hp'
    rcases hcases p hp' with rfl | hp'
    · exact ⟨fun v hv _ => hv, fun e he _ => he⟩
    · have hpG : RegEq p.2 G := hreg p hp'
      constructor
      · intro v hv hvT
        exact (hpG.1 v hvT).2 ((hgG.1 v hvT).1 ((hmemN v).1 hv).1)
      · intro e he heT
        exact (hpG.2 e heT).2 ((hgG.2 e heT).1 ((mem_di_removeNodes _ _ e).1 he).1)
  · intro p hp'
    rcases hcases p hp' with rfl | hp'
    · exact Nat.le_trans (length_removeNodes_le hgwf _) (h.size _ hp)
    · exact h.size p hp'
  · refine Or.inr ⟨nsort_ne_nil hne, ?_⟩
    intro e he heT
    obtain ⟨heg, _, he2⟩ := (mem_di_removeNodes _ _ e).1 he
    have hinX : e.2 ∈ q.X := by
      by_contra hvX
      have hvT : isTnode e.2 = false := h.tpl _ hp e heg
      have hvg : e.2 ∈ g.nodes := (hgwf.di_mem e heg).2
      have hvG : e.2 ∈ G.nodes := (hgG.1 _ hvT).1 hvg
      obtain ⟨y, hy, hpath⟩ := noEffect_empty_anc hex hemp e.2 hvG hvX
      have hle : (G.removeInEdges q.X).DiEdge ≤ (g.removeInEdges q.X).DiEdge := by
        intro a b hab
        obtain ⟨habG, hbX⟩ := (diEdge_removeInEdges G q.X a b).1 hab
        have haT : isTnode a = false := hnoT a (h.wfG.di_mem _ habG).1
        exact (diEdge_removeInEdges g q.X a b).2 ⟨(hgG.2 (a, b) haT).2 habG, hbX⟩
      exact allTransportsDSeparated_true_blocks g hgwf q.X q.Y htrue e.1 e.2 y heT heg hvX hy
        (ReflTransGen.mono hle _ _ hpath)
    exact mem_diff'.2 ⟨hinX, fun hZ => he2 (mem_inter'.2 ⟨hZ, hinX⟩)⟩

/-- line 6 in the target phase with usable experiments: the separation tests never fail, and every sub-query that is
produced (domain `d`, experiments `Z`, graph `g.removeNodes (Z ∩ X)`) satisfies the invariant of the source phase,
with a smaller measure -/
theorem qline6_ok {M q G} (h : QInv M q G) (hact : q.active = []) (hsurr : q.surr ≠ [])
    {extra : List Name} (hex : noEffectOnOutcomes G q.X q.Y = .ok extra) (hemp : extra.isEmpty = true) :
    ∃ subs, line6 dSeparated q = .ok subs ∧
      ∀ p ∈ subs, p.2.expr = q.expr ∧ p.2.active ≠ [] ∧ ∃ G', QInv M p.2 G' ∧ mu2 M p.2 G' < mu2 M q G := by
  obtain ⟨_, hnoT, hkeys, hreg⟩ := h.phaseT0 hact hsurr
  obtain ⟨subs, hsubs⟩ : ∃ subs, line6 dSeparated q = .ok subs := by
    apply line6_total
    intro p hp hpt
    obtain ⟨Z, hZ⟩ := hkeys p hp hpt
    refine line6Helper_total hZ ?_
    have hpG : RegEq p.2 G := hreg p hp
    refine allTransportsDSeparated_total p.2 (h.wf p hp) q.X q.Y ?_ (h.Yin p hp) ?_ h.XY
    · intro x hx
      exact (hpG.1 x (hnoT x (h.Xin x hx))).2 (h.Xin x hx)
    · intro x hx
      exact hnoT x (h.Xin x hx)
  refine ⟨subs, hsubs, ?_⟩
  intro p hp
  obtain ⟨Z, g, hg, _, _, hne, htrue, hq⟩ := line6_mem' hsubs p hp
  rw [hq]
  have hactne : (line6Query q p.1 g Z).active ≠ [] := nsort_ne_nil hne
  refine ⟨rfl, hactne, g.removeNodes (inter' Z q.X), line6Query_inv h hact hsurr hex hemp hg hne htrue, ?_⟩
  apply mu2_lt_of_flag _ (flag_eq_one hact hsurr) (flag_eq_zero hactne)
  exact Nat.le_trans (length_removeNodes_le (h.wf _ hg) _) (h.size _ hg)

end Trso
end Y0
