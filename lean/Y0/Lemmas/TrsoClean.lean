/-
  Y0.Lemmas.TrsoClean — on "clean" expressions (every leaf is a `PopulationProbability`, no `Zero()`, no `QFactor`)
  the DSL constructors of Y0.Model.TrDsl never raise and return clean expressions again; the expression-level blocks of
  the TRSO model (lines 1, 2, 4, 9, 10) therefore never raise on a clean carried expression.
-/
import Y0.Lemmas.TrsoInv

namespace Y0
namespace Trso
open TrDsl

/-! ### clean expressions -/

mutual
/-- every leaf is a `PopulationProbability`; no `Zero()`, no `QFactor` anywhere -/
def Clean : Expr → Prop
  | .prob (some _) _ _ => True
  | .prob none _ _ => False
  | .prod fs => CleanList fs
  | .sum e _ => Clean e
  | .frac n d => Clean n ∧ Clean d
  | .one => True
  | .zero => False
  | .q _ _ => False
def CleanList : List Expr → Prop
  | [] => True
  | e :: es => Clean e ∧ CleanList es
end

theorem cleanList_iff (es : List Expr) : CleanList es ↔ ∀ e ∈ es, Clean e := by
  induction es with
  | nil => simp [CleanList]
  | cons e es ih => simp [CleanList, ih]

theorem clean_not_zero {e : Expr} (h : Clean e) : isZero e = false := by
  cases e <;> simp [isZero, Clean] at h ⊢

theorem clean_one : Clean .one := trivial

theorem clean_prob (pop : Var) (c p : List Var) : Clean (.prob (some pop) c p) := trivial

theorem cleanList_cons {e : Expr} {es : List Expr} (he : Clean e) (hes : CleanList es) : CleanList (e :: es) := ⟨he, hes⟩

theorem cleanList_append {as bs : List Expr} (ha : CleanList as) (hb : CleanList bs) : CleanList (as ++ bs) := by
  rw [cleanList_iff] at *
  intro e he; rcases List.mem_append.1 he with h | h
  · exact ha e h
  · exact hb e h

/-! ### Sum.safe / Sum.simplify / Product.safe -/

theorem clean_sumSimplify {e : Expr} {r : List Var} (he : Clean e) : Clean (sumSimplify e r) := by
  unfold sumSimplify
  split
  · rename_i pop children
    cases pop with
    | none => exact he.elim
    | some pop =>
      simp only []
      split
      · exact he
      split
      · trivial
      · split
        · trivial
        · split
          · trivial
          · exact (trivial : True)
  · exact he

theorem clean_sumSafe {e : Expr} {r : List Var} (s : Bool) (he : Clean e) : Clean (sumSafe e r s) := by
  unfold sumSafe
  simp only []
  split
  · exact he
  · split
    · exact he
    · split
      · exact clean_sumSimplify he
      · exact he

theorem clean_productSafe {es : List Expr} (h : CleanList es) : Clean (productSafe es) := by
  unfold productSafe
  have hf : ∀ e ∈ es.filter (fun e => !isOne e), Clean e := by
    intro e he; exact (cleanList_iff es).1 h e (List.mem_filter.1 he).1
  generalize es.filter (fun e => !isOne e) = fs at hf
  simp only []
  split
  · rename_i hz
    rcases List.any_eq_true.1 hz with ⟨z, hz, hzz⟩
    rw [clean_not_zero (hf z hz)] at hzz; cases hzz
  · split
    · trivial
    · rename_i e0 _; exact hf e0 (by simp)
    · simp only [Clean]
      rw [cleanList_iff]
      intro e he
      exact hf e (by simpa using he)

/-! ### Fraction(…) -/

theorem mkFrac_ok {n d : Expr} (_hn : Clean n) (hd : Clean d) : mkFrac n d = .ok (.frac n d) := by
  unfold mkFrac; rw [clean_not_zero hd]; rfl

/-! ### `*` -/

theorem mulF_ok : ∀ (fuel : Nat) (a b : Expr), size a + size b < fuel → Clean a → Clean b →
    ∃ e, mulF fuel a b = .ok e ∧ Clean e := by
  intro fuel
  induction fuel with
  | zero => intro a b h; omega
  | succ fuel ih =>
    intro a b hsz ha hb
    have fracStep : ∀ {x n d : Expr}, size x + size n < fuel → Clean x → Clean n → Clean d →
        ∃ e, (do mkFrac (← mulF fuel x n) d) = Except.ok e ∧ Clean e := by
      intro x n d hs hx hn hd
      obtain ⟨m, hm, hmc⟩ := ih x n hs hx hn
      refine ⟨.frac m d, ?_, hmc, hd⟩
      simp [hm, bind, Except.bind, mkFrac_ok hmc hd]
    unfold mulF
    cases a with
    | one => exact ⟨b, rfl, hb⟩
    | zero => exact ha.elim
    | q _ _ => exact ha.elim
    | prob pop c p =>
      cases b with
      | zero => exact hb.elim
      | q _ _ => exact hb.elim
      | one => exact ⟨_, rfl, ha⟩
      | prod gs => exact ⟨_, rfl, clean_productSafe (cleanList_cons ha hb)⟩
      | frac n d => simp only [size] at hsz; exact fracStep (by simp only [size]; omega) ha hb.1 hb.2
      | prob _ _ _ => exact ⟨_, rfl, clean_productSafe ⟨ha, hb, trivial⟩⟩
      | sum _ _ => exact ⟨_, rfl, clean_productSafe ⟨ha, hb, trivial⟩⟩
    | prod fs =>
      cases b with
      | zero => exact hb.elim
      | q _ _ => exact hb.elim
      | prod gs => exact ⟨_, rfl, clean_productSafe (cleanList_append ha hb)⟩
      | frac n d => simp only [size] at hsz; exact fracStep (by simp only [size]; omega) ha hb.1 hb.2
      | one => exact ⟨_, rfl, clean_productSafe (cleanList_append ha ⟨hb, trivial⟩)⟩
      | prob _ _ _ => exact ⟨_, rfl, clean_productSafe (cleanList_append ha ⟨hb, trivial⟩)⟩
      | sum _ _ => exact ⟨_, rfl, clean_productSafe (cleanList_append ha ⟨hb, trivial⟩)⟩
    | sum s r =>
      cases b with
      | zero => exact hb.elim
      | q _ _ => exact hb.elim
      | prod gs => exact ⟨_, rfl, clean_productSafe (cleanList_cons ha hb)⟩
      | one => exact ⟨_, rfl, clean_productSafe ⟨ha, hb, trivial⟩⟩
      | frac _ _ => exact ⟨_, rfl, clean_productSafe ⟨ha, hb, trivial⟩⟩
      | prob _ _ _ => exact ⟨_, rfl, clean_productSafe ⟨ha, hb, trivial⟩⟩
      | sum _ _ => exact ⟨_, rfl, clean_productSafe ⟨ha, hb, trivial⟩⟩
    | frac n d =>
      have other : ∀ {b : Expr}, size n + size b < fuel → Clean b →
          ∃ e, (do mkFrac (← mulF fuel n b) d) = Except.ok e ∧ Clean e :=
        fun hs hb' => fracStep hs ha.1 hb' ha.2
      simp only [size] at hsz
      cases b with
      | zero => exact hb.elim
      | q _ _ => exact hb.elim
      | frac n' d' =>
        simp only [size] at hsz
        obtain ⟨m1, h1, c1⟩ := ih n n' (by omega) ha.1 hb.1
        obtain ⟨m2, h2, c2⟩ := ih d d' (by omega) ha.2 hb.2
        refine ⟨.frac m1 m2, ?_, c1, c2⟩
        simp [h1, h2, bind, Except.bind, mkFrac_ok c1 c2]
      | one => exact other (by simp only [size] at hsz ⊢; omega) hb
      | prob _ _ _ => exact other (by simp only [size] at hsz ⊢; omega) hb
      | prod _ => exact other (by simp only [size] at hsz ⊢; omega) hb
      | sum _ _ => exact other (by simp only [size] at hsz ⊢; omega) hb

theorem mul_ok {a b : Expr} (ha : Clean a) (hb : Clean b) : ∃ e, mul a b = .ok e ∧ Clean e :=
  mulF_ok _ a b (Nat.lt_succ_self _) ha hb

theorem mul_one_left (b : Expr) : mul .one b = .ok b := by
  simp [mul, mulF]

theorem mul_frac_isFrac {n d n' d' : Expr} (h : Clean (.frac n d)) (h' : Clean (.frac n' d')) :
    ∃ n'' d'', mul (.frac n d) (.frac n' d') = .ok (.frac n'' d'') ∧ Clean n'' ∧ Clean d'' := by
  obtain ⟨m1, h1, c1⟩ := mulF_ok (size (.frac n d) + size (.frac n' d')) n n' (by simp only [size]; omega) h.1 h'.1
  obtain ⟨m2, h2, c2⟩ := mulF_ok (size (.frac n d) + size (.frac n' d')) d d' (by simp only [size]; omega) h.2 h'.2
  refine ⟨m1, m2, ?_, c1, c2⟩
  unfold mul mulF
  simp [h1, h2, bind, Except.bind, mkFrac_ok c1 c2]

/-! ### `/` -/

theorem truediv_ok {a b : Expr} (ha : Clean a) (hb : Clean b) : ∃ e, truediv a b = .ok e ∧ Clean e := by
  unfold truediv
  have base : ∀ {a : Expr}, Clean a →
      ∃ e, (match b with
        | .one => Except.ok a
        | .frac n' d' => do mkFrac (← mul a d') n'
        | _ => mkFrac a b) = Except.ok e ∧ Clean e := by
    intro a ha
    cases b with
    | one => exact ⟨_, rfl, ha⟩
    | frac n' d' =>
      obtain ⟨m, hm, cm⟩ := mul_ok ha hb.2
      refine ⟨.frac m n', ?_, cm, hb.1⟩
      simp [hm, bind, Except.bind, mkFrac_ok cm hb.1]
    | zero => exact hb.elim
    | q _ _ => exact hb.elim
    | prob _ _ _ => exact ⟨_, mkFrac_ok ha hb, ha, hb⟩
    | prod _ => exact ⟨_, mkFrac_ok ha hb, ha, hb⟩
    | sum _ _ => exact ⟨_, mkFrac_ok ha hb, ha, hb⟩
  cases a with
  | zero => exact ha.elim
  | q _ _ => exact ha.elim
  | frac n d =>
    have fr : ∀ {b : Expr}, Clean b → ∃ e, (do mkFrac n (← mul d b)) = Except.ok e ∧ Clean e := by
      intro b hb
      obtain ⟨m, hm, cm⟩ := mul_ok ha.2 hb
      refine ⟨.frac n m, ?_, ha.1, cm⟩
      simp [hm, bind, Except.bind, mkFrac_ok ha.1 cm]
    cases b with
    | one => exact ⟨_, rfl, ha⟩
    | frac n' d' =>
      obtain ⟨m1, h1, c1⟩ := mul_ok ha.1 hb.2
      obtain ⟨m2, h2, c2⟩ := mul_ok ha.2 hb.1
      refine ⟨.frac m1 m2, ?_, c1, c2⟩
      simp [h1, h2, bind, Except.bind, mkFrac_ok c1 c2]
    | zero => exact hb.elim
    | q _ _ => exact hb.elim
    | prob _ _ _ => exact fr hb
    | prod _ => exact fr hb
    | sum _ _ => exact fr hb
  | one => exact base ha
  | prob _ _ _ => exact base ha
  | prod _ => exact base ha
  | sum _ _ => exact base ha

/-- dividing by something that is neither `One()` nor a `Fraction` always builds a `Fraction` -/
theorem truediv_isFrac {a b : Expr} (ha : Clean a) (hb : Clean b) (h1 : isOne b = false) (hf : isFrac b = false) :
    ∃ n d, truediv a b = .ok (.frac n d) ∧ Clean n ∧ Clean d := by
  unfold truediv
  have base : ∀ {a : Expr}, Clean a →
      ∃ n d, (match b with
        | .one => Except.ok a
        | .frac n' d' => do mkFrac (← mul a d') n'
        | _ => mkFrac a b) = Except.ok (.frac n d) ∧ Clean n ∧ Clean d := by
    intro a ha
    cases b with
    | one => simp [isOne] at h1
    | frac n' d' => simp [isFrac] at hf
    | zero => exact hb.elim
    | q _ _ => exact hb.elim
    | prob _ _ _ => exact ⟨_, _, mkFrac_ok ha hb, ha, hb⟩
    | prod _ => exact ⟨_, _, mkFrac_ok ha hb, ha, hb⟩
    | sum _ _ => exact ⟨_, _, mkFrac_ok ha hb, ha, hb⟩
  cases a with
  | zero => exact ha.elim
  | q _ _ => exact ha.elim
  | frac n d =>
    have fr : ∀ {b : Expr}, Clean b →
        ∃ n'' d'', (do mkFrac n (← mul d b)) = Except.ok (.frac n'' d'') ∧ Clean n'' ∧ Clean d'' := by
      intro b hb
      obtain ⟨m, hm, cm⟩ := mul_ok ha.2 hb
      refine ⟨n, m, ?_, ha.1, cm⟩
      simp [hm, bind, Except.bind, mkFrac_ok ha.1 cm]
    cases b with
    | one => simp [isOne] at h1
    | frac n' d' => simp [isFrac] at hf
    | zero => exact hb.elim
    | q _ _ => exact hb.elim
    | prob _ _ _ => exact fr hb
    | prod _ => exact fr hb
    | sum _ _ => exact fr hb
  | one => exact base ha
  | prob _ _ _ => exact base ha
  | prod _ => exact base ha
  | sum _ _ => exact base ha

/-! ### Fraction.simplify -/

theorem clean_cancelParts : ∀ (num den : List Expr), CleanList num → CleanList den →
    CleanList (cancelParts num den).1 ∧ CleanList (cancelParts num den).2 := by
  intro num
  induction num with
  | nil => intro den _ hd; exact ⟨trivial, hd⟩
  | cons n ns ih =>
    intro den hn hd
    unfold cancelParts
    split
    · rename_i j _
      refine ih _ hn.2 ?_
      rw [cleanList_iff] at hd ⊢
      intro e he; exact hd e (List.mem_of_mem_eraseIdx he)
    · have := ih den hn.2 hd
      exact ⟨⟨hn.1, this.1⟩, this.2⟩

theorem simplifyParts_ok {num den : List Expr} (hn : CleanList num) (hd : CleanList den) :
    ∃ e, simplifyParts num den = .ok e ∧ Clean e := by
  unfold simplifyParts
  have hc := clean_cancelParts num den hn hd
  generalize cancelParts num den = c at hc
  obtain ⟨n, d⟩ := c
  simp only [] at hc ⊢
  split
  · exact ⟨_, mkFrac_ok (clean_productSafe hc.1) (clean_productSafe hc.2), clean_productSafe hc.1, clean_productSafe hc.2⟩
  · split
    · exact ⟨_, rfl, clean_productSafe hc.1⟩
    · split
      · exact truediv_ok clean_one (clean_productSafe hc.2)
      · exact ⟨_, rfl, clean_one⟩

theorem fracSimplifyF_ok : ∀ (fuel : Nat) (n d : Expr), size d < fuel → Clean n → Clean d →
    ∃ e, fracSimplifyF fuel n d = .ok e ∧ Clean e := by
  intro fuel
  induction fuel with
  | zero => intro n d h; omega
  | succ fuel ih =>
    intro n d hsz hn hd
    unfold fracSimplifyF
    split
    · exact ⟨_, rfl, hn⟩
    · split
      · exact ⟨_, rfl, hn⟩
      · split
        · split
          · rename_i n' d' _
            rw [clean_not_zero hd.1]
            simp only [size] at hsz
            simpa using ih d' n' (by omega) hd.2 hd.1
          · exact ⟨_, rfl, hn, hd⟩
        · split
          · exact ⟨_, rfl, clean_one⟩
          · split
            · exact simplifyParts_ok hn hd
            · exact simplifyParts_ok hn (cleanList_cons hd trivial)
            · exact simplifyParts_ok (cleanList_cons hn trivial) hd
            · exact ⟨_, rfl, hn, hd⟩

theorem fracSimplify_ok {n d : Expr} (hn : Clean n) (hd : Clean d) : ∃ e, fracSimplify n d = .ok e ∧ Clean e :=
  fracSimplifyF_ok _ n d (by omega) hn hd

theorem simplifyCast_frac_ok {n d : Expr} (hn : Clean n) (hd : Clean d) :
    ∃ e, simplifyCast (.frac n d) = .ok e ∧ Clean e := fracSimplify_ok hn hd

theorem simplifyCast_sum_ok {e : Expr} {r : List Var} (he : Clean e) :
    ∃ e', simplifyCast (.sum e r) = .ok e' ∧ Clean e' := ⟨_, rfl, clean_sumSimplify he⟩

/-! ### canonicalize -/

mutual
theorem cleanList_flattenExprs : ∀ (es : List Expr), CleanList es → CleanList (flattenExprs es)
  | [], _ => by simp [flattenExprs, CleanList]
  | e :: es, h => by
    simp only [flattenExprs]
    exact cleanList_append (cleanList_flattenExpr e h.1) (cleanList_flattenExprs es h.2)
theorem cleanList_flattenExpr : ∀ (e : Expr), Clean e → CleanList (flattenExpr e)
  | .prod gs, h => by simp only [flattenExpr]; exact cleanList_flattenExprs gs h
  | .prob _ _ _, h => by simp only [flattenExpr]; exact ⟨h, trivial⟩
  | .sum _ _, h => by simp only [flattenExpr]; exact ⟨h, trivial⟩
  | .frac _ _, h => by simp only [flattenExpr]; exact ⟨h, trivial⟩
  | .one, h => by simp only [flattenExpr]; exact ⟨h, trivial⟩
  | .zero, h => by simp only [flattenExpr]; exact ⟨h, trivial⟩
  | .q _ _, h => by simp only [flattenExpr]; exact ⟨h, trivial⟩
end

theorem clean_postFrac {e : Expr} (h : Clean e) : Clean (postFrac e) := by
  unfold postFrac
  split
  · split
    · exact h.1
    · split
      · trivial
      · exact h
  · exact h

mutual
theorem canon_ok : ∀ (e : Expr), Clean e → ∃ e', canon e = .ok e' ∧ Clean e'
  | .prob (some pop) c p, _ => ⟨.prob (some pop) (sortByName c) (sortByName p), by simp [canon], trivial⟩
  | .prob none _ _, h => h.elim
  | .prod fs, h => by
    obtain ⟨es, hes, ces⟩ := canonFlat_ok fs h
    exact ⟨productSafe (flattenExprs es), by simp [canon, hes, bind, Except.bind, pure, Except.pure],
      clean_productSafe (cleanList_flattenExprs es ces)⟩
  | .sum x r, h => by
    obtain ⟨x', hx', cx'⟩ := canon_ok x h
    exact ⟨sumSafe x' r true, by simp [canon, hx', bind, Except.bind, pure, Except.pure], clean_sumSafe true cx'⟩
  | .frac n d, h => by
    obtain ⟨n', hn', cn'⟩ := canon_ok n h.1
    obtain ⟨d', hd', cd'⟩ := canon_ok d h.2
    simp only [canon, hn', hd', bind, Except.bind, pure, Except.pure]
    split
    · exact ⟨_, rfl, cn'⟩
    · split
      · exact ⟨_, rfl, clean_one⟩
      · obtain ⟨rv, hrv, crv⟩ := truediv_ok cn' cd'
        rw [hrv]
        exact ⟨_, rfl, clean_postFrac crv⟩
  | .one, _ => ⟨.one, by simp [canon], trivial⟩
  | .zero, h => h.elim
  | .q _ _, h => h.elim
theorem canonFlat_ok : ∀ (es : List Expr), CleanList es → ∃ es', canonFlat es = .ok es' ∧ CleanList es'
  | [], _ => ⟨[], by simp [canonFlat], trivial⟩
  | .prod gs :: xs, h => by
    obtain ⟨gs', hgs', cgs'⟩ := canonFlat_ok gs h.1
    obtain ⟨xs', hxs', cxs'⟩ := canonFlat_ok xs h.2
    exact ⟨gs' ++ xs', by simp [canonFlat, hgs', hxs', bind, Except.bind, pure, Except.pure], cleanList_append cgs' cxs'⟩
  | .prob pop c p :: xs, h => by
    obtain ⟨x', hx', cx'⟩ := canon_ok _ h.1
    obtain ⟨xs', hxs', cxs'⟩ := canonFlat_ok xs h.2
    exact ⟨x' :: xs', by simp [canonFlat, hx', hxs', bind, Except.bind, pure, Except.pure], cx', cxs'⟩
  | .sum x r :: xs, h => by
    obtain ⟨x', hx', cx'⟩ := canon_ok _ h.1
    obtain ⟨xs', hxs', cxs'⟩ := canonFlat_ok xs h.2
    exact ⟨x' :: xs', by simp [canonFlat, hx', hxs', bind, Except.bind, pure, Except.pure], cx', cxs'⟩
  | .frac n d :: xs, h => by
    obtain ⟨x', hx', cx'⟩ := canon_ok _ h.1
    obtain ⟨xs', hxs', cxs'⟩ := canonFlat_ok xs h.2
    exact ⟨x' :: xs', by simp [canonFlat, hx', hxs', bind, Except.bind, pure, Except.pure], cx', cxs'⟩
  | .one :: xs, h => by
    obtain ⟨x', hx', cx'⟩ := canon_ok _ h.1
    obtain ⟨xs', hxs', cxs'⟩ := canonFlat_ok xs h.2
    exact ⟨x' :: xs', by simp [canonFlat, hx', hxs', bind, Except.bind, pure, Except.pure], cx', cxs'⟩
  | .zero :: _, h => h.1.elim
  | .q _ _ :: _, h => h.1.elim
end

theorem canonicalize_ok {e : Expr} (h : Clean e) : ∃ e', canonicalize e = .ok e' ∧ Clean e' := canon_ok e h

theorem c14nSafe_ok {x : Option Expr} (hx : ∀ a, x = some a → Clean a) :
    ∃ y, c14nSafe x = .ok y ∧ (∀ a, y = some a → Clean a) ∧ y.isSome = x.isSome := by
  cases x with
  | none => exact ⟨none, rfl, (by intro a ha; cases ha), rfl⟩
  | some e =>
    obtain ⟨e', he', ce'⟩ := canonicalize_ok (hx e rfl)
    refine ⟨some e', by simp [c14nSafe, he', bind, Except.bind, pure, Except.pure], ?_, rfl⟩
    intro a ha; cases ha; exact ce'

/-! ### Except plumbing (existence direction) -/

theorem ok_bind {α β} (a : α) (f : α → Except Err β) : ((Except.ok a : Except Err α) >>= f) = f a := rfl

theorem bind_ok_of {α β} {x : Except Err α} {f : α → Except Err β} {Q : α → Prop} {P : β → Prop}
    (hx : ∃ a, x = .ok a ∧ Q a) (hf : ∀ a, Q a → ∃ b, f a = .ok b ∧ P b) : ∃ b, (x >>= f) = .ok b ∧ P b := by
  obtain ⟨a, rfl, qa⟩ := hx
  exact hf a qa

theorem mapM_ok_of {α β} {f : α → Except Err β} (P : β → Prop) :
    ∀ (l : List α), (∀ a ∈ l, ∃ b, f a = .ok b ∧ P b) → ∃ r, l.mapM f = .ok r ∧ ∀ b ∈ r, P b := by
  intro l
  induction l with
  | nil => intro _; exact ⟨[], by simp [List.mapM_nil, pure, Except.pure], by simp⟩
  | cons a as ih =>
    intro h
    obtain ⟨b, hb, pb⟩ := h a (by simp)
    obtain ⟨bs, hbs, pbs⟩ := ih (fun x hx => h x (by simp [hx]))
    refine ⟨b :: bs, ?_, ?_⟩
    · rw [List.mapM_cons, hb, ok_bind, hbs, ok_bind]; rfl
    · intro x hx
      rcases List.mem_cons.1 hx with rfl | hx
      · exact pb
      · exact pbs x hx

theorem foldlM_ok_of {α β} {f : β → α → Except Err β} (J : β → Prop) :
    ∀ (l : List α) (b : β), J b → (∀ acc a, a ∈ l → J acc → ∃ acc', f acc a = .ok acc' ∧ J acc') →
      ∃ r, l.foldlM f b = .ok r ∧ J r := by
  intro l
  induction l with
  | nil => intro b hb _; exact ⟨b, by simp [List.foldlM, pure, Except.pure], hb⟩
  | cons a as ih =>
    intro b hb h
    obtain ⟨b', hb', jb'⟩ := h b a (by simp) hb
    rw [List.foldlM_cons, hb', ok_bind]
    exact ih b' jb' (fun acc x hx => h acc x (by simp [hx]))

/-- a fold over a non-empty list whose every step lands in `J`, from a start in `I` -/
theorem foldlM_ok_of_ne {α β} {f : β → α → Except Err β} (I J : β → Prop) (l : List α) (b : β) (hl : l ≠ []) (hb : I b)
    (h : ∀ acc a, a ∈ l → I acc ∨ J acc → ∃ acc', f acc a = .ok acc' ∧ J acc') : ∃ r, l.foldlM f b = .ok r ∧ J r := by
  cases l with
  | nil => exact absurd rfl hl
  | cons a as =>
    obtain ⟨b', hb', jb'⟩ := h b a (by simp) (Or.inl hb)
    rw [List.foldlM_cons, hb', ok_bind]
    exact foldlM_ok_of J as b' jb' (fun acc x hx hj => h acc x (by simp [hx]) (Or.inr hj))

/-! ### the expression-level blocks of TRSO -/

theorem retag_ok {dom : Pop} {e : Expr} (h : Clean e) : ∃ e', retag dom e = .ok e' ∧ Clean e' := by
  unfold retag
  split
  · exact ⟨_, rfl, trivial⟩
  · exact h.elim
  · exact ⟨_, rfl, h⟩

theorem clean_line1 {Y : List Name} {e : Expr} {G : MG Name} (h : Clean e) : Clean (line1 Y e G) :=
  clean_sumSafe false h

theorem step1_ok {q : Query} {G : MG Name} (h : Clean q.expr) : ∃ e, step1 q G = .ok (some e) ∧ Clean e := by
  obtain ⟨e, he, ce⟩ := canonicalize_ok (clean_line1 (Y := q.Y) (G := G) h)
  refine ⟨e, ?_, ce⟩
  unfold step1
  rw [he, ok_bind]; rfl

theorem line2_expr_ok {dom : Pop} {e : Expr} {r : List Var} (h : Clean e) :
    ∃ e', retag dom (sumSafe e r true) = .ok e' ∧ Clean e' := retag_ok (clean_sumSafe true h)

theorem indexOf_ok {l : List Name} {v : Name} (h : v ∈ l) : ∃ i, indexOf? l v = .ok i ∧ i < l.length := by
  unfold indexOf?
  cases hf : l.findIdx? (· = v) with
  | none =>
    rw [List.findIdx?_eq_none_iff] at hf
    have := hf v h
    simp at this
  | some i =>
    obtain ⟨hlt, _⟩ := List.findIdx?_eq_some_iff_getElem.1 hf
    exact ⟨i, rfl, hlt⟩

theorem sortVars_nonempty {r : List Var} (h : r ≠ []) : sortVars r ≠ [] := by
  intro h0
  cases r with
  | nil => exact h rfl
  | cons a as => have : a ∈ sortVars (a :: as) := (mem_sortVars a _).2 (by simp); rw [h0] at this; cases this

theorem plainVars_nonempty {ns : List Name} (h : ns ≠ []) : plainVars ns ≠ [] := by
  unfold plainVars
  exact sortVars_nonempty (by simpa using h)

theorem nsort_nonempty {l : List Name} (h : l ≠ []) : nsort l ≠ [] := by
  intro h0
  cases l with
  | nil => exact h rfl
  | cons a as => have : a ∈ nsort (a :: as) := (mem_nsort a _).2 (by simp); rw [h0] at this; cases this

/-- `Sum.safe` (no simplification) over a non-empty range of a clean expression is a genuine `Sum` -/
theorem sumSafe_eq_sum {e : Expr} {r : List Var} (he : Clean e) (hr : r ≠ []) : sumSafe e r = .sum e (sortVars r) := by
  unfold sumSafe
  have h1 : (sortVars r).isEmpty = false := by
    cases hs : sortVars r with
    | nil => exact absurd hs (sortVars_nonempty hr)
    | cons _ _ => rfl
  simp [h1, clean_not_zero he]

/-- a `Fraction` of clean parts -/
def FracClean (e : Expr) : Prop := ∃ n d, e = .frac n d ∧ Clean n ∧ Clean d

theorem FracClean.clean {e : Expr} (h : FracClean e) : Clean e := by
  obtain ⟨n, d, rfl, cn, cd⟩ := h; exact ⟨cn, cd⟩

/-- one factor of Tian's c-factor formula (lines 9 and 10) is a `Fraction` -/
theorem ratio_isFrac {e : Expr} {order : List Name} {i : Nat} (he : Clean e) (hi : i < order.length) :
    ∃ fr, truediv (ratioParts e order i).1 (ratioParts e order i).2 = .ok fr ∧ FracClean fr := by
  have hne : plainVars (order.drop i) ≠ [] := plainVars_nonempty (by
    intro h0; rw [List.drop_eq_nil_iff] at h0; omega)
  have h2 : (ratioParts e order i).2 = .sum e (sortVars (plainVars (order.drop i))) := sumSafe_eq_sum he hne
  have c1 : Clean (ratioParts e order i).1 := clean_sumSafe false he
  obtain ⟨n, d, hfr, cn, cd⟩ := truediv_isFrac (a := (ratioParts e order i).1) (b := (ratioParts e order i).2) c1
    (by rw [h2]; exact he) (by rw [h2]; rfl) (by rw [h2]; rfl)
  exact ⟨_, hfr, n, d, rfl, cn, cd⟩

theorem line9_step {e : Expr} {order : List Name} {node : Name} {acc : Expr} (he : Clean e) (hn : node ∈ order)
    (hacc : acc = .one ∨ FracClean acc) :
    ∃ acc', (do let i ← indexOf? order node
                let fr ← truediv (ratioParts e order i).1 (ratioParts e order i).2
                mul acc fr) = Except.ok acc' ∧ FracClean acc' := by
  refine bind_ok_of (indexOf_ok hn) (fun i hi => ?_)
  refine bind_ok_of (ratio_isFrac he hi) (fun fr hfr => ?_)
  obtain ⟨n, d, rfl, cn, cd⟩ := hfr
  rcases hacc with rfl | ⟨n0, d0, rfl, cn0, cd0⟩
  · exact ⟨_, mul_one_left _, n, d, rfl, cn, cd⟩
  · obtain ⟨n2, d2, hm, c2, c2'⟩ := mul_frac_isFrac (n := n0) (d := d0) (n' := n) (d' := d) ⟨cn0, cd0⟩ ⟨cn, cd⟩
    exact ⟨_, hm, n2, d2, rfl, c2, c2'⟩

theorem line9_ok {q : Query} {G : MG Name} {c order : List Name} (hq : Clean q.expr)
    (hord : regularOrder G = .ok order) (hc : ∀ v ∈ nsort c, v ∈ order) (hne : c ≠ []) :
    ∃ e, line9 q G c = .ok e ∧ Clean e := by
  unfold line9
  rw [clean_not_zero hq, hord]
  simp only [ok_bind, Bool.false_eq_true, if_false]
  refine bind_ok_of (Q := FracClean)
    (foldlM_ok_of_ne (fun acc => acc = Expr.one) FracClean _ _ (nsort_nonempty hne) rfl
      (fun acc node hnode hacc => line9_step hq (hc node hnode) hacc)) (fun prod hprod => ?_)
  obtain ⟨n, d, rfl, cn, cd⟩ := hprod
  exact bind_ok_of (Q := Clean) (simplifyCast_frac_ok cn cd) (fun e he => ⟨_, rfl, clean_sumSafe false he⟩)

theorem line10Factor_ok {q : Query} {order : List Name} {j : Bool} {node : Name} (hq : Clean q.expr)
    (hn : node ∈ order) : ∃ f, line10Factor q order j node = .ok f ∧ Clean f := by
  unfold line10Factor
  refine bind_ok_of (indexOf_ok hn) (fun i _ => ?_)
  split
  · exact ⟨_, rfl, trivial⟩
  · exact truediv_ok (clean_sumSafe false hq) (clean_sumSafe false hq)

theorem line10_ok {q : Query} {G : MG Name} {c order : List Name} {s : List (Pop × List Name)} (hq : Clean q.expr)
    (hord : regularOrder G = .ok order) (hc : ∀ v ∈ nsort c, v ∈ order) :
    ∃ q', line10 q G c s = .ok q' ∧ Clean q'.expr ∧ q'.X = inter' q.X c ∧ q'.Y = q.Y ∧ q'.active = q.active ∧
      q'.domain = q.domain ∧ q'.surr = s ∧ q'.graphs = assign q.graphs q.domain (G.subgraph (nsort c)) := by
  unfold line10
  rw [hord]
  simp only [ok_bind]
  refine bind_ok_of (Q := fun fs => ∀ f ∈ fs, Clean f)
    (mapM_ok_of _ _ (fun node hnode => line10Factor_ok hq (hc node hnode))) (fun factors hf => ?_)
  exact bind_ok_of (Q := Clean) (canonicalize_ok (clean_productSafe ((cleanList_iff _).2 hf)))
    (fun e he => ⟨_, rfl, he, rfl, rfl, rfl, rfl, rfl, rfl⟩)

/-- the tail of `step4` once `collectTerms` has returned `some terms` -/
theorem step4_tail_ok {terms : List Expr} {rs : List Var} (h : ∀ t ∈ terms, Clean t) :
    ∃ e, (do let summand ← canonicalize (productSafe terms)
             pure (some (← canonicalize (sumSafe summand rs))) : Except Err (Option Expr)) = .ok (some e) ∧ Clean e := by
  obtain ⟨summand, hs, cs⟩ := canonicalize_ok (clean_productSafe ((cleanList_iff _).2 h))
  obtain ⟨e, he, ce⟩ := canonicalize_ok (clean_sumSafe (r := rs) false cs)
  refine ⟨e, ?_, ce⟩
  rw [hs, ok_bind, he, ok_bind]; rfl

theorem step4_ok {rec : Rec} {q : Query} {G : MG Name} {dwi : List (List Name)} {terms : List Expr}
    (hct : collectTerms ((line4 q G dwi).map rec) = .ok (some terms)) (h : ∀ t ∈ terms, Clean t) :
    ∃ e, step4 rec q G dwi = .ok (some e) ∧ Clean e := by
  unfold step4
  rw [hct, ok_bind]
  exact step4_tail_ok h

theorem step4_none {rec : Rec} {q : Query} {G : MG Name} {dwi : List (List Name)}
    (hct : collectTerms ((line4 q G dwi).map rec) = .ok none) : step4 rec q G dwi = .ok none := by
  unfold step4
  rw [hct, ok_bind]; rfl

end Trso
end Y0
