/-
  Y0.Lemmas.TrsoClean — on "clean" expressions (every leaf is a `PopulationProbability`, no `Zero()`, no `QFactor`)
  the DSL constructors of Y0.Model.TrDsl never raise and return clean expressions again; the expression-level blocks of
  the TRSO model (lines 1, 2, 4, 9, 10) therefore never raise on a clean carried expression.
-/
import Y0.Lemmas.TrsoInv

namespace Y0
namespace Trso
open TrDsl

/-! ### clean expressions -/

mutual
/-- every leaf is a `PopulationProbability`; no `Zero()`, no `QFactor` anywhere -/
def Clean : Expr → Prop
  | .prob (some _) _ _ => True
  | .prob none _ _ => False
  | .prod fs => CleanList fs
  | .sum e _ => Clean e
  | .frac n d => Clean n ∧ Clean d
  | .one => True
  | .zero => False
  | .q _ _ => False
def CleanList : List Expr → Prop
  | [] => True
  | e :: es => Clean e ∧ CleanList es
end

theorem cleanList_iff (es : List Expr) : CleanList es ↔ ∀ e ∈ es, Clean e := by
  induction es with
  | nil => simp [CleanList]
  | cons e es ih => simp [CleanList, ih]

theorem clean_not_zero {e : Expr} (h : Clean e) : isZero e = false := by
  cases e <;> simp [isZero, Clean] at h ⊢

theorem clean_one : Clean .one := trivial

theorem clean_prob (pop : Var) (c p : List Var) : Clean (.prob (some pop) c p) := trivial

theorem cleanList_cons {e : Expr} {es : List Expr} (he : Clean e) (hes : CleanList es) : CleanList (e :: es) := ⟨he, hes⟩

theorem cleanList_append {as bs : List Expr} (ha : CleanList as) (hb : CleanList bs) : CleanList (as ++ bs) := by
  rw [cleanList_iff] at *
  intro e he; rcases List.mem_append.1 he with h | h
  · exact ha e h
  · exact hb e h

/-! ### Sum.safe / Sum.simplify / Product.safe -/

theorem clean_sumSimplify {e : Expr} {r : List Var} (he : Clean e) : Clean (sumSimplify e r) := by
  unfold sumSimplify
  split
  · rename_i pop children
    cases pop with
    | none => exact he.elim
    | some pop =>
      simp only []
      split
      · trivial
      · split
        · trivial
        · split
          · trivial
          · exact (trivial : True)
  · exact he

theorem clean_sumSafe {e : Expr} {r : List Var} (s : Bool) (he : Clean e) : Clean (sumSafe e r s) := by
  unfold sumSafe
  simp only []
  split
  · exact he
  · split
    · exact he
    · split
      · exact clean_sumSimplify he
      · exact he

theorem clean_productSafe {es : List Expr} (h : CleanList es) : Clean (productSafe es) := by
  unfold productSafe
  have hf : ∀ e ∈ es.filter (fun e => !isOne e), Clean e := by
    intro e he; exact (cleanList_iff es).1 h e (List.mem_filter.1 he).1
  generalize es.filter (fun e => !isOne e) = fs at hf
  simp only []
  split
  · rename_i hz
    rcases List.any_eq_true.1 hz with ⟨z, hz, hzz⟩
    rw [clean_not_zero (hf z hz)] at hzz; cases hzz
  · split
    · trivial
    · rename_i e0 _; exact hf e0 (by simp)
    · simp only [Clean]
      rw [cleanList_iff]
      intro e he
      exact hf e (by simpa using he)

/-! ### Fraction(…) -/

theorem mkFrac_ok {n d : Expr} (_hn : Clean n) (hd : Clean d) : mkFrac n d = .ok (.frac n d) := by
  unfold mkFrac; rw [clean_not_zero hd]; rfl

/-! ### `*` -/

theorem mulF_ok : ∀ (fuel : Nat) (a b : Expr), size a + size b < fuel → Clean a → Clean b →
    ∃ e, mulF fuel a b = .ok e ∧ Clean e := by
  intro fuel
  induction fuel with
  | zero => intro a b h; omega
  | succ fuel ih =>
    intro a b hsz ha hb
    have fracStep : ∀ {x n d : Expr}, size x + size n < fuel → Clean x → Clean n → Clean d →
        ∃ e, (do mkFrac (← mulF fuel x n) d) = Except.ok e ∧ Clean e := by
      intro x n d hs hx hn hd
      obtain ⟨m, hm, hmc⟩ := ih x n hs hx hn
      refine ⟨.frac m d, ?_, hmc, hd⟩
      simp [hm, bind, Except.bind, mkFrac_ok hmc hd]
    unfold mulF
    cases a with
    | one => exact ⟨b, rfl, hb⟩
    | zero => exact ha.elim
    | q _ _ => exact ha.elim
    | prob pop c p =>
      cases b with
      | zero => exact hb.elim
      | q _ _ => exact hb.elim
      | one => exact ⟨_, rfl, ha⟩
      | prod gs => exact ⟨_, rfl, clean_productSafe (cleanList_cons ha hb)⟩
      | frac n d => simp only [size] at hsz; exact fracStep (by simp only [size]; omega) ha hb.1 hb.2
      | prob _ _ _ => exact ⟨_, rfl, clean_productSafe ⟨ha, hb, trivial⟩⟩
      | sum _ _ => exact ⟨_, rfl, clean_productSafe ⟨ha, hb, trivial⟩⟩
    | prod fs =>
      cases b with
      | zero => exact hb.elim
      | q _ _ => exact hb.elim
      | prod gs => exact ⟨_, rfl, clean_productSafe (cleanList_append ha hb)⟩
      | frac n d => simp only [size] at hsz; exact fracStep (by simp only [size]; omega) ha hb.1 hb.2
      | one => exact ⟨_, rfl, clean_productSafe (cleanList_append ha ⟨hb, trivial⟩)⟩
      | prob _ _ _ => exact ⟨_, rfl, clean_productSafe (cleanList_append ha ⟨hb, trivial⟩)⟩
      | sum _ _ => exact ⟨_, rfl, clean_productSafe (cleanList_append ha ⟨hb, trivial⟩)⟩
    | sum s r =>
      cases b with
      | zero => exact hb.elim
      | q _ _ => exact hb.elim
      | prod gs => exact ⟨_, rfl, clean_productSafe (cleanList_cons ha hb)⟩
      | one => exact ⟨_, rfl, clean_productSafe ⟨ha, hb, trivial⟩⟩
      | frac _ _ => exact ⟨_, rfl, clean_productSafe ⟨ha, hb, trivial⟩⟩
      | prob _ _ _ => exact ⟨_, rfl, clean_productSafe ⟨ha, hb, trivial⟩⟩
      | sum _ _ => exact ⟨_, rfl, clean_productSafe ⟨ha, hb, trivial⟩⟩
    | frac n d =>
      have other : ∀ {b : Expr}, size n + size b < fuel → Clean b →
          ∃ e, (do mkFrac (← mulF fuel n b) d) = Except.ok e ∧ Clean e :=
        fun hs hb' => fracStep hs ha.1 hb' ha.2
      simp only [size] at hsz
      cases b with
      | zero => exact hb.elim
      | q _ _ => exact hb.elim
      | frac n' d' =>
        simp only [size] at hsz
        obtain ⟨m1, h1, c1⟩ := ih n n' (by omega) ha.1 hb.1
        obtain ⟨m2, h2, c2⟩ := ih d d' (by omega) ha.2 hb.2
        refine ⟨.frac m1 m2, ?_, c1, c2⟩
        simp [h1, h2, bind, Except.bind, mkFrac_ok c1 c2]
      | one => exact other (by simp only [size] at hsz ⊢; omega) hb
      | prob _ _ _ => exact other (by simp only [size] at hsz ⊢; omega) hb
      | prod _ => exact other (by simp only [size] at hsz ⊢; omega) hb
      | sum _ _ => exact other (by simp only [size] at hsz ⊢; omega) hb

theorem mul_ok {a b : Expr} (ha : Clean a) (hb : Clean b) : ∃ e, mul a b = .ok e ∧ Clean e :=
  mulF_ok _ a b (Nat.lt_succ_self _) ha hb

theorem mul_one_left (b : Expr) : mul .one b = .ok b := by
  simp [mul, mulF]

theorem mul_frac_isFrac {n d n' d' : Expr} (h : Clean (.frac n d)) (h' : Clean (.frac n' d')) :
    ∃ n'' d'', mul (.frac n d) (.frac n' d') = .ok (.frac n'' d'') ∧ Clean n'' ∧ Clean d'' := by
  obtain ⟨m1, h1, c1⟩ := mulF_ok (size (.frac n d) + size (.frac n' d')) n n' (by simp only [size]; omega) h.1 h'.1
  obtain ⟨m2, h2, c2⟩ := mulF_ok (size (.frac n d) + size (.frac n' d')) d d' (by simp only [size]; omega) h.2 h'.2
  refine ⟨m1, m2, ?_, c1, c2⟩
  unfold mul mulF
  simp [h1, h2, bind, Except.bind, mkFrac_ok c1 c2]

/-! ### `/` -/

theorem truediv_ok {a b : Expr} (ha : Clean a) (hb : Clean b) : ∃ e, truediv a b = .ok e ∧ Clean e := by
  unfold truediv
  have base : ∀ {a : Expr}, Clean a →
      ∃ e, (match b with
        | .one => Except.ok a
        | .frac n' d' => do mkFrac (← mul a d') n'
        | _ => mkFrac a b) = Except.ok e ∧ Clean e := by
    intro a ha
    cases b with
    | one => exact ⟨_, rfl, ha⟩
    | frac n' d' =>
      obtain ⟨m, hm, cm⟩ := mul_ok ha hb.2
      refine ⟨.frac m n', ?_, cm, hb.1⟩
      simp [hm, bind, Except.bind, mkFrac_ok cm hb.1]
    | zero => exact hb.elim
    | q _ _ => exact hb.elim
    | prob _ _ _ => exact ⟨_, mkFrac_ok ha hb, ha, hb⟩
    | prod _ => exact ⟨_, mkFrac_ok ha hb, ha, hb⟩
    | sum _ _ => exact ⟨_, mkFrac_ok ha hb, ha, hb⟩
  cases a with
  | zero => exact ha.elim
  | q _ _ => exact ha.elim
  | frac n d =>
    have fr : ∀ {b : Expr}, Clean b → ∃ e, (do mkFrac n (← mul d b)) = Except.ok e ∧ Clean e := by
      intro b hb
      obtain ⟨m, hm, cm⟩ := mul_ok ha.2 hb
      refine ⟨.frac n m, ?_, ha.1, cm⟩
      simp [hm, bind, Except.bind, mkFrac_ok ha.1 cm]
    cases b with
    | one => exact ⟨_, rfl, ha⟩
    | frac n' d' =>
      obtain ⟨m1, h1, c1⟩ := mul_ok ha.1 hb.2
      obtain ⟨m2, h2, c2⟩ := mul_ok ha.2 hb.1
      refine ⟨.frac m1 m2, ?_, c1, c2⟩
      simp [h1, h2, bind, Except.bind, mkFrac_ok c1 c2]
    | zero => exact hb.elim
    | q _ _ => exact hb.elim
    | prob _ _ _ => exact fr hb
    | prod _ => exact fr hb
    | sum _ _ => exact fr hb
  | one => exact base ha
  | prob _ _ _ => exact base ha
  | prod _ => exact base ha
  | sum _ _ => exact base ha

/-- dividing by something that is neither `One()` nor a `Fraction` always builds a `Fraction` -/
theorem truediv_isFrac {a b : Expr} (ha : Clean a) (hb : Clean b) (h1 : isOne b = false) (hf : isFrac b = false) :
    ∃ n d, truediv a b = .ok (.frac n d) ∧ Clean n ∧ Clean d := by
  unfold truediv
  have base : ∀ {a : Expr}, Clean a →
      ∃ n d, (match b with
        | .one => Except.ok a
        | .frac n' d' => do mkFrac (← mul a d') n'
        | _ => mkFrac a b) = Except.ok (.frac n d) ∧ Clean n ∧ Clean d := by
    intro a ha
    cases b with
    | one => simp [isOne] at h1
    | frac n' d' => simp [isFrac] at hf
    | zero => exact hb.elim
    | q _ _ => exact hb.elim
    | prob _ _ _ => exact ⟨_, _, mkFrac_ok ha hb, ha, hb⟩
    | prod _ => exact ⟨_, _, mkFrac_ok ha hb, ha, hb⟩
    | sum _ _ => exact ⟨_, _, mkFrac_ok ha hb, ha, hb⟩
  cases a with
  | zero => exact ha.elim
  | q _ _ => exact ha.elim
  | frac n d =>
    have fr : ∀ {b : Expr}, Clean b →
        ∃ n'' d'', (do mkFrac n (← mul d b)) = Except.ok (.frac n'' d'') ∧ Clean n'' ∧ Clean d'' := by
      intro b hb
      obtain ⟨m, hm, cm⟩ := mul_ok ha.2 hb
      refine ⟨n, m, ?_, ha.1, cm⟩
      simp [hm, bind, Except.bind, mkFrac_ok ha.1 cm]
    cases b with
    | one => simp [isOne] at h1
    | frac n' d' => simp [isFrac] at hf
    | zero => exact hb.elim
    | q _ _ => exact hb.elim
    | prob _ _ _ => exact fr hb
    | prod _ => exact fr hb
    | sum _ _ => exact fr hb
  | one => exact base ha
  | prob _ _ _ => exact base ha
  | prod _ => exact base ha
  | sum _ _ => exact base ha

/-! ### Fraction.simplify -/

theorem clean_cancelParts : ∀ (num den : List Expr), CleanList num → CleanList den →
    CleanList (cancelParts num den).1 ∧ CleanList (cancelParts num den).2 := by
  intro num
  induction num with
  | nil => intro den _ hd; exact ⟨trivial, hd⟩
  | cons n ns ih =>
    intro den hn hd
    unfold cancelParts
    split
    · rename_i j _
      refine ih _ hn.2 ?_
      rw [cleanList_iff] at hd ⊢
      intro e he; exact hd e (List.mem_of_mem_eraseIdx he)
    · have := ih den hn.2 hd
      exact ⟨⟨hn.1, this.1⟩, this.2⟩

theorem simplifyParts_ok {num den : List Expr} (hn : CleanList num) (hd : CleanList den) :
    ∃ e, simplifyParts num den = .ok e ∧ Clean e := by
  unfold simplifyParts
  have hc := clean_cancelParts num den hn hd
  generalize cancelParts num den = c at hc
  obtain ⟨n, d⟩ := c
  simp only [] at hc ⊢
  split
  · exact ⟨_, mkFrac_ok (clean_productSafe hc.1) (clean_productSafe hc.2), clean_productSafe hc.1, clean_productSafe hc.2⟩
  · split
    · exact ⟨_, rfl, clean_productSafe hc.1⟩
    · split
      · exact truediv_ok clean_one (clean_productSafe hc.2)
      · exact ⟨_, rfl, clean_one⟩

theorem fracSimplifyF_ok : ∀ (fuel : Nat) (n d : Expr), size d < fuel → Clean n → Clean d →
    ∃ e, fracSimplifyF fuel n d = .ok e ∧ Clean e := by
  intro fuel
  induction fuel with
  | zero => intro n d h; omega
  | succ fuel ih =>
    intro n d hsz hn hd
    unfold fracSimplifyF
    split
    · exact ⟨_, rfl, hn⟩
    · split
      · exact ⟨_, rfl, hn⟩
      · split
        · split
          · rename_i n' d' _
            rw [clean_not_zero hd.1]
            simp only [size] at hsz
            simpa using ih d' n' (by omega) hd.2 hd.1
          · exact ⟨_, rfl, hn, hd⟩
        · split
          · exact ⟨_, rfl, clean_one⟩
          · split
            · exact simplifyParts_ok hn hd
            · exact simplifyParts_ok hn (cleanList_cons hd trivial)
            · exact simplifyParts_ok (cleanList_cons hn trivial) hd
            · exact ⟨_, rfl, hn, hd⟩

theorem fracSimplify_ok {n d : Expr} (hn : Clean n) (hd : Clean d) : ∃ e, fracSimplify n d = .ok e ∧ Clean e :=
  fracSimplifyF_ok _ n d (by omega) hn hd

theorem simplifyCast_frac_ok {n d : Expr} (hn : Clean n) (hd : Clean d) :
    ∃ e, simplifyCast (.frac n d) = .ok e ∧ Clean e := fracSimplify_ok hn hd

theorem simplifyCast_sum_ok {e : Expr} {r : List Var} (he : Clean e) :
    ∃ e', simplifyCast (.sum e r) = .ok e' ∧ Clean e' := ⟨_, rfl, clean_sumSimplify he⟩

end Trso
end Y0
