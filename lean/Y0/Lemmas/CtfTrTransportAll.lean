/-
  Y0.Lemmas.CtfTrTransportAll — Algorithm 4 and the transport loop of Algorithm 2 over a family of functional SCMs
  compatible with the declared domains (`FscmFamily.CompatibleWith`, Y0/Spec/CtfFamilySpec.lean): every transported
  factor, evaluated on the declared domain distributions, is the c-factor of its district in the TARGET model.
-/
import Y0.Lemmas.CtfTrTransport
import Y0.Lemmas.CtfTrPopDen

namespace Y0.CtfTr
open Fscm Ctf
open Trso (isTnode tnode nsort mem_nsort)

/-- the population tag of the declared distribution of a domain -/
def tagOf (d : Domain) : Name := ((popTag d.pop).getD 0)

/-- the declarations (Y0/Spec/CtfFamilySpec.lean) the domains of a query stand for -/
def declsOf (ds : List Domain) : List DomainDecl := ds.map fun d => declOf d (tagOf d)

/-- every domain of the query satisfies `DomainSpecOK` for its own tag -/
def DomainsSpecOK (ds : List Domain) : Prop := ∀ d ∈ ds, DomainSpecOK d (tagOf d)

/-- one usable domain of a compatible family -/
theorem sigmaTRDomain_family_sound (F : FscmFamily) (G : MG Name) (graphs : Option Name → MG Name) (ds : List Domain)
    (hF : F.CompatibleWith G graphs (declsOf ds)) (d : Domain) (hdm : d ∈ ds) (hd : DomainSpecOK d (tagOf d))
    (σ' : Val) (district : List Name) (hne : district ≠ []) (hreg : ∀ v ∈ district, v ∈ regular d.graph)
    (hdT : ∀ v ∈ district, v ∈ F.target.order) (hus : domainUsable district d = true)
    (e : Expr) (h : sigmaTRDomain district d = .ok (some e)) :
    ∀ σ, (∀ v ∈ district, σ v < F.card v) → den (F.env graphs) σ' e σ = F.target.cfactor (nsort district) σ := by
  obtain ⟨hS, hgr, hag, hsel⟩ := hF.source (declOf d (tagOf d)) (List.mem_map.2 ⟨d, hdm, rfl⟩)
  exact sigmaTRDomain_fscm_sound F G graphs d (tagOf d) hF.target hS hgr hag hd σ'
    (pop_den_eq_Q _ F.card F.base d.graph hS.toScmOK hsel d.topo hd.topo_nodup hd.topo_cover (tagOf d) σ')
    (pop_probShape d.graph (nodes_nodup hS.toScmOK) d.topo hd.topo_nodup hd.topo_cover (tagOf d))
    district hne hreg hdT hus e h

/-- **Algorithm 4 over a compatible family**: the expression returned for a district is `Q[district]` of the target -/
theorem sigmaTR_family_sound (F : FscmFamily) (G : MG Name) (graphs : Option Name → MG Name) (ds : List Domain)
    (hF : F.CompatibleWith G graphs (declsOf ds)) (hds : DomainsSpecOK ds)
    (σ' : Val) (district : List Name) (hne : district ≠ []) (hreg : ∀ d ∈ ds, ∀ v ∈ district, v ∈ regular d.graph)
    (hdT : ∀ v ∈ district, v ∈ F.target.order)
    (e : Expr) (h : sigmaTR district ds = .ok (some e)) :
    ∀ σ, (∀ v ∈ district, σ v < F.card v) → den (F.env graphs) σ' e σ = F.target.cfactor (nsort district) σ := by
  obtain ⟨d, hdm, hus, hdom⟩ := sigmaTR_some_of_domain district ds e h
  exact sigmaTRDomain_family_sound F G graphs ds hF d hdm (hds d hdm) σ' district hne (hreg d hdm) hdT hus e hdom

theorem validateDistrict_facts (district : List Name) (ds : List Domain) (h : validateDistrict district ds = .ok ()) :
    district ≠ [] ∧ ∀ d ∈ ds, ∀ v ∈ district, v ∈ regular d.graph := by
  unfold validateDistrict at h
  split at h
  · cases h
  · rename_i hne
    split at h
    · cases h
    · rename_i hall
      refine ⟨by simpa using hne, ?_⟩
      intro d hd v hv
      have : ¬ (ds.any fun d => !district.all (· ∈ regular d.graph)) = true := hall
      simp only [List.any_eq_true, not_exists, not_and, Bool.not_eq_true, Bool.not_eq_false',
        List.all_eq_true, decide_eq_true_eq] at this
      exact this d hd v hv

/-- the district of a ctf-factor -/
def districtOf (f : Event) : List Name := dedup' (f.map (·.1.name))

/-- **the transport loop over a compatible family**: every factor of an answered query is transported to an expression
that denotes, on the declared domain distributions, the c-factor of its district in the target model -/
theorem transportFactors_family_sound (F : FscmFamily) (G : MG Name) (graphs : Option Name → MG Name) (ds : List Domain)
    (hF : F.CompatibleWith G graphs (declsOf ds)) (hds : DomainsSpecOK ds) (σ' : Val) :
    ∀ (fs : List Event) (qs : List Expr), transportFactors ds fs = .ok (some qs) →
      (∀ f ∈ fs, ∀ p ∈ f, p.1.name ∈ F.target.order) →
      List.Forall₂ (fun f q => ∀ σ, (∀ v ∈ districtOf f, σ v < F.card v) →
        den (F.env graphs) σ' q σ = F.target.cfactor (nsort (districtOf f)) σ) fs qs
  | [], qs, h, _ => by
    simp [transportFactors] at h
    subst h
    exact .nil
  | f :: fs, qs, h, hT => by
    simp only [transportFactors, bind, Except.bind] at h
    cases hv : validateDistrict (dedup' (f.map (·.1.name))) ds with
    | error err => rw [hv] at h; cases h
    | ok u =>
      rw [hv] at h
      simp only at h
      cases hr : sigmaTR (dedup' (f.map (·.1.name))) ds with
      | error err => rw [hr] at h; cases h
      | ok r =>
        rw [hr] at h
        cases r with
        | none => simp [pure, Except.pure] at h
        | some q =>
          simp only at h
          cases hr' : transportFactors ds fs with
          | error err => rw [hr'] at h; cases h
          | ok r' =>
            rw [hr'] at h
            cases r' with
            | none => simp [pure, Except.pure] at h
            | some qs' =>
              simp only [pure, Except.pure, Except.ok.injEq, Option.some.injEq] at h
              subst h
              obtain ⟨hne, hreg⟩ := validateDistrict_facts _ ds hv
              refine .cons ?_ (transportFactors_family_sound F G graphs ds hF hds σ' fs qs' hr'
                (fun f' hf' => hT f' (List.mem_cons_of_mem _ hf')))
              exact sigmaTR_family_sound F G graphs ds hF hds σ' (districtOf f) hne hreg (by
                intro v hv'
                unfold districtOf at hv'
                rw [mem_dedup'] at hv'
                obtain ⟨p, hp, rfl⟩ := List.mem_map.1 hv'
                exact hT f List.mem_cons_self p hp) q hr

end Y0.CtfTr
