/-
  Y0.Lemmas.LatentKahn — the model of `nx.topological_sort` (`MG.topologicalSort`, generation-wise
  Kahn with a fuel of |nodes|+1 rounds) SUCCEEDS on every well-formed acyclic graph.

  (Integration note: the latent family had proved this with its own loop invariant; the proof now reuses
  the shared invariant `TopoInv` of `Y0.Lemmas.Topo`, which also serves property C14.)
-/
import Y0.Lemmas.LatentTopo

namespace Y0.MG
variable {α : Type} [DecidableEq α]

/-- **`nx.topological_sort` succeeds on every well-formed acyclic graph** -/
theorem topologicalSort_ok_of_acyclic (G : MG α) (hw : G.WF) (ha : G.Acyclic) :
    ∃ o, G.topologicalSort = .ok o :=
  topoLoop_total G hw ha _ _ _ _ (topoInv_init G hw) (by simp)

end Y0.MG
