/-
  Y0.Lemmas.LatentKahn — the model of `nx.topological_sort` (`MG.topologicalSort`, generation-wise
  Kahn with a fuel of |nodes|+1 rounds) SUCCEEDS on every well-formed acyclic graph.

  Invariant of the loop: the in-degree table has distinct keys and positive entries, every node is in
  the table, the current generation or the output, and an entry never exceeds the number of in-edges
  whose source has not been output yet.  When the loop is stuck (no current generation, table not empty)
  every node of the table has a parent in the table, which is impossible in an acyclic graph.
-/
import Y0.Lemmas.LatentTopo
import Mathlib.Data.List.Count
import Mathlib.Data.Finset.Card
import Mathlib.Data.Finset.Dedup

namespace Y0.MG
variable {α : Type} [DecidableEq α]
open Relation

/-- the innermost step of `topoGen` -/
def decr (st : List (α × Nat) × List α) (child : α) : List (α × Nat) × List α :=
  let deg' := st.1.map (fun p => if p.1 = child then (p.1, p.2 - 1) else p)
  match deg'.find? (fun p => p.1 = child) with
  | some (_, 0) => (deg'.filter (fun p => p.1 ≠ child), st.2 ++ [child])
  | _ => (deg', st.2)

theorem topoGen_eq (G : MG α) (deg : List (α × Nat)) (gen : List α) :
    topoGen G deg gen = (gen.flatMap G.children).foldl decr (deg, []) := by
  rw [List.foldl_flatMap]; rfl

/-- the table: distinct keys, positive entries -/
def GoodTable (deg : List (α × Nat)) : Prop := (deg.map (·.1)).Nodup ∧ ∀ p ∈ deg, 0 < p.2

omit [DecidableEq α] in
theorem unique_of_keys_nodup {deg : List (α × Nat)} (h : (deg.map (·.1)).Nodup) {a : α} {x y : Nat}
    (hx : (a, x) ∈ deg) (hy : (a, y) ∈ deg) : x = y := by
  induction deg with
  | nil => cases hx
  | cons p ps ih =>
    simp only [List.map_cons, List.nodup_cons, List.mem_map, not_exists, not_and] at h
    rcases List.mem_cons.1 hx with hx' | hx' <;> rcases List.mem_cons.1 hy with hy' | hy'
    · rw [← hx'] at hy'; exact (Prod.mk.inj hy').2.symm
    · exact absurd (by rw [← hx']) (h.1 (a, y) hy')
    · exact absurd (by rw [← hy']) (h.1 (a, x) hx')
    · exact ih h.2 hx' hy'

theorem decr_spec (st : List (α × Nat) × List α) (c : α) (hg : GoodTable st.1) :
    GoodTable (decr st c).1 ∧
    (∀ v d', (v, d') ∈ (decr st c).1 → ∃ d, (v, d) ∈ st.1 ∧ d' + (if v = c then 1 else 0) ≤ d) ∧
    (decr st c).1.length + (decr st c).2.length ≤ st.1.length + st.2.length := by
  obtain ⟨hk, hpos⟩ := hg
  set deg' := st.1.map (fun p => if p.1 = c then (p.1, p.2 - 1) else p) with hdeg'
  have hkeys : deg'.map (·.1) = st.1.map (·.1) := by
    rw [hdeg', List.map_map]
    apply List.map_congr_left
    intro p _
    simp only [Function.comp]
    split <;> rfl
  have hk' : (deg'.map (·.1)).Nodup := hkeys ▸ hk
  have hmem : ∀ v d', (v, d') ∈ deg' → ∃ d, (v, d) ∈ st.1 ∧ d' + (if v = c then 1 else 0) ≤ d := by
    intro v d' h
    rw [hdeg', List.mem_map] at h
    obtain ⟨p, hp, hpe⟩ := h
    by_cases hpc : p.1 = c
    · rw [if_pos hpc] at hpe
      obtain ⟨rfl, rfl⟩ := Prod.mk.inj hpe
      refine ⟨p.2, hp, ?_⟩
      have := hpos p hp
      simp only [hpc, if_true]
      omega
    · rw [if_neg hpc] at hpe
      subst hpe
      exact ⟨d', hp, by simp [hpc]⟩
  have hposne : ∀ p ∈ deg', p.1 ≠ c → 0 < p.2 := by
    rintro ⟨v, d'⟩ hp hv
    rw [hdeg', List.mem_map] at hp
    obtain ⟨q, hq, hqe⟩ := hp
    by_cases hqc : q.1 = c
    · rw [if_pos hqc] at hqe
      exact absurd ((Prod.mk.inj hqe).1.symm.trans hqc) hv
    · rw [if_neg hqc] at hqe
      subst hqe
      exact hpos _ hq
  have hdecr : decr st c = match deg'.find? (fun p => p.1 = c) with
      | some (_, 0) => (deg'.filter (fun p => p.1 ≠ c), st.2 ++ [c])
      | _ => (deg', st.2) := rfl
  rw [hdecr]
  split
  · rename_i k hfind
    have hkc : k = c := by simpa using List.find?_some hfind
    have hin : (k, 0) ∈ deg' := List.mem_of_find?_eq_some hfind
    refine ⟨⟨?_, ?_⟩, ?_, ?_⟩
    · exact List.Nodup.sublist (List.Sublist.map _ List.filter_sublist) hk'
    · intro p hp
      rw [List.mem_filter] at hp
      exact hposne p hp.1 (by simpa using hp.2)
    · intro v d' h
      exact hmem v d' (List.mem_filter.1 h).1
    · have hlt : (deg'.filter (fun p => decide (p.1 ≠ c))).length < deg'.length :=
        List.length_filter_lt_length_iff_exists.2 ⟨(k, 0), hin, by simp [hkc]⟩
      have hl : deg'.length = st.1.length := by rw [hdeg', List.length_map]
      simp only [List.length_append, List.length_singleton]
      omega
  · rename_i hno
    refine ⟨⟨hk', ?_⟩, hmem, ?_⟩
    · rintro ⟨v, d'⟩ hp
      by_cases hv : v = c
      · subst hv
        cases hfind : deg'.find? (fun p => p.1 = v) with
        | none =>
          have := List.find?_eq_none.1 hfind (v, d') hp
          simp at this
        | some q =>
          obtain ⟨k, n⟩ := q
          have hkc : k = v := by simpa using List.find?_some hfind
          have hin : (k, n) ∈ deg' := List.mem_of_find?_eq_some hfind
          subst hkc
          have hdn : d' = n := unique_of_keys_nodup hk' hp hin
          subst hdn
          cases d' with
          | zero => exact absurd hfind (hno k)
          | succ m => exact Nat.succ_pos m
      · exact hposne _ hp hv
    · simp [hdeg']

theorem foldl_decr_spec (cs : List α) :
    ∀ (st : List (α × Nat) × List α), GoodTable st.1 →
      GoodTable (cs.foldl decr st).1 ∧
      (∀ v d', (v, d') ∈ (cs.foldl decr st).1 → ∃ d, (v, d) ∈ st.1 ∧ d' + cs.count v ≤ d) ∧
      (cs.foldl decr st).1.length + (cs.foldl decr st).2.length ≤ st.1.length + st.2.length := by
  induction cs with
  | nil => intro st hg; exact ⟨hg, fun v d' h => ⟨d', h, by simp⟩, le_refl _⟩
  | cons c cs ih =>
    intro st hg
    obtain ⟨g1, m1, l1⟩ := decr_spec st c hg
    obtain ⟨g2, m2, l2⟩ := ih (decr st c) g1
    simp only [List.foldl_cons]
    refine ⟨g2, ?_, le_trans l2 l1⟩
    intro v d' h
    obtain ⟨d1, hd1, h1⟩ := m2 v d' h
    obtain ⟨d, hd, h2⟩ := m1 v d1 hd1
    refine ⟨d, hd, ?_⟩
    rw [List.count_cons]
    by_cases hvc : v = c
    · subst hvc; simp only [if_true, beq_self_eq_true] at h2 ⊢; omega
    · have : (c == v) = false := by simpa using fun e => hvc e.symm
      simp only [hvc, if_false, this, Bool.false_eq_true] at h2 ⊢
      omega

/-! ### counting: if every parent of `v` has been output, the decrements add up to the in-degree -/

theorem countP_le_count_flatMap (L : List (α × α)) (v : α) :
    ∀ (acc : List α) (M : List (α × α)), M.Sublist L → (∀ e ∈ M, e.1 ∈ acc) →
      M.countP (fun e => e.2 = v) ≤
        (acc.flatMap (fun a => (L.filter (fun e => e.1 = a)).map (·.2))).count v := by
  intro acc
  induction acc with
  | nil =>
    intro M _ hM
    cases M with
    | nil => simp
    | cons e es => exact absurd (hM e (by simp)) (by simp)
  | cons a acc ih =>
    intro M hsub hM
    rw [List.countP_eq_countP_filter_add M _ (fun e => e.1 = a), List.flatMap_cons, List.count_append]
    apply Nat.add_le_add
    · have h1 : (M.filter (fun e => e.1 = a)).Sublist (L.filter (fun e => e.1 = a)) := hsub.filter _
      have h2 := h1.countP_le (p := fun e => decide (e.2 = v))
      refine le_trans h2 (le_of_eq ?_)
      rw [List.count_eq_countP, List.countP_map]
      apply List.countP_congr
      intro e _
      simp only [Function.comp, beq_iff_eq, decide_eq_true_eq]
    · apply ih
      · exact List.filter_sublist.trans hsub
      · intro e he
        rw [List.mem_filter] at he
        have := hM e he.1
        simp only [List.mem_cons] at this
        rcases this with h | h
        · simp [h] at he
        · exact h

theorem indegree_le_of_parents_done (G : MG α) (acc : List α) (v : α)
    (h : ∀ e ∈ G.di, e.2 = v → e.1 ∈ acc) :
    G.indegree v ≤ (acc.flatMap G.children).count v := by
  unfold indegree
  rw [← List.countP_eq_length_filter]
  have h1 : (G.di.filter (fun e => e.2 = v)).Sublist G.di := List.filter_sublist
  have := countP_le_count_flatMap G.di v acc (G.di.filter (fun e => e.2 = v)) h1 (by
    intro e he
    rw [List.mem_filter] at he
    exact h e he.1 (by simpa using he.2))
  rw [List.countP_filter] at this
  refine le_trans (le_of_eq ?_) this
  apply List.countP_congr
  intro e _
  simp

/-! ### a non-empty set closed under "has a parent in the set" contains a cycle -/

open Classical in
theorem no_closed_set (G : MG α) (ha : G.Acyclic) (K : List α)
    (hK : ∀ v ∈ K, ∃ u ∈ K, G.DiEdge u v) : K = [] := by
  by_contra hne
  obtain ⟨v0, hv0⟩ := List.exists_mem_of_ne_nil K hne
  have key : ∀ n v, v ∈ K → (K.toFinset.filter (fun u => TransGen G.DiEdge u v)).card = n → False := by
    intro n
    induction n using Nat.strong_induction_on with
    | _ n ih =>
      intro v hv hcard
      obtain ⟨u, hu, huv⟩ := hK v hv
      have hlt : (K.toFinset.filter (fun x => TransGen G.DiEdge x u)).card <
          (K.toFinset.filter (fun x => TransGen G.DiEdge x v)).card := by
        apply Finset.card_lt_card
        constructor
        · intro x hx
          simp only [Finset.mem_filter, List.mem_toFinset] at hx ⊢
          exact ⟨hx.1, hx.2.tail huv⟩
        · intro hsub
          have : u ∈ K.toFinset.filter (fun x => TransGen G.DiEdge x u) :=
            hsub (by simp only [Finset.mem_filter, List.mem_toFinset]; exact ⟨hu, .single huv⟩)
          simp only [Finset.mem_filter, List.mem_toFinset] at this
          exact ha u this.2
      exact ih _ (hcard ▸ hlt) u hu rfl
  exact key _ v0 hv0 rfl

/-! ### the loop -/

theorem topoLoop_total (G : MG α) (hw : G.WF) (ha : G.Acyclic) :
    ∀ (fuel : Nat) (deg : List (α × Nat)) (gen acc : List α), GoodTable deg →
      (∀ v ∈ G.nodes, v ∈ deg.map (·.1) ∨ v ∈ gen ∨ v ∈ acc) →
      (∀ v d, (v, d) ∈ deg → d + (acc.flatMap G.children).count v ≤ G.indegree v) →
      deg.length + 1 + (if gen = [] then 0 else 1) ≤ fuel →
      ∃ o, topoLoop G fuel deg gen acc = .ok o := by
  intro fuel
  induction fuel with
  | zero => intro deg gen acc _ _ _ hf; omega
  | succ n ih =>
    intro deg gen acc hg hcov hcnt hf
    simp only [topoLoop]
    by_cases hgen : gen = []
    · subst hgen
      simp only [List.isEmpty_nil, if_true]
      have hdeg : deg = [] := by
        have hK : deg.map (·.1) = [] := by
          apply no_closed_set G ha
          intro v hv
          obtain ⟨⟨v', d⟩, hp, rfl⟩ := List.mem_map.1 hv
          have hpos := hg.2 _ hp
          have hc := hcnt v' d hp
          have : ∃ e ∈ G.di, e.2 = v' ∧ e.1 ∉ acc := by
            by_contra hno
            have hno' : ∀ e ∈ G.di, e.2 = v' → e.1 ∈ acc := fun e he hv => by
              by_contra h
              exact hno ⟨e, he, hv, h⟩
            have := indegree_le_of_parents_done G acc v' hno'
            simp only at hpos
            omega
          obtain ⟨e, he, rfl, hacc⟩ := this
          have hn := (hw.di_mem e he).1
          rcases hcov e.1 hn with h | h | h
          · exact ⟨e.1, h, he⟩
          · cases h
          · exact absurd h hacc
        exact List.map_eq_nil_iff.1 hK
      subst hdeg
      exact ⟨acc, by simp⟩
    · have hne : gen.isEmpty = false := by simpa [List.isEmpty_iff] using hgen
      simp only [hne, Bool.false_eq_true, if_false]
      rw [topoGen_eq]
      obtain ⟨g', m', l'⟩ := foldl_decr_spec (gen.flatMap G.children) (deg, []) hg
      have hkeep := fun v hv => topoGen_keeps G deg gen v hv
      simp only [topoGen_eq] at hkeep
      apply ih
      · exact g'
      · intro v hv
        rcases hcov v hv with h | h | h
        · rcases hkeep v h with h' | h'
          · exact Or.inl h'
          · exact Or.inr (Or.inl h')
        · exact Or.inr (Or.inr (by simp [h]))
        · exact Or.inr (Or.inr (by simp [h]))
      · intro v d' h
        obtain ⟨d, hd, hle⟩ := m' v d' h
        have := hcnt v d hd
        rw [List.flatMap_append, List.count_append]
        omega
      · simp only [List.length_nil, Nat.add_zero] at l'
        simp only [hgen, if_false] at hf
        split
        · omega
        · rename_i hnext
          have : 0 < ((gen.flatMap G.children).foldl decr (deg, [])).2.length :=
            List.length_pos_iff.2 hnext
          omega

/-- **`nx.topological_sort` succeeds on every well-formed acyclic graph** -/
theorem topologicalSort_total (G : MG α) (hw : G.WF) (ha : G.Acyclic) :
    ∃ o, G.topologicalSort = .ok o := by
  unfold topologicalSort
  apply topoLoop_total G hw ha
  · constructor
    · have : ((G.nodes.map (fun v => (v, G.indegree v))).filter (fun p => p.2 > 0)).map (·.1) =
          (G.nodes.filter (fun v => G.indegree v > 0)) := by
        rw [List.filter_map, List.map_map]
        simp [Function.comp_def]
      rw [this]
      exact hw.nodup.filter _
    · intro p hp
      rw [List.mem_filter] at hp
      simpa using hp.2
  · intro v hv
    by_cases hz : G.indegree v = 0
    · right; left; simp [hv, hz]
    · left
      simp only [List.mem_map, List.mem_filter, decide_eq_true_eq]
      exact ⟨(v, G.indegree v), ⟨⟨v, hv, rfl⟩, Nat.pos_of_ne_zero hz⟩, rfl⟩
  · intro v d h
    simp only [List.mem_filter, List.mem_map, Prod.mk.injEq] at h
    obtain ⟨⟨_, _, rfl, rfl⟩, _⟩ := h
    simp
  · have hl : ((G.nodes.map (fun v => (v, G.indegree v))).filter (fun p => p.2 > 0)).length ≤ G.nodes.length := by
      refine le_trans (List.length_filter_le _ _) (by simp)
    split
    · omega
    · rename_i hz
      obtain ⟨x, hx⟩ := List.exists_mem_of_ne_nil _ hz
      rw [List.mem_filter] at hx
      have hlt : ((G.nodes.map (fun v => (v, G.indegree v))).filter (fun p => p.2 > 0)).length <
          (G.nodes.map (fun v => (v, G.indegree v))).length :=
        List.length_filter_lt_length_iff_exists.2 ⟨(x, G.indegree x), List.mem_map.2 ⟨x, hx.1, rfl⟩, by
          have := hx.2
          simp only [decide_eq_true_eq] at this
          simp [this]⟩
      rw [List.length_map] at hlt
      omega

end Y0.MG
