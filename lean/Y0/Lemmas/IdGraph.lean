/-
  Y0.Lemmas.IdGraph — graph facts used by the developments about ID (on top of the C14 characterisations).
-/
import Y0.Props.C14
import Y0.Lemmas.QFactor

namespace Y0
namespace MG
open Relation

variable {G : MG Name}

theorem ancestorsInclusive_sources {S A : List Name} (h : G.ancestorsInclusive S = .ok A) :
    ∀ s ∈ S, s ∈ G.nodes := by
  by_contra hc
  rw [ancestorsInclusive_error G S hc] at h
  cases h

/-- ancestors of nodes are nodes -/
theorem ancestorsInclusive_sub (hG : G.WF) {S A : List Name} (h : G.ancestorsInclusive S = .ok A) :
    ∀ v ∈ A, v ∈ G.nodes := by
  intro v hv
  obtain ⟨s, hs, hvs⟩ := (ancestorsInclusive_spec G hG S A h v).mp hv
  rcases ReflTransGen.cases_head hvs with rfl | ⟨c, hvc, _⟩
  · exact ancestorsInclusive_sources h v hs
  · exact (hG.di_mem _ hvc).1

theorem ancestorsInclusive_self {S A : List Name} (hG : G.WF) (h : G.ancestorsInclusive S = .ok A) :
    ∀ s ∈ S, s ∈ A := fun s hs => (ancestorsInclusive_spec G hG S A h s).mpr ⟨s, hs, .refl⟩

end MG
end Y0
