/-
  Y0.Lemmas.IdGraph — graph facts used by the developments about ID (on top of the C14 characterisations).
-/
import Y0.Props.C14
import Y0.Lemmas.QFactor
import Mathlib.Data.List.Perm.Subperm

namespace Y0
namespace MG
open Relation

variable {G : MG Name}

theorem ancestorsInclusive_sources {S A : List Name} (h : G.ancestorsInclusive S = .ok A) :
    ∀ s ∈ S, s ∈ G.nodes := by
  by_contra hc
  rw [ancestorsInclusive_error G S hc] at h
  cases h

/-- ancestors of nodes are nodes -/
theorem ancestorsInclusive_sub (hG : G.WF) {S A : List Name} (h : G.ancestorsInclusive S = .ok A) :
    ∀ v ∈ A, v ∈ G.nodes := by
  intro v hv
  obtain ⟨s, hs, hvs⟩ := (ancestorsInclusive_spec G hG S A h v).mp hv
  rcases ReflTransGen.cases_head hvs with rfl | ⟨c, hvc, _⟩
  · exact ancestorsInclusive_sources h v hs
  · exact (hG.di_mem _ hvc).1

theorem ancestorsInclusive_self {S A : List Name} (hG : G.WF) (h : G.ancestorsInclusive S = .ok A) :
    ∀ s ∈ S, s ∈ A := fun s hs => (ancestorsInclusive_spec G hG S A h s).mpr ⟨s, hs, .refl⟩

/-! ### closures and districts are duplicate free -/

theorem nodup_closure {α : Type} [DecidableEq α] (next : α → List α) (fuel : Nat) (A : List α) (hA : A.Nodup) :
    (closure next fuel A).Nodup := by
  induction fuel generalizing A with
  | zero => simpa [closure] using hA
  | succ n ih =>
    simp only [closure]
    split
    · exact hA
    · apply ih
      refine List.Nodup.append hA (nodup_dedup' _) ?_
      intro a ha hb
      simp only [mem_dedup', List.mem_filter, decide_eq_true_eq] at hb
      exact hb.2 ha

theorem nodup_districtOf (v : Name) : (G.districtOf v).Nodup :=
  nodup_closure _ _ _ (by simp)

theorem districtsAux_mem (todo : List Name) (acc : List (List Name)) (d : List Name)
    (h : d ∈ G.districtsAux todo acc) : d ∈ acc ∨ ∃ v, d = G.districtOf v := by
  induction todo generalizing acc with
  | nil => simp only [districtsAux, List.mem_reverse] at h; exact Or.inl h
  | cons v vs ih =>
    simp only [districtsAux] at h
    split at h
    · exact ih acc h
    · rcases ih _ h with h | h
      · rcases List.mem_cons.mp h with rfl | h
        · exact Or.inr ⟨v, rfl⟩
        · exact Or.inl h
      · exact Or.inr h

theorem nodup_of_mem_districts {d : List Name} (h : d ∈ G.districts) : d.Nodup := by
  rcases districtsAux_mem G.nodes [] d h with h | ⟨v, rfl⟩
  · cases h
  · exact nodup_districtOf v

theorem mem_nodes_of_mem_district (hG : G.WF) {d : List Name} (hd : d ∈ G.districts) {v : Name} (hv : v ∈ d) :
    v ∈ G.nodes := (districts_cover G hG v).mpr ⟨d, hd, hv⟩

/-- two districts that share a member have the same members -/
theorem district_ext (hG : G.WF) {d d' : List Name} (hd : d ∈ G.districts) (hd' : d' ∈ G.districts)
    {v : Name} (hv : v ∈ d) (hv' : v ∈ d') (w : Name) : w ∈ d ↔ w ∈ d' := by
  rw [districts_spec G hG d hd v hv w, districts_spec G hG d' hd' v hv' w]

/-- with other than exactly one district, every district misses some node of another one -/
theorem exists_other_district (hG : G.WF) {D : List Name} (hD : D ∈ G.districts) (hlen : G.districts.length ≠ 1) :
    ∃ D' ∈ G.districts, ∃ x ∈ D', x ∉ D := by
  have hpw := districts_disjoint G hG
  obtain ⟨l1, l2, hsplit⟩ := List.append_of_mem hD
  have hne : l1 ≠ [] ∨ l2 ≠ [] := by
    by_contra hc
    have hc1 : l1 = [] := by by_contra h; exact hc (Or.inl h)
    have hc2 : l2 = [] := by by_contra h; exact hc (Or.inr h)
    rw [hsplit, hc1, hc2] at hlen
    simp at hlen
  rw [hsplit] at hpw
  rcases hne with h | h
  · obtain ⟨D', hD'⟩ := List.exists_mem_of_ne_nil _ h
    have hD'm : D' ∈ G.districts := by rw [hsplit]; exact List.mem_append_left _ hD'
    obtain ⟨x, hx⟩ := List.exists_mem_of_ne_nil _ (districts_nonempty G hG D' hD'm)
    refine ⟨D', hD'm, x, hx, ?_⟩
    exact (List.pairwise_append.mp hpw).2.2 D' hD' D List.mem_cons_self x hx
  · obtain ⟨D', hD'⟩ := List.exists_mem_of_ne_nil _ h
    have hD'm : D' ∈ G.districts := by
      rw [hsplit]; exact List.mem_append_right _ (List.mem_cons_of_mem _ hD')
    obtain ⟨x, hx⟩ := List.exists_mem_of_ne_nil _ (districts_nonempty G hG D' hD'm)
    refine ⟨D', hD'm, x, hx, ?_⟩
    have := (List.pairwise_cons.mp (List.pairwise_append.mp hpw).2.1).1 D' hD'
    exact fun hxD => this x hxD hx

/-- a graph with exactly one district: every node is in it -/
theorem single_district_all (hG : G.WF) {S : List Name} (h : G.districts = [S]) : ∀ v, v ∈ S ↔ v ∈ G.nodes := by
  intro v
  constructor
  · intro hv; exact mem_nodes_of_mem_district hG (by rw [h]; simp) hv
  · intro hv
    obtain ⟨d, hd, hvd⟩ := (districts_cover G hG v).mp hv
    rw [h] at hd
    simp only [List.mem_singleton] at hd
    exact hd ▸ hvd

/-! ### `SameDistrict` in a graph with fewer bidirected edges -/

theorem sameDistrict_mono {G H : MG Name} (hsub : ∀ u v, G.BiEdge u v → H.BiEdge u v) {u v : Name}
    (h : G.SameDistrict u v) : H.SameDistrict u v := by
  induction h with
  | refl => exact .refl
  | tail _ hbc ih => exact .tail ih (hsub _ _ hbc)

/-! ### acyclicity is inherited -/

theorem Ranked.subgraph (h : G.Ranked) (S : List Name) : (G.subgraph S).Ranked := by
  obtain ⟨rank, hr⟩ := h
  refine ⟨rank, fun e he => hr e ?_⟩
  have : (G.subgraph S).DiEdge e.1 e.2 := he
  exact ((diEdge_subgraph G S e.1 e.2).mp this).1

/-! ### lengths -/

theorem length_lt_of_subset {A B : List Name} (hA : A.Nodup) (hsub : ∀ a ∈ A, a ∈ B) {b : Name} (hb : b ∈ B)
    (hbA : b ∉ A) : A.length < B.length := by
  have hnd : (b :: A).Nodup := List.nodup_cons.mpr ⟨hbA, hA⟩
  have hs : (b :: A) ⊆ B := by
    intro x hx
    rcases List.mem_cons.mp hx with rfl | hx
    · exact hb
    · exact hsub x hx
  have := (List.subperm_of_subset hnd hs).length_le
  simp only [List.length_cons] at this
  omega

end MG
end Y0
