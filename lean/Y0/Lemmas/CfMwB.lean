/-
  Y0.Lemmas.CfMwB — MULTI-WORLD events, part B: the semantic core.

  * `mw_local`    : the non-self-intervened nodes `V_s` of the counterfactual graph (each in ITS OWN world `s`) take the values `τ`
                    exactly at the noise points where every local mechanism event `f_V(τ pa(V), u) = τ V` holds — provided `τ` reads
                    the keys as the event does and the self-intervened nodes as their worlds do.  (Induction along the processing
                    order, with the semantic invariants of the merge loop, `MWFacts`.)
  * `mw_marginal` : summing the joint event of the non-self-intervened nodes over the values of the nodes that are not keys leaves
                    the event of the keys.
-/
import Y0.Lemmas.CfMwA

namespace Y0.Cf
open Relation MG Fscm

/-! ## rank in the processing order -/

def rankIn (topo : List Name) (v : Name) : Nat := (topo.takeWhile (· ≠ v)).length

theorem rankIn_lt_of_before {topo : List Name} {v p : Name} (h : Before topo v p) : rankIn topo p < rankIn topo v := by
  unfold Before at h
  unfold rankIn
  induction topo with
  | nil => simp at h
  | cons a l ih =>
    simp only [List.takeWhile_cons] at h ⊢
    by_cases hav : a = v
    · simp [hav] at h
    · simp only [hav, ne_eq, not_false_eq_true, decide_true, if_true] at h ⊢
      by_cases hap : a = p
      · simp [hap]
      · simp only [hap, ne_eq, not_false_eq_true, decide_true, if_true, List.length_cons]
        rcases List.mem_cons.1 h with rfl | h'
        · exact absurd rfl hap
        · exact Nat.succ_lt_succ (ih h')

/-! ## the local characterisation -/

section
variable {M : Model} {ν : BaseValues} {G : MG Name} {topo : List Name} {ev : Event} {g : MG Var} {nev : Event}

theorem exists_self_iv (x : Var) (h : isNotSelfIntervened x = false) : ∃ i ∈ x.ivs, i.name = x.name := by
  unfold isNotSelfIntervened at h
  have : ¬ (∀ i ∈ x.ivs, (decide (i.name ≠ x.name)) = true) := by
    intro hall
    rw [List.all_eq_true.2 hall] at h
    cases h
  simp only [ne_eq, decide_not, Bool.not_eq_eq_eq_not, Bool.not_true, decide_eq_false_iff_not, not_forall,
    Decidable.not_not] at this
  obtain ⟨i, hi, hin⟩ := this
  exact ⟨i, hi, hin⟩

/-- a self-intervened node takes the value its own subscript gives it -/
theorem valueOf_self (hM : Compatible M G) (x : Var) (hx : KeyOK G x) (i : Iv) (hi : i ∈ x.ivs) (hn : i.name = x.name)
    (u : NoisePoint) : valueOf M ν u x = ivValue ν i := by
  unfold valueOf
  apply solve_forced M u _ x.name _ ((hM.perm.mem_iff).2 hx.inG)
  rw [← hn]
  exact forced_worldOf ν x.ivs i hi hx.subs

/-- the value of a non-self-intervened node, given the values of the parents in its world -/
theorem valueOf_nsi (hM : Compatible M G) (n : Var) (hn : KeyOK G n) (hnsi : isNotSelfIntervened n = true) (u : NoisePoint) :
    valueOf M ν u n =
      M.f n.name ((M.pa n.name).map (solve M u (worldOf ν n.ivs))) ((M.lat n.name).map fun j => u.getD j 0) := by
  unfold valueOf
  exact solve_unforced M hM.topoOrder u _ n.name ((hM.perm.mem_iff).2 hn.inG) (forced_none_of_nsi ν n hnsi)

/-- **the local characterisation of the joint event of the counterfactual graph** -/
theorem mw_local (facts : MWFacts M ν G topo ev g nev) (hM : Compatible M G) (τ : Valuation)
    (hkeys : ∀ p ∈ nev, τ p.1.name = ivValue ν p.2)
    (hkeysNSI : ∀ k ∈ nev.keys, isNotSelfIntervened k = true)
    (hτsi : ∀ x ∈ g.nodes, isNotSelfIntervened x = false → ∀ i ∈ x.ivs, i.name = x.name → τ x.name = ivValue ν i)
    (u : NoisePoint) :
    (∀ n ∈ (nsiSubgraph g).nodes, valueOf M ν u n = τ n.name) ↔
      (∀ n ∈ (nsiSubgraph g).nodes, localOK M τ u n.name = true) := by
  -- the value of a parent node under `τ`, once it is known for the non-self-intervened ones
  have hpar : ∀ (P : Var → Prop), (∀ n ∈ (nsiSubgraph g).nodes, P n → valueOf M ν u n = τ n.name) →
      ∀ x ∈ g.nodes, (isNotSelfIntervened x = true → P x) → valueOf M ν u x = τ x.name := by
    intro P hP x hx hPx
    by_cases hxn : isNotSelfIntervened x = true
    · exact hP x ((mem_nsiSubgraph_iff g x).2 ⟨hx, hxn⟩) (hPx hxn)
    · have hxf : isNotSelfIntervened x = false := by simpa using hxn
      obtain ⟨i, hi, hin⟩ := exists_self_iv x hxf
      rw [valueOf_self hM x (facts.nodeOK x hx) i hi hin u, hτsi x hx hxf i hi hin]
  constructor
  · intro hv
    -- the whole event holds at `u`
    have hnev : allHoldN M ν (fun _ => True) nev u := by
      intro q hq _
      rw [show q = (q.1, q.2) from rfl, holds_conjunctOf]
      have hk : q.1 ∈ nev.keys := (mem_keys_iff nev q.1).2 ⟨q.2, hq⟩
      rw [hv q.1 ((mem_nsiSubgraph_iff g q.1).2 ⟨facts.keysNodes q.1 hk, hkeysNSI q.1 hk⟩), hkeys q hq]
    have hev : allHoldN M ν (fun _ => True) ev u := (facts.sup (fun _ => True) (fun _ _ _ _ => trivial) u).1 hnev
    intro n hn
    obtain ⟨hng, hnsi⟩ := (mem_nsiSubgraph_iff g n).1 hn
    have hmap : (M.pa n.name).map τ = (M.pa n.name).map (solve M u (worldOf ν n.ivs)) := by
      apply List.map_congr_left
      intro p hp
      obtain ⟨x, hxn, hxname, hval⟩ := facts.repSem n hng hnsi p hp
      rw [← hval u (fun q hq _ => hev q hq trivial), ← hxname]
      exact (hpar (fun _ => True) (fun m hm _ => hv m hm) x (facts.wf.di_mem _ hxn).1 (fun _ => trivial)).symm
    unfold localOK
    rw [hmap, ← valueOf_nsi hM n (facts.nodeOK n hng) hnsi u, hv n hn]
    simp
  · intro hl
    -- along the processing order
    have key : ∀ k, ∀ n ∈ (nsiSubgraph g).nodes, rankIn topo n.name < k → valueOf M ν u n = τ n.name := by
      intro k
      induction k with
      | zero => intro n _ h; exact absurd h (Nat.not_lt_zero _)
      | succ k ih =>
        intro n hn hrank
        obtain ⟨hng, hnsi⟩ := (mem_nsiSubgraph_iff g n).1 hn
        have hmap : (M.pa n.name).map (solve M u (worldOf ν n.ivs)) = (M.pa n.name).map τ := by
          apply List.map_congr_left
          intro p hp
          have hpn : rankIn topo p < rankIn topo n.name := rankIn_lt_of_before (facts.parentsFirst n.name p hp)
          obtain ⟨x, hxn, hxname, hval⟩ := facts.repSem n hng hnsi p hp
          -- the conjuncts about the variables processed before `p` hold
          have hearly : allHoldN M ν (Before topo p) ev u := by
            apply (facts.sup (Before topo p) (fun v hv m hm => before_trans hv hm) u).1
            intro q hq hbq
            rw [show q = (q.1, q.2) from rfl, holds_conjunctOf]
            have hk : q.1 ∈ nev.keys := (mem_keys_iff nev q.1).2 ⟨q.2, hq⟩
            have hqN := (mem_nsiSubgraph_iff g q.1).2 ⟨facts.keysNodes q.1 hk, hkeysNSI q.1 hk⟩
            rw [ih q.1 hqN (by have := rankIn_lt_of_before hbq; omega), hkeys q hq]
          rw [← hval u hearly, ← hxname]
          exact hpar (fun m => rankIn topo m.name < k) (fun m hm hmk => ih m hm hmk) x (facts.wf.di_mem _ hxn).1
            (fun _ => by rw [hxname]; omega)
        rw [valueOf_nsi hM n (facts.nodeOK n hng) hnsi u, hmap]
        have := hl n hn
        unfold localOK at this
        simpa using this
    intro n hn
    exact key (rankIn topo n.name + 1) n hn (Nat.lt_succ_self _)

end

/-! ## marginalisation over the nodes that are not keys -/

theorem mw_marginal (noise : List (List Rat)) (N : List Var) (r : Var → NoisePoint → Nat) (dom : Name → Nat)
    (hinj : ∀ a ∈ N, ∀ b ∈ N, a.name = b.name → a = b) (F : List Name) (hF : F.Nodup)
    (hFN : ∀ V ∈ F, ∃ n ∈ N, n.name = V) (hb : ∀ n ∈ N, n.name ∈ F → ∀ u, r n u < dom n.name) (σ : Valuation) :
    sumOver dom F (fun τ => mass noise (fun u => N.all fun n => r n u == τ n.name)) σ =
      mass noise (fun u => (N.filter fun n => decide (n.name ∉ F)).all fun n => r n u == σ n.name) := by
  induction F generalizing σ with
  | nil =>
    rw [sumOver_nil]
    apply mass_congr
    intro u
    simp
  | cons V F ih =>
    rw [List.nodup_cons] at hF
    rw [sumOver_cons]
    have ih' := fun τ => ih hF.2 (fun V' hV' => hFN V' (List.mem_cons_of_mem _ hV'))
      (fun n hn hnF u => hb n hn (List.mem_cons_of_mem _ hnF) u) τ
    rw [List.map_congr_left (fun x _ => ih' (update σ V x))]
    obtain ⟨n0, hn0, hn0V⟩ := hFN V List.mem_cons_self
    have hterm : ∀ x, mass noise (fun u => (N.filter fun n => decide (n.name ∉ F)).all fun n => r n u == (update σ V x) n.name) =
        mass noise (fun u => ((N.filter fun n => decide (n.name ∉ V :: F)).all fun n => r n u == σ n.name) &&
          decide (r n0 u = x)) := by
      intro x
      apply mass_congr
      intro u
      apply Bool.eq_iff_iff.2
      simp only [List.all_eq_true, List.mem_filter, decide_eq_true_eq, and_imp, beq_iff_eq, Bool.and_eq_true, List.mem_cons,
        not_or]
      constructor
      · intro h
        refine ⟨fun n hn hnV hnF => ?_, ?_⟩
        · have := h n hn hnF
          simpa [update, hnV] using this
        · have := h n0 hn0 (by rw [hn0V]; exact hF.1)
          simpa [update, hn0V] using this
      · rintro ⟨h1, h2⟩ n hn hnF
        by_cases hnV : n.name = V
        · have : n = n0 := hinj n hn n0 hn0 (by rw [hnV, hn0V])
          subst this
          simp [update, hnV, h2]
        · have := h1 n hn hnV hnF
          simpa [update, hnV] using this
    rw [List.map_congr_left (fun x _ => hterm x)]
    exact mass_sum_values noise _ (fun u => r n0 u) (dom V) (fun u => by
      have := hb n0 hn0 (by rw [hn0V]; exact List.mem_cons_self) u
      rw [hn0V] at this
      exact this)

end Y0.Cf
