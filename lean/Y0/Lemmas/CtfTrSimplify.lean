/-
  Y0.Lemmas.CtfTrSimplify — when SIMPLIFY (Y0.Model.CtfSimplify) can raise after the validator of Algorithm 2 accepted
  the event, and what its output looks like (property C09, clause "never another error").

  The known crash class of the harness is `reflexive ∧ has_none` (`CrashClassU`).  The model raises on a strictly
  smaller class, `SimplifyRisk`: some self-intervened variable `Y_y` occurs together with a VALUELESS variable of the
  same name `Y` (possibly `Y_y` itself).  Outside it — on a well-formed graph, for event variables that are nodes, are
  not starred plain variables and whose subscript lists are duplicate free (a `frozenset`) — SIMPLIFY returns.
-/
import Y0.Model.CtfTr
import Y0.Props.C19

namespace Y0.CtfTr
open Ctf Relation Y0.MG

/-! ### the crash class -/

/-- some event variable has a subscript on its own name (`Y_y`) -/
def Reflexive (e : Event) : Bool := e.any fun p => p.1.ivs.any (·.name == p.1.name)
/-- some event variable has no value -/
def HasNone (e : Event) : Bool := e.any (·.2.isNone)
/-- the known crash class of the unconditional procedure (harness key `crash:simplify-typeerror`) -/
def CrashClassU (e : Event) : Bool := Reflexive e && HasNone e

/-- the class on which the MODEL of SIMPLIFY can raise: a self-intervened variable `Y_y` together with a valueless
variable named `Y` (the variable itself, the plain `Y`, or any `Y_x`) -/
def SimplifyRisk (e : Event) : Bool :=
  e.any fun p => selfIntervened p.1 && e.any fun q => q.2.isNone && (q.1.name == p.1.name)

theorem simplifyRisk_crashClass (e : Event) (h : SimplifyRisk e = true) : CrashClassU e = true := by
  simp only [SimplifyRisk, List.any_eq_true, Bool.and_eq_true] at h
  obtain ⟨p, hp, hs, q, hq, hqn, _⟩ := h
  simp only [CrashClassU, Reflexive, HasNone, Bool.and_eq_true, List.any_eq_true]
  exact ⟨⟨p, hp, by simpa [selfIntervened] using hs⟩, ⟨q, hq, hqn⟩⟩

theorem simplifyRisk_false_of_crashClass (e : Event) (h : CrashClassU e = false) : SimplifyRisk e = false := by
  cases hr : SimplifyRisk e with
  | false => rfl
  | true => rw [simplifyRisk_crashClass e hr] at h; cases h

/-! ### association lists -/

theorem assoc_unique {α β : Type} : ∀ (l : List (α × β)), (l.map (·.1)).Nodup → ∀ (a : α) (b1 b2 : β),
    (a, b1) ∈ l → (a, b2) ∈ l → b1 = b2
  | [], _, _, _, _, h1, _ => by cases h1
  | r :: l, hn, a, b1, b2, h1, h2 => by
    simp only [List.map_cons, List.nodup_cons] at hn
    rcases List.mem_cons.1 h1 with rfl | h1'
    · rcases List.mem_cons.1 h2 with h2' | h2'
      · cases h2'; rfl
      · exact absurd (List.mem_map.2 ⟨(a, b2), h2', rfl⟩) hn.1
    · rcases List.mem_cons.1 h2 with rfl | h2'
      · exact absurd (List.mem_map.2 ⟨(a, b1), h1', rfl⟩) hn.1
      · exact assoc_unique l hn.2 a b1 b2 h1' h2'

/-- every value set of the dictionary is non-empty -/
def NonemptyVals (m : VMap) : Prop := ∀ p ∈ m, p.2 ≠ []
/-- a dictionary has each key once -/
def KeysNodup (m : VMap) : Prop := (m.map (·.1)).Nodup

theorem nonempty_add (m : VMap) (k : Var) (x : Val) (h : NonemptyVals m) : NonemptyVals (VMap.add m k x) := by
  unfold VMap.add
  split
  · intro p hp
    simp only [List.mem_map] at hp
    obtain ⟨q, hq, rfl⟩ := hp
    split
    · simp only
      split
      · exact h q hq
      · simp
    · exact h q hq
  · intro p hp
    simp only [List.mem_append, List.mem_singleton] at hp
    rcases hp with hp | rfl
    · exact h p hp
    · simp

theorem keys_add (m : VMap) (k : Var) (x : Val) :
    (VMap.add m k x).map (·.1) =
      if m.any (fun p => decide (p.1 = k)) then m.map (·.1) else m.map (·.1) ++ [k] := by
  unfold VMap.add
  split
  · rw [List.map_map]
    apply List.map_congr_left
    intro p _
    simp only [Function.comp]
    split <;> rfl
  · simp

theorem keysNodup_add (m : VMap) (k : Var) (x : Val) (h : KeysNodup m) : KeysNodup (VMap.add m k x) := by
  unfold KeysNodup at *
  rw [keys_add]
  split
  · exact h
  · rename_i hex
    rw [List.nodup_append]
    refine ⟨h, by simp, ?_⟩
    intro a ha b hb
    simp only [List.mem_singleton] at hb
    subst hb
    obtain ⟨q, hq, rfl⟩ := List.mem_map.1 ha
    intro hqk
    apply hex
    simp only [List.any_eq_true, decide_eq_true_eq]
    exact ⟨q, hq, hqk⟩

theorem nonempty_foldl_add (E : Event) (m : VMap) (h : NonemptyVals m) :
    NonemptyVals (E.foldl (fun m p => VMap.add m p.1 p.2) m) := by
  induction E generalizing m with
  | nil => exact h
  | cons p E ih => exact ih _ (nonempty_add m p.1 p.2 h)

theorem keysNodup_foldl_add (E : Event) (m : VMap) (h : KeysNodup m) :
    KeysNodup (E.foldl (fun m p => VMap.add m p.1 p.2) m) := by
  induction E generalizing m with
  | nil => exact h
  | cons p E ih => exact ih _ (keysNodup_add m p.1 p.2 h)

theorem nonempty_foldl_add_key (xs : List Val) (m : VMap) (k : Var) (h : NonemptyVals m) :
    NonemptyVals (xs.foldl (fun m x => VMap.add m k x) m) := by
  induction xs generalizing m with
  | nil => exact h
  | cons x xs ih => exact ih _ (nonempty_add m k x h)

theorem nonempty_update (m : VMap) (k : Var) (xs : List Val) (h : NonemptyVals m) (hx : xs ≠ []) :
    NonemptyVals (VMap.update m k xs) := by
  unfold VMap.update
  split
  · exact nonempty_foldl_add_key xs m k h
  · intro p hp
    simp only [List.mem_append, List.mem_singleton] at hp
    rcases hp with hp | rfl
    · exact h p hp
    · cases xs with
      | nil => exact absurd rfl hx
      | cons y ys => simp [dedup']

/-! ### `_remove_repeated_variables_and_values` -/

theorem removeRepeated_keysNodup (E : Event) : KeysNodup (removeRepeated E) := by
  unfold removeRepeated KeysNodup
  simp only
  rw [List.map_map]
  have : (List.map ((fun x : Var × List Val => x.1) ∘ fun p : Var × List Val =>
      if (decide (p.2.length > 1) && mem' none p.2) = true then (p.1, p.2.filter fun x => decide (x ≠ none)) else p)
      (E.foldl (fun m p => VMap.add m p.1 p.2) [])) = (E.foldl (fun m p => VMap.add m p.1 p.2) []).map (·.1) := by
    apply List.map_congr_left
    intro p _
    simp only [Function.comp]
    split <;> rfl
  rw [this]
  exact keysNodup_foldl_add E [] (by simp [KeysNodup])

/-- the value sets of `_remove_repeated_variables_and_values` are non-empty, and a `None` is alone in its set -/
theorem removeRepeated_clean (E : Event) (p : Var × List Val) (hp : p ∈ removeRepeated E) :
    p.2 ≠ [] ∧ ¬ (p.2.length > 1 ∧ none ∈ p.2) := by
  unfold removeRepeated at hp
  simp only [List.mem_map] at hp
  obtain ⟨⟨k, v⟩, hq, rfl⟩ := hp
  have hne : v ≠ [] := nonempty_foldl_add E [] (by intro p hp; cases hp) _ hq
  have hnd : v.Nodup := VMap.nodup_foldl_add E [] (by intro p hp; cases hp) _ hq
  simp only
  split
  · rename_i hc
    simp only [Bool.and_eq_true, decide_eq_true_eq] at hc
    constructor
    · obtain ⟨x, y, hx, hy, hxy⟩ := two_of_length v hnd hc.1
      by_cases hxn : x = none
      · have hyn : y ≠ none := fun h => hxy (by rw [hxn, h])
        intro h0
        have h0' : v.filter (fun x => decide (x ≠ none)) = [] := h0
        have : y ∈ v.filter (fun x => decide (x ≠ none)) := List.mem_filter.2 ⟨hy, by simpa using hyn⟩
        rw [h0'] at this; cases this
      · intro h0
        have h0' : v.filter (fun x => decide (x ≠ none)) = [] := h0
        have : x ∈ v.filter (fun x => decide (x ≠ none)) := List.mem_filter.2 ⟨hx, by simpa using hxn⟩
        rw [h0'] at this; cases this
    · rintro ⟨_, hn⟩
      have := (List.mem_filter.1 hn).2
      simp at this
  · rename_i hc
    refine ⟨hne, ?_⟩
    rintro ⟨h1, h2⟩
    apply hc
    simp only [Bool.and_eq_true, decide_eq_true_eq]
    exact ⟨h1, (mem'_iff _ _).2 h2⟩

/-- a `None` bound to a key is the only value of that key -/
theorem removeRepeated_none_alone (E : Event) (k : Var) (x : Val) (h1 : (removeRepeated E).Has k none)
    (h2 : (removeRepeated E).Has k x) : x = none := by
  obtain ⟨v1, hv1, hn⟩ := h1
  obtain ⟨v2, hv2, hx⟩ := h2
  have : v1 = v2 := assoc_unique _ (removeRepeated_keysNodup E) k v1 v2 hv1 hv2
  subst this
  have hcl := (removeRepeated_clean E _ hv1).2
  have hlen : v1.length ≤ 1 := by
    by_contra hl
    exact hcl ⟨by simp only at hl ⊢; omega, hn⟩
  have := singleton_of_length v1 none hn hlen
  rw [this] at hx
  simpa using hx

/-! ### `_reduce_reflexive_counterfactual_variables_to_interventions` as a pure fold -/

/-- the key under which the values of a reflexive-part variable are stored: `Y` for `Y_y`, the variable itself otherwise -/
def rkey (v : Var) : Var := if v.isCf then v.base else v

theorem rkey_not_cf (v : Var) : (rkey v).isCf = false := by
  unfold rkey
  split
  · rfl
  · rename_i h; simpa using h

def reduceKeyed (m r : VMap) : VMap := m.foldl (fun r p => VMap.update r (rkey p.1) p.2) r

/-- when the loop does not raise it computes the pure fold -/
theorem reduceReflexive_eq_aux (m : VMap) (r r' : VMap)
    (h : m.foldlM (fun r p =>
      if !p.1.isCf then (pure (VMap.update r p.1 p.2) : Except Err VMap)
      else if p.1.ivs.length ≠ 1 then throw (.invalidInput "ValueError")
      else if checkNonreflexive p.1 then throw (.invalidInput "ValueError")
      else pure (VMap.update r p.1.base p.2)) r = .ok r') : r' = reduceKeyed m r := by
  induction m generalizing r with
  | nil =>
    simp only [List.foldlM_nil, pure, Except.pure, Except.ok.injEq] at h
    exact h.symm
  | cons p m ih =>
    simp only [List.foldlM_cons, bind, Except.bind] at h
    unfold reduceKeyed
    simp only [List.foldl_cons]
    by_cases hcf : p.1.isCf = true
    · by_cases hl : p.1.ivs.length = 1
      · by_cases hn : checkNonreflexive p.1 = true
        · simp [hcf, hl, hn, throw, throwThe, MonadExceptOf.throw] at h
        · simp only [hcf, Bool.not_true, Bool.false_eq_true, ↓reduceIte, hl, ne_eq, not_true_eq_false, hn, pure,
            Except.pure] at h
          have := ih _ h
          rw [this]
          simp [reduceKeyed, rkey, hcf]
      · simp [hcf, hl, throw, throwThe, MonadExceptOf.throw] at h
    · have hcf' : p.1.isCf = false := by simpa using hcf
      simp only [hcf', Bool.not_false, ↓reduceIte, pure, Except.pure] at h
      have := ih _ h
      rw [this]
      simp [reduceKeyed, rkey, hcf']

theorem reduceReflexive_eq (m r' : VMap) (h : reduceReflexive m = .ok r') : r' = reduceKeyed m [] :=
  reduceReflexive_eq_aux m [] r' h

theorem reduceReflexive_ok_aux (m : VMap) (r : VMap)
    (h : ∀ p ∈ m, p.1.isCf = true → p.1.ivs.length = 1 ∧ checkNonreflexive p.1 = false) :
    ∃ r', m.foldlM (fun r p =>
      if !p.1.isCf then (pure (VMap.update r p.1 p.2) : Except Err VMap)
      else if p.1.ivs.length ≠ 1 then throw (.invalidInput "ValueError")
      else if checkNonreflexive p.1 then throw (.invalidInput "ValueError")
      else pure (VMap.update r p.1.base p.2)) r = .ok r' := by
  induction m generalizing r with
  | nil => exact ⟨r, rfl⟩
  | cons p m ih =>
    simp only [List.foldlM_cons, bind, Except.bind]
    by_cases hcf : p.1.isCf = true
    · obtain ⟨h1, h2⟩ := h p (by simp) hcf
      simp only [hcf, Bool.not_true, Bool.false_eq_true, ↓reduceIte, h1, ne_eq, not_true_eq_false, h2, pure,
        Except.pure]
      exact ih _ (fun q hq => h q (by simp [hq]))
    · have hcf' : p.1.isCf = false := by simpa using hcf
      simp only [hcf', Bool.not_false, ↓reduceIte, pure, Except.pure]
      exact ih _ (fun q hq => h q (by simp [hq]))

theorem reduceReflexive_ok (m : VMap)
    (h : ∀ p ∈ m, p.1.isCf = true → p.1.ivs.length = 1 ∧ checkNonreflexive p.1 = false) :
    reduceReflexive m = .ok (reduceKeyed m []) := by
  obtain ⟨r', hr'⟩ := reduceReflexive_ok_aux m [] h
  have := reduceReflexive_eq m r' hr'
  subst this
  exact hr'

theorem reduceKeyed_has (m r : VMap) (k : Var) (x : Val) :
    (reduceKeyed m r).Has k x ↔ r.Has k x ∨ ∃ p ∈ m, rkey p.1 = k ∧ x ∈ p.2 := by
  unfold reduceKeyed
  induction m generalizing r with
  | nil => simp
  | cons p m ih =>
    simp only [List.foldl_cons, ih, VMap.has_update, List.mem_cons]
    constructor
    · rintro ((h | ⟨rfl, hx⟩) | ⟨q, hq, hk, hx⟩)
      · exact Or.inl h
      · exact Or.inr ⟨p, Or.inl rfl, rfl, hx⟩
      · exact Or.inr ⟨q, Or.inr hq, hk, hx⟩
    · rintro (h | ⟨q, (rfl | hq), hk, hx⟩)
      · exact Or.inl (Or.inl h)
      · exact Or.inl (Or.inr ⟨hk.symm, hx⟩)
      · exact Or.inr ⟨q, hq, hk, hx⟩

theorem reduceKeyed_nodup (m r : VMap) (h : r.NodupVals) : (reduceKeyed m r).NodupVals := by
  unfold reduceKeyed
  induction m generalizing r with
  | nil => exact h
  | cons p m ih => exact ih _ (VMap.nodup_update r _ p.2 h)

theorem reduceKeyed_nonempty (m r : VMap) (h : NonemptyVals r) (hm : NonemptyVals m) :
    NonemptyVals (reduceKeyed m r) := by
  unfold reduceKeyed
  induction m generalizing r with
  | nil => exact h
  | cons p m ih =>
    exact ih _ (nonempty_update r _ p.2 h (hm p (by simp))) (fun q hq => hm q (by simp [hq]))

theorem reduceKeyed_key (m r : VMap) (p : Var × List Val) (hp : p ∈ reduceKeyed m r) :
    (∃ q ∈ r, q.1 = p.1) ∨ ∃ q ∈ m, rkey q.1 = p.1 := by
  unfold reduceKeyed at hp
  induction m generalizing r with
  | nil => exact Or.inl ⟨p, hp, rfl⟩
  | cons a m ih =>
    simp only [List.foldl_cons] at hp
    rcases ih _ hp with ⟨q, hq, hk⟩ | ⟨q, hq, hk⟩
    · rcases VMap.key_update r (rkey a.1) a.2 q hq with h | ⟨q', hq', hk'⟩
      · exact Or.inr ⟨a, by simp, by rw [← hk, h]⟩
      · exact Or.inl ⟨q', hq', by rw [hk', hk]⟩
    · exact Or.inr ⟨q, by simp [hq], hk⟩

/-! ### the consistency check and the final comprehension -/

theorem anyInconsistent_ok (n r : VMap)
    (hn : ∀ p ∈ n, ¬ (p.2.length > 1 ∧ none ∈ p.2))
    (hr : ∀ p ∈ r, p.1.isCf = false → ¬ (p.2.length > 1 ∧ none ∈ p.2))
    (hc : ∀ p ∈ r, p.1.isCf = true → none ∉ p.2) : ∃ b, anyInconsistent n r = .ok b := by
  unfold anyInconsistent
  split
  · rename_i h
    exfalso
    simp only [Bool.or_eq_true, List.any_eq_true, Bool.and_eq_true, decide_eq_true_eq, Bool.not_eq_eq_eq_not,
      Bool.not_true] at h
    rcases h with ⟨p, hp, h1, h2⟩ | ⟨p, hp, ⟨h1, h2⟩, h3⟩
    · exact hn p hp ⟨h1, (mem'_iff _ _).1 h2⟩
    · exact hr p hp h2 ⟨h3, (mem'_iff _ _).1 h1⟩
  · split
    · exact ⟨_, rfl⟩
    · split
      · rename_i h
        exfalso
        simp only [List.any_eq_true, Bool.and_eq_true] at h
        obtain ⟨p, hp, h1, h2⟩ := h
        exact hc p hp h2 ((mem'_iff _ _).1 h1)
      · exact ⟨_, rfl⟩

theorem popAll_total (m : VMap) (h : NonemptyVals m) : ∃ e, popAll m = .ok e := by
  unfold popAll
  apply mapM_ok_of_forall
  intro p hp
  have := h p hp
  cases hv : p.2 with
  | nil => exact absurd hv this
  | cons x xs => exact ⟨(p.1, x), by simp [pure, Except.pure]⟩

/-! ### SIMPLIFY after minimisation -/

theorem splitReflexive_fst (me : Event) (p : Var × Val) (hp : p ∈ (splitReflexive me).1) :
    p ∈ me ∧ (p.1.isCf = true → selfIntervened p.1 = true) := by
  unfold splitReflexive at hp
  simp only [List.mem_filter, Bool.or_eq_true, Bool.and_eq_true, Bool.not_eq_eq_eq_not, Bool.not_true] at hp
  refine ⟨hp.1, fun hcf => ?_⟩
  rcases hp.2 with ⟨_, hs⟩ | hn
  · exact hs
  · rw [hcf] at hn; cases hn

theorem splitReflexive_snd (me : Event) (p : Var × Val) (hp : p ∈ (splitReflexive me).2) :
    p ∈ me ∧ p.1.isCf = true := by
  unfold splitReflexive at hp
  simp only [List.mem_filter, Bool.and_eq_true] at hp
  exact ⟨hp.1, hp.2.1⟩

/-- a passed consistency check: the value set of a counterfactual key of the reflexive part is `{i}` for EVERY
subscript `i` of the key -/
theorem anyInconsistent_false_cf (n r : VMap) (h : anyInconsistent n r = .ok false) :
    ∀ p ∈ r, p.1.isCf = true → ∀ i ∈ p.1.ivs, valSetEq [some i] p.2 = true := by
  unfold anyInconsistent at h
  split at h
  · cases h
  · split at h
    · cases h
    · split at h
      · cases h
      · simp only [Except.ok.injEq, List.any_eq_false, Bool.or_eq_true, Bool.and_eq_true, Bool.not_eq_eq_eq_not,
          Bool.not_true, decide_eq_true_eq, not_or, not_and, List.any_eq_true, not_exists] at h
        intro p hp hcf i hi
        have := (h p hp).2 hcf i hi
        simpa using this

theorem length_le_one_of_all_eq {α : Type} : ∀ (l : List α), l.Nodup → (∀ a ∈ l, ∀ b ∈ l, a = b) → l.length ≤ 1
  | [], _, _ => by simp
  | [_], _, _ => by simp
  | a :: b :: _, hn, h => by
    have hab : a = b := h a (by simp) b (by simp)
    rw [List.nodup_cons] at hn
    exact absurd (by simp [hab]) hn.1

theorem dropNone_nonempty (m : VMap) (hnd : m.NodupVals) (hne : NonemptyVals m) : NonemptyVals (dropNone m) := by
  intro p hp
  unfold dropNone at hp
  obtain ⟨q, hq, rfl⟩ := List.mem_map.1 hp
  split
  · rename_i hc
    simp only [Bool.and_eq_true, decide_eq_true_eq] at hc
    obtain ⟨x, y, hx, hy, hxy⟩ := two_of_length q.2 (hnd q hq) hc.1
    simp only
    intro hnil
    by_cases hxn : x = none
    · have hyn : y ≠ none := fun h => hxy (by rw [hxn, h])
      have : y ∈ q.2.filter (fun x => decide (x ≠ none)) := List.mem_filter.2 ⟨hy, by simpa using hyn⟩
      rw [hnil] at this; cases this
    · have : x ∈ q.2.filter (fun x => decide (x ≠ none)) := List.mem_filter.2 ⟨hx, by simpa using hxn⟩
      rw [hnil] at this; cases this
  · exact hne q hq

/-- **SIMPLIFY proper never raises** on a (minimised) event in which no self-intervened variable shares its name with
a valueless variable and the subscripts of every self-intervened variable are a duplicate-free list of subscripts on
its own name. -/
theorem simplifyCore_total (me : Event)
    (hB : ∀ p ∈ me, selfIntervened p.1 = true → p.2 ≠ none)
    (hC : ∀ p ∈ me, selfIntervened p.1 = true → p.1.ivs.Nodup ∧ checkNonreflexive p.1 = false) :
    ∃ r, simplifyCore me = .ok r := by
  -- facts about the two dictionaries
  have hRhas : ∀ k x, (removeRepeated (splitReflexive me).1).Has k x →
      (k, x) ∈ me ∧ (k.isCf = true → selfIntervened k = true) := fun k x hh =>
    splitReflexive_fst me (k, x) (removeRepeated_has _ k x hh)
  have hRentry : ∀ p ∈ removeRepeated (splitReflexive me).1, ∃ x, x ∈ p.2 ∧
      (removeRepeated (splitReflexive me).1).Has p.1 x := by
    intro p hp
    obtain ⟨x, hx⟩ := List.exists_mem_of_ne_nil _ (removeRepeated_clean _ p hp).1
    exact ⟨x, hx, p.2, hp, hx⟩
  have hNclean : ∀ p ∈ removeRepeated (splitReflexive me).2, ¬ (p.2.length > 1 ∧ none ∈ p.2) :=
    fun p hp => (removeRepeated_clean _ p hp).2
  have hNne : NonemptyVals (removeRepeated (splitReflexive me).2) := fun p hp => (removeRepeated_clean _ p hp).1
  have hRne : NonemptyVals (removeRepeated (splitReflexive me).1) := fun p hp => (removeRepeated_clean _ p hp).1
  -- a counterfactual key of the reflexive dictionary has no `None`
  have hRcf : ∀ p ∈ removeRepeated (splitReflexive me).1, p.1.isCf = true → none ∉ p.2 := by
    intro p hp hcf hnone
    obtain ⟨hmem, hs⟩ := hRhas p.1 none ⟨p.2, hp, hnone⟩
    exact hB (p.1, none) hmem (hs hcf) rfl
  -- first check
  obtain ⟨b1, h1⟩ := anyInconsistent_ok (removeRepeated (splitReflexive me).2) (removeRepeated (splitReflexive me).1)
    hNclean (fun p hp _ => (removeRepeated_clean _ p hp).2) hRcf
  -- an inconsistent event is answered at once
  by_cases hb1 : b1 = true
  · subst hb1
    unfold simplifyCore
    simp only [bind, Except.bind, h1, ↓reduceIte]
    exact ⟨_, rfl⟩
  have hb1' : b1 = false := by simpa using hb1
  subst hb1'
  -- the reduction: a consistent self-intervened variable has exactly one subscript
  have hred : reduceReflexive (removeRepeated (splitReflexive me).1) =
      .ok (reduceKeyed (removeRepeated (splitReflexive me).1) []) := by
    apply reduceReflexive_ok
    intro p hp hcf
    obtain ⟨x, hx, hhas⟩ := hRentry p hp
    obtain ⟨hmem, hs⟩ := hRhas p.1 x hhas
    obtain ⟨hnd, hchk⟩ := hC (p.1, x) hmem (hs hcf)
    refine ⟨?_, hchk⟩
    have hvals := anyInconsistent_false_cf _ _ h1 p hp hcf
    have hle : p.1.ivs.length ≤ 1 := by
      apply length_le_one_of_all_eq _ hnd
      intro i hi j hj
      have h1' := hvals i hi
      have h2' := hvals j hj
      simp only [valSetEq, seteq', subset', Bool.and_eq_true, List.all_eq_true, decide_eq_true_eq, List.mem_cons,
        List.not_mem_nil, or_false, forall_eq] at h1' h2'
      have := h2'.2 _ h1'.1
      simpa using this
    have hpos : p.1.ivs ≠ [] := by
      intro h0
      simp [Var.isCf, h0] at hcf
    have := List.length_pos_iff.2 hpos
    omega
  have hR'nd0 : (reduceKeyed (removeRepeated (splitReflexive me).1) []).NodupVals :=
    reduceKeyed_nodup _ _ (by intro p hp; cases hp)
  have hR'ne0 : NonemptyVals (reduceKeyed (removeRepeated (splitReflexive me).1) []) :=
    reduceKeyed_nonempty _ _ (by intro p hp; cases hp) hRne
  have hR'ne : NonemptyVals (dropNone (reduceKeyed (removeRepeated (splitReflexive me).1) [])) :=
    dropNone_nonempty _ hR'nd0 hR'ne0
  have hR'key : ∀ p ∈ dropNone (reduceKeyed (removeRepeated (splitReflexive me).1) []), p.1.isCf = false := by
    intro p hp
    obtain ⟨p', hp', hk'⟩ := dropNone_key _ p hp
    rw [← hk']
    rcases reduceKeyed_key _ _ p' hp' with ⟨q, hq, _⟩ | ⟨q, _, hk⟩
    · cases hq
    · rw [← hk]; exact rkey_not_cf _
  -- second check: after `dropNone` no entry holds `None` next to another value
  obtain ⟨b2, h2⟩ := anyInconsistent_ok (removeRepeated (splitReflexive me).2)
      (dropNone (reduceKeyed (removeRepeated (splitReflexive me).1) [])) hNclean
      (fun p hp _ => by obtain ⟨_, _, _, _, h⟩ := dropNone_mem _ p hp; exact h)
      (fun p hp hcf => by rw [hR'key p hp] at hcf; cases hcf)
  obtain ⟨a, ha⟩ := popAll_total _ hNne
  obtain ⟨b, hb⟩ := popAll_total _ hR'ne
  unfold simplifyCore
  simp only [bind, Except.bind, h1, hred, Bool.false_eq_true, ↓reduceIte, h2]
  cases b2 with
  | true => exact ⟨_, rfl⟩
  | false =>
    simp only [Bool.false_eq_true, ↓reduceIte, ha, hb]
    exact ⟨_, rfl⟩

/-! ### minimisation of a self-intervened variable -/

theorem ancBar_self (g : MG Name) (X : List Name) (y a : Name) (hy : y ∈ X) : AncBar g X y a ↔ a = y := by
  constructor
  · intro h
    cases h with
    | refl => rfl
    | tail _ hbc => exact absurd hy hbc.2
  · rintro rfl; exact ReflTransGen.refl

/-- `‖Y_{y,x}‖ = Y_y`: a self-intervened result of the minimisation keeps exactly the subscripts on its own name -/
theorem minimize_self (g : MG Name) (v k : Var) (hm : minimize g v = .ok k) (hs : selfIntervened k = true) :
    selfIntervened v = true ∧ k.name = v.name ∧ k.ivs = v.ivs.filter (fun i => i.name == v.name) := by
  rcases minimize_eq g v k hm with ⟨_, rfl⟩ | ⟨_, A, hA, rfl⟩
  · exact ⟨hs, rfl, by
      symm
      rw [List.filter_eq_self]
      intro i hi
      -- not needed in general: a non-counterfactual variable has no subscripts
      rename_i hcf
      have : k.ivs = [] := by simpa [Var.isCf] using hcf
      rw [this] at hi; cases hi⟩
  · simp only [selfIntervened, List.any_eq_true, List.mem_filter, decide_eq_true_eq, beq_iff_eq] at hs
    obtain ⟨i, ⟨hi, _⟩, hin⟩ := hs
    have hself : v.name ∈ ivNames v := (mem_ivNames v _).2 (List.mem_map.2 ⟨i, hi, hin⟩)
    refine ⟨?_, rfl, ?_⟩
    · simp only [selfIntervened, List.any_eq_true, beq_iff_eq]
      exact ⟨i, hi, hin⟩
    · simp only
      apply List.filter_congr
      intro j hj
      have hjn : j.name ∈ ivNames v := (mem_ivNames v _).2 (List.mem_map.2 ⟨j, hj, rfl⟩)
      have : (j.name ∈ (ivNames v).filter (fun x => decide (x ∈ A))) ↔ j.name = v.name := by
        simp only [List.mem_filter, decide_eq_true_eq, hjn, true_and]
        rw [mem_anc_removeIn g _ _ _ hA, ancBar_self g _ _ _ hself]
      by_cases hjv : j.name = v.name
      · simp only [hjv, beq_self_eq_true, decide_eq_true_eq]
        rw [← hjv]; exact this.2 hjv
      · have hn : ¬ j.name ∈ (ivNames v).filter (fun x => decide (x ∈ A)) := fun h => hjv (this.1 h)
        simp [hjv, hn]

/-! ### SIMPLIFY -/

/-- **SIMPLIFY never raises on an event in which every self-intervened variable has a value** (after `fix:` c8cad49;
before it SIMPLIFY also raised `TypeError` when a self-intervened `Y_y` occurred together with a valueless variable named
`Y`).  On a graph built by `from_edges`, for an event whose variables are nodes of the graph, are valid event variables
(a plain `Variable` carries no star) and whose subscripts are duplicate-free lists (they model a `frozenset`), `simplify`
returns an event or `None`.  The hypothesis `hself` is what check 6.5 of the unconditional validator establishes
(`fix:` 333fa44, `CtfTr.selfNone`). -/
theorem simplify_total (g : MG Name) (hg : g.WF) (e : Event)
    (hnodes : ∀ p ∈ e, p.1.name ∈ g.nodes)
    (hvalid : ∀ p ∈ e, validEventVar p.1 = true)
    (hnd : ∀ p ∈ e, p.1.ivs.Nodup)
    (hself : ∀ p ∈ e, selfIntervened p.1 = true → p.2 ≠ none) : ∃ r, simplify g e = .ok r := by
  unfold simplify
  have hv : (!e.all fun p => validEventVar p.1) = false := by
    simp only [Bool.not_eq_eq_eq_not, Bool.not_false, List.all_eq_true]
    exact hvalid
  obtain ⟨me, hme⟩ : ∃ me, minimizeEvent g e = .ok me := by
    unfold minimizeEvent
    apply mapM_ok_of_forall
    intro p hp
    obtain ⟨w, hw⟩ := minimize_total g hg p.1 (hnodes p hp)
    exact ⟨(w, p.2), by simp [bind, Except.bind, hw, pure, Except.pure]⟩
  simp only [hv, Bool.false_eq_true, ↓reduceIte, bind, Except.bind, hme]
  have hmem := minimizeEvent_mem g e me hme
  apply simplifyCore_total
  · rintro ⟨k, x⟩ hp hs
    simp only at hs ⊢
    obtain ⟨v, hv, hmv⟩ := (hmem k x).1 hp
    obtain ⟨hsv, _, _⟩ := minimize_self g v k hmv hs
    exact hself (v, x) hv hsv
  · rintro ⟨k, x⟩ hp hs
    simp only at hs ⊢
    obtain ⟨v, hv, hmv⟩ := (hmem k x).1 hp
    obtain ⟨_, hkn, hkivs⟩ := minimize_self g v k hmv hs
    constructor
    · rw [hkivs]
      exact (hnd (v, x) hv).filter _
    · simp only [checkNonreflexive, List.any_eq_false, bne_iff_ne, ne_eq, not_not]
      intro i hi
      rw [hkivs] at hi
      have := (List.mem_filter.1 hi).2
      rw [hkn]
      simpa using this

/-- in particular outside the former crash class `SimplifyRisk` (a self-intervened `Y_y` together with a valueless variable
named `Y` — `Y_y` itself included) -/
theorem simplify_total_of_risk (g : MG Name) (hg : g.WF) (e : Event)
    (hnodes : ∀ p ∈ e, p.1.name ∈ g.nodes)
    (hvalid : ∀ p ∈ e, validEventVar p.1 = true)
    (hnd : ∀ p ∈ e, p.1.ivs.Nodup)
    (hrisk : SimplifyRisk e = false) : ∃ r, simplify g e = .ok r := by
  apply simplify_total g hg e hnodes hvalid hnd
  intro p hp hs hnone
  have : SimplifyRisk e = true := by
    simp only [SimplifyRisk, List.any_eq_true, Bool.and_eq_true, beq_iff_eq]
    exact ⟨p, hp, hs, p, hp, by rw [hnone]; rfl, rfl⟩
  rw [hrisk] at this; cases this

/-- the same with the harness's coarser class `reflexive ∧ has_none` -/
theorem simplify_total_of_class (g : MG Name) (hg : g.WF) (e : Event)
    (hnodes : ∀ p ∈ e, p.1.name ∈ g.nodes)
    (hvalid : ∀ p ∈ e, validEventVar p.1 = true)
    (hnd : ∀ p ∈ e, p.1.ivs.Nodup)
    (hcls : CrashClassU e = false) : ∃ r, simplify g e = .ok r :=
  simplify_total_of_risk g hg e hnodes hvalid hnd (simplifyRisk_false_of_crashClass e hcls)

/-! ### what SIMPLIFY returns -/

/-- every variable of the simplified event is named after a variable of the input event, and is a counterfactual
variable or an unstarred plain `Variable` (so that line 2 of Algorithm 2 can take its ancestors) -/
theorem simplify_output (g : MG Name) (e ev : Event)
    (hplain : ∀ p ∈ e, p.1.star = none ∧ p.1.isIv = false)
    (h : simplify g e = .ok (some ev)) :
    ∀ p ∈ ev, (∃ q ∈ e, q.1.name = p.1.name) ∧ (p.1.isCf = true ∨ (p.1.isIv = false ∧ p.1.star = none)) := by
  unfold simplify at h
  split at h
  · simp [bind, Except.bind, throw, throwThe, MonadExceptOf.throw] at h
  simp only [bind, Except.bind] at h
  cases hme : minimizeEvent g e with
  | error err => rw [hme] at h; cases h
  | ok me =>
    rw [hme] at h
    simp only at h
    have hmem := minimizeEvent_mem g e me hme
    -- a variable of the minimised event
    have hmeVar : ∀ k x, (k, x) ∈ me → (∃ q ∈ e, q.1.name = k.name) ∧ k.star = none ∧ k.isIv = false := by
      intro k x hk
      obtain ⟨v, hv, hmv⟩ := (hmem k x).1 hk
      obtain ⟨hn, hst, _, hiv, hsame⟩ := minimize_wf g v k hmv
      obtain ⟨hvs, hvi⟩ := hplain (v, x) hv
      refine ⟨⟨(v, x), hv, hn.symm⟩, by rw [hst]; exact hvs, ?_⟩
      cases hcf : v.isCf with
      | true => exact hiv hcf
      | false => rw [hsame hcf]; exact hvi
    unfold simplifyCore at h
    simp only [bind, Except.bind] at h
    cases h1 : anyInconsistent (removeRepeated (splitReflexive me).2) (removeRepeated (splitReflexive me).1) with
    | error err => rw [h1] at h; cases h
    | ok b1 =>
      rw [h1] at h
      cases b1 with
      | true => simp [pure, Except.pure] at h
      | false =>
        simp only [Bool.false_eq_true, ↓reduceIte] at h
        cases hr : reduceReflexive (removeRepeated (splitReflexive me).1) with
        | error err => rw [hr] at h; cases h
        | ok R' =>
          rw [hr] at h
          simp only at h
          have hR' := reduceReflexive_eq _ R' hr
          subst hR'
          cases h2 : anyInconsistent (removeRepeated (splitReflexive me).2)
              (dropNone (reduceKeyed (removeRepeated (splitReflexive me).1) [])) with
          | error err => rw [h2] at h; cases h
          | ok b2 =>
            rw [h2] at h
            cases b2 with
            | true => simp [pure, Except.pure] at h
            | false =>
              simp only [Bool.false_eq_true, ↓reduceIte] at h
              cases ha : popAll (removeRepeated (splitReflexive me).2) with
              | error err => rw [ha] at h; cases h
              | ok a =>
                rw [ha] at h
                cases hb : popAll (dropNone (reduceKeyed (removeRepeated (splitReflexive me).1) [])) with
                | error err => rw [hb] at h; cases h
                | ok b =>
                  rw [hb] at h
                  simp only [pure, Except.pure, Except.ok.injEq, Option.some.injEq] at h
                  subst h
                  rintro ⟨k, x⟩ hp
                  simp only
                  rcases List.mem_append.1 hp with hp | hp
                  · obtain ⟨rest, hent⟩ := (popAll_ok _ _ ha k x).1 hp
                    have hhas : (removeRepeated (splitReflexive me).2).Has k x := ⟨_, hent, by simp⟩
                    obtain ⟨hm, hcf⟩ := splitReflexive_snd me (k, x) (removeRepeated_has _ k x hhas)
                    exact ⟨(hmeVar k x hm).1, Or.inl hcf⟩
                  · obtain ⟨rest, hent⟩ := (popAll_ok _ _ hb k x).1 hp
                    rcases (reduceKeyed_has _ _ k x).1 (dropNone_has _ k x ⟨_, hent, by simp⟩) with h0 | ⟨q, hq, hk, hxq⟩
                    · exact absurd h0 (VMap.has_nil _ _)
                    · obtain ⟨hm, _⟩ := splitReflexive_fst me (q.1, x) (removeRepeated_has _ q.1 x ⟨q.2, hq, hxq⟩)
                      obtain ⟨hname, hst, hiv⟩ := hmeVar q.1 x hm
                      subst hk
                      unfold rkey
                      split
                      · exact ⟨hname, Or.inr ⟨rfl, rfl⟩⟩
                      · exact ⟨hname, Or.inr ⟨hiv, hst⟩⟩

end Y0.CtfTr
