/-
  Y0.Lemmas.CtfTrFill — the ctf-factor factorisation (`Ctf.factorize`, `ancestralSet`) only looks at the VARIABLES of
  an event, never at their values; `fillEvent` gives every valueless item `W` the value symbol `-W` (the reading in
  which a valueless variable is a free variable of the answer, read at its base value).
-/
import Y0.Model.CtfFactor
import Y0.Model.CtfTr
import Y0.Lemmas.Ctf

namespace Y0.Ctf

theorem fillEvent_vars (q : Event) : (fillEvent q).map (·.1) = q.map (·.1) := by
  unfold fillEvent
  rw [List.map_map]
  rfl

theorem fillEvent_noNone (q : Event) : ∀ p ∈ fillEvent q, p.2 ≠ none := by
  intro p hp
  unfold fillEvent at hp
  obtain ⟨p0, _, rfl⟩ := List.mem_map.1 hp
  cases h : p0.2 <;> simp

theorem fillEvent_of_noNone (q : Event) (h : ∀ p ∈ q, p.2 ≠ none) : fillEvent q = q := by
  unfold fillEvent
  conv_rhs => rw [← List.map_id q]
  apply List.map_congr_left
  intro p hp
  cases hv : p.2 with
  | none => exact absurd hv (h p hp)
  | some i =>
    show (p.1, _) = id p
    obtain ⟨a, b⟩ := p
    simp only at hv
    subst hv
    rfl

theorem foldlM_ancStep_vars (g : MG Name) : ∀ (q q' : Event) (acc : List Var), q'.map (·.1) = q.map (·.1) →
    q'.foldlM (ancStep g) acc = q.foldlM (ancStep g) acc
  | [], [], _, _ => rfl
  | [], _ :: _, _, h => by simp at h
  | _ :: _, [], _, h => by simp at h
  | p :: q, p' :: q', acc, h => by
    simp only [List.map_cons, List.cons.injEq] at h
    simp only [List.foldlM_cons, ancStep, h.1]
    cases ctfAncestors g p.1 with
    | error e => rfl
    | ok a =>
      simp only [bind, Except.bind, pure, Except.pure]
      exact foldlM_ancStep_vars g q q' _ h.2

theorem ancestralSet_congr_vars (g : MG Name) (q q' : Event) (h : q'.map (·.1) = q.map (·.1)) :
    ancestralSet g q' = ancestralSet g q := foldlM_ancStep_vars g q q' [] h

theorem convertEvent_congr_vars (g : MG Name) : ∀ (q q' : Event) (ev : Event), q'.map (·.1) = q.map (·.1) →
    convertEvent g q = .ok ev → ∃ ev', convertEvent g q' = .ok ev'
  | [], [], _, _, _ => ⟨[], rfl⟩
  | [], _ :: _, _, h, _ => by simp at h
  | _ :: _, [], _, h, _ => by simp at h
  | p :: q, p' :: q', ev, h, hc => by
    simp only [List.map_cons, List.cons.injEq] at h
    unfold convertEvent at hc ⊢
    simp only [List.mapM_cons, bind, Except.bind] at hc ⊢
    rw [h.1]
    cases hp : convertOne g p.1 with
    | error e => rw [hp] at hc; cases hc
    | ok c =>
      rw [hp] at hc
      simp only [pure, Except.pure] at hc ⊢
      cases hq : q.mapM (fun p => do pure (← convertOne g p.1, p.2)) with
      | error e => simp only [bind, Except.bind, pure, Except.pure] at hq; rw [hq] at hc; cases hc
      | ok r =>
        obtain ⟨ev', hev'⟩ := convertEvent_congr_vars g q q' r h.2 hq
        unfold convertEvent at hev'
        simp only [bind, Except.bind, pure, Except.pure] at hev'
        rw [hev']
        exact ⟨_, rfl⟩

/-- **the expression returned by the factorisation only depends on the variables of the query** -/
theorem factorize_congr_vars (g : MG Name) (q q' : Event) (E : Expr) (fev : Event) (h : q'.map (·.1) = q.map (·.1))
    (hf : factorize g q = .ok (E, fev)) : ∃ fev', factorize g q' = .ok (E, fev') := by
  have hnames : q'.map (·.1.name) = q.map (·.1.name) := by
    have := congrArg (List.map (·.name)) h
    rw [List.map_map, List.map_map] at this
    exact this
  have hemp : q'.isEmpty = q.isEmpty := by
    cases q <;> cases q' <;> simp at h ⊢
  unfold factorize at hf ⊢
  rw [hemp]
  split at hf
  · simp [bind, Except.bind, throw, throwThe, MonadExceptOf.throw] at hf
  rename_i hq
  simp only [hq, Bool.false_eq_true, ↓reduceIte]
  simp only [bind, Except.bind] at hf ⊢
  cases hev : convertEvent g q with
  | error err => rw [hev] at hf; cases hf
  | ok ev0 =>
    rw [hev] at hf
    obtain ⟨ev', hev'⟩ := convertEvent_congr_vars g q q' ev0 h hev
    rw [hev']
    simp only at hf ⊢
    rw [foldlM_ancStep_vars g q q' [] h, hnames]
    cases hanc : q.foldlM (ancStep g) [] with
    | error err => rw [hanc] at hf; cases hf
    | ok anc =>
      rw [hanc] at hf
      simp only at hf ⊢
      cases hconv : anc.mapM (convertOne g) with
      | error err => rw [hconv] at hf; cases hf
      | ok cs =>
        rw [hconv] at hf
        simp only at hf ⊢
        cases hfac : ctfFactors (g.subgraph (dedup' ((dedup' cs).map (·.name)))) (dedup' cs) with
        | error err => rw [hfac] at hf; cases hf
        | ok factors =>
          rw [hfac] at hf
          simp only [pure, Except.pure, Except.ok.injEq, Prod.mk.injEq] at hf ⊢
          exact ⟨ev', hf.1, rfl⟩

end Y0.Ctf
