/-
  Y0.Lemmas.ScmEnvXWorld — the laws of probability INSIDE one world of a semi-Markovian model:
  `Scm.pw M G D ev` (Y0/Spec/ScmEnvX.lean; `= P_{do(D)}(ev)`) as a function of the partial assignment `ev`
    * is 1 on the empty assignment, non-negative, depends on `ev` only as a set,
    * vanishes on two-valued and on out-of-range assignments,
    * is marginally consistent: `Σ_{k < card x} pw D ((x,k) :: ev) = pw D ev` (no side condition).
  Built on `TianProb.F` (`F X E σ = Σ_{V∖(X∪E)} Q[V∖X]`), `F_marg`, `prDo_eq_F` and Tian's Lemma 3 (`Q_ancestral`).
-/
import Y0.Spec.ScmEnvX
import Y0.Lemmas.TianProb
import Y0.Lemmas.FscmEnv

namespace Y0
namespace Scm
open TianProb Fscm

/-- the standing assumptions: `M` compatible with the well-formed acyclic graph `G` -/
structure XCtx (M : Scm) (G : MG Name) : Prop where
  compat : M.Compatible G
  wf : G.WF
  ranked : G.Ranked

variable {M : Scm} {G : MG Name}

/-! ### consistent partial assignments and the valuations that read them -/

theorem consistent_iff (L : List (Name × Nat)) : consistent L = true ↔ Functional L := by
  unfold consistent Functional
  simp only [List.all_eq_true, Bool.or_eq_true, bne_iff_ne, ne_eq, beq_iff_eq]
  constructor
  · intro h p hp q hq e
    rcases h p hp q hq with h | h
    · exact absurd e h
    · exact h
  · intro h p hp q hq
    by_cases e : p.1 = q.1
    · exact Or.inr (h p hp q hq e)
    · exact Or.inl e

theorem functional_congr {L L' : List (Name × Nat)} (h : ∀ p, p ∈ L ↔ p ∈ L') : Functional L ↔ Functional L' := by
  unfold Functional
  constructor
  · intro hL p hp q hq; exact hL p ((h p).mpr hp) q ((h q).mpr hq)
  · intro hL p hp q hq; exact hL p ((h p).mp hp) q ((h q).mp hq)

theorem consistent_congr {L L' : List (Name × Nat)} (h : ∀ p, p ∈ L ↔ p ∈ L') : consistent L = consistent L' := by
  rw [Bool.eq_iff_iff, consistent_iff, consistent_iff]
  exact functional_congr h

/-- the valuation that reads a partial assignment (first binding; 0 elsewhere) -/
def rd (L : List (Name × Nat)) : Val := fun n => (forced L n).getD 0

theorem rd_reads {L : List (Name × Nat)} (h : Functional L) : ∀ a ∈ L, a.2 = rd L a.1 := by
  intro a ha
  have : forced L a.1 = some a.2 := (forced_eq_some_iff h a.1 a.2).mpr ha
  simp [rd, this]

theorem functional_of_reads {L : List (Name × Nat)} {σ : Val} (h : ∀ a ∈ L, a.2 = σ a.1) : Functional L := by
  intro p hp q hq e
  rw [h p hp, h q hq, e]

theorem prDo_of_reads (hM : M.Compatible G) (hG : G.WF) (σ : Val) (D ev : List (Name × Nat))
    (h : ∀ a ∈ D ++ ev, a.2 = σ a.1) : M.prDo G D ev = F M G (D.map (·.1)) (ev.map (·.1)) σ :=
  prDo_eq_F hM hG σ D ev (fun a ha => h a (List.mem_append_left _ ha)) (fun a ha => h a (List.mem_append_right _ ha))

theorem prDo_incons (D ev : List (Name × Nat)) (h : consistent (D ++ ev) = false) : M.prDo G D ev = 0 := by
  unfold prDo
  simp [h]

/-! ### facts about `F` -/

theorem F_congr2 {X X' E E' : List Name} (hX : ∀ v ∈ G.nodes, (v ∈ X ↔ v ∈ X'))
    (hE : ∀ v ∈ G.nodes, ((v ∉ X ∧ v ∉ E) ↔ (v ∉ X' ∧ v ∉ E'))) : F M G X E = F M G X' E' := by
  unfold F
  have h1 : G.nodes.filter (fun v => decide (v ∉ X ∧ v ∉ E)) = G.nodes.filter (fun v => decide (v ∉ X' ∧ v ∉ E')) := by
    apply List.filter_congr
    intro v hv
    simp only [hE v hv]
  have h2 : G.nodes.filter (fun v => decide (v ∉ X)) = G.nodes.filter (fun v => decide (v ∉ X')) := by
    apply List.filter_congr
    intro v hv
    simp only [hX v hv]
  rw [h1, h2]

/-- total mass one: `Σ_{V∖X} Q[V∖X] = 1` (Tian–Pearl Lemma 3 with empty ancestral part) -/
theorem F_nil (hC : XCtx M G) (X : List Name) (σ : Val) : F M G X [] σ = 1 := by
  unfold F
  have h1 : G.nodes.filter (fun v => decide (v ∉ X ∧ v ∉ ([] : List Name))) = G.nodes.filter (fun v => decide (v ∉ X)) := by
    apply List.filter_congr
    intro v _
    simp
  rw [h1]
  have := Q_ancestral hC.compat hC.ranked [] (G.nodes.filter (fun v => decide (v ∉ X)))
    (by simpa using hC.wf.nodup.filter _) (by intro v hv; simp at hv; exact hv.1) (by intro a ha; cases ha)
  simp only [List.nil_append] at this
  rw [this, Q_nil hC.compat]

/-! ### `pw` through readings -/

/-- the bindings of `ev` that concern nodes of `G` -/
def nd (G : MG Name) (ev : List (Name × Nat)) : List (Name × Nat) := ev.filter fun p => decide (p.1 ∈ G.nodes)

theorem mem_nd {ev : List (Name × Nat)} {p : Name × Nat} : p ∈ nd G ev ↔ p ∈ ev ∧ p.1 ∈ G.nodes := by
  simp [nd, List.mem_filter]

theorem pw_def (D ev : List (Name × Nat)) : pw M G D ev = if evOK M G ev then M.prDo G D (nd G ev) else 0 := rfl

theorem evOK_iff {ev : List (Name × Nat)} :
    evOK M G ev = true ↔ ∀ p ∈ ev, p.2 < M.card p.1 ∧ (p.1 ∈ G.nodes ∨ p.2 = 0) := by
  simp [evOK, List.all_eq_true]

theorem pw_of_reads (hC : XCtx M G) (σ : Val) {D ev : List (Name × Nat)} (hok : evOK M G ev = true)
    (h : ∀ a ∈ D ++ nd G ev, a.2 = σ a.1) : pw M G D ev = F M G (D.map (·.1)) ((nd G ev).map (·.1)) σ := by
  rw [pw_def, if_pos hok]
  exact prDo_of_reads hC.compat hC.wf σ D _ h

theorem pw_incons {D ev : List (Name × Nat)} (h : consistent (D ++ nd G ev) = false) : pw M G D ev = 0 := by
  rw [pw_def]
  split
  · exact prDo_incons _ _ h
  · rfl

theorem pw_notOK {D ev : List (Name × Nat)} (h : evOK M G ev = false) : pw M G D ev = 0 := by
  rw [pw_def, h]; rfl

/-- a canonical world: bindings of nodes, in range, one per node -/
structure CanonD (M : Scm) (G : MG Name) (D : List (Name × Nat)) : Prop where
  node : ∀ p ∈ D, p.1 ∈ G.nodes
  range : ∀ p ∈ D, p.2 < M.card p.1
  fn : Functional D

/-! ### the laws -/

theorem pw_nil (hC : XCtx M G) {D : List (Name × Nat)} (hD : CanonD M G D) : pw M G D [] = 1 := by
  have h := pw_of_reads hC (rd D) (D := D) (ev := []) (by simp [evOK])
    (by simpa [nd] using rd_reads hD.fn)
  rw [h]
  simpa [nd] using F_nil hC (D.map (·.1)) (rd D)

theorem pw_nonneg (hC : XCtx M G) (D ev : List (Name × Nat)) : 0 ≤ pw M G D ev := by
  by_cases hok : evOK M G ev = true
  · by_cases hc : consistent (D ++ nd G ev) = true
    · have hf := (consistent_iff _).mp hc
      rw [pw_of_reads hC (rd (D ++ nd G ev)) hok (rd_reads hf)]
      exact le_of_lt (F_pos hC.compat _ _ _)
    · rw [pw_incons (by simpa using hc)]
  · rw [pw_notOK (by simpa using hok)]

/-- a partial assignment is a set of bindings -/
theorem pw_congr (hC : XCtx M G) (D : List (Name × Nat)) {ev ev' : List (Name × Nat)} (h : ∀ p, p ∈ ev ↔ p ∈ ev') :
    pw M G D ev = pw M G D ev' := by
  have hok : evOK M G ev = evOK M G ev' := by
    rw [Bool.eq_iff_iff, evOK_iff, evOK_iff]
    exact ⟨fun h1 p hp => h1 p ((h p).mpr hp), fun h1 p hp => h1 p ((h p).mp hp)⟩
  have hnd : ∀ p, p ∈ D ++ nd G ev ↔ p ∈ D ++ nd G ev' := by
    intro p
    simp only [List.mem_append, mem_nd, h p]
  by_cases hk : evOK M G ev = true
  · by_cases hc : consistent (D ++ nd G ev) = true
    · have hf := (consistent_iff _).mp hc
      have hr := rd_reads hf
      rw [pw_of_reads hC (rd (D ++ nd G ev)) hk hr,
        pw_of_reads hC (rd (D ++ nd G ev)) (hok ▸ hk) (fun a ha => hr a ((hnd a).mpr ha))]
      apply congrFun
      apply F_congr
      intro v
      simp only [List.mem_map]
      constructor
      · rintro ⟨p, hp, rfl⟩; exact ⟨p, mem_nd.mpr ⟨(h p).mp (mem_nd.mp hp).1, (mem_nd.mp hp).2⟩, rfl⟩
      · rintro ⟨p, hp, rfl⟩; exact ⟨p, mem_nd.mpr ⟨(h p).mpr (mem_nd.mp hp).1, (mem_nd.mp hp).2⟩, rfl⟩
    · have hc' : consistent (D ++ nd G ev) = false := by simpa using hc
      rw [pw_incons hc', pw_incons (by rw [← consistent_congr hnd]; exact hc')]
  · have hk' : evOK M G ev = false := by simpa using hk
    rw [pw_notOK hk', pw_notOK (hok ▸ hk')]

theorem pw_conflict {D ev : List (Name × Nat)} {x : Name} {k₁ k₂ : Nat} (h₁ : (x, k₁) ∈ ev) (h₂ : (x, k₂) ∈ ev)
    (hne : k₁ ≠ k₂) : pw M G D ev = 0 := by
  by_cases hx : x ∈ G.nodes
  · apply pw_incons
    rw [Bool.eq_false_iff]
    intro hc
    have hf := (consistent_iff _).mp hc
    exact hne (hf (x, k₁) (List.mem_append_right _ (mem_nd.mpr ⟨h₁, hx⟩)) (x, k₂)
      (List.mem_append_right _ (mem_nd.mpr ⟨h₂, hx⟩)) rfl)
  · apply pw_notOK
    rw [Bool.eq_false_iff]
    intro hok
    rw [evOK_iff] at hok
    have e1 := (hok _ h₁).2.resolve_left hx
    have e2 := (hok _ h₂).2.resolve_left hx
    exact hne (e1.trans e2.symm)

theorem pw_range {D ev : List (Name × Nat)} {x : Name} {k : Nat} (h : (x, k) ∈ ev) (hk : M.card x ≤ k) :
    pw M G D ev = 0 := by
  apply pw_notOK
  rw [Bool.eq_false_iff]
  intro hok
  rw [evOK_iff] at hok
  exact absurd (hok _ h).1 (Nat.not_lt.mpr hk)

theorem evOK_cons (p : Name × Nat) (ev : List (Name × Nat)) :
    evOK M G (p :: ev) = ((decide (p.2 < M.card p.1) && (decide (p.1 ∈ G.nodes) || p.2 == 0)) && evOK M G ev) := rfl

theorem nd_cons_node {x : Name} (hx : x ∈ G.nodes) (k : Nat) (ev : List (Name × Nat)) :
    nd G ((x, k) :: ev) = (x, k) :: nd G ev := by
  simp [nd, hx]

theorem nd_cons_not {x : Name} (hx : x ∉ G.nodes) (k : Nat) (ev : List (Name × Nat)) : nd G ((x, k) :: ev) = nd G ev := by
  simp [nd, hx]

/-- **marginal consistency inside one world** (no side condition on `ev`) -/
theorem pw_marg (hC : XCtx M G) {D : List (Name × Nat)} (hD : CanonD M G D) (x : Name) (ev : List (Name × Nat)) :
    sumRange (M.card x) (fun k => pw M G D ((x, k) :: ev)) = pw M G D ev := by
  rw [sumRange_eq_sum]
  by_cases hok : evOK M G ev = true
  swap
  · have hok' : evOK M G ev = false := by simpa using hok
    rw [pw_notOK hok']
    apply Finset.sum_eq_zero
    intro k _
    apply pw_notOK
    rw [evOK_cons, hok', Bool.and_false]
  by_cases hx : x ∈ G.nodes
  swap
  · -- a variable outside the graph reads 0
    have hpos := hC.compat.card_pos x
    rw [Finset.sum_eq_single 0]
    · rw [pw_def, pw_def, nd_cons_not hx, evOK_cons, hok]
      simp [hpos]
    · intro k _ hk
      apply pw_notOK
      rw [evOK_cons]
      simp [hx, hk]
    · intro h
      exact absurd (Finset.mem_range.mpr hpos) h
  by_cases hc : consistent (D ++ nd G ev) = true
  swap
  · have hc' : consistent (D ++ nd G ev) = false := by simpa using hc
    rw [pw_incons hc']
    apply Finset.sum_eq_zero
    intro k _
    apply pw_incons
    rw [Bool.eq_false_iff]
    intro h
    apply hc
    rw [consistent_iff] at h ⊢
    rw [nd_cons_node hx] at h
    intro p hp q hq
    have sub : ∀ r, r ∈ D ++ nd G ev → r ∈ D ++ (x, k) :: nd G ev := by
      intro r hr
      rcases List.mem_append.mp hr with h1 | h1
      · exact List.mem_append_left _ h1
      · exact List.mem_append_right _ (List.mem_cons_of_mem _ h1)
    exact h p (sub p hp) q (sub q hq)
  have hf := (consistent_iff _).mp hc
  set σ := rd (D ++ nd G ev) with hσ
  have hr : ∀ a ∈ D ++ nd G ev, a.2 = σ a.1 := rd_reads hf
  rw [pw_of_reads hC σ hok hr]
  have hokc : ∀ k, k < M.card x → evOK M G ((x, k) :: ev) = true := by
    intro k hk
    rw [evOK_cons, hok]
    simp [hk, hx]
  by_cases hxm : x ∈ (D ++ nd G ev).map (·.1)
  · -- `x` already has a value `d` in the world or in the assignment
    obtain ⟨⟨x', d⟩, hmem, hx'⟩ := List.mem_map.mp hxm
    simp only at hx'
    subst hx'
    have hdσ : d = σ x' := hr _ hmem
    have hdlt : d < M.card x' := by
      rcases List.mem_append.mp hmem with h1 | h1
      · exact hD.range _ h1
      · exact ((evOK_iff.mp hok) _ (mem_nd.mp h1).1).1
    rw [Finset.sum_eq_single d]
    · have hreads : ∀ a ∈ D ++ nd G ((x', d) :: ev), a.2 = σ a.1 := by
        intro a ha
        rw [nd_cons_node hx] at ha
        rcases List.mem_append.mp ha with h1 | h1
        · exact hr a (List.mem_append_left _ h1)
        · rcases List.mem_cons.mp h1 with rfl | h1
          · exact hdσ
          · exact hr a (List.mem_append_right _ h1)
      rw [pw_of_reads hC σ (hokc d hdlt) hreads, nd_cons_node hx]
      apply congrFun
      apply F_congr2 (fun _ _ => Iff.rfl)
      intro v _
      simp only [List.map_cons, List.mem_cons, not_or]
      constructor
      · rintro ⟨h1, _, h3⟩; exact ⟨h1, h3⟩
      · rintro ⟨h1, h3⟩
        refine ⟨h1, ?_, h3⟩
        rintro rfl
        rw [List.map_append, List.mem_append] at hxm
        rcases hxm with h | h
        · exact h1 h
        · exact h3 h
    · intro k _ hk
      apply pw_incons
      rw [Bool.eq_false_iff]
      intro h
      rw [consistent_iff, nd_cons_node hx] at h
      have hmem' : (x', d) ∈ D ++ (x', k) :: nd G ev := by
        rcases List.mem_append.mp hmem with h1 | h1
        · exact List.mem_append_left _ h1
        · exact List.mem_append_right _ (List.mem_cons_of_mem _ h1)
      exact hk (h (x', k) (List.mem_append_right _ List.mem_cons_self) (x', d) hmem' rfl)
    · intro h
      exact absurd (Finset.mem_range.mpr hdlt) h
  · -- `x` is free: sum it out
    have hxX : x ∉ D.map (·.1) := fun h => hxm (by rw [List.map_append]; exact List.mem_append_left _ h)
    have hxE : x ∉ (nd G ev).map (·.1) := fun h => hxm (by rw [List.map_append]; exact List.mem_append_right _ h)
    have hterm : ∀ k ∈ Finset.range (M.card x),
        pw M G D ((x, k) :: ev) = F M G (D.map (·.1)) (x :: (nd G ev).map (·.1)) (σ.set x k) := by
      intro k hk
      have hreads : ∀ a ∈ D ++ nd G ((x, k) :: ev), a.2 = (σ.set x k) a.1 := by
        intro a ha
        rw [nd_cons_node hx] at ha
        have hother : ∀ a ∈ D ++ nd G ev, a.2 = (σ.set x k) a.1 := by
          intro a ha
          have hne : a.1 ≠ x := fun e => hxm (e ▸ List.mem_map_of_mem (f := (·.1)) ha)
          rw [Val.set_other _ _ hne]
          exact hr a ha
        rcases List.mem_append.mp ha with h1 | h1
        · exact hother a (List.mem_append_left _ h1)
        · rcases List.mem_cons.mp h1 with rfl | h1
          · simp
          · exact hother a (List.mem_append_right _ h1)
      rw [pw_of_reads hC (σ.set x k) (hokc k (Finset.mem_range.mp hk)) hreads, nd_cons_node hx]
      rfl
    rw [Finset.sum_congr rfl hterm, ← sumVar_eq_sum M.card x (F M G (D.map (·.1)) (x :: (nd G ev).map (·.1))) σ,
      F_marg hC.wf _ _ x hx hxX hxE]

end Scm
end Y0
