/-
  Y0.Lemmas.TrsoShapeRun — every estimand a source-domain run of TRSO returns has the shape of
  Lemmas/TrsoShapeDefs, in particular contains no `One()` (`srcShape`).  The run is followed in the source context of the
  coin family (Lemmas/TrsoSrcCtx), whose semantic invariant provides the values that exclude `One()`:
  a ratio of line 9 / 10 has value 1/2, the c-factor of a district a value below 1, every marginal a value at most 1.
-/
import Y0.Lemmas.TrsoShapeCanon
import Y0.Lemmas.TrsoShapeOps
import Y0.Lemmas.TrsoSound
import Mathlib.Tactic.Positivity
import Mathlib.Tactic.Linarith

namespace Y0
namespace Trso
open TrDsl MG IdAux

/-- what is used of the coin model -/
structure CoinM (ctx : Ctx) : Prop where
  card2 : ∀ x, ctx.M.card x = 2
  Q : ∀ (T : List Name) σ, ctx.M.Q T σ = (1 / 2 : Rat) ^ T.length

/-- the assignment at which values are compared -/
def σz : Val := fun _ => 0

/-- an iterated sum over a joint keeps an intervened variable as un-summed child -/
def ChainZ (zs : List Name) (x : Expr) : Prop :=
  ∀ c s, chain x = some (c, s) → ∃ n ∈ c.map (·.name), n ∉ s ∧ n ∈ zs

/-- the carried expression of a source-domain run -/
structure SrcCarried (ctx : Ctx) (q : Query) (G : MG Name) : Prop where
  shape : Shape ctx.M.card ctx.leaf σz q.expr
  chz : ChainZ ctx.ign q.expr
  nfrac : isFrac q.expr = false
  /-- a bare product is carried only right after line 10, when the graph has a single district -/
  np : 1 < G.districts.length → ∀ fs, q.expr ≠ .prod fs

theorem chainZ_none {zs : List Name} {x : Expr} (h : chain x = none) : ChainZ zs x := by
  intro c s hc; rw [h] at hc; cases hc

theorem sumVars_const2 {card : Name → Nat} (h2 : ∀ x, card x = 2) (xs : List Name) (c : Rat) (σ : Val) :
    sumVars card xs (fun _ => c) σ = c * 2 ^ xs.length := by
  induction xs generalizing σ with
  | nil => simp [sumVars]
  | cons x xs ih =>
    simp only [sumVars]
    have : sumVars card xs (fun _ => c) = fun _ => c * 2 ^ xs.length := funext ih
    rw [this, sumVar_const _ _ _ _ (fun _ _ => rfl), h2 x]
    simp only [List.length_cons, pow_succ]
    push_cast
    ring

section
variable {ctx : Ctx} {Mb : Nat} {q : Query} {G : MG Name}

/-- the value of a marginal of the carried expression in the coin context -/
theorem coin_sumSafe_val (hc : CoinM ctx) (hq : QInv Mb q G) (h : SemInv ctx q G) {L : List Name} (hL : L.Nodup)
    (hLV : ∀ v ∈ L, v ∈ regularNodes G) (σ : Val) :
    denL ctx.M.card ctx.leaf (sumSafe q.expr (plainVars L) false) σ =
      (1 / 2 : Rat) ^ (regularNodes G).length * 2 ^ L.length := by
  rw [denL_sumSafe_false, sumVars_plainVars_set ctx.M.card (fun n hn => regular_notT (hLV n hn)) hL (fun _ => Iff.rfl)]
  have : (fun τ => denL ctx.M.card ctx.leaf q.expr τ) = fun _ => (1 / 2 : Rat) ^ (regularNodes G).length := by
    funext τ; rw [h.est τ, hc.Q]
  rw [this, sumVars_const2 hc.card2]

/-- shape of a marginal of the carried expression -/
theorem shape_marg (h : SemInv ctx q G) (hcar : SrcCarried ctx q G) {L : List Name}
    (hLV : ∀ v ∈ L, v ∈ regularNodes G) :
    Shape ctx.M.card ctx.leaf σz (sumSafe q.expr (plainVars L) false) ∧
      ChainZ ctx.ign (sumSafe q.expr (plainVars L) false) := by
  have hnot : ∀ n, n ∈ ctx.ign → n ∉ (plainVars L).map (·.name) := by
    intro n hn hm
    obtain ⟨v, hv, rfl⟩ := List.mem_map.1 hm
    obtain ⟨m, hm', rfl⟩ := (mem_plainVars v L).1 hv
    exact h.ign m hn (hLV m hm')
  refine ⟨shape_sumSafe_false σz hcar.shape (fun c s hcs => ?_), ?_⟩
  · obtain ⟨n, hn1, hn2, hn3⟩ := hcar.chz c s hcs
    exact ⟨n, hn1, hn2, hnot n hn3⟩
  · intro c s hcs
    unfold sumSafe at hcs
    simp only [] at hcs
    split at hcs
    · exact hcar.chz c s hcs
    · split at hcs
      · exact hcar.chz c s hcs
      · simp only [Bool.false_eq_true, if_false, chain, Option.map_eq_some_iff] at hcs
        obtain ⟨⟨c0, s0⟩, h0, hpair⟩ := hcs
        simp only [Prod.mk.injEq] at hpair
        obtain ⟨rfl, rfl⟩ := hpair
        obtain ⟨n, hn1, hn2, hn3⟩ := hcar.chz c0 s0 h0
        refine ⟨n, hn1, ?_, hn3⟩
        intro hm
        rcases List.mem_append.1 hm with a | a
        · exact hn2 a
        · apply hnot n hn3
          obtain ⟨v, hv, rfl⟩ := List.mem_map.1 a
          exact List.mem_map.2 ⟨v, (mem_sortVars v _).1 hv, rfl⟩

theorem isFrac_sumSafe {e : Expr} {rs : List Var} (h : isFrac e = false) : isFrac (sumSafe e rs false) = false := by
  unfold sumSafe
  simp only []
  split
  · exact h
  · split
    · exact h
    · rfl

end

/-! ### line 2: the syntactic form of the new carried expression -/

/-- line 2 either keeps a joint a joint or wraps a non-joint into a `Sum` -/
theorem line2_expr_cases {Mb : Nat} {q q' : Query} {G : MG Name} {ctx : Ctx} (hq : QInv Mb q G) (h : SemInv ctx q G)
    {anc : List Name} (hanc : G.ancestorsInclusive q.Y = .ok anc)
    (hne : (diff' (regularNodes G) anc).isEmpty = false) (hq' : line2 q anc = .ok q') :
    (∃ pop c, q'.expr = .prob (some pop) c []) ∨
      q'.expr = sumSafe q.expr (plainVars (diff' (regularNodes G) anc)) false := by
  obtain ⟨_, _, _, _, hret, _, _, _⟩ := line2_shape' hq.look hanc hq'
  have hYanc : ∀ y ∈ q.Y, y ∈ anc := ancestorsInclusive_self hq.wfG hanc
  have hRV : ∀ n ∈ diff' (regularNodes G) anc, n ∈ regularNodes G := fun n hn => (mem_diff'.1 hn).1
  have hrng := h.rng hRV
  have hRne : plainVars (diff' (regularNodes G) anc) ≠ [] := plainVars_nonempty (by
    intro h0; rw [h0] at hne; simp at hne)
  rcases h.shape with ⟨pop, c, hexpr, jc⟩ | ⟨hnj, _⟩
  · left
    have hsub : ∀ v ∈ plainVars (diff' (regularNodes G) anc), v.name ∈ c.map (·.name) := by
      intro v hv
      obtain ⟨n, hn, rfl⟩ := (mem_plainVars v _).1 hv
      exact jc.cover n (hRV n hn)
    rw [hexpr] at hret
    rcases sumSafe_joint_sub (some pop) c _ (fun v hv => (hrng v hv).1)
      (names_nodup_of_plain_nodup jc.plain jc.nodup) hsub with h1 | ⟨c', hs, _, _, _⟩
    · exfalso
      obtain ⟨y, hy⟩ := List.exists_mem_of_ne_nil _ hq.Yne
      have hyV : y ∈ regularNodes G := mem_regularNodes.2 ⟨hq.YinG y hy, hq.YT y hy⟩
      refine sumSafe_joint_ne_one (some pop) c _ ⟨y, jc.cover y hyV, fun hyr => ?_⟩ h1
      obtain ⟨v, hv, hvy⟩ := List.mem_map.1 hyr
      obtain ⟨m, hm, rfl⟩ := (mem_plainVars v _).1 hv
      have : m = y := hvy
      subst this
      exact (mem_diff'.1 hm).2 (hYanc m hy)
    · rw [hs] at hret
      exact ⟨popVar q.domain, c', by simpa [retag] using hret.symm⟩
  · right
    have hs := sumSafe_true_nonjoint h.good.1 hRne hnj
    rw [hs] at hret
    rw [sumSafe_eq_sum h.good.1 hRne]
    simpa [retag] using hret.symm

/-- the sub-graph induced by a district has a single district -/
theorem subgraph_district_single {G : MG Name} (hG : G.WF) {c : List Name} (hc : c ∈ G.districts) :
    (G.subgraph (nsort c)).districts.length ≤ 1 := by
  have hH := wf_subgraph G (nsort c)
  by_contra hlen
  have hlen' : 2 ≤ (G.subgraph (nsort c)).districts.length := by omega
  -- two different districts of the sub-graph
  obtain ⟨D1, D2, rest, hds⟩ : ∃ D1 D2 rest, (G.subgraph (nsort c)).districts = D1 :: D2 :: rest := by
    match hd : (G.subgraph (nsort c)).districts, hlen' with
    | D1 :: D2 :: rest, _ => exact ⟨D1, D2, rest, rfl⟩
    | [_], h => simp at h
    | [], h => simp at h
  have hD1 : D1 ∈ (G.subgraph (nsort c)).districts := by rw [hds]; simp
  have hD2 : D2 ∈ (G.subgraph (nsort c)).districts := by rw [hds]; simp
  have hdisj : ∀ x, x ∈ D1 → x ∉ D2 := by
    have := districts_disjoint _ hH
    rw [hds] at this
    exact fun x hx => (List.pairwise_cons.1 this).1 D2 (by simp) x hx
  obtain ⟨v, hv⟩ := List.exists_mem_of_ne_nil _ (districts_nonempty _ hH D1 hD1)
  obtain ⟨w, hw⟩ := List.exists_mem_of_ne_nil _ (districts_nonempty _ hH D2 hD2)
  have hvc : v ∈ c := (mem_nsort v c).1 ((mem_nodes_subgraph G _ v).1 (mem_nodes_of_mem_district hH hD1 hv))
  have hwc : w ∈ c := (mem_nsort w c).1 ((mem_nodes_subgraph G _ w).1 (mem_nodes_of_mem_district hH hD2 hw))
  -- a bidirected chain from `v` to `w` inside the district stays inside the sub-graph
  have hsd : G.SameDistrict v w := (districts_spec G hG c hc v hvc w).1 hwc
  have key : ∀ x, G.SameDistrict v x → (G.subgraph (nsort c)).SameDistrict v x := by
    intro x hx
    induction hx with
    | refl => exact .refl
    | tail hxy hyz ih =>
      rename_i y z
      have hyc : y ∈ c := (districts_spec G hG c hc v hvc y).2 hxy
      have hzc : z ∈ c := (districts_spec G hG c hc v hvc z).2 (hxy.tail hyz)
      exact ih.tail ((biEdge_subgraph G _ y z).2 ⟨hyz, (mem_nsort _ _).2 hyc, (mem_nsort _ _).2 hzc⟩)
  exact hdisj w ((districts_spec _ hH D1 hD1 v hv w).2 (key w hsd)) hw

/-! ### the marginals of lines 9 / 10 in the coin context -/

section
variable {ctx : Ctx} {Mb : Nat} {q : Query} {G : MG Name}

/-- one ratio `Σ_{later} e / Σ_{node and later} e`: a fraction of two shaped marginals of different value, the
denominator of value at most 1 -/
theorem shape_ratio (hc : CoinM ctx) (hq : QInv Mb q G) (h : SemInv ctx q G) (hcar : SrcCarried ctx q G)
    (hlen : 1 < G.districts.length) {order l1 l2 : List Name} {node : Name} (hord : regularOrder G = .ok order)
    (hsplit : order = l1 ++ node :: l2) {fr : Expr}
    (hfr : truediv (ratioParts q.expr order l1.length).1 (ratioParts q.expr order l1.length).2 = .ok fr) :
    ∃ a b, fr = .frac a b ∧ Good ctx.S a ∧ Good ctx.S b ∧ Shape ctx.M.card ctx.leaf σz a ∧
      Shape ctx.M.card ctx.leaf σz b ∧ isFrac a = false ∧ isFrac b = false ∧ ChainZ ctx.ign a ∧
      factors a = [a] ∧ factors b = [b] ∧ denL ctx.M.card ctx.leaf b σz ≤ 1 ∧ Shape ctx.M.card ctx.leaf σz fr := by
  obtain ⟨hnd, hmem, _⟩ := regularOrder_spec hq.wfG hord
  have hd1 : order.drop (l1.length + 1) = l2 := by
    rw [hsplit, show l1 ++ node :: l2 = (l1 ++ [node]) ++ l2 by simp, List.drop_left' (by simp)]
  have hd0 : order.drop l1.length = node :: l2 := by rw [hsplit, List.drop_left]
  unfold ratioParts at hfr
  simp only [hd1, hd0] at hfr
  have hl2V : ∀ v ∈ l2, v ∈ regularNodes G := fun v hv =>
    (hmem v).1 (by rw [hsplit]; exact List.mem_append_right _ (List.mem_cons_of_mem _ hv))
  have hnV : ∀ v ∈ node :: l2, v ∈ regularNodes G := fun v hv =>
    (hmem v).1 (by rw [hsplit]; exact List.mem_append_right _ hv)
  have hnd' : (node :: l2).Nodup := by
    have := hsplit ▸ hnd
    exact (List.nodup_append.1 this).2.1
  have hl2nd : l2.Nodup := (List.nodup_cons.1 hnd').2
  obtain ⟨sa, za⟩ := shape_marg (L := l2) h hcar hl2V
  obtain ⟨sb, _⟩ := shape_marg (L := node :: l2) h hcar hnV
  have ga : Good ctx.S (sumSafe q.expr (plainVars l2) false) := good_sumSafe ctx.S false h.good (h.rng hl2V)
  have gb : Good ctx.S (sumSafe q.expr (plainVars (node :: l2)) false) := good_sumSafe ctx.S false h.good (h.rng hnV)
  have va := coin_sumSafe_val hc hq h hl2nd hl2V σz
  have vb := coin_sumSafe_val hc hq h hnd' hnV σz
  have hpos : (0 : Rat) < (1 / 2 : Rat) ^ (regularNodes G).length * 2 ^ l2.length := by positivity
  have hne : denL ctx.M.card ctx.leaf (sumSafe q.expr (plainVars l2) false) σz ≠
      denL ctx.M.card ctx.leaf (sumSafe q.expr (plainVars (node :: l2)) false) σz := by
    rw [va, vb, List.length_cons, pow_succ]
    intro heq
    have h2 : (1 / 2 : Rat) ^ (regularNodes G).length * (2 ^ l2.length * 2) =
        ((1 / 2 : Rat) ^ (regularNodes G).length * 2 ^ l2.length) * 2 := by ring
    rw [h2] at heq
    linarith
  have hfa := isFrac_sumSafe (rs := plainVars l2) hcar.nfrac
  have hfb := isFrac_sumSafe (rs := plainVars (node :: l2)) hcar.nfrac
  have hza : isZero (sumSafe q.expr (plainVars l2) false) = false := clean_not_zero ga.1
  have hzb : isZero (sumSafe q.expr (plainVars (node :: l2)) false) = false := clean_not_zero gb.1
  obtain ⟨hfrEq, sfr⟩ := shape_truediv' σz sa sb hfa hfb ⟨hza, hzb⟩ hne hfr
  -- the denominator is a `Sum`; the numerator is a `Sum` or the carried expression, which is not a product here
  have hbsum : sumSafe q.expr (plainVars (node :: l2)) false =
      .sum q.expr (sortVars (plainVars (node :: l2))) := sumSafe_eq_sum h.good.1 (plainVars_nonempty (by simp))
  have hfacb : factors (sumSafe q.expr (plainVars (node :: l2)) false) =
      [sumSafe q.expr (plainVars (node :: l2)) false] := by rw [hbsum]; rfl
  have hfaca : factors (sumSafe q.expr (plainVars l2) false) = [sumSafe q.expr (plainVars l2) false] := by
    by_cases hl2 : l2 = []
    · subst hl2
      have : sumSafe q.expr (plainVars []) false = q.expr := by
        unfold sumSafe; simp [plainVars, sortVars, ssort, dedup']
      rw [this]
      cases hqe : q.expr with
      | prod fs => exact absurd hqe (hcar.np hlen fs)
      | _ => rfl
    · rw [sumSafe_eq_sum h.good.1 (plainVars_nonempty hl2)]; rfl
  have hble : denL ctx.M.card ctx.leaf (sumSafe q.expr (plainVars (node :: l2)) false) σz ≤ 1 := by
    rw [vb]
    have hle : (node :: l2).length ≤ (regularNodes G).length := by
      have h1 : (node :: l2).length ≤ order.length := by rw [hsplit]; simp
      have h2 : order.length = (regularNodes G).length :=
        (List.perm_ext_iff_of_nodup hnd (regularNodes_nodup hq.wfG)).2 hmem |>.length_eq
      omega
    have : (1 / 2 : Rat) ^ (regularNodes G).length * 2 ^ (node :: l2).length =
        (1 / 2 : Rat) ^ ((regularNodes G).length - (node :: l2).length) := by
      have hsplit2 : (regularNodes G).length =
          ((regularNodes G).length - (node :: l2).length) + (node :: l2).length := by omega
      conv_lhs => rw [hsplit2, pow_add, mul_assoc, ← mul_pow]
      norm_num
    rw [this]
    exact pow_le_one₀ (by norm_num) (by norm_num)
  exact ⟨_, _, hfrEq, ga, gb, sa, sb, hfa, hfb, za, hfaca, hfacb, hble, sfr⟩

end

/-! ### the lines, in a coin context of a source domain -/

section
variable {ctx : Ctx} {Mb : Nat} {q : Query} {G : MG Name}

/-- line 1 -/
theorem shape_line1 (hq : QInv Mb q G) (h : SemInv ctx q G) (hcar : SrcCarried ctx q G) {e : Expr}
    (he : step1 q G = .ok (some e)) : Shape ctx.M.card ctx.leaf σz e := by
  unfold step1 at he
  obtain ⟨e', he', h2⟩ := bind_ok he
  have : e' = e := by simpa [pure, Except.pure] using h2
  subst this
  have hns : ∀ n ∈ diff' (regularNodes G) q.Y, n ∈ regularNodes G := fun n hn => (mem_diff'.1 hn).1
  have _ := hq
  exact shape_canonicalize ctx.S σz (good_sumSafe ctx.S false h.good (h.rng hns)) (sumND_line1 h.nd)
    (shape_marg h hcar hns).1 he'

/-- line 2 keeps the carried expression in shape -/
theorem car_line2 (hq : QInv Mb q G) (h : SemInv ctx q G) (hcar : SrcCarried ctx q G) (hign : ctx.ign ≠ [])
    {anc : List Name} (hanc : G.ancestorsInclusive q.Y = .ok anc)
    (hne : (diff' (regularNodes G) anc).isEmpty = false) {q' : Query} (hq' : line2 q anc = .ok q') :
    SrcCarried ctx q' (G.subgraph (nsort anc)) := by
  have h' := (sound_line2 hq h hanc hne hq').1
  have hRV : ∀ n ∈ diff' (regularNodes G) anc, n ∈ regularNodes G := fun n hn => (mem_diff'.1 hn).1
  have hRne : plainVars (diff' (regularNodes G) anc) ≠ [] := plainVars_nonempty (by
    intro h0; rw [h0] at hne; simp at hne)
  rcases line2_expr_cases hq h hanc hne hq' with ⟨pop, c, hc⟩ | hs
  · refine ⟨hc ▸ shape_leaf σz _ _ _, ?_, by rw [hc]; rfl, fun _ fs hfs => by rw [hc] at hfs; cases hfs⟩
    intro c0 s0 hcs
    rw [hc] at hcs
    simp only [chain, Option.some.injEq, Prod.mk.injEq] at hcs
    obtain ⟨rfl, rfl⟩ := hcs
    obtain ⟨z, hz⟩ := List.exists_mem_of_ne_nil _ hign
    rcases h'.shape with ⟨pop', c', he', jc'⟩ | ⟨hnj, _⟩
    · rw [hc] at he'
      injection he' with _ hcc _
      subst hcc
      exact ⟨z, jc'.ignIn z hz, by simp, hz⟩
    · exact absurd hc (hnj _ _)
  · obtain ⟨sh, cz⟩ := shape_marg h hcar hRV
    refine ⟨hs ▸ sh, hs ▸ cz, by rw [hs]; exact isFrac_sumSafe hcar.nfrac, ?_⟩
    intro _ fs hfs
    rw [hs, sumSafe_eq_sum h.good.1 hRne] at hfs
    cases hfs

/-- line 4 -/
theorem shape_line4 (h : SemInv ctx q G) {terms : List Expr} (hlen : 2 ≤ terms.length)
    (hterms : ∀ t ∈ terms, Good ctx.S t ∧ SumND t ∧ Shape ctx.M.card ctx.leaf σz t)
    {summand e : Expr} (hs : canonicalize (productSafe terms) = .ok summand)
    (he : canonicalize (sumSafe summand (plainVars (diff' (regularNodes G) (q.X ++ q.Y)))) = .ok e) :
    Shape ctx.M.card ctx.leaf σz e := by
  have hne : terms ≠ [] := by intro h0; rw [h0] at hlen; simp at hlen
  have hprodGood : Good ctx.S (productSafe terms) := good_productSafe ctx.S (fun t ht => (hterms t ht).1)
  have hprodND : SumND (productSafe terms) := sumND_productSafe (fun t ht => (hterms t ht).2.1)
  have hprodSh : Shape ctx.M.card ctx.leaf σz (productSafe terms) :=
    shape_productSafe σz hne (fun t ht => (hterms t ht).2.2)
  have hprodEq : productSafe terms = .prod (ssort exprLt terms) :=
    TrsoAux.so_productSafe_eq (fun t ht => TrsoAux.so_noOne_isOne (hterms t ht).2.2.noOne)
      (fun t ht => clean_not_zero (hterms t ht).1.1) hlen
  have hsumSh := shape_canonicalize ctx.S σz hprodGood hprodND hprodSh hs
  obtain ⟨gs, hgs⟩ := canon_prod_isProd ctx.S σz (hprodEq ▸ hprodGood) (hprodEq ▸ hprodND) (hprodEq ▸ hprodSh)
    (by rw [← hprodEq]; exact hs)
  have hns : ∀ n ∈ diff' (regularNodes G) (q.X ++ q.Y), n ∈ regularNodes G := fun n hn => (mem_diff'.1 hn).1
  have hsumGood := good_canonicalize ctx.S hprodGood hs
  have hsumND := sumND_canonicalize hprodND hs
  refine shape_canonicalize ctx.S σz (good_sumSafe ctx.S false hsumGood (h.rng hns)) (sumND_sumSafe false hsumND)
    (shape_sumSafe_false σz hsumSh (fun c s hcs => ?_)) he
  rw [hgs] at hcs
  cases hcs

/-- the numerator / denominator accumulated by the loop of line 9 -/
structure FracAcc (ctx : Ctx) (N D : Expr) : Prop where
  gN : Good ctx.S N
  gD : Good ctx.S D
  sN : Shape ctx.M.card ctx.leaf σz N
  sD : Shape ctx.M.card ctx.leaf σz D
  fN : isFrac N = false
  fD : isFrac D = false
  le : ∀ f ∈ factors D, denL ctx.M.card ctx.leaf f σz ≤ 1
  cz : ∀ f ∈ factors N, ChainZ ctx.ign f

theorem line9_fold_shape (hc : CoinM ctx) (hq : QInv Mb q G) (h : SemInv ctx q G) (hcar : SrcCarried ctx q G)
    (hlen : 1 < G.districts.length) {order : List Name} (hord : regularOrder G = .ok order) :
    ∀ (L : List Name) (acc r : Expr), (acc = .one ∨ ∃ N D, acc = .frac N D ∧ FracAcc ctx N D) →
      L.foldlM (fun (acc : Expr) node => do
        let i ← indexOf? order node
        let fr ← truediv (ratioParts q.expr order i).1 (ratioParts q.expr order i).2
        mul acc fr) acc = Except.ok r →
      (L = [] ∧ r = acc) ∨ ∃ N D, r = .frac N D ∧ FracAcc ctx N D := by
  intro L
  induction L with
  | nil =>
    intro acc r _ hr
    simp only [List.foldlM, pure, Except.pure, Except.ok.injEq] at hr
    exact Or.inl ⟨rfl, hr.symm⟩
  | cons node L ih =>
    intro acc r hacc hr
    rw [List.foldlM_cons] at hr
    obtain ⟨acc', hstep, hr⟩ := bind_ok hr
    obtain ⟨i, hi, hstep⟩ := bind_ok hstep
    obtain ⟨fr, hfr, hstep⟩ := bind_ok hstep
    obtain ⟨l1, l2, hsplit, hlen1, _⟩ := indexOf_split hi
    rw [← hlen1] at hfr
    obtain ⟨a, b, rfl, ga, gb, sa, sb, hfa, hfb, za, hfaca, hfacb, hble, _⟩ :=
      shape_ratio hc hq h hcar hlen hord hsplit hfr
    have hacc' : ∃ N D, acc' = .frac N D ∧ FracAcc ctx N D := by
      rcases hacc with rfl | ⟨N, D, rfl, P⟩
      · rw [mul_one_left] at hstep
        cases hstep
        exact ⟨a, b, rfl, ga, gb, sa, sb, hfa, hfb, fun f hf => by rw [hfacb] at hf; simp at hf; rw [hf]; exact hble,
          fun f hf => by rw [hfaca] at hf; simp at hf; rw [hf]; exact za⟩
      · obtain ⟨N', D', hN', hD', hmk⟩ := mul_frac_frac P.fN P.fD hfa hfb hstep
        obtain ⟨sN', fN', pN'⟩ := shape_mul_nonfrac σz P.sN sa P.gN.1 ga.1 P.fN hfa hN'
        obtain ⟨sD', fD', pD'⟩ := shape_mul_nonfrac σz P.sD sb P.gD.1 gb.1 P.fD hfb hD'
        have gN' := good_mul ctx.S P.gN ga hN'
        have gD' := good_mul ctx.S P.gD gb hD'
        have hacc'eq : acc' = .frac N' D' := by
          unfold mkFrac at hmk
          rw [clean_not_zero gD'.1] at hmk
          simpa using hmk.symm
        refine ⟨N', D', hacc'eq, gN', gD', sN', sD', fN', fD', ?_, ?_⟩
        · intro f hf
          rcases List.mem_append.1 (pD'.subset hf) with hf | hf
          · exact P.le f hf
          · rw [hfacb] at hf; simp at hf; rw [hf]; exact hble
        · intro f hf
          rcases List.mem_append.1 (pN'.subset hf) with hf | hf
          · exact P.cz f hf
          · rw [hfaca] at hf; simp at hf; rw [hf]; exact za
    rcases ih acc' r (Or.inr hacc') hr with ⟨_, rfl⟩ | hfin
    · exact Or.inr hacc'
    · exact Or.inr hfin

end

section
variable {ctx : Ctx} {Mb : Nat} {q : Query} {G : MG Name}

/-- line 9 -/
theorem shape_line9 (hc : CoinM ctx) (hq : QInv Mb q G) (h : SemInv ctx q G) (hcar : SrcCarried ctx q G)
    (hlen : 1 < G.districts.length) {c d : List Name} (hd : d ∈ G.districts) (hdc : ∀ v, v ∈ d ↔ v ∈ c)
    (hcT : ∀ v ∈ c, isTnode v = false) (hcne : c ≠ []) {e9 : Expr} (he : line9 q G c = .ok e9) :
    Shape ctx.M.card ctx.leaf σz e9 := by
  have he0 := he
  unfold line9 at he
  rw [clean_not_zero h.good.1] at he
  simp only [Bool.false_eq_true, if_false] at he
  obtain ⟨order, hord, he⟩ := bind_ok he
  obtain ⟨prod, hprod, he⟩ := bind_ok he
  obtain ⟨r2, hr2, he⟩ := bind_ok he
  have hee : e9 = sumSafe r2 (plainVars (diff' c q.Y)) := by simpa [pure, Except.pure] using he.symm
  have hcne' : nsort c ≠ [] := nsort_nonempty hcne
  -- the loop
  rcases line9_fold_shape hc hq h hcar hlen hord (nsort c) .one prod (Or.inl rfl) hprod with ⟨h0, _⟩ | ⟨N, D, rfl, P⟩
  · exact absurd h0 hcne'
  · -- the value of the accumulated fraction is the c-factor of the district
    obtain ⟨_, _, _, hden⟩ := TrsoAux.line9_fold hq h hord (nsort c) .one (.frac N D) ⟨trivial, trivial⟩ trivial
      (Or.inl rfl) hprod
    have hcreg : ∀ v ∈ nsort c, isTnode v = false := fun v hv => hcT v ((mem_nsort v c).1 hv)
    have hval : denL ctx.M.card ctx.leaf N σz / denL ctx.M.card ctx.leaf D σz = (1 / 2 : Rat) ^ (nsort c).length := by
      have := hden σz
      rw [TrsoAux.tian_prod hq h hord hd (nsort_nodup' c) (fun v => by rw [mem_nsort]; exact (hdc v).symm) hcreg σz,
        hc.Q] at this
      simpa [TrsoAux.denL_frac, TrsoAux.denL_one] using this
    have hlt : denL ctx.M.card ctx.leaf N σz / denL ctx.M.card ctx.leaf D σz < 1 := by
      rw [hval]
      have hpos : 0 < (nsort c).length := List.length_pos_iff.2 hcne'
      exact pow_lt_one₀ (by norm_num) (by norm_num) (by omega)
    have hr2' : fracSimplify N D = .ok r2 := hr2
    have sr2 := shape_fracSimplify ctx.S σz P.gN P.gD P.sN P.sD P.fN P.fD hlt P.le hr2'
    rw [hee]
    refine shape_sumSafe_false σz sr2 (fun c0 s0 hcs => ?_)
    have hmemN : r2 ∈ factors N :=
      fracSimplify_chain_mem ctx.S σz P.gN P.gD P.sN P.sD P.fN P.fD hlt P.le hr2' (by rw [hcs]; rfl)
    obtain ⟨n, hn1, hn2, hn3⟩ := P.cz r2 hmemN c0 s0 hcs
    refine ⟨n, hn1, hn2, fun hm => ?_⟩
    obtain ⟨v, hv, hvn⟩ := List.mem_map.1 hm
    obtain ⟨m, hm', rfl⟩ := (mem_plainVars v _).1 hv
    have hmc : m ∈ c := (mem_diff'.1 hm').1
    have hmd : m ∈ d := (hdc m).2 hmc
    have hmreg : m ∈ regularNodes G := mem_regularNodes.2 ⟨mem_nodes_of_mem_district hq.wfG hd hmd, hcT m hmc⟩
    have : m = n := hvn
    subst this
    exact h.ign m hn3 hmreg

/-- `trso_line10` unfolded, with the joint test as a Boolean -/
theorem line10_unfold {q q' : Query} {G : MG Name} {c : List Name} {s : List (Pop × List Name)}
    (h : line10 q G c s = .ok q') :
    ∃ order cj facs e2, regularOrder G = .ok order ∧ (cj = true → ∃ pop cc, q.expr = .prob (some pop) cc []) ∧
      (cj = false → ∀ pop cc, q.expr ≠ .prob (some pop) cc []) ∧
      (nsort c).mapM (line10Factor q order cj) = .ok facs ∧ canonicalize (productSafe facs) = .ok e2 ∧
      q'.expr = e2 := by
  unfold line10 at h
  obtain ⟨order, hord, h⟩ := bind_ok h
  simp only [] at h
  obtain ⟨facs, hfacs, h⟩ := bind_ok h
  obtain ⟨e2, he2, h⟩ := bind_ok h
  have hexpr : q'.expr = e2 := by
    simp only [pure, Except.pure, Except.ok.injEq] at h
    rw [← h]
  refine ⟨order, _, facs, e2, hord, ?_, ?_, hfacs, he2, hexpr⟩
  · intro hcj
    split at hcj
    · rename_i p cc hqe; exact ⟨p, cc, hqe⟩
    · cases hcj
  · intro hcj pop cc hqe
    rw [hqe] at hcj
    cases hcj

/-- line 10 keeps the carried expression in shape: a canonical product -/
theorem car_line10 (hc : CoinM ctx) (hq : QInv Mb q G) (h : SemInv ctx q G) (hcar : SrcCarried ctx q G)
    (hlen : 1 < G.districts.length) {c' : List Name} (hc' : c' ∈ G.districts) (hcT : ∀ v ∈ c', isTnode v = false)
    (hbig : 2 ≤ (nsort c').length) {s : List (Pop × List Name)} {q' : Query} (hq' : line10 q G c' s = .ok q') :
    SrcCarried ctx q' (G.subgraph (nsort c')) ∧ ∃ gs, q'.expr = .prod gs := by
  obtain ⟨order, cj, facs, e2, hord, hcjT, hcjF, hfacs, he2, hexpr⟩ := line10_unfold hq'
  have hT : cj = true → ∃ c, JC ctx q G c := by
    intro hcj
    obtain ⟨p, cc, hqe⟩ := hcjT hcj
    rcases h.shape with ⟨pop, c, _, jc⟩ | ⟨hnj, _⟩
    · exact ⟨c, jc⟩
    · exact absurd hqe (hnj _ _)
  have hF : cj = false → Wf OneName (fun _ => True) q.expr := by
    intro hcj
    rcases h.shape with ⟨pop, c, hexp, _⟩ | ⟨_, hw⟩
    · exact absurd hexp (hcjF hcj _ _)
    · exact hw
  have hfac : ∀ f ∈ facs, Good ctx.S f ∧ SumND f ∧ Shape ctx.M.card ctx.leaf σz f := by
    intro f hf
    obtain ⟨node, _, hnode⟩ := mapM_ok hfacs f hf
    have hsem := TrsoAux.line10_factor_sem hq h hord hT hF hnode
    refine ⟨hsem.1, hsem.2.1, ?_⟩
    unfold line10Factor at hnode
    obtain ⟨i, hi, hnode⟩ := bind_ok hnode
    obtain ⟨l1, l2, hsplit, hlen1, _⟩ := indexOf_split hi
    cases cj with
    | true =>
      simp only [if_true, pure, Except.pure, Except.ok.injEq] at hnode
      rw [← hnode]
      exact shape_leaf σz _ _ _
    | false =>
      simp only [Bool.false_eq_true, if_false] at hnode
      rw [← hlen1] at hnode
      obtain ⟨_, _, _, _, _, _, _, _, _, _, _, _, _, sfr⟩ := shape_ratio hc hq h hcar hlen hord hsplit hnode
      exact sfr
  have hlen2 : 2 ≤ facs.length := by
    have : facs.length = (nsort c').length := by
      clear he2 hfac
      revert facs
      generalize (nsort c') = L
      intro facs hfacs
      induction L generalizing facs with
      | nil =>
        simp only [List.mapM_nil, pure, Except.pure, Except.ok.injEq] at hfacs
        rw [← hfacs]
        rfl
      | cons a L ih =>
        rw [List.mapM_cons] at hfacs
        obtain ⟨b, _, hfacs⟩ := bind_ok hfacs
        obtain ⟨bs, hbs, hfacs⟩ := bind_ok hfacs
        simp only [pure, Except.pure, Except.ok.injEq] at hfacs
        subst hfacs
        simp [ih bs hbs]
    omega
  have hne : facs ≠ [] := by intro h0; rw [h0] at hlen2; simp at hlen2
  have hprodGood : Good ctx.S (productSafe facs) := good_productSafe ctx.S (fun t ht => (hfac t ht).1)
  have hprodND : SumND (productSafe facs) := sumND_productSafe (fun t ht => (hfac t ht).2.1)
  have hprodSh : Shape ctx.M.card ctx.leaf σz (productSafe facs) :=
    shape_productSafe σz hne (fun t ht => (hfac t ht).2.2)
  have hprodEq : productSafe facs = .prod (ssort exprLt facs) :=
    TrsoAux.so_productSafe_eq (fun t ht => TrsoAux.so_noOne_isOne (hfac t ht).2.2.noOne)
      (fun t ht => clean_not_zero (hfac t ht).1.1) hlen2
  have hsh := shape_canonicalize ctx.S σz hprodGood hprodND hprodSh he2
  obtain ⟨gs, hgs⟩ := canon_prod_isProd ctx.S σz (hprodEq ▸ hprodGood) (hprodEq ▸ hprodND) (hprodEq ▸ hprodSh)
    (by rw [← hprodEq]; exact he2)
  refine ⟨⟨hexpr ▸ hsh, ?_, by rw [hexpr, hgs]; rfl, ?_⟩, gs, by rw [hexpr, hgs]⟩
  · apply chainZ_none
    rw [hexpr, hgs]; rfl
  · intro hl
    have := subgraph_district_single hq.wfG hc'
    omega

end

end Trso
end Y0
