/-
  Y0.Lemmas.TrsoShapeRun — every estimand a source-domain run of TRSO returns has the shape of
  Lemmas/TrsoShapeDefs, in particular contains no `One()` (`srcShape`).  The run is followed in the source context of the
  coin family (Lemmas/TrsoSrcCtx), whose semantic invariant provides the values that exclude `One()`:
  a ratio of line 9 / 10 has value 1/2, the c-factor of a district a value below 1, every marginal a value at most 1.
-/
import Y0.Lemmas.TrsoShapeCanon
import Y0.Lemmas.TrsoShapeOps
import Y0.Lemmas.TrsoSound
import Mathlib.Tactic.Positivity
import Mathlib.Tactic.Linarith

namespace Y0
namespace Trso
open TrDsl MG IdAux

/-- what is used of the coin model -/
structure CoinM (ctx : Ctx) : Prop where
  card2 : ∀ x, ctx.M.card x = 2
  Q : ∀ (T : List Name) σ, ctx.M.Q T σ = (1 / 2 : Rat) ^ T.length

/-- the assignment at which values are compared -/
def σz : Val := fun _ => 0

/-- an iterated sum over a joint keeps an intervened variable as un-summed child -/
def ChainZ (zs : List Name) (x : Expr) : Prop :=
  ∀ c s, chain x = some (c, s) → ∃ n ∈ c.map (·.name), n ∉ s ∧ n ∈ zs

/-- the carried expression of a source-domain run -/
structure SrcCarried (ctx : Ctx) (q : Query) (G : MG Name) : Prop where
  shape : Shape ctx.M.card ctx.leaf σz q.expr
  chz : ChainZ ctx.ign q.expr
  nfrac : isFrac q.expr = false
  /-- a bare product is carried only right after line 10, when the graph has a single district -/
  np : 1 < G.districts.length → ∀ fs, q.expr ≠ .prod fs

theorem chainZ_none {zs : List Name} {x : Expr} (h : chain x = none) : ChainZ zs x := by
  intro c s hc; rw [h] at hc; cases hc

theorem sumVars_const2 {card : Name → Nat} (h2 : ∀ x, card x = 2) (xs : List Name) (c : Rat) (σ : Val) :
    sumVars card xs (fun _ => c) σ = c * 2 ^ xs.length := by
  induction xs generalizing σ with
  | nil => simp [sumVars]
  | cons x xs ih =>
    simp only [sumVars]
    have : sumVars card xs (fun _ => c) = fun _ => c * 2 ^ xs.length := funext ih
    rw [this, sumVar_const _ _ _ _ (fun _ _ => rfl), h2 x]
    simp only [List.length_cons, pow_succ]
    push_cast
    ring

section
variable {ctx : Ctx} {Mb : Nat} {q : Query} {G : MG Name}

/-- the value of a marginal of the carried expression in the coin context -/
theorem coin_sumSafe_val (hc : CoinM ctx) (hq : QInv Mb q G) (h : SemInv ctx q G) {L : List Name} (hL : L.Nodup)
    (hLV : ∀ v ∈ L, v ∈ regularNodes G) (σ : Val) :
    denL ctx.M.card ctx.leaf (sumSafe q.expr (plainVars L) false) σ =
      (1 / 2 : Rat) ^ (regularNodes G).length * 2 ^ L.length := by
  rw [denL_sumSafe_false, sumVars_plainVars_set ctx.M.card (fun n hn => regular_notT (hLV n hn)) hL (fun _ => Iff.rfl)]
  have : (fun τ => denL ctx.M.card ctx.leaf q.expr τ) = fun _ => (1 / 2 : Rat) ^ (regularNodes G).length := by
    funext τ; rw [h.est τ, hc.Q]
  rw [this, sumVars_const2 hc.card2]

/-- shape of a marginal of the carried expression -/
theorem shape_marg (h : SemInv ctx q G) (hcar : SrcCarried ctx q G) {L : List Name}
    (hLV : ∀ v ∈ L, v ∈ regularNodes G) :
    Shape ctx.M.card ctx.leaf σz (sumSafe q.expr (plainVars L) false) ∧
      ChainZ ctx.ign (sumSafe q.expr (plainVars L) false) := by
  have hnot : ∀ n, n ∈ ctx.ign → n ∉ (plainVars L).map (·.name) := by
    intro n hn hm
    obtain ⟨v, hv, rfl⟩ := List.mem_map.1 hm
    obtain ⟨m, hm', rfl⟩ := (mem_plainVars v L).1 hv
    exact h.ign m hn (hLV m hm')
  refine ⟨shape_sumSafe_false σz hcar.shape (fun c s hcs => ?_), ?_⟩
  · obtain ⟨n, hn1, hn2, hn3⟩ := hcar.chz c s hcs
    exact ⟨n, hn1, hn2, hnot n hn3⟩
  · intro c s hcs
    unfold sumSafe at hcs
    simp only [] at hcs
    split at hcs
    · exact hcar.chz c s hcs
    · split at hcs
      · exact hcar.chz c s hcs
      · simp only [Bool.false_eq_true, if_false, chain, Option.map_eq_some_iff] at hcs
        obtain ⟨⟨c0, s0⟩, h0, hpair⟩ := hcs
        simp only [Prod.mk.injEq] at hpair
        obtain ⟨rfl, rfl⟩ := hpair
        obtain ⟨n, hn1, hn2, hn3⟩ := hcar.chz c0 s0 h0
        refine ⟨n, hn1, ?_, hn3⟩
        intro hm
        rcases List.mem_append.1 hm with a | a
        · exact hn2 a
        · apply hnot n hn3
          obtain ⟨v, hv, rfl⟩ := List.mem_map.1 a
          exact List.mem_map.2 ⟨v, (mem_sortVars v _).1 hv, rfl⟩

theorem isFrac_sumSafe {e : Expr} {rs : List Var} (h : isFrac e = false) : isFrac (sumSafe e rs false) = false := by
  unfold sumSafe
  simp only []
  split
  · exact h
  · split
    · exact h
    · rfl

end

/-! ### line 2: the syntactic form of the new carried expression -/

/-- line 2 either keeps a joint a joint or wraps a non-joint into a `Sum` -/
theorem line2_expr_cases {Mb : Nat} {q q' : Query} {G : MG Name} {ctx : Ctx} (hq : QInv Mb q G) (h : SemInv ctx q G)
    {anc : List Name} (hanc : G.ancestorsInclusive q.Y = .ok anc)
    (hne : (diff' (regularNodes G) anc).isEmpty = false) (hq' : line2 q anc = .ok q') :
    (∃ pop c, q'.expr = .prob (some pop) c []) ∨
      q'.expr = sumSafe q.expr (plainVars (diff' (regularNodes G) anc)) false := by
  obtain ⟨_, _, _, _, hret, _, _, _⟩ := line2_shape' hq.look hanc hq'
  have hYanc : ∀ y ∈ q.Y, y ∈ anc := ancestorsInclusive_self hq.wfG hanc
  have hRV : ∀ n ∈ diff' (regularNodes G) anc, n ∈ regularNodes G := fun n hn => (mem_diff'.1 hn).1
  have hrng := h.rng hRV
  have hRne : plainVars (diff' (regularNodes G) anc) ≠ [] := plainVars_nonempty (by
    intro h0; rw [h0] at hne; simp at hne)
  rcases h.shape with ⟨pop, c, hexpr, jc⟩ | ⟨hnj, _⟩
  · left
    have hsub : ∀ v ∈ plainVars (diff' (regularNodes G) anc), v.name ∈ c.map (·.name) := by
      intro v hv
      obtain ⟨n, hn, rfl⟩ := (mem_plainVars v _).1 hv
      exact jc.cover n (hRV n hn)
    rw [hexpr] at hret
    rcases sumSafe_joint_sub (some pop) c _ (fun v hv => (hrng v hv).1) hsub with h1 | ⟨c', hs, _, _⟩
    · exfalso
      obtain ⟨y, hy⟩ := List.exists_mem_of_ne_nil _ hq.Yne
      have hyV : y ∈ regularNodes G := mem_regularNodes.2 ⟨hq.YinG y hy, hq.YT y hy⟩
      refine sumSafe_joint_ne_one (some pop) c _ ⟨y, jc.cover y hyV, fun hyr => ?_⟩ h1
      obtain ⟨v, hv, hvy⟩ := List.mem_map.1 hyr
      obtain ⟨m, hm, rfl⟩ := (mem_plainVars v _).1 hv
      have : m = y := hvy
      subst this
      exact (mem_diff'.1 hm).2 (hYanc m hy)
    · rw [hs] at hret
      exact ⟨popVar q.domain, c', by simpa [retag] using hret.symm⟩
  · right
    have hs := sumSafe_true_nonjoint h.good.1 hRne hnj
    rw [hs] at hret
    rw [sumSafe_eq_sum h.good.1 hRne]
    simpa [retag] using hret.symm

/-- the sub-graph induced by a district has a single district -/
theorem subgraph_district_single {G : MG Name} (hG : G.WF) {c : List Name} (hc : c ∈ G.districts) :
    (G.subgraph (nsort c)).districts.length ≤ 1 := by
  have hH := wf_subgraph G (nsort c)
  by_contra hlen
  have hlen' : 2 ≤ (G.subgraph (nsort c)).districts.length := by omega
  -- two different districts of the sub-graph
  obtain ⟨D1, D2, rest, hds⟩ : ∃ D1 D2 rest, (G.subgraph (nsort c)).districts = D1 :: D2 :: rest := by
    match hd : (G.subgraph (nsort c)).districts, hlen' with
    | D1 :: D2 :: rest, _ => exact ⟨D1, D2, rest, rfl⟩
    | [_], h => simp at h
    | [], h => simp at h
  have hD1 : D1 ∈ (G.subgraph (nsort c)).districts := by rw [hds]; simp
  have hD2 : D2 ∈ (G.subgraph (nsort c)).districts := by rw [hds]; simp
  have hdisj : ∀ x, x ∈ D1 → x ∉ D2 := by
    have := districts_disjoint _ hH
    rw [hds] at this
    exact fun x hx => (List.pairwise_cons.1 this).1 D2 (by simp) x hx
  obtain ⟨v, hv⟩ := List.exists_mem_of_ne_nil _ (districts_nonempty _ hH D1 hD1)
  obtain ⟨w, hw⟩ := List.exists_mem_of_ne_nil _ (districts_nonempty _ hH D2 hD2)
  have hvc : v ∈ c := (mem_nsort v c).1 ((mem_nodes_subgraph G _ v).1 (mem_nodes_of_mem_district hH hD1 hv))
  have hwc : w ∈ c := (mem_nsort w c).1 ((mem_nodes_subgraph G _ w).1 (mem_nodes_of_mem_district hH hD2 hw))
  -- a bidirected chain from `v` to `w` inside the district stays inside the sub-graph
  have hsd : G.SameDistrict v w := (districts_spec G hG c hc v hvc w).1 hwc
  have key : ∀ x, G.SameDistrict v x → (G.subgraph (nsort c)).SameDistrict v x := by
    intro x hx
    induction hx with
    | refl => exact .refl
    | tail hxy hyz ih =>
      rename_i y z
      have hyc : y ∈ c := (districts_spec G hG c hc v hvc y).2 hxy
      have hzc : z ∈ c := (districts_spec G hG c hc v hvc z).2 (hxy.tail hyz)
      exact ih.tail ((biEdge_subgraph G _ y z).2 ⟨hyz, (mem_nsort _ _).2 hyc, (mem_nsort _ _).2 hzc⟩)
  exact hdisj w ((districts_spec _ hH D1 hD1 v hv w).2 (key w hsd)) hw

/-! ### the marginals of lines 9 / 10 in the coin context -/

section
variable {ctx : Ctx} {Mb : Nat} {q : Query} {G : MG Name}

/-- one ratio `Σ_{later} e / Σ_{node and later} e`: a fraction of two shaped marginals of different value, the
denominator of value at most 1 -/
theorem shape_ratio (hc : CoinM ctx) (hq : QInv Mb q G) (h : SemInv ctx q G) (hcar : SrcCarried ctx q G)
    (hlen : 1 < G.districts.length) {order l1 l2 : List Name} {node : Name} (hord : regularOrder G = .ok order)
    (hsplit : order = l1 ++ node :: l2) {fr : Expr}
    (hfr : truediv (ratioParts q.expr order l1.length).1 (ratioParts q.expr order l1.length).2 = .ok fr) :
    ∃ a b, fr = .frac a b ∧ Good ctx.S a ∧ Good ctx.S b ∧ Shape ctx.M.card ctx.leaf σz a ∧
      Shape ctx.M.card ctx.leaf σz b ∧ isFrac a = false ∧ isFrac b = false ∧ ChainZ ctx.ign a ∧
      factors a = [a] ∧ factors b = [b] ∧ denL ctx.M.card ctx.leaf b σz ≤ 1 ∧ Shape ctx.M.card ctx.leaf σz fr := by
  obtain ⟨hnd, hmem, _⟩ := regularOrder_spec hq.wfG hord
  have hd1 : order.drop (l1.length + 1) = l2 := by
    rw [hsplit, show l1 ++ node :: l2 = (l1 ++ [node]) ++ l2 by simp, List.drop_left' (by simp)]
  have hd0 : order.drop l1.length = node :: l2 := by rw [hsplit, List.drop_left]
  unfold ratioParts at hfr
  simp only [hd1, hd0] at hfr
  have hl2V : ∀ v ∈ l2, v ∈ regularNodes G := fun v hv =>
    (hmem v).1 (by rw [hsplit]; exact List.mem_append_right _ (List.mem_cons_of_mem _ hv))
  have hnV : ∀ v ∈ node :: l2, v ∈ regularNodes G := fun v hv =>
    (hmem v).1 (by rw [hsplit]; exact List.mem_append_right _ hv)
  have hnd' : (node :: l2).Nodup := by
    have := hsplit ▸ hnd
    exact (List.nodup_append.1 this).2.1
  have hl2nd : l2.Nodup := (List.nodup_cons.1 hnd').2
  obtain ⟨sa, za⟩ := shape_marg (L := l2) h hcar hl2V
  obtain ⟨sb, _⟩ := shape_marg (L := node :: l2) h hcar hnV
  have ga : Good ctx.S (sumSafe q.expr (plainVars l2) false) := good_sumSafe ctx.S false h.good (h.rng hl2V)
  have gb : Good ctx.S (sumSafe q.expr (plainVars (node :: l2)) false) := good_sumSafe ctx.S false h.good (h.rng hnV)
  have va := coin_sumSafe_val hc hq h hl2nd hl2V σz
  have vb := coin_sumSafe_val hc hq h hnd' hnV σz
  have hpos : (0 : Rat) < (1 / 2 : Rat) ^ (regularNodes G).length * 2 ^ l2.length := by positivity
  have hne : denL ctx.M.card ctx.leaf (sumSafe q.expr (plainVars l2) false) σz ≠
      denL ctx.M.card ctx.leaf (sumSafe q.expr (plainVars (node :: l2)) false) σz := by
    rw [va, vb, List.length_cons, pow_succ]
    intro heq
    have h2 : (1 / 2 : Rat) ^ (regularNodes G).length * (2 ^ l2.length * 2) =
        ((1 / 2 : Rat) ^ (regularNodes G).length * 2 ^ l2.length) * 2 := by ring
    rw [h2] at heq
    linarith
  have hfa := isFrac_sumSafe (rs := plainVars l2) hcar.nfrac
  have hfb := isFrac_sumSafe (rs := plainVars (node :: l2)) hcar.nfrac
  have hza : isZero (sumSafe q.expr (plainVars l2) false) = false := clean_not_zero ga.1
  have hzb : isZero (sumSafe q.expr (plainVars (node :: l2)) false) = false := clean_not_zero gb.1
  obtain ⟨hfrEq, sfr⟩ := shape_truediv' σz sa sb hfa hfb ⟨hza, hzb⟩ hne hfr
  -- the denominator is a `Sum`; the numerator is a `Sum` or the carried expression, which is not a product here
  have hbsum : sumSafe q.expr (plainVars (node :: l2)) false =
      .sum q.expr (sortVars (plainVars (node :: l2))) := sumSafe_eq_sum h.good.1 (plainVars_nonempty (by simp))
  have hfacb : factors (sumSafe q.expr (plainVars (node :: l2)) false) =
      [sumSafe q.expr (plainVars (node :: l2)) false] := by rw [hbsum]; rfl
  have hfaca : factors (sumSafe q.expr (plainVars l2) false) = [sumSafe q.expr (plainVars l2) false] := by
    by_cases hl2 : l2 = []
    · subst hl2
      have : sumSafe q.expr (plainVars []) false = q.expr := by
        unfold sumSafe; simp [plainVars, sortVars, ssort, dedup']
      rw [this]
      cases hqe : q.expr with
      | prod fs => exact absurd hqe (hcar.np hlen fs)
      | _ => rfl
    · rw [sumSafe_eq_sum h.good.1 (plainVars_nonempty hl2)]; rfl
  have hble : denL ctx.M.card ctx.leaf (sumSafe q.expr (plainVars (node :: l2)) false) σz ≤ 1 := by
    rw [vb]
    have hle : (node :: l2).length ≤ (regularNodes G).length := by
      have h1 : (node :: l2).length ≤ order.length := by rw [hsplit]; simp
      have h2 : order.length = (regularNodes G).length :=
        (List.perm_ext_iff_of_nodup hnd (regularNodes_nodup hq.wfG)).2 hmem |>.length_eq
      omega
    have : (1 / 2 : Rat) ^ (regularNodes G).length * 2 ^ (node :: l2).length =
        (1 / 2 : Rat) ^ ((regularNodes G).length - (node :: l2).length) := by
      have hsplit2 : (regularNodes G).length =
          ((regularNodes G).length - (node :: l2).length) + (node :: l2).length := by omega
      conv_lhs => rw [hsplit2, pow_add, mul_assoc, ← mul_pow]
      norm_num
    rw [this]
    exact pow_le_one₀ (by norm_num) (by norm_num)
  exact ⟨_, _, hfrEq, ga, gb, sa, sb, hfa, hfb, za, hfaca, hfacb, hble, sfr⟩

end

end Trso
end Y0
