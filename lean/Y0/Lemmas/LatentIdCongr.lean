/-
  Y0.Lemmas.LatentIdCongr — the VERDICT of the ID model (`Y0.idAlg` / `Y0.identify`, Model/Id.lean) depends on
  the graph only up to `NxMixedGraph.__eq__`, on the query only through the SETS `X`, `Y`, and not at all on
  the topological order networkx happens to return (`topo`, a parameter of the model) nor on the carried
  estimand.

  Needed by property C16 (identifiability verdicts among observed nodes are unchanged by Evans'
  simplification: the graph read off the simplified DAG is `__eq__` to the latent projection, not identical).

  Proof: well-founded induction along the recursion of `idAlg` on the first input, keeping the second
  input in the relation `Sim` (same node set, same edge relations, same treatment / outcome sets).  Which
  line of ID fires is decided by set-valued facts (`X = ∅`, `V ∖ An(Y) = ∅`, number of districts, …) that
  are the same on both sides; the sub-problems handed to the recursion are again `Sim`-related.  Lines 6 and
  7 consult `topo` only to BUILD the estimand; that they do not fail is `line6_total` / `line7_total`.
-/
import Y0.Lemmas.IdTotal

namespace Y0.IdCongr
open IdDsl IdAux MG Relation

/-- same node set, same directed edges, same bidirected edges (up to orientation): `NxMixedGraph.__eq__` -/
structure GSim (G H : MG Name) : Prop where
  nodes : ∀ v, v ∈ G.nodes ↔ v ∈ H.nodes
  di : ∀ u v, G.DiEdge u v ↔ H.DiEdge u v
  bi : ∀ u v, G.BiEdge u v ↔ H.BiEdge u v

/-- two lists with the same members -/
def SetEq (S T : List Name) : Prop := ∀ v, v ∈ S ↔ v ∈ T

theorem SetEq.symm {S T : List Name} (h : SetEq S T) : SetEq T S := fun v => (h v).symm

theorem gsim_of_equiv {G H : MG Name} (h : G.equiv H = true) : GSim G H := by
  obtain ⟨a, b, c⟩ := (equiv_iff G H).1 h
  exact ⟨a, b, c⟩

namespace GSim
variable {G H : MG Name}

theorem symm (h : GSim G H) : GSim H G :=
  ⟨fun v => (h.nodes v).symm, fun u v => (h.di u v).symm, fun u v => (h.bi u v).symm⟩

theorem subgraph (h : GSim G H) {S T : List Name} (hs : SetEq S T) : GSim (G.subgraph S) (H.subgraph T) :=
  ⟨fun v => by rw [mem_nodes_subgraph, mem_nodes_subgraph]; exact hs v,
   fun u v => by rw [diEdge_subgraph, diEdge_subgraph, h.di, hs u, hs v],
   fun u v => by rw [biEdge_subgraph, biEdge_subgraph, h.bi, hs u, hs v]⟩

theorem removeNodes (h : GSim G H) (hG : G.WF) (hH : H.WF) {S T : List Name} (hs : SetEq S T) :
    GSim (G.removeNodes S) (H.removeNodes T) :=
  ⟨fun v => by rw [mem_nodes_removeNodes G hG, mem_nodes_removeNodes H hH, h.nodes, hs v],
   fun u v => by rw [diEdge_removeNodes, diEdge_removeNodes, h.di, hs u, hs v],
   fun u v => by rw [biEdge_removeNodes, biEdge_removeNodes, h.bi, hs u, hs v]⟩

theorem removeInEdges (h : GSim G H) (hG : G.WF) (hH : H.WF) {S T : List Name} (hs : SetEq S T) :
    GSim (G.removeInEdges S) (H.removeInEdges T) :=
  ⟨fun v => by rw [mem_nodes_removeInEdges G hG, mem_nodes_removeInEdges H hH, h.nodes],
   fun u v => by rw [diEdge_removeInEdges, diEdge_removeInEdges, h.di, hs v],
   fun u v => by rw [biEdge_removeInEdges, biEdge_removeInEdges, h.bi, hs u, hs v]⟩

theorem anc (h : GSim G H) {S T : List Name} (hs : SetEq S T) (v : Name) : G.Anc S v ↔ H.Anc T v := by
  have hd : G.DiEdge = H.DiEdge := by funext a b; exact propext (h.di a b)
  unfold Anc
  rw [hd]
  constructor
  · rintro ⟨s, hs', hp⟩; exact ⟨s, (hs s).1 hs', hp⟩
  · rintro ⟨s, hs', hp⟩; exact ⟨s, (hs s).2 hs', hp⟩

theorem ancestors (h : GSim G H) (hG : G.WF) (hH : H.WF) {S T A B : List Name} (hs : SetEq S T)
    (hA : G.ancestorsInclusive S = .ok A) (hB : H.ancestorsInclusive T = .ok B) : SetEq A B := fun v => by
  rw [ancestorsInclusive_spec G hG S A hA, ancestorsInclusive_spec H hH T B hB]
  exact h.anc hs v

theorem sameDistrict (h : GSim G H) (u v : Name) : G.SameDistrict u v ↔ H.SameDistrict u v := by
  have hb : G.BiEdge = H.BiEdge := by funext a b; exact propext (h.bi a b)
  unfold SameDistrict
  rw [hb]

theorem nodes_ne (h : GSim G H) : G.nodes ≠ [] ↔ H.nodes ≠ [] := by
  constructor
  · intro hne
    obtain ⟨v, hv⟩ := List.exists_mem_of_ne_nil _ hne
    exact List.ne_nil_of_mem ((h.nodes v).1 hv)
  · intro hne
    obtain ⟨v, hv⟩ := List.exists_mem_of_ne_nil _ hne
    exact List.ne_nil_of_mem ((h.nodes v).2 hv)

/-- two districts (one in each graph) that share a member have the same members -/
theorem district_ext (h : GSim G H) (hG : G.WF) (hH : H.WF) {d e : List Name} (hd : d ∈ G.districts)
    (he : e ∈ H.districts) {u : Name} (hud : u ∈ d) (hue : u ∈ e) : SetEq d e := fun v => by
  rw [districts_spec G hG d hd u hud, districts_spec H hH e he u hue]
  exact h.sameDistrict u v

/-- every district of `G` is, as a set, a district of `H` -/
theorem district_match (h : GSim G H) (hG : G.WF) (hH : H.WF) {d : List Name} (hd : d ∈ G.districts) :
    ∃ e ∈ H.districts, SetEq d e := by
  obtain ⟨u, hu⟩ := List.exists_mem_of_ne_nil _ (districts_nonempty G hG d hd)
  have huH : u ∈ H.nodes := (h.nodes u).1 (mem_nodes_of_mem_district hG hd hu)
  obtain ⟨e, he, hue⟩ := (districts_cover H hH u).1 huH
  exact ⟨e, he, h.district_ext hG hH hd he hu hue⟩

end GSim

/-- exactly one district: the graph is not empty and all its nodes are bidirected-connected -/
theorem districts_length_one_iff (G : MG Name) (hG : G.WF) :
    G.districts.length = 1 ↔ G.nodes ≠ [] ∧ ∀ u ∈ G.nodes, ∀ v ∈ G.nodes, G.SameDistrict u v := by
  constructor
  · intro hlen
    obtain ⟨S, hS⟩ : ∃ S, G.districts = [S] := by
      match hd : G.districts, hlen with
      | [S], _ => exact ⟨S, rfl⟩
    have hSm : S ∈ G.districts := by rw [hS]; simp
    have hall := single_district_all hG hS
    obtain ⟨s, hs⟩ := List.exists_mem_of_ne_nil _ (districts_nonempty G hG S hSm)
    refine ⟨List.ne_nil_of_mem ((hall s).1 hs), fun u hu v hv => ?_⟩
    exact (districts_spec G hG S hSm u ((hall u).2 hu) v).1 ((hall v).2 hv)
  · rintro ⟨hne, hall⟩
    by_contra hlen
    obtain ⟨u, hu⟩ := List.exists_mem_of_ne_nil _ hne
    obtain ⟨D, hD, huD⟩ := (districts_cover G hG u).1 hu
    obtain ⟨D', hD', x, hx, hxD⟩ := exists_other_district hG hD hlen
    have hxV : x ∈ G.nodes := mem_nodes_of_mem_district hG hD' hx
    exact hxD ((districts_spec G hG D hD u huD x).2 (hall u hu x hxV))

theorem GSim.single {G H : MG Name} (h : GSim G H) (hG : G.WF) (hH : H.WF) :
    G.districts.length = 1 ↔ H.districts.length = 1 := by
  rw [districts_length_one_iff G hG, districts_length_one_iff H hH, h.nodes_ne]
  constructor
  · rintro ⟨hne, hall⟩
    exact ⟨hne, fun u hu v hv => (h.sameDistrict u v).1 (hall u ((h.nodes u).2 hu) v ((h.nodes v).2 hv))⟩
  · rintro ⟨hne, hall⟩
    exact ⟨hne, fun u hu v hv => (h.sameDistrict u v).2 (hall u ((h.nodes u).1 hu) v ((h.nodes v).1 hv))⟩

theorem seteq'_iff {S T : List Name} : seteq' S T = true ↔ SetEq S T := by
  unfold seteq'
  rw [Bool.and_eq_true, subset'_iff, subset'_iff]
  exact ⟨fun h v => ⟨h.1 v, h.2 v⟩, fun h => ⟨fun v => (h v).1, fun v => (h v).2⟩⟩

/-- "some district of the graph is the set `S`" does not depend on the representation -/
theorem any_seteq_congr {G H : MG Name} (h : GSim G H) (hG : G.WF) (hH : H.WF) {S T : List Name}
    (hs : SetEq S T) (ha : G.districts.any (fun D => seteq' D S) = true) :
    H.districts.any (fun D => seteq' D T) = true := by
  obtain ⟨D, hD, hDS⟩ := List.any_eq_true.mp ha
  obtain ⟨E, hE, hDE⟩ := h.district_match hG hH hD
  refine List.any_eq_true.mpr ⟨E, hE, seteq'_iff.2 (fun v => ?_)⟩
  rw [← hDE v, seteq'_iff.1 hDS v, hs v]

theorem diff'_eq_nil_iff {A B : List Name} : diff' A B = [] ↔ ∀ a ∈ A, a ∈ B := by
  simp [diff', List.filter_eq_nil_iff]

theorem diff'_eq_nil_congr {A A' B B' : List Name} (ha : SetEq A A') (hb : SetEq B B') :
    diff' A B = [] ↔ diff' A' B' = [] := by
  rw [diff'_eq_nil_iff, diff'_eq_nil_iff]
  constructor
  · intro h a haa; exact (hb a).1 (h a ((ha a).2 haa))
  · intro h a haa; exact (hb a).2 (h a ((ha a).1 haa))

theorem setEq_diff' {A A' B B' : List Name} (ha : SetEq A A') (hb : SetEq B B') : SetEq (diff' A B) (diff' A' B') :=
  fun v => by rw [mem_diff', mem_diff', ha v, hb v]

theorem setEq_inter' {A A' B B' : List Name} (ha : SetEq A A') (hb : SetEq B B') : SetEq (inter' A B) (inter' A' B') :=
  fun v => by rw [mem_inter', mem_inter', ha v, hb v]

theorem setEq_union' {A A' B B' : List Name} (ha : SetEq A A') (hb : SetEq B B') : SetEq (union' A B) (union' A' B') :=
  fun v => by rw [mem_union', mem_union', ha v, hb v]

theorem setEq_nil_iff {A B : List Name} (h : SetEq A B) : A = [] ↔ B = [] := by
  constructor
  · intro ha
    by_contra hb
    obtain ⟨v, hv⟩ := List.exists_mem_of_ne_nil _ hb
    have := (h v).2 hv
    rw [ha] at this
    cases this
  · intro hb
    by_contra ha
    obtain ⟨v, hv⟩ := List.exists_mem_of_ne_nil _ ha
    have := (h v).1 hv
    rw [hb] at this
    cases this

/-! ### the relation carried through the recursion -/

/-- same graph up to `__eq__`, same treatment set, same outcome set (the carried estimands may differ) -/
structure Sim (I J : IdIn) : Prop where
  g : GSim I.G J.G
  x : SetEq I.X J.X
  y : SetEq I.Y J.Y

theorem Sim.symm {I J : IdIn} (h : Sim I J) : Sim J I := ⟨h.g.symm, h.x.symm, h.y.symm⟩

/-! ### which line fires: introduction rules for `step` (converse of `step_ok`) -/

section intro
variable {topo : MG Name → Except Err (List Name)} {I : IdIn}

theorem step_l1 (h : I.X = []) : step topo I = .ok (.done (sumSafe I.est (diff' I.G.nodes I.Y))) := by
  simp [step, h]

theorem step_l2 {anc : List Name} (hX : I.X ≠ []) (ha : I.G.ancestorsInclusive I.Y = .ok anc)
    (hd : diff' I.G.nodes anc ≠ []) : step topo I = .ok (.tail (line2 I anc)) := by
  unfold step
  simp [hX, ha, hd]

theorem step_l3 {anc anc' : List Name} (hX : I.X ≠ []) (ha : I.G.ancestorsInclusive I.Y = .ok anc)
    (hd : diff' I.G.nodes anc = []) (ha' : (I.G.removeInEdges I.X).ancestorsInclusive I.Y = .ok anc')
    (hn : diff' (diff' I.G.nodes I.X) anc' ≠ []) :
    step topo I = .ok (.tail (line3 I (diff' (diff' I.G.nodes I.X) anc'))) := by
  unfold step
  simp [hX, ha, hd, ha', hn]

theorem step_pre {anc anc' : List Name} (hp : Pre I anc anc') : step topo I = stepB topo I := by
  unfold step
  simp [hp.hX, hp.hanc, hp.hall, hp.hanc', hp.hno]

theorem isConnected_eq {G : MG Name} (hne : G.nodes ≠ []) : G.isConnected = .ok (G.districts.length == 1) := by
  unfold MG.isConnected
  simp [hne]

theorem stepB_l4 (hne : (I.G.removeNodes I.X).nodes ≠ []) (hlen : (I.G.removeNodes I.X).districts.length ≠ 1) :
    stepB topo I = .ok (line4 I (I.G.removeNodes I.X).districts) := by
  unfold stepB
  simp only [isConnected_eq hne]
  have : ((I.G.removeNodes I.X).districts.length == 1) = false := by simpa using hlen
  rw [this]

theorem stepB_l67 {S : List Name} (hne : (I.G.removeNodes I.X).nodes ≠ []) (hne2 : I.G.nodes ≠ [])
    (hS : (I.G.removeNodes I.X).districts = [S]) (hlen2 : I.G.districts.length ≠ 1) :
    stepB topo I = if I.G.districts.any (fun D => seteq' D S) then line6 topo I S else line7 topo I S := by
  unfold stepB
  simp only [isConnected_eq hne, isConnected_eq hne2]
  have h1 : ((I.G.removeNodes I.X).districts.length == 1) = true := by simp [hS]
  have h2 : (I.G.districts.length == 1) = false := by simpa using hlen2
  have h3 : getSingleDistrict (I.G.removeNodes I.X) = .ok S := by unfold getSingleDistrict; rw [hS]
  rw [h1, h2]
  simp only [h3]

end intro

/-! ### success of `idAlg` through one step -/

/-- the run returned an estimand -/
def OkRes (r : Except Err Expr) : Prop := ∃ e, r = .ok e

theorem okRes_iff_isOk (r : Except Err Expr) : OkRes r ↔ r.isOk = true := by
  cases r with
  | ok e => simp [OkRes, Except.isOk, Except.toBool]
  | error e => simp [OkRes, Except.isOk, Except.toBool]

theorem mapM_ok_mem {α β ε : Type} (f : α → Except ε β) (l : List α) (r : List β) (h : l.mapM f = .ok r) :
    ∀ a ∈ l, ∃ b, f a = .ok b := by
  have hF := (mapM_ok_iff f l r).1 h
  clear h
  induction hF with
  | nil => intro a ha; cases ha
  | cons hab _ ih =>
    intro a ha
    rcases List.mem_cons.1 ha with rfl | ha
    · exact ⟨_, hab⟩
    · exact ih a ha

section ok
variable {topo : MG Name → Except Err (List Name)} {I : IdIn}

theorem ok_of_step_done {e : Expr} (h : step topo I = .ok (.done e)) : OkRes (idAlg topo I) := by
  rw [idAlg_eq, h]; exact ⟨e, rfl⟩

theorem ok_tail_iff (hv : Valid I) {J : IdIn} (h : step topo I = .ok (.tail J)) :
    OkRes (idAlg topo I) ↔ OkRes (idAlg topo J) := by
  have hg : Valid J ∧ measureLt J.measure I.measure = true := step_good hv h
  rw [idAlg_eq topo I, h]
  simp only [hg.2, if_true]

theorem ok_split_iff (hv : Valid I) {Js : List IdIn} {r : List Name} (h : step topo I = .ok (.split Js r)) :
    OkRes (idAlg topo I) ↔ ∀ J ∈ Js, OkRes (idAlg topo J) := by
  have hg : ∀ J ∈ Js, Valid J ∧ measureLt J.measure I.measure = true := step_good hv h
  have hall : Js.all (fun J => measureLt J.measure I.measure) = true :=
    List.all_eq_true.mpr (fun J hJ => (hg J hJ).2)
  rw [idAlg_eq topo I, h]
  simp only [hall, if_true]
  constructor
  · rintro ⟨e, he⟩ J hJ
    cases hm : Js.mapM (idAlg topo) with
    | error err => rw [hm] at he; cases he
    | ok es => exact mapM_ok_mem _ _ _ hm J hJ
  · intro hall'
    obtain ⟨es, hes⟩ := mapM_ok_of_forall (idAlg topo) Js hall'
    rw [hes]
    exact ⟨_, rfl⟩

end ok

/-! ### lines 1–3 do not fire: transported along `Sim` -/

theorem pre_congr {I J : IdIn} (hs : Sim I J) (hvI : Valid I) (hvJ : Valid J) {anc anc' : List Name}
    (hp : Pre I anc anc') : ∃ ancJ ancJ', Pre J ancJ ancJ' := by
  obtain ⟨ancJ, hancJ⟩ := ancestorsInclusive_total J.G J.Y hvJ.ysub
  obtain ⟨ancJ', hancJ'⟩ := ancestorsInclusive_total (J.G.removeInEdges J.X) J.Y
    (fun y hy => (mem_nodes_removeInEdges J.G hvJ.wf J.X y).mpr (hvJ.ysub y hy))
  have hA : SetEq anc ancJ := hs.g.ancestors hvI.wf hvJ.wf hs.y hp.hanc hancJ
  have hA' : SetEq anc' ancJ' :=
    (hs.g.removeInEdges hvI.wf hvJ.wf hs.x).ancestors (wf_removeInEdges _ _) (wf_removeInEdges _ _) hs.y
      hp.hanc' hancJ'
  refine ⟨ancJ, ancJ', ⟨?_, hancJ, ?_, hancJ', ?_⟩⟩
  · exact fun h => hp.hX ((setEq_nil_iff hs.x).2 h)
  · exact (diff'_eq_nil_congr hs.g.nodes hA).1 hp.hall
  · exact (diff'_eq_nil_congr (setEq_diff' hs.g.nodes hs.x) hA').1 hp.hno

/-- the single district of `G ∖ X` is the same set on both sides -/
theorem single_gx_congr {I J : IdIn} (hs : Sim I J) (hvI : Valid I) (hvJ : Valid J) {S T : List Name}
    (hS : (I.G.removeNodes I.X).districts = [S]) (hT : (J.G.removeNodes J.X).districts = [T]) : SetEq S T :=
  fun v => by rw [single_gx hvI hS, single_gx hvJ hT, hs.g.nodes, hs.x v]

/-! ### the main induction -/

theorem idAlg_ok_congr {t1 t2 : MG Name → Except Err (List Name)} (ht2 : TopoGood t2) :
    ∀ I, Valid I → ∀ J, Valid J → Sim I J → OkRes (idAlg t1 I) → OkRes (idAlg t2 J) := by
  intro I
  induction I using measure_wf.induction with
  | _ I ih =>
    intro hvI J hvJ hs hok
    cases hstep : step t1 I with
    | error e =>
      rw [idAlg_eq, hstep] at hok
      obtain ⟨_, h⟩ := hok
      cases h
    | ok s =>
      have hgxI := hs.g.removeNodes hvI.wf hvJ.wf hs.x
      have wI := IdAux.wf_removeNodes I.G I.X
      have wJ := IdAux.wf_removeNodes J.G J.X
      cases hc : step_ok hstep with
      | l1 hX =>
        exact ok_of_step_done (step_l1 ((setEq_nil_iff hs.x).1 hX))
      | l2 anc hX hanc hd =>
        obtain ⟨ancJ, hancJ⟩ := ancestorsInclusive_total J.G J.Y hvJ.ysub
        have hA : SetEq anc ancJ := hs.g.ancestors hvI.wf hvJ.wf hs.y hanc hancJ
        have hXJ : J.X ≠ [] := fun h => hX ((setEq_nil_iff hs.x).2 h)
        have hdJ : diff' J.G.nodes ancJ ≠ [] := fun h => hd ((diff'_eq_nil_congr hs.g.nodes hA).2 h)
        have hstepJ := step_l2 (topo := t2) hXJ hancJ hdJ
        have hg : Valid (line2 I anc) ∧ measureLt (line2 I anc).measure I.measure = true := step_good hvI hstep
        have hgJ : Valid (line2 J ancJ) ∧ measureLt (line2 J ancJ).measure J.measure = true :=
          step_good hvJ hstepJ
        rw [ok_tail_iff hvJ hstepJ]
        rw [ok_tail_iff hvI hstep] at hok
        exact ih (line2 I anc) hg.2 hg.1 (line2 J ancJ) hgJ.1
          ⟨hs.g.subgraph hA, setEq_inter' hs.x hA, hs.y⟩ hok
      | l3 anc anc' hX hanc hd hanc' hn =>
        obtain ⟨ancJ, hancJ⟩ := ancestorsInclusive_total J.G J.Y hvJ.ysub
        obtain ⟨ancJ', hancJ'⟩ := ancestorsInclusive_total (J.G.removeInEdges J.X) J.Y
          (fun y hy => (mem_nodes_removeInEdges J.G hvJ.wf J.X y).mpr (hvJ.ysub y hy))
        have hA : SetEq anc ancJ := hs.g.ancestors hvI.wf hvJ.wf hs.y hanc hancJ
        have hA' : SetEq anc' ancJ' :=
          (hs.g.removeInEdges hvI.wf hvJ.wf hs.x).ancestors (wf_removeInEdges _ _) (wf_removeInEdges _ _) hs.y
            hanc' hancJ'
        have hXJ : J.X ≠ [] := fun h => hX ((setEq_nil_iff hs.x).2 h)
        have hdJ : diff' J.G.nodes ancJ = [] := (diff'_eq_nil_congr hs.g.nodes hA).1 hd
        have hE := setEq_diff' (setEq_diff' hs.g.nodes hs.x) hA'
        have hnJ : diff' (diff' J.G.nodes J.X) ancJ' ≠ [] := fun h => hn ((setEq_nil_iff hE).2 h)
        have hstepJ := step_l3 (topo := t2) hXJ hancJ hdJ hancJ' hnJ
        have hg : Valid (line3 I (diff' (diff' I.G.nodes I.X) anc')) ∧
            measureLt (line3 I (diff' (diff' I.G.nodes I.X) anc')).measure I.measure = true := step_good hvI hstep
        have hgJ : Valid (line3 J (diff' (diff' J.G.nodes J.X) ancJ')) ∧
            measureLt (line3 J (diff' (diff' J.G.nodes J.X) ancJ')).measure J.measure = true :=
          step_good hvJ hstepJ
        rw [ok_tail_iff hvJ hstepJ]
        rw [ok_tail_iff hvI hstep] at hok
        exact ih _ hg.2 hg.1 _ hgJ.1 ⟨hs.g, setEq_union' hs.x hE, hs.y⟩ hok
      | l4 anc anc' hpre hne hlen =>
        obtain ⟨ancJ, ancJ', hpreJ⟩ := pre_congr hs hvI hvJ hpre
        have hlenJ : (J.G.removeNodes J.X).districts.length ≠ 1 := fun h => hlen ((hgxI.single wI wJ).2 h)
        have hstepJ : step t2 J = .ok (line4 J (J.G.removeNodes J.X).districts) := by
          rw [step_pre hpreJ, stepB_l4 (valid_gx_ne hvJ) hlenJ]
        unfold line4 at hstep hstepJ
        have hg : ∀ K ∈ _, Valid K ∧ measureLt K.measure I.measure = true := step_good hvI hstep
        have hgJ : ∀ K ∈ _, Valid K ∧ measureLt K.measure J.measure = true := step_good hvJ hstepJ
        rw [ok_split_iff hvJ hstepJ]
        rw [ok_split_iff hvI hstep] at hok
        intro K hK
        obtain ⟨T, hT, rfl⟩ := List.mem_map.1 hK
        obtain ⟨S, hS, hTS⟩ := hgxI.symm.district_match wJ wI hT
        have hmem : ({ G := I.G, X := diff' I.G.nodes S, Y := S, est := I.est } : IdIn) ∈
            (I.G.removeNodes I.X).districts.map
              (fun S => ({ G := I.G, X := diff' I.G.nodes S, Y := S, est := I.est } : IdIn)) :=
          List.mem_map.2 ⟨S, hS, rfl⟩
        exact ih _ (hg _ hmem).2 (hg _ hmem).1 _ (hgJ _ hK).1
          ⟨hs.g, setEq_diff' hs.g.nodes hTS.symm, hTS.symm⟩ (hok _ hmem)
      | l6 anc anc' S D order fs hpre hne hne2 hS hlen2 hD hDS ho hf =>
        obtain ⟨ancJ, ancJ', hpreJ⟩ := pre_congr hs hvI hvJ hpre
        have hlenJ : (J.G.removeNodes J.X).districts.length = 1 := (hgxI.single wI wJ).1 (by rw [hS]; rfl)
        obtain ⟨T, hT⟩ : ∃ T, (J.G.removeNodes J.X).districts = [T] := by
          match hd : (J.G.removeNodes J.X).districts, hlenJ with
          | [T], _ => exact ⟨T, rfl⟩
        have hST := single_gx_congr hs hvI hvJ hS hT
        have hlen2J : J.G.districts.length ≠ 1 := fun h => hlen2 ((hs.g.single hvI.wf hvJ.wf).2 h)
        have hany : J.G.districts.any (fun D => seteq' D T) = true :=
          any_seteq_congr hs.g hvI.wf hvJ.wf hST (List.any_eq_true.mpr ⟨D, hD, hDS⟩)
        obtain ⟨sJ, hsJ⟩ := line6_total hvJ ht2 (S := T) (fun v hvT => ((single_gx hvJ hT v).mp hvT).1)
        obtain ⟨order', fs', _, _, rfl⟩ := line6_ok hsJ
        have hstepJ : step t2 J = .ok (.done (sumSafe (productSafe fs') (diff' T J.Y))) := by
          rw [step_pre hpreJ, stepB_l67 (valid_gx_ne hvJ) (valid_nodes_ne hvJ) hT hlen2J, hany]
          exact hsJ
        exact ok_of_step_done hstepJ
      | l7 anc anc' S D order fs hpre hne hne2 hS hlen2 hnot hfind ho hf =>
        obtain ⟨ancJ, ancJ', hpreJ⟩ := pre_congr hs hvI hvJ hpre
        have hlenJ : (J.G.removeNodes J.X).districts.length = 1 := (hgxI.single wI wJ).1 (by rw [hS]; rfl)
        obtain ⟨T, hT⟩ : ∃ T, (J.G.removeNodes J.X).districts = [T] := by
          match hd : (J.G.removeNodes J.X).districts, hlenJ with
          | [T], _ => exact ⟨T, rfl⟩
        have hST := single_gx_congr hs hvI hvJ hS hT
        have hlen2J : J.G.districts.length ≠ 1 := fun h => hlen2 ((hs.g.single hvI.wf hvJ.wf).2 h)
        have hnotJ : ∀ D' ∈ J.G.districts, seteq' D' T = false := by
          intro D' hD'
          cases hq : seteq' D' T with
          | false => rfl
          | true =>
            have := any_seteq_congr hs.g.symm hvJ.wf hvI.wf hST.symm (List.any_eq_true.mpr ⟨D', hD', hq⟩)
            obtain ⟨D'', hD'', hq''⟩ := List.any_eq_true.mp this
            rw [hnot D'' hD''] at hq''
            cases hq''
        have hanyJ : J.G.districts.any (fun D => seteq' D T) = false := by
          cases hq : J.G.districts.any (fun D => seteq' D T) with
          | false => rfl
          | true =>
            obtain ⟨D', hD', hq'⟩ := List.any_eq_true.mp hq
            rw [hnotJ D' hD'] at hq'
            cases hq'
        obtain ⟨sJ, hsJ⟩ := line7_total hvJ ht2 hT hnotJ
        obtain ⟨D', order', fs', hfind', _, _, rfl⟩ := line7_ok hsJ
        have hstepJ : step t2 J =
            .ok (.tail { G := J.G.subgraph D', X := inter' J.X D', Y := J.Y, est := productSafe fs' }) := by
          rw [step_pre hpreJ, stepB_l67 (valid_gx_ne hvJ) (valid_nodes_ne hvJ) hT hlen2J, hanyJ]
          exact hsJ
        -- the two districts have the same members: both contain the single district of `G ∖ X`
        have hDm : D ∈ I.G.districts := List.mem_of_find?_eq_some hfind
        have hDm' : D' ∈ J.G.districts := List.mem_of_find?_eq_some hfind'
        have hSD : ∀ v ∈ S, v ∈ D := by
          have := List.find?_some hfind
          simp only [properSubset, Bool.and_eq_true] at this
          exact subset'_iff.mp this.1
        have hTD : ∀ v ∈ T, v ∈ D' := by
          have := List.find?_some hfind'
          simp only [properSubset, Bool.and_eq_true] at this
          exact subset'_iff.mp this.1
        have hSm : S ∈ (I.G.removeNodes I.X).districts := by rw [hS]; simp
        obtain ⟨s, hsS⟩ := List.exists_mem_of_ne_nil _ (districts_nonempty _ wI S hSm)
        have hDD : SetEq D D' :=
          hs.g.district_ext hvI.wf hvJ.wf hDm hDm' (hSD s hsS) (hTD s ((hST s).1 hsS))
        have hg : Valid _ ∧ measureLt _ I.measure = true := step_good hvI hstep
        have hgJ : Valid _ ∧ measureLt _ J.measure = true := step_good hvJ hstepJ
        rw [ok_tail_iff hvJ hstepJ]
        rw [ok_tail_iff hvI hstep] at hok
        exact ih _ hg.2 hg.1 _ hgJ.1 ⟨hs.g.subgraph hDD, setEq_inter' hs.x hDD, hs.y⟩ hok

/-- **the verdict of the ID recursion is a function of the graph up to `__eq__` and of the sets `X`, `Y`**:
not of insertion orders, the carried estimand, or the topological orders networkx returns -/
theorem idAlg_isOk_congr {t1 t2 : MG Name → Except Err (List Name)} (ht1 : TopoGood t1) (ht2 : TopoGood t2)
    {I J : IdIn} (hvI : Valid I) (hvJ : Valid J) (hs : Sim I J) :
    (idAlg t1 I).isOk = (idAlg t2 J).isOk := by
  have h1 := idAlg_ok_congr (t1 := t1) ht2 I hvI J hvJ hs
  have h2 := idAlg_ok_congr (t1 := t2) ht1 J hvJ I hvI hs.symm
  rw [okRes_iff_isOk, okRes_iff_isOk] at h1 h2
  cases ha : (idAlg t1 I).isOk <;> cases hb : (idAlg t2 J).isOk <;> simp_all

/-! ### the public entry point -/

theorem identify_eq_idAlg (topo : MG Name → Except Err (List Name)) {G : MG Name} {X Y : List Name}
    (hq : ValidQuery G X Y) :
    ∃ est, EstPlain est ∧ identify topo G X Y = idAlg topo { G := G, X := X, Y := Y, est := est } := by
  have hne : G.nodes ≠ [] := by
    obtain ⟨y, hy⟩ := List.exists_mem_of_ne_nil _ hq.yne
    exact List.ne_nil_of_mem (hq.ysub y hy)
  have hj : ∃ c, pJoint G.nodes = .ok (.prob none c []) := by
    unfold pJoint
    cases hs : sortNames G.nodes with
    | nil => exact absurd hs (sortNames_ne_nil hne)
    | cons a l => exact ⟨_, rfl⟩
  obtain ⟨c, hc⟩ := hj
  refine ⟨.prob none c [], trivial, ?_⟩
  unfold identify
  rw [hc]
  rfl

theorem validQuery_congr {G H : MG Name} {X X' Y Y' : List Name} (hq : ValidQuery G X Y) (hH : H.WF)
    (hg : GSim G H) (hx : SetEq X X') (hy : SetEq Y Y') : ValidQuery H X' Y' := by
  obtain ⟨rank, hr⟩ := hq.ranked
  refine ⟨hH, ⟨rank, fun e he => hr e ((hg.di e.1 e.2).2 he)⟩, ?_, ?_, ?_⟩
  · intro y hy'; exact (hg.nodes y).1 (hq.ysub y ((hy y).2 hy'))
  · exact fun h => hq.yne ((setEq_nil_iff hy).2 h)
  · intro y hy' hxx; exact hq.disj y ((hy y).2 hy') ((hx y).2 hxx)

/-- `identify` returns an estimand on `(G, X, Y)` iff it does on `(H, X', Y')` whenever `G == H` and the
queries are the same sets — for every pair of admissible topological sorters -/
theorem identify_isOk_congr {t1 t2 : MG Name → Except Err (List Name)} (ht1 : TopoGood t1) (ht2 : TopoGood t2)
    {G H : MG Name} {X X' Y Y' : List Name} (hq : ValidQuery G X Y) (hH : H.WF) (hg : GSim G H)
    (hx : SetEq X X') (hy : SetEq Y Y') :
    (identify t1 G X Y).isOk = (identify t2 H X' Y').isOk := by
  have hq' := validQuery_congr hq hH hg hx hy
  obtain ⟨e1, hp1, h1⟩ := identify_eq_idAlg t1 hq
  obtain ⟨e2, hp2, h2⟩ := identify_eq_idAlg t2 hq'
  rw [h1, h2]
  exact idAlg_isOk_congr ht1 ht2 ⟨hq.wf, hq.ranked, hq.ysub, hq.yne, hq.disj, hp1⟩
    ⟨hq'.wf, hq'.ranked, hq'.ysub, hq'.yne, hq'.disj, hp2⟩ ⟨hg, hx, hy⟩

end Y0.IdCongr
