/-
  Y0.Lemmas.IdSoundB — the invariant of the ID recursion and the meaning of the conditionals built by `p_parents`:
  their product over a district `D` of the current graph is the c-factor `Q[D]` (Tian–Pearl Lemma 4 via `Q_ratio`).
-/
import Y0.Lemmas.IdSoundA

namespace Y0
open IdDsl IdAux MG

/-- **the invariant of the recursion**: the carried estimand denotes the c-factor `Q[V_cur]` of the ORIGINAL model
`M` (compatible with the user's graph `G0`), the current graph is an induced sub-graph of `G0`, and whenever the
estimand is syntactically a marginal of the joint, the marginals of the joint over subsets of `V_cur` are the
marginals of `Q[V_cur]` -/
structure SInv (M : Scm) (G0 : MG Name) (σ' : Val) (I : IdIn) : Prop where
  valid : Valid I
  sub : Sub G0 I.G
  est : ∀ σ, den (M.env G0) σ' I.est σ = M.Q I.G.nodes σ
  marg : isObsMarginal I.est = true → ∀ S : List Name, S.Nodup → (∀ v ∈ S, v ∈ I.G.nodes) →
    ∀ σ, M.obsMarg G0 S σ = sumVars M.card (I.G.nodes.filter (· ∉ S)) (M.Q I.G.nodes) σ

section
variable {M : Scm} {G0 : MG Name} {σ' : Val} {I : IdIn} {topo : MG Name → Except Err (List Name)}

theorem SInv.est_fun (inv : SInv M G0 σ' I) : den (M.env G0) σ' I.est = M.Q I.G.nodes := funext inv.est

theorem SInv.nodes_G0 (inv : SInv M G0 σ' I) : ∀ v ∈ I.G.nodes, v ∈ G0.nodes := inv.sub.nodes

/-- nodes of different districts of the current graph share no latent -/
theorem district_sep (ctx : SCtx M G0) (inv : SInv M G0 σ' I) {D : List Name} (hD : D ∈ I.G.districts) :
    ∀ v ∈ D, ∀ w ∈ I.G.nodes, w ∉ D → ∀ u, u ∈ M.latOf v → u ∉ M.latOf w := by
  intro v hv w hw hwD u hu1 hu2
  have hvV := mem_nodes_of_mem_district inv.valid.wf hD hv
  have hne : v ≠ w := fun e => hwD (e ▸ hv)
  have hbi := ctx.hM.compat v (inv.sub.nodes v hvV) w (inv.sub.nodes w hw) hne ⟨u, hu1, hu2⟩
  have hbi' : I.G.BiEdge v w := inv.sub.bi v w hvV hw ((hasBi_iff G0 v w).mp hbi)
  exact hwD ((districts_spec I.G inv.valid.wf D hD v hv w).mpr (.single hbi'))

/-- the conditional `p_parents` builds for `v` denotes `Σ_{>v} Q[order] / Σ_{≥v} Q[order]` -/
theorem den_pParents (ctx : SCtx M G0) (ts : TopoSound topo) (inv : SInv M G0 σ' I) {order : List Name}
    (ho : topo I.G = .ok order) {v : Name} {f : Expr} (hf : pParents order I.est v = .ok f)
    {l1 l2 : List Name} (hsplit : order = l1 ++ v :: l2) (σ : Val) :
    den (M.env G0) σ' f σ = sumVars M.card l2 (M.Q order) σ / sumVars M.card (v :: l2) (M.Q order) σ := by
  have hnd := ts.nodup _ _ ho
  have hmem := ts.nodes _ _ ho
  have hnd' : (l1 ++ v :: l2).Nodup := hsplit ▸ hnd
  have hvl1 : v ∉ l1 := fun h => by
    have := (List.nodup_append.mp hnd').2.2 v h v List.mem_cons_self
    exact this rfl
  have hvl2 : v ∉ l2 := (List.nodup_cons.mp (List.nodup_append.mp hnd').2.1).1
  have hl2nd : l2.Nodup := (List.nodup_cons.mp (List.nodup_append.mp hnd').2.1).2
  have hl1l2 : ∀ x ∈ l1, x ∉ l2 := fun x hx hx2 =>
    (List.nodup_append.mp hnd').2.2 x hx x (List.mem_cons_of_mem _ hx2) rfl
  have hord : ∀ x, x ∈ order ↔ x ∈ l1 ∨ x = v ∨ x ∈ l2 := by
    intro x; rw [hsplit]; simp
  have hQ : M.Q I.G.nodes = M.Q order := M.Q_congr_set inv.valid.wf.nodup hnd (fun x => (hmem x).symm)
  obtain ⟨hs1, hs2, hs3⟩ := order_split hsplit hvl1
  obtain ⟨_, i, hi, hcase | hcase⟩ := pParents_ok hf
  · -- the estimand is a marginal of the joint: `P(v | predecessors)`
    subst hi
    rw [hcase.2, hs1, den_pCond ctx.hM ctx.hG0 ctx.hrank]
    have hS1 : (v :: sortNames l1).Nodup :=
      List.nodup_cons.mpr ⟨fun h => hvl1 (mem_sortNames.mp h), sortNames_nodup l1⟩
    have hsubV : ∀ x ∈ l1, x ∈ I.G.nodes := fun x hx => (hmem x).mp ((hord x).mpr (Or.inl hx))
    have hvV : v ∈ I.G.nodes := (hmem v).mp ((hord v).mpr (Or.inr (Or.inl rfl)))
    rw [inv.marg hcase.1 _ hS1 (by
          intro x hx
          rcases List.mem_cons.mp hx with rfl | hx
          · exact hvV
          · exact hsubV x (mem_sortNames.mp hx)),
        inv.marg hcase.1 _ (sortNames_nodup l1) (fun x hx => hsubV x (mem_sortNames.mp hx)), hQ]
    congr 1
    · apply congrFun
      apply sumVars_congr_set M.card (inv.valid.wf.nodup.filter _) hl2nd
      intro x
      simp only [List.mem_filter, List.mem_cons, mem_sortNames, decide_eq_true_eq, not_or, ← hmem x, hord x]
      constructor
      · rintro ⟨h | h | h, h1, h2⟩
        · exact absurd h h2
        · exact absurd h h1
        · exact h
      · intro h
        exact ⟨Or.inr (Or.inr h), fun e => hvl2 (e ▸ h), fun h1 => hl1l2 x h1 h⟩
    · apply congrFun
      apply sumVars_congr_set M.card (inv.valid.wf.nodup.filter _) (List.nodup_cons.mpr ⟨hvl2, hl2nd⟩)
      intro x
      simp only [List.mem_filter, List.mem_cons, mem_sortNames, decide_eq_true_eq, ← hmem x, hord x]
      constructor
      · rintro ⟨h | h | h, h2⟩
        · exact absurd h h2
        · exact Or.inl h
        · exact Or.inr h
      · rintro (h | h)
        · exact ⟨Or.inr (Or.inl h), fun h1 => hvl1 (h ▸ h1)⟩
        · exact ⟨Or.inr (Or.inr h), fun h1 => hl1l2 x h1 h⟩
  · -- general case: ratio of two marginals of the carried estimand
    subst hi
    rw [den_div _ _ _ _ _ hcase.2, den_sumSafe, den_sumSafe, hs2, hs3, inv.est_fun, hQ]
    congr 1
    · exact congrFun (sumVars_sortNames M.card hl2nd (fun _ => Iff.rfl) _) σ
    · exact congrFun (sumVars_sortNames M.card (List.nodup_cons.mpr ⟨hvl2, hl2nd⟩) (fun _ => Iff.rfl) _) σ

/-- Tian–Pearl Lemma 4 for the model: the conditionals `p_parents` builds for the members of a part `D` of the
current graph that shares no latent with the rest multiply to `Q[D]` -/
theorem prod_pParents (ctx : SCtx M G0) (ts : TopoSound topo) (inv : SInv M G0 σ' I) {order : List Name}
    (ho : topo I.G = .ok order) (D : List Name) (hDnd : D.Nodup) (hDV : ∀ v ∈ D, v ∈ I.G.nodes)
    (hsep : ∀ v ∈ D, ∀ w ∈ I.G.nodes, w ∉ D → ∀ u, u ∈ M.latOf v → u ∉ M.latOf w)
    {fs : List Expr} (hfs : D.mapM (pParents order I.est) = .ok fs) (σ : Val) :
    (fs.map (den (M.env G0) σ' · σ)).prod = M.Q D σ := by
  have hnd := ts.nodup _ _ ho
  have hmem := ts.nodes _ _ ho
  let idx : Name → Nat := fun v => (order.takeWhile (· ≠ v)).length
  let R : Name → Rat := fun v =>
    sumVars M.card (order.drop (idx v + 1)) (M.Q order) σ / sumVars M.card (order.drop (idx v)) (M.Q order) σ
  have hsplitR : ∀ l1 v l2, order = l1 ++ v :: l2 →
      R v = sumVars M.card l2 (M.Q order) σ / sumVars M.card (v :: l2) (M.Q order) σ := by
    intro l1 v l2 h
    have hvl1 : v ∉ l1 := fun hc => by
      have := (List.nodup_append.mp (h ▸ hnd)).2.2 v hc v List.mem_cons_self
      exact this rfl
    obtain ⟨_, hs2, hs3⟩ := order_split h hvl1
    show sumVars M.card (order.drop (idx v + 1)) (M.Q order) σ /
      sumVars M.card (order.drop (idx v)) (M.Q order) σ = _
    rw [show order.drop (idx v + 1) = l2 from hs3, show order.drop (idx v) = v :: l2 from hs2]
  have hmap : ∀ (D' : List Name) (fs' : List Expr),
      List.Forall₂ (fun a b => pParents order I.est a = .ok b) D' fs' →
      fs'.map (den (M.env G0) σ' · σ) = D'.map R := by
    intro D' fs' hF
    induction hF with
    | nil => rfl
    | cons h1 _ ih =>
      rename_i v f _ _ _
      simp only [List.map_cons]
      have hv : v ∈ order := (pParents_ok h1).1
      obtain ⟨l1, l2, hl, _⟩ := exists_split_at hv
      rw [den_pParents ctx ts inv ho h1 hl σ, hsplitR l1 v l2 hl, ih]
  rw [hmap D fs ((mapM_ok_iff _ _ _).mp hfs)]
  apply Scm.Q_ratio_list ctx.hM ctx.hG0 ctx.hrank order hnd
    (fun v hv => inv.sub.nodes v ((hmem v).mp hv))
  · intro l1 l2 h a ha r hr hpa
    have haV : a ∈ I.G.nodes := (hmem a).mp (h ▸ List.mem_append_left _ ha)
    have hrV : r ∈ I.G.nodes := (hmem r).mp (h ▸ List.mem_append_right _ hr)
    exact ts.order _ _ ho l1 l2 h a ha r hr (inv.sub.di r a hrV haV (MG.mem_parents.mp hpa))
  · exact hDnd
  · exact fun v hv => (hmem v).mpr (hDV v hv)
  · exact fun v hv w hw hwD => hsep v hv w ((hmem w).mp hw) hwD
  · exact hsplitR

end
end Y0
