/-
  Y0.Lemmas.CfIdcSep — what a positive verdict of `cf_rule_2_of_do_calculus_applies` says about the user's graph `G` when the
  query is factual (the counterfactual graph is then the ancestral part of a relabelled copy of `G`, nothing is blocked):

    no variable reaches both an outcome and the condition `X` by directed paths on which no edge leaves `X`, and no
    bidirected edge joins a variable that so reaches an outcome to a variable that so reaches `X`

  — the graphical premise of `Fscm.prob_exchange_marginal` (rule 2 with an empty conditioning set).
-/
import Y0.Lemmas.CfIdcFrag
import Y0.Lemmas.CfIdcDsep

namespace Y0.Cf
open Relation MG

/-- a directed edge of `G` that does not leave `x` -/
def AvoidStep (G : MG Name) (x : Name) (a b : Name) : Prop := (a, b) ∈ G.di ∧ a ≠ x

theorem allSeparated_true (g : MG Var) (c : Var) (bl : List Var) : ∀ (os : List Var), allSeparated g c bl os = .ok true →
    ∀ o ∈ os, g.dSeparated o c (bl.filter (fun n => n ≠ o && n ≠ c)) = .ok true
  | [], _, o, ho => by cases ho
  | a :: os, h, o, ho => by
    unfold allSeparated at h
    simp only [bind, Except.bind, pure, Except.pure] at h
    cases hd : g.dSeparated a c (bl.filter (fun n => n ≠ a && n ≠ c)) with
    | error e => rw [hd] at h; cases h
    | ok s =>
      rw [hd] at h
      cases s with
      | false => simp at h
      | true =>
        simp only [if_true] at h
        rcases List.mem_cons.1 ho with rfl | ho
        · exact hd
        · exact allSeparated_true g c bl os h o ho

theorem firstExchangeable_single (cf : MG Var) (os : List Var) (c c' : Var)
    (h : firstExchangeable cf os [c] = .ok (some c')) : c' = c ∧ rule2Applies cf os c [] = .ok true := by
  unfold firstExchangeable firstExchangeableIn at h
  have hnil : [c].filter (fun k => decide (k ≠ c)) = [] := by simp
  rw [hnil] at h
  simp only [bind, Except.bind, pure, Except.pure] at h
  cases hr : rule2Applies cf os c [] with
  | error e => rw [hr] at h; cases h
  | ok b =>
    rw [hr] at h
    cases b with
    | true =>
      simp only [if_true, Except.ok.injEq, Option.some.injEq] at h
      exact ⟨h.symm, rfl⟩
    | false =>
      simp only [Bool.false_eq_true, if_false, firstExchangeableIn] at h
      cases h

theorem plain_inj {a b : Name} (h : Var.plain a = Var.plain b) : a = b := by
  have := congrArg Var.name h
  exact this

/-- a directed path of `G` is a directed path of the relabelled copy -/
theorem plain_path_of_path (G : MG Name) (keys : List Var) {v t : Name}
    (h : ReflTransGen (fun a b => (a, b) ∈ G.di) v t) :
    ReflTransGen (keys.foldl MG.addNode (cfInit G [])).DiEdge (Var.plain v) (Var.plain t) := by
  induction h with
  | refl => exact .refl
  | tail _ hbc ih =>
    refine ih.tail ?_
    unfold MG.DiEdge
    rw [di_foldl_addNode]
    exact (mem_di_cfInit G [] _ _).2 (Or.inl ⟨(_, _), hbc, rfl, rfl⟩)

/-- … and, when it ends in a key, of the counterfactual graph (the ancestral part of the copy) -/
theorem cf_path_of_path (G : MG Name) (keys anc : List Var)
    (hanc : (keys.foldl MG.addNode (cfInit G [])).ancestorsInclusive keys = .ok anc) {v t : Name} (ht : Var.plain t ∈ keys)
    (h : ReflTransGen (fun a b => (a, b) ∈ G.di) v t) :
    ReflTransGen ((keys.foldl MG.addNode (cfInit G [])).subgraph anc).DiEdge (Var.plain v) (Var.plain t) := by
  have hKwf : (keys.foldl MG.addNode (cfInit G [])).WF :=
    wf_foldl_addNode _ _ (by unfold cfInit; exact MG.wf_fromEdges _ _ _)
  have spec := ancestorsInclusive_spec _ hKwf keys anc hanc
  induction h using ReflTransGen.head_induction_on with
  | refl => exact .refl
  | head hab hbt ih =>
    rename_i a b
    refine ReflTransGen.head ?_ ih
    rw [diEdge_subgraph]
    refine ⟨?_, (spec _).2 ⟨_, ht, plain_path_of_path G keys (ReflTransGen.head hab hbt)⟩,
      (spec _).2 ⟨_, ht, plain_path_of_path G keys hbt⟩⟩
    unfold MG.DiEdge
    rw [di_foldl_addNode]
    exact (mem_di_cfInit G [] _ _).2 (Or.inl ⟨(_, _), hab, rfl, rfl⟩)

/-- **the separation facts**: the verdict on the counterfactual graph of a factual query, read in `G` -/
theorem sep_facts_of_no_path (G : MG Name) (hG : G.WF) (hbl : ∀ e ∈ G.bi, e.1 ≠ e.2) (keys anc : List Var)
    (hanc : (keys.foldl MG.addNode (cfInit G [])).ancestorsInclusive keys = .ok anc)
    (o x : Name) (ho : Var.plain o ∈ keys) (hx : Var.plain x ∈ keys)
    (hsep : ¬ ReflTransGen ((((keys.foldl MG.addNode (cfInit G [])).subgraph anc).removeOutEdges [Var.plain x]).AncAdj
      (Var.plain o) (Var.plain x)) (Var.plain o) (Var.plain x)) :
    (∀ v, ReflTransGen (AvoidStep G x) v o → ReflTransGen (AvoidStep G x) v x → False) ∧
    (∀ v w, ReflTransGen (AvoidStep G x) v o → ReflTransGen (AvoidStep G x) w x →
      ¬ ((v, w) ∈ G.bi ∨ (w, v) ∈ G.bi)) := by
  set K := keys.foldl MG.addNode (cfInit G []) with hK
  set H := (K.subgraph anc).removeOutEdges [Var.plain x] with hH
  have hKwf : K.WF := wf_foldl_addNode _ _ (by unfold cfInit; exact MG.wf_fromEdges _ _ _)
  have spec := ancestorsInclusive_spec K hKwf keys anc hanc
  have hKdi : ∀ a b, (a, b) ∈ G.di → K.DiEdge (Var.plain a) (Var.plain b) := by
    intro a b hab
    unfold MG.DiEdge
    rw [hK, di_foldl_addNode]
    exact (mem_di_cfInit G [] _ _).2 (Or.inl ⟨(a, b), hab, rfl, rfl⟩)
  have L0 : ∀ t v, ReflTransGen (AvoidStep G x) v t → ReflTransGen K.DiEdge (Var.plain v) (Var.plain t) := by
    intro t v h
    induction h with
    | refl => exact .refl
    | tail _ hbc ih => exact ih.tail (hKdi _ _ hbc.1)
  have L1 : ∀ t, Var.plain t ∈ keys → ∀ v, ReflTransGen (AvoidStep G x) v t →
      ReflTransGen H.DiEdge (Var.plain v) (Var.plain t) := by
    intro t ht v h
    induction h using ReflTransGen.head_induction_on with
    | refl => exact .refl
    | head hab hbt ih =>
      rename_i a b
      refine ReflTransGen.head ?_ ih
      rw [hH, diEdge_removeOutEdges, diEdge_subgraph]
      refine ⟨⟨hKdi _ _ hab.1, (spec _).2 ⟨_, ht, L0 t a (ReflTransGen.head hab hbt)⟩, (spec _).2 ⟨_, ht, L0 t b hbt⟩⟩, ?_⟩
      intro hmem
      exact hab.2 (plain_inj (List.mem_singleton.1 hmem))
  have L2 : ∀ t, (t = Var.plain o ∨ t = Var.plain x) → ∀ u, ReflTransGen H.DiEdge u t →
      ReflTransGen (H.AncAdj (Var.plain o) (Var.plain x)) u t ∧
      ReflTransGen (H.AncAdj (Var.plain o) (Var.plain x)) t u := by
    intro t ht u h
    have htm : t ∈ [Var.plain o, Var.plain x] := by rcases ht with rfl | rfl <;> simp
    induction h using ReflTransGen.head_induction_on with
    | refl => exact ⟨.refl, .refl⟩
    | head hab hbt ih =>
      rename_i a b
      have hPa : H.Anc [Var.plain o, Var.plain x] a := ⟨t, htm, ReflTransGen.head hab hbt⟩
      have hPb : H.Anc [Var.plain o, Var.plain x] b := ⟨t, htm, hbt⟩
      exact ⟨ReflTransGen.head ⟨hPa, hPb, Or.inl hab⟩ ih.1, ih.2.tail ⟨hPb, hPa, Or.inr (Or.inl hab)⟩⟩
  constructor
  · intro v hvo hvx
    apply hsep
    exact (L2 _ (Or.inl rfl) _ (L1 o ho v hvo)).2.trans (L2 _ (Or.inr rfl) _ (L1 x hx v hvx)).1
  · intro v w hvo hwx hbi
    apply hsep
    have hvw : v ≠ w := by
      rcases hbi with h | h
      · exact hbl _ h
      · exact fun e => hbl _ h e.symm
    have hvG : v ∈ G.nodes := by
      rcases hbi with h | h
      · exact (hG.bi_mem _ h).1
      · exact (hG.bi_mem _ h).2
    have hwG : w ∈ G.nodes := by
      rcases hbi with h | h
      · exact (hG.bi_mem _ h).2
      · exact (hG.bi_mem _ h).1
    have hKbi : K.BiEdge (Var.plain v) (Var.plain w) := by
      have := biRep_cfInit_nil G hG hbl (Var.plain v) (plain_mem_cfInit G [] v hvG) (Var.plain w)
        (plain_mem_cfInit G [] w hwG) rfl rfl (fun e => hvw (plain_inj e)) hbi
      unfold MG.BiEdge at this ⊢
      rw [hK, bi_foldl_addNode]
      exact this
    have hv1 := L1 o ho v hvo
    have hw1 := L1 x hx w hwx
    have hHbi : H.BiEdge (Var.plain v) (Var.plain w) := by
      rw [hH, biEdge_removeOutEdges, biEdge_subgraph]
      exact ⟨hKbi, (spec _).2 ⟨_, ho, L0 o v hvo⟩, (spec _).2 ⟨_, hx, L0 x w hwx⟩⟩
    have hPv : H.Anc [Var.plain o, Var.plain x] (Var.plain v) := ⟨_, by simp, hv1⟩
    have hPw : H.Anc [Var.plain o, Var.plain x] (Var.plain w) := ⟨_, by simp, hw1⟩
    have hstep : H.AncAdj (Var.plain o) (Var.plain x) (Var.plain v) (Var.plain w) :=
      ⟨hPv, hPw, Or.inr (Or.inr hHbi)⟩
    exact ((L2 _ (Or.inl rfl) _ hv1).2.tail hstep).trans (L2 _ (Or.inr rfl) _ hw1).1

end Y0.Cf
