/-
  Y0.Lemmas.TianSound — soundness of the c-factor routines of Y0.Model.Tian in every compatible positive
  semi-Markovian model: Lemma 3 (`ancestralQ`), Equation 72 (`lowIndex`), Lemma 4 (`lemma4`).
  Expression-level facts come from Y0.Lemmas.TianExpr, model-level facts from Y0.Lemmas.QFactor (`id` family).
-/
import Y0.Lemmas.TianExpr
import Y0.Lemmas.QFactor
import Y0.Lemmas.TianLemma1
import Y0.Lemmas.TianGraph
import Y0.Spec.TianSpec

namespace Y0
namespace TianSound
open TianDsl Tian TianDen TianSpec

variable {M : Scm} {G : MG Name}

theorem env_card (M : Scm) (G : MG Name) : (M.env G).card = M.card := rfl

/-- what follows the first occurrence of `v` -/
def afterOf (H : List Name) (v : Name) : List Name := (H.dropWhile (· ≠ v)).drop 1

theorem afterOf_split {l1 l2 : List Name} {v : Name} (h : v ∉ l1) : afterOf (l1 ++ v :: l2) v = l2 := by
  unfold afterOf
  induction l1 with
  | nil => simp
  | cons x xs ih =>
    have hx : x ≠ v := fun e => h (by simp [e])
    have := ih (fun hm => h (List.mem_cons_of_mem _ hm))
    simp only [List.cons_append, List.dropWhile_cons, ne_eq, hx, not_false_eq_true, decide_true, ↓reduceIte]
    exact this

theorem not_mem_left_of_nodup {l1 l2 : List Name} {v : Name} (h : (l1 ++ v :: l2).Nodup) : v ∉ l1 := by
  intro hm
  exact (List.nodup_append.mp h).2.2 v hm v (by simp) rfl

/-- the total mass of a c-factor is one -/
theorem sumVars_Q_self (hM : M.Compatible G) (hrank : G.Ranked) (H : List Name) (hnd : H.Nodup)
    (hsub : ∀ v ∈ H, v ∈ G.nodes) (σ : Val) : sumVars M.card H (M.Q H) σ = 1 := by
  have := Scm.Q_ancestral hM hrank [] H (by simpa using hnd) (by simpa using hsub) (by simp)
  simp only [List.nil_append] at this
  rw [this, Scm.Q_nil hM]

/-- the ratio `Σ_{>v} Q[H] / Σ_{≥v} Q[H]` -/
noncomputable def qRatio (M : Scm) (H : List Name) (σ : Val) (v : Name) : Rat :=
  sumVars M.card (afterOf H v) (M.Q H) σ / sumVars M.card (v :: afterOf H v) (M.Q H) σ

/-- (ratio) in the form needed here: the product of the ratios over a part `D` of the topological listing `H` that
no bidirected edge joins to the rest of `H` is `Q[D]` -/
theorem qRatio_prod (hM : M.Compatible G) (hG : G.WF) (hrank : G.Ranked)
    (H : List Name) (hnd : H.Nodup) (hsub : ∀ v ∈ H, v ∈ G.nodes) (htopo : TopoOrdered G H)
    (D : List Name) (hDnd : D.Nodup) (hDH : ∀ v ∈ D, v ∈ H) (hclosed : BiClosedIn G D H) (σ : Val) :
    (D.map (qRatio M H σ)).prod = M.Q D σ := by
  apply Scm.Q_ratio_list hM hG hrank H hnd hsub htopo D hDnd hDH _ σ (qRatio M H σ)
  · intro l1 v l2 e
    unfold qRatio
    rw [e, afterOf_split (not_mem_left_of_nodup (e ▸ hnd))]
  · intro v hv w hw hwD u hu1 hu2
    have hvw : v ≠ w := fun e => hwD (e ▸ hv)
    have := hM.compat v (hsub v (hDH v hv)) w (hsub w hw) hvw ⟨u, hu1, hu2⟩
    rw [hclosed v hv w hw hwD] at this
    cases this

/-- the code's ratio (no denominator for the first variable of the order) of an expression that denotes `Q[H]`
is `qRatio` -/
theorem qRatio_eq_ratio (hM : M.Compatible G) (hrank : G.Ranked) (σ' : Val)
    (H : List Name) (hnd : H.Nodup) (hsub : ∀ v ∈ H, v ∈ G.nodes)
    (q : Expr) (hq : ∀ σ, den (M.env G) σ' q σ = M.Q H σ) (σ : Val) (v : Name) (p s : List Name)
    (e : H = p ++ v :: s) : qRatio M H σ v = ratio M.card (den (M.env G) σ' q) p v s σ := by
  have hqf : den (M.env G) σ' q = M.Q H := funext hq
  subst e
  unfold qRatio
  rw [afterOf_split (not_mem_left_of_nodup hnd), hqf]
  unfold ratio
  split
  · rename_i hp
    subst hp
    have h1 : sumVars M.card (v :: s) (M.Q ([] ++ v :: s)) σ = 1 := by
      rw [List.nil_append]
      apply sumVars_Q_self hM hrank
      · simpa using hnd
      · intro x hx; exact hsub x (by simpa using hx)
    rw [h1, div_one]
  · rfl

/-- **Lemma 4 (ii) is sound**: from an expression denoting `Q[H]`, a topological listing `H` and a part `D` of `H`
that no bidirected edge joins to the rest of `H`, the code's product of ratios denotes `Q[D]`. -/
theorem lemma4_sound (hM : M.Compatible G) (hG : G.WF) (hrank : G.Ranked) (σ' : Val)
    (H : List Name) (hnd : H.Nodup) (hsub : ∀ v ∈ H, v ∈ G.nodes) (htopo : TopoOrdered G H)
    (D : List Name) (hDnd : D.Nodup) (hDH : ∀ v ∈ D, v ∈ H) (hclosed : BiClosedIn G D H)
    (q e : Expr) (hq : ∀ σ, den (M.env G) σ' q σ = M.Q H σ)
    (h : lemma4 D q H = .ok e) (σ : Val) : den (M.env G) σ' e σ = M.Q D σ := by
  rw [den_lemma4 (M.env G) σ' hnd h σ (qRatio M H σ)
    (fun v p s e => qRatio_eq_ratio hM hrank σ' H hnd hsub q hq σ v p s e)]
  exact qRatio_prod hM hG hrank H hnd hsub htopo D hDnd hDH hclosed σ

/-- **Equation 72 is sound**: `Σ_{h ∖ h^(i)} Q[H] = Q[H^(i)]` for a topological listing `H = p ++ v :: s`. -/
theorem lowIndex_sound (hM : M.Compatible G) (hrank : G.Ranked) (σ' : Val)
    (p s : List Name) (v : Name) (hnd : (p ++ v :: s).Nodup) (hsub : ∀ x ∈ p ++ v :: s, x ∈ G.nodes)
    (htopo : TopoOrdered G (p ++ v :: s))
    (q e : Expr) (hq : ∀ σ, den (M.env G) σ' q σ = M.Q (p ++ v :: s) σ)
    (h : lowIndex (some v) q (p ++ v :: s) = .ok e) (σ : Val) :
    den (M.env G) σ' e σ = M.Q (p ++ [v]) σ := by
  rw [den_lowIndex_some (M.env G) σ' hnd h, funext hq, env_card]
  have hsplit : p ++ v :: s = (p ++ [v]) ++ s := by simp
  rw [hsplit]
  have := Scm.Q_ancestral hM hrank (p ++ [v]) s (by rw [← hsplit]; exact hnd) (by rw [← hsplit]; exact hsub)
    (by
      intro a ha r hr
      exact htopo (p ++ [v]) s hsplit a ha r hr)
  rw [this]

/-- **Lemma 3 is sound**: marginalising an expression for `Q[H]` over `H ∖ A` gives `Q[A]` when `A` is ancestral
in the subgraph induced by `H`. -/
theorem ancestralQ_sound (hM : M.Compatible G) (hrank : G.Ranked) (σ' : Val)
    (A H topo : List Name) (hHnd : H.Nodup) (hAnd : A.Nodup) (hAH : ∀ v ∈ A, v ∈ H)
    (hsub : ∀ v ∈ H, v ∈ G.nodes) (hanc : AncestralIn G A H) (htnd : topo.Nodup) (hHt : ∀ v ∈ H, v ∈ topo)
    (q e : Expr) (hq : ∀ σ, den (M.env G) σ' q σ = M.Q H σ)
    (h : ancestralQ A H q topo = .ok e) (σ : Val) : den (M.env G) σ' e σ = M.Q A σ := by
  rw [den_ancestralQ (M.env G) σ' htnd h, funext hq, env_card]
  set R := topo.filter (fun v => v ∈ H ∧ v ∉ A) with hR
  have hRnd : R.Nodup := htnd.filter _
  have hARnd : (A ++ R).Nodup := by
    rw [List.nodup_append]
    refine ⟨hAnd, hRnd, ?_⟩
    intro a ha b hb e
    subst e
    have := (List.mem_filter.mp hb).2
    simp only [decide_eq_true_eq] at this
    exact this.2 ha
  have hperm : H.Perm (A ++ R) := by
    apply (List.perm_ext_iff_of_nodup hHnd hARnd).mpr
    intro x
    simp only [List.mem_append, hR, List.mem_filter, decide_eq_true_eq]
    constructor
    · intro hx
      by_cases hxA : x ∈ A
      · exact Or.inl hxA
      · exact Or.inr ⟨hHt x hx, hx, hxA⟩
    · rintro (hx | ⟨_, hx, _⟩)
      · exact hAH x hx
      · exact hx
  rw [Scm.Q_perm M hperm]
  have := Scm.Q_ancestral hM hrank A R hARnd
    (by intro x hx; exact hsub x (hperm.mem_iff.mpr hx))
    (by
      intro a ha r hr hpar
      have hr' := (List.mem_filter.mp hr).2
      simp only [decide_eq_true_eq] at hr'
      exact hr'.2 (hanc a ha r hpar hr'.1))
  rw [this]

/-- Lemma 3 on canonical listings: `Σ_{H ∖ A} Q[H] = Q[A]`, both sets listed in the order of `topo` -/
theorem sumVars_Q_anc (hM : M.Compatible G) (hrank : G.Ranked) (A H topo : List Name) (hAH : ∀ v ∈ A, v ∈ H)
    (hsub : ∀ v ∈ H, v ∈ G.nodes) (hanc : AncestralIn G A H) (htnd : topo.Nodup) :
    sumVars M.card (topo.filter (fun v => v ∈ H ∧ v ∉ A)) (M.Q (topo.filter (· ∈ H))) =
      M.Q (topo.filter (· ∈ A)) := by
  set R := topo.filter (fun v => v ∈ H ∧ v ∉ A) with hR
  set LA := topo.filter (· ∈ A) with hLA
  have hRnd : R.Nodup := htnd.filter _
  have hARnd : (LA ++ R).Nodup := by
    rw [List.nodup_append]
    refine ⟨htnd.filter _, hRnd, ?_⟩
    intro a ha b hb e
    subst e
    have h1 := (List.mem_filter.mp hb).2
    have h2 := (List.mem_filter.mp ha).2
    simp only [decide_eq_true_eq] at h1 h2
    exact h1.2 h2
  have hperm : (topo.filter (· ∈ H)).Perm (LA ++ R) := by
    apply (List.perm_ext_iff_of_nodup (htnd.filter _) hARnd).mpr
    intro x
    simp only [List.mem_append, hR, hLA, List.mem_filter, decide_eq_true_eq]
    constructor
    · rintro ⟨hxt, hx⟩
      by_cases hxA : x ∈ A
      · exact Or.inl ⟨hxt, hxA⟩
      · exact Or.inr ⟨hxt, hx, hxA⟩
    · rintro (⟨hxt, hx⟩ | ⟨hxt, hx, _⟩)
      · exact ⟨hxt, hAH x hx⟩
      · exact ⟨hxt, hx⟩
  rw [Scm.Q_perm M hperm]
  exact Scm.Q_ancestral hM hrank LA R hARnd
    (by
      intro x hx
      have := (hperm.mem_iff.mpr hx)
      exact hsub x (by simpa using (List.mem_filter.mp this).2))
    (by
      intro a ha r hr hpar
      have hr' := (List.mem_filter.mp hr).2
      have ha' := (List.mem_filter.mp ha).2
      simp only [decide_eq_true_eq] at hr' ha'
      exact hr'.2 (hanc a ha' r hpar hr'.1))

/-- **Lemma 1 (i) is sound** for a probability `P_w(H | Z)` that denotes `Q[H]` -/
theorem lemma1_sound (hM : M.Compatible G) (hG : G.WF) (hrank : G.Ranked) (σ' : Val)
    (H : List Name) (hnd : H.Nodup) (hsub : ∀ v ∈ H, v ∈ G.nodes) (htopo : TopoOrdered G H)
    (D : List Name) (hDnd : D.Nodup) (hDH : ∀ v ∈ D, v ∈ H) (hclosed : BiClosedIn G D H)
    (pop : Option Var) (ch pa : List Var) (e : Expr) (hshape : ProbShape (.prob pop ch pa) H)
    (hq : ∀ σ, den (M.env G) σ' (.prob pop ch pa) σ = M.Q H σ)
    (h : lemma1 D (.prob pop ch pa) H = .ok e) (σ : Val) : den (M.env G) σ' e σ = M.Q D σ := by
  rw [TianLemma1.den_lemma1 hM hG σ' hshape hnd hsub h σ (qRatio M H σ)
    (fun v p s e => qRatio_eq_ratio hM hrank σ' H hnd hsub _ hq σ v p s e)]
  exact qRatio_prod hM hG hrank H hnd hsub htopo D hDnd hDH hclosed σ

theorem probShape_congr {q : Expr} {H H' : List Name} (hp : H.Perm H')
    (h : ProbShape q H) : ProbShape q H' := by
  cases q with
  | prob pop ch pa =>
    obtain ⟨w, h1, h1', h2, h3, h4⟩ := h
    exact ⟨w, fun x hx => h1 x (hp.mem_iff.mpr hx),
      fun c hc => (h1' c hc).imp (fun hm => hp.mem_iff.mp hm) id, h2, fun i hi => ⟨(h3 i hi).1, fun hm => (h3 i hi).2 (hp.mem_iff.mpr hm)⟩,
      fun p hp' => fun hm => (h4 p hp') (hp.mem_iff.mpr hm)⟩
  | _ => trivial

/-- **`compute_c_factor` is sound**, whichever lemma the type of the expression selects -/
theorem computeCFactor_sound (hM : M.Compatible G) (hG : G.WF) (hrank : G.Ranked) (σ' : Val)
    (topo S : List Name) (htnd : topo.Nodup) (hord : TopoOrdered G topo)
    (hsub : ∀ v ∈ topo.filter (· ∈ S), v ∈ G.nodes)
    (D : List Name) (hDnd : D.Nodup) (hDH : ∀ v ∈ D, v ∈ topo.filter (· ∈ S))
    (hclosed : BiClosedIn G D (topo.filter (· ∈ S)))
    (q e : Expr) (hshape : ProbShape q (topo.filter (· ∈ S)))
    (hq : ∀ σ, den (M.env G) σ' q σ = M.Q (topo.filter (· ∈ S)) σ)
    (h : computeCFactor D S q topo = .ok e) (σ : Val) : den (M.env G) σ' e σ = M.Q D σ := by
  unfold computeCFactor at h
  simp only at h
  have hfilter : (topo.filter fun x => decide (x ∈ S)) = topo.filter (· ∈ S) := rfl
  split at h
  · exact lemma4_sound hM hG hrank σ' _ (htnd.filter _) hsub (TianGraph.topoOrdered_filter hord _) D hDnd hDH hclosed
      q e hq h σ
  · split at h
    · cases h
    · rename_i hprob
      cases q with
      | prob pop ch pa =>
        exact lemma1_sound hM hG hrank σ' _ (htnd.filter _) hsub (TianGraph.topoOrdered_filter hord _) D hDnd hDH
          hclosed pop ch pa e hshape hq h σ
      | _ => simp [isProb] at hprob

end TianSound
end Y0
