/-
  Y0.Lemmas.CtfSimplify — the dictionary bookkeeping of SIMPLIFY (Y0.Model.CtfSimplify): which (variable, value) pairs
  a `VMap` holds after `_remove_repeated_variables_and_values`, `_reduce_reflexive_…` and the consistency checks.
-/
import Y0.Lemmas.Ctf

namespace Y0.Ctf

/-- the dictionary binds the value `x` to the key `k` -/
def VMap.Has (m : VMap) (k : Var) (x : Val) : Prop := ∃ vals, (k, vals) ∈ m ∧ x ∈ vals

/-- every value set of the dictionary is duplicate free (it is a Python `set`) -/
def VMap.NodupVals (m : VMap) : Prop := ∀ p ∈ m, p.2.Nodup

theorem VMap.has_add (m : VMap) (k : Var) (x : Val) (k' : Var) (x' : Val) :
    (VMap.add m k x).Has k' x' ↔ m.Has k' x' ∨ (k' = k ∧ x' = x) := by
  unfold VMap.add VMap.Has
  split
  · rename_i hex
    simp only [List.any_eq_true, decide_eq_true_eq] at hex
    obtain ⟨⟨k₀, v₀⟩, hp, hk⟩ := hex
    simp only at hk
    subst hk
    simp only [List.mem_map]
    constructor
    · rintro ⟨vals, ⟨⟨k₁, v₁⟩, hp₁, heq⟩, hx⟩
      by_cases hk₁ : k₁ = k₀
      · subst hk₁
        simp only [↓reduceIte, Prod.mk.injEq] at heq
        obtain ⟨rfl, rfl⟩ := heq
        by_cases hmem : mem' x v₁ = true
        · simp only [hmem, ↓reduceIte] at hx
          exact Or.inl ⟨v₁, hp₁, hx⟩
        · simp only [hmem, Bool.false_eq_true, ↓reduceIte, List.mem_append, List.mem_singleton] at hx
          rcases hx with hx | hx
          · exact Or.inl ⟨v₁, hp₁, hx⟩
          · exact Or.inr ⟨rfl, hx⟩
      · simp only [hk₁, ↓reduceIte, Prod.mk.injEq] at heq
        obtain ⟨rfl, rfl⟩ := heq
        exact Or.inl ⟨v₁, hp₁, hx⟩
    · rintro (⟨vals, hp₁, hx⟩ | ⟨rfl, rfl⟩)
      · by_cases hk₁ : k' = k₀
        · subst hk₁
          refine ⟨if mem' x vals = true then vals else vals ++ [x], ⟨(k', vals), hp₁, by simp⟩, ?_⟩
          split
          · exact hx
          · exact List.mem_append_left _ hx
        · exact ⟨vals, ⟨(k', vals), hp₁, by simp [hk₁]⟩, hx⟩
      · refine ⟨if mem' x' v₀ = true then v₀ else v₀ ++ [x'], ⟨(k', v₀), hp, by simp⟩, ?_⟩
        split
        · rename_i hmem; exact (mem'_iff _ _).1 hmem
        · simp
  · rename_i hex
    simp only [List.mem_append, List.mem_singleton, Prod.mk.injEq]
    constructor
    · rintro ⟨vals, (hp | ⟨rfl, rfl⟩), hx⟩
      · exact Or.inl ⟨vals, hp, hx⟩
      · simp only [List.mem_singleton] at hx; exact Or.inr ⟨rfl, hx⟩
    · rintro (⟨vals, hp, hx⟩ | ⟨rfl, rfl⟩)
      · exact ⟨vals, Or.inl hp, hx⟩
      · exact ⟨[x'], Or.inr ⟨rfl, rfl⟩, by simp⟩

theorem VMap.nodup_add (m : VMap) (k : Var) (x : Val) (h : m.NodupVals) : (VMap.add m k x).NodupVals := by
  unfold VMap.add VMap.NodupVals
  split
  · intro p hp
    simp only [List.mem_map] at hp
    obtain ⟨⟨k₁, v₁⟩, hp₁, rfl⟩ := hp
    by_cases hk : k₁ = k
    · simp only [hk, ↓reduceIte]
      split
      · exact h _ hp₁
      · rename_i hmem
        have hx : x ∉ v₁ := fun hx => hmem ((mem'_iff _ _).2 hx)
        exact List.nodup_append.2 ⟨h _ hp₁, by simp, by
          intro a ha b hb hab
          simp only [List.mem_singleton] at hb
          subst hb; subst hab; exact hx ha⟩
    · simp only [hk, ↓reduceIte]; exact h _ hp₁
  · intro p hp
    simp only [List.mem_append, List.mem_singleton] at hp
    rcases hp with hp | rfl
    · exact h p hp
    · simp

theorem VMap.has_foldl_add (E : Event) (m : VMap) (k : Var) (x : Val) :
    (E.foldl (fun m p => VMap.add m p.1 p.2) m).Has k x ↔ m.Has k x ∨ (k, x) ∈ E := by
  induction E generalizing m with
  | nil => simp
  | cons p E ih =>
    simp only [List.foldl_cons, ih, VMap.has_add, List.mem_cons]
    constructor
    · rintro ((h | ⟨rfl, rfl⟩) | h)
      · exact Or.inl h
      · exact Or.inr (Or.inl rfl)
      · exact Or.inr (Or.inr h)
    · rintro (h | h | h)
      · exact Or.inl (Or.inl h)
      · exact Or.inl (Or.inr (by rw [← h]; exact ⟨rfl, rfl⟩))
      · exact Or.inr h

theorem VMap.nodup_foldl_add (E : Event) (m : VMap) (h : m.NodupVals) :
    (E.foldl (fun m p => VMap.add m p.1 p.2) m).NodupVals := by
  induction E generalizing m with
  | nil => exact h
  | cons p E ih => exact ih _ (VMap.nodup_add m p.1 p.2 h)

theorem VMap.has_nil (k : Var) (x : Val) : ¬ VMap.Has [] k x := by
  rintro ⟨_, h, _⟩; cases h

/-- `_remove_repeated_variables_and_values`: a proper value is bound to a variable exactly when the event binds it -/
theorem removeRepeated_has_some (E : Event) (k : Var) (i : Iv) :
    (removeRepeated E).Has k (some i) ↔ (k, some i) ∈ E := by
  unfold removeRepeated
  simp only
  constructor
  · rintro ⟨vals, hp, hx⟩
    simp only [List.mem_map] at hp
    obtain ⟨⟨k₁, v₁⟩, hp₁, heq⟩ := hp
    have hx₁ : some i ∈ v₁ := by
      split at heq
      · simp only [Prod.mk.injEq] at heq
        obtain ⟨rfl, rfl⟩ := heq
        exact (List.mem_filter.1 hx).1
      · simp only [Prod.mk.injEq] at heq
        obtain ⟨rfl, rfl⟩ := heq
        exact hx
    have hk : k₁ = k := by
      split at heq <;> simp only [Prod.mk.injEq] at heq <;> exact heq.1
    subst hk
    have := (VMap.has_foldl_add E [] k₁ (some i)).1 ⟨v₁, hp₁, hx₁⟩
    rcases this with h | h
    · exact absurd h (VMap.has_nil _ _)
    · exact h
  · intro h
    obtain ⟨vals, hp, hx⟩ := (VMap.has_foldl_add E [] k (some i)).2 (Or.inr h)
    by_cases hc : (vals.length > 1 && mem' none vals) = true
    · refine ⟨vals.filter (fun x => decide (x ≠ none)), List.mem_map.2 ⟨(k, vals), hp, by simp [hc]⟩, ?_⟩
      simp [hx]
    · refine ⟨vals, List.mem_map.2 ⟨(k, vals), hp, by simp [hc]⟩, hx⟩

/-- every binding of `_remove_repeated_variables_and_values` comes from the event -/
theorem removeRepeated_has (E : Event) (k : Var) (x : Val) (h : (removeRepeated E).Has k x) : (k, x) ∈ E := by
  unfold removeRepeated at h
  simp only at h
  obtain ⟨vals, hp, hx⟩ := h
  simp only [List.mem_map] at hp
  obtain ⟨⟨k₁, v₁⟩, hp₁, heq⟩ := hp
  have hx₁ : x ∈ v₁ ∧ k₁ = k := by
    split at heq
    · simp only [Prod.mk.injEq] at heq
      obtain ⟨rfl, rfl⟩ := heq
      exact ⟨(List.mem_filter.1 hx).1, rfl⟩
    · simp only [Prod.mk.injEq] at heq
      obtain ⟨rfl, rfl⟩ := heq
      exact ⟨hx, rfl⟩
  obtain ⟨hx₁, rfl⟩ := hx₁
  rcases (VMap.has_foldl_add E [] k₁ x).1 ⟨v₁, hp₁, hx₁⟩ with h | h
  · exact absurd h (VMap.has_nil _ _)
  · exact h

theorem removeRepeated_nodup (E : Event) : (removeRepeated E).NodupVals := by
  unfold removeRepeated
  simp only
  intro p hp
  simp only [List.mem_map] at hp
  obtain ⟨⟨k₁, v₁⟩, hp₁, rfl⟩ := hp
  have hn : v₁.Nodup := VMap.nodup_foldl_add E [] (by intro p hp; cases hp) _ hp₁
  split
  · exact hn.filter _
  · exact hn

/-- the keys of `_remove_repeated_variables_and_values` are variables of the event -/
theorem removeRepeated_key (E : Event) (p : Var × List Val) (hp : p ∈ removeRepeated E) :
    ∃ q ∈ E, q.1 = p.1 := by
  unfold removeRepeated at hp
  simp only [List.mem_map] at hp
  obtain ⟨⟨k₁, v₁⟩, hp₁, rfl⟩ := hp
  have key : ∀ (E : Event) (m : VMap), (k₁, v₁) ∈ E.foldl (fun m p => VMap.add m p.1 p.2) m →
      (∃ q ∈ m, q.1 = k₁) ∨ ∃ q ∈ E, q.1 = k₁ := by
    intro E
    induction E with
    | nil => intro m h; exact Or.inl ⟨_, h, rfl⟩
    | cons q E ih =>
      intro m h
      simp only [List.foldl_cons] at h
      rcases ih _ h with ⟨q', hq', hk⟩ | ⟨q', hq', hk⟩
      · unfold VMap.add at hq'
        split at hq'
        · simp only [List.mem_map] at hq'
          obtain ⟨r, hr, rfl⟩ := hq'
          refine Or.inl ⟨r, hr, ?_⟩
          split at hk <;> exact hk
        · simp only [List.mem_append, List.mem_singleton] at hq'
          rcases hq' with hq' | rfl
          · exact Or.inl ⟨q', hq', hk⟩
          · exact Or.inr ⟨q, by simp, hk⟩
      · exact Or.inr ⟨q', by simp [hq'], hk⟩
  rcases key E [] hp₁ with ⟨q, hq, _⟩ | h
  · cases hq
  · split <;> exact h

/-! ### `d[k].update(values)` and `_reduce_reflexive_counterfactual_variables_to_interventions` -/

theorem VMap.has_foldl_add_key (xs : List Val) (m : VMap) (k : Var) (k' : Var) (x' : Val) :
    (xs.foldl (fun m x => VMap.add m k x) m).Has k' x' ↔ m.Has k' x' ∨ (k' = k ∧ x' ∈ xs) := by
  induction xs generalizing m with
  | nil => simp
  | cons x xs ih =>
    simp only [List.foldl_cons, ih, VMap.has_add, List.mem_cons]
    constructor
    · rintro ((h | ⟨rfl, rfl⟩) | ⟨rfl, h⟩)
      · exact Or.inl h
      · exact Or.inr ⟨rfl, Or.inl rfl⟩
      · exact Or.inr ⟨rfl, Or.inr h⟩
    · rintro (h | ⟨rfl, rfl | h⟩)
      · exact Or.inl (Or.inl h)
      · exact Or.inl (Or.inr ⟨rfl, rfl⟩)
      · exact Or.inr ⟨rfl, h⟩

theorem VMap.nodup_foldl_add_key (xs : List Val) (m : VMap) (k : Var) (h : m.NodupVals) :
    (xs.foldl (fun m x => VMap.add m k x) m).NodupVals := by
  induction xs generalizing m with
  | nil => exact h
  | cons x xs ih => exact ih _ (VMap.nodup_add m k x h)

theorem VMap.has_update (m : VMap) (k : Var) (xs : List Val) (k' : Var) (x' : Val) :
    (VMap.update m k xs).Has k' x' ↔ m.Has k' x' ∨ (k' = k ∧ x' ∈ xs) := by
  unfold VMap.update
  split
  · exact VMap.has_foldl_add_key xs m k k' x'
  · unfold VMap.Has
    simp only [List.mem_append, List.mem_singleton, Prod.mk.injEq]
    constructor
    · rintro ⟨vals, (hp | ⟨rfl, rfl⟩), hx⟩
      · exact Or.inl ⟨vals, hp, hx⟩
      · exact Or.inr ⟨rfl, mem_dedup'.1 hx⟩
    · rintro (⟨vals, hp, hx⟩ | ⟨rfl, hx⟩)
      · exact ⟨vals, Or.inl hp, hx⟩
      · exact ⟨dedup' xs, Or.inr ⟨rfl, rfl⟩, mem_dedup'.2 hx⟩

theorem VMap.nodup_update (m : VMap) (k : Var) (xs : List Val) (h : m.NodupVals) :
    (VMap.update m k xs).NodupVals := by
  unfold VMap.update
  split
  · exact VMap.nodup_foldl_add_key xs m k h
  · intro p hp
    simp only [List.mem_append, List.mem_singleton] at hp
    rcases hp with hp | rfl
    · exact h p hp
    · exact nodup_dedup' xs

/-- the keys after an `add` are the old keys and the added key -/
theorem VMap.key_add (m : VMap) (k : Var) (x : Val) (p : Var × List Val) (hp : p ∈ VMap.add m k x) :
    p.1 = k ∨ ∃ q ∈ m, q.1 = p.1 := by
  unfold VMap.add at hp
  split at hp
  · simp only [List.mem_map] at hp
    obtain ⟨r, hr, rfl⟩ := hp
    right
    refine ⟨r, hr, ?_⟩
    split <;> rfl
  · simp only [List.mem_append, List.mem_singleton] at hp
    rcases hp with hp | rfl
    · exact Or.inr ⟨p, hp, rfl⟩
    · exact Or.inl rfl

theorem VMap.key_update (m : VMap) (k : Var) (xs : List Val) (p : Var × List Val)
    (hp : p ∈ VMap.update m k xs) : p.1 = k ∨ ∃ q ∈ m, q.1 = p.1 := by
  unfold VMap.update at hp
  split at hp
  · have key : ∀ (xs : List Val) (m : VMap), p ∈ xs.foldl (fun m x => VMap.add m k x) m →
        p.1 = k ∨ ∃ q ∈ m, q.1 = p.1 := by
      intro xs
      induction xs with
      | nil => intro m h; exact Or.inr ⟨p, h, rfl⟩
      | cons x xs ih =>
        intro m h
        simp only [List.foldl_cons] at h
        rcases ih _ h with h | ⟨q, hq, hqk⟩
        · exact Or.inl h
        · rcases VMap.key_add m k x q hq with h' | ⟨q', hq', hk'⟩
          · exact Or.inl (by rw [← hqk, h'])
          · exact Or.inr ⟨q', hq', by rw [hk', hqk]⟩
    exact key xs m hp
  · simp only [List.mem_append, List.mem_singleton] at hp
    rcases hp with hp | rfl
    · exact Or.inr ⟨p, hp, rfl⟩
    · exact Or.inl rfl

/-- the pure fold computed by `_reduce_reflexive_…` when no key is a counterfactual variable -/
def reducePlain (m : VMap) (r : VMap) : VMap := m.foldl (fun r p => VMap.update r p.1 p.2) r

theorem reduceReflexive_plain_aux (m : VMap) (r : VMap) (h : ∀ p ∈ m, p.1.isCf = false) :
    m.foldlM (fun r p =>
      if !p.1.isCf then (pure (VMap.update r p.1 p.2) : Except Err VMap)
      else if p.1.ivs.length ≠ 1 then throw (.invalidInput "ValueError")
      else if checkNonreflexive p.1 then throw (.invalidInput "ValueError")
      else pure (VMap.update r p.1.base p.2)) r = .ok (reducePlain m r) := by
  induction m generalizing r with
  | nil => rfl
  | cons p m ih =>
    have hp : p.1.isCf = false := h p (by simp)
    simp only [List.foldlM_cons, hp, Bool.not_false, ↓reduceIte, bind, Except.bind, pure, Except.pure]
    exact ih _ (fun q hq => h q (by simp [hq]))

theorem reduceReflexive_plain (m : VMap) (h : ∀ p ∈ m, p.1.isCf = false) :
    reduceReflexive m = .ok (reducePlain m []) := reduceReflexive_plain_aux m [] h

theorem reducePlain_has (m r : VMap) (k : Var) (x : Val) :
    (reducePlain m r).Has k x ↔ r.Has k x ∨ m.Has k x := by
  unfold reducePlain
  induction m generalizing r with
  | nil => simp [VMap.Has]
  | cons p m ih =>
    simp only [List.foldl_cons, ih, VMap.has_update]
    unfold VMap.Has
    simp only [List.mem_cons]
    constructor
    · rintro ((h | ⟨rfl, hx⟩) | ⟨vals, hp, hx⟩)
      · exact Or.inl h
      · exact Or.inr ⟨p.2, Or.inl rfl, hx⟩
      · exact Or.inr ⟨vals, Or.inr hp, hx⟩
    · rintro (h | ⟨vals, (hp | hp), hx⟩)
      · exact Or.inl (Or.inl h)
      · exact Or.inl (Or.inr ⟨by rw [← hp], by rw [← hp]; exact hx⟩)
      · exact Or.inr ⟨vals, hp, hx⟩

theorem reducePlain_nodup (m r : VMap) (h : r.NodupVals) : (reducePlain m r).NodupVals := by
  unfold reducePlain
  induction m generalizing r with
  | nil => exact h
  | cons p m ih => exact ih _ (VMap.nodup_update r p.1 p.2 h)

theorem reducePlain_key (m r : VMap) (p : Var × List Val) (hp : p ∈ reducePlain m r) :
    (∃ q ∈ r, q.1 = p.1) ∨ ∃ q ∈ m, q.1 = p.1 := by
  unfold reducePlain at hp
  induction m generalizing r with
  | nil => exact Or.inl ⟨p, hp, rfl⟩
  | cons a m ih =>
    simp only [List.foldl_cons] at hp
    rcases ih _ hp with ⟨q, hq, hk⟩ | ⟨q, hq, hk⟩
    · rcases VMap.key_update r a.1 a.2 q hq with h | ⟨q', hq', hk'⟩
      · exact Or.inr ⟨a, by simp, by rw [← hk, h]⟩
      · exact Or.inl ⟨q', hq', by rw [hk', hk]⟩
    · exact Or.inr ⟨q, by simp [hq], hk⟩

/-! ### the consistency check when no reflexive key is a counterfactual variable -/

theorem anyInconsistent_true (n r : VMap) (hr : ∀ p ∈ r, p.1.isCf = false)
    (h : anyInconsistent n r = .ok true) :
    ∃ p, (p ∈ n ∨ p ∈ r) ∧ p.2.length > 1 ∧ mem' none p.2 = false := by
  unfold anyInconsistent at h
  split at h
  · cases h
  · rename_i hA
    simp only [Bool.or_eq_true, List.any_eq_true, Bool.and_eq_true, decide_eq_true_eq, not_or, not_exists,
      not_and, Bool.not_eq_true] at hA
    split at h
    · rename_i hB
      simp only [List.any_eq_true, decide_eq_true_eq] at hB
      obtain ⟨p, hp, hlen⟩ := hB
      exact ⟨p, Or.inl hp, hlen, hA.1 p hp hlen⟩
    · split at h
      · cases h
      · simp only [Except.ok.injEq, List.any_eq_true, Bool.or_eq_true, Bool.and_eq_true, Bool.not_eq_eq_eq_not,
          Bool.not_true, decide_eq_true_eq] at h
        obtain ⟨p, hp, hcase | hcase⟩ := h
        · refine ⟨p, Or.inr hp, hcase.2, ?_⟩
          by_contra hnone
          have hnone : mem' none p.2 = true := by simpa using hnone
          have := hA.2 p hp ⟨hnone, by simp [hr p hp]⟩
          omega
        · rw [hr p hp] at hcase; cases hcase.1

theorem anyInconsistent_false (n r : VMap) (hr : ∀ p ∈ r, p.1.isCf = false)
    (h : anyInconsistent n r = .ok false) :
    ∀ p, (p ∈ n ∨ p ∈ r) → p.2.length ≤ 1 := by
  unfold anyInconsistent at h
  split at h
  · cases h
  · split at h
    · cases h
    · rename_i hB
      simp only [List.any_eq_true, decide_eq_true_eq, not_exists, not_and] at hB
      split at h
      · cases h
      · simp only [Except.ok.injEq, List.any_eq_false, Bool.or_eq_true, Bool.and_eq_true, Bool.not_eq_eq_eq_not,
          Bool.not_true, decide_eq_true_eq, not_or, not_and] at h
        rintro p (hp | hp)
        · have := hB p hp; omega
        · have := (h p hp).1 (hr p hp); omega

/-- `[(k, d[k].pop()) for k in d]` when every value set is a singleton or empty -/
theorem popAll_ok (m : VMap) (e : Event) (h : popAll m = .ok e) (k : Var) (x : Val) :
    (k, x) ∈ e ↔ ∃ rest, (k, x :: rest) ∈ m := by
  unfold popAll at h
  rw [mapM_ok_mem _ _ _ h]
  constructor
  · rintro ⟨⟨k₁, vals⟩, hp, hf⟩
    cases vals with
    | nil => simp only at hf; cases hf
    | cons y rest =>
      simp only [pure, Except.pure, Except.ok.injEq, Prod.mk.injEq] at hf
      obtain ⟨rfl, rfl⟩ := hf
      exact ⟨rest, hp⟩
  · rintro ⟨rest, hp⟩
    exact ⟨(k, x :: rest), hp, rfl⟩

/-! ### `dropNone` (the `None` that the merge of `Y_y` with `Y` leaves next to a proper value is dropped) -/

theorem dropNone_mem (m : VMap) (p : Var × List Val) (hp : p ∈ dropNone m) :
    ∃ q ∈ m, q.1 = p.1 ∧ (p.2 = q.2 ∨ p.2 = q.2.filter (fun x => decide (x ≠ none))) ∧
      ¬ (p.2.length > 1 ∧ none ∈ p.2) := by
  unfold dropNone at hp
  obtain ⟨q, hq, rfl⟩ := List.mem_map.1 hp
  refine ⟨q, hq, ?_⟩
  split
  · refine ⟨rfl, Or.inr rfl, ?_⟩
    rintro ⟨_, hn⟩
    simp at hn
  · rename_i hc
    refine ⟨rfl, Or.inl rfl, ?_⟩
    rintro ⟨h1, h2⟩
    apply hc
    simp only [Bool.and_eq_true, decide_eq_true_eq]
    exact ⟨h1, (mem'_iff _ _).2 h2⟩

theorem dropNone_of_mem (m : VMap) (q : Var × List Val) (hq : q ∈ m) :
    ∃ p ∈ dropNone m, p.1 = q.1 ∧ (p.2 = q.2 ∨ (p.2 = q.2.filter (fun x => decide (x ≠ none)) ∧ q.2.length > 1)) := by
  unfold dropNone
  by_cases hc : (q.2.length > 1 && mem' none q.2) = true
  · refine ⟨(q.1, q.2.filter (fun x => decide (x ≠ none))), List.mem_map.2 ⟨q, hq, by simp only [hc, ↓reduceIte]⟩, rfl,
      Or.inr ⟨rfl, ?_⟩⟩
    simp only [Bool.and_eq_true, decide_eq_true_eq] at hc
    exact hc.1
  · exact ⟨q, List.mem_map.2 ⟨q, hq, by simp only [hc, Bool.false_eq_true, ↓reduceIte]⟩, rfl, Or.inl rfl⟩

theorem dropNone_keys (m : VMap) : (dropNone m).map (·.1) = m.map (·.1) := by
  unfold dropNone
  rw [List.map_map]
  apply List.map_congr_left
  intro p _
  simp only [Function.comp]
  split <;> rfl

theorem dropNone_key (m : VMap) (p : Var × List Val) (hp : p ∈ dropNone m) : ∃ q ∈ m, q.1 = p.1 := by
  obtain ⟨q, hq, hk, _⟩ := dropNone_mem m p hp
  exact ⟨q, hq, hk⟩

theorem dropNone_has_some (m : VMap) (k : Var) (i : Iv) : (dropNone m).Has k (some i) ↔ m.Has k (some i) := by
  constructor
  · rintro ⟨vals, hp, hx⟩
    obtain ⟨q, hq, hk, hv, _⟩ := dropNone_mem m (k, vals) hp
    simp only at hk hv
    refine ⟨q.2, by rw [← hk]; exact hq, ?_⟩
    rcases hv with hv | hv
    · rw [← hv]; exact hx
    · rw [hv] at hx; exact (List.mem_filter.1 hx).1
  · rintro ⟨vals, hq, hx⟩
    obtain ⟨p, hp, hk, hv⟩ := dropNone_of_mem m (k, vals) hq
    simp only at hk hv
    refine ⟨p.2, by rw [← hk]; exact hp, ?_⟩
    rcases hv with hv | ⟨hv, _⟩
    · rw [hv]; exact hx
    · rw [hv]; exact List.mem_filter.2 ⟨hx, by simp⟩

theorem dropNone_has (m : VMap) (k : Var) (x : Val) (h : (dropNone m).Has k x) : m.Has k x := by
  obtain ⟨vals, hp, hx⟩ := h
  obtain ⟨q, hq, hk, hv, _⟩ := dropNone_mem m (k, vals) hp
  simp only at hk hv
  refine ⟨q.2, by rw [← hk]; exact hq, ?_⟩
  rcases hv with hv | hv
  · rw [← hv]; exact hx
  · rw [hv] at hx; exact (List.mem_filter.1 hx).1

theorem dropNone_nodup (m : VMap) (h : m.NodupVals) : (dropNone m).NodupVals := by
  intro p hp
  obtain ⟨q, hq, _, hv, _⟩ := dropNone_mem m p hp
  rcases hv with hv | hv
  · rw [hv]; exact h q hq
  · rw [hv]; exact (h q hq).filter _

/-- nothing to drop: no entry holds `None` next to another value -/
theorem dropNone_id (m : VMap) (h : ∀ p ∈ m, ¬ (p.2.length > 1 ∧ none ∈ p.2)) : dropNone m = m := by
  unfold dropNone
  conv => rhs; rw [← List.map_id m]
  apply List.map_congr_left
  intro p hp
  have hc : (p.2.length > 1 && mem' none p.2) = false := by
    cases hb : (p.2.length > 1 && mem' none p.2) with
    | false => rfl
    | true =>
      simp only [Bool.and_eq_true, decide_eq_true_eq] at hb
      exact absurd ⟨hb.1, (mem'_iff _ _).1 hb.2⟩ (h p hp)
  simp only [hc, Bool.false_eq_true, ↓reduceIte, id]

/-! ### the combinatorial content of `simplifyCore` on events without self-intervened variables -/

theorem two_of_length {α : Type} (l : List α) (hn : l.Nodup) (hl : l.length > 1) :
    ∃ x y, x ∈ l ∧ y ∈ l ∧ x ≠ y := by
  match l, hn, hl with
  | x :: y :: _, hn, _ =>
    refine ⟨x, y, by simp, by simp, ?_⟩
    intro hxy
    rw [List.nodup_cons] at hn
    exact hn.1 (by simp [hxy])

theorem singleton_of_length {α : Type} (l : List α) (x : α) (hx : x ∈ l) (hl : l.length ≤ 1) : l = [x] := by
  match l, hx, hl with
  | [y], hx, _ => simp only [List.mem_singleton] at hx; rw [hx]

/-- with no self-intervened variable the reflexive part of the split are the plain variables -/
theorem splitReflexive_plain (me : Event) (h : ∀ p ∈ me, selfIntervened p.1 = false) :
    (∀ p, p ∈ (splitReflexive me).1 ↔ p ∈ me ∧ p.1.isCf = false) ∧
    (∀ p, p ∈ (splitReflexive me).2 ↔ p ∈ me ∧ p.1.isCf = true) := by
  unfold splitReflexive
  constructor
  · intro p
    simp only [List.mem_filter, Bool.or_eq_true, Bool.and_eq_true, Bool.not_eq_eq_eq_not, Bool.not_true]
    constructor
    · rintro ⟨hp, (⟨_, hs⟩ | hc)⟩
      · rw [h p hp] at hs; cases hs
      · exact ⟨hp, hc⟩
    · rintro ⟨hp, hc⟩; exact ⟨hp, Or.inr hc⟩
  · intro p
    simp only [List.mem_filter, Bool.and_eq_true, Bool.not_eq_eq_eq_not, Bool.not_true]
    constructor
    · rintro ⟨hp, hc, _⟩; exact ⟨hp, hc⟩
    · rintro ⟨hp, hc⟩; exact ⟨hp, hc, h p hp⟩

/-- a violated consistency check exhibits one variable bound to two different proper values -/
theorem conflict_of_inconsistent (n r : VMap) (hr : ∀ p ∈ r, p.1.isCf = false) (hn : n.NodupVals)
    (hrn : r.NodupVals) (h : anyInconsistent n r = .ok true) :
    ∃ k i j, i ≠ j ∧ ((n.Has k (some i) ∧ n.Has k (some j)) ∨ (r.Has k (some i) ∧ r.Has k (some j))) := by
  obtain ⟨p, hp, hlen, hnone⟩ := anyInconsistent_true n r hr h
  have hnod : p.2.Nodup := by
    rcases hp with hp | hp
    · exact hn p hp
    · exact hrn p hp
  obtain ⟨x, y, hx, hy, hxy⟩ := two_of_length p.2 hnod hlen
  have hnn : ∀ z, z ∈ p.2 → ∃ i, z = some i := by
    intro z hz
    cases z with
    | none => exact absurd ((mem'_iff _ _).2 hz) (by simp [hnone])
    | some i => exact ⟨i, rfl⟩
  obtain ⟨i, rfl⟩ := hnn x hx
  obtain ⟨j, rfl⟩ := hnn y hy
  refine ⟨p.1, i, j, fun hij => hxy (by rw [hij]), ?_⟩
  rcases hp with hp | hp
  · exact Or.inl ⟨⟨p.2, hp, hx⟩, ⟨p.2, hp, hy⟩⟩
  · exact Or.inr ⟨⟨p.2, hp, hx⟩, ⟨p.2, hp, hy⟩⟩

/-- **combinatorial core of SIMPLIFY.**  On a (minimised) event without self-intervened variables:
`None` is answered only when some variable is bound to two different proper values, and a returned event binds exactly
the proper (variable, value) pairs of the input. -/
theorem simplifyCore_spec (me : Event) (h : ∀ p ∈ me, selfIntervened p.1 = false) :
    (simplifyCore me = .ok none →
      ∃ k i j, i ≠ j ∧ (k, some i) ∈ me ∧ (k, some j) ∈ me) ∧
    (∀ e', simplifyCore me = .ok (some e') →
      ∀ k i, (k, some i) ∈ e' ↔ (k, some i) ∈ me) := by
  obtain ⟨hsplit₁, hsplit₂⟩ := splitReflexive_plain me h
  -- abbreviations
  have hreflkeys : ∀ p ∈ removeRepeated (splitReflexive me).1, p.1.isCf = false := by
    intro p hp
    obtain ⟨q, hq, hk⟩ := removeRepeated_key _ p hp
    rw [← hk]; exact ((hsplit₁ q).1 hq).2
  have hred := reduceReflexive_plain _ hreflkeys
  have hredkeys : ∀ p ∈ dropNone (reducePlain (removeRepeated (splitReflexive me).1) []), p.1.isCf = false := by
    intro p hp
    obtain ⟨p', hp', hk'⟩ := dropNone_key _ p hp
    rw [← hk']
    rcases reducePlain_key _ _ p' hp' with ⟨q, hq, _⟩ | ⟨q, hq, hk⟩
    · cases hq
    · rw [← hk]; exact hreflkeys q hq
  have hredhas : ∀ k i, (dropNone (reducePlain (removeRepeated (splitReflexive me).1) [])).Has k (some i) ↔
      (removeRepeated (splitReflexive me).1).Has k (some i) := by
    intro k i
    rw [dropNone_has_some, reducePlain_has]
    constructor
    · rintro (h | h)
      · exact absurd h (VMap.has_nil _ _)
      · exact h
    · exact Or.inr
  have hnodn := removeRepeated_nodup (splitReflexive me).2
  have hnodr := removeRepeated_nodup (splitReflexive me).1
  have hnodr' : (dropNone (reducePlain (removeRepeated (splitReflexive me).1) [])).NodupVals :=
    dropNone_nodup _ (reducePlain_nodup _ _ (by intro p hp; cases hp))
  have inMe₂ : ∀ k x, (removeRepeated (splitReflexive me).2).Has k x → (k, x) ∈ me :=
    fun k x hh => ((hsplit₂ _).1 (removeRepeated_has _ k x hh)).1
  have inMe₁ : ∀ k x, (removeRepeated (splitReflexive me).1).Has k x → (k, x) ∈ me :=
    fun k x hh => ((hsplit₁ _).1 (removeRepeated_has _ k x hh)).1
  unfold simplifyCore
  simp only [bind, Except.bind, hred]
  cases h1 : anyInconsistent (removeRepeated (splitReflexive me).2) (removeRepeated (splitReflexive me).1) with
  | error e => simp
  | ok b1 =>
    cases b1 with
    | true =>
      simp only [↓reduceIte, pure, Except.pure, Except.ok.injEq, reduceCtorEq, false_implies, implies_true,
        and_true, true_implies]
      obtain ⟨k, i, j, hij, hcase⟩ := conflict_of_inconsistent _ _ hreflkeys hnodn hnodr h1
      rcases hcase with ⟨hi, hj⟩ | ⟨hi, hj⟩
      · exact ⟨k, i, j, hij, inMe₂ _ _ hi, inMe₂ _ _ hj⟩
      · exact ⟨k, i, j, hij, inMe₁ _ _ hi, inMe₁ _ _ hj⟩
    | false =>
      simp only [Bool.false_eq_true, ↓reduceIte]
      cases h2 : anyInconsistent (removeRepeated (splitReflexive me).2)
          (dropNone (reducePlain (removeRepeated (splitReflexive me).1) [])) with
      | error e => simp
      | ok b2 =>
        cases b2 with
        | true =>
          simp only [↓reduceIte, pure, Except.pure, Except.ok.injEq, reduceCtorEq, false_implies, implies_true,
            and_true, true_implies]
          obtain ⟨k, i, j, hij, hcase⟩ := conflict_of_inconsistent _ _ hredkeys hnodn hnodr' h2
          rcases hcase with ⟨hi, hj⟩ | ⟨hi, hj⟩
          · exact ⟨k, i, j, hij, inMe₂ _ _ hi, inMe₂ _ _ hj⟩
          · exact ⟨k, i, j, hij, inMe₁ _ _ ((hredhas _ _).1 hi), inMe₁ _ _ ((hredhas _ _).1 hj)⟩
        | false =>
          simp only [Bool.false_eq_true, ↓reduceIte]
          have hlen := anyInconsistent_false _ _ hredkeys h2
          cases ha : popAll (removeRepeated (splitReflexive me).2) with
          | error e => simp
          | ok a =>
            cases hb : popAll (dropNone (reducePlain (removeRepeated (splitReflexive me).1) [])) with
            | error e => simp
            | ok b =>
              simp only [pure, Except.pure, Except.ok.injEq, reduceCtorEq, false_implies, Option.some.injEq,
                true_and]
              intro e' he' k i
              subst he'
              rw [List.mem_append, popAll_ok _ _ ha, popAll_ok _ _ hb]
              constructor
              · rintro (⟨rest, hp⟩ | ⟨rest, hp⟩)
                · exact inMe₂ _ _ ⟨_, hp, by simp⟩
                · exact inMe₁ _ _ ((hredhas _ _).1 ⟨_, hp, by simp⟩)
              · intro hmem
                by_cases hcf : k.isCf = true
                · left
                  obtain ⟨vals, hp, hx⟩ := (removeRepeated_has_some _ k i).2 ((hsplit₂ (k, some i)).2 ⟨hmem, hcf⟩)
                  have := singleton_of_length vals (some i) hx (hlen _ (Or.inl hp))
                  subst this
                  exact ⟨[], hp⟩
                · right
                  have hcf' : k.isCf = false := by simpa using hcf
                  obtain ⟨vals, hp, hx⟩ := (hredhas _ _).2
                    ((removeRepeated_has_some _ k i).2 ((hsplit₁ (k, some i)).2 ⟨hmem, hcf'⟩))
                  have := singleton_of_length vals (some i) hx (hlen _ (Or.inr hp))
                  subst this
                  exact ⟨[], hp⟩

end Y0.Ctf
