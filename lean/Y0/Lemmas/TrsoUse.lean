/-
  Y0.Lemmas.TrsoUse — a TRSO run during which line 6 never finds a usable source domain (`usesLine6 = false`,
  Model/TrsoUse.lean) is, step for step, the run on the same query with no declared experiment:

      usesLine6 sep fuel q = false → trsoF sep fuel q = trsoF sep fuel (clearSurr q)        (`trsoF_clearSurr`)

  One congruence lemma per algorithm line (`step2_congr`, `step3_congr`, `step4_congr`, `step67_not_fires`,
  `step811_congr`), then induction on the budget.  Core Lean only.
-/
import Y0.Model.TrsoUse

namespace Y0
namespace Trso
open TrDsl

@[simp] theorem clearSurr_X (q : Query) : (clearSurr q).X = q.X := rfl
@[simp] theorem clearSurr_Y (q : Query) : (clearSurr q).Y = q.Y := rfl
@[simp] theorem clearSurr_expr (q : Query) : (clearSurr q).expr = q.expr := rfl
@[simp] theorem clearSurr_active (q : Query) : (clearSurr q).active = q.active := rfl
@[simp] theorem clearSurr_domain (q : Query) : (clearSurr q).domain = q.domain := rfl
@[simp] theorem clearSurr_graphs (q : Query) : (clearSurr q).graphs = q.graphs := rfl
@[simp] theorem clearSurr_surr (q : Query) : (clearSurr q).surr = [] := rfl
@[simp] theorem clearSurr_graph (q : Query) : (clearSurr q).graph = q.graph := rfl
@[simp] theorem clearSurr_fuel (q : Query) : (clearSurr q).fuel = q.fuel := rfl

private theorem okBind {α β} (a : α) (f : α → Except Err β) : ((Except.ok a : Except Err α) >>= f) = f a := rfl
private theorem errBind {α β} (e : Err) (f : α → Except Err β) :
    ((Except.error e : Except Err α) >>= f) = .error e := rfl
private theorem mapOk {α β} (f : α → β) (a : α) : f <$> (Except.ok a : Except Err α) = .ok (f a) := rfl
private theorem mapErr {α β} (f : α → β) (e : Err) : f <$> (Except.error e : Except Err α) = .error e := rfl

/-! ### the line functions do not read the declared experiments -/

theorem line2_clearSurr (q : Query) (anc : List Name) : line2 (clearSurr q) anc = clearSurr <$> line2 q anc := by
  unfold line2
  simp only [map_bind, map_pure]
  rfl

theorem line3_clearSurr (q : Query) (extra : List Name) : line3 (clearSurr q) extra = clearSurr (line3 q extra) := rfl

theorem line4_clearSurr (q : Query) (G : MG Name) (dwi : List (List Name)) :
    line4 (clearSurr q) G dwi = (line4 q G dwi).map clearSurr := by
  unfold line4
  rw [List.map_map]
  rfl

theorem line9_clearSurr (q : Query) (G : MG Name) (c : List Name) : line9 (clearSurr q) G c = line9 q G c := rfl

theorem line10_clearSurr (q : Query) (G : MG Name) (c' : List Name) (s : List (Pop × List Name)) :
    line10 (clearSurr q) G c' [] = clearSurr <$> line10 q G c' s := by
  unfold line10
  simp only [map_bind, map_pure]
  rfl

theorem line10Surr_clearSurr (q : Query) (G : MG Name) (c' : List Name) :
    line10Surr (clearSurr q) G c' = (Option.map (fun _ => ([] : List (Pop × List Name)))) <$> line10Surr q G c' := by
  unfold line10Surr
  rw [clearSurr_active, clearSurr_surr]
  by_cases ha : q.active.isEmpty = true
  · rw [if_pos ha, if_pos ha]; rfl
  · rw [if_neg ha, if_neg ha]
    cases pillowHasTransport G c' with
    | error e => rfl
    | ok b => cases b <;> rfl

/-! ### one congruence lemma per step -/

theorem step1_clearSurr (q : Query) (G : MG Name) : step1 (clearSurr q) G = step1 q G := rfl

theorem step2_congr {rec1 rec2 : Rec} {q : Query} {anc : List Name}
    (h : ∀ q', line2 q anc = .ok q' → rec1 q' = rec2 (clearSurr q')) :
    step2 rec1 q anc = step2 rec2 (clearSurr q) anc := by
  unfold step2
  rw [line2_clearSurr]
  cases hl : line2 q anc with
  | error e => rfl
  | ok q' => rw [mapOk, okBind, okBind, h q' hl]

theorem step3_congr {rec1 rec2 : Rec} {q : Query} {extra : List Name}
    (h : rec1 (line3 q extra) = rec2 (clearSurr (line3 q extra))) :
    step3 rec1 q extra = step3 rec2 (clearSurr q) extra := by
  unfold step3
  rw [line3_clearSurr, h]

theorem step4_congr {rec1 rec2 : Rec} {q : Query} {G : MG Name} {dwi : List (List Name)}
    (h : ∀ s ∈ line4 q G dwi, rec1 s = rec2 (clearSurr s)) :
    step4 rec1 q G dwi = step4 rec2 (clearSurr q) G dwi := by
  unfold step4
  have hm : (line4 (clearSurr q) G dwi).map rec2 = (line4 q G dwi).map rec1 := by
    rw [line4_clearSurr, List.map_map]
    exact List.map_congr_left (fun s hs => (h s hs).symm)
  rw [hm]
  rfl

/-- without declared experiments lines 6/7 are skipped -/
theorem step67_clearSurr (sep : SepTest) (rec : Rec) (q : Query) : step67 sep rec (clearSurr q) = .ok none := by
  unfold step67
  simp only [clearSurr_surr, List.isEmpty_nil, Bool.not_true, Bool.and_false, Bool.false_eq_true, ↓reduceIte]
  rfl

/-- when line 6 finds no usable domain lines 6/7 answer "go on to line 8" -/
theorem step67_not_fires {sep : SepTest} (rec : Rec) {q : Query} (h : line6Fires sep q = false) :
    step67 sep rec q = .ok none := by
  unfold step67
  unfold line6Fires at h
  split
  · rename_i hg
    rw [hg, Bool.true_and] at h
    cases hl : line6 sep q with
    | error e => rw [hl] at h; cases h
    | ok subs =>
      cases subs with
      | nil => rfl
      | cons a as => rw [hl] at h; cases h
  · rfl

theorem step811_congr {rec1 rec2 : Rec} {q : Query} {G : MG Name} {dwi : List (List Name)}
    (h : ∀ s ∈ sub811 q G dwi, rec1 s = rec2 (clearSurr s)) :
    step811 rec1 q G dwi = step811 rec2 (clearSurr q) G dwi := by
  unfold step811
  unfold sub811 at h
  split
  · rfl
  · rename_i hd
    rw [if_neg hd] at h
    cases dwi with
    | nil => rfl
    | cons c rest =>
      simp only at h ⊢
      split
      · rfl
      · rename_i hs
        rw [if_neg hs] at h
        split
        · rename_i c' hc
          rw [hc] at h
          simp only at h
          rw [line10Surr_clearSurr]
          cases hsu : line10Surr q G c' with
          | error e => rfl
          | ok o =>
            cases o with
            | none => rfl
            | some s =>
              rw [hsu] at h
              simp only at h
              rw [mapOk, okBind, okBind]
              simp only [Option.map_some]
              rw [line10_clearSurr q G c' s]
              cases hl : line10 q G c' s with
              | error e => rfl
              | ok q' =>
                rw [hl] at h
                rw [mapOk, okBind, okBind, h q' (List.mem_singleton.2 rfl)]
        · rfl

/-! ### the run -/

/-- **A run in which line 6 never finds a usable source domain is the run without declared experiments.** -/
theorem trsoF_clearSurr (sep : SepTest) :
    ∀ (fuel : Nat) (q : Query), usesLine6 sep fuel q = false → trsoF sep fuel q = trsoF sep fuel (clearSurr q)
  | 0, _, _ => rfl
  | fuel + 1, q, h => by
    have ih := trsoF_clearSurr sep fuel
    unfold usesLine6 at h
    unfold trsoF
    rw [clearSurr_graph]
    cases hg : q.graph with
    | error e => rfl
    | ok G =>
      rw [hg] at h
      simp only at h
      rw [okBind, okBind]
      rw [clearSurr_X, clearSurr_Y]
      by_cases hX : q.X.isEmpty = true
      · rw [if_pos hX, if_pos hX]; rfl
      · rw [if_neg hX, if_neg hX]
        rw [if_neg hX] at h
        cases ha : G.ancestorsInclusive q.Y with
        | error e => rfl
        | ok anc =>
          rw [ha] at h
          simp only at h
          rw [okBind, okBind]
          by_cases h2 : (!(diff' (regularNodes G) anc).isEmpty) = true
          · rw [if_pos h2, if_pos h2]
            rw [if_pos h2] at h
            refine step2_congr (fun q' hq' => ih q' ?_)
            rw [hq'] at h
            exact h
          · rw [if_neg h2, if_neg h2]
            rw [if_neg h2] at h
            cases he : noEffectOnOutcomes G q.X q.Y with
            | error e => rfl
            | ok extra =>
              rw [he] at h
              simp only at h
              rw [okBind, okBind]
              by_cases h3 : (!extra.isEmpty) = true
              · rw [if_pos h3, if_pos h3]
                rw [if_pos h3] at h
                exact step3_congr (ih _ h)
              · rw [if_neg h3, if_neg h3]
                rw [if_neg h3] at h
                by_cases h4 : (G.removeNodes q.X).districts.length > 1
                · rw [if_pos h4, if_pos h4]
                  rw [if_pos h4] at h
                  refine step4_congr (fun s hs => ih s ?_)
                  exact (List.any_eq_false.1 h) s hs |> Bool.eq_false_iff.2
                · rw [if_neg h4, if_neg h4]
                  rw [if_neg h4] at h
                  obtain ⟨hf, hsub⟩ := Bool.or_eq_false_iff.1 h
                  rw [step67_not_fires _ hf, step67_clearSurr, okBind, okBind]
                  refine step811_congr (fun s hs => ih s ?_)
                  exact (List.any_eq_false.1 hsub) s hs |> Bool.eq_false_iff.2

/-- the same for `trso` (the budget does not depend on the declared experiments) -/
theorem trso_clearSurr {sep : SepTest} {q : Query} (h : usesLine6 sep q.fuel q = false) :
    trso sep q = trso sep (clearSurr q) := by
  unfold trso
  rw [clearSurr_fuel]
  exact trsoF_clearSurr sep _ q h

/-! ### the exact version (`usesLine6x`: line 4 read lazily) -/

private theorem collectTerms_cons_eq {r : Except Err (Option Expr)} {l1 l2 : List (Except Err (Option Expr))}
    (h : (∃ t, r = .ok (some t)) → collectTerms l1 = collectTerms l2) :
    collectTerms (r :: l1) = collectTerms (r :: l2) := by
  cases r with
  | error e => rfl
  | ok o =>
    cases o with
    | none => rfl
    | some t =>
      unfold collectTerms
      rw [h ⟨t, rfl⟩]

/-- line 4, lazily: the two loops evaluate the same components and get the same answers -/
theorem collectTerms_anyUntil {use : Query → Bool} {rec1 rec2 : Rec}
    (hrec : ∀ s, use s = false → rec1 s = rec2 (clearSurr s)) :
    ∀ (l : List Query), anyUntil use rec1 l = false →
      collectTerms (l.map rec1) = collectTerms ((l.map clearSurr).map rec2)
  | [], _ => rfl
  | s :: rest, h => by
    unfold anyUntil at h
    obtain ⟨hu, hm⟩ := Bool.or_eq_false_iff.1 h
    rw [List.map_cons, List.map_cons, List.map_cons, ← hrec s hu]
    apply collectTerms_cons_eq
    rintro ⟨t, ht⟩
    rw [ht] at hm
    exact collectTerms_anyUntil hrec rest hm

theorem step4_congr_x {rec1 rec2 : Rec} {q : Query} {G : MG Name} {dwi : List (List Name)}
    (h : collectTerms ((line4 q G dwi).map rec1) = collectTerms (((line4 q G dwi).map clearSurr).map rec2)) :
    step4 rec1 q G dwi = step4 rec2 (clearSurr q) G dwi := by
  unfold step4
  rw [line4_clearSurr, h]
  rfl

/-- **A run that never uses line 6 at a state it really reaches is the run without declared experiments.** -/
theorem trsoF_clearSurr_x (sep : SepTest) :
    ∀ (fuel : Nat) (q : Query), usesLine6x sep fuel q = false → trsoF sep fuel q = trsoF sep fuel (clearSurr q)
  | 0, _, _ => rfl
  | fuel + 1, q, h => by
    have ih := trsoF_clearSurr_x sep fuel
    unfold usesLine6x at h
    unfold trsoF
    rw [clearSurr_graph]
    cases hg : q.graph with
    | error e => rfl
    | ok G =>
      rw [hg] at h
      simp only at h
      rw [okBind, okBind]
      rw [clearSurr_X, clearSurr_Y]
      by_cases hX : q.X.isEmpty = true
      · rw [if_pos hX, if_pos hX]; rfl
      · rw [if_neg hX, if_neg hX]
        rw [if_neg hX] at h
        cases ha : G.ancestorsInclusive q.Y with
        | error e => rfl
        | ok anc =>
          rw [ha] at h
          simp only at h
          rw [okBind, okBind]
          by_cases h2 : (!(diff' (regularNodes G) anc).isEmpty) = true
          · rw [if_pos h2, if_pos h2]
            rw [if_pos h2] at h
            refine step2_congr (fun q' hq' => ih q' ?_)
            rw [hq'] at h
            exact h
          · rw [if_neg h2, if_neg h2]
            rw [if_neg h2] at h
            cases he : noEffectOnOutcomes G q.X q.Y with
            | error e => rfl
            | ok extra =>
              rw [he] at h
              simp only at h
              rw [okBind, okBind]
              by_cases h3 : (!extra.isEmpty) = true
              · rw [if_pos h3, if_pos h3]
                rw [if_pos h3] at h
                exact step3_congr (ih _ h)
              · rw [if_neg h3, if_neg h3]
                rw [if_neg h3] at h
                by_cases h4 : (G.removeNodes q.X).districts.length > 1
                · rw [if_pos h4, if_pos h4]
                  rw [if_pos h4] at h
                  exact step4_congr_x (collectTerms_anyUntil ih _ h)
                · rw [if_neg h4, if_neg h4]
                  rw [if_neg h4] at h
                  obtain ⟨hf, hsub⟩ := Bool.or_eq_false_iff.1 h
                  rw [step67_not_fires _ hf, step67_clearSurr, okBind, okBind]
                  refine step811_congr (fun s hs => ih s ?_)
                  exact (List.any_eq_false.1 hsub) s hs |> Bool.eq_false_iff.2

theorem trso_clearSurr_x {sep : SepTest} {q : Query} (h : usesLine6x sep q.fuel q = false) :
    trso sep q = trso sep (clearSurr q) := by
  unfold trso
  rw [clearSurr_fuel]
  exact trsoF_clearSurr_x sep _ q h

theorem anyUntil_false_of_any {use use' : Query → Bool} {run : Rec} (huse : ∀ s, use' s = false → use s = false) :
    ∀ (l : List Query), l.any use' = false → anyUntil use run l = false
  | [], _ => rfl
  | s :: rest, h => by
    rw [List.any_cons] at h
    obtain ⟨h1, h2⟩ := Bool.or_eq_false_iff.1 h
    unfold anyUntil
    rw [huse s h1, Bool.false_or]
    have := anyUntil_false_of_any (run := run) huse rest h2
    split
    · exact this
    · rfl

theorem any_false_mono {use use' : Query → Bool} (huse : ∀ s, use' s = false → use s = false) (l : List Query)
    (h : l.any use' = false) : l.any use = false := by
  apply List.any_eq_false.2
  intro s hs
  rw [huse s (Bool.eq_false_iff.2 ((List.any_eq_false.1 h) s hs))]
  exact Bool.false_ne_true

/-- the exact predicate is below the conservative one (contrapositive form) -/
theorem usesLine6x_false_of (sep : SepTest) :
    ∀ (fuel : Nat) (q : Query), usesLine6 sep fuel q = false → usesLine6x sep fuel q = false
  | 0, _, _ => rfl
  | fuel + 1, q, h => by
    have ih := usesLine6x_false_of sep fuel
    unfold usesLine6 at h
    unfold usesLine6x
    cases hg : q.graph with
    | error e => rfl
    | ok G =>
      rw [hg] at h
      simp only at h ⊢
      by_cases hX : q.X.isEmpty = true
      · rw [if_pos hX]
      · rw [if_neg hX]
        rw [if_neg hX] at h
        cases ha : G.ancestorsInclusive q.Y with
        | error e => rfl
        | ok anc =>
          rw [ha] at h
          simp only at h ⊢
          by_cases h2 : (!(diff' (regularNodes G) anc).isEmpty) = true
          · rw [if_pos h2]
            rw [if_pos h2] at h
            cases hl : line2 q anc with
            | error e => rfl
            | ok q' =>
              rw [hl] at h
              exact ih q' h
          · rw [if_neg h2]
            rw [if_neg h2] at h
            cases he : noEffectOnOutcomes G q.X q.Y with
            | error e => rfl
            | ok extra =>
              rw [he] at h
              simp only at h ⊢
              by_cases h3 : (!extra.isEmpty) = true
              · rw [if_pos h3]
                rw [if_pos h3] at h
                exact ih _ h
              · rw [if_neg h3]
                rw [if_neg h3] at h
                by_cases h4 : (G.removeNodes q.X).districts.length > 1
                · rw [if_pos h4]
                  rw [if_pos h4] at h
                  exact anyUntil_false_of_any ih _ h
                · rw [if_neg h4]
                  rw [if_neg h4] at h
                  obtain ⟨hf, hsub⟩ := Bool.or_eq_false_iff.1 h
                  rw [hf, Bool.false_or]
                  exact any_false_mono ih _ hsub

/-- the exact predicate implies the conservative one: `usesLine6x … = false` is the weaker hypothesis -/
theorem usesLine6x_le {sep : SepTest} {fuel : Nat} {q : Query} (h : usesLine6x sep fuel q = true) :
    usesLine6 sep fuel q = true := by
  cases hu : usesLine6 sep fuel q with
  | true => rfl
  | false => rw [usesLine6x_false_of sep fuel q hu] at h; cases h

end Trso
end Y0
