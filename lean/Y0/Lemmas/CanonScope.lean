/-
  Y0.Lemmas.CanonScope — well-scopedness (`Expr.wss S`) is preserved by every constructor/operator the canonicaliser
  uses, hence by `canonL` itself.
-/
import Y0.Model.Canon
import Y0.Lemmas.SemScope
import Y0.Lemmas.DslList
import Y0.Lemmas.DslEq

namespace Y0
set_option linter.unusedSimpArgs false
set_option linter.unusedVariables false
set_option linter.unusedTactic false
set_option linter.unreachableTactic false

/-! ### the leaf clause as a proposition -/

structure LeafOKP (S : List Name) (c p : List Var) : Prop where
  nonempty : c ≠ []
  names : ((c ++ p).map (·.name)).Nodup
  world : ∀ v ∈ c ++ p, ∀ w ∈ c ++ p, v.ivs = w.ivs
  subs : ∀ v ∈ c ++ p, ∀ w ∈ c ++ p, ∀ i ∈ w.ivs, i.name ≠ v.name
  plus : ∀ v ∈ c ++ p, v.star = some true → v.name ∉ S

theorem namesNodup_iff (l : List Name) : namesNodup l = true ↔ l.Nodup := by
  induction l with
  | nil => simp [namesNodup]
  | cons x xs ih => simp [namesNodup, ih, List.nodup_cons]

theorem leafOK_iff {S : List Name} {c p : List Var} : leafOK S c p = true ↔ LeafOKP S c p := by
  unfold leafOK
  simp only [Bool.and_eq_true, Bool.not_eq_true', List.isEmpty_eq_false_iff, namesNodup_iff, List.all_eq_true,
    decide_eq_true_eq, bne_iff_ne, ne_eq, Bool.and_eq_false_imp, beq_iff_eq, List.contains_eq_mem]
  constructor
  · rintro ⟨⟨⟨⟨h1, h2⟩, h3⟩, h4⟩, h5⟩
    exact ⟨h1, h2, h3, h4, fun v hv hs => by simpa using h5 v hv hs⟩
  · rintro ⟨h1, h2, h3, h4, h5⟩
    exact ⟨⟨⟨⟨h1, h2⟩, h3⟩, h4⟩, fun v hv hs => by simpa using h5 v hv hs⟩

/-- the leaf clause is inherited by any re-arrangement of a sub-collection of the variables -/
theorem LeafOKP.of_perm_sub {S : List Name} {c p c' p' l : List Var} (h : LeafOKP S c p) (hc : c' ≠ [])
    (hp : (c' ++ p').Perm l) (hs : l.Sublist (c ++ p)) : LeafOKP S c' p' := by
  have hsub : ∀ v ∈ c' ++ p', v ∈ c ++ p := fun v hv => hs.subset (hp.subset hv)
  refine ⟨hc, ?_, ?_, ?_, ?_⟩
  · exact ((hp.map _).nodup_iff).mpr (h.names.sublist (hs.map _))
  · intro v hv w hw; exact h.world v (hsub v hv) w (hsub w hw)
  · intro v hv w hw; exact h.subs v (hsub v hv) w (hsub w hw)
  · intro v hv; exact h.plus v (hsub v hv)

/-! ### lists of expressions -/

theorem wssList_iff {S : List Name} {fs : List Expr} : Expr.wssList S fs = true ↔ ∀ e ∈ fs, Expr.wss S e = true := by
  induction fs with
  | nil => simp [Expr.wssList]
  | cons a l ih => simp [Expr.wssList, ih]

theorem rangesOK_iff {S : List Name} {r : List Var} :
    rangesOK S r = true ↔ (r.map (·.name)).Nodup ∧ ∀ v ∈ r, v.isPlain = true ∧ v.name ∈ S := by
  simp [rangesOK, List.all_eq_true, namesNodup_iff]

theorem rangesOK_of_subset {S : List Name} {r r' : List Var} (h : rangesOK S r = true) (hn : r'.Nodup)
    (hs : ∀ v ∈ r', v ∈ r) : rangesOK S r' = true := by
  obtain ⟨_, h2⟩ := rangesOK_iff.mp h
  exact rangesOK_iff.mpr ⟨nodup_names_of_plain (fun v hv => (h2 v (hs v hv)).1) hn, fun v hv => h2 v (hs v hv)⟩

theorem nodup_of_rangesOK {S : List Name} {r : List Var} (h : rangesOK S r = true) : r.Nodup :=
  nodup_of_nodup_map_name (rangesOK_iff.mp h).1

/-! ### Product.safe, flattening -/

theorem wss_productSafe {S : List Name} {es : List Expr} (h : ∀ e ∈ es, Expr.wss S e = true) :
    Expr.wss S (productSafe es) = true := by
  unfold productSafe
  simp only
  have hf : ∀ e ∈ es.filter (fun e => !e.isOne), Expr.wss S e = true :=
    fun e he => h e (List.mem_filter.mp he).1
  generalize es.filter (fun e => !e.isOne) = l at hf
  split
  · rfl
  · match l, hf with
    | [], _ => rfl
    | [e], hf => exact hf e (List.mem_singleton.mpr rfl)
    | a :: b :: r, hf =>
      simp only [Expr.wss]
      exact wssList_iff.mpr fun e he => hf e ((sortStable_perm _ _).subset he)

mutual
theorem wss_flattenFactors {S : List Name} : ∀ (es : List Expr), (∀ e ∈ es, Expr.wss S e = true) →
    ∀ e ∈ flattenFactors es, Expr.wss S e = true
  | [], _, e, he => by simp [flattenFactors] at he
  | a :: rest, h, e, he => by
    simp only [flattenFactors, List.mem_append] at he
    rcases he with he | he
    · exact wss_flattenFactor a (h a List.mem_cons_self) e he
    · exact wss_flattenFactors rest (fun x hx => h x (List.mem_cons_of_mem _ hx)) e he
theorem wss_flattenFactor {S : List Name} : ∀ (a : Expr), Expr.wss S a = true →
    ∀ e ∈ flattenFactor a, Expr.wss S e = true
  | .prod gs, h, e, he => by
    simp only [flattenFactor] at he
    simp only [Expr.wss] at h
    exact wss_flattenFactors gs (wssList_iff.mp h) e he
  | .prob _ _ _, h, e, he => by simp only [flattenFactor, List.mem_singleton] at he; exact he ▸ h
  | .sum _ _, h, e, he => by simp only [flattenFactor, List.mem_singleton] at he; exact he ▸ h
  | .frac _ _, h, e, he => by simp only [flattenFactor, List.mem_singleton] at he; exact he ▸ h
  | .one, h, e, he => by simp only [flattenFactor, List.mem_singleton] at he; exact he ▸ h
  | .zero, h, e, he => by simp only [flattenFactor, List.mem_singleton] at he; exact he ▸ h
  | .q _ _, h, e, he => by simp only [flattenFactor, List.mem_singleton] at he; exact he ▸ h
end

/-! ### `*`, `/` -/

theorem wss_mkFrac {S : List Name} {n d c : Expr} (hn : Expr.wss S n = true) (hd : Expr.wss S d = true)
    (h : mkFrac n d = .ok c) : Expr.wss S c = true := by
  unfold mkFrac at h
  split at h
  · cases h
  · cases h; simp [Expr.wss, hn, hd]

theorem wss_frac_iff {S : List Name} {n d : Expr} :
    Expr.wss S (.frac n d) = true ↔ Expr.wss S n = true ∧ Expr.wss S d = true := by simp [Expr.wss]

theorem wss_prod_iff {S : List Name} {fs : List Expr} :
    Expr.wss S (.prod fs) = true ↔ ∀ e ∈ fs, Expr.wss S e = true := by simp [Expr.wss, wssList_iff]

theorem wss_mulR {S : List Name} (a : Expr) (ha : Expr.wss S a = true) : ∀ (b c : Expr), Expr.wss S b = true →
    Expr.mulR a b = .ok c → Expr.wss S c = true
  | .frac n d, c, hb, h => by
    have hnd := wss_frac_iff.mp hb
    unfold Expr.mulR at h
    cases a with
    | sum e r =>
      cases h
      exact wss_productSafe (by intro x hx; simp at hx; rcases hx with rfl | rfl <;> assumption)
    | prob pop ch pa =>
      obtain ⟨x, hx, hc⟩ := bind_ok h
      exact wss_mkFrac (wss_mulR _ ha n x hnd.1 hx) hnd.2 hc
    | prod fs =>
      obtain ⟨x, hx, hc⟩ := bind_ok h
      exact wss_mkFrac (wss_mulR _ ha n x hnd.1 hx) hnd.2 hc
    | frac n1 d1 =>
      obtain ⟨x, hx, hc⟩ := bind_ok h
      exact wss_mkFrac (wss_mulR _ ha n x hnd.1 hx) hnd.2 hc
    | one =>
      obtain ⟨x, hx, hc⟩ := bind_ok h
      exact wss_mkFrac (wss_mulR _ ha n x hnd.1 hx) hnd.2 hc
    | zero =>
      obtain ⟨x, hx, hc⟩ := bind_ok h
      exact wss_mkFrac (wss_mulR _ ha n x hnd.1 hx) hnd.2 hc
    | q dd cc => simp [Expr.wss] at ha
  | .zero, c, hb, h => by
    unfold Expr.mulR at h
    cases a <;> cases h <;> first | rfl | (simp [Expr.wss] at ha)
  | .one, c, hb, h => by
    unfold Expr.mulR at h
    cases a <;> cases h <;> first
      | exact ha
      | (apply wss_productSafe; intro x hx; simp at hx; rcases hx with hx | rfl
         · exact wss_prod_iff.mp ha x hx
         · rfl)
      | (apply wss_productSafe; intro x hx; simp at hx; rcases hx with rfl | rfl <;> first | exact ha | rfl)
  | .prod gs, c, hb, h => by
    unfold Expr.mulR at h
    have hg := wss_prod_iff.mp hb
    cases a <;> cases h <;> first
      | (apply wss_productSafe; intro x hx; simp at hx; rcases hx with hx | hx
         · exact wss_prod_iff.mp ha x hx
         · exact hg x hx)
      | (apply wss_productSafe; intro x hx; simp at hx; rcases hx with rfl | hx
         · exact ha
         · exact hg x hx)
  | .prob pop ch pa, c, hb, h => by
    unfold Expr.mulR at h
    cases a <;> cases h <;> first
      | (apply wss_productSafe; intro x hx; simp at hx; rcases hx with hx | rfl
         · exact wss_prod_iff.mp ha x hx
         · exact hb)
      | (apply wss_productSafe; intro x hx; simp at hx; rcases hx with rfl | rfl <;> assumption)
  | .sum e r, c, hb, h => by
    unfold Expr.mulR at h
    cases a <;> cases h <;> first
      | (apply wss_productSafe; intro x hx; simp at hx; rcases hx with hx | rfl
         · exact wss_prod_iff.mp ha x hx
         · exact hb)
      | (apply wss_productSafe; intro x hx; simp at hx; rcases hx with rfl | rfl <;> assumption)
  | .q dd cc, c, hb, h => by simp [Expr.wss] at hb

theorem wss_mul {S : List Name} : ∀ (a b c : Expr), Expr.wss S a = true → Expr.wss S b = true →
    Expr.mul a b = .ok c → Expr.wss S c = true
  | .one, b, c, ha, hb, h => by unfold Expr.mul at h; cases h; exact hb
  | .zero, b, c, ha, hb, h => by unfold Expr.mul at h; cases h; rfl
  | .frac n d, .zero, c, ha, hb, h => by unfold Expr.mul at h; cases h; rfl
  | .frac n d, .frac n2 d2, c, ha, hb, h => by
    unfold Expr.mul at h
    obtain ⟨x, hx, h⟩ := bind_ok h
    obtain ⟨y, hy, hc⟩ := bind_ok h
    have h1 := wss_frac_iff.mp ha
    have h2 := wss_frac_iff.mp hb
    exact wss_mkFrac (wss_mul n n2 x h1.1 h2.1 hx) (wss_mul d d2 y h1.2 h2.2 hy) hc
  | .frac n d, .one, c, ha, hb, h => by
    unfold Expr.mul at h
    obtain ⟨x, hx, hc⟩ := bind_ok h
    have h1 := wss_frac_iff.mp ha
    exact wss_mkFrac (wss_mul n _ x h1.1 hb hx) h1.2 hc
  | .frac n d, .prob pop ch pa, c, ha, hb, h => by
    unfold Expr.mul at h
    obtain ⟨x, hx, hc⟩ := bind_ok h
    have h1 := wss_frac_iff.mp ha
    exact wss_mkFrac (wss_mul n _ x h1.1 hb hx) h1.2 hc
  | .frac n d, .prod gs, c, ha, hb, h => by
    unfold Expr.mul at h
    obtain ⟨x, hx, hc⟩ := bind_ok h
    have h1 := wss_frac_iff.mp ha
    exact wss_mkFrac (wss_mul n _ x h1.1 hb hx) h1.2 hc
  | .frac n d, .sum e r, c, ha, hb, h => by
    unfold Expr.mul at h
    obtain ⟨x, hx, hc⟩ := bind_ok h
    have h1 := wss_frac_iff.mp ha
    exact wss_mkFrac (wss_mul n _ x h1.1 hb hx) h1.2 hc
  | .frac n d, .q dd cc, c, ha, hb, h => by simp [Expr.wss] at hb
  | .prob pop ch pa, b, c, ha, hb, h => by unfold Expr.mul at h; exact wss_mulR _ ha b c hb h
  | .prod fs, b, c, ha, hb, h => by unfold Expr.mul at h; exact wss_mulR _ ha b c hb h
  | .sum e r, b, c, ha, hb, h => by unfold Expr.mul at h; exact wss_mulR _ ha b c hb h
  | .q dd cc, b, c, ha, hb, h => by simp [Expr.wss] at ha

theorem wss_div {S : List Name} (a b c : Expr) (ha : Expr.wss S a = true) (hb : Expr.wss S b = true)
    (h : Expr.div a b = .ok c) : Expr.wss S c = true := by
  cases a <;> cases b <;> simp only [Expr.div] at h <;>
  first
    | (cases h; first | exact ha | rfl)
    | (exact wss_mkFrac ha hb h)
    | (obtain ⟨x, hx, h⟩ := bind_ok h
       obtain ⟨y, hy, hc⟩ := bind_ok h
       have h1 := wss_frac_iff.mp ha
       have h2 := wss_frac_iff.mp hb
       exact wss_mkFrac (wss_mul _ _ x h1.1 h2.2 hx) (wss_mul _ _ y h1.2 h2.1 hy) hc)
    | (obtain ⟨x, hx, hc⟩ := bind_ok h
       have h1 := wss_frac_iff.mp ha
       exact wss_mkFrac h1.1 (wss_mul _ _ x h1.2 hb hx) hc)
    | (obtain ⟨x, hx, hc⟩ := bind_ok h
       have h2 := wss_frac_iff.mp hb
       exact wss_mkFrac (wss_mul _ _ x ha h2.2 hx) h2.1 hc)
    | (split at h
       · cases h
       · cases h; rfl)
    | (simp [Expr.wss] at ha; done)
    | (simp [Expr.wss] at hb; done)

/-! ### Sum.safe / Sum.simplify -/

theorem wss_sum_iff {S : List Name} {e : Expr} {r : List Var} :
    Expr.wss S (.sum e r) = true ↔ rangesOK S r = true ∧ Expr.wss S e = true := by simp [Expr.wss]

theorem wss_sumSafe0 {S : List Name} {e : Expr} {r : List Var} (he : Expr.wss S e = true)
    (hr : rangesOK S r = true) : Expr.wss S (sumSafe0 e r) = true := by
  have hr' : rangesOK S (upgradeOrdering r) = true := rangesOK_of_subset hr (nodup_upgradeOrdering _) (fun v hv => mem_upgradeOrdering.mp hv)
  unfold sumSafe0
  simp only
  split
  · exact he
  · cases e <;> simp only <;> first
      | rfl
      | exact wss_sum_iff.mpr ⟨hr', he⟩

theorem wss_sumSimplify {S : List Name} {e : Expr} {rs : List Var} (he : Expr.wss S e = true)
    (hr : rangesOK S rs = true) : Expr.wss S (sumSimplify e rs) = true := by
  unfold sumSimplify
  split
  · rename_i pop c
    have hleaf : LeafOKP S c [] := leafOK_iff.mp (by simpa [Expr.wss] using he)
    have hn : (c.map (·.name)).Nodup := by simpa using hleaf.names
    have hcn : c.Nodup := nodup_of_nodup_map_name hn
    have hsubleaf : ∀ ks : List Var, c.filter (fun v => memb v.base ks) ≠ [] →
        Expr.wss S (.prob pop (upgradeOrdering ((inter' (dedup' (c.map Var.base)) ks).filterMap (lastWithBase c))) []) = true := by
      intro ks hne
      rw [dictVals_eq_filter hn]
      simp only [Expr.wss]
      apply leafOK_iff.mpr
      have hperm := upgradeOrdering_perm_of_nodup (hcn.filter (fun v => memb v.base ks))
      refine hleaf.of_perm_sub ?_ (by simpa using hperm) (by simpa using List.filter_sublist)
      intro h0
      rw [h0] at hperm
      exact hne hperm.symm.eq_nil
    have hg : ((dedup' (c.map Var.base)).length != c.length) = false := dupBase_false_iff.mpr hn
    simp only [hg, Bool.false_eq_true, if_false]
    rw [dedup'_of_nodup (nodup_map_base hn)] at *
    split
    · rfl
    · split
      · exact wss_sumSafe0 rfl (rangesOK_of_subset hr (nodup_diff' (nodup_of_rangesOK hr) _) (fun v hv => (mem_diff'.mp hv).1))
      · rename_i hnk
        split
        · rename_i hsub
          apply hsubleaf
          -- some child is not summed out, otherwise keys ⊆ rs
          intro h0
          apply hnk
          apply subset'_iff.mpr
          intro k hk
          obtain ⟨v, hv, rfl⟩ := List.mem_map.mp hk
          by_contra hnot
          have : v ∈ c.filter (fun v => memb v.base (diff' (c.map Var.base) rs)) := by
            rw [List.mem_filter]; exact ⟨hv, by simp [memb, mem_diff', List.mem_map_of_mem hv, hnot]⟩
          rw [h0] at this; cases this
        · apply wss_sumSafe0
          · apply hsubleaf
            intro h0
            apply hnk
            apply subset'_iff.mpr
            intro k hk
            obtain ⟨v, hv, rfl⟩ := List.mem_map.mp hk
            by_contra hnot
            have : v ∈ c.filter (fun v => memb v.base (diff' (c.map Var.base) (inter' rs (c.map Var.base)))) := by
              rw [List.mem_filter]
              exact ⟨hv, by simp [memb, mem_diff', mem_inter', List.mem_map_of_mem hv, hnot]⟩
            rw [h0] at this; cases this
          · exact rangesOK_of_subset hr (nodup_diff' (nodup_of_rangesOK hr) _) (fun v hv => (mem_diff'.mp hv).1)
  · exact wss_sum_iff.mpr ⟨hr, he⟩

theorem wss_sumSafe {S : List Name} {e : Expr} {r : List Var} (b : Bool) (he : Expr.wss S e = true)
    (hr : rangesOK S r = true) : Expr.wss S (sumSafe e r b) = true := by
  have hr' : rangesOK S (upgradeOrdering r) = true := rangesOK_of_subset hr (nodup_upgradeOrdering _) (fun v hv => mem_upgradeOrdering.mp hv)
  unfold sumSafe
  simp only
  split
  · exact he
  · cases e <;> simp only <;> first
      | rfl
      | (split
         · exact wss_sumSimplify he hr'
         · exact wss_sum_iff.mpr ⟨hr', he⟩)

/-! ### sorting the variables of a leaf -/

theorem mapM_keyed_snd {lvl : Name → Option Nat} : ∀ (vs : List Var) (keyed : List (Key × Var)),
    vs.mapM (fun v => do pure (← varLevelKey lvl v, v)) = .ok keyed → keyed.map (·.2) = vs
  | [], keyed, h => by
    simp only [List.mapM_nil] at h
    cases h; rfl
  | v :: vs, keyed, h => by
    rw [List.mapM_cons] at h
    obtain ⟨a, ha, h⟩ := bind_ok h
    obtain ⟨rest, hrest, h⟩ := bind_ok h
    cases h
    obtain ⟨k, hk, ha⟩ := bind_ok ha
    cases ha
    simp [mapM_keyed_snd vs rest hrest]

theorem sortVars_perm {lvl : Name → Option Nat} {vs vs' : List Var} (h : sortVars lvl vs = .ok vs') : vs'.Perm vs := by
  unfold sortVars at h
  obtain ⟨keyed, hk, h⟩ := bind_ok h
  cases h
  rw [← mapM_keyed_snd vs keyed hk]
  exact (sortStable_perm _ _).map _

/-! ### the canonicaliser -/

theorem wss_postFrac {S : List Name} {rv : Expr} (h : Expr.wss S rv = true) : Expr.wss S (postFrac rv) = true := by
  unfold postFrac
  split
  · rename_i a b
    have := wss_frac_iff.mp h
    split
    · exact this.1
    · split
      · rfl
      · exact h
  · exact h

mutual
theorem wss_canonL {S : List Name} {lvl : Name → Option Nat} : ∀ (e e' : Expr), Expr.wss S e = true →
    canonL lvl e = .ok e' → Expr.wss S e' = true
  | .prob pop c p, e', hw, h => by
    unfold canonL at h
    obtain ⟨c', hc, h⟩ := bind_ok h
    obtain ⟨p', hp, h⟩ := bind_ok h
    cases h
    have hleaf : LeafOKP S c p := leafOK_iff.mp (by simpa [Expr.wss] using hw)
    simp only [Expr.wss]
    apply leafOK_iff.mpr
    have hcp := sortVars_perm hc
    have hpp := sortVars_perm hp
    refine hleaf.of_perm_sub ?_ (hcp.append hpp) (List.Sublist.refl _)
    intro h0; rw [h0] at hcp; exact hleaf.nonempty hcp.symm.eq_nil
  | .sum e r, e', hw, h => by
    unfold canonL at h
    obtain ⟨x, hx, h⟩ := bind_ok h
    cases h
    simp only [Expr.wss, Bool.and_eq_true] at hw
    exact wss_sumSafe true (wss_canonL e x hw.2 hx) hw.1
  | .prod fs, e', hw, h => by
    unfold canonL at h
    obtain ⟨x, hx, h⟩ := bind_ok h
    cases h
    apply wss_productSafe
    apply wss_flattenFactors
    exact wss_canonFactors fs x (wss_prod_iff.mp hw) hx
  | .frac n d, e', hw, h => by
    unfold canonL at h
    obtain ⟨n', hn, h⟩ := bind_ok h
    obtain ⟨d', hd, h⟩ := bind_ok h
    have h12 := wss_frac_iff.mp hw
    have hn' := wss_canonL n n' h12.1 hn
    have hd' := wss_canonL d d' h12.2 hd
    split at h
    · cases h; exact hn'
    · split at h
      · cases h; rfl
      · obtain ⟨rv, hrv, h⟩ := bind_ok h
        cases h
        exact wss_postFrac (wss_div _ _ _ hn' hd' hrv)
  | .one, e', hw, h => by unfold canonL at h; cases h; rfl
  | .zero, e', hw, h => by unfold canonL at h; cases h; rfl
  | .q _ _, e', hw, h => by simp [Expr.wss] at hw
theorem wss_canonFactors {S : List Name} {lvl : Name → Option Nat} : ∀ (fs fs' : List Expr),
    (∀ e ∈ fs, Expr.wss S e = true) → canonFactors lvl fs = .ok fs' → ∀ e ∈ fs', Expr.wss S e = true
  | [], fs', hw, h => by
    unfold canonFactors at h; cases h; intro e he; cases he
  | .prod gs :: rest, fs', hw, h => by
    unfold canonFactors at h
    obtain ⟨a, ha, h⟩ := bind_ok h
    obtain ⟨b, hb, h⟩ := bind_ok h
    cases h
    intro e he
    rcases List.mem_append.mp he with he | he
    · exact wss_canonFactors gs a (wss_prod_iff.mp (hw _ List.mem_cons_self)) ha e he
    · exact wss_canonFactors rest b (fun x hx => hw x (List.mem_cons_of_mem _ hx)) hb e he
  | .prob pop c p :: rest, fs', hw, h => by
    unfold canonFactors at h
    obtain ⟨a, ha, h⟩ := bind_ok h
    obtain ⟨b, hb, h⟩ := bind_ok h
    cases h
    intro e he
    rcases List.mem_cons.mp he with rfl | he
    · exact wss_canonL _ _ (hw _ List.mem_cons_self) ha
    · exact wss_canonFactors rest b (fun x hx => hw x (List.mem_cons_of_mem _ hx)) hb e he
  | .sum e0 r :: rest, fs', hw, h => by
    unfold canonFactors at h
    obtain ⟨a, ha, h⟩ := bind_ok h
    obtain ⟨b, hb, h⟩ := bind_ok h
    cases h
    intro e he
    rcases List.mem_cons.mp he with rfl | he
    · exact wss_canonL _ _ (hw _ List.mem_cons_self) ha
    · exact wss_canonFactors rest b (fun x hx => hw x (List.mem_cons_of_mem _ hx)) hb e he
  | .frac n d :: rest, fs', hw, h => by
    unfold canonFactors at h
    obtain ⟨a, ha, h⟩ := bind_ok h
    obtain ⟨b, hb, h⟩ := bind_ok h
    cases h
    intro e he
    rcases List.mem_cons.mp he with rfl | he
    · exact wss_canonL _ _ (hw _ List.mem_cons_self) ha
    · exact wss_canonFactors rest b (fun x hx => hw x (List.mem_cons_of_mem _ hx)) hb e he
  | .one :: rest, fs', hw, h => by
    unfold canonFactors at h
    obtain ⟨a, ha, h⟩ := bind_ok h
    obtain ⟨b, hb, h⟩ := bind_ok h
    cases h
    intro e he
    rcases List.mem_cons.mp he with rfl | he
    · exact wss_canonL _ _ (hw _ List.mem_cons_self) ha
    · exact wss_canonFactors rest b (fun x hx => hw x (List.mem_cons_of_mem _ hx)) hb e he
  | .zero :: rest, fs', hw, h => by
    unfold canonFactors at h
    obtain ⟨a, ha, h⟩ := bind_ok h
    obtain ⟨b, hb, h⟩ := bind_ok h
    cases h
    intro e he
    rcases List.mem_cons.mp he with rfl | he
    · exact wss_canonL _ _ (hw _ List.mem_cons_self) ha
    · exact wss_canonFactors rest b (fun x hx => hw x (List.mem_cons_of_mem _ hx)) hb e he
  | .q dd cc :: rest, fs', hw, h => by
    have := hw _ List.mem_cons_self
    simp [Expr.wss] at this
end

end Y0
