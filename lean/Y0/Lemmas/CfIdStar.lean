/-
  Y0.Lemmas.CfIdStar — structural facts about the ID* model (Y0/Model/IdStar.lean): shape of lines 4–9, error
  taxonomy, unreachable `RuntimeError`, monotonicity in the fuel, and the single-world vocabulary invariant.
-/
import Y0.Model.IdStar
import Y0.Props.C18
import Y0.Lemmas.CfBasic

namespace Y0
open MG

/-! ### `mapM` in `Except` -/

theorem mapM_ok_length {α β ε} (f : α → Except ε β) (l : List α) (r : List β) (h : l.mapM f = .ok r) :
    r.length = l.length := by
  induction l generalizing r with
  | nil => simp [List.mapM_nil, pure, Except.pure] at h; subst h; rfl
  | cons x xs ih =>
    rw [List.mapM_cons] at h
    simp only [bind, Except.bind, pure, Except.pure] at h
    cases hx : f x with
    | error e => rw [hx] at h; cases h
    | ok y =>
      rw [hx] at h
      cases hxs : xs.mapM f with
      | error e => rw [hxs] at h; cases h
      | ok ys =>
        rw [hxs] at h
        simp only [Except.ok.injEq] at h
        subst h
        simp [ih ys hxs]

theorem mapM_error {α β ε} (f : α → Except ε β) (l : List α) (e : ε) (h : l.mapM f = .error e) :
    ∃ x ∈ l, f x = .error e := by
  induction l with
  | nil => simp [List.mapM_nil, pure, Except.pure] at h
  | cons x xs ih =>
    rw [List.mapM_cons] at h
    simp only [bind, Except.bind, pure, Except.pure] at h
    cases hx : f x with
    | error e' =>
      rw [hx] at h
      simp only [Except.error.injEq] at h
      subst h
      exact ⟨x, by simp, hx⟩
    | ok y =>
      rw [hx] at h
      cases hxs : xs.mapM f with
      | error e' =>
        rw [hxs] at h
        simp only [Except.error.injEq] at h
        subst h
        obtain ⟨z, hz, hfz⟩ := ih hxs
        exact ⟨z, by simp [hz], hfz⟩
      | ok ys => rw [hxs] at h; cases h

theorem mapM_ok_mem {α β ε} (f : α → Except ε β) (l : List α) (r : List β) (h : l.mapM f = .ok r) :
    ∀ y ∈ r, ∃ x ∈ l, f x = .ok y := by
  induction l generalizing r with
  | nil => simp [List.mapM_nil, pure, Except.pure] at h; subst h; simp
  | cons x xs ih =>
    rw [List.mapM_cons] at h
    simp only [bind, Except.bind, pure, Except.pure] at h
    cases hx : f x with
    | error e => rw [hx] at h; cases h
    | ok y =>
      rw [hx] at h
      cases hxs : xs.mapM f with
      | error e => rw [hxs] at h; cases h
      | ok ys =>
        rw [hxs] at h
        simp only [Except.ok.injEq] at h
        subst h
        intro z hz
        rcases List.mem_cons.1 hz with rfl | hz
        · exact ⟨x, by simp, hx⟩
        · obtain ⟨w, hw, hfw⟩ := ih ys hxs z hz
          exact ⟨w, by simp [hw], hfw⟩

theorem mapM_mono {α β ε} (f g : α → Except ε β) (l : List α) (r : List β)
    (hfg : ∀ x y, f x = .ok y → g x = .ok y) (h : l.mapM f = .ok r) : l.mapM g = .ok r := by
  induction l generalizing r with
  | nil => simpa [List.mapM_nil] using h
  | cons x xs ih =>
    rw [List.mapM_cons] at h ⊢
    simp only [bind, Except.bind, pure, Except.pure] at h ⊢
    cases hx : f x with
    | error e => rw [hx] at h; cases h
    | ok y =>
      rw [hx] at h
      rw [hfg x y hx]
      cases hxs : xs.mapM f with
      | error e => rw [hxs] at h; cases h
      | ok ys =>
        rw [hxs] at h
        rw [ih ys hxs]
        exact h

namespace MG
theorem markovPillow_ok {α} [DecidableEq α] (G : MG α) (S : List α) (hS : ∀ s ∈ S, s ∈ G.nodes) :
    ∃ P, G.markovPillow S = .ok P := by
  have : S.all (· ∈ G.nodes) = true := by simpa using hS
  refine ⟨dedup' ((S.flatMap G.parents).filter (· ∉ S)), ?_⟩
  simp [markovPillow, checkSources, this, bind, Except.bind, pure, Except.pure]
end MG

namespace Cf

variable (ordf : List World → List World) (dordf : List Var → List Var) (G : MG Name)

/-! ### shape of lines 4–9 -/

/-- expose the nested `match` structure of `idStarLines4to9` in a hypothesis / in the goal -/
macro "unfold49" "at" h:ident : tactic =>
  `(tactic| (unfold idStarLines4to9 at $h:ident
             simp only [bind, Except.bind, pure, Except.pure, throw, throwThe, MonadExceptOf.throw] at $h:ident))
macro "unfold49" : tactic =>
  `(tactic| (unfold idStarLines4to9
             simp only [bind, Except.bind, pure, Except.pure, throw, throwThe, MonadExceptOf.throw]))

/-! ### districts of the non-self-intervened sub-graph -/

theorem wf_nsiSubgraph (cf : MG Var) : (nsiSubgraph cf).WF := wf_subgraph _ _

theorem mem_nsiSubgraph_nodes (cf : MG Var) (v : Var) (h : v ∈ (nsiSubgraph cf).nodes) : v ∈ cf.nodes := by
  unfold nsiSubgraph at h
  rw [mem_nodes_subgraph] at h
  exact (List.mem_filter.1 h).1

/-- **the `RuntimeError` of line 6 is unreachable**: a non-null graph that is not connected has at least two districts -/
theorem districts_ge_two (g : MG Var) (hg : g.WF) (hne : g.nodes ≠ []) (h1 : g.districts.length ≠ 1) :
    2 ≤ g.districts.length := by
  have : g.districts ≠ [] := by
    cases hn : g.nodes with
    | nil => exact absurd hn hne
    | cons v vs =>
      obtain ⟨d, hd, _⟩ := (districts_cover g hg v).1 (by simp [hn])
      intro h0; rw [h0] at hd; cases hd
  have : g.districts.length ≠ 0 := by simpa using this
  omega

theorem isConnected_ok (g : MG Var) (c : Bool) (h : isConnected g = .ok c) :
    g.nodes ≠ [] ∧ c = (g.districts.length == 1) := by
  unfold isConnected at h
  split at h
  · cases h
  · rename_i hn
    simp only [Except.ok.injEq] at h
    exact ⟨by simpa using hn, h.symm⟩

theorem isConnected_error (g : MG Var) (e : Err) (h : isConnected g = .error e) :
    e = .internal "NetworkXPointlessConcept" := by
  unfold isConnected at h
  split at h
  · simp only [Except.error.injEq] at h; exact h.symm
  · cases h

/-- order functions that only reorder -/
def SubsetOrder (dordf : List Var → List Var) : Prop := ∀ d x, x ∈ dordf d → x ∈ d

theorem eventsOfDistrict_ok (cf : MG Var) (d : List Var) (ev : Event) (hd : ∀ x ∈ d, x ∈ cf.nodes) :
    ∃ r, eventsOfDistrict cf d ev = .ok r := by
  obtain ⟨P, hP⟩ := MG.markovPillow_ok cf d hd
  unfold eventsOfDistrict
  rw [hP]
  simp only [bind, Except.bind, pure, Except.pure]
  split <;> exact ⟨_, rfl⟩

theorem eventsOfEachDistrict_ok {dordf : List Var → List Var} (hdo : SubsetOrder dordf) (cf : MG Var) (ev : Event) :
    ∃ evs, eventsOfEachDistrict dordf cf ev = .ok evs ∧ evs.length = (nsiSubgraph cf).districts.length := by
  unfold eventsOfEachDistrict
  cases h : (nsiSubgraph cf).districts.mapM (fun d => eventsOfDistrict cf (dordf d) ev) with
  | ok evs => exact ⟨evs, rfl, mapM_ok_length _ _ _ h⟩
  | error e =>
    obtain ⟨d, hd, hde⟩ := mapM_error _ _ _ h
    obtain ⟨r, hr⟩ := eventsOfDistrict_ok cf (dordf d) ev (fun x hx =>
      mem_nsiSubgraph_nodes cf x ((districts_cover _ (wf_nsiSubgraph cf) x).2 ⟨d, hd, hdo d x hx⟩))
    rw [hr] at hde
    cases hde

theorem line9_ok (g : MG Var) (hne : g.nodes ≠ []) : ∃ e, line9 g = .ok e := by
  unfold line9 probSafe
  have h1 : upgradeOrdering (g.nodes.map (fun v => Var.plain v.name)) ≠ [] := by
    unfold upgradeOrdering
    intro h0
    have hl := length_sortBy Var.keyLt (dedup' (g.nodes.map (fun v => Var.plain v.name)))
    rw [h0] at hl
    have : dedup' (g.nodes.map (fun v => Var.plain v.name)) ≠ [] := dedup'_ne_nil _ (by simpa using hne)
    exact this (List.length_eq_zero_iff.1 hl.symm)
  simp only [List.map_map]
  have h2 : (upgradeOrdering (List.map (Var.plain ∘ fun x => x.name) g.nodes)).isEmpty = false := by
    simpa [Function.comp_def] using h1
  rw [if_neg (by simp [h2])]
  split <;> exact ⟨_, rfl⟩

/-! ### error taxonomy -/

/-- the errors that are not excluded by a theorem: the documented refusal, and two internal conditions -/
def AllowedErr (e : Err) : Prop :=
  e = .unidentifiable ∨ e = .internal "fuel" ∨ e = .internal "NetworkXPointlessConcept"

theorem lines4to9_error {dordf : List Var → List Var} (hdo : SubsetOrder dordf) (rec : Event → Except Err Expr)
    (hrec : ∀ ev' e', rec ev' = .error e' → AllowedErr e')
    (topo : List Name) (hG : G.topologicalSort = .ok topo) (ev : Event) (e : Err)
    (h : idStarLines4to9 ordf dordf G rec ev = .error e) : AllowedErr e := by
  unfold49 at h
  cases hcg : makeCounterfactualGraph ordf G ev with
  | error err =>
    rw [(cg_error_iff_cyclic ordf G ev err).1 hcg] at hG
    cases hG
  | ok v =>
    rw [hcg] at h
    simp only at h
    rcases v with ⟨cf, new⟩
    cases new with
    | none => cases h
    | some nev =>
      simp only at h
      cases hc : isConnected (nsiSubgraph cf) with
      | error err =>
        rw [hc] at h
        simp only [Except.error.injEq] at h
        subst h
        exact Or.inr (Or.inr (isConnected_error _ _ hc))
      | ok c =>
        rw [hc] at h
        simp only at h
        obtain ⟨hne, hcv⟩ := isConnected_ok _ _ hc
        split at h
        · rename_i hnc
          obtain ⟨evs, hevs, hlen⟩ := eventsOfEachDistrict_ok hdo cf nev
          rw [hevs] at h
          simp only at h
          have h2 : 2 ≤ evs.length := by
            rw [hlen]
            apply districts_ge_two _ (wf_nsiSubgraph cf) hne
            intro h1
            rw [hcv] at hnc
            simp [h1] at hnc
          split at h
          · omega
          · cases hm : evs.mapM rec with
            | error err =>
              rw [hm] at h
              simp only [Except.error.injEq] at h
              subst h
              obtain ⟨x, _, hx⟩ := mapM_error _ _ _ hm
              exact hrec x _ hx
            | ok fs => rw [hm] at h; cases h
        · split at h
          · simp only [Except.error.injEq] at h
            exact Or.inl h.symm
          · obtain ⟨e9, he9⟩ := line9_ok _ hne
            rw [he9] at h
            cases h

theorem body_error {dordf : List Var → List Var} (hdo : SubsetOrder dordf) (rec : Event → Except Err Expr)
    (hrec : ∀ ev' e', rec ev' = .error e' → AllowedErr e')
    (topo : List Name) (hG : G.topologicalSort = .ok topo) (ev : Event) (e : Err)
    (h : idStarBody ordf dordf G rec ev = .error e) : AllowedErr e := by
  unfold idStarBody at h
  split at h
  · cases h
  · split at h
    · cases h
    · split at h
      · exact hrec _ _ h
      · exact lines4to9_error ordf G hdo rec hrec topo hG ev e h

theorem idStarFuel_error {dordf : List Var → List Var} (hdo : SubsetOrder dordf)
    (topo : List Name) (hG : G.topologicalSort = .ok topo) (fuel : Nat) (ev : Event) (e : Err)
    (h : idStarFuel ordf dordf G fuel ev = .error e) : AllowedErr e := by
  induction fuel generalizing ev e with
  | zero =>
    simp only [idStarFuel, Except.error.injEq] at h
    exact Or.inr (Or.inl h.symm)
  | succ n ih =>
    simp only [idStarFuel] at h
    exact body_error ordf G hdo _ (fun ev' e' he' => ih ev' e' he') topo hG ev e h

/-! ### monotonicity in the fuel -/

theorem lines4to9_mono (rec rec' : Event → Except Err Expr) (hrr : ∀ ev x, rec ev = .ok x → rec' ev = .ok x)
    (ev : Event) (x : Expr) (h : idStarLines4to9 ordf dordf G rec ev = .ok x) :
    idStarLines4to9 ordf dordf G rec' ev = .ok x := by
  unfold49 at h
  unfold49
  cases hcg : makeCounterfactualGraph ordf G ev with
  | error err => rw [hcg] at h; cases h
  | ok v =>
    rw [hcg] at h
    simp only at h ⊢
    rcases v with ⟨cf, new⟩
    cases new with
    | none => exact h
    | some nev =>
      simp only at h ⊢
      cases hc : isConnected (nsiSubgraph cf) with
      | error err => rw [hc] at h; cases h
      | ok c =>
        rw [hc] at h
        simp only at h ⊢
        split
        · rename_i hnc
          rw [if_pos hnc] at h
          cases hev : eventsOfEachDistrict dordf cf nev with
          | error err => rw [hev] at h; cases h
          | ok evs =>
            rw [hev] at h
            simp only at h ⊢
            split
            · rename_i hl; rw [if_pos hl] at h; cases h
            · rename_i hl
              rw [if_neg hl] at h
              cases hm : evs.mapM rec with
              | error err => rw [hm] at h; cases h
              | ok fs =>
                rw [hm] at h
                rw [mapM_mono rec rec' evs fs hrr hm]
                exact h
        · rename_i hnc
          rw [if_neg hnc] at h
          exact h

theorem body_mono (rec rec' : Event → Except Err Expr) (hrr : ∀ ev x, rec ev = .ok x → rec' ev = .ok x)
    (ev : Event) (x : Expr) (h : idStarBody ordf dordf G rec ev = .ok x) : idStarBody ordf dordf G rec' ev = .ok x := by
  unfold idStarBody at h ⊢
  split
  · rename_i h1; rw [if_pos h1] at h; exact h
  · rename_i h1
    rw [if_neg h1] at h
    split
    · rename_i h2; rw [if_pos h2] at h; exact h
    · rename_i h2
      rw [if_neg h2] at h
      split
      · rename_i h3; rw [if_pos h3] at h; exact hrr _ _ h
      · rename_i h3; rw [if_neg h3] at h; exact lines4to9_mono ordf dordf G rec rec' hrr ev x h

theorem idStarFuel_mono (fuel : Nat) (ev : Event) (x : Expr) (h : idStarFuel ordf dordf G fuel ev = .ok x) :
    idStarFuel ordf dordf G (fuel + 1) ev = .ok x := by
  induction fuel generalizing ev x with
  | zero => simp [idStarFuel] at h
  | succ n ih =>
    rw [idStarFuel] at h ⊢
    exact body_mono ordf dordf G _ _ (fun ev' x' h' => ih ev' x' h') ev x h

/-! ### vocabulary: every leaf is a single-world term -/

/-- every `P(…)` leaf mentions one world only: all its variables carry the same subscript set -/
inductive SingleWorld : Expr → Prop
  | prob (pop : Option Var) (c p : List Var) :
      (∀ x ∈ c ++ p, ∀ y ∈ c ++ p, x.ivs = y.ivs) → SingleWorld (.prob pop c p)
  | prod (fs : List Expr) : (∀ f ∈ fs, SingleWorld f) → SingleWorld (.prod fs)
  | sum (e : Expr) (r : List Var) : SingleWorld e → SingleWorld (.sum e r)
  | frac (n d : Expr) : SingleWorld n → SingleWorld d → SingleWorld (.frac n d)
  | one : SingleWorld .one
  | zero : SingleWorld .zero

theorem singleWorld_probSafe (bases : List Name) (ivs : List Iv) (e : Expr) (h : probSafe bases ivs = .ok e) :
    SingleWorld e := by
  unfold probSafe at h
  simp only at h
  split at h
  · cases h
  · split at h
    · simp only [Except.ok.injEq] at h
      subst h
      apply SingleWorld.prob
      intro x hx y hy
      simp only [List.append_nil, upgradeOrdering, mem_sortBy, mem_dedup', List.mem_map] at hx hy
      obtain ⟨a, _, rfl⟩ := hx
      obtain ⟨b, _, rfl⟩ := hy
      rfl
    · simp only [Except.ok.injEq] at h
      subst h
      apply SingleWorld.prob
      intro x hx y hy
      simp only [List.append_nil, List.mem_map] at hx hy
      obtain ⟨a, _, rfl⟩ := hx
      obtain ⟨b, _, rfl⟩ := hy
      rfl

theorem singleWorld_sumSafe (e : Expr) (rs : List Name) (h : SingleWorld e) : SingleWorld (sumSafe e rs) := by
  unfold sumSafe
  simp only
  split
  · exact h
  · split
    · exact h
    · exact SingleWorld.sum _ _ h

theorem singleWorld_productSafe (fs : List Expr) (h : ∀ f ∈ fs, SingleWorld f) : SingleWorld (productSafe fs) := by
  unfold productSafe
  simp only
  split
  · exact SingleWorld.zero
  · have hf : ∀ f ∈ fs.filter (fun e => !isOneE e), SingleWorld f := fun f hf => h f (List.mem_filter.1 hf).1
    split
    · exact SingleWorld.one
    · rename_i e he
      exact hf e (by rw [he]; simp)
    · exact SingleWorld.prod _ hf

theorem lines4to9_singleWorld (rec : Event → Except Err Expr) (hrec : ∀ ev x, rec ev = .ok x → SingleWorld x)
    (ev : Event) (x : Expr) (h : idStarLines4to9 ordf dordf G rec ev = .ok x) : SingleWorld x := by
  unfold49 at h
  cases hcg : makeCounterfactualGraph ordf G ev with
  | error err => rw [hcg] at h; cases h
  | ok v =>
    rw [hcg] at h
    simp only at h
    rcases v with ⟨cf, new⟩
    cases new with
    | none =>
      simp only [Except.ok.injEq] at h
      subst h
      exact SingleWorld.zero
    | some nev =>
      simp only at h
      cases hc : isConnected (nsiSubgraph cf) with
      | error err => rw [hc] at h; cases h
      | ok c =>
        rw [hc] at h
        simp only at h
        split at h
        · cases hev : eventsOfEachDistrict dordf cf nev with
          | error err => rw [hev] at h; cases h
          | ok evs =>
            rw [hev] at h
            simp only at h
            split at h
            · cases h
            · cases hm : evs.mapM rec with
              | error err => rw [hm] at h; cases h
              | ok fs =>
                rw [hm] at h
                simp only [Except.ok.injEq] at h
                subst h
                apply singleWorld_sumSafe
                apply singleWorld_productSafe
                intro f hf
                obtain ⟨e', _, he'⟩ := mapM_ok_mem _ _ _ hm f hf
                exact hrec e' f he'
        · split at h
          · cases h
          · cases h9 : line9 (nsiSubgraph cf) with
            | error err => rw [h9] at h; cases h
            | ok e9 =>
              rw [h9] at h
              simp only [Except.ok.injEq] at h
              subst h
              apply singleWorld_sumSafe
              exact singleWorld_probSafe _ _ _ h9

theorem body_singleWorld (rec : Event → Except Err Expr) (hrec : ∀ ev x, rec ev = .ok x → SingleWorld x)
    (ev : Event) (x : Expr) (h : idStarBody ordf dordf G rec ev = .ok x) : SingleWorld x := by
  unfold idStarBody at h
  split at h
  · simp only [Except.ok.injEq] at h; subst h; exact SingleWorld.one
  · split at h
    · simp only [Except.ok.injEq] at h; subst h; exact SingleWorld.zero
    · split at h
      · exact hrec _ _ h
      · exact lines4to9_singleWorld ordf dordf G rec hrec ev x h

theorem idStarFuel_singleWorld (fuel : Nat) (ev : Event) (x : Expr) (h : idStarFuel ordf dordf G fuel ev = .ok x) :
    SingleWorld x := by
  induction fuel generalizing ev x with
  | zero => simp [idStarFuel] at h
  | succ n ih =>
    rw [idStarFuel] at h
    exact body_singleWorld ordf dordf G _ (fun ev' x' h' => ih ev' x' h') ev x h

end Cf
end Y0
