/-
  Y0.Lemmas.HedgeNonIdSub — non-identifiability is inherited from edge-subgraphs: a model compatible with a graph `H` on
  the same nodes with fewer edges is compatible with `G` (`Compatible` only bounds what a mechanism may read and which
  variables may share a latent), and `P(v)`, `P(y | do(x))` of a model read the graph only through its node list.
-/
import Y0.Spec.Identifiable
import Y0.Lemmas.QFactor

namespace Y0
namespace NonId

/-- `H` has the nodes of `G` and some of its edges -/
structure EdgeSub (H G : MG Name) : Prop where
  nodes : H.nodes = G.nodes
  di : ∀ e ∈ H.di, e ∈ G.di
  bi : ∀ u v, H.hasBi u v = true → G.hasBi u v = true

theorem compatible_of_edgeSub {H G : MG Name} (hs : EdgeSub H G) {M : Scm} (hM : M.Compatible H) : M.Compatible G := by
  refine ⟨hM.card_pos, hM.lat_nodup, ?_, hM.prior_pos, hM.prior_sum, hM.latOf_sub, ?_, ?_, ?_, ?_⟩
  · intro u hu; rw [← hs.nodes]; exact hM.lat_fresh u hu
  · intro v hv
    rw [← hs.nodes] at hv
    apply (hM.kern_dep v hv).mono
    intro w hw
    simp only [List.cons_append, List.mem_cons, List.mem_append] at hw ⊢
    rcases hw with h | h | h
    · exact Or.inl h
    · exact Or.inr (Or.inl (MG.mem_parents.mpr (hs.di _ (MG.mem_parents.mp h))))
    · exact Or.inr (Or.inr h)
  · intro v hv; rw [← hs.nodes] at hv; exact hM.kern_pos v hv
  · intro v hv; rw [← hs.nodes] at hv; exact hM.kern_sum v hv
  · intro v hv w hw hne hsh
    rw [← hs.nodes] at hv hw
    exact hs.bi v w (hM.compat v hv w hw hne hsh)

/-- identifiability in `G` implies identifiability in every edge-subgraph on the same nodes -/
theorem identifiable_edgeSub {H G : MG Name} (hs : EdgeSub H G) {X Y : List Name} (h : Identifiable G X Y) :
    Identifiable H X Y := by
  intro M₁ M₂ h₁ h₂ he σ hσ
  have := h M₁ M₂ (compatible_of_edgeSub hs h₁) (compatible_of_edgeSub hs h₂)
    ⟨fun v hv => he.card_eq v (hs.nodes ▸ hv), fun τ hτ => by
      have := he.obs_eq τ (fun v hv => hτ v (hs.nodes ▸ hv))
      simpa [Scm.obs, hs.nodes] using this⟩ σ (fun v hv => hσ v (hs.nodes ▸ hv))
  simpa [Scm.doProb, hs.nodes] using this

/-- **lifting along edge-subgraphs**: an effect that is not identifiable in an edge-subgraph is not identifiable in
the graph -/
theorem not_identifiable_of_subgraph {H G : MG Name} (hs : EdgeSub H G) {X Y : List Name}
    (h : ¬ Identifiable H X Y) : ¬ Identifiable G X Y := fun h' => h (identifiable_edgeSub hs h')

end NonId
end Y0
