/-
  Y0.Lemmas.CtfSplit — the probabilistic core of the counterfactual (split) lemma over the functional SCMs of
  Y0/Spec/Fscm.lean: the noise space is a PRODUCT of independent exogenous variables, so

    * `wsum_split`      two quantities that read disjoint sets of exogenous coordinates are independent:
                        E[F·G] = E[F]·E[G]   (needs only that every pmf sums to one);
    * `wsum_split_list` the same for a list of quantities with pairwise disjoint coordinate sets;
    * `wsum_marginal`   summing an event over all values of a variable that takes its values below `n`.

  `wsum noise F = Σ_u w(u)·F(u)`; `prob M cs = wsum M.noise (indicator of "every conjunct holds")` (`prob_eq_wsum`).
-/
import Y0.Lemmas.CfFscm
import Y0.Spec.CtfSem
import Mathlib.Algebra.BigOperators.Ring.List
import Mathlib.Tactic.Ring

namespace Y0.Fscm

/-- expectation of `F` over the noise space -/
def wsum (noise : List (List Rat)) (F : NoisePoint → Rat) : Rat :=
  ((space noise).map fun p => p.2 * F p.1).sum

/-- `F` only reads the exogenous coordinates in `P` -/
def DepOn (F : NoisePoint → Rat) (P : Nat → Prop) : Prop :=
  ∀ u u' : NoisePoint, (∀ j, P j → u.getD j 0 = u'.getD j 0) → F u = F u'

def ind (b : Bool) : Rat := if b then 1 else 0

theorem ind_and (a b : Bool) : ind (a && b) = ind a * ind b := by
  cases a <;> cases b <;> simp [ind]

theorem sum_map_flatMap {α β : Type} (l : List α) (f : α → List β) (g : β → Rat) :
    ((l.flatMap f).map g).sum = (l.map fun a => ((f a).map g).sum).sum := by
  induction l with
  | nil => rfl
  | cons a l ih => simp [List.flatMap_cons, List.map_append, List.sum_append, ih]

theorem wsum_nil (F : NoisePoint → Rat) : wsum [] F = F [] := by
  simp [wsum, space]

theorem wsum_cons (pmf : List Rat) (rest : List (List Rat)) (F : NoisePoint → Rat) :
    wsum (pmf :: rest) F = (pmf.zipIdx.map fun px => px.1 * wsum rest (fun pt => F (px.2 :: pt))).sum := by
  unfold wsum
  simp only [space]
  rw [sum_map_flatMap]
  apply sum_map_congr
  rintro ⟨p, x⟩ _
  simp only [List.map_map]
  rw [← List.sum_map_mul_left]
  apply sum_map_congr
  rintro ⟨pt, w⟩ _
  simp only [Function.comp]
  ring

theorem wsum_congr (noise : List (List Rat)) (F G : NoisePoint → Rat) (h : ∀ u, F u = G u) :
    wsum noise F = wsum noise G := by
  have : F = G := funext h
  rw [this]

theorem wsum_mul_left (noise : List (List Rat)) (c : Rat) (F : NoisePoint → Rat) :
    wsum noise (fun u => c * F u) = c * wsum noise F := by
  unfold wsum
  rw [← List.sum_map_mul_left]
  apply sum_map_congr
  intro p _
  ring

theorem wsum_add (noise : List (List Rat)) (F G : NoisePoint → Rat) :
    wsum noise (fun u => F u + G u) = wsum noise F + wsum noise G := by
  unfold wsum
  induction space noise with
  | nil => simp
  | cons p l ih =>
    simp only [List.map_cons, List.sum_cons, ih]
    ring

theorem sum_zipIdx_fst (pmf : List Rat) (k : Nat) : ((pmf.zipIdx k).map fun px => px.1).sum = pmf.sum := by
  induction pmf generalizing k with
  | nil => rfl
  | cons p l ih => simp [List.zipIdx_cons]

/-- the total mass is one -/
theorem wsum_const (noise : List (List Rat)) (hn : ∀ pmf ∈ noise, pmf.sum = 1) (c : Rat) :
    wsum noise (fun _ => c) = c := by
  induction noise with
  | nil => exact wsum_nil _
  | cons pmf rest ih =>
    rw [wsum_cons]
    have hrest := ih (fun q hq => hn q (by simp [hq]))
    simp only [hrest]
    rw [List.sum_map_mul_right, sum_zipIdx_fst, hn pmf (by simp)]
    ring

theorem depOn_tail (F : NoisePoint → Rat) (P : Nat → Prop) (h : DepOn F P) (x : Nat) :
    DepOn (fun pt => F (x :: pt)) (fun j => P (j + 1)) := by
  intro u u' hu
  apply h
  intro j hj
  cases j with
  | zero => rfl
  | succ j => simpa using hu j hj

theorem depOn_head_irrelevant (F : NoisePoint → Rat) (P : Nat → Prop) (h : DepOn F P) (h0 : ¬ P 0) (x y : Nat)
    (pt : NoisePoint) : F (x :: pt) = F (y :: pt) := by
  apply h
  intro j hj
  cases j with
  | zero => exact absurd hj h0
  | succ j => rfl

/-- **independence of disjoint noise blocks.** -/
theorem wsum_split (noise : List (List Rat)) (hn : ∀ pmf ∈ noise, pmf.sum = 1) :
    ∀ (F G : NoisePoint → Rat) (P Q : Nat → Prop), DepOn F P → DepOn G Q → (∀ j, P j → ¬ Q j) →
      wsum noise (fun u => F u * G u) = wsum noise F * wsum noise G := by
  induction noise with
  | nil => intro F G P Q _ _ _; simp [wsum_nil]
  | cons pmf rest ih =>
    intro F G P Q hF hG hPQ
    have hrest : ∀ q ∈ rest, q.sum = 1 := fun q hq => hn q (by simp [hq])
    have hpmf : pmf.sum = 1 := hn pmf (by simp)
    have hstep : ∀ x, wsum rest (fun pt => F (x :: pt) * G (x :: pt)) =
        wsum rest (fun pt => F (x :: pt)) * wsum rest (fun pt => G (x :: pt)) := by
      intro x
      exact ih hrest _ _ _ _ (depOn_tail F P hF x) (depOn_tail G Q hG x) (fun j hj => hPQ (j + 1) hj)
    rw [wsum_cons, wsum_cons, wsum_cons]
    simp only [hstep]
    by_cases h0 : P 0
    · -- `G` does not read coordinate 0
      have hQ0 : ¬ Q 0 := hPQ 0 h0
      have hc : ∀ x, wsum rest (fun pt => G (x :: pt)) = wsum rest (fun pt => G (0 :: pt)) := by
        intro x
        apply wsum_congr
        intro pt
        exact depOn_head_irrelevant G Q hG hQ0 x 0 pt
      simp only [hc]
      rw [List.sum_map_mul_right (l := pmf.zipIdx) (f := fun px => px.1) , sum_zipIdx_fst, hpmf, one_mul,
        ← List.sum_map_mul_right]
      apply sum_map_congr
      intro px _
      ring
    · have hc : ∀ x, wsum rest (fun pt => F (x :: pt)) = wsum rest (fun pt => F (0 :: pt)) := by
        intro x
        apply wsum_congr
        intro pt
        exact depOn_head_irrelevant F P hF h0 x 0 pt
      simp only [hc]
      rw [List.sum_map_mul_right (l := pmf.zipIdx) (f := fun px => px.1), sum_zipIdx_fst, hpmf, one_mul,
        ← List.sum_map_mul_left]
      apply sum_map_congr
      intro px _
      ring

theorem depOn_mono (F : NoisePoint → Rat) (P Q : Nat → Prop) (h : DepOn F P) (hPQ : ∀ j, P j → Q j) : DepOn F Q :=
  fun u u' hu => h u u' (fun j hj => hu j (hPQ j hj))

theorem depOn_mul (F G : NoisePoint → Rat) (P Q : Nat → Prop) (hF : DepOn F P) (hG : DepOn G Q) :
    DepOn (fun u => F u * G u) (fun j => P j ∨ Q j) := by
  intro u u' hu
  show F u * G u = F u' * G u'
  rw [hF u u' (fun j hj => hu j (Or.inl hj)), hG u u' (fun j hj => hu j (Or.inr hj))]

theorem depOn_const (c : Rat) (P : Nat → Prop) : DepOn (fun _ => c) P := fun _ _ _ => rfl

/-- product of the quantities of a list, pointwise -/
def prodAt (Fs : List ((NoisePoint → Rat) × (Nat → Prop))) (u : NoisePoint) : Rat :=
  (Fs.map fun p => p.1 u).foldr (· * ·) 1

theorem depOn_prodAt (Fs : List ((NoisePoint → Rat) × (Nat → Prop))) (h : ∀ p ∈ Fs, DepOn p.1 p.2) :
    DepOn (prodAt Fs) (fun j => ∃ p ∈ Fs, p.2 j) := by
  induction Fs with
  | nil => exact depOn_const 1 _
  | cons p Fs ih =>
    have h1 := depOn_mul p.1 (prodAt Fs) p.2 _ (h p (by simp)) (ih (fun q hq => h q (by simp [hq])))
    refine depOn_mono _ _ _ h1 ?_
    rintro j (hj | ⟨q, hq, hqj⟩)
    · exact ⟨p, by simp, hj⟩
    · exact ⟨q, by simp [hq], hqj⟩

/-- **independence of pairwise disjoint noise blocks.** -/
theorem wsum_split_list (noise : List (List Rat)) (hn : ∀ pmf ∈ noise, pmf.sum = 1)
    (Fs : List ((NoisePoint → Rat) × (Nat → Prop))) (h : ∀ p ∈ Fs, DepOn p.1 p.2)
    (hdisj : Fs.Pairwise (fun a b => ∀ j, a.2 j → ¬ b.2 j)) :
    wsum noise (prodAt Fs) = (Fs.map fun p => wsum noise p.1).foldr (· * ·) 1 := by
  induction Fs with
  | nil => exact wsum_const noise hn 1
  | cons p Fs ih =>
    rw [List.pairwise_cons] at hdisj
    have hsplit := wsum_split noise hn p.1 (prodAt Fs) p.2 _ (h p (by simp))
      (depOn_prodAt Fs (fun q hq => h q (by simp [hq])))
      (by rintro j hj ⟨q, hq, hqj⟩; exact hdisj.1 q hq j hj hqj)
    have : prodAt (p :: Fs) = fun u => p.1 u * prodAt Fs u := rfl
    rw [this, hsplit, ih (fun q hq => h q (by simp [hq])) hdisj.2]
    rfl

/-! ### marginalisation -/

theorem wsum_list_sum {α : Type} (noise : List (List Rat)) (l : List α) (G : α → NoisePoint → Rat) :
    wsum noise (fun u => (l.map fun k => G k u).sum) = (l.map fun k => wsum noise (G k)).sum := by
  induction l with
  | nil =>
    simp only [List.map_nil, List.sum_nil]
    unfold wsum
    apply sum_map_zero
    intro p _
    ring
  | cons k l ih =>
    simp only [List.map_cons, List.sum_cons]
    rw [wsum_add, ih]

theorem sum_ind_range (n x : Nat) (hx : x < n) : ((List.range n).map fun k => ind (x == k)).sum = 1 := by
  induction n with
  | zero => omega
  | succ n ih =>
    rw [List.range_succ, List.map_append, List.sum_append]
    by_cases hxn : x = n
    · subst hxn
      have : ((List.range x).map fun k => ind (x == k)).sum = 0 := by
        apply sum_map_zero
        intro k hk
        have : k < x := List.mem_range.1 hk
        have hne : (x == k) = false := by simp; omega
        simp [ind, hne]
      rw [this]
      simp [ind]
    · rw [ih (by omega)]
      simp [ind, hxn]

/-- summing over all values of a quantity that stays below `n` -/
theorem wsum_marginal (noise : List (List Rat)) (F : NoisePoint → Rat) (X : NoisePoint → Nat) (n : Nat)
    (hX : ∀ u, X u < n) :
    wsum noise F = ((List.range n).map fun k => wsum noise (fun u => F u * ind (X u == k))).sum := by
  rw [← wsum_list_sum noise (List.range n) (fun k u => F u * ind (X u == k))]
  apply wsum_congr
  intro u
  rw [List.sum_map_mul_left, sum_ind_range n (X u) (hX u), mul_one]

end Y0.Fscm

namespace Y0.Ctf
open Y0.Fscm

theorem sumAssign_congr (card : Name → Nat) (xs : List Name) (F G : Do → Rat)
    (h : ∀ r, r.map (·.1) = xs → F r = G r) : sumAssign card xs F = sumAssign card xs G := by
  induction xs generalizing F G with
  | nil => exact h [] rfl
  | cons x xs ih =>
    unfold sumAssign
    apply sum_map_congr
    intro k _
    apply ih
    intro r hr
    apply h
    simp [hr]

/-- the event "the quantities `X n` take the values listed in `r`" -/
def assignHolds (X : Name → NoisePoint → Nat) (r : Do) (u : NoisePoint) : Bool := r.all fun p => X p.1 u == p.2

/-- **marginalisation over a list of variables.** -/
theorem wsum_marginals (noise : List (List Rat)) (card : Name → Nat) (X : Name → NoisePoint → Nat)
    (xs : List Name) (hX : ∀ x ∈ xs, ∀ u, X x u < card x) (F : NoisePoint → Rat) :
    wsum noise F = sumAssign card xs (fun r => wsum noise (fun u => F u * ind (assignHolds X r u))) := by
  induction xs generalizing F with
  | nil =>
    unfold sumAssign
    apply wsum_congr
    intro u
    simp [assignHolds, ind]
  | cons x xs ih =>
    unfold sumAssign
    rw [wsum_marginal noise F (X x) (card x) (hX x (by simp))]
    apply sum_map_congr
    intro k _
    rw [ih (fun y hy => hX y (by simp [hy])) (fun u => F u * ind (X x u == k))]
    apply sumAssign_congr
    intro r _
    apply wsum_congr
    intro u
    simp only [assignHolds, List.all_cons, ind_and]
    ring

/-- the probability of a conjunction is the expectation of its indicator -/
theorem prob_eq_wsum (M : Model) (cs : List Conjunct) :
    prob M cs = wsum M.noise (fun u => ind (cs.all (holds M u))) := by
  unfold prob wsum
  apply sum_map_congr
  rintro ⟨u, w⟩ _
  simp only [ind]
  split <;> simp

end Y0.Ctf
