/-
  Y0.Lemmas.TrsoSrcCtx — the context of a source-domain run of TRSO: the model of the source domain `d`, and every leaf
  of the carried expression read as the leaf `activate_domain_and_interventions` will turn it into
  (`leafAct zs d`, Lemmas/TrsoDenAct): `P[·](c | p)` over plain variables denotes
  `P^d_{do(zs)}(c ∖ zs | p ∖ zs)` of the family.  These leaves satisfy the leaf laws (`srcLeafSem`): the variables
  `zs` may be carried by a joint but not summed over.  For the coin family the context is a coin context.
-/
import Y0.Lemmas.TrsoFamEnv
import Y0.Lemmas.TrsoDenAct

namespace Y0
namespace Trso
open TrDsl MG IdAux TianProb

/-- the subscripts activation with `zs` gives to a plain variable -/
def actWorld (zs : List Name) : List Iv := ssort Iv.lt (dedup' (zs.map fun z => (⟨z, false⟩ : Iv)))

theorem mem_actWorld_names (zs : List Name) (n : Name) : n ∈ (actWorld zs).map (·.name) ↔ n ∈ zs := by
  unfold actWorld
  simp only [List.mem_map, mem_ssort, mem_dedup']
  constructor
  · rintro ⟨i, ⟨z, hz, rfl⟩, rfl⟩; exact hz
  · intro h; exact ⟨⟨n, false⟩, ⟨n, h, rfl⟩, rfl⟩

theorem actWorld_unstarred (zs : List Name) : ∀ i ∈ actWorld zs, i.star = false := by
  intro i hi
  unfold actWorld at hi
  simp only [mem_ssort, mem_dedup', List.mem_map] at hi
  obtain ⟨z, _, rfl⟩ := hi
  rfl

theorem TrsoAux.src_actWorld_ne {zs : List Name} (hz : zs ≠ []) : (actWorld zs).isEmpty = false := by
  cases zs with
  | nil => exact absurd rfl hz
  | cons z zs =>
    have : (⟨z, false⟩ : Iv) ∈ actWorld (z :: zs) := by
      unfold actWorld
      simp only [mem_ssort, mem_dedup', List.mem_map]
      exact ⟨z, List.mem_cons_self, rfl⟩
    cases h : actWorld (z :: zs) with
    | nil => rw [h] at this; cases this
    | cons _ _ => rfl

theorem TrsoAux.src_interveneVar_plain {zs : List Name} (hz : zs ≠ []) {v : Var}
    (hv : v.ivs = [] ∧ v.star = none ∧ v.isIv = false) :
    interveneVar (zs.map Var.plain) v =
      .ok ({ name := v.name, star := none, isIv := false, ivs := actWorld zs } : Var) := by
  obtain ⟨h1, h2, h3⟩ := hv
  have hl : ssort Iv.lt (dedup' (v.ivs ++ (zs.map Var.plain).map toIv)) = actWorld zs := by
    rw [h1, List.nil_append, List.map_map]
    rfl
  unfold interveneVar
  simp only [hl]
  simp only [TrsoAux.src_actWorld_ne hz, Var.isCf, h1, h2]
  simp

/-- `Distribution.intervene` on plain variables -/
theorem interveneVars_plain {zs : List Name} (hz : zs ≠ []) {vs : List Var}
    (hvs : ∀ v ∈ vs, v.ivs = [] ∧ v.star = none ∧ v.isIv = false) :
    interveneVars (zs.map Var.plain) vs =
      .ok (vs.map fun v => ({ name := v.name, star := none, isIv := false, ivs := actWorld zs } : Var)) := by
  unfold interveneVars
  induction vs with
  | nil => rfl
  | cons v vs ih =>
    rw [List.mapM_cons, TrsoAux.src_interveneVar_plain hz (hvs v List.mem_cons_self),
      ih (fun w hw => hvs w (List.mem_cons_of_mem _ hw))]
    rfl

/-- the truncated factorisation depends on the intervened variables as a set -/
theorem F_congr_X (M : Scm) (G : MG Name) {X X' : List Name} (h : ∀ v, v ∈ X ↔ v ∈ X') (E : List Name) :
    F M G X E = F M G X' E := by
  unfold F
  have e1 : G.nodes.filter (fun v => v ∉ X ∧ v ∉ E) = G.nodes.filter (fun v => v ∉ X' ∧ v ∉ E) := by
    apply List.filter_congr
    intro x _
    simp only [h x]
  have e2 : G.nodes.filter (· ∉ X) = G.nodes.filter (· ∉ X') := by
    apply List.filter_congr
    intro x _
    simp only [h x]
  rw [e1, e2]

/-- **the activated reading of the leaves satisfies the leaf laws**: every leaf over plain variables that are nodes is
admissible; names in `zs` may occur in a leaf but may not be summed (`U`) -/
def srcLeafSem (Fam : Family) (G : MG Name) (pops : List Name) (σ' : Val) (h : FamOK Fam G pops) (d : Pop)
    (hd : d ∈ pops) (zs : List Name) (hz : zs ≠ []) :
    LeafSem (Fam.dom (some d)).card (leafAct zs d (envLeaf Fam.env σ')) where
  okW _ w := w = []
  okN _ _ x := x ∈ G.nodes
  U x := x ∉ zs
  Φ _ _ E := F (Fam.dom (some d)) G ((actWorld zs).map (·.name)) (E.filter (· ∉ zs))
  card_pos := (h.compat d hd).card_pos
  leaf_eq := by
    sorry
  nil := by
    sorry
  congr := by
    sorry
  pos := by
    sorry
  marg := by
    sorry

/-- the context of a run inside source domain `d` under the experiment `do(zs)` -/
def srcCtx (Fam : Family) (G : MG Name) (pops : List Name) (σ' : Val) (h : FamOK Fam G pops) (d : Pop)
    (hd : d ∈ pops) (zs : List Name) (hz : zs ≠ []) : Ctx where
  M := Fam.dom (some d)
  G0 := G
  leaf := leafAct zs d (envLeaf Fam.env σ')
  S := srcLeafSem Fam G pops σ' h d hd zs hz
  sctx := ⟨h.compat d hd, h.wf, h.rank⟩
  ign := zs
  mark _ _ := False

/-- **the source context of the coin family is a coin context** -/
theorem coin_srcCtx (G : MG Name) (hG : G.WF) (hr : G.Ranked) (pops : List Name) (σ' : Val) (d : Pop) (hd : d ∈ pops)
    (zs : List Name) (hz : zs ≠ []) :
    Coin (srcCtx (coinFam G) G pops σ' (coinFam_ok G hG hr pops) d hd zs hz) := by
  sorry

end Trso
end Y0
