/-
  Y0.Lemmas.TrsoSrcCtx — the context of a source-domain run of TRSO: the model of the source domain `d`, and every leaf
  of the carried expression read as the leaf `activate_domain_and_interventions` will turn it into
  (`leafAct zs d`, Lemmas/TrsoDenAct): `P[·](c | p)` over plain variables denotes
  `P^d_{do(zs)}(c ∖ zs | p ∖ zs)` of the family.  These leaves satisfy the leaf laws (`srcLeafSem`): the variables
  `zs` may be carried by a joint but not summed over.  For the coin family the context is a coin context.
-/
import Y0.Lemmas.TrsoFamEnv
import Y0.Lemmas.TrsoDenAct

namespace Y0
namespace Trso
open TrDsl MG IdAux TianProb

/-- the subscripts activation with `zs` gives to a plain variable -/
def actWorld (zs : List Name) : List Iv := ssort Iv.lt (dedup' (zs.map fun z => (⟨z, false⟩ : Iv)))

theorem mem_actWorld_names (zs : List Name) (n : Name) : n ∈ (actWorld zs).map (·.name) ↔ n ∈ zs := by
  unfold actWorld
  simp only [List.mem_map, mem_ssort, mem_dedup']
  constructor
  · rintro ⟨i, ⟨z, hz, rfl⟩, rfl⟩; exact hz
  · intro h; exact ⟨⟨n, false⟩, ⟨n, h, rfl⟩, rfl⟩

theorem actWorld_unstarred (zs : List Name) : ∀ i ∈ actWorld zs, i.star = false := by
  intro i hi
  unfold actWorld at hi
  simp only [mem_ssort, mem_dedup', List.mem_map] at hi
  obtain ⟨z, _, rfl⟩ := hi
  rfl

theorem TrsoAux.src_actWorld_ne {zs : List Name} (hz : zs ≠ []) : (actWorld zs).isEmpty = false := by
  cases zs with
  | nil => exact absurd rfl hz
  | cons z zs =>
    have : (⟨z, false⟩ : Iv) ∈ actWorld (z :: zs) := by
      unfold actWorld
      simp only [mem_ssort, mem_dedup', List.mem_map]
      exact ⟨z, List.mem_cons_self, rfl⟩
    cases h : actWorld (z :: zs) with
    | nil => rw [h] at this; cases this
    | cons _ _ => rfl

theorem TrsoAux.src_interveneVar_plain {zs : List Name} (hz : zs ≠ []) {v : Var}
    (hv : v.ivs = [] ∧ v.star = none ∧ v.isIv = false) :
    interveneVar (zs.map Var.plain) v =
      .ok ({ name := v.name, star := none, isIv := false, ivs := actWorld zs } : Var) := by
  obtain ⟨h1, h2, h3⟩ := hv
  have hl : ssort Iv.lt (dedup' (v.ivs ++ (zs.map Var.plain).map toIv)) = actWorld zs := by
    rw [h1, List.nil_append, List.map_map]
    rfl
  unfold interveneVar
  simp only [hl]
  simp only [TrsoAux.src_actWorld_ne hz, Var.isCf, h1, h2]
  simp

/-- `Distribution.intervene` on plain variables -/
theorem interveneVars_plain {zs : List Name} (hz : zs ≠ []) {vs : List Var}
    (hvs : ∀ v ∈ vs, v.ivs = [] ∧ v.star = none ∧ v.isIv = false) :
    interveneVars (zs.map Var.plain) vs =
      .ok (vs.map fun v => ({ name := v.name, star := none, isIv := false, ivs := actWorld zs } : Var)) := by
  unfold interveneVars
  induction vs with
  | nil => rfl
  | cons v vs ih =>
    rw [List.mapM_cons, TrsoAux.src_interveneVar_plain hz (hvs v List.mem_cons_self),
      ih (fun w hw => hvs w (List.mem_cons_of_mem _ hw))]
    rfl

/-- the truncated factorisation depends on the intervened variables as a set -/
theorem F_congr_X (M : Scm) (G : MG Name) {X X' : List Name} (h : ∀ v, v ∈ X ↔ v ∈ X') (E : List Name) :
    F M G X E = F M G X' E := by
  unfold F
  have e1 : G.nodes.filter (fun v => v ∉ X ∧ v ∉ E) = G.nodes.filter (fun v => v ∉ X' ∧ v ∉ E) := by
    apply List.filter_congr
    intro x _
    simp only [h x]
  have e2 : G.nodes.filter (· ∉ X) = G.nodes.filter (· ∉ X') := by
    apply List.filter_congr
    intro x _
    simp only [h x]
  rw [e1, e2]

/-- the variable activation with `zs` turns a plain variable into -/
def TrsoAux.src_act (zs : List Name) (v : Var) : Var :=
  { name := v.name, star := none, isIv := false, ivs := actWorld zs }

theorem TrsoAux.src_actKeep_plain (zs : List Name) {v : Var} (hv : v.ivs = [] ∧ v.star = none ∧ v.isIv = false) :
    actKeep zs v = decide (v.name ∉ zs) := by
  obtain ⟨h1, h2, h3⟩ := hv
  have e : ∀ z, Var.plain z = v ↔ z = v.name := by
    intro z
    cases v
    simp_all [Var.plain]
  unfold actKeep
  rw [Bool.eq_iff_iff]
  simp only [Bool.not_eq_true', List.any_eq_false, decide_eq_true_eq, e]
  constructor
  · intro h hn; exact h _ hn rfl
  · intro h z hz hzv; exact h (hzv ▸ hz)

theorem TrsoAux.src_mem_act (zs : List Name) {l : List Var} (hl : ∀ v ∈ l, v.ivs = [] ∧ v.star = none ∧ v.isIv = false)
    (n : Name) :
    n ∈ vnames ((sortVars (l.filter (actKeep zs))).map (TrsoAux.src_act zs)) ↔ n ∈ (vnames l).filter (· ∉ zs) := by
  simp only [vnames, List.map_map, List.mem_map, mem_sortVars, List.mem_filter, Function.comp, TrsoAux.src_act,
    decide_eq_true_eq]
  constructor
  · rintro ⟨v, ⟨hv, hk⟩, rfl⟩
    rw [TrsoAux.src_actKeep_plain zs (hl v hv), decide_eq_true_eq] at hk
    exact ⟨⟨v, hv, rfl⟩, hk⟩
  · rintro ⟨⟨v, hv, rfl⟩, hk⟩
    refine ⟨v, ⟨hv, ?_⟩, rfl⟩
    rw [TrsoAux.src_actKeep_plain zs (hl v hv), decide_eq_true_eq]
    exact hk

theorem TrsoAux.src_leaf_eq (Fam : Family) (G : MG Name) (pops : List Name) (σ' : Val) (h : FamOK Fam G pops) (d : Pop)
    (hd : d ∈ pops) (zs : List Name) (hz : zs ≠ []) (pop : Option Var) (c p : List Var)
    (hv : ∀ v ∈ c ++ p, v.ivs = [] ∧ v.star = none ∧ v.isIv = false ∧ v.name ∈ G.nodes) (σ : Val) :
    leafAct zs d (envLeaf Fam.env σ') pop c p σ =
      F (Fam.dom (some d)) G ((actWorld zs).map (·.name)) ((vnames (c ++ p)).filter (· ∉ zs)) σ /
        F (Fam.dom (some d)) G ((actWorld zs).map (·.name)) ((vnames p).filter (· ∉ zs)) σ := by
  have hpl : ∀ v ∈ c ++ p, v.ivs = [] ∧ v.star = none ∧ v.isIv = false := fun v hv' =>
    ⟨(hv v hv').1, (hv v hv').2.1, (hv v hv').2.2.1⟩
  have hplc : ∀ v ∈ c, v.ivs = [] ∧ v.star = none ∧ v.isIv = false := fun v hv' =>
    hpl v (List.mem_append_left _ hv')
  have hplp : ∀ v ∈ p, v.ivs = [] ∧ v.star = none ∧ v.isIv = false := fun v hv' =>
    hpl v (List.mem_append_right _ hv')
  have hM := h.compat d hd
  cases hE : (c.filter (actKeep zs)).isEmpty with
  | true =>
    have hnil : c.filter (actKeep zs) = [] := List.isEmpty_iff.1 hE
    have hmem : ∀ n, n ∈ (vnames (c ++ p)).filter (· ∉ zs) ↔ n ∈ (vnames p).filter (· ∉ zs) := by
      intro n
      simp only [vnames, List.map_append, List.filter_append, List.mem_append]
      constructor
      · rintro (hn | hn)
        · exfalso
          obtain ⟨hn1, hn2⟩ := List.mem_filter.1 hn
          obtain ⟨v, hvc, rfl⟩ := List.mem_map.1 hn1
          have : v ∈ c.filter (actKeep zs) := by
            rw [List.mem_filter, TrsoAux.src_actKeep_plain zs (hplc v hvc)]
            exact ⟨hvc, hn2⟩
          rw [hnil] at this
          cases this
        · exact hn
      · exact Or.inr
    rw [F_congr _ hmem]
    simp only [leafAct, hE, if_true]
    exact (div_self (ne_of_gt (F_pos hM _ _ σ))).symm
  | false =>
    have h1 : ∀ l : List Var, (∀ v ∈ l, v.ivs = [] ∧ v.star = none ∧ v.isIv = false) →
        interveneVars (zs.map Var.plain) (sortVars (l.filter (actKeep zs))) =
          .ok ((sortVars (l.filter (actKeep zs))).map (TrsoAux.src_act zs)) := by
      intro l hl
      exact interveneVars_plain hz (fun v hv' => hl v (List.mem_filter.1 ((mem_sortVars _ _).1 hv')).1)
    simp only [leafAct, hE, Bool.false_eq_true, if_false, h1 c hplc, h1 p hplp]
    have hadm : ∀ v ∈ (sortVars (c.filter (actKeep zs))).map (TrsoAux.src_act zs) ++
        (sortVars (p.filter (actKeep zs))).map (TrsoAux.src_act zs),
        v.ivs = actWorld zs ∧ v.star = none ∧ v.isIv = false ∧
          (v.name ∈ G.nodes ∧ v.name ∉ (actWorld zs).map (·.name)) := by
      intro v hv'
      have : ∃ u, u ∈ (c ++ p).filter (actKeep zs) ∧ TrsoAux.src_act zs u = v := by
        rw [List.filter_append]
        rcases List.mem_append.1 hv' with hv' | hv'
        · obtain ⟨u, hu, rfl⟩ := List.mem_map.1 hv'
          exact ⟨u, List.mem_append_left _ ((mem_sortVars _ _).1 hu), rfl⟩
        · obtain ⟨u, hu, rfl⟩ := List.mem_map.1 hv'
          exact ⟨u, List.mem_append_right _ ((mem_sortVars _ _).1 hu), rfl⟩
      obtain ⟨u, hu, rfl⟩ := this
      obtain ⟨hu1, hu2⟩ := List.mem_filter.1 hu
      rw [TrsoAux.src_actKeep_plain zs (hpl u hu1), decide_eq_true_eq] at hu2
      refine ⟨rfl, rfl, rfl, (hv u hu1).2.2.2, ?_⟩
      rw [mem_actWorld_names]
      exact hu2
    have hle := (famLeafSem Fam G pops σ' h).leaf_eq (some (popVar d)) (actWorld zs) _ _
      ⟨⟨popVar d, rfl, hd⟩, actWorld_unstarred zs⟩ hadm σ
    rw [hle]
    show F (Fam.dom (some d)) G ((actWorld zs).map (·.name)) _ σ / F (Fam.dom (some d)) G ((actWorld zs).map (·.name)) _ σ = _
    have e1 : ∀ n, n ∈ vnames ((sortVars (c.filter (actKeep zs))).map (TrsoAux.src_act zs) ++
        (sortVars (p.filter (actKeep zs))).map (TrsoAux.src_act zs)) ↔ n ∈ (vnames (c ++ p)).filter (· ∉ zs) := by
      intro n
      have a := TrsoAux.src_mem_act zs hplc n
      have b := TrsoAux.src_mem_act zs hplp n
      simp only [vnames, List.map_append, List.filter_append, List.mem_append] at a b ⊢
      rw [a, b]
    rw [F_congr _ e1, F_congr _ (TrsoAux.src_mem_act zs hplp)]

/-- **the activated reading of the leaves satisfies the leaf laws**: every leaf over plain variables that are nodes is
admissible; names in `zs` may occur in a leaf but may not be summed (`U`) -/
def srcLeafSem (Fam : Family) (G : MG Name) (pops : List Name) (σ' : Val) (h : FamOK Fam G pops) (d : Pop)
    (hd : d ∈ pops) (zs : List Name) (hz : zs ≠ []) :
    LeafSem (Fam.dom (some d)).card (leafAct zs d (envLeaf Fam.env σ')) where
  okW _ w := w = []
  okN _ _ x := x ∈ G.nodes
  U x := x ∉ zs
  Φ _ _ E := F (Fam.dom (some d)) G ((actWorld zs).map (·.name)) (E.filter (· ∉ zs))
  card_pos := (h.compat d hd).card_pos
  leaf_eq := by
    rintro pop w c p rfl hv σ
    exact TrsoAux.src_leaf_eq Fam G pops σ' h d hd zs hz pop c p hv σ
  nil := by
    intro pop w _ σ
    exact F_nil (h.compat d hd) h.wf h.rank _ σ
  congr := by
    intro pop w E E' hE
    apply F_congr
    intro v
    simp only [List.mem_filter, hE v]
  pos := by
    intro pop w E _ σ
    exact F_pos (h.compat d hd) _ _ σ
  marg := by
    intro pop w x E _ hx hxz hxE σ
    have hcons : (x :: E).filter (· ∉ zs) = x :: E.filter (· ∉ zs) := by
      rw [List.filter_cons_of_pos (by simpa using hxz)]
    have hxW : x ∉ (actWorld zs).map (·.name) := by rw [mem_actWorld_names]; exact hxz
    have hxE' : x ∉ E.filter (· ∉ zs) := fun hm => hxE (List.mem_filter.1 hm).1
    have := F_marg (M := Fam.dom (some d)) h.wf ((actWorld zs).map (·.name)) (E.filter (· ∉ zs)) x hx hxW hxE'
    show sumVar (Fam.dom (some d)).card x
      (F (Fam.dom (some d)) G ((actWorld zs).map (·.name)) ((x :: E).filter (· ∉ zs))) σ = _
    rw [hcons]
    exact congrFun this σ

/-- the context of a run inside source domain `d` under the experiment `do(zs)` -/
def srcCtx (Fam : Family) (G : MG Name) (pops : List Name) (σ' : Val) (h : FamOK Fam G pops) (d : Pop)
    (hd : d ∈ pops) (zs : List Name) (hz : zs ≠ []) : Ctx where
  M := Fam.dom (some d)
  G0 := G
  leaf := leafAct zs d (envLeaf Fam.env σ')
  S := srcLeafSem Fam G pops σ' h d hd zs hz
  sctx := ⟨h.compat d hd, h.wf, h.rank⟩
  ign := zs
  mark _ _ := False

/-- **the source context of the coin family is a coin context** -/
theorem coin_srcCtx (G : MG Name) (hG : G.WF) (hr : G.Ranked) (pops : List Name) (σ' : Val) (d : Pop) (hd : d ∈ pops)
    (zs : List Name) (hz : zs ≠ []) :
    Coin (srcCtx (coinFam G) G pops σ' (coinFam_ok G hG hr pops) d hd zs hz) := by
  refine ⟨fun T _ _ σ => coinScm_Q T σ, ?_⟩
  rintro pop c ⟨w, hw, hv⟩ hone σ
  have hw' : w = [] := hw
  subst hw'
  show leafAct zs d (envLeaf (coinFam G).env σ') pop c [] σ = 1 ∨
    leafAct zs d (envLeaf (coinFam G).env σ') pop c [] σ = 1 / 2
  rw [TrsoAux.src_leaf_eq (coinFam G) G pops σ' (coinFam_ok G hG hr pops) d hd zs hz pop c [] hv σ]
  show F coinScm G ((actWorld zs).map (·.name)) ((vnames (c ++ [])).filter (· ∉ zs)) σ /
      F coinScm G ((actWorld zs).map (·.name)) ((vnames []).filter (· ∉ zs)) σ = 1 ∨
    F coinScm G ((actWorld zs).map (·.name)) ((vnames (c ++ [])).filter (· ∉ zs)) σ /
      F coinScm G ((actWorld zs).map (·.name)) ((vnames []).filter (· ∉ zs)) σ = 1 / 2
  rw [coin_F, coin_F]
  simp only [List.append_nil, vnames, List.map_nil, List.filter_nil, List.not_mem_nil, decide_false,
    List.filter_false, List.length_nil, pow_zero, div_one]
  cases c with
  | nil => left; simp
  | cons v0 c' =>
    have hname : ∀ v ∈ v0 :: c', v.name = v0.name := fun v hv' => hone v hv' v0 List.mem_cons_self
    have hv0 : v0.name ∈ G.nodes := (hv v0 (by simp)).2.2.2
    by_cases hz0 : v0.name ∈ zs
    · left
      have hE : ((v0 :: c').map (·.name)).filter (· ∉ zs) = [] := by
        apply List.filter_eq_nil_iff.mpr
        intro n hn
        obtain ⟨v, hv', rfl⟩ := List.mem_map.1 hn
        rw [hname v hv']
        simpa using hz0
      rw [hE]
      simp
    · right
      have hfil : ((G.nodes.filter (· ∉ (actWorld zs).map (·.name))).filter
          (· ∈ ((v0 :: c').map (·.name)).filter (· ∉ zs))).length = 1 := by
        have hnd : (G.nodes.filter (· ∉ (actWorld zs).map (·.name))).Nodup := hG.nodup.filter _
        have hmem : v0.name ∈ G.nodes.filter (· ∉ (actWorld zs).map (·.name)) := by
          rw [List.mem_filter, decide_eq_true_eq, mem_actWorld_names]
          exact ⟨hv0, hz0⟩
        have : (G.nodes.filter (· ∉ (actWorld zs).map (·.name))).filter
              (· ∈ ((v0 :: c').map (·.name)).filter (· ∉ zs)) =
            (G.nodes.filter (· ∉ (actWorld zs).map (·.name))).filter (· == v0.name) := by
          apply List.filter_congr
          intro x _
          have hiff : x ∈ ((v0 :: c').map (·.name)).filter (· ∉ zs) ↔ x = v0.name := by
            rw [List.mem_filter, List.mem_map, decide_eq_true_eq]
            constructor
            · rintro ⟨⟨v, hv', rfl⟩, _⟩; exact hname v hv'
            · intro hx; exact ⟨⟨v0, List.mem_cons_self, hx.symm⟩, hx ▸ hz0⟩
          by_cases hx : x = v0.name
          · rw [decide_eq_true (hiff.2 hx)]; simp [hx]
          · rw [decide_eq_false (fun a => hx (hiff.1 a))]; simp [hx]
        rw [this, ← List.count_eq_length_filter, List.count_eq_one_of_mem hnd hmem]
      rw [hfil]
      norm_num

end Trso
end Y0
