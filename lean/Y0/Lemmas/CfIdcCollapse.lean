/-
  Y0.Lemmas.CfIdcCollapse — the loop of line 4 that rewrites the outcomes (`exchangeStep`, the code after `fix:` "IDC* returns Zero
  when the exchange makes two outcomes the same variable with different values") against the dict comprehension it replaced
  (`exchangeOutcomes`): when the loop returns a dict it is the dict the comprehension built (`exchangeStep_some`), and it returns
  `none` only when two outcomes end up under one key with different values (`exchangeStep_none`).
-/
import Y0.Model.IdcStar

namespace Y0
namespace Cf

theorem exchangeOutcomes_eq (cf : MG Var) (outcomes : Event) (cond : Var) (val : Iv) :
    exchangeOutcomes cf outcomes cond val =
      (match outcomes.mapM (exchangeKey cf cond val) with
       | .ok ps => .ok (Event.ofList ps)
       | .error e => .error e) := by
  unfold exchangeOutcomes
  simp only [bind, Except.bind, pure, Except.pure]
  cases List.mapM (exchangeKey cf cond val) outcomes <;> rfl

theorem exchangeLoop_some (cf : MG Var) (cond : Var) (val : Iv) : ∀ (ps : List (Var × Iv)) (acc e : Event),
    exchangeLoop cf cond val ps acc = .ok (some e) →
      ∃ qs, ps.mapM (exchangeKey cf cond val) = .ok qs ∧ qs.foldl (fun a p => Event.set a p.1 p.2) acc = e
  | [], acc, e, h => by
    simp only [exchangeLoop, Except.ok.injEq, Option.some.injEq] at h
    exact ⟨[], rfl, h⟩
  | p :: ps, acc, e, h => by
    unfold exchangeLoop at h
    simp only [bind, Except.bind, pure, Except.pure] at h
    cases hq : exchangeKey cf cond val p with
    | error err => rw [hq] at h; cases h
    | ok q =>
      rw [hq] at h
      simp only at h
      have hrec : exchangeLoop cf cond val ps (acc.set q.1 q.2) = .ok (some e) := by
        cases hg : acc.get? q.1 with
        | none => rw [hg] at h; exact h
        | some v =>
          rw [hg] at h
          simp only at h
          split at h
          · exact h
          · cases h
      obtain ⟨qs, hqs, hfold⟩ := exchangeLoop_some cf cond val ps _ e hrec
      refine ⟨q :: qs, ?_, ?_⟩
      · rw [List.mapM_cons]
        simp only [bind, Except.bind, pure, Except.pure, hq, hqs]
      · exact hfold

/-- **when the loop of line 4 returns a dict, it is the dict of the comprehension it replaced** -/
theorem exchangeStep_some (cf : MG Var) (outcomes : Event) (cond : Var) (val : Iv) (e : Event)
    (h : exchangeStep cf outcomes cond val = .ok (some e)) : exchangeOutcomes cf outcomes cond val = .ok e := by
  unfold exchangeStep at h
  obtain ⟨qs, hqs, hfold⟩ := exchangeLoop_some cf cond val outcomes [] e h
  rw [exchangeOutcomes_eq, hqs]
  simp only [Event.ofList]
  rw [hfold]

theorem Event.get?_none_of_not_mem (acc : Event) (k : Var) (h : k ∉ acc.map (·.1)) : acc.get? k = none := by
  unfold Event.get?
  cases hf : acc.find? (fun p => p.1 = k) with
  | none => rfl
  | some r =>
    exfalso
    have hr := List.find?_some hf
    have hmem := List.mem_of_find?_eq_some hf
    simp only [decide_eq_true_eq] at hr
    exact h (List.mem_map.2 ⟨r, hmem, hr⟩)

theorem Event.set_of_not_mem (acc : Event) (k : Var) (v : Iv) (h : k ∉ acc.map (·.1)) : acc.set k v = acc ++ [(k, v)] := by
  unfold Event.set
  have : acc.has k = false := by
    cases hh : acc.has k with
    | false => rfl
    | true =>
      exfalso
      unfold Event.has at hh
      obtain ⟨p, hp, hpk⟩ := List.any_eq_true.1 hh
      simp only [decide_eq_true_eq] at hpk
      exact h (List.mem_map.2 ⟨p, hp, hpk⟩)
  rw [if_neg (by simp [this])]

/-- **no collision, no Zero**: when the (re-subscripted) keys are pairwise different the loop returns the list of re-keyed outcomes -/
theorem exchangeLoop_of_nodup (cf : MG Var) (cond : Var) (val : Iv) : ∀ (ps qs : List (Var × Iv)) (acc : Event),
    ps.mapM (exchangeKey cf cond val) = .ok qs → ((acc ++ qs).map (·.1)).Nodup →
      exchangeLoop cf cond val ps acc = .ok (some (acc ++ qs))
  | [], qs, acc, hm, _ => by
    simp only [List.mapM_nil, pure, Except.pure, Except.ok.injEq] at hm
    subst hm
    simp [exchangeLoop]
  | p :: ps, qs, acc, hm, hnd => by
    rw [List.mapM_cons] at hm
    simp only [bind, Except.bind, pure, Except.pure] at hm
    cases hq : exchangeKey cf cond val p with
    | error err => rw [hq] at hm; cases hm
    | ok q =>
      rw [hq] at hm
      simp only at hm
      cases hl : ps.mapM (exchangeKey cf cond val) with
      | error err => rw [hl] at hm; cases hm
      | ok qs' =>
        rw [hl] at hm
        simp only [Except.ok.injEq] at hm
        subst hm
        have hnot : q.1 ∉ acc.map (·.1) := by
          intro hmem
          rw [List.map_append, List.nodup_append] at hnd
          exact hnd.2.2 q.1 hmem q.1 (by simp) rfl
        unfold exchangeLoop
        simp only [bind, Except.bind, hq]
        rw [Event.get?_none_of_not_mem acc q.1 hnot]
        simp only
        rw [Event.set_of_not_mem acc q.1 q.2 hnot]
        have := exchangeLoop_of_nodup cf cond val ps qs' (acc ++ [(q.1, q.2)]) hl (by simpa using hnd)
        rw [this]
        simp

theorem exchangeStep_of_nodup (cf : MG Var) (outcomes : Event) (cond : Var) (val : Iv) (qs : List (Var × Iv))
    (hm : outcomes.mapM (exchangeKey cf cond val) = .ok qs) (hnd : (qs.map (·.1)).Nodup) :
    exchangeStep cf outcomes cond val = .ok (some qs) := by
  unfold exchangeStep
  have := exchangeLoop_of_nodup cf cond val outcomes qs [] hm (by simpa using hnd)
  simpa using this

theorem exchangeLoop_none (cf : MG Var) (cond : Var) (val : Iv) : ∀ (ps : List (Var × Iv)) (acc : Event),
    exchangeLoop cf cond val ps acc = .ok none →
      ∃ p ∈ ps, ∃ q v, exchangeKey cf cond val p = .ok q ∧ v ≠ q.2 ∧
        ((q.1, v) ∈ acc ∨ ∃ p' ∈ ps, exchangeKey cf cond val p' = .ok (q.1, v))
  | [], acc, h => by simp [exchangeLoop] at h
  | p :: ps, acc, h => by
    unfold exchangeLoop at h
    simp only [bind, Except.bind, pure, Except.pure] at h
    cases hq : exchangeKey cf cond val p with
    | error err => rw [hq] at h; cases h
    | ok q =>
      rw [hq] at h
      simp only at h
      have hmemset : ∀ (k : Var) (v : Iv), (k, v) ∈ acc.set q.1 q.2 → (k, v) ∈ acc ∨ (k, v) = (q.1, q.2) := by
        intro k v hm
        unfold Event.set at hm
        split at hm
        · obtain ⟨x, hx, hxe⟩ := List.mem_map.1 hm
          split at hxe
          · right; exact hxe.symm
          · left; rw [← hxe]; exact hx
        · rcases List.mem_append.1 hm with h' | h'
          · exact Or.inl h'
          · right; simpa using h'
      have hrecuse : exchangeLoop cf cond val ps (acc.set q.1 q.2) = .ok none →
          ∃ p0 ∈ p :: ps, ∃ q0 v, exchangeKey cf cond val p0 = .ok q0 ∧ v ≠ q0.2 ∧
            ((q0.1, v) ∈ acc ∨ ∃ p' ∈ p :: ps, exchangeKey cf cond val p' = .ok (q0.1, v)) := by
        intro hrec
        obtain ⟨p0, hp0, q0, v, hk0, hne, hor⟩ := exchangeLoop_none cf cond val ps _ hrec
        refine ⟨p0, List.mem_cons_of_mem _ hp0, q0, v, hk0, hne, ?_⟩
        rcases hor with hacc | ⟨p', hp', hk'⟩
        · rcases hmemset _ _ hacc with h' | h'
          · exact Or.inl h'
          · right
            refine ⟨p, List.mem_cons_self, ?_⟩
            rw [hq, h']
        · exact Or.inr ⟨p', List.mem_cons_of_mem _ hp', hk'⟩
      cases hg : acc.get? q.1 with
      | none => rw [hg] at h; exact hrecuse h
      | some v =>
        rw [hg] at h
        simp only at h
        split at h
        · exact hrecuse h
        · rename_i hne
          refine ⟨p, List.mem_cons_self, q, v, hq, hne, Or.inl ?_⟩
          unfold Event.get? at hg
          cases hf : acc.find? (fun p => p.1 = q.1) with
          | none => rw [hf] at hg; cases hg
          | some r =>
            rw [hf] at hg
            simp only [Option.map_some, Option.some.injEq] at hg
            have hr := List.find?_some hf
            have hmem := List.mem_of_find?_eq_some hf
            simp only [decide_eq_true_eq] at hr
            rw [← hr, ← hg]
            exact hmem

/-- **the loop answers "inconsistent" only when two outcomes end up under ONE key with DIFFERENT values** -/
theorem exchangeStep_none (cf : MG Var) (outcomes : Event) (cond : Var) (val : Iv)
    (h : exchangeStep cf outcomes cond val = .ok none) :
    ∃ p ∈ outcomes, ∃ p' ∈ outcomes, ∃ k v v', exchangeKey cf cond val p = .ok (k, v) ∧
      exchangeKey cf cond val p' = .ok (k, v') ∧ v ≠ v' := by
  unfold exchangeStep at h
  obtain ⟨p, hp, q, v, hk, hne, hor⟩ := exchangeLoop_none cf cond val outcomes [] h
  rcases hor with hnil | ⟨p', hp', hk'⟩
  · cases hnil
  · exact ⟨p', hp', p, hp, q.1, v, q.2, hk', hk, hne⟩

end Cf
end Y0
