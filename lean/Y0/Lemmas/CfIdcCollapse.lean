/-
  Y0.Lemmas.CfIdcCollapse — the loop of line 4 that rewrites the outcomes (`exchangeStep`, the code after `fix:` "IDC* returns Zero
  when the exchange makes two outcomes the same variable with different values") against the dict comprehension it replaced
  (`exchangeOutcomes`): when the loop returns a dict it is the dict the comprehension built (`exchangeStep_some`), and it returns
  `none` only when two outcomes end up under one key with different values or (since `fix:` "IDC* returns Zero when the exchange
  makes an outcome a remaining condition's variable with a different value") an outcome ends up under the key of a remaining
  condition that demands a different value (`exchangeStep_none`; `rem` = the remaining conditions).
-/
import Y0.Model.IdcStar

namespace Y0
namespace Cf

theorem exchangeOutcomes_eq (cf : MG Var) (outcomes : Event) (cond : Var) (val : Iv) :
    exchangeOutcomes cf outcomes cond val =
      (match outcomes.mapM (exchangeKey cf cond val) with
       | .ok ps => .ok (Event.ofList ps)
       | .error e => .error e) := by
  unfold exchangeOutcomes
  simp only [bind, Except.bind, pure, Except.pure]
  cases List.mapM (exchangeKey cf cond val) outcomes <;> rfl

theorem Event.get?_none_of_not_mem (acc : Event) (k : Var) (h : k ∉ acc.map (·.1)) : acc.get? k = none := by
  unfold Event.get?
  cases hf : acc.find? (fun p => p.1 = k) with
  | none => rfl
  | some r =>
    exfalso
    have hr := List.find?_some hf
    have hmem := List.mem_of_find?_eq_some hf
    simp only [decide_eq_true_eq] at hr
    exact h (List.mem_map.2 ⟨r, hmem, hr⟩)

theorem Event.set_of_not_mem (acc : Event) (k : Var) (v : Iv) (h : k ∉ acc.map (·.1)) : acc.set k v = acc ++ [(k, v)] := by
  unfold Event.set
  have : acc.has k = false := by
    cases hh : acc.has k with
    | false => rfl
    | true =>
      exfalso
      unfold Event.has at hh
      obtain ⟨p, hp, hpk⟩ := List.any_eq_true.1 hh
      simp only [decide_eq_true_eq] at hpk
      exact h (List.mem_map.2 ⟨p, hp, hpk⟩)
  rw [if_neg (by simp [this])]

theorem Event.mem_of_get? (acc : Event) (k : Var) (v : Iv) (hg : acc.get? k = some v) : (k, v) ∈ acc := by
  unfold Event.get? at hg
  cases hf : acc.find? (fun p => p.1 = k) with
  | none => rw [hf] at hg; cases hg
  | some r =>
    rw [hf] at hg
    simp only [Option.map_some, Option.some.injEq] at hg
    have hr := List.find?_some hf
    have hmem := List.mem_of_find?_eq_some hf
    simp only [decide_eq_true_eq] at hr
    rw [← hr, ← hg]
    exact hmem

theorem remClash_nil (q : Var × Iv) : remClash [] q = false := rfl

theorem remClash_true (rem : Event) (q : Var × Iv) (h : remClash rem q = true) : ∃ v, rem.get? q.1 = some v ∧ v ≠ q.2 := by
  unfold remClash at h
  cases hg : rem.get? q.1 with
  | none => rw [hg] at h; cases h
  | some v => rw [hg] at h; exact ⟨v, rfl, by simpa using h⟩

theorem remClash_of_get? (rem : Event) (q : Var × Iv) (v : Iv) (hg : rem.get? q.1 = some v) (hne : v ≠ q.2) :
    remClash rem q = true := by
  unfold remClash
  rw [hg]
  simpa using hne

theorem exchangeLoop_some (cf : MG Var) (cond : Var) (val : Iv) (rem : Event) : ∀ (ps : List (Var × Iv)) (acc e : Event),
    exchangeLoop cf cond val rem ps acc = .ok (some e) →
      ∃ qs, ps.mapM (exchangeKey cf cond val) = .ok qs ∧ qs.foldl (fun a p => Event.set a p.1 p.2) acc = e ∧
        ∀ p ∈ ps, ∀ q, exchangeKey cf cond val p = .ok q → remClash rem q = false
  | [], acc, e, h => by
    simp only [exchangeLoop, Except.ok.injEq, Option.some.injEq] at h
    exact ⟨[], rfl, h, by simp⟩
  | p :: ps, acc, e, h => by
    unfold exchangeLoop at h
    simp only [bind, Except.bind, pure, Except.pure] at h
    cases hq : exchangeKey cf cond val p with
    | error err => rw [hq] at h; cases h
    | ok q =>
      rw [hq] at h
      simp only at h
      have hrec : exchangeLoop cf cond val rem ps (acc.set q.1 q.2) = .ok (some e) ∧ remClash rem q = false := by
        cases hg : acc.get? q.1 with
        | none =>
          rw [hg] at h
          simp only at h
          split at h
          · cases h
          · rename_i hc; exact ⟨h, by simpa using hc⟩
        | some v =>
          rw [hg] at h
          simp only at h
          split at h
          · split at h
            · cases h
            · rename_i hc; exact ⟨h, by simpa using hc⟩
          · cases h
      obtain ⟨qs, hqs, hfold, hcl⟩ := exchangeLoop_some cf cond val rem ps _ e hrec.1
      refine ⟨q :: qs, ?_, ?_, ?_⟩
      · rw [List.mapM_cons]
        simp only [bind, Except.bind, pure, Except.pure, hq, hqs]
      · exact hfold
      · intro p' hp' q' hk'
        rcases List.mem_cons.1 hp' with h' | h'
        · rw [h', hq] at hk'
          cases hk'
          exact hrec.2
        · exact hcl p' h' q' hk'

/-- **when the loop of line 4 returns a dict, it is the dict of the comprehension it replaced** -/
theorem exchangeStep_some (cf : MG Var) (outcomes : Event) (cond : Var) (val : Iv) (rem : Event) (e : Event)
    (h : exchangeStep cf outcomes cond val rem = .ok (some e)) : exchangeOutcomes cf outcomes cond val = .ok e := by
  unfold exchangeStep at h
  obtain ⟨qs, hqs, hfold, _⟩ := exchangeLoop_some cf cond val rem outcomes [] e h
  rw [exchangeOutcomes_eq, hqs]
  simp only [Event.ofList]
  rw [hfold]

/-- **when the loop of line 4 returns a dict, no re-keyed outcome is the variable of a remaining condition with another value** -/
theorem exchangeStep_some_no_clash (cf : MG Var) (outcomes : Event) (cond : Var) (val : Iv) (rem : Event) (e : Event)
    (h : exchangeStep cf outcomes cond val rem = .ok (some e)) :
    ∀ p ∈ outcomes, ∀ q, exchangeKey cf cond val p = .ok q → ∀ v, rem.get? q.1 = some v → v = q.2 := by
  unfold exchangeStep at h
  obtain ⟨qs, hqs, _, hcl⟩ := exchangeLoop_some cf cond val rem outcomes [] e h
  intro p hp q hk v hg
  apply Decidable.byContradiction
  intro hne
  have := remClash_of_get? rem q v hg hne
  rw [hcl p hp q hk] at this
  cases this

/-- **no collision, no Zero**: when the (re-subscripted) keys are pairwise different and none of them clashes with a remaining
condition, the loop returns the list of re-keyed outcomes -/
theorem exchangeLoop_of_nodup (cf : MG Var) (cond : Var) (val : Iv) (rem : Event) : ∀ (ps qs : List (Var × Iv)) (acc : Event),
    ps.mapM (exchangeKey cf cond val) = .ok qs → ((acc ++ qs).map (·.1)).Nodup → (∀ q ∈ qs, remClash rem q = false) →
      exchangeLoop cf cond val rem ps acc = .ok (some (acc ++ qs))
  | [], qs, acc, hm, _, _ => by
    simp only [List.mapM_nil, pure, Except.pure, Except.ok.injEq] at hm
    subst hm
    simp [exchangeLoop]
  | p :: ps, qs, acc, hm, hnd, hcl => by
    rw [List.mapM_cons] at hm
    simp only [bind, Except.bind, pure, Except.pure] at hm
    cases hq : exchangeKey cf cond val p with
    | error err => rw [hq] at hm; cases hm
    | ok q =>
      rw [hq] at hm
      simp only at hm
      cases hl : ps.mapM (exchangeKey cf cond val) with
      | error err => rw [hl] at hm; cases hm
      | ok qs' =>
        rw [hl] at hm
        simp only [Except.ok.injEq] at hm
        subst hm
        have hnot : q.1 ∉ acc.map (·.1) := by
          intro hmem
          rw [List.map_append, List.nodup_append] at hnd
          exact hnd.2.2 q.1 hmem q.1 (by simp) rfl
        unfold exchangeLoop
        simp only [bind, Except.bind, hq]
        rw [Event.get?_none_of_not_mem acc q.1 hnot]
        simp only
        rw [hcl q List.mem_cons_self]
        simp only [Bool.false_eq_true, if_false]
        rw [Event.set_of_not_mem acc q.1 q.2 hnot]
        have := exchangeLoop_of_nodup cf cond val rem ps qs' (acc ++ [(q.1, q.2)]) hl (by simpa using hnd)
          (fun q' hq' => hcl q' (List.mem_cons_of_mem _ hq'))
        rw [this]
        simp

theorem exchangeStep_of_nodup (cf : MG Var) (outcomes : Event) (cond : Var) (val : Iv) (rem : Event) (qs : List (Var × Iv))
    (hm : outcomes.mapM (exchangeKey cf cond val) = .ok qs) (hnd : (qs.map (·.1)).Nodup)
    (hcl : ∀ q ∈ qs, ∀ v, rem.get? q.1 = some v → v = q.2) :
    exchangeStep cf outcomes cond val rem = .ok (some qs) := by
  unfold exchangeStep
  have hcl' : ∀ q ∈ qs, remClash rem q = false := by
    intro q hq
    cases hc : remClash rem q with
    | false => rfl
    | true =>
      obtain ⟨v, hg, hne⟩ := remClash_true rem q hc
      exact absurd (hcl q hq v hg) hne
  have := exchangeLoop_of_nodup cf cond val rem outcomes qs [] hm (by simpa using hnd) hcl'
  simpa using this

theorem exchangeLoop_none (cf : MG Var) (cond : Var) (val : Iv) (rem : Event) : ∀ (ps : List (Var × Iv)) (acc : Event),
    exchangeLoop cf cond val rem ps acc = .ok none →
      ∃ p ∈ ps, ∃ q v, exchangeKey cf cond val p = .ok q ∧ v ≠ q.2 ∧
        ((q.1, v) ∈ acc ∨ (∃ p' ∈ ps, exchangeKey cf cond val p' = .ok (q.1, v)) ∨ rem.get? q.1 = some v)
  | [], acc, h => by simp [exchangeLoop] at h
  | p :: ps, acc, h => by
    unfold exchangeLoop at h
    simp only [bind, Except.bind, pure, Except.pure] at h
    cases hq : exchangeKey cf cond val p with
    | error err => rw [hq] at h; cases h
    | ok q =>
      rw [hq] at h
      simp only at h
      have hmemset : ∀ (k : Var) (v : Iv), (k, v) ∈ acc.set q.1 q.2 → (k, v) ∈ acc ∨ (k, v) = (q.1, q.2) := by
        intro k v hm
        unfold Event.set at hm
        split at hm
        · obtain ⟨x, hx, hxe⟩ := List.mem_map.1 hm
          split at hxe
          · right; exact hxe.symm
          · left; rw [← hxe]; exact hx
        · rcases List.mem_append.1 hm with h' | h'
          · exact Or.inl h'
          · right; simpa using h'
      have hrecuse : exchangeLoop cf cond val rem ps (acc.set q.1 q.2) = .ok none →
          ∃ p0 ∈ p :: ps, ∃ q0 v, exchangeKey cf cond val p0 = .ok q0 ∧ v ≠ q0.2 ∧
            ((q0.1, v) ∈ acc ∨ (∃ p' ∈ p :: ps, exchangeKey cf cond val p' = .ok (q0.1, v)) ∨ rem.get? q0.1 = some v) := by
        intro hrec
        obtain ⟨p0, hp0, q0, v, hk0, hne, hor⟩ := exchangeLoop_none cf cond val rem ps _ hrec
        refine ⟨p0, List.mem_cons_of_mem _ hp0, q0, v, hk0, hne, ?_⟩
        rcases hor with hacc | ⟨p', hp', hk'⟩ | hrem
        · rcases hmemset _ _ hacc with h' | h'
          · exact Or.inl h'
          · right; left
            refine ⟨p, List.mem_cons_self, ?_⟩
            rw [hq, h']
        · exact Or.inr (Or.inl ⟨p', List.mem_cons_of_mem _ hp', hk'⟩)
        · exact Or.inr (Or.inr hrem)
      have hclash : remClash rem q = true →
          ∃ p0 ∈ p :: ps, ∃ q0 v, exchangeKey cf cond val p0 = .ok q0 ∧ v ≠ q0.2 ∧
            ((q0.1, v) ∈ acc ∨ (∃ p' ∈ p :: ps, exchangeKey cf cond val p' = .ok (q0.1, v)) ∨ rem.get? q0.1 = some v) := by
        intro hc
        obtain ⟨v, hg, hne⟩ := remClash_true rem q hc
        exact ⟨p, List.mem_cons_self, q, v, hq, hne, Or.inr (Or.inr hg)⟩
      cases hg : acc.get? q.1 with
      | none =>
        rw [hg] at h
        simp only at h
        split at h
        · rename_i hc; exact hclash hc
        · exact hrecuse h
      | some v =>
        rw [hg] at h
        simp only at h
        split at h
        · split at h
          · rename_i hc; exact hclash hc
          · exact hrecuse h
        · rename_i hne
          exact ⟨p, List.mem_cons_self, q, v, hq, hne, Or.inl (Event.mem_of_get? acc q.1 v hg)⟩

/-- **the loop answers "inconsistent" only when two outcomes end up under ONE key with DIFFERENT values, or an outcome ends up under
the key of a REMAINING CONDITION that demands a DIFFERENT value** -/
theorem exchangeStep_none (cf : MG Var) (outcomes : Event) (cond : Var) (val : Iv) (rem : Event)
    (h : exchangeStep cf outcomes cond val rem = .ok none) :
    (∃ p ∈ outcomes, ∃ p' ∈ outcomes, ∃ k v v', exchangeKey cf cond val p = .ok (k, v) ∧
      exchangeKey cf cond val p' = .ok (k, v') ∧ v ≠ v') ∨
    (∃ p ∈ outcomes, ∃ k v v', exchangeKey cf cond val p = .ok (k, v) ∧ rem.get? k = some v' ∧ v' ≠ v) := by
  unfold exchangeStep at h
  obtain ⟨p, hp, q, v, hk, hne, hor⟩ := exchangeLoop_none cf cond val rem outcomes [] h
  rcases hor with hnil | ⟨p', hp', hk'⟩ | hrem
  · cases hnil
  · exact Or.inl ⟨p', hp', p, hp, q.1, v, q.2, hk', hk, hne⟩
  · exact Or.inr ⟨p, hp, q.1, q.2, v, hk, hrem, hne⟩

/-- the statement before `fix:` "… a remaining condition's variable …": without remaining conditions only the outcome/outcome clash -/
theorem exchangeStep_none_nil (cf : MG Var) (outcomes : Event) (cond : Var) (val : Iv)
    (h : exchangeStep cf outcomes cond val [] = .ok none) :
    ∃ p ∈ outcomes, ∃ p' ∈ outcomes, ∃ k v v', exchangeKey cf cond val p = .ok (k, v) ∧
      exchangeKey cf cond val p' = .ok (k, v') ∧ v ≠ v' := by
  rcases exchangeStep_none cf outcomes cond val [] h with h' | ⟨p, _, k, v, v', _, hg, _⟩
  · exact h'
  · cases hg

/-! ### the converse: the loop answers "inconsistent" EXACTLY on the two conflicts -/

theorem Event.get?_map_set (k : Var) (v : Iv) (k' : Var) : ∀ (acc : Event),
    Event.get? (acc.map (fun p => if p.1 = k then (k, v) else p)) k' = (Event.get? acc k').map (fun w => if k' = k then v else w)
  | [] => rfl
  | p :: ps => by
    have ih := Event.get?_map_set k v k' ps
    have key : (if p.1 = k then (k, v) else p).1 = p.1 := by
      split
      · rename_i h; exact h.symm
      · rfl
    simp only [Event.get?, List.map_cons, List.find?_cons, key] at ih ⊢
    by_cases hp' : p.1 = k'
    · simp only [hp', decide_true, Option.map_some]
      by_cases hp : p.1 = k
      · have hkk : k' = k := hp'.symm.trans hp
        simp only [hkk, if_true]
      · have hkk : ¬ k' = k := fun e => hp (hp'.trans e)
        simp only [hkk, if_false]
    · simp only [hp', decide_false]
      exact ih

/-- reading a dict after `d[k] = v` -/
theorem Event.get?_set (acc : Event) (k : Var) (v : Iv) (k' : Var) :
    (acc.set k v).get? k' = if k' = k then some v else acc.get? k' := by
  unfold Event.set
  by_cases hh : acc.has k = true
  · rw [if_pos hh]
    rw [Event.get?_map_set]
    by_cases hk : k' = k
    · rw [if_pos hk, hk]
      cases hg : acc.get? k with
      | some w => simp
      | none =>
        exfalso
        unfold Event.get? at hg
        cases hf : acc.find? (fun p => p.1 = k) with
        | some r => rw [hf] at hg; cases hg
        | none =>
          rw [List.find?_eq_none] at hf
          obtain ⟨p, hp, hpk⟩ := List.any_eq_true.1 hh
          exact hf p hp hpk
    · rw [if_neg hk]
      simp [hk]
  · rw [if_neg hh]
    have hnone : acc.find? (fun p => decide (p.1 = k)) = none := by
      rw [List.find?_eq_none]
      intro p hp hpk
      exact hh (List.any_eq_true.2 ⟨p, hp, hpk⟩)
    by_cases hk : k' = k
    · rw [if_pos hk, hk]
      simp [Event.get?, List.find?_append, hnone]
    · rw [if_neg hk]
      have : ¬ k = k' := fun e => hk e.symm
      simp only [Event.get?, List.find?_append, List.find?_cons, this, decide_false, List.find?_nil, Option.or_none]

/-- the loop of line 4 on the re-keyed outcomes `qs` (what `exchangeLoop` computes once every `exchangeKey` has succeeded);
NOT a model of a Python function, a device of the proofs below -/
def keyLoop (rem : Event) : List (Var × Iv) → Event → Option Event
  | [], acc => some acc
  | q :: qs, acc =>
    match acc.get? q.1 with
    | some v => if v = q.2 then (if remClash rem q then none else keyLoop rem qs (acc.set q.1 q.2)) else none
    | none => if remClash rem q then none else keyLoop rem qs (acc.set q.1 q.2)

theorem keyLoop_cons (rem : Event) (q : Var × Iv) (qs : List (Var × Iv)) (acc : Event) :
    keyLoop rem (q :: qs) acc =
      (match acc.get? q.1 with
       | some v => if v = q.2 then (if remClash rem q then none else keyLoop rem qs (acc.set q.1 q.2)) else none
       | none => if remClash rem q then none else keyLoop rem qs (acc.set q.1 q.2)) := rfl

theorem exchangeLoop_eq_keyLoop (cf : MG Var) (cond : Var) (val : Iv) (rem : Event) : ∀ (ps qs : List (Var × Iv)) (acc : Event),
    ps.mapM (exchangeKey cf cond val) = .ok qs → exchangeLoop cf cond val rem ps acc = .ok (keyLoop rem qs acc)
  | [], qs, acc, hm => by
    simp only [List.mapM_nil, pure, Except.pure, Except.ok.injEq] at hm
    subst hm
    rfl
  | p :: ps, qs, acc, hm => by
    rw [List.mapM_cons] at hm
    simp only [bind, Except.bind, pure, Except.pure] at hm
    cases hq : exchangeKey cf cond val p with
    | error err => rw [hq] at hm; cases hm
    | ok q =>
      rw [hq] at hm
      simp only at hm
      cases hl : ps.mapM (exchangeKey cf cond val) with
      | error err => rw [hl] at hm; cases hm
      | ok qs' =>
        rw [hl] at hm
        simp only [Except.ok.injEq] at hm
        subst hm
        have ih := exchangeLoop_eq_keyLoop cf cond val rem ps qs' (acc.set q.1 q.2) hl
        rw [keyLoop_cons]
        unfold exchangeLoop
        simp only [bind, Except.bind, hq, pure, Except.pure]
        cases acc.get? q.1 with
        | none =>
          simp only
          split
          · rfl
          · exact ih
        | some v =>
          simp only
          split
          · split
            · rfl
            · exact ih
          · rfl

/-- the re-keyed outcomes do not contradict one another: equal keys carry equal values -/
def Agree (a b : Var × Iv) : Prop := a.1 = b.1 → a.2 = b.2

theorem keyLoop_some_iff (rem : Event) : ∀ (qs : List (Var × Iv)) (acc : Event),
    (∃ e, keyLoop rem qs acc = some e) ↔
      ((∀ q ∈ qs, ∀ v, acc.get? q.1 = some v → v = q.2) ∧ qs.Pairwise Agree ∧ ∀ q ∈ qs, remClash rem q = false)
  | [], acc => by simp [keyLoop]
  | q :: qs, acc => by
    have ih := keyLoop_some_iff rem qs (acc.set q.1 q.2)
    have hstep : (∃ e, keyLoop rem (q :: qs) acc = some e) ↔
        ((∀ v, acc.get? q.1 = some v → v = q.2) ∧ remClash rem q = false ∧ ∃ e, keyLoop rem qs (acc.set q.1 q.2) = some e) := by
      rw [keyLoop_cons]
      cases hg : acc.get? q.1 with
      | none =>
        simp only
        cases hc : remClash rem q with
        | true => simp
        | false => simp
      | some v =>
        simp only
        by_cases hv : v = q.2
        · cases hc : remClash rem q with
          | true => simp [hv]
          | false => simp [hv]
        · simp only [if_neg hv]
          constructor
          · rintro ⟨e, he⟩; cases he
          · rintro ⟨h1, _, _⟩; exact absurd (h1 v rfl) hv
    rw [hstep, ih, List.pairwise_cons]
    constructor
    · rintro ⟨hhead, hcl, hacc, hpw, hrem⟩
      refine ⟨?_, ⟨?_, hpw⟩, ?_⟩
      · intro q' hq' v hg
        rcases List.mem_cons.1 hq' with rfl | hq'
        · exact hhead v hg
        · by_cases hk : q'.1 = q.1
          · have h1 := hacc q' hq' q.2 (by rw [Event.get?_set, if_pos hk])
            rw [hk] at hg
            rw [hhead v hg, h1]
          · exact hacc q' hq' v (by rw [Event.get?_set, if_neg hk]; exact hg)
      · intro q' hq' hk
        exact hacc q' hq' q.2 (by rw [Event.get?_set, if_pos hk.symm])
      · intro q' hq'
        rcases List.mem_cons.1 hq' with rfl | hq'
        · exact hcl
        · exact hrem q' hq'
    · rintro ⟨hacc, ⟨hhd, hpw⟩, hrem⟩
      refine ⟨hacc q List.mem_cons_self, hrem q List.mem_cons_self, ?_, hpw, fun q' hq' => hrem q' (List.mem_cons_of_mem _ hq')⟩
      intro q' hq' v hg
      rw [Event.get?_set] at hg
      by_cases hk : q'.1 = q.1
      · rw [if_pos hk] at hg
        cases hg
        exact hhd q' hq' hk.symm
      · rw [if_neg hk] at hg
        exact hacc q' (List.mem_cons_of_mem _ hq') v hg

/-- the re-keyed outcomes contradict one another iff two entries AT DIFFERENT POSITIONS (`[a, b]` is a sublist) have one key and two values -/
theorem not_pairwise_agree_iff (qs : List (Var × Iv)) :
    ¬ qs.Pairwise Agree ↔ ∃ a b, [a, b].Sublist qs ∧ a.1 = b.1 ∧ a.2 ≠ b.2 := by
  rw [List.pairwise_iff_forall_sublist]
  constructor
  · intro h
    exact Classical.byContradiction fun hn =>
      h (fun {a b} hsub hk => Decidable.byContradiction fun hne => hn ⟨a, b, hsub, hk, hne⟩)
  · rintro ⟨a, b, hsub, hk, hne⟩ h
    exact hne (h hsub hk)

/-- **the loop returns a dict EXACTLY when the re-keyed outcomes contradict neither one another nor a remaining condition** (and then
it is `dict(qs)`), provided every `intervene` succeeded -/
theorem exchangeStep_some_iff (cf : MG Var) (outcomes : Event) (cond : Var) (val : Iv) (rem : Event) (qs : List (Var × Iv))
    (hm : outcomes.mapM (exchangeKey cf cond val) = .ok qs) :
    exchangeStep cf outcomes cond val rem = .ok (some (Event.ofList qs)) ↔
      (qs.Pairwise (fun a b => a.1 = b.1 → a.2 = b.2) ∧ ∀ q ∈ qs, ∀ v, rem.get? q.1 = some v → v = q.2) := by
  have hsome := keyLoop_some_iff rem qs []
  have hacc : ∀ q ∈ qs, ∀ v, Event.get? [] q.1 = some v → v = q.2 := by intro q _ v h; cases h
  have heq : exchangeStep cf outcomes cond val rem = .ok (keyLoop rem qs []) := by
    unfold exchangeStep
    exact exchangeLoop_eq_keyLoop cf cond val rem outcomes qs [] hm
  constructor
  · intro h
    rw [heq] at h
    simp only [Except.ok.injEq] at h
    obtain ⟨_, hpw, hrem⟩ := hsome.1 ⟨_, h⟩
    refine ⟨hpw, fun q hq v hg => Decidable.byContradiction fun hne => ?_⟩
    have := remClash_of_get? rem q v hg hne
    rw [hrem q hq] at this
    cases this
  · rintro ⟨hpw, hcl⟩
    have hrem : ∀ q ∈ qs, remClash rem q = false := by
      intro q hq
      cases hc : remClash rem q with
      | false => rfl
      | true =>
        obtain ⟨v, hg, hne⟩ := remClash_true rem q hc
        exact absurd (hcl q hq v hg) hne
    obtain ⟨e, he⟩ := hsome.2 ⟨hacc, hpw, hrem⟩
    have hstep : exchangeStep cf outcomes cond val rem = .ok (some e) := by rw [heq, he]
    have hx := exchangeStep_some cf outcomes cond val rem e hstep
    rw [exchangeOutcomes_eq, hm] at hx
    simp only [Except.ok.injEq] at hx
    rw [hstep, hx]

/-- **the loop answers "inconsistent" EXACTLY when two re-keyed outcomes at different positions have one key and two values, or a
re-keyed outcome is the variable of a remaining condition that demands a different value** (provided every `intervene` succeeded:
errors surface first) -/
theorem exchangeStep_none_iff (cf : MG Var) (outcomes : Event) (cond : Var) (val : Iv) (rem : Event) (qs : List (Var × Iv))
    (hm : outcomes.mapM (exchangeKey cf cond val) = .ok qs) :
    exchangeStep cf outcomes cond val rem = .ok none ↔
      ((∃ a b, [a, b].Sublist qs ∧ a.1 = b.1 ∧ a.2 ≠ b.2) ∨ (∃ q ∈ qs, ∃ v', rem.get? q.1 = some v' ∧ v' ≠ q.2)) := by
  have hsome := keyLoop_some_iff rem qs []
  have hacc : ∀ q ∈ qs, ∀ v, Event.get? [] q.1 = some v → v = q.2 := by intro q _ v h; cases h
  have heq : exchangeStep cf outcomes cond val rem = .ok (keyLoop rem qs []) := by
    unfold exchangeStep
    exact exchangeLoop_eq_keyLoop cf cond val rem outcomes qs [] hm
  rw [heq]
  constructor
  · intro h
    have hk : keyLoop rem qs [] = none := by simpa using h
    by_cases hpw : qs.Pairwise Agree
    · right
      by_cases hex : ∃ q ∈ qs, remClash rem q = true
      · obtain ⟨q, hq, hc⟩ := hex
        obtain ⟨v, hg, hne⟩ := remClash_true rem q hc
        exact ⟨q, hq, v, hg, hne⟩
      · exfalso
        have hrem : ∀ q ∈ qs, remClash rem q = false := by
          intro q hq
          cases hc : remClash rem q with
          | false => rfl
          | true => exact absurd ⟨q, hq, hc⟩ hex
        obtain ⟨e, he⟩ := hsome.2 ⟨hacc, hpw, hrem⟩
        rw [hk] at he
        cases he
    · left; exact (not_pairwise_agree_iff qs).1 hpw
  · intro h
    have hnot : ¬ ∃ e, keyLoop rem qs [] = some e := by
      intro hs
      obtain ⟨_, hpw, hrem⟩ := hsome.1 hs
      rcases h with hc | ⟨q, hq, v, hg, hne⟩
      · exact (not_pairwise_agree_iff qs).2 hc hpw
      · have := remClash_of_get? rem q v hg hne
        rw [hrem q hq] at this
        cases this
    cases hk : keyLoop rem qs [] with
    | none => rfl
    | some e => exact absurd ⟨e, hk⟩ hnot

/-- the converse of `exchangeStep_none` on its own -/
theorem exchangeStep_none_of_conflict (cf : MG Var) (outcomes : Event) (cond : Var) (val : Iv) (rem : Event) (qs : List (Var × Iv))
    (hm : outcomes.mapM (exchangeKey cf cond val) = .ok qs)
    (h : (∃ a b, [a, b].Sublist qs ∧ a.1 = b.1 ∧ a.2 ≠ b.2) ∨ (∃ q ∈ qs, ∃ v', rem.get? q.1 = some v' ∧ v' ≠ q.2)) :
    exchangeStep cf outcomes cond val rem = .ok none :=
  (exchangeStep_none_iff cf outcomes cond val rem qs hm).2 h

end Cf
end Y0
