/-
  Y0.Lemmas.FscmToScm — **the semi-Markovian model induced by a functional SCM has the same single-world
  distributions** (`fscm_toScm_F`, `fscm_toScm_prDo`):

      (M.toScm card base).prDo G dos ev  =  mass of the noise points u with  solve M u dos x = k  for all (x,k) ∈ ev .

  Ingredients: `solve` is the unique solution of the structural equations (Y0/Lemmas/FscmSolveEq.lean), the noise space
  is an iterated sum over the names `base + j` (Y0/Lemmas/FscmSpaceSum.lean), a product of kernels
  `kern v = Σ_{private noise of v} …` is one sum over all private noise (the private noises of different variables are
  different variables), private noise of intervened variables sums to one, and marginal consistency of the
  functional model (`prob_marg`).
-/
import Y0.Spec.FscmToScm
import Y0.Lemmas.FscmSpaceSum
import Y0.Lemmas.FscmSolveEq
import Y0.Lemmas.FscmEnvLaws
import Y0.Lemmas.TianProb
import Y0.Lemmas.IdDen
import Y0.Lemmas.CtfScm
import Y0.Lemmas.ScmEnvXWorld

namespace Y0
namespace Fscm
open TianProb

/-- what the theorem assumes about `(M, card, base, G)` -/
structure ToScmOK (M : Model) (card : Name → Nat) (base : Nat) (G : MG Name) : Prop where
  wf : WellFormed M card
  compat : Compatible M G
  base_gt : ∀ v ∈ M.order, v < base
  lat_lt : ∀ v, ∀ j ∈ M.lat v, j < M.noise.length
  lat_nodup : ∀ v, (M.lat v).Nodup

variable {M : Model} {card : Name → Nat} {base : Nat} {G : MG Name}

/-! ### names, cardinalities, priors -/

theorem cardS_node (M : Model) (card : Name → Nat) {base v : Nat} (h : v < base) : M.cardS card base v = card v := by
  simp [Model.cardS, h]

theorem cardS_noise (M : Model) (card : Name → Nat) (base : Nat) {j : Nat} (hj : j < M.noise.length) :
    M.cardS card base (base + j) = (M.noise.getD j []).length := by
  simp [Model.cardS, hj]

theorem priorS_noise (M : Model) (base j k : Nat) : M.priorS base (base + j) k = (M.noise.getD j []).getD k 1 := by
  simp [Model.priorS]

/-- product of the priors of a list of noise names -/
def prL (M : Model) (base : Nat) (L : List Name) (τ : Val) : Rat := (L.map fun n => M.priorS base n (τ n)).prod

theorem prL_nil (M : Model) (base : Nat) (τ : Val) : prL M base [] τ = 1 := rfl
theorem prL_append (M : Model) (base : Nat) (L₁ L₂ : List Name) (τ : Val) :
    prL M base (L₁ ++ L₂) τ = prL M base L₁ τ * prL M base L₂ τ := by
  simp [prL, List.map_append, List.prod_append]
theorem prL_perm (M : Model) (base : Nat) {L₁ L₂ : List Name} (h : L₁.Perm L₂) (τ : Val) :
    prL M base L₁ τ = prL M base L₂ τ := (h.map _).prod_eq

theorem weightOf_eq_prL (M : Model) (base : Nat) (τ : Val) :
    weightOf M.noise base τ = prL M base (noiseNames base M.noise.length) τ := by
  unfold weightOf prL noiseNames
  rw [List.map_map]
  congr 1
  apply List.map_congr_left
  intro j _
  simp [priorS_noise]

theorem prL_indep (M : Model) (base : Nat) (L : List Name) {n : Name} (h : n ∉ L) : IndepOf (prL M base L) n := by
  intro σ k
  unfold prL
  congr 1
  apply List.map_congr_left
  intro m hm
  have : m ≠ n := fun e => h (e ▸ hm)
  rw [Val.set_other _ _ this]

theorem ne_base_add {p base j : Nat} (h : p < base) : p ≠ base + j := by omega
theorem base_add_ne {base i j : Nat} (h : i ≠ j) : base + i ≠ base + j := by omega

/-- the structural-equation indicator of `v` reads the noise `base + j` only for `j ∈ lat v` -/
theorem eqn_indep (hOK : ToScmOK M card base G) {v : Name} (hv : v ∈ M.order) {j : Nat} (hj : j ∉ M.lat v) :
    IndepOf (M.eqn base v) (base + j) := by
  intro σ k
  have hvb : v < base := hOK.base_gt v hv
  have hpa : ∀ p ∈ M.pa v, p < base := by
    intro p hp
    obtain ⟨l₁, l₂, hord⟩ := List.append_of_mem hv
    apply hOK.base_gt
    rw [hord]
    exact List.mem_append_left _ (hOK.compat.topo l₁ v l₂ hord p hp)
  unfold Model.eqn
  have h1 : (M.pa v).map (σ.set (base + j) k) = (M.pa v).map σ := by
    apply List.map_congr_left
    intro p hp
    rw [Val.set_other _ _ (ne_base_add (hpa p hp))]
  have h2 : (M.lat v).map (fun i => (σ.set (base + j) k) (base + i)) = (M.lat v).map fun i => σ (base + i) := by
    apply List.map_congr_left
    intro i hi
    have : i ≠ j := fun e => hj (e ▸ hi)
    rw [Val.set_other _ _ (base_add_ne this)]
  have h3 : (σ.set (base + j) k) v = σ v := Val.set_other _ _ (ne_base_add hvb)
  rw [h1, h2, h3]

theorem prod_indicator {α} (l : List α) (P : α → Prop) [DecidablePred P] :
    (l.map fun a => if P a then (1 : Rat) else 0).prod = if ∀ a ∈ l, P a then 1 else 0 := by
  induction l with
  | nil => simp
  | cons a l ih =>
    rw [List.map_cons, List.prod_cons, ih]
    by_cases ha : P a
    · by_cases hl : ∀ b ∈ l, P b
      · simp [ha]
      · have : ¬ ∀ b ∈ a :: l, P b := fun h => hl (fun b hb => h b (List.mem_cons_of_mem _ hb))
        simp [ha, hl]
    · have : ¬ ∀ b ∈ a :: l, P b := fun h => ha (h a List.mem_cons_self)
      simp [ha]

/-! ### the functional side: probability of a full assignment -/

/-- the world that sets `X` to the values read off `ρ` -/
def doOf (X : List Name) (ρ : Val) : Do := X.map fun x => (x, ρ x)

theorem forced_doOf_mem {X : List Name} (ρ : Val) {v : Name} (h : v ∈ X) : forced (doOf X ρ) v = some (ρ v) :=
  Ctf.forced_map_self X ρ v h

theorem forced_doOf_not_mem {X : List Name} (ρ : Val) {v : Name} (h : v ∉ X) : forced (doOf X ρ) v = none :=
  Ctf.forced_map_none X ρ v h

theorem pointOf_getD (o n : Nat) (τ : Val) {j : Nat} (hj : j < n) : (pointOf o n τ).getD j 0 = τ (o + j) := by
  unfold pointOf
  simp [List.getD_eq_getElem?_getD, List.getElem?_map, List.getElem?_range hj]

theorem doOf_congr {X : List Name} {ρ τ : Val} (h : ∀ x ∈ X, τ x = ρ x) : doOf X τ = doOf X ρ := by
  unfold doOf
  apply List.map_congr_left
  intro x hx
  rw [h x hx]

/-- **mass of a full assignment of the non-intervened variables** = the sum over the named noise of the weight times
the product of the structural-equation indicators -/
theorem prob_full (hOK : ToScmOK M card base G) (X T : List Name) (hT : ∀ v, v ∈ T ↔ v ∈ M.order ∧ v ∉ X) (ρ : Val) :
    prob M (T.map fun v => ⟨v, doOf X ρ, ρ v⟩) =
      sumVars (M.cardS card base) (noiseNames base M.noise.length)
        (fun τ => weightOf M.noise base τ * (T.map fun v => M.eqn base v τ).prod) ρ := by
  set d := doOf X ρ with hd
  have hprob : prob M (T.map fun v => ⟨v, d, ρ v⟩) =
      ((space M.noise).map fun pt => pt.2 * (if ∀ v ∈ T, solve M pt.1 d v = ρ v then (1 : Rat) else 0)).sum := by
    unfold prob
    apply sum_map_congr
    rintro ⟨u, w⟩ _
    have hall : (T.map fun v => (⟨v, d, ρ v⟩ : Conjunct)).all (holds M u) = true ↔ ∀ v ∈ T, solve M u d v = ρ v := by
      simp [List.all_eq_true, holds]
    show (if (T.map fun v => (⟨v, d, ρ v⟩ : Conjunct)).all (holds M u) = true then w else 0) =
      w * (if ∀ v ∈ T, solve M u d v = ρ v then (1 : Rat) else 0)
    by_cases h : ∀ v ∈ T, solve M u d v = ρ v
    · rw [if_pos (hall.mpr h), if_pos h, mul_one]
    · rw [if_neg (fun h' => h (hall.mp h')), if_neg h, mul_zero]
  rw [hprob, space_sum (M.cardS card base) M.noise base
    (fun u => if ∀ v ∈ T, solve M u d v = ρ v then (1 : Rat) else 0) ρ (fun j hj => cardS_noise M card base hj)]
  apply sumVars_congr_outside
  intro τ hτ
  congr 1
  -- τ agrees with ρ on the observed variables
  have hτnode : ∀ v, v < base → τ v = ρ v := by
    intro v hv
    apply hτ
    rw [mem_noiseNames]
    omega
  have hnodup := hOK.compat.nodup
  have htopo := hOK.compat.topo
  have hpaord : ∀ v ∈ M.order, ∀ p ∈ M.pa v, p ∈ M.order := by
    intro v hv p hp
    obtain ⟨l₁, l₂, hord⟩ := List.append_of_mem hv
    rw [hord]
    exact List.mem_append_left _ (htopo l₁ v l₂ hord p hp)
  have hprod : (T.map fun v => M.eqn base v τ).prod =
      if ∀ v ∈ T, M.f v ((M.pa v).map τ) ((M.lat v).map fun j => τ (base + j)) = τ v then 1 else 0 :=
    prod_indicator T (fun v => M.f v ((M.pa v).map τ) ((M.lat v).map fun j => τ (base + j)) = τ v)
  rw [hprod]
  have key : (∀ v ∈ T, solve M (pointOf base M.noise.length τ) d v = ρ v) ↔
      (∀ v ∈ T, M.f v ((M.pa v).map τ) ((M.lat v).map fun j => τ (base + j)) = τ v) := by
    have hiff := solve_eq_iff M (pointOf base M.noise.length τ) d hnodup htopo ρ (by
      intro v hv x hx
      by_cases hvX : v ∈ X
      · rw [hd, forced_doOf_mem ρ hvX] at hx
        exact Option.some.inj hx
      · rw [hd, forced_doOf_not_mem ρ hvX] at hx
        cases hx)
    have hrw : ∀ v ∈ M.order, M.f v ((M.pa v).map ρ) ((M.lat v).map fun j => (pointOf base M.noise.length τ).getD j 0) =
        M.f v ((M.pa v).map τ) ((M.lat v).map fun j => τ (base + j)) := by
      intro v hv
      congr 1
      · apply List.map_congr_left
        intro p hp
        exact (hτnode p (hOK.base_gt p (hpaord v hv p hp))).symm
      · apply List.map_congr_left
        intro j hj
        exact pointOf_getD base _ τ (hOK.lat_lt v j hj)
    constructor
    · intro h v hv
      have hvo := (hT v).mp hv
      have := hiff.mp (fun w hw hf => by
        apply h w
        rw [hT]
        refine ⟨hw, fun hwX => ?_⟩
        rw [hd, forced_doOf_mem ρ hwX] at hf
        cases hf) v hvo.1 (by rw [hd]; exact forced_doOf_not_mem ρ hvo.2)
      rw [← hrw v hvo.1, ← this, hτnode v (hOK.base_gt v hvo.1)]
    · intro h v hv
      have hvo := (hT v).mp hv
      apply hiff.mpr _ v hvo.1 (by rw [hd]; exact forced_doOf_not_mem ρ hvo.2)
      intro w hw hf
      have hwT : w ∈ T := by
        rw [hT]
        refine ⟨hw, fun hwX => ?_⟩
        rw [hd, forced_doOf_mem ρ hwX] at hf
        cases hf
      rw [hrw w hw, h w hwT, hτnode w (hOK.base_gt w hw)]
  by_cases hc : ∀ v ∈ T, solve M (pointOf base M.noise.length τ) d v = ρ v
  · rw [if_pos hc, if_pos (key.mp hc)]
  · rw [if_neg hc, if_neg (fun h => hc (key.mpr h))]

/-! ### the semi-Markovian side: `Q[T]` as one sum over all named noise -/

theorem mem_privOf {v n : Name} : n ∈ M.privOf base v ↔ ∃ j, j ∈ M.lat v ∧ M.isPriv j = true ∧ n = base + j := by
  unfold Model.privOf
  simp only [List.mem_map, List.mem_filter]
  constructor
  · rintro ⟨j, ⟨h1, h2⟩, rfl⟩; exact ⟨j, h1, h2, rfl⟩
  · rintro ⟨j, h1, h2, rfl⟩; exact ⟨j, ⟨h1, h2⟩, rfl⟩

/-- a private exogenous variable has a single reader -/
theorem priv_user {v w : Name} {j : Nat} (hv : v ∈ M.order) (hw : w ∈ M.order) (hjv : j ∈ M.lat v) (hjw : j ∈ M.lat w)
    (hp : M.isPriv j = true) : v = w := by
  unfold Model.isPriv at hp
  have hlen : (M.users j).length = 1 := by simpa using hp
  obtain ⟨u0, hu0⟩ := List.length_eq_one_iff.mp hlen
  have hmv : v ∈ M.users j := by
    unfold Model.users; rw [List.mem_filter]; exact ⟨hv, by simpa using hjv⟩
  have hmw : w ∈ M.users j := by
    unfold Model.users; rw [List.mem_filter]; exact ⟨hw, by simpa using hjw⟩
  rw [hu0, List.mem_singleton] at hmv hmw
  rw [hmv, hmw]

theorem privOf_nodup (hOK : ToScmOK M card base G) (v : Name) : (M.privOf base v).Nodup := by
  unfold Model.privOf
  apply List.Nodup.map
  · intro a b h; exact Nat.add_left_cancel h
  · exact (hOK.lat_nodup v).filter _

theorem privOf_disjoint {v w : Name} (hv : v ∈ M.order) (hw : w ∈ M.order) (hne : v ≠ w) {n : Name}
    (h1 : n ∈ M.privOf base v) (h2 : n ∈ M.privOf base w) : False := by
  obtain ⟨j, hj, hp, rfl⟩ := mem_privOf.mp h1
  obtain ⟨j', hj', _, e⟩ := mem_privOf.mp h2
  have : j = j' := Nat.add_left_cancel e
  subst this
  exact hne (priv_user hv hw hj hj' hp)

theorem mem_flatMap_privOf {A : List Name} {n : Name} :
    n ∈ A.flatMap (M.privOf base) ↔ ∃ v ∈ A, n ∈ M.privOf base v := by simp [List.mem_flatMap]

theorem sumVars_mul_right' (card : Name → Nat) (xs : List Name) (f g : Val → Rat) (σ : Val)
    (hg : ∀ x ∈ xs, IndepOf g x) : sumVars card xs (fun τ => f τ * g τ) σ = sumVars card xs f σ * g σ := by
  have : (fun τ => f τ * g τ) = fun τ => g τ * f τ := funext fun τ => mul_comm _ _
  rw [this, sumVars_mul_left card xs g f σ hg, mul_comm]

/-- the integrand of the private noise of `A` -/
def gOf (M : Model) (base : Nat) (A : List Name) (τ : Val) : Rat :=
  prL M base (A.flatMap (M.privOf base)) τ * (A.map fun v => M.eqn base v τ).prod

theorem eqn_indep_priv (hOK : ToScmOK M card base G) {v w : Name} (hv : v ∈ M.order) (hw : w ∈ M.order) (hne : v ≠ w)
    {n : Name} (hn : n ∈ M.privOf base w) : IndepOf (M.eqn base v) n := by
  obtain ⟨j, hj, hp, rfl⟩ := mem_privOf.mp hn
  apply eqn_indep hOK hv
  intro hjv
  exact hne (priv_user hv hw hjv hj hp)

theorem gOf_indep (hOK : ToScmOK M card base G) {A : List Name} (hAo : ∀ v ∈ A, v ∈ M.order) {w : Name}
    (hw : w ∈ M.order) (hwA : w ∉ A) {n : Name} (hn : n ∈ M.privOf base w) : IndepOf (gOf M base A) n := by
  unfold gOf
  apply Scm.indepOf_mul
  · apply prL_indep
    intro hmem
    obtain ⟨v, hvA, hnv⟩ := mem_flatMap_privOf.mp hmem
    exact privOf_disjoint (hAo v hvA) hw (fun e => hwA (e ▸ hvA)) hnv hn
  · apply Scm.indepOf_map_prod
    intro v hvA
    exact eqn_indep_priv hOK (hAo v hvA) hw (fun e => hwA (e ▸ hvA)) hn

/-- **a product of kernels is one sum over all the private noise** -/
theorem prod_kern (hOK : ToScmOK M card base G) : ∀ (A : List Name), A.Nodup → (∀ v ∈ A, v ∈ M.order) → ∀ τ : Val,
    (∀ v ∈ A, τ v < card v) →
    (A.map fun v => M.kernOf card base v τ).prod =
      sumVars (M.cardS card base) (A.flatMap (M.privOf base)) (gOf M base A) τ
  | [], _, _, τ, _ => by simp [gOf, sumVars, prL]
  | v :: A, hnd, hAo, τ, hτ => by
    rw [List.nodup_cons] at hnd
    have hv : v ∈ M.order := hAo v List.mem_cons_self
    have hAo' : ∀ w ∈ A, w ∈ M.order := fun w hw => hAo w (List.mem_cons_of_mem _ hw)
    have hk : M.kernOf card base v τ = sumVars (M.cardS card base) (M.privOf base v)
        (fun τ1 => prL M base (M.privOf base v) τ1 * M.eqn base v τ1) τ := by
      unfold Model.kernOf
      rw [if_pos (hτ v List.mem_cons_self)]
      rfl
    rw [List.map_cons, List.prod_cons, hk,
      prod_kern hOK A hnd.2 hAo' τ (fun w hw => hτ w (List.mem_cons_of_mem _ hw)), List.flatMap_cons, sumVars_append]
    -- the inner sum over the private noise of `A` factors
    have hinner : ∀ τ', sumVars (M.cardS card base) (A.flatMap (M.privOf base)) (gOf M base (v :: A)) τ' =
        (prL M base (M.privOf base v) τ' * M.eqn base v τ') *
          sumVars (M.cardS card base) (A.flatMap (M.privOf base)) (gOf M base A) τ' := by
      intro τ'
      have hind : ∀ n ∈ A.flatMap (M.privOf base),
          IndepOf (fun τ => prL M base (M.privOf base v) τ * M.eqn base v τ) n := by
        intro n hn
        obtain ⟨w, hwA, hnw⟩ := mem_flatMap_privOf.mp hn
        have hne : v ≠ w := fun e => hnd.1 (e ▸ hwA)
        apply Scm.indepOf_mul
        · apply prL_indep
          intro hmem
          exact privOf_disjoint hv (hAo' w hwA) hne hmem hnw
        · exact eqn_indep_priv hOK hv (hAo' w hwA) hne hnw
      rw [← sumVars_mul_left (M.cardS card base) (A.flatMap (M.privOf base))
        (fun τ => prL M base (M.privOf base v) τ * M.eqn base v τ) (gOf M base A) τ' hind]
      apply sumVars_congr
      intro τ''
      unfold gOf
      rw [List.flatMap_cons, prL_append, List.map_cons, List.prod_cons]
      ring
    rw [show sumVars (M.cardS card base) (A.flatMap (M.privOf base)) (gOf M base (v :: A)) =
        fun τ' => (prL M base (M.privOf base v) τ' * M.eqn base v τ') *
          sumVars (M.cardS card base) (A.flatMap (M.privOf base)) (gOf M base A) τ' from funext hinner]
    exact (sumVars_mul_right' (M.cardS card base) (M.privOf base v)
      (fun τ1 => prL M base (M.privOf base v) τ1 * M.eqn base v τ1)
      (sumVars (M.cardS card base) (A.flatMap (M.privOf base)) (gOf M base A)) τ
      (fun n hn => sumVars_indep _ _ _ (gOf_indep hOK hAo' hv hnd.1 hn))).symm

theorem sum_range_getD (d : Rat) (l : List Rat) : (∑ k ∈ Finset.range l.length, l.getD k d) = l.sum := by
  induction l with
  | nil => simp
  | cons a l ih =>
    rw [List.length_cons, Finset.sum_range_succ', List.sum_cons]
    simp only [List.getD_cons_succ, List.getD_cons_zero]
    rw [ih, add_comm]

theorem noise_getD_mem {j : Nat} (hj : j < M.noise.length) : M.noise.getD j [] ∈ M.noise := by
  simp [List.getD_eq_getElem?_getD, List.getElem?_eq_getElem hj]

theorem exists_of_mem_noiseNames {o n : Nat} {x : Name} (h : x ∈ noiseNames o n) : ∃ j, j < n ∧ x = o + j := by
  unfold noiseNames at h
  obtain ⟨j, hj, rfl⟩ := List.mem_map.mp h
  exact ⟨j, List.mem_range.mp hj, rfl⟩

/-- the priors of a duplicate-free list of noise names sum to one -/
theorem sumVars_prL_one (hOK : ToScmOK M card base G) : ∀ (L : List Name), L.Nodup →
    (∀ n ∈ L, n ∈ noiseNames base M.noise.length) → ∀ τ : Val,
    sumVars (M.cardS card base) L (prL M base L) τ = 1
  | [], _, _, τ => by simp [sumVars, prL]
  | n :: L, hnd, hsub, τ => by
    rw [List.nodup_cons] at hnd
    simp only [sumVars]
    have hinner : sumVars (M.cardS card base) L (prL M base (n :: L)) = fun τ1 => M.priorS base n (τ1 n) := by
      funext τ1
      have h1 : prL M base (n :: L) = fun τ2 => (fun τ3 => M.priorS base n (τ3 n)) τ2 * prL M base L τ2 := by
        funext τ2; simp [prL]
      rw [h1, sumVars_mul_left (M.cardS card base) L (fun τ3 => M.priorS base n (τ3 n)) (prL M base L) τ1
        (fun m hm σ k => by
          have : n ≠ m := fun e => hnd.1 (e ▸ hm)
          show M.priorS base n ((σ.set m k) n) = M.priorS base n (σ n)
          rw [Val.set_other _ _ this]),
        sumVars_prL_one hOK L hnd.2 (fun m hm => hsub m (List.mem_cons_of_mem _ hm)) τ1, mul_one]
    rw [hinner, sumVar_eq_sum]
    obtain ⟨j, hj, rfl⟩ := exists_of_mem_noiseNames (hsub n List.mem_cons_self)
    simp only [Val.set_same, cardS_noise M card base hj, priorS_noise]
    rw [sum_range_getD]
    exact hOK.wf.noise_sum _ (noise_getD_mem hj)

/-- names of the shared exogenous variables (the latents of the induced model) -/
theorem mem_toScm_lat {n : Name} :
    n ∈ (M.toScm card base).lat ↔ ∃ j, j < M.noise.length ∧ M.isPriv j = false ∧ n = base + j := by
  simp only [Model.toScm, List.mem_map, List.mem_filter, List.mem_range, Bool.not_eq_true']
  constructor
  · rintro ⟨j, ⟨h1, h2⟩, rfl⟩; exact ⟨j, h1, h2, rfl⟩
  · rintro ⟨j, h1, h2, rfl⟩; exact ⟨j, ⟨h1, h2⟩, rfl⟩

theorem toScm_lat_nodup : (M.toScm card base).lat.Nodup := by
  simp only [Model.toScm]
  apply List.Nodup.map
  · intro a b h; exact Nat.add_left_cancel h
  · exact List.nodup_range.filter _

theorem flatMap_privOf_nodup (hOK : ToScmOK M card base G) : ∀ (A : List Name), A.Nodup → (∀ v ∈ A, v ∈ M.order) →
    (A.flatMap (M.privOf base)).Nodup
  | [], _, _ => by simp
  | v :: A, hnd, hAo => by
    rw [List.nodup_cons] at hnd
    rw [List.flatMap_cons, List.nodup_append]
    refine ⟨privOf_nodup hOK v, flatMap_privOf_nodup hOK A hnd.2 (fun w hw => hAo w (List.mem_cons_of_mem _ hw)), ?_⟩
    intro n hn m hm e
    subst e
    obtain ⟨w, hwA, hnw⟩ := mem_flatMap_privOf.mp hm
    exact privOf_disjoint (hAo v List.mem_cons_self) (hAo w (List.mem_cons_of_mem _ hwA))
      (fun e => hnd.1 (e ▸ hwA)) hn hnw

/-- **`Q[T]` of the induced model is the sum, over ALL named noise, of the weight times the structural-equation
indicators of `T`** -/
theorem toScm_Q (hOK : ToScmOK M card base G) (T : List Name) (hTn : T.Nodup) (hTo : ∀ v ∈ T, v ∈ M.order) (ρ : Val)
    (hρ : ∀ v ∈ T, ρ v < card v) :
    (M.toScm card base).Q T ρ =
      sumVars (M.cardS card base) (noiseNames base M.noise.length)
        (fun τ => weightOf M.noise base τ * (T.map fun v => M.eqn base v τ).prod) ρ := by
  set cS := M.cardS card base with hcS
  set Ls := (M.toScm card base).lat with hLs
  set PT := T.flatMap (M.privOf base) with hPT
  set Lall := noiseNames base M.noise.length with hLall
  have hLsub : ∀ n ∈ Ls, n ∈ Lall := by
    intro n hn
    obtain ⟨j, hj, _, rfl⟩ := mem_toScm_lat.mp hn
    rw [hLall, mem_noiseNames]; omega
  have hPsub : ∀ n ∈ PT, n ∈ Lall := by
    intro n hn
    obtain ⟨v, _, hnv⟩ := mem_flatMap_privOf.mp hn
    obtain ⟨j, hj, _, rfl⟩ := mem_privOf.mp hnv
    have := hOK.lat_lt v j hj
    rw [hLall, mem_noiseNames]; omega
  have hdisj : ∀ n ∈ Ls, n ∉ PT := by
    intro n hn hm
    obtain ⟨j, _, hs, rfl⟩ := mem_toScm_lat.mp hn
    obtain ⟨v, _, hnv⟩ := mem_flatMap_privOf.mp hm
    obtain ⟨j', _, hp, e⟩ := mem_privOf.mp hnv
    have : j = j' := Nat.add_left_cancel e
    subst this
    rw [hs] at hp; cases hp
  -- left: Q[T] = Σ_{Ls ++ PT} prL (Ls ++ PT) · Π eqn
  have hleft : (M.toScm card base).Q T ρ =
      sumVars cS (Ls ++ PT) (fun τ => prL M base (Ls ++ PT) τ * (T.map fun v => M.eqn base v τ).prod) ρ := by
    unfold Scm.Q
    rw [sumVars_append]
    apply sumVars_congr_outside
    intro τ hτ
    have hτT : ∀ v ∈ T, τ v < card v := by
      intro v hv
      rw [hτ v (fun hm => by
        obtain ⟨j, _, _, e⟩ := mem_toScm_lat.mp hm
        exact ne_base_add (hOK.base_gt v (hTo v hv)) e)]
      exact hρ v hv
    show prL M base Ls τ * (T.map fun v => M.kernOf card base v τ).prod = _
    rw [prod_kern hOK T hTn hTo τ hτT]
    rw [← sumVars_mul_left cS PT (prL M base Ls) (gOf M base T) τ (fun n hn => prL_indep M base Ls (fun h => hdisj n h hn))]
    apply sumVars_congr
    intro τ1
    unfold gOf
    rw [prL_append]
    ring
  rw [hleft]
  -- right: split the names into Ls ++ PT and the rest
  set p : Name → Bool := fun n => decide (n ∈ Ls ++ PT) with hp
  have hnodupLP : (Ls ++ PT).Nodup := by
    rw [List.nodup_append]
    exact ⟨toScm_lat_nodup, flatMap_privOf_nodup hOK T hTn hTo, fun a ha b hb e => hdisj a ha (e ▸ hb)⟩
  have hLallnd : Lall.Nodup := by
    rw [hLall]; unfold noiseNames
    exact List.Nodup.map (fun a b h => Nat.add_left_cancel h) List.nodup_range
  have hperm : (Lall.filter p).Perm (Ls ++ PT) := by
    rw [List.perm_ext_iff_of_nodup (hLallnd.filter _) hnodupLP]
    intro n
    simp only [List.mem_filter, hp, decide_eq_true_eq]
    constructor
    · exact fun h => h.2
    · intro h
      refine ⟨?_, h⟩
      rcases List.mem_append.mp h with h | h
      · exact hLsub n h
      · exact hPsub n h
  set R := Lall.filter (fun n => !p n) with hR
  rw [IdAux.sumVars_filter_split cS Lall p, sumVars_perm cS hperm]
  apply sumVars_congr
  intro τ
  have hprL : ∀ τ1, prL M base Lall τ1 = prL M base (Ls ++ PT) τ1 * prL M base R τ1 := by
    intro τ1
    rw [prL_perm M base (List.filter_append_perm p Lall).symm τ1, prL_append, prL_perm M base hperm τ1]
  have hRsub : ∀ n ∈ R, n ∈ Lall ∧ n ∉ Ls ++ PT := by
    intro n hn
    rw [hR, List.mem_filter] at hn
    exact ⟨hn.1, by simpa [hp] using hn.2⟩
  have hind : ∀ n ∈ R, IndepOf (fun τ1 => prL M base (Ls ++ PT) τ1 * (T.map fun v => M.eqn base v τ1).prod) n := by
    intro n hn
    obtain ⟨hnL, hnot⟩ := hRsub n hn
    apply Scm.indepOf_mul
    · exact prL_indep M base _ hnot
    · apply Scm.indepOf_map_prod
      intro v hv
      obtain ⟨j, _, rfl⟩ := exists_of_mem_noiseNames hnL
      apply eqn_indep hOK (hTo v hv)
      intro hjv
      apply hnot
      by_cases hpj : M.isPriv j = true
      · exact List.mem_append_right _ (mem_flatMap_privOf.mpr ⟨v, hv, mem_privOf.mpr ⟨j, hjv, hpj, rfl⟩⟩)
      · exact List.mem_append_left _ (mem_toScm_lat.mpr ⟨j, hOK.lat_lt v j hjv, by simpa using hpj, rfl⟩)
  have hfun : (fun τ1 => weightOf M.noise base τ1 * (T.map fun v => M.eqn base v τ1).prod) =
      fun τ1 => (fun τ2 => prL M base (Ls ++ PT) τ2 * (T.map fun v => M.eqn base v τ2).prod) τ1 * prL M base R τ1 := by
    funext τ1
    rw [weightOf_eq_prL, hprL τ1]
    ring
  rw [hfun, sumVars_mul_left cS R _ (prL M base R) τ hind,
    sumVars_prL_one hOK R (hLallnd.filter _) (fun n hn => (hRsub n hn).1) τ, mul_one]

/-! ### marginalisation on the functional side, and the theorem -/

theorem doOf_set {X : List Name} {y : Name} (hy : y ∉ X) (ρ : Val) (k : Nat) : doOf X (ρ.set y k) = doOf X ρ := by
  apply doOf_congr
  intro x hx
  have : x ≠ y := fun e => hy (e ▸ hx)
  rw [Val.set_other _ _ this]

theorem doOf_inRange {X : List Name} {ρ : Val} (h : ∀ x ∈ X, ρ x < card x) : DoInRange card (doOf X ρ) := by
  intro v x hf
  have hm := forced_mem hf
  unfold doOf at hm
  obtain ⟨y, hy, e⟩ := List.mem_map.mp hm
  cases e
  exact h v hy

/-- summing the atoms of the variables `ys` out of a conjunction in the world `do(X := ρ X)` -/
theorem prob_marg_list (hOK : ToScmOK M card base G) (X : List Name) : ∀ (ys : List Name), ys.Nodup →
    (∀ y ∈ ys, y ∉ X ∧ y < base) → ∀ (rest : Val → List Conjunct),
    (∀ y ∈ ys, ∀ ρ k, rest (Val.set ρ y k) = rest ρ) → ∀ ρ : Val, (∀ x ∈ X, ρ x < card x) →
    sumVars (M.cardS card base) ys
      (fun ρ1 => prob M ((ys.map fun v => (⟨v, doOf X ρ1, ρ1 v⟩ : Conjunct)) ++ rest ρ1)) ρ = prob M (rest ρ)
  | [], _, _, rest, _, ρ, _ => by simp [sumVars]
  | y :: ys, hnd, hys, rest, hrest, ρ, hρ => by
    rw [List.nodup_cons] at hnd
    have hy := hys y List.mem_cons_self
    simp only [sumVars]
    -- the inner sums, with the atom of `y` moved into the rest
    have hinner : ∀ ρ1, (∀ x ∈ X, ρ1 x < card x) →
        sumVars (M.cardS card base) ys
          (fun ρ2 => prob M (((y :: ys).map fun v => (⟨v, doOf X ρ2, ρ2 v⟩ : Conjunct)) ++ rest ρ2)) ρ1 =
        prob M ((⟨y, doOf X ρ1, ρ1 y⟩ : Conjunct) :: rest ρ1) := by
      intro ρ1 hρ1
      have := prob_marg_list hOK X ys hnd.2 (fun z hz => hys z (List.mem_cons_of_mem _ hz))
        (fun ρ2 => (⟨y, doOf X ρ2, ρ2 y⟩ : Conjunct) :: rest ρ2)
        (fun z hz ρ2 k => by
          have hzX := (hys z (List.mem_cons_of_mem _ hz)).1
          have hzy : y ≠ z := fun e => hnd.1 (e ▸ hz)
          rw [doOf_set hzX, Val.set_other _ _ hzy, hrest z (List.mem_cons_of_mem _ hz)]) ρ1 hρ1
      rw [← this]
      apply sumVars_congr
      intro ρ2
      apply prob_perm
      rw [List.map_cons, List.cons_append]
      exact List.perm_middle.symm
    rw [sumVar_eq_sum]
    have hterm : ∀ k ∈ Finset.range (M.cardS card base y),
        sumVars (M.cardS card base) ys
          (fun ρ2 => prob M (((y :: ys).map fun v => (⟨v, doOf X ρ2, ρ2 v⟩ : Conjunct)) ++ rest ρ2)) (ρ.set y k) =
        prob M ((⟨y, doOf X ρ, k⟩ : Conjunct) :: rest ρ) := by
      intro k _
      rw [hinner (ρ.set y k) (fun x hx => by
        have : x ≠ y := fun e => hy.1 (e ▸ hx)
        rw [Val.set_other _ _ this]; exact hρ x hx)]
      rw [doOf_set hy.1, Val.set_same, hrest y List.mem_cons_self]
    rw [Finset.sum_congr rfl hterm, cardS_node M card hy.2, ← sumRange_eq_sum]
    exact prob_marg M y (doOf X ρ) (card y) (rest ρ) (fun u => solve_lt hOK.wf u (doOf_inRange hρ) y)

theorem nodes_nodup (hOK : ToScmOK M card base G) : G.nodes.Nodup :=
  (hOK.compat.perm.nodup_iff).mp hOK.compat.nodup

theorem mem_nodes_iff (hOK : ToScmOK M card base G) {v : Name} : v ∈ G.nodes ↔ v ∈ M.order :=
  (hOK.compat.perm.mem_iff).symm

/-- **the induced semi-Markovian model has the interventional distributions of the functional model**, in the form
"values read off a valuation": for `E ⊆ V ∖ X`,
`Σ_{V ∖ (X ∪ E)} Q[V ∖ X] (σ)  =  mass{ u | ∀ x ∈ E, solve u (do(X := σ X)) x = σ x }` -/
theorem fscm_toScm_F (hOK : ToScmOK M card base G) (X E : List Name) (hE : E.Nodup)
    (hEn : ∀ x ∈ E, x ∈ G.nodes ∧ x ∉ X) (σ : Val) (hσX : ∀ x ∈ X, σ x < card x) (hσE : ∀ x ∈ E, σ x < card x) :
    F (M.toScm card base) G X E σ = prob M (E.map fun x => (⟨x, doOf X σ, σ x⟩ : Conjunct)) := by
  set T := G.nodes.filter (fun v => decide (v ∉ X)) with hT
  set Fr := G.nodes.filter (fun v => decide (v ∉ X ∧ v ∉ E)) with hFr
  have hTmem : ∀ v, v ∈ T ↔ v ∈ M.order ∧ v ∉ X := by
    intro v
    rw [hT, List.mem_filter, mem_nodes_iff hOK]
    simp
  have hTn : T.Nodup := (nodes_nodup hOK).filter _
  have hQ : ∀ ρ, (∀ v ∈ T, ρ v < card v) →
      (M.toScm card base).Q T ρ = prob M (T.map fun v => (⟨v, doOf X ρ, ρ v⟩ : Conjunct)) := by
    intro ρ hρ
    rw [toScm_Q hOK T hTn (fun v hv => ((hTmem v).mp hv).1) ρ hρ, prob_full hOK X T hTmem ρ]
  have hFrmem0 : ∀ y ∈ Fr, y ∈ G.nodes ∧ y ∉ X ∧ y ∉ E := by
    intro y hy
    rw [hFr, List.mem_filter] at hy
    simpa using hy
  have hstep0 : sumVars (M.toScm card base).card Fr ((M.toScm card base).Q T) σ =
      sumVars (M.toScm card base).card Fr (fun ρ => prob M (T.map fun v => (⟨v, doOf X ρ, ρ v⟩ : Conjunct))) σ := by
    apply sumVars_congr_reach
    intro ρ hout hin
    apply hQ
    intro v hv
    by_cases hvF : v ∈ Fr
    · have := hin v hvF
      have hvb : v < base := hOK.base_gt v ((hTmem v).mp hv).1
      rwa [show (M.toScm card base).card v = card v from cardS_node M card hvb] at this
    · rw [hout v hvF]
      apply hσE
      by_contra hvE
      apply hvF
      rw [hFr, List.mem_filter]
      rw [hT, List.mem_filter] at hv
      simp only [decide_eq_true_eq] at hv ⊢
      exact ⟨hv.1, hv.2, hvE⟩
  show sumVars (M.toScm card base).card Fr ((M.toScm card base).Q T) σ = _
  rw [hstep0]
  -- T is Fr ++ E up to order
  have hFrn : Fr.Nodup := (nodes_nodup hOK).filter _
  have hperm : T.Perm (Fr ++ E) := by
    rw [List.perm_ext_iff_of_nodup hTn]
    · intro v
      simp only [hT, hFr, List.mem_append, List.mem_filter, decide_eq_true_eq]
      constructor
      · rintro ⟨h1, h2⟩
        by_cases hvE : v ∈ E
        · exact Or.inr hvE
        · exact Or.inl ⟨h1, h2, hvE⟩
      · rintro (⟨h1, h2, _⟩ | h)
        · exact ⟨h1, h2⟩
        · exact hEn v h
    · rw [List.nodup_append]
      refine ⟨hFrn, hE, ?_⟩
      intro a ha b hb e
      subst e
      rw [hFr, List.mem_filter] at ha
      simp only [decide_eq_true_eq] at ha
      exact ha.2.2 hb
  have hstep : ∀ ρ, prob M (T.map fun v => (⟨v, doOf X ρ, ρ v⟩ : Conjunct)) =
      prob M ((Fr.map fun v => (⟨v, doOf X ρ, ρ v⟩ : Conjunct)) ++ (E.map fun x => (⟨x, doOf X ρ, ρ x⟩ : Conjunct))) := by
    intro ρ
    rw [← List.map_append]
    exact prob_perm M (hperm.map _)
  rw [show (fun ρ => prob M (T.map fun v => (⟨v, doOf X ρ, ρ v⟩ : Conjunct))) = fun ρ =>
      prob M ((Fr.map fun v => (⟨v, doOf X ρ, ρ v⟩ : Conjunct)) ++ (E.map fun x => (⟨x, doOf X ρ, ρ x⟩ : Conjunct))) from
    funext hstep]
  have hFrmem : ∀ y ∈ Fr, y ∈ G.nodes ∧ y ∉ X ∧ y ∉ E := by
    intro y hy
    rw [hFr, List.mem_filter] at hy
    simpa using hy
  exact prob_marg_list hOK X Fr hFrn
    (fun y hy => ⟨(hFrmem y hy).2.1, hOK.base_gt y ((mem_nodes_iff hOK).mp (hFrmem y hy).1)⟩)
    (fun ρ => E.map fun x => (⟨x, doOf X ρ, ρ x⟩ : Conjunct))
    (fun y hy ρ k => by
      apply List.map_congr_left
      intro x hx
      have hxy : x ≠ y := fun e => (hFrmem y hy).2.2 (e ▸ hx)
      rw [doOf_set (hFrmem y hy).2.1, Val.set_other _ _ hxy]) σ hσX

/-- **`fscm_toScm_prDo`**: for a well-formed world `dos` and a partial assignment `ev` of distinct non-intervened nodes,
with in-range values, the truncated-factorisation probability in the induced semi-Markovian model is the single-world
probability of the functional model (the value of `M.fscmEnv` on the atoms `X_dos = k`, `(X, k) ∈ ev`) -/
theorem fscm_toScm_prDo (hOK : ToScmOK M card base G) (dos ev : List (Name × Nat)) (hdv : DoValid card dos)
    (hevn : (ev.map (·.1)).Nodup) (hev : ∀ p ∈ ev, p.1 ∈ G.nodes ∧ p.1 ∉ dos.map (·.1))
    (hevr : ∀ p ∈ ev, p.2 < card p.1) :
    (M.toScm card base).prDo G dos ev = (M.fscmEnv card).pr none (ev.map fun p => ⟨p.1, dos, p.2⟩) := by
  have hf : Functional (dos ++ ev) := by
    intro p hp q hq e
    rcases List.mem_append.mp hp with hp1 | hp1 <;> rcases List.mem_append.mp hq with hq1 | hq1
    · exact hdv.2 p hp1 q hq1 e
    · exact absurd (List.mem_map.mpr ⟨p, hp1, e⟩) (hev q hq1).2
    · exact absurd (List.mem_map.mpr ⟨q, hq1, e.symm⟩) (hev p hp1).2
    · have : p = q := List.inj_on_of_nodup_map hevn hp1 hq1 e
      rw [this]
  have hc : Scm.consistent (dos ++ ev) = true := (Scm.consistent_iff _).mpr hf
  set σ₀ := Val.setMany (fun _ => 0) (dos ++ ev) with hσ₀
  have hread : ∀ a ∈ dos ++ ev, a.2 = σ₀ a.1 := by
    intro a ha
    rw [hσ₀, setMany_agrees (Scm.rd (dos ++ ev)) (dos ++ ev) (fun _ => 0) a.1 (Scm.rd_reads hf)
      (Or.inl (List.mem_map_of_mem ha))]
    exact Scm.rd_reads hf a ha
  have hprDo : (M.toScm card base).prDo G dos ev = F (M.toScm card base) G (dos.map (·.1)) (ev.map (·.1)) σ₀ := by
    unfold Scm.prDo
    rw [hc]
    rfl
  rw [hprDo, fscm_toScm_F hOK (dos.map (·.1)) (ev.map (·.1)) hevn
    (fun x hx => by
      obtain ⟨p, hp, rfl⟩ := List.mem_map.mp hx
      exact hev p hp) σ₀
    (fun x hx => by
      obtain ⟨p, hp, rfl⟩ := List.mem_map.mp hx
      rw [← hread p (List.mem_append_left _ hp)]
      exact hdv.1 p hp)
    (fun x hx => by
      obtain ⟨p, hp, rfl⟩ := List.mem_map.mp hx
      rw [← hread p (List.mem_append_right _ hp)]
      exact hevr p hp)]
  rw [fscmEnv_pr]
  congr 1
  rw [List.map_map, List.map_map]
  apply List.map_congr_left
  intro p hp
  have hdo : doOf (dos.map (·.1)) σ₀ = dos := by
    unfold doOf
    rw [List.map_map]
    conv_rhs => rw [← List.map_id dos]
    apply List.map_congr_left
    intro q hq
    simp only [Function.comp_apply, id]
    rw [← hread q (List.mem_append_left _ hq)]
  simp only [Function.comp_apply, atomConj, normDo_of_valid hdv, hdo]
  rw [← hread p (List.mem_append_right _ hp)]

end Fscm
end Y0
