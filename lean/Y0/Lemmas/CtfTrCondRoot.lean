/-
  Y0.Lemmas.CtfTrCondRoot — what ONE root of a conditional query contributes to the semantic core of Algorithm 3
  (Y0/Lemmas/CtfTrCondSem.lean): its ancestral set `A = An(root)` in the graph without the edges out of the conditioned
  vertices `cs = X_*(root)` (`ancestralSetAfter`, Def. 4.2), looked at in the FULL world of the root.

    `root_facts`        `A` is sound and complete for Def. 2.1 in `G` minus the edges out of `cs`; every vertex of `cs` is
                        the vertex of a minimised conditioned variable that is a member of `An(root)` in `G`;
    `root_self`         the root's own vertex is in `A`;
    `root_parent`       a parent (in `G`) of a member is a subscript of the root, a cut vertex, or the vertex of a member;
    `root_cut_sameRV`   **composition for a cut edge**: the cut vertex, looked at in the world of the root, is the
                        conditioned variable itself (same value at every noise point);
    `root_sub_iff`      a parent of a member is a subscript of the root iff it is a subscript of the member.
-/
import Y0.Lemmas.CtfTrAlg3Line2
import Y0.Lemmas.CtfTrCondSplit

namespace Y0.CtfTr
open Fscm Ctf Relation Y0.MG

theorem root_facts (g : MG Name) (hg : g.WF) (cond : List Var) (root : Var) (A : List Var)
    (h : ancestralSetAfter g cond root = .ok A) :
    ∃ cs : List Name,
      (∀ w ∈ A, IsCtfAncestor (g.removeOutEdges cs) root w) ∧
      (∀ w, IsCtfAncestor (g.removeOutEdges cs) root w → ∃ w' ∈ A, SameVar w' w) ∧
      (∀ n ∈ cs, ∃ x ∈ cond, ∃ m, minimize g x = .ok m ∧ m.name = n ∧ IsCtfAncestor g root m) := by
  obtain ⟨cs, hA, hcs⟩ := ancestralSetAfter_eq g cond root A h
  obtain ⟨hs, hc⟩ := ctfAncestors_all (g.removeOutEdges cs) (wf_fromEdges _ _ _) root A hA
  refine ⟨cs, fun w hw => (hs w hw).1, hc, fun n hn => ?_⟩
  obtain ⟨m, ⟨x, hx, hxm⟩, ⟨A₀, hA₀, hmA⟩, hmn⟩ := (hcs n).1 hn
  exact ⟨x, hx, m, hxm, hmn, ((ctfAncestors_all g hg root A₀ hA₀).1 m hmA).1⟩

section OneRoot
variable (g : MG Name) (root : Var) (A : List Var) (cs : List Name)

/-- the root's own vertex is a member of its ancestral set -/
theorem root_self (hc : ∀ w, IsCtfAncestor (g.removeOutEdges cs) root w → ∃ w' ∈ A, SameVar w' w) :
    ∃ w ∈ A, w.name = root.name := by
  classical
  obtain ⟨w', hw', hs⟩ := hc
    { name := root.name,
      ivs := root.ivs.filter (fun i => decide (AncBar (g.removeOutEdges cs) (subNames root) root.name i.name)) }
    ⟨ReflTransGen.refl, rfl, rfl, by intro i; simp only [List.mem_filter, decide_eq_true_eq]⟩
  exact ⟨w', hw', hs.1⟩

/-- a parent of a member: subscript of the root, cut vertex, or vertex of a member -/
theorem root_parent (hs : ∀ w ∈ A, IsCtfAncestor (g.removeOutEdges cs) root w)
    (hc : ∀ w, IsCtfAncestor (g.removeOutEdges cs) root w → ∃ w' ∈ A, SameVar w' w)
    (w : Var) (hw : w ∈ A) (p : Name) (hp : g.DiEdge p w.name) :
    p ∈ subNames root ∨ p ∈ cs ∨ ∃ w' ∈ A, w'.name = p := by
  by_cases h1 : p ∈ subNames root
  · exact Or.inl h1
  by_cases h2 : p ∈ cs
  · exact Or.inr (Or.inl h2)
  refine Or.inr (Or.inr ?_)
  have hp' : (g.removeOutEdges cs).DiEdge p w.name := (diEdge_removeOutEdges g cs p w.name).2 ⟨hp, h2⟩
  obtain ⟨w₀, hw₀, hn₀⟩ := parent_isCtfAnc (g.removeOutEdges cs) root w (hs w hw) p hp' h1
  obtain ⟨w', hw', hsame⟩ := hc w₀ hw₀
  exact ⟨w', hw', by rw [hsame.1, hn₀]⟩

/-- a cut vertex is not a subscript of the root (it is the vertex of a member of `An(root)` in `G`) -/
theorem root_cut_not_sub (hself : root.name ∉ subNames root)
    (hcut : ∀ n ∈ cs, ∃ m : Var, m.name = n ∧ IsCtfAncestor g root m) (n : Name) (hn : n ∈ cs) :
    n ∉ subNames root := by
  obtain ⟨m, hmn, hm⟩ := hcut n hn
  rw [← hmn]
  exact ctfAnc_not_sub g root hself m hm

/-- a parent of a member is a subscript of the root exactly when it is a subscript of the member -/
theorem root_sub_iff (hself : root.name ∉ subNames root)
    (hs : ∀ w ∈ A, IsCtfAncestor (g.removeOutEdges cs) root w)
    (hcut : ∀ n ∈ cs, ∃ m : Var, m.name = n ∧ IsCtfAncestor g root m)
    (w : Var) (hw : w ∈ A) (p : Name) (hp : g.DiEdge p w.name) :
    p ∈ subNames root ↔ p ∈ subNames w := by
  constructor
  · intro h
    obtain ⟨i, hi, rfl⟩ := List.mem_map.1 h
    have hncs : i.name ∉ cs := fun hmem => root_cut_not_sub g root cs hself hcut i.name hmem h
    have hp' : (g.removeOutEdges cs).DiEdge i.name w.name := (diEdge_removeOutEdges g cs i.name w.name).2 ⟨hp, hncs⟩
    exact List.mem_map.2 ⟨i, parent_sub_mem (g.removeOutEdges cs) root hself w (hs w hw) i hi hp', rfl⟩
  · intro h
    obtain ⟨i, hi, rfl⟩ := List.mem_map.1 h
    exact List.mem_map.2 ⟨i, ctfAnc_ivs_sub (g.removeOutEdges cs) root w (hs w hw) i hi, rfl⟩

end OneRoot

/-- **composition for a cut edge.**  `n ∈ X_*(root)` is the vertex of a conditioned variable `x` whose minimisation is a
member of `An(root)`: looked at in the world of the root, `n` IS `x` (exclusion restriction twice) -/
theorem root_cut_sameRV (g : MG Name) (cond : List Var) (root : Var) (n : Name)
    (hcons : ConsistentSubs root.ivs)
    (hn : ∃ x ∈ cond, ∃ m, minimize g x = .ok m ∧ m.name = n ∧ IsCtfAncestor g root m)
    (M : Model) (hM : Compatible M g) (ν : BaseValues) :
    ∃ x ∈ cond, x.name = n ∧ ∀ u, solve M u (worldOf ν root.ivs) n = solve M u (worldOf ν x.ivs) n := by
  obtain ⟨x, hx, m, hxm, hmn, hm⟩ := hn
  have hname : m.name = x.name := (minimize_wf g x m hxm).1
  refine ⟨x, hx, by rw [← hname, hmn], fun u => ?_⟩
  have h1 := sameRV_ctfAnc g root ν hcons m hm M hM u
  have h2 := minimize_same_rv g x m hxm M hM ν u
  rw [hmn] at h1
  rw [hname.symm, hmn] at h2
  rw [h1, h2]

end Y0.CtfTr
