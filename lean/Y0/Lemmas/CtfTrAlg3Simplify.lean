/-
  Y0.Lemmas.CtfTrAlg3Simplify — what SIMPLIFY returns, with the values: every entry of the simplified event carries the
  value of an entry of the input event that names the same graph vertex (used by the final checks of Algorithm 3).
-/
import Y0.Lemmas.CtfTrAlg3Valid

namespace Y0.CtfTr
open Ctf Relation Y0.MG

/-- every entry `(k, x)` of the simplified event comes from an entry `(v, x)` of the input event with the same vertex
(`k` is `‖v‖`, or its base variable when `v` is self-intervened) and the same value -/
theorem simplify_output_values (g : MG Name) (e ev : Event) (h : simplify g e = .ok (some ev)) :
    ∀ p ∈ ev, ∃ q ∈ e, q.1.name = p.1.name ∧ q.2 = p.2 := by
  unfold simplify at h
  split at h
  · simp [bind, Except.bind, throw, throwThe, MonadExceptOf.throw] at h
  simp only [bind, Except.bind] at h
  cases hme : minimizeEvent g e with
  | error err => rw [hme] at h; cases h
  | ok me =>
    rw [hme] at h
    simp only at h
    have hmem := minimizeEvent_mem g e me hme
    have hmeVar : ∀ k x, (k, x) ∈ me → ∃ q ∈ e, q.1.name = k.name ∧ q.2 = x := by
      intro k x hk
      obtain ⟨v, hv, hmv⟩ := (hmem k x).1 hk
      exact ⟨(v, x), hv, (minimize_wf g v k hmv).1.symm, rfl⟩
    unfold simplifyCore at h
    simp only [bind, Except.bind] at h
    cases h1 : anyInconsistent (removeRepeated (splitReflexive me).2) (removeRepeated (splitReflexive me).1) with
    | error err => rw [h1] at h; cases h
    | ok b1 =>
      rw [h1] at h
      cases b1 with
      | true => simp [pure, Except.pure] at h
      | false =>
        simp only [Bool.false_eq_true, ↓reduceIte] at h
        cases hr : reduceReflexive (removeRepeated (splitReflexive me).1) with
        | error err => rw [hr] at h; cases h
        | ok R' =>
          rw [hr] at h
          simp only at h
          have hR' := reduceReflexive_eq _ R' hr
          subst hR'
          cases h2 : anyInconsistent (removeRepeated (splitReflexive me).2)
              (dropNone (reduceKeyed (removeRepeated (splitReflexive me).1) [])) with
          | error err => rw [h2] at h; cases h
          | ok b2 =>
            rw [h2] at h
            cases b2 with
            | true => simp [pure, Except.pure] at h
            | false =>
              simp only [Bool.false_eq_true, ↓reduceIte] at h
              cases ha : popAll (removeRepeated (splitReflexive me).2) with
              | error err => rw [ha] at h; cases h
              | ok a =>
                rw [ha] at h
                cases hb : popAll (dropNone (reduceKeyed (removeRepeated (splitReflexive me).1) [])) with
                | error err => rw [hb] at h; cases h
                | ok b =>
                  rw [hb] at h
                  simp only [pure, Except.pure, Except.ok.injEq, Option.some.injEq] at h
                  subst h
                  rintro ⟨k, x⟩ hp
                  simp only
                  rcases List.mem_append.1 hp with hp | hp
                  · obtain ⟨rest, hent⟩ := (popAll_ok _ _ ha k x).1 hp
                    have hhas : (removeRepeated (splitReflexive me).2).Has k x := ⟨_, hent, by simp⟩
                    obtain ⟨hm, _⟩ := splitReflexive_snd me (k, x) (removeRepeated_has _ k x hhas)
                    exact hmeVar k x hm
                  · obtain ⟨rest, hent⟩ := (popAll_ok _ _ hb k x).1 hp
                    rcases (reduceKeyed_has _ _ k x).1 (dropNone_has _ k x ⟨_, hent, by simp⟩) with h0 | ⟨q, hq, hk, hxq⟩
                    · exact absurd h0 (VMap.has_nil _ _)
                    · obtain ⟨hm, _⟩ := splitReflexive_fst me (q.1, x) (removeRepeated_has _ q.1 x ⟨q.2, hq, hxq⟩)
                      obtain ⟨q0, hq0, hname, hval⟩ := hmeVar q.1 x hm
                      subst hk
                      refine ⟨q0, hq0, ?_, hval⟩
                      rw [hname]
                      unfold rkey
                      split <;> rfl

end Y0.CtfTr
