/-
  Y0.Lemmas.CtfTrCondLink3 — **the two identities of Algorithm 3** for a conditional query in the class `ctfTRSoundClass`
  (`ctfTR_link`): with `dNames = V(D_*)` the vertices of the derived event of line 2 and `Q_D τ = Q[V(D_*)](τ)`,

      P(outcomes ∧ conditions) = (Σ_{V(D_*) ∖ (V(Y_*) ∪ V(X_*))} Q_D) · c
      P(conditions)            = (Σ_{V(D_*) ∖ V(X_*)} Q_D) · c

  for one and the same `c` (the marginal c-factor of the ancestral components that hold no outcome).  Composition of
  `LinkData.condSem` (Y0/Lemmas/CtfTrCondLink2.lean) with the semantic core `cond_parts`
  (Y0/Lemmas/CtfTrCondSplit.lean); what is added here is the partition of the vertices into `V(D_*)` and the rest.
-/
import Y0.Lemmas.CtfTrCondLink2

namespace Y0.CtfTr
open Fscm Ctf Relation Y0.MG

/-- the vertices of the components that hold NO outcome variable -/
def restNames (comps : List (List Var)) (outVars : List Var) : List Name :=
  dedup' (((comps.filter fun C => !(C.any fun v => Ctf.mem' v outVars)).flatten).map (·.name))

theorem mem_restNames (comps : List (List Var)) (outVars : List Var) (n : Name) :
    n ∈ restNames comps outVars ↔ ∃ C ∈ comps, (¬ ∃ w ∈ C, w ∈ outVars) ∧ ∃ v ∈ C, v.name = n := by
  unfold restNames
  simp only [mem_dedup', List.mem_map, List.mem_flatten, List.mem_filter, Bool.not_eq_eq_eq_not, Bool.not_true,
    List.any_eq_false, mem'_iff]
  constructor
  · rintro ⟨v, ⟨C, ⟨hC, hno⟩, hv⟩, rfl⟩
    exact ⟨C, hC, fun ⟨w, hw, hwo⟩ => hno w hw hwo, v, hv, rfl⟩
  · rintro ⟨C, hC, hno, v, hv, rfl⟩
    exact ⟨v, ⟨C, ⟨hC, fun w hw hwo => hno ⟨w, hw, hwo⟩⟩, hv⟩, rfl⟩

theorem mem_dstarNames (comps : List (List Var)) (outVars : List Var) (n : Name) :
    n ∈ dedup' ((deriveVars comps outVars).map (·.name)) ↔
      ∃ C ∈ comps, (∃ w ∈ C, w ∈ outVars) ∧ ∃ v ∈ C, v.name = n := by
  rw [mem_dedup', List.mem_map]
  constructor
  · rintro ⟨v, hv, rfl⟩
    obtain ⟨C, hC, hvC, hw⟩ := (mem_deriveVars comps outVars v).1 hv
    exact ⟨C, hC, hw, v, hvC, rfl⟩
  · rintro ⟨C, hC, hw, v, hvC, rfl⟩
    exact ⟨v, (mem_deriveVars comps outVars v).2 ⟨C, hC, hvC, hw⟩, rfl⟩

theorem rootItems_names (ν : BaseValues) (e : Event) : (rootItems ν e).map (·.1) = e.map (·.1.name) := by
  unfold rootItems
  rw [List.map_map]
  rfl

/-- the roots hold exactly when the event holds (every item has a value, read by `σ`) -/
theorem rootsHold_iff (M : Model) (ν : BaseValues) (σ : Y0.Val) (e : Event) (u : NoisePoint)
    (hval : ∀ p ∈ e, p.2.isSome = true) (hread : ∀ p ∈ e, ∀ i, p.2 = some i → σ p.1.name = ivValue ν i) :
    rootsHold M σ (rootItems ν e) u = true ↔ EventHolds M ν u e := by
  unfold rootsHold rootItems EventHolds
  simp only [List.all_eq_true, List.mem_map, beq_iff_eq]
  constructor
  · intro h p hp i hi
    have := h _ ⟨p, hp, rfl⟩
    simp only at this
    rw [this, hread p hp i hi]
  · rintro h _ ⟨p, hp, rfl⟩
    simp only
    cases hv : p.2 with
    | none => have := hval p hp; rw [hv] at this; cases this
    | some i => rw [h p hp i hv, hread p hp i hv]

theorem probEventOpt_eq_roots (M : Model) (ν : BaseValues) (σ : Y0.Val) (e : Event)
    (hval : ∀ p ∈ e, p.2.isSome = true) (hread : ∀ p ∈ e, ∀ i, p.2 = some i → σ p.1.name = ivValue ν i) :
    probEventOpt M ν e = wsum M.noise (fun u => ind (rootsHold M σ (rootItems ν e) u)) := by
  unfold probEventOpt
  rw [prob_eq_wsum]
  apply wsum_congr
  intro u
  apply ind_congr
  rw [eventConjuncts_all, rootsHold_iff M ν σ e u hval hread]

namespace LinkData
variable {g : MG Name} {o c : Event} {sets comps : List (List Var)} {M : Model} {ν : BaseValues} {σ : Y0.Val}

/-- the vertices named by the members of the sets are the vertices of the components -/
theorem item_names (L : LinkData g o c sets comps M ν σ) (n : Name) :
    (∃ i ∈ setItems ν (unionVars (eventVars c) (eventVars o)) sets, i.1 = n) ↔ ∃ C ∈ comps, ∃ v ∈ C, v.name = n := by
  constructor
  · rintro ⟨i, hi, rfl⟩
    obtain ⟨rs, hrs, w, hw, rfl⟩ := (mem_setItems ν _ sets i).1 hi
    have hz := List.of_mem_zip (show (rs.1, rs.2) ∈ _ from hrs)
    obtain ⟨C, hC, hwC⟩ := L.l1.cover rs.2 hz.2 w hw
    exact ⟨C, hC, w, hwC, rfl⟩
  · rintro ⟨C, hC, v, hv, rfl⟩
    obtain ⟨t, ht, hvt, _⟩ := L.l1.set_of C hC v hv
    obtain ⟨r, hr⟩ := exists_zip_right _ sets L.l1.len t ht
    exact ⟨_, (mem_setItems ν _ sets _).2 ⟨(r, t), hr, v, hvt, rfl⟩, rfl⟩

theorem names_split (L : LinkData g o c sets comps M ν σ) (n : Name) :
    (n ∈ dedup' ((deriveVars comps (eventVars o)).map (·.name)) ∨ n ∈ restNames comps (eventVars o)) ↔
      ∃ i ∈ setItems ν (unionVars (eventVars c) (eventVars o)) sets, i.1 = n := by
  rw [L.item_names n, mem_dstarNames, mem_restNames]
  constructor
  · rintro (⟨C, hC, _, hv⟩ | ⟨C, hC, _, hv⟩) <;> exact ⟨C, hC, hv⟩
  · rintro ⟨C, hC, hv⟩
    by_cases hw : ∃ w ∈ C, w ∈ eventVars o
    · exact Or.inl ⟨C, hC, hw, hv⟩
    · exact Or.inr ⟨C, hC, hw, hv⟩

theorem names_disjoint (L : LinkData g o c sets comps M ν σ) (n : Name)
    (h1 : n ∈ dedup' ((deriveVars comps (eventVars o)).map (·.name))) (h2 : n ∈ restNames comps (eventVars o)) :
    False := by
  obtain ⟨C, hC, hw, v, hv, hvn⟩ := (mem_dstarNames comps _ n).1 h1
  obtain ⟨C', hC', hno, v', hv', hvn'⟩ := (mem_restNames comps _ n).1 h2
  have := L.l1.comp_unique C C' hC hC' v v' hv hv' (by rw [hvn, hvn'])
  subst this
  exact hno hw

/-- a mechanism argument of a vertex of a component is a subscript named like a condition, the vertex of a condition, or
a vertex of the same component -/
theorem parent_cases (L : LinkData g o c sets comps M ν σ) (C : List Var) (hC : C ∈ comps) (w : Var) (hw : w ∈ C)
    (p : Name) (hp : p ∈ M.pa w.name) :
    (p ∈ eventNames c) ∨ (¬ ∃ a ∈ comps.flatten, a.name = p) ∨ (∃ w' ∈ C, w'.name = p) := by
  obtain ⟨t, ht, hwt, hsub⟩ := L.l1.set_of C hC w hw
  obtain ⟨r, hr⟩ := exists_zip_right _ sets L.l1.len t ht
  obtain ⟨cs, p0, hp0, hpr, _, hs, hc, hcut⟩ := L.root (r, t) hr
  have hedge : g.DiEdge p w.name := L.hM.pa_sub w.name p hp
  rcases root_parent g r t cs hs hc w hwt p hedge with h1 | h2 | h3
  · by_cases hT : ∃ a ∈ comps.flatten, a.name = p
    · left
      obtain ⟨iv, hiv, hivn⟩ := List.mem_map.1 h1
      have hiv0 : iv ∈ p0.1.ivs := by rw [hpr]; exact hiv
      have := L.cls.lit p0 hp0 iv hiv0 (by rw [hivn]; exact hT)
      rw [hivn] at this
      exact this
    · exact Or.inr (Or.inl hT)
  · left
    obtain ⟨x, hx, m, hxm, hmn, _⟩ := hcut p h2
    obtain ⟨q, hq, hqx⟩ := (mem_eventVars c x).1 hx
    rw [mem_eventNames]
    refine ⟨q, hq, ?_⟩
    rw [hqx, ← (minimize_wf g x m hxm).1, hmn]
  · obtain ⟨w', hw', hn'⟩ := h3
    exact Or.inr (Or.inr ⟨w', hsub w' hw', hn'⟩)

theorem outcome_in_dstar (L : LinkData g o c sets comps M ν σ) (p : Var × Ctf.Val) (hp : p ∈ o) :
    p.1.name ∈ dedup' ((deriveVars comps (eventVars o)).map (·.name)) := by
  rw [mem_dedup', List.mem_map]
  exact ⟨p.1, L.cls.foundRaw p hp, rfl⟩

end LinkData

/-- **the two identities of Algorithm 3** (`hnum`, `hden` of `ctfTR_sound_of_parts`, with `J = Q[V(D_*)]`). -/
theorem ctfTR_link (g : MG Name) (hg : g.WF) (o c : Event)
    (hnodes : ∀ p ∈ o ++ c, p.1.name ∈ g.nodes) (hvalued : ∀ p ∈ o ++ c, p.2.isSome = true)
    (hcls : ctfTRSoundClass g o c = true)
    (dstar : Event) (dNames : List Name) (h2 : line2CRaw g o c = .ok (dstar, dNames))
    (M : Model) (hM : Compatible M g) (hnorm : ∀ pmf ∈ M.noise, pmf.sum = 1)
    (card : Name → Nat) (hcard : ∀ v pa lat, M.f v pa lat < card v)
    (ν : BaseValues) (σ : Y0.Val) (hσ : EventReading ν σ (o ++ c)) :
    ∃ cOut : Rat,
      probEventOpt M ν (o ++ c) =
        sumVars card (diff' dNames (eventNames (c ++ o))) (localProb M dNames) σ * cOut ∧
      probEventOpt M ν c =
        sumVars card (diff' dNames (eventNames c)) (localProb M dNames) σ * cOut := by
  obtain ⟨comps, cls⟩ := linkClass_of g o c hcls
  obtain ⟨sets, l1⟩ := line1_of g o c comps cls.comps_ok
  have L : LinkData g o c sets comps M ν σ := ⟨hg, cls, l1, hM, hnodes, hσ⟩
  -- the vertices of `D_*`
  have hdN : dNames = dedup' ((deriveVars comps (eventVars o)).map (·.name)) := by
    unfold line2CRaw line2COf at h2
    rw [cls.comps_ok] at h2
    simp only [bind, Except.bind, pure, Except.pure] at h2
    cases hce : convertEvent g (deriveEvent o (deriveVars comps (eventVars o))) with
    | error e => rw [hce] at h2; cases h2
    | ok ev =>
      rw [hce] at h2
      simp only [Except.ok.injEq, Prod.mk.injEq] at h2
      exact h2.2.symm
  subst hdN
  set ND := dedup' ((deriveVars comps (eventVars o)).map (·.name)) with hND
  set NR := restNames comps (eventVars o) with hNR
  set I := setItems ν (unionVars (eventVars c) (eventVars o)) sets with hI
  set rD := diff' ND (eventNames (c ++ o)) with hrD
  set rR := diff' NR (eventNames (c ++ o)) with hrR
  have hsem := L.condSem
  -- names of the roots
  have hRnames : ∀ n, n ∈ (rootItems ν (o ++ c)).map (·.1) ↔ n ∈ eventNames (c ++ o) := by
    intro n
    rw [rootItems_names, mem_eventNames, List.mem_map]
    constructor
    · rintro ⟨p, hp, rfl⟩
      exact ⟨p, by rcases List.mem_append.1 hp with h | h <;> simp [h], rfl⟩
    · rintro ⟨p, hp, rfl⟩
      exact ⟨p, by rcases List.mem_append.1 hp with h | h <;> simp [h], rfl⟩
  -- the outcomes over vertices that no condition names, and the others (redundant)
  set oN := dedup' (o.filter (fun p => decide (p.1.name ∉ eventNames c))) with hoN
  set oX := o.filter (fun p => decide (p.1.name ∈ eventNames c)) with hoX
  have hOnames : ∀ n, n ∈ (rootItems ν oN).map (·.1) ↔ (∃ p ∈ o, p.1.name = n) ∧ n ∉ eventNames c := by
    intro n
    rw [rootItems_names, List.mem_map]
    constructor
    · rintro ⟨p, hp, rfl⟩
      rw [hoN, mem_dedup', List.mem_filter, decide_eq_true_eq] at hp
      exact ⟨⟨p, hp.1, rfl⟩, hp.2⟩
    · rintro ⟨⟨p, hp, rfl⟩, hn⟩
      exact ⟨p, by rw [hoN, mem_dedup', List.mem_filter, decide_eq_true_eq]; exact ⟨hp, hn⟩, rfl⟩
  have hOinD : ∀ n, n ∈ (rootItems ν oN).map (·.1) → n ∈ ND ∧ n ∉ eventNames c := by
    intro n hn
    obtain ⟨⟨p, hp, rfl⟩, hnc⟩ := (hOnames n).1 hn
    exact ⟨L.outcome_in_dstar p hp, hnc⟩
  have hflat : ∀ n, (n ∈ ND ∨ n ∈ NR) → ∃ a ∈ comps.flatten, a.name = n := by
    intro n hn
    obtain ⟨C, hC, v, hv, hvn⟩ := (L.item_names n).1 ((L.names_split n).1 hn)
    exact ⟨v, List.mem_flatten.2 ⟨C, hC, hv⟩, hvn⟩
  -- the range
  have hrange_nd : (diff' (dedup' (I.map (·.1))) ((rootItems ν (o ++ c)).map (·.1))).Nodup :=
    nodup_diff' (nodup_dedup' _) _
  have hperm : (diff' (dedup' (I.map (·.1))) ((rootItems ν (o ++ c)).map (·.1))).Perm (rD ++ rR) := by
    rw [List.perm_ext_iff_of_nodup hrange_nd]
    · intro n
      rw [mem_diff', mem_dedup', List.mem_map, hRnames, List.mem_append, hrD, hrR, mem_diff', mem_diff']
      constructor
      · rintro ⟨⟨i, hi, rfl⟩, hn⟩
        rcases (L.names_split i.1).2 ⟨i, hi, rfl⟩ with h | h
        · exact Or.inl ⟨h, hn⟩
        · exact Or.inr ⟨h, hn⟩
      · rintro (⟨h, hn⟩ | ⟨h, hn⟩)
        · obtain ⟨i, hi, hin⟩ := (L.names_split n).1 (Or.inl h); exact ⟨⟨i, hi, hin⟩, hn⟩
        · obtain ⟨i, hi, hin⟩ := (L.names_split n).1 (Or.inr h); exact ⟨⟨i, hi, hin⟩, hn⟩
    · refine List.Nodup.append (nodup_diff' (nodup_dedup' _) _) (nodup_diff' (nodup_dedup' _) _) ?_
      intro n h1 h2
      exact L.names_disjoint n (mem_diff'.1 h1).1 (mem_diff'.1 h2).1
  -- the hypotheses of `cond_parts`
  have hR : ∀ j, j ∈ rootItems ν (o ++ c) ↔ j ∈ rootItems ν oN ∨ j ∈ rootItems ν oX ++ rootItems ν c := by
    intro j
    unfold rootItems
    rw [List.map_append, List.mem_append, List.mem_append]
    simp only [List.mem_map]
    constructor
    · rintro (⟨p, hp, rfl⟩ | ⟨p, hp, rfl⟩)
      · by_cases hpc : p.1.name ∈ eventNames c
        · exact Or.inr (Or.inl ⟨p, by rw [hoX, List.mem_filter, decide_eq_true_eq]; exact ⟨hp, hpc⟩, rfl⟩)
        · exact Or.inl ⟨p, by rw [hoN, mem_dedup', List.mem_filter, decide_eq_true_eq]; exact ⟨hp, hpc⟩, rfl⟩
      · exact Or.inr (Or.inr ⟨p, hp, rfl⟩)
    · rintro (⟨p, hp, rfl⟩ | ⟨p, hp, rfl⟩ | ⟨p, hp, rfl⟩)
      · exact Or.inl ⟨p, (List.mem_filter.1 (mem_dedup'.1 hp)).1, rfl⟩
      · exact Or.inl ⟨p, (List.mem_filter.1 hp).1, rfl⟩
      · exact Or.inr ⟨p, hp, rfl⟩
  have hRxc : ∀ j ∈ rootItems ν c, j ∈ rootItems ν oX ++ rootItems ν c := fun j hj => List.mem_append_right _ hj
  have hRx : ∀ j ∈ rootItems ν oX ++ rootItems ν c, ∃ k ∈ rootItems ν c, k.1 = j.1 := by
    intro j hj
    rcases List.mem_append.1 hj with hj | hj
    · obtain ⟨p, hp, rfl⟩ := List.mem_map.1 hj
      rw [hoX, List.mem_filter, decide_eq_true_eq] at hp
      obtain ⟨q, hq, hqn⟩ := (mem_eventNames c _).1 hp.2
      exact ⟨(q.1.name, worldOf ν q.1.ivs), List.mem_map.2 ⟨q, hq, rfl⟩, hqn⟩
    · exact ⟨j, hj, rfl⟩
  have hOn : ((rootItems ν oN).map (·.1)).Nodup := by
    rw [rootItems_names]
    refine List.Nodup.map_on ?_ (nodup_dedup' _)
    intro p hp q hq hpq
    exact cls.outSame p (List.mem_filter.1 (mem_dedup'.1 hp)).1 q (List.mem_filter.1 (mem_dedup'.1 hq)).1 hpq
  have hOc : ∀ j ∈ rootItems ν oX ++ rootItems ν c, j.1 ∉ (rootItems ν oN).map (·.1) := by
    intro j hj hmem
    obtain ⟨k, hk, hkj⟩ := hRx j hj
    obtain ⟨q, hq, rfl⟩ := List.mem_map.1 hk
    exact (hOinD _ hmem).2 ((mem_eventNames c _).2 ⟨q, hq, hkj⟩)
  have litO : ∀ i ∈ I, ∀ p ∈ M.pa i.1, ∀ x, forced i.2 p = some x → p ∉ (rootItems ν oN).map (·.1) := by
    intro i hi p hp x hx hmem
    obtain ⟨rs, hrs, w, hw, rfl⟩ := (mem_setItems ν _ sets i).1 hi
    obtain ⟨cs, p0, hp0, hpr, _, _, _, _⟩ := L.root rs hrs
    simp only at hx
    have hsub : p ∈ rs.1.ivs.map (·.name) := forced_worldOf_some_mem ν rs.1.ivs p x hx
    obtain ⟨iv, hiv, hivn⟩ := List.mem_map.1 hsub
    have hiv0 : iv ∈ p0.1.ivs := by rw [hpr]; exact hiv
    have := cls.lit p0 hp0 iv hiv0 (by rw [hivn]; exact hflat p (Or.inl (hOinD p hmem).1))
    rw [hivn] at this
    exact (hOinD p hmem).2 this
  have hN : ∀ n, (n ∈ ND ∨ n ∈ NR) ↔ ∃ i ∈ I, i.1 = n := L.names_split
  have hlat : ∀ a ∈ ND, ∀ b ∈ NR, ∀ j ∈ M.lat a, j ∉ M.lat b := by
    intro a ha b hb j hja hjb
    obtain ⟨C, hC, hw, v, hv, hvn⟩ := (mem_dstarNames comps _ a).1 ha
    obtain ⟨C', hC', hno, v', hv', hvn'⟩ := (mem_restNames comps _ b).1 hb
    have hab : a ≠ b := fun e => L.names_disjoint a ha (e ▸ hb)
    have hbi : g.BiEdge v.name v'.name := by
      rw [hvn, hvn']
      exact hM.lat_bi a b hab ⟨j, hja, hjb⟩
    have := l1.bi_same_comp C C' hC hC' v v' hv hv' hbi
    subst this
    exact hno hw
  have hDi : ∀ y ∈ rR, y ∉ ND ∧ ∀ v ∈ ND, y ∉ M.pa v := by
    intro y hy
    rw [hrR, mem_diff'] at hy
    refine ⟨fun h => L.names_disjoint y h hy.1, fun v hv hpa => ?_⟩
    obtain ⟨C, hC, hw, w, hwC, hwn⟩ := (mem_dstarNames comps _ v).1 hv
    rw [← hwn] at hpa
    rcases L.parent_cases C hC w hwC y hpa with h1 | h2 | ⟨w', hw', hn'⟩
    · apply hy.2
      obtain ⟨q, hq, hqn⟩ := (mem_eventNames c y).1 h1
      exact (mem_eventNames _ y).2 ⟨q, by simp [hq], hqn⟩
    · exact h2 (hflat y (Or.inr hy.1))
    · exact L.names_disjoint y ((mem_dstarNames comps _ y).2 ⟨C, hC, hw, w', hw', hn'⟩) hy.1
  have hRi : ∀ x, (x ∈ rD ∨ x ∈ (rootItems ν oN).map (·.1)) → x ∉ NR ∧ ∀ v ∈ NR, x ∉ M.pa v := by
    intro x hx
    have hxD : x ∈ ND ∧ x ∉ eventNames c := by
      rcases hx with h | h
      · rw [hrD, mem_diff'] at h
        refine ⟨h.1, fun hc => h.2 ?_⟩
        obtain ⟨q, hq, hqn⟩ := (mem_eventNames c x).1 hc
        exact (mem_eventNames _ x).2 ⟨q, by simp [hq], hqn⟩
      · exact hOinD x h
    refine ⟨fun h => L.names_disjoint x hxD.1 h, fun v hv hpa => ?_⟩
    obtain ⟨C', hC', hno, w, hwC, hwn⟩ := (mem_restNames comps _ v).1 hv
    rw [← hwn] at hpa
    rcases L.parent_cases C' hC' w hwC x hpa with h1 | h2 | ⟨w', hw', hn'⟩
    · exact hxD.2 h1
    · exact h2 (hflat x (Or.inl hxD.1))
    · exact L.names_disjoint x hxD.1 ((mem_restNames comps _ x).2 ⟨C', hC', hno, w', hw', hn'⟩)
  obtain ⟨hnum, hden⟩ := cond_parts hsem hnorm card hcard (rootItems ν oN) (rootItems ν oX ++ rootItems ν c) hR hRxc hRx
    hOn hOc litO ND NR rD rR hN hrange_nd hperm hlat hDi hRi
  refine ⟨sumVars card rR (localProb M NR) σ, ?_, ?_⟩
  · rw [probEventOpt_eq_roots M ν σ (o ++ c) hvalued hσ.value]
    exact hnum
  · rw [probEventOpt_eq_roots M ν σ c (fun p hp => hvalued p (List.mem_append_right _ hp))
      (fun p hp => hσ.value p (List.mem_append_right _ hp)), hden]
    congr 1
    -- the range of the denominator
    have hpermB : (diff' ND (eventNames c)).Perm ((rootItems ν oN).map (·.1) ++ rD) := by
      rw [List.perm_ext_iff_of_nodup (nodup_diff' (nodup_dedup' _) _)]
      · intro n
        rw [mem_diff', List.mem_append, hrD, mem_diff']
        constructor
        · rintro ⟨h1, h2⟩
          by_cases ho : n ∈ (rootItems ν oN).map (·.1)
          · exact Or.inl ho
          · refine Or.inr ⟨h1, fun hco => ?_⟩
            obtain ⟨q, hq, hqn⟩ := (mem_eventNames _ n).1 hco
            rcases List.mem_append.1 hq with hqc | hqo
            · exact h2 ((mem_eventNames c n).2 ⟨q, hqc, hqn⟩)
            · exact ho ((hOnames n).2 ⟨⟨q, hqo, hqn⟩, h2⟩)
        · rintro (h | ⟨h1, h2⟩)
          · exact hOinD n h
          · refine ⟨h1, fun hc => h2 ?_⟩
            obtain ⟨q, hq, hqn⟩ := (mem_eventNames c n).1 hc
            exact (mem_eventNames _ n).2 ⟨q, by simp [hq], hqn⟩
      · refine List.Nodup.append hOn (nodup_diff' (nodup_dedup' _) _) ?_
        intro n h1 h2
        rw [hrD, mem_diff'] at h2
        obtain ⟨⟨p, hp, hpn⟩, _⟩ := (hOnames n).1 h1
        exact h2.2 ((mem_eventNames _ n).2 ⟨p, by simp [hp], hpn⟩)
    rw [sumVars_perm card hpermB]

end Y0.CtfTr
