/-
  Y0.Lemmas.SepVerdict — the complete input/output behaviour of the model `MG.dSeparated`
  (validation errors, the `NodeNotFound` of `has_path` when an endpoint is conditioned on, and the verdict
  as `AugSeparated`).  Helper lemmas for Props/C04.lean.
-/
import Y0.Lemmas.SepModel

namespace Y0.MG
variable {α : Type} [DecidableEq α]
open Relation

/-- "valid query": what the three `KeyError` checks of `are_d_separated` demand -/
def ValidQuery (G : MG α) (a b : α) (C : List α) : Prop := a ∈ G.nodes ∧ b ∈ G.nodes ∧ ∀ c ∈ C, c ∈ G.nodes

theorem sepValidate_ok (G : MG α) (a b : α) (C : List α) (h : G.ValidQuery a b C) :
    G.sepValidate a b C = .ok () := by
  obtain ⟨ha, hb, hC⟩ := h
  have : ¬ ∃ x ∈ C, x ∉ G.nodes := by
    rintro ⟨x, hx, hxn⟩; exact hxn (hC x hx)
  simp [sepValidate, ha, hb, this]

theorem sepValidate_err (G : MG α) (a b : α) (C : List α) (h : ¬ G.ValidQuery a b C) :
    G.sepValidate a b C = .error (.invalidInput "KeyError") := by
  unfold sepValidate
  by_cases ha : a ∈ G.nodes
  · by_cases hb : b ∈ G.nodes
    · have : ∃ x ∈ C, x ∉ G.nodes := by
        by_contra hc
        apply h
        refine ⟨ha, hb, fun c hc' => ?_⟩
        by_contra hcn
        exact hc ⟨c, hc', hcn⟩
      simp [ha, hb, this]
    · simp [ha, hb]
  · simp [ha]

/-- everything the proofs need to know about the evidence graph of a valid query -/
theorem dSepEvidence_spec (G : MG α) (hG : G.WF) (a b : α) (C : List α) (hq : G.ValidQuery a b C) :
    ∃ F, G.dSepEvidence a b C = .ok F ∧ F.WF ∧
      (∀ v, v ∈ F.nodes ↔ G.Anc (a :: b :: C) v ∧ v ∉ C) ∧
      (∀ u v, F.BiEdge u v → G.AugStep a b C u v) ∧
      (∀ u v, G.AugStep a b C u v → u ≠ v → F.BiEdge u v) := by
  have hsrc : ∀ s ∈ a :: b :: C, s ∈ G.nodes := by
    intro s hs
    rcases List.mem_cons.1 hs with rfl | hs
    · exact hq.1
    · rcases List.mem_cons.1 hs with rfl | hs
      · exact hq.2.1
      · exact hq.2.2 s hs
  obtain ⟨K, hK⟩ := ancestorsInclusive_total G (a :: b :: C) hsrc
  have hKspec := ancestorsInclusive_spec G hG (a :: b :: C) K hK
  set A := G.subgraph K with hAdef
  have hA : A.WF := wf_subgraph G K
  set E := (closures A).foldl addClique A.moralize.disorient with hEdef
  have hEn : ∀ v, v ∈ E.nodes ↔ v ∈ K := fun v => by
    rw [hEdef, mem_nodes_evidence A hA v, hAdef, mem_nodes_subgraph]
  refine ⟨E.subgraph (E.nodes.filter (· ∉ C)), ?_, wf_subgraph _ _, ?_, ?_, ?_⟩
  · simp [dSepEvidence, sepValidate_ok G a b C hq, hK, augment_ok A hA, bind, Except.bind, pure, Except.pure,
      ← hAdef, ← hEdef]
  · intro v
    rw [mem_nodes_subgraph]
    simp only [List.mem_filter, decide_eq_true_eq, hEn, hKspec]
  · intro u v h
    rw [biEdge_subgraph] at h
    obtain ⟨hE, hu, hv⟩ := h
    simp only [List.mem_filter, decide_eq_true_eq] at hu hv
    refine ⟨?_, hu.2, hv.2⟩
    have h1 := augEdge_of_biEdge_augment A hA u v hE
    rw [hAdef, augEdge_subgraph] at h1
    exact (augEdge_congr G (fun w => hKspec w) u v).1 h1
  · rintro u v ⟨hAug, hu, hv⟩ hne
    rw [biEdge_subgraph]
    have h1 : G.AugEdge (· ∈ K) u v := (augEdge_congr G (fun w => hKspec w) u v).2 hAug
    have h2 : A.AugEdge (· ∈ A.nodes) u v := by rw [hAdef, augEdge_subgraph]; exact h1
    refine ⟨biEdge_augment_of_augEdge A hA u v hne h2, ?_, ?_⟩
    · simp only [List.mem_filter, decide_eq_true_eq, hEn]; exact ⟨h1.1, hu⟩
    · simp only [List.mem_filter, decide_eq_true_eq, hEn]; exact ⟨h1.2.1, hv⟩

theorem anc_self_left (G : MG α) (a b : α) (C : List α) : G.Anc (a :: b :: C) a := ⟨a, by simp, .refl⟩
theorem anc_self_right (G : MG α) (a b : α) (C : List α) : G.Anc (a :: b :: C) b := ⟨b, by simp, .refl⟩

/-- invalid query: `KeyError` -/
theorem dSeparated_invalid (G : MG α) (a b : α) (C : List α) (h : ¬ G.ValidQuery a b C) :
    G.dSeparated a b C = .error (.invalidInput "KeyError") := by
  simp [dSeparated, dSepEvidence, sepValidate_err G a b C h, bind, Except.bind]

/-- valid query with a conditioned endpoint: `nx.has_path` raises `NodeNotFound` -/
theorem dSeparated_endpoint_conditioned (G : MG α) (hG : G.WF) (a b : α) (C : List α)
    (hq : G.ValidQuery a b C) (h : a ∈ C ∨ b ∈ C) :
    G.dSeparated a b C = .error (.internal "NodeNotFound") := by
  obtain ⟨F, hF, _, hn, _, _⟩ := dSepEvidence_spec G hG a b C hq
  by_cases ha : a ∈ C
  · have : a ∉ F.nodes := fun h' => ((hn a).1 h').2 ha
    simp [dSeparated, hF, hasPath, this, bind, Except.bind]
  · have hb : b ∈ C := h.resolve_left ha
    have h1 : a ∈ F.nodes := (hn a).2 ⟨anc_self_left G a b C, ha⟩
    have h2 : b ∉ F.nodes := fun h' => ((hn b).1 h').2 hb
    simp [dSeparated, hF, hasPath, h1, h2, bind, Except.bind]

/-- valid query, endpoints not conditioned on: a verdict, and it is the augmented-graph criterion -/
theorem dSeparated_verdict (G : MG α) (hG : G.WF) (a b : α) (C : List α)
    (hq : G.ValidQuery a b C) (ha : a ∉ C) (hb : b ∉ C) :
    ∃ s, G.dSeparated a b C = .ok s ∧ (s = true ↔ G.AugSeparated a b C) := by
  obtain ⟨F, hF, hFwf, hn, h1, h2⟩ := dSepEvidence_spec G hG a b C hq
  have haF : a ∈ F.nodes := (hn a).2 ⟨anc_self_left G a b C, ha⟩
  have hbF : b ∈ F.nodes := (hn b).2 ⟨anc_self_right G a b C, hb⟩
  refine ⟨!decide (b ∈ F.reach a), ?_, ?_⟩
  · simp [dSeparated, hF, hasPath, haF, hbF, bind, Except.bind, pure, Except.pure]
  · simp only [Bool.not_eq_true', decide_eq_false_iff_not, mem_reach F hFwf a haF b, AugSeparated, AugConnected]
    constructor
    · intro hno hconn
      exact hno (rtg_of_imp_or_eq (fun u v huv => by
        by_cases huv' : u = v
        · exact Or.inr huv'
        · exact Or.inl (h2 u v huv huv')) hconn)
    · intro hno hconn
      exact hno (ReflTransGen.mono (fun u v => h1 u v) _ _ hconn)

end Y0.MG
