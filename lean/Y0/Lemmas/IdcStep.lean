/-
  Y0.Lemmas.IdcStep — inversion of one round of the IDC loop (`Y0.idcAlg`).
-/
import Y0.Model.Idc
import Y0.Lemmas.IdVocab

namespace Y0
open IdDsl IdAux

variable {sep : SepTest} {topo : MG Name → Except Err (List Name)} {G : MG Name} {est : Expr}

theorem firstApplicable_some {X Y Z todo : List Name} {c : Name}
    (h : firstApplicable sep G X Y Z todo = .ok (some c)) :
    c ∈ todo ∧ rule2Applies sep G X Y Z c = .ok true := by
  induction todo with
  | nil => simp [firstApplicable] at h
  | cons a l ih =>
    unfold firstApplicable at h
    obtain ⟨b, hb, h⟩ := bind_ok h
    cases b with
    | true =>
      simp only [if_true, pure, Except.pure, Except.ok.injEq, Option.some.injEq] at h
      subst h
      exact ⟨List.mem_cons_self, hb⟩
    | false =>
      simp only [Bool.false_eq_true, if_false] at h
      obtain ⟨h1, h2⟩ := ih h
      exact ⟨List.mem_cons_of_mem _ h1, h2⟩

/-- a successful run of `idc`: either a condition was exchanged and the recursion succeeded, or no condition is
exchangeable and `identify` succeeded on the unconditioned query -/
theorem idcAlg_ok {fuel : Nat} {X Y Z : List Name} {e : Expr}
    (h : idcAlg sep topo G est fuel X Y Z = .ok e) :
    (∃ c fuel', firstApplicable sep G X Y Z Z = .ok (some c) ∧ fuel = fuel' + 1 ∧
        idcAlg sep topo G est fuel' (union' X [c]) Y (Z.filter (· ≠ c)) = .ok e) ∨
    (firstApplicable sep G X Y Z Z = .ok none ∧
        ∃ e0, idAlg topo { G := G, X := X, Y := union' Y Z, est := est } = .ok e0 ∧
          normalizeMarginalize e0 Y = .ok e) := by
  unfold idcAlg at h
  obtain ⟨r, hr, h⟩ := bind_ok h
  cases r with
  | some c =>
    cases fuel with
    | zero => cases h
    | succ n => exact Or.inl ⟨c, n, hr, rfl, h⟩
  | none =>
    obtain ⟨e0, he0, h⟩ := bind_ok h
    exact Or.inr ⟨hr, e0, he0, h⟩

end Y0
