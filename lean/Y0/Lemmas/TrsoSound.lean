/-
  Y0.Lemmas.TrsoSound — **TRSO is sound**: every estimand the recursion returns, on every run (any number of uses of
  source experiments, at any depth), denotes `P*(Y | do(X))` of the target model in every family of models that is
  consistent with the selection diagrams the run starts from (`FamGood`).

  Assembly: the soundness engine (Lemmas/TrsoSemAll) is instantiated twice — inside a source domain (`srcClass`, where
  lines 6/7 never fire) and in the target domain (`tgtClass`), whose hook for lines 6/7 (`h67_target`) runs the source
  instance on the sub-query (`srcCtx_initial`), reads the activated result back in the family (`denL_activate`) and
  transports the specification (`spec_transport`).
-/
import Y0.Lemmas.TrsoSemL6
import Y0.Lemmas.TrsoSoundNoSurr

namespace Y0
namespace Trso
open TrDsl MG IdAux

/-- **families consistent with the selection diagrams** `graphs` (one per domain, as built by
`surrogate_to_transport`): every declared domain has a positive model compatible with the graph, with the cardinalities,
latent variables and latent priors of the target; the tag "pi*" reads the target model; and the mechanism of a variable
may differ from the target's only where the domain's diagram has a selection node -/
structure FamGood (Fam : Family) (G : MG Name) (pops : List Name) (graphs : List (Pop × MG Name)) : Prop where
  ok : FamOK Fam G pops
  tag : Fam.dom (some targetPop) = Fam.dom none
  exo : ∀ d ∈ pops, SameExo (Fam.dom none) (Fam.dom (some d))
  marks : ∀ p ∈ graphs, ∀ v, (Fam.dom (some p.1)).kern v ≠ (Fam.dom none).kern v → v ∈ regularNodes p.2 →
    (tnode v, v) ∈ p.2.di

theorem coinFam_good (G : MG Name) (hG : G.WF) (hr : G.Ranked) (pops : List Name) (graphs : List (Pop × MG Name)) :
    FamGood (coinFam G) G pops graphs :=
  ⟨coinFam_ok G hG hr pops, rfl, fun _ _ => ⟨rfl, rfl, rfl⟩, fun _ _ _ hne => absurd rfl hne⟩

/-- the target contexts of the consistent families -/
def tgtClass (G : MG Name) (pops : List Name) (graphs : List (Pop × MG Name)) (σ' : Val) : Ctx → Prop := fun ctx =>
  ∃ (Fam : Family) (hF : FamGood Fam G pops graphs), ctx = famCtx Fam G pops σ' hF.ok

/-- the contexts of a run inside source domain `d` under `do(zs)`, for the consistent families -/
def srcClass (G : MG Name) (pops : List Name) (graphs : List (Pop × MG Name)) (σ' : Val) (d : Pop) (hd : d ∈ pops)
    (zs : List Name) (hz : zs ≠ []) : Ctx → Prop := fun ctx =>
  ∃ (Fam : Family) (hF : FamGood Fam G pops graphs), ctx = srcCtx Fam G pops σ' hF.ok d hd zs hz

/-- inside a source domain -/
def KSrc (q : Query) : Prop := q.active ≠ []

theorem kSrc_stable : Stable KSrc := by
  intro q q' hk ha _ _
  unfold KSrc at hk ⊢
  rw [ha]; exact hk

theorem h67_src (sep : SepTest) (C : Ctx → Prop) (Mb : Nat) : H67 sep C KSrc Mb := by
  intro fuel q G _ _ hk _ _ _ _ _ _ _ _ e he
  unfold step67 at he
  have hg : (q.active.isEmpty && !q.surr.isEmpty) = false := by
    have : q.active.isEmpty = false := by
      cases ha : q.active with
      | nil => exact absurd ha hk
      | cons a as => rfl
    simp [this]
  rw [hg] at he
  simp [pure, Except.pure] at he

/-- **lines 6 / 7 are sound in the target domain** -/
theorem h67_target (G : MG Name) (hG : G.WF) (hr : G.Ranked) (hsmall : ∀ v ∈ G.nodes, v < 100) (pops : List Name)
    (graphs : List (Pop × MG Name)) (σ' : Val) (Mb : Nat) :
    H67 dSeparated (tgtClass G pops graphs σ') (fun _ => True) Mb := by
  intro fuel q Gc hq hI _ _ anc _ _ extra hex hemp _ e he ctx hctx
  obtain ⟨Fam, hF, rfl⟩ := hctx
  unfold step67 at he
  split at he
  · rename_i hguard
    have hact : q.active = [] := by
      have : q.active.isEmpty = true := by
        cases hq' : q.active.isEmpty <;> simp [hq'] at hguard ⊢
      simpa using this
    have hsurr : q.surr ≠ [] := by
      intro hs; rw [hs] at hguard; simp at hguard
    obtain ⟨subs, hsubs, he⟩ := bind_ok he
    obtain ⟨rs, hrs, he⟩ := bind_ok he
    have hhead : (rs.filterMap id).head? = some e := by simpa [pure, Except.pure] using he
    have hmem : some e ∈ rs := by
      have := List.mem_of_mem_head? hhead
      obtain ⟨o, ho, hoe⟩ := List.mem_filterMap.1 this
      simp only [id] at hoe
      rw [← hoe]; exact ho
    obtain ⟨⟨d, s⟩, hds, hf⟩ := mapM_ok hrs _ hmem
    simp only [] at hf
    obtain ⟨o, ho, hf⟩ := bind_ok hf
    cases o with
    | none => simp [pure, Except.pure] at hf
    | some es =>
      simp only [] at hf
      obtain ⟨e', hact', hf⟩ := bind_ok hf
      have hee : e' = e := by simpa [pure, Except.pure] using hf
      rw [hee] at hact'
      obtain ⟨Z, g, hp, _, _, hne, htrue, hs⟩ := line6_mem' hsubs (d, s) hds
      simp only [] at hp hs htrue
      subst hs
      have hT := hI _ ⟨Fam, hF, rfl⟩
      have hd : d ∈ pops := (hT.t0 hact hsurr).doms _ hp
      have hz : nsort (inter' Z q.X) ≠ [] := nsort_nonempty hne
      have hinv_s : QInv Mb (line6Query q d g Z) (g.removeNodes (inter' Z q.X)) :=
        line6Query_inv hq hact hsurr hex hemp hp hne htrue
      have hI_s : Inv (srcClass G pops graphs σ' d hd (nsort (inter' Z q.X)) hz) (line6Query q d g Z)
          (g.removeNodes (inter' Z q.X)) := by
        rintro cx ⟨Fam', hF', rfl⟩
        exact srcCtx_initial hq (hI _ ⟨Fam', hF', rfl⟩) hact hsurr hp hd hne
      -- the run inside the source domain is sound
      obtain ⟨gs, ns, ds⟩ := trsoF_sound_engine dSeparated (srcClass G pops graphs σ' d hd (nsort (inter' Z q.X)) hz)
        ⟨coinFam G, coinFam_good G hG hr pops graphs, rfl⟩ (coin_srcCtx G hG hr pops σ' d hd _ hz) KSrc kSrc_stable Mb
        (h67_src dSeparated _ Mb) fuel (line6Query q d g Z) (g.removeNodes (inter' Z q.X)) hinv_s hI_s hz es ho _
        ⟨Fam, hF, rfl⟩
      -- activation reads the result back in the family
      have hAct := denL_activate (famLeafSem Fam G pops σ' hF.ok) (nsort (inter' Z q.X)) d
        (srcLeafSem Fam G pops σ' hF.ok d hd (nsort (inter' Z q.X)) hz).Adm
        (srcLeafSem Fam G pops σ' hF.ok d hd (nsort (inter' Z q.X)) hz).Rng
        (by
          rintro pop c p ⟨w, rfl, hv⟩ _ c' p' hc' hp'
          have hplainC : ∀ v ∈ sortVars (c.filter (actKeep (nsort (inter' Z q.X)))),
              v.ivs = [] ∧ v.star = none ∧ v.isIv = false := by
            intro v hv'
            have hvc := (List.mem_filter.1 ((mem_sortVars v _).1 hv')).1
            have := hv v (List.mem_append_left _ hvc)
            exact ⟨this.1, this.2.1, this.2.2.1⟩
          have hplainP : ∀ v ∈ sortVars (p.filter (actKeep (nsort (inter' Z q.X)))),
              v.ivs = [] ∧ v.star = none ∧ v.isIv = false := by
            intro v hv'
            have hvc := (List.mem_filter.1 ((mem_sortVars v _).1 hv')).1
            have := hv v (List.mem_append_right _ hvc)
            exact ⟨this.1, this.2.1, this.2.2.1⟩
          rw [interveneVars_plain hz hplainC] at hc'
          rw [interveneVars_plain hz hplainP] at hp'
          have hc'' := (Except.ok.inj hc').symm
          have hp'' := (Except.ok.inj hp').symm
          subst hc'' hp''
          refine ⟨actWorld (nsort (inter' Z q.X)), ⟨⟨popVar d, rfl, hd⟩, actWorld_unstarred _⟩, ?_⟩
          intro v' hv'
          have key : ∀ (l : List Var), (∀ v ∈ l, v ∈ c ++ p) → ∀ v' ∈ (sortVars (l.filter (actKeep (nsort (inter' Z q.X))))).map
              (fun v => ({ name := v.name, star := none, isIv := false, ivs := actWorld (nsort (inter' Z q.X)) } : Var)),
              v'.ivs = actWorld (nsort (inter' Z q.X)) ∧ v'.star = none ∧ v'.isIv = false ∧
                (v'.name ∈ G.nodes ∧ v'.name ∉ (actWorld (nsort (inter' Z q.X))).map (·.name)) := by
            intro l hl v' hv'
            obtain ⟨v, hvm, rfl⟩ := List.mem_map.1 hv'
            obtain ⟨hvl, hkeep⟩ := List.mem_filter.1 ((mem_sortVars v _).1 hvm)
            have hvv := hv v (hl v hvl)
            refine ⟨rfl, rfl, rfl, hvv.2.2.2, ?_⟩
            rw [mem_actWorld_names]
            rw [TrsoAux.src_actKeep_plain _ ⟨hvv.1, hvv.2.1, hvv.2.2.1⟩] at hkeep
            simpa using hkeep
          rcases List.mem_append.1 hv' with a | a
          · exact key c (fun v hv => List.mem_append_left _ hv) v' a
          · exact key p (fun v hv => List.mem_append_right _ hv) v' a)
        (fun v hv => ⟨hv.1, trivial⟩) es e gs.1 gs.2 ns hact'
      obtain ⟨hgood, hden⟩ := hAct
      refine ⟨hgood, sumND_activate ns hact', fun σ => ?_⟩
      show denL (Fam.dom none).card (envLeaf Fam.env σ') e σ = _
      rw [hden σ]
      have hds := ds σ
      change denL (Fam.dom (some d)).card (leafAct (nsort (inter' Z q.X)) d (envLeaf Fam.env σ')) es σ =
        Spec (Fam.dom (some d)) (regularNodes (g.removeNodes (inter' Z q.X))) (diff' q.X Z) q.Y σ at hds
      rw [hF.ok.card d hd] at hds
      rw [hds]
      exact spec_transport hsmall hq hT hact hsurr hex hemp hp htrue (hF.exo d hd) σ
  · simp [pure, Except.pure] at he

/-- the diagrams `surrogate_to_transport` builds: the target's graph, and for a source domain `d` with surrogate outcomes
`W` and (the first declared) experiments `Z` the graph plus a selection node at every variable
`get_nodes_to_transport(Z, W)` returns -/
theorem surrogateToTransport_spec' {G : MG Name} (_hG : G.WF) {Y X : List Name}
    {outcomes interventions : List (Pop × List Name)} (hv : validInput G Y X outcomes interventions = true)
    {graphs : List (Pop × MG Name)} (hg : surrogateToTransport G outcomes interventions = .ok graphs) :
    ∀ p ∈ graphs, p = (targetPop, G) ∨
      ∃ Z W ns, (p.1, Z) ∈ interventions ∧ (p.1, W) ∈ outcomes ∧ getNodesToTransport G Z W = .ok ns ∧
        p.2 = createTransportDiagram G ns := by
  obtain ⟨_, _, _, _, _, hk, _⟩ := validInput_spec hv
  rw [surrogateToTransport_eq] at hg
  simp only [hk, Bool.not_true, Bool.false_eq_true, ↓reduceIte] at hg
  obtain ⟨gs, hgs, hg⟩ := bind_ok hg
  simp only [pure, Except.pure, Except.ok.injEq] at hg
  subst hg
  intro p hp
  rcases mem_assign hp with h | h
  · exact Or.inl h
  · obtain ⟨⟨d, W⟩, ho, hstep⟩ := mapM_ok hgs p h
    right
    unfold sttStep at hstep
    simp only at hstep
    cases hf : interventions.find? (fun p => decide (p.1 = d)) with
    | none => rw [hf] at hstep; cases hstep
    | some pz =>
      obtain ⟨d', Z⟩ := pz
      rw [hf] at hstep
      simp only at hstep
      obtain ⟨ns, hns, hstep⟩ := bind_ok hstep
      simp only [pure, Except.pure, Except.ok.injEq] at hstep
      subst hstep
      have hmem : (d', Z) ∈ interventions := List.mem_of_find?_eq_some hf
      have hdd : d' = d := by simpa using List.find?_some hf
      subst hdd
      exact ⟨Z, W, ns, hmem, ho, hns, rfl⟩

/-- **TRSO is sound** (recursion level, stated for the initial query): in every family consistent with the diagrams,
the estimand denotes the target effect -/
theorem trso_sound_core (G : MG Name) (hG : G.WF) (hA : G.Acyclic) (hsmall : ∀ v ∈ G.nodes, v < 100)
    (Y X : List Name) (outcomes interventions : List (Pop × List Name))
    (hv : validInput G Y X outcomes interventions = true) (hY : Y ≠ [])
    (e : Expr) (h : identifyTargetOutcomes dSeparated G Y X outcomes interventions = .ok (some e))
    (graphs : List (Pop × MG Name)) (hg : surrogateToTransport G outcomes interventions = .ok graphs)
    (Fam : Family) (hF : FamGood Fam G (targetPop :: graphs.map (fun p => p.1)) graphs) (σ' σ : Val) :
    den Fam.env σ' e σ = (Fam.dom none).doProb G X Y σ := by
  obtain ⟨hinv, _, _, _⟩ := qinitial_inv hG hA hsmall hv hY hg
  rw [identify_eq_trso hv hg] at h
  have hr : G.Ranked := MG.acyclic_ranked hG hA
  have hsmall' : ∀ v ∈ G.nodes, v < 200 := fun v hv => Nat.lt_trans (hsmall v hv) (by decide)
  have hnoT : ∀ v ∈ G.nodes, isTnode v = false := noT_of_small hsmall'
  set q := initialQuery G Y X graphs interventions with hqdef
  let pops : List Name := targetPop :: graphs.map (fun p => p.1)
  have hsub : ∀ p ∈ graphs, RSub G p.2 := by
    intro p hp
    rcases (surrogateToTransport_spec hG hv hg).2 p hp with rfl | ⟨_, ns, hns, hp2⟩
    · exact rsub_self
    · rw [hp2]; exact rsub_ctd hsmall hns
  have hI : Inv (tgtClass G pops graphs σ') q G := by
    rintro ctx ⟨Fam', hF', rfl⟩
    exact famCtx_initial σ' hF'.ok List.mem_cons_self hF'.tag hnoT Y X graphs interventions hsub hF'.marks
      (fun p hp => List.mem_cons_of_mem _ (List.mem_map_of_mem hp))
  obtain ⟨hgood, _, hden⟩ := trsoF_sound_engine dSeparated (tgtClass G pops graphs σ')
    ⟨coinFam G, coinFam_good G hG hr pops graphs, rfl⟩ (coin_famCtx G hG hr pops σ') (fun _ => True)
    (fun _ _ _ _ _ _ => trivial) _ (h67_target G hG hr hsmall pops graphs σ' _) q.fuel q G hinv hI trivial e h _
    ⟨Fam, hF, rfl⟩
  rw [den_eq_denL_of_clean _ σ' hgood.1 σ]
  exact (hden σ).trans (spec_eq_doProb (Fam.dom none) G hnoT X Y σ)

end Trso
end Y0
