/-
  Y0.Lemmas.CfFragC — soundness of ID* on SINGLE-WORLD events (any polarity of values and subscripts), part C: the two answering
  lines and the induction.  The reading is `cden` (Lemmas/CfDen.lean): an unstarred subscript `-X` denotes the CURRENT value of
  `X` (the event's value of `X`, the value bound by an enclosing `Sum`, or what the event's world forces on `X`).

  * `line9_leaf`   : `P[W](all non-self-intervened variables)` read under `τ`
  * `lines4to9_sound_sw` : `Σ_{free} Π_{districts} ID*(event of the district)` / `Σ_{free} P[W](…)` is `P(event)`, given that the
                     recursive calls are sound
  * `idStarFuel_sound_sw`   : by induction on the fuel, for every single-world event, every reading `σ` of the free symbols that
                     gives the starred-valued keys and the starred subscripts their starred values
  * `idStarFuel_sound_frag` : the unstarred fragment (a special case)
  * `idStarFuel_not_unid_sw`: on a single-world event ID* never refuses
-/
import Y0.Lemmas.CfFragB

namespace Y0.Cf
open Relation MG Fscm

/-! ## small facts -/

theorem prob_nil (M : Model) (hn : ∀ pmf ∈ M.noise, pmf.sum = 1) : prob M [] = 1 := by
  rw [prob_eq_mass]
  simp only [List.all_nil]
  exact mass_true M.noise hn

theorem mapM_map_eq {α β γ ε} (f : α → Except ε β) (l : List α) (r : List β) (h : l.mapM f = .ok r) (g : β → γ) (k : α → γ)
    (hk : ∀ a ∈ l, ∀ b, f a = .ok b → g b = k a) : r.map g = l.map k := by
  induction l generalizing r with
  | nil => simp [List.mapM_nil, pure, Except.pure] at h; subst h; rfl
  | cons x xs ih =>
    rw [List.mapM_cons] at h
    simp only [bind, Except.bind, pure, Except.pure] at h
    cases hx : f x with
    | error e => rw [hx] at h; cases h
    | ok y =>
      rw [hx] at h
      cases hxs : xs.mapM f with
      | error e => rw [hxs] at h; cases h
      | ok ys =>
        rw [hxs] at h
        simp only [Except.ok.injEq] at h
        subst h
        simp only [List.map_cons]
        rw [hk x (by simp) y hx, ih ys hxs (fun a ha b hb => hk a (by simp [ha]) b hb)]

theorem nodeEvent_unst (n : Var) (ev : Event) (h : Unst ev) : nodeEvent n ev = ⟨n.name, false⟩ := by
  unfold nodeEvent
  cases hg : ev.get? n with
  | none => rfl
  | some v => exact h _ (Event.get?_mem hg)

theorem nodeEvent_valBy {s : Name → Bool} (n : Var) (ev : Event) (h : ValBy s ev) (hs : ev.get? n = none → s n.name = false) :
    nodeEvent n ev = ⟨n.name, s n.name⟩ := by
  unfold nodeEvent
  cases hg : ev.get? n with
  | none => simp [hs hg]
  | some v => exact h _ (Event.get?_mem hg)

/-- `s` marks key names only -/
def SKeys (s : Name → Bool) (ev : Event) : Prop := ∀ n, s n = true → n ∈ ev.keys.map (·.name)

/-- `s` cut down to the key names of `ev` -/
def restrictS (s : Name → Bool) (ev : Event) : Name → Bool := fun m => s m && decide (m ∈ ev.keys.map (·.name))

theorem restrictS_true {s : Name → Bool} {ev : Event} {m : Name} (h : restrictS s ev m = true) : s m = true := by
  unfold restrictS at h
  simp only [Bool.and_eq_true] at h
  exact h.1

theorem sKeys_restrictS (s : Name → Bool) (ev : Event) : SKeys (restrictS s ev) ev := by
  intro n hn
  unfold restrictS at hn
  simp only [Bool.and_eq_true, decide_eq_true_eq] at hn
  exact hn.2

theorem valBy_restrictS {s : Name → Bool} {ev : Event} (h : ValBy s ev) : ValBy (restrictS s ev) ev := by
  intro p hp
  have hk : p.1.name ∈ ev.keys.map (·.name) := List.mem_map.2 ⟨p.1, (mem_keys_iff ev p.1).2 ⟨p.2, hp⟩, rfl⟩
  rw [h p hp]
  simp [restrictS, hk]

theorem frag2_restrictS {G : MG Name} {w : World} {s : Name → Bool} {ev : Event} (h : Frag2 G w s ev) :
    Frag2 G w (restrictS s ev) ev := ⟨h.good, valBy_restrictS h.vals, h.keysIn⟩

/-- no key of a single-world event is named in its world: lines 2 and 3 do nothing -/
theorem violates_false_of_noSelf {w : World} {ev : Event} (hkw : KeysIn w ev) (hok : ∀ p ∈ ev, p.2.name = p.1.name)
    (hno : ∀ k ∈ ev.keys, k.name ∉ w.map (·.name)) : violatesEffectiveness ev = false := by
  unfold violatesEffectiveness
  rw [List.any_eq_false]
  intro p hp
  have hk : p.1 ∈ ev.keys := (mem_keys_iff ev p.1).2 ⟨p.2, hp⟩
  have hivs : p.1.ivs = w := by rw [hkw p.1 hk]; rfl
  simp only [Bool.and_eq_true, List.any_eq_true, beq_iff_eq, bne_iff_ne, ne_eq, not_and, not_exists, not_not]
  intro _ i hi hin
  rw [hivs] at hi
  exact absurd (List.mem_map.2 ⟨i, hi, by rw [hin, hok p hp]⟩) (hno p.1 hk)

theorem violates_removeTautologies' (ev : Event) (h : violatesEffectiveness ev = false) :
    violatesEffectiveness (removeTautologies ev) = false := by
  unfold violatesEffectiveness removeTautologies at *
  rw [List.any_eq_false] at h ⊢
  intro p hp
  exact h p (List.mem_filter.1 hp).1

theorem frag2_removeTautologies {G : MG Name} {w : World} {s : Name → Bool} {ev : Event} (h : Frag2 G w s ev) :
    Frag2 G w s (removeTautologies ev) :=
  ⟨goodEv_removeTautologies h.good, fun p hp => h.vals p (List.mem_filter.1 hp).1,
    fun k hk => h.keysIn k (keys_removeTautologies ev k hk)⟩

theorem frag2_eventWF {G : MG Name} {w : World} {s : Name → Bool} {ev : Event} (M : Model) (hM : Compatible M G)
    (h : Frag2 G w s ev) : EventWF M ev :=
  ⟨h.good.ok.names, fun p hp => (hM.perm.mem_iff).2 (h.good.keys p.1 ((mem_keys_iff ev p.1).2 ⟨p.2, hp⟩)).inG,
    fun p hp => (h.good.keys p.1 ((mem_keys_iff ev p.1).2 ⟨p.2, hp⟩)).subs⟩

/-- the world of a (non-empty) single-world event is a consistent subscript set -/
theorem frag2_consistent {G : MG Name} {w : World} {s : Name → Bool} {ev : Event} (h : Frag2 G w s ev) (hne : ev ≠ []) :
    ConsistentSubs w := by
  cases ev with
  | nil => exact absurd rfl hne
  | cons p ps =>
    have hk : p.1 ∈ Event.keys (p :: ps) := (mem_keys_iff _ p.1).2 ⟨p.2, by simp⟩
    have := (h.good.keys p.1 hk).subs
    have hivs : p.1.ivs = w := by rw [h.keysIn p.1 hk]; rfl
    rw [hivs] at this
    exact this

theorem frag_no_violation {G : MG Name} {w : World} {ev : Event} (h : Frag G w ev) : violatesEffectiveness ev = false := by
  unfold violatesEffectiveness
  rw [List.any_eq_false]
  intro p hp
  have hk : p.1 ∈ ev.keys := (mem_keys_iff ev p.1).2 ⟨p.2, hp⟩
  have hivs : p.1.ivs = w := by rw [h.keysIn p.1 hk]; rfl
  have hv := h.unst p hp
  simp only [Bool.and_eq_true, List.any_eq_true, beq_iff_eq, bne_iff_ne, ne_eq, not_and, not_exists, not_not]
  intro _ i hi _
  rw [hivs] at hi
  rw [h.wUnst i hi, hv]

theorem frag_removeTautologies {G : MG Name} {w : World} {ev : Event} (h : Frag G w ev) : Frag G w (removeTautologies ev) :=
  ⟨goodEv_removeTautologies h.good, fun p hp => h.unst p (List.mem_filter.1 hp).1,
    fun k hk => h.keysIn k (keys_removeTautologies ev k hk), h.wUnst⟩

theorem frag_eventWF {G : MG Name} {w : World} {ev : Event} (M : Model) (hM : Compatible M G) (h : Frag G w ev) : EventWF M ev :=
  ⟨h.good.ok.names, fun p hp => (hM.perm.mem_iff).2 (h.good.keys p.1 ((mem_keys_iff ev p.1).2 ⟨p.2, hp⟩)).inG,
    fun p hp => (h.good.keys p.1 ((mem_keys_iff ev p.1).2 ⟨p.2, hp⟩)).subs⟩

/-- line 3 does not change the probability (as `idstar_line3_sound` of Props/C07) -/
theorem probEvent_removeTautologies (M : Model) (ν : BaseValues) (ev : Event) (hwf : EventWF M ev) :
    probEvent M ν (removeTautologies ev) = probEvent M ν ev := by
  unfold probEvent removeTautologies
  apply prob_map_filter
  intro p hp hk u
  simp only [Bool.not_eq_eq_eq_not, Bool.not_false] at hk
  unfold isRedundant at hk
  simp only [Bool.and_eq_true, List.any_eq_true, beq_iff_eq] at hk
  obtain ⟨_, i, hi, hname, hstar⟩ := hk
  exact holds_true_of_tautology M ν p i hi hname hstar (hwf.names p hp) (hwf.inModel p hp) (hwf.subs p hp) u

theorem nodup_upgradeOrdering (vs : List Var) : (upgradeOrdering vs).Nodup := by
  unfold upgradeOrdering
  exact (perm_sortBy' _ _).nodup_iff.2 (nodup_dedup' _)

theorem mem_upgradeOrdering (vs : List Var) (x : Var) : x ∈ upgradeOrdering vs ↔ x ∈ vs := by
  unfold upgradeOrdering
  rw [mem_sortBy, mem_dedup']

/-- the ranges `Sum.safe` sums over, for a list of plain names -/
theorem ranges_spec (names : List Name) :
    ((upgradeOrdering (names.map Var.plain)).map (·.name)).Nodup ∧
      ∀ V, V ∈ (upgradeOrdering (names.map Var.plain)).map (·.name) ↔ V ∈ names := by
  constructor
  · apply List.Nodup.map_on _ (nodup_upgradeOrdering _)
    intro a ha b hb hab
    rw [mem_upgradeOrdering] at ha hb
    obtain ⟨n, _, rfl⟩ := List.mem_map.1 ha
    obtain ⟨m, _, rfl⟩ := List.mem_map.1 hb
    simp only [Var.plain] at hab
    rw [hab]
  · intro V
    simp only [List.mem_map, mem_upgradeOrdering]
    constructor
    · rintro ⟨x, ⟨n, hn, rfl⟩, rfl⟩; exact hn
    · intro h; exact ⟨Var.plain V, ⟨V, h, rfl⟩, rfl⟩

theorem sKeys_nev {G : MG Name} {w : World} {s : Name → Bool} {ev : Event} {g : MG Var} {nev : Event}
    (facts : SWFacts G w s ev g nev) (hsk : SKeys s ev) : SKeys s nev :=
  fun n hn => (facts.keyNames n).2 (hsk n hn)

section
variable {G : MG Name} {w : World} {s : Name → Bool} {ev : Event} {g : MG Var} {nev : Event}

/-! ## line 9 -/

/-- the term of line 9 under the reading `τ` (pure computation): the joint event of the plain names of the nodes, in the world
made of all their subscripts -/
theorem line9_reading (M : Model) (ν : BaseValues) (dom : Name → Nat) (g' : MG Var) (e9 : Expr) (h9 : line9 g' = .ok e9)
    (τ : Valuation) :
    cden M ν dom e9 τ =
      prob M (((upgradeOrdering ((g'.nodes.map (·.name)).map Var.plain)).map (·.name)).map fun V =>
        ⟨V, worldOf (nuOf ν τ) (ivsCanon (cfInterventions g'.nodes)), τ V⟩) := by
  unfold line9 probSafe at h9
  simp only at h9
  split at h9
  · cases h9
  · split at h9
    · rename_i hemp
      simp only [Except.ok.injEq] at h9
      subst h9
      have hW0 : cfInterventions g'.nodes = [] := by simpa using hemp
      simp only [cden]
      conv_rhs => rw [List.map_map]
      congr 1
      apply List.map_congr_left
      intro c hc
      rw [mem_upgradeOrdering] at hc
      obtain ⟨n, _, rfl⟩ := List.mem_map.1 hc
      simp only [Function.comp, leafConj, conjunctOf, hW0, ivValue, nuOf, Var.plain]
      rfl
    · simp only [Except.ok.injEq] at h9
      subst h9
      simp only [cden]
      conv_lhs => rw [List.map_map]
      conv_rhs => rw [List.map_map]
      congr 1

/-- the term of line 9, read under `τ`: the joint distribution of all non-self-intervened variables in the world of the event -/
theorem line9_leaf (M : Model) (ν : BaseValues) (dom : Name → Nat) (hM : Compatible M G) (facts : SWFacts G w s ev g nev)
    (hwc : ConsistentSubs w) (e9 : Expr) (h9 : line9 (nsiSubgraph g) = .ok e9) (τ : Valuation)
    (hτw : ∀ i ∈ w, i.star = true → τ i.name = ν i.name true) :
    cden M ν dom e9 τ =
      prob M (((nsiSubgraph g).nodes.map (·.name)).map fun V => ⟨V, worldOf (nuOf ν τ) w, τ V⟩) := by
  set N := (nsiSubgraph g).nodes with hN
  set W := cfInterventions N with hW
  -- the subscripts of line 9 are subscripts of `w`; all of them as soon as a node lives in `w`
  have hWmem : ∀ i, i ∈ W ↔ ∃ n ∈ N, i ∈ n.ivs := by
    intro i
    rw [hW]
    unfold cfInterventions
    rw [mem_dedup']
    simp only [List.mem_flatMap]
  have hNg : ∀ n ∈ N, n ∈ g.nodes := fun n hn => ((mem_nsiSubgraph_iff g n).1 hn).1
  have hL1 : ∀ i ∈ ivsCanon W, i ∈ w := by
    intro i hi
    rw [mem_ivsCanon, hWmem] at hi
    obtain ⟨n, hn, hin⟩ := hi
    rcases facts.shape n (hNg n hn) with h | h
    · rw [h] at hin; cases hin
    · rw [h] at hin; exact hin
  have hL2 : (∃ n ∈ N, n ≠ Var.plain n.name) → ∀ i ∈ w, i ∈ ivsCanon W := by
    rintro ⟨n, hn, hnp⟩ i hi
    rw [mem_ivsCanon, hWmem]
    refine ⟨n, hn, ?_⟩
    rcases facts.shape n (hNg n hn) with h | h
    · exact absurd h hnp
    · rw [h]; exact hi
  -- shape of the term
  set children := upgradeOrdering ((N.map (·.name)).map Var.plain) with hch
  have hT9 := ranges_spec (N.map (·.name))
  have hleaf := line9_reading M ν dom (nsiSubgraph g) e9 h9 τ
  rw [hleaf]
  have hTmem : ∀ V, V ∈ children.map (·.name) ↔ ∃ n ∈ (nsiSubgraph g).nodes, n.name = V := by
    intro V
    rw [hT9.2 V]
    simp only [List.mem_map]
    exact Iff.rfl
  have hTmem' : ∀ V, V ∈ N.map (·.name) ↔ ∃ n ∈ (nsiSubgraph g).nodes, n.name = V := by
    intro V
    simp only [List.mem_map]
    exact Iff.rfl
  rw [prob_eq_local M hM.topoOrder _ τ _ (localSet_world M ν hM facts hwc _ hTmem (ivsCanon W) hL1 hL2 τ hτw),
    prob_eq_local M hM.topoOrder _ τ _ (localSet_world M ν hM facts hwc _ hTmem' w (fun _ h => h) (fun _ _ h => h) τ hτw)]
  apply mass_congr
  intro u
  apply Bool.eq_iff_iff.2
  simp only [List.all_eq_true]
  constructor
  · intro h V hV; exact h V ((hTmem V).2 ((hTmem' V).1 hV))
  · intro h V hV; exact h V ((hTmem' V).2 ((hTmem V).1 hV))


/-! ## line 6 -/

/-- a node of a district's Markov pillow never carries the name of a node of the district -/
theorem pillow_name_ne (facts : DFacts G s g nev) {dordf : List Var → List Var} (hdo : PermDistrict dordf) (D : List Var)
    (hD : D ∈ (nsiSubgraph g).districts) (pillow : List Var) (hp : g.markovPillow (dordf D) = .ok pillow)
    (v : Var) (hv : v ∈ pillow) (n : Var) (hnD : n ∈ D) : v.name ≠ n.name := by
  intro hin
  have hwfn := wf_nsiSubgraph g
  obtain ⟨hng, hnsi⟩ := (mem_nsiSubgraph_iff g n).1 ((districts_cover _ hwfn n).2 ⟨D, hD, hnD⟩)
  have hpspec := markovPillow_spec g (dordf D) pillow hp
  have hvg : v ∈ g.nodes := by
    obtain ⟨_, s', _, hvs⟩ := (hpspec v).1 hv
    exact (facts.wf.di_mem _ hvs).1
  have hvD : v ∉ dordf D := ((hpspec v).1 hv).1
  by_cases hvnsi : isNotSelfIntervened v = true
  · have : v = n := facts.inj v hvg n hng hvnsi hnsi hin
    exact hvD ((hdo D).mem_iff.2 (this ▸ hnD))
  · exact facts.sep v hvg (by simpa using hvnsi) n hng hnsi hin

/-- the value line 6 gives a node of a district: the event's value when the node is a key, the unstarred value otherwise — in
both cases the value `s` prescribes, because `s` marks key names only -/
theorem nodeEvent_district (facts : DFacts G s g nev) (hsk : SKeys s nev)
    (hnsiK : ∀ k ∈ nev.keys, isNotSelfIntervened k = true) (n : Var) (hn : n ∈ (nsiSubgraph g).nodes) :
    nodeEvent n nev = ⟨n.name, s n.name⟩ := by
  obtain ⟨hng, hnsi⟩ := (mem_nsiSubgraph_iff g n).1 hn
  apply nodeEvent_valBy n nev facts.nevVals
  intro hnone
  cases hs : s n.name with
  | false => rfl
  | true =>
    exfalso
    have hb : n.name ∈ nev.keys.map (·.name) := hsk n.name hs
    obtain ⟨k, hk, hkn⟩ := List.mem_map.1 hb
    have : k = n := facts.inj k (facts.keysNodes k hk) n hng (hnsiK k hk) hnsi hkn
    obtain ⟨v, hv⟩ := (mem_keys_iff nev k).1 hk
    exact (Event.get?_none_iff.1 hnone) (k, v) hv this

/-- the event line 6 builds for a district is a single-world event, in the world made of the district's Markov pillow: unstarred
subscripts, no key named in it, values as `s` says -/
theorem frag_of_district {ordf : List World → List World} (hord : PermOrder ordf) {dordf : List Var → List Var}
    (hdo : PermDistrict dordf) (hG : G.WF) (hdl : ∀ e ∈ G.di, e.1 ≠ e.2) (hbl : ∀ e ∈ G.bi, e.1 ≠ e.2)
    (hev : GoodEv G ev) (hcg : makeCounterfactualGraph ordf G ev = .ok (g, some nev)) (facts : DFacts G s g nev)
    (hsk : SKeys s nev) (hnsiK : ∀ k ∈ nev.keys, isNotSelfIntervened k = true)
    {evs : List Event} (hevs : eventsOfEachDistrict dordf g nev = .ok evs) (D : List Var)
    (hD : D ∈ (nsiSubgraph g).districts) (x : Event) (hx : eventsOfDistrict g (dordf D) nev = .ok x) :
    ∃ pillow, g.markovPillow (dordf D) = .ok pillow ∧
      x = Event.ofList ((dordf D).map fun n => (atWorld n.name (ivsCanon (toInterventions pillow)), nodeEvent n nev)) ∧
      Frag2 G (ivsCanon (toInterventions pillow)) s x ∧ (∀ i ∈ ivsCanon (toInterventions pillow), i.star = false) ∧
      (∀ k ∈ x.keys, k.name ∉ (ivsCanon (toInterventions pillow)).map (·.name)) ∧
      (∀ k ∈ x.keys, k.name ∈ D.map (·.name)) := by
  obtain ⟨pillow, hp, hxeq⟩ := eventsOfDistrict_shape g (dordf D) nev x hx
  refine ⟨pillow, hp, hxeq, ?_⟩
  have hxevs : x ∈ evs := by
    unfold eventsOfEachDistrict at hevs
    -- `x` is the event of the district `D`
    have : ∀ (l : List (List Var)) (r : List Event), l.mapM (fun d => eventsOfDistrict g (dordf d) nev) = .ok r → D ∈ l → x ∈ r := by
      intro l
      induction l with
      | nil => intro r _ h; cases h
      | cons d ds ih =>
        intro r hr hmem
        rw [List.mapM_cons] at hr
        simp only [bind, Except.bind, pure, Except.pure] at hr
        cases hd : eventsOfDistrict g (dordf d) nev with
        | error e => rw [hd] at hr; cases hr
        | ok y =>
          rw [hd] at hr
          cases hds : ds.mapM (fun d => eventsOfDistrict g (dordf d) nev) with
          | error e => rw [hds] at hr; cases hr
          | ok ys =>
            rw [hds] at hr
            simp only [Except.ok.injEq] at hr
            subst hr
            rcases List.mem_cons.1 hmem with rfl | hmem'
            · rw [hx] at hd
              simp only [Except.ok.injEq] at hd
              simp [hd]
            · exact List.mem_cons_of_mem _ (ih ys hds hmem')
    exact this _ _ hevs hD
  have hsw := sw_of_district hord hdo.subset hG hdl hbl hev hcg facts.nevOK hevs x hxevs
  have hpspec := markovPillow_spec g (dordf D) pillow hp
  have hpnode : ∀ v ∈ pillow, v ∈ g.nodes := by
    intro v hv
    obtain ⟨_, s', _, hvs⟩ := (hpspec v).1 hv
    exact (facts.wf.di_mem _ hvs).1
  have hmemw := mem_toInterventions_unst facts pillow hpnode
  have hwfn := wf_nsiSubgraph g
  have hDn : ∀ n ∈ dordf D, n ∈ (nsiSubgraph g).nodes := fun n hn =>
    (districts_cover _ hwfn n).2 ⟨D, hD, (hdo D).mem_iff.1 hn⟩
  refine ⟨⟨hsw.good, ?_, ?_⟩, ?_, ?_, ?_⟩
  · intro p hp'
    rw [hxeq] at hp'
    obtain ⟨n, hn, rfl⟩ := List.mem_map.1 ((Event.ofList_spec _).2 p hp')
    exact nodeEvent_district facts hsk hnsiK n (hDn n hn)
  · intro k hk
    rw [hxeq, mem_keys_ofList] at hk
    obtain ⟨p, hp', rfl⟩ := hk
    obtain ⟨n, _, rfl⟩ := List.mem_map.1 hp'
    rfl
  · intro i hi
    obtain ⟨v, _, rfl⟩ := (hmemw i).1 hi
    rfl
  · intro k hk hmem
    rw [hxeq, mem_keys_ofList] at hk
    obtain ⟨p, hp', rfl⟩ := hk
    obtain ⟨n, hn, rfl⟩ := List.mem_map.1 hp'
    obtain ⟨i, hi, hin⟩ := List.mem_map.1 hmem
    obtain ⟨v, hv, rfl⟩ := (hmemw i).1 hi
    exact pillow_name_ne facts hdo D hD pillow hp v hv n ((hdo D).mem_iff.1 hn) hin
  · intro k hk
    rw [hxeq, mem_keys_ofList] at hk
    obtain ⟨p, hp', rfl⟩ := hk
    obtain ⟨n, hn, rfl⟩ := List.mem_map.1 hp'
    exact List.mem_map.2 ⟨n, (hdo D).mem_iff.1 hn, rfl⟩

/-- the probability of a district event under the reading `τ`: the joint local event of the district's variables -/
theorem probEvent_district (M : Model) (ν : BaseValues) (hM : Compatible M G) (facts : DFacts G s g nev)
    {dordf : List Var → List Var} (hdo : PermDistrict dordf) (D : List Var) (hD : D ∈ (nsiSubgraph g).districts)
    (pillow : List Var) (hp : g.markovPillow (dordf D) = .ok pillow) (x : Event)
    (hxeq : x = Event.ofList ((dordf D).map fun n => (atWorld n.name (ivsCanon (toInterventions pillow)), nodeEvent n nev)))
    (hne : ∀ n ∈ D, nodeEvent n nev = ⟨n.name, s n.name⟩)
    (τ : Valuation) (hτ : ∀ n ∈ D, s n.name = true → τ n.name = ν n.name true) :
    probEvent M (nuOf ν τ) x = mass M.noise (fun u => (D.map (·.name)).all (localOK M τ u)) := by
  rw [← prob_eq_local M hM.topoOrder _ τ _ (localSet_district M ν hM facts hdo D hD pillow hp τ)]
  unfold probEvent
  set wD := ivsCanon (toInterventions pillow) with hwD
  have hconj : ∀ n ∈ D, conjunctOf (nuOf ν τ) (atWorld n.name wD, nodeEvent n nev) =
      ⟨n.name, worldOf (nuOf ν τ) wD, τ n.name⟩ := by
    intro n hn
    have hval : ivValue (nuOf ν τ) (nodeEvent n nev) = τ n.name := by
      rw [hne n hn]
      cases hs : s n.name with
      | false => simp [ivValue, nuOf]
      | true => simp [ivValue, nuOf, hτ n hn hs]
    simp only [conjunctOf, hval, atWorld]
  apply prob_congr_conj
  · intro c hc
    obtain ⟨p, hp', rfl⟩ := List.mem_map.1 hc
    rw [hxeq] at hp'
    obtain ⟨n, hn, rfl⟩ := List.mem_map.1 ((Event.ofList_spec _).2 p hp')
    refine ⟨⟨n.name, worldOf (nuOf ν τ) wD, τ n.name⟩,
      List.mem_map.2 ⟨n.name, List.mem_map.2 ⟨n, (hdo D).mem_iff.1 hn, rfl⟩, rfl⟩, fun u => ?_⟩
    rw [hconj n ((hdo D).mem_iff.1 hn)]
  · intro c hc
    obtain ⟨V, hV, rfl⟩ := List.mem_map.1 hc
    obtain ⟨n, hnD, rfl⟩ := List.mem_map.1 hV
    have hkey : atWorld n.name wD ∈ x.keys := by
      rw [hxeq, mem_keys_ofList]
      exact ⟨_, List.mem_map.2 ⟨n, (hdo D).mem_iff.2 hnD, rfl⟩, rfl⟩
    obtain ⟨v, hv⟩ := (mem_keys_iff x _).1 hkey
    refine ⟨conjunctOf (nuOf ν τ) (atWorld n.name wD, v), List.mem_map.2 ⟨_, hv, rfl⟩, fun u => ?_⟩
    rw [hxeq] at hv
    obtain ⟨n', hn'D, hn'⟩ := List.mem_map.1 ((Event.ofList_spec _).2 _ hv)
    simp only [Prod.mk.injEq] at hn'
    have hname : n'.name = n.name := by
      have := hn'.1
      simp only [atWorld, Var.mk.injEq] at this
      exact this.1
    rw [← hn'.2, ← hname, hconj n' ((hdo D).mem_iff.1 hn'D)]

end

end Y0.Cf

namespace Y0.Cf
open Relation MG Fscm

/-! ## lines 4–9 and the induction -/

/-- the names line 6 / line 9 sum over: the non-self-intervened variables that are not in the event -/
theorem free_spec {G : MG Name} {w : World} {s : Name → Bool} {ev : Event} {g : MG Var} {nev : Event}
    (facts : SWFacts G w s ev g nev)
    (cf : MG Var) (hcf : ∀ n, (n ∈ cf.nodes ∧ isNotSelfIntervened n = true) ↔ n ∈ (nsiSubgraph g).nodes) :
    let rs := (upgradeOrdering ((freeVariables cf nev).map Var.plain)).map (·.name)
    rs.Nodup ∧ ∀ V, V ∈ rs ↔ V ∈ (nsiSubgraph g).nodes.map (·.name) ∧ V ∉ ev.keys.map (·.name) := by
  intro rs
  obtain ⟨h1, h2⟩ := ranges_spec (freeVariables cf nev)
  refine ⟨h1, fun V => ?_⟩
  rw [h2 V]
  unfold freeVariables
  simp only [diff', List.mem_filter, mem_dedup', decide_eq_true_eq]
  have hk : V ∈ List.map (fun x => x.name) nev.keys ↔ V ∈ ev.keys.map (·.name) := facts.keyNames V
  constructor
  · rintro ⟨hV, hVk⟩
    refine ⟨?_, fun h => hVk (hk.2 h)⟩
    obtain ⟨n, hn, rfl⟩ := List.mem_map.1 hV
    rw [List.mem_filter] at hn
    exact List.mem_map.2 ⟨n, (hcf n).1 hn, rfl⟩
  · rintro ⟨hV, hVk⟩
    refine ⟨?_, fun h => hVk (hk.1 h)⟩
    obtain ⟨n, hn, rfl⟩ := List.mem_map.1 hV
    exact List.mem_map.2 ⟨n, List.mem_filter.2 ((hcf n).2 hn), rfl⟩

/-- a valuation reached by re-binding the variables `rs` agrees with the start outside `rs` -/
theorem assignments_agree (dom : Name → Nat) (rs : List Name) (σ τ : Valuation) (h : τ ∈ assignments dom rs σ) (n : Name)
    (hn : n ∉ rs) : τ n = σ n := by
  induction rs generalizing σ with
  | nil => simp only [assignments, List.mem_singleton] at h; rw [h]
  | cons r rs ih =>
    simp only [assignments, List.mem_flatMap, List.mem_range] at h
    obtain ⟨x, _, hx⟩ := h
    rw [ih _ hx (fun h' => hn (List.mem_cons_of_mem _ h'))]
    have : n ≠ r := fun e => hn (e ▸ List.mem_cons_self)
    simp [update, this]

/-- `Σ` only looks at the summand on the valuations it ranges over -/
theorem sumOver_congr_mem (dom : Name → Nat) (rs : List Name) (F F' : Valuation → Rat) (σ : Valuation)
    (h : ∀ τ ∈ assignments dom rs σ, F τ = F' τ) : sumOver dom rs F σ = sumOver dom rs F' σ := by
  unfold sumOver
  rw [List.map_congr_left h]

section
variable (M : Model) (ν : BaseValues) (dom : Name → Nat) {G : MG Name}

/-- what the recursion is assumed / shown to do on a single-world event: every reading `σ` of the free symbols that gives the
starred-valued keys and the variables with a starred subscript their starred values -/
def SoundOn (M : Model) (ν : BaseValues) (dom : Name → Nat) (w : World) (s : Name → Bool) (ev : Event) (e : Expr) : Prop :=
  ∀ σ : Valuation, (∀ k ∈ ev.keys, s k.name = true → σ k.name = ν k.name true) →
    (∀ i ∈ w, i.star = true → σ i.name = ν i.name true) → cden M ν dom e σ = probEvent M (nuOf ν σ) ev

theorem lines4to9_sound_sw (hM : Compatible M G) (hn : ∀ pmf ∈ M.noise, pmf.sum = 1)
    (hdom : ∀ v ps us, M.f v ps us < dom v) (hG : G.WF) (hdl : ∀ e ∈ G.di, e.1 ≠ e.2) (hbl : ∀ e ∈ G.bi, e.1 ≠ e.2)
    {ordf : List World → List World} (hord : PermOrder ordf) {dordf : List Var → List Var} (hdo : PermDistrict dordf)
    (rec : Event → Except Err Expr)
    (hrec : ∀ w' s' ev' e', Frag2 G w' s' ev' → SKeys s' ev' → violatesEffectiveness ev' = false → rec ev' = .ok e' →
      SoundOn M ν dom w' s' ev' e')
    (w : World) (s : Name → Bool) (ev : Event) (hfr : Frag2 G w s ev) (hsk : SKeys s ev) (hk : KeysNSI ev) (e : Expr)
    (h : idStarLines4to9 ordf dordf G rec ev = .ok e) : SoundOn M ν dom w s ev e := by
  intro σ hσk hσw
  unfold49 at h
  cases hcg : makeCounterfactualGraph ordf G ev with
  | error err => rw [hcg] at h; cases h
  | ok v =>
    rw [hcg] at h
    simp only at h
    rcases v with ⟨cf, new⟩
    obtain ⟨nev, rfl, facts⟩ := frag_facts hord hG hdl hbl hfr hk.1 hcg
    simp only at h
    have hwc : ConsistentSubs w := frag2_consistent hfr hk.1
    have hkeysnsi : ∀ k ∈ nev.keys, isNotSelfIntervened k = true := by
      obtain ⟨⟨_, hnsi⟩, _⟩ := cg_event_inv hord.good hcg hk hfr.good.ok
      intro k hkk
      obtain ⟨v, hv⟩ := (mem_keys_iff nev k).1 hkk
      exact hnsi _ hv
    have hT : ∀ V, V ∈ (nsiSubgraph cf).nodes.map (·.name) ↔ ∃ n ∈ (nsiSubgraph cf).nodes, n.name = V := by
      intro V; simp only [List.mem_map]
    -- the names of the non-self-intervened nodes are not named by the world
    have hnotW : ∀ V ∈ (nsiSubgraph cf).nodes.map (·.name), V ∉ w.map (·.name) := by
      intro V hV
      obtain ⟨n, hnN, rfl⟩ := List.mem_map.1 hV
      obtain ⟨hng, hnsi⟩ := (mem_nsiSubgraph_iff cf n).1 hnN
      exact facts.notW n hng hnsi
    -- a valuation reached by re-binding the free variables still reads the keys and the world as `σ` does
    have hτ : ∀ rs : List Name, (∀ V, V ∈ rs → V ∈ (nsiSubgraph cf).nodes.map (·.name) ∧ V ∉ ev.keys.map (·.name)) →
        ∀ τ ∈ assignments dom rs σ, (∀ k ∈ ev.keys, s k.name = true → τ k.name = ν k.name true) ∧
          (∀ i ∈ w, i.star = true → τ i.name = ν i.name true) := by
      intro rs hrs τ hτm
      constructor
      · intro k hkk hs
        rw [assignments_agree dom rs σ τ hτm k.name (fun h' => (hrs _ h').2 (List.mem_map.2 ⟨k, hkk, rfl⟩))]
        exact hσk k hkk hs
      · intro i hi hs
        rw [assignments_agree dom rs σ τ hτm i.name (fun h' => hnotW _ (hrs _ h').1 (List.mem_map.2 ⟨i, hi, rfl⟩))]
        exact hσw i hi hs
    cases hc : isConnected (nsiSubgraph cf) with
    | error err => rw [hc] at h; cases h
    | ok c =>
      rw [hc] at h
      simp only at h
      split at h
      · -- line 6
        cases hevs : eventsOfEachDistrict dordf cf nev with
        | error err => rw [hevs] at h; cases h
        | ok evs =>
          rw [hevs] at h
          simp only at h
          split at h
          · cases h
          · cases hm : evs.mapM rec with
            | error err => rw [hm] at h; cases h
            | ok fs =>
              rw [hm] at h
              simp only [Except.ok.injEq] at h
              subst h
              obtain ⟨hrsnd, hrsm⟩ := free_spec facts cf (fun n => ((mem_nsiSubgraph_iff cf n)).symm)
              rw [cden_sumSafe]
              rw [← sumOver_world M ν dom hM hdom facts hfr hkeysnsi _ hT _ hrsnd hrsm σ hσk]
              apply sumOver_congr_mem
              intro τ hτm
              obtain ⟨hτk, hτw⟩ := hτ _ (fun V hV => (hrsm V).1 hV) τ hτm
              -- the starred-valued nodes of the graph are keys
              have hτn : ∀ n ∈ (nsiSubgraph cf).nodes, s n.name = true → τ n.name = ν n.name true := by
                intro n hnN hs
                obtain ⟨k, hkk, hkn⟩ := List.mem_map.1 (hsk n.name hs)
                rw [← hkn]
                exact hτk k hkk (by rw [hkn]; exact hs)
              have hwfn := wf_nsiSubgraph cf
              rw [cden_productSafe]
              -- factor by factor
              have hstep1 : fs.map (fun f => cden M ν dom f τ) = evs.map (fun x => probEvent M (nuOf ν τ) x) := by
                apply mapM_map_eq rec evs fs hm
                intro x hx f hf
                -- `x` is the event of some district
                have hxD : ∃ D ∈ (nsiSubgraph cf).districts, eventsOfDistrict cf (dordf D) nev = .ok x := by
                  unfold eventsOfEachDistrict at hevs
                  exact mapM_ok_mem _ _ _ hevs x hx
                obtain ⟨D, hD, hDx⟩ := hxD
                obtain ⟨pillow, _, _, hfrx, hwU, hnoself, hkD⟩ :=
                  frag_of_district hord hdo hG hdl hbl hfr.good hcg facts.toD (sKeys_nev facts hsk) hkeysnsi hevs D hD x hDx
                refine hrec _ _ x f (frag2_restrictS hfrx) (sKeys_restrictS s x)
                  (violates_false_of_noSelf hfrx.keysIn hfrx.good.ok.names hnoself) hf τ ?_ ?_
                · intro k hkx hs
                  obtain ⟨n, hnD, hnk⟩ := List.mem_map.1 (hkD k hkx)
                  rw [← hnk]
                  exact hτn n ((districts_cover _ hwfn n).2 ⟨D, hD, hnD⟩) (by rw [hnk]; exact restrictS_true hs)
                · intro i hi hs
                  rw [hwU i hi] at hs
                  cases hs
              have hstep2 : evs.map (fun x => probEvent M (nuOf ν τ) x) =
                  (nsiSubgraph cf).districts.map (fun D => mass M.noise (fun u => (D.map (·.name)).all (localOK M τ u))) := by
                unfold eventsOfEachDistrict at hevs
                apply mapM_map_eq _ _ _ hevs
                intro D hD x hDx
                have hevs' : eventsOfEachDistrict dordf cf nev = .ok evs := hevs
                obtain ⟨pillow, hp, hxeq, _⟩ :=
                  frag_of_district hord hdo hG hdl hbl hfr.good hcg facts.toD (sKeys_nev facts hsk) hkeysnsi hevs' D hD x hDx
                exact probEvent_district M ν hM facts.toD hdo D hD pillow hp x hxeq
                  (fun n hnD => nodeEvent_district facts.toD (sKeys_nev facts hsk) hkeysnsi n ((districts_cover _ hwfn n).2 ⟨D, hD, hnD⟩)) τ
                  (fun n hnD => hτn n ((districts_cover _ hwfn n).2 ⟨D, hD, hnD⟩))
              rw [hstep1, hstep2, ← mass_districts M hM hn facts.toD _ hT τ]
              rw [prob_eq_local M hM.topoOrder _ τ _
                (localSet_world M ν hM facts hwc _ hT w (fun _ h => h) (fun _ _ h => h) τ hτw)]
      · split at h
        · cases h
        · -- line 9
          cases h9 : line9 (nsiSubgraph cf) with
          | error err => rw [h9] at h; cases h
          | ok e9 =>
            rw [h9] at h
            simp only [Except.ok.injEq] at h
            subst h
            have hsubnodes : ∀ n, (n ∈ (nsiSubgraph cf).nodes ∧ isNotSelfIntervened n = true) ↔ n ∈ (nsiSubgraph cf).nodes :=
              fun n => ⟨fun h => h.1, fun h => ⟨h, ((mem_nsiSubgraph_iff cf n).1 h).2⟩⟩
            obtain ⟨hrsnd, hrsm⟩ := free_spec facts (nsiSubgraph cf) hsubnodes
            rw [cden_sumSafe]
            rw [← sumOver_world M ν dom hM hdom facts hfr hkeysnsi _ hT _ hrsnd hrsm σ hσk]
            apply sumOver_congr_mem
            intro τ hτm
            obtain ⟨_, hτw⟩ := hτ _ (fun V hV => (hrsm V).1 hV) τ hτm
            exact line9_leaf M ν dom hM facts hwc e9 h9 τ hτw

/-- **ID\* is sound on single-world events under the reading `cden`** (all fuels, all polarities, all readings of the free symbols
that give the starred-valued keys and the variables with a starred subscript their starred values) -/
theorem idStarFuel_sound_sw (hM : Compatible M G) (hn : ∀ pmf ∈ M.noise, pmf.sum = 1)
    (hdom : ∀ v ps us, M.f v ps us < dom v) (hG : G.WF) (hdl : ∀ e ∈ G.di, e.1 ≠ e.2) (hbl : ∀ e ∈ G.bi, e.1 ≠ e.2)
    {ordf : List World → List World} (hord : PermOrder ordf) {dordf : List Var → List Var} (hdo : PermDistrict dordf) :
    ∀ (fuel : Nat) (w : World) (s : Name → Bool) (ev : Event) (e : Expr), Frag2 G w s ev → SKeys s ev →
      violatesEffectiveness ev = false → idStarFuel ordf dordf G fuel ev = .ok e → SoundOn M ν dom w s ev e := by
  intro fuel
  induction fuel with
  | zero => intro w s ev e _ _ _ h; simp only [idStarFuel] at h; cases h
  | succ fuel ih =>
    intro w s ev e hfr hsk hviol h
    simp only [idStarFuel] at h
    unfold idStarBody at h
    split at h
    · rename_i hemp
      simp only [Except.ok.injEq] at h
      subst h
      have : ev = [] := by simpa using hemp
      subst this
      intro σ _ _
      simp only [cden, probEvent, List.map_nil]
      exact (prob_nil M hn).symm
    · rename_i hne
      rw [hviol] at h
      simp only [Bool.false_eq_true, ↓reduceIte] at h
      split at h
      · -- line 3
        intro σ hσk hσw
        have hfr' := frag2_removeTautologies hfr
        rw [ih w _ _ e (frag2_restrictS hfr') (sKeys_restrictS s _) (violates_removeTautologies' ev hviol) h σ
          (fun k hkk hs => hσk k (keys_removeTautologies ev k hkk) (restrictS_true hs)) hσw]
        exact probEvent_removeTautologies M _ ev (frag2_eventWF M hM hfr)
      · rename_i h3
        have hk : KeysNSI ev := keysNSI_of_lines123 ev (by intro h0; simp [h0] at hne) hviol
          (eqv_true_of_not _ _ h3) hfr.good.ok
        exact lines4to9_sound_sw M ν dom hM hn hdom hG hdl hbl hord hdo _
          (fun w' s' ev' e' hfr' hsk' hv' h' => ih w' s' ev' e' hfr' hsk' hv' h') w s ev hfr hsk hk e h

/-- **ID\* is sound on the unstarred fragment** (all fuels, all readings of the free symbols) -/
theorem idStarFuel_sound_frag (hM : Compatible M G) (hn : ∀ pmf ∈ M.noise, pmf.sum = 1)
    (hdom : ∀ v ps us, M.f v ps us < dom v) (hG : G.WF) (hdl : ∀ e ∈ G.di, e.1 ≠ e.2) (hbl : ∀ e ∈ G.bi, e.1 ≠ e.2)
    {ordf : List World → List World} (hord : PermOrder ordf) {dordf : List Var → List Var} (hdo : PermDistrict dordf) :
    ∀ (fuel : Nat) (w : World) (ev : Event) (e : Expr), Frag G w ev → idStarFuel ordf dordf G fuel ev = .ok e →
      ∀ σ, cden M ν dom e σ = probEvent M (nuOf ν σ) ev := by
  intro fuel w ev e hfr h σ
  refine idStarFuel_sound_sw M ν dom hM hn hdom hG hdl hbl hord hdo fuel w (fun _ => false) ev e hfr.to2
    (fun _ hn => by cases hn) (frag_no_violation hfr) h σ (fun _ _ hs => by cases hs) ?_
  intro i hi hs
  rw [hfr.wUnst i hi] at hs
  cases hs

end

end Y0.Cf

namespace Y0.Cf
open Relation MG Fscm

/-! ## on a single-world event ID* never refuses -/

/-- no conflict (line 8) on a single-world event whose keys are not named in the world: every subscript in sight is a subscript
of the one world `w`, and no value concerns a variable that `w` names -/
theorem conflicts_nil_sw (sub : MG Var) (nev : Event) (w : World) (hwc : ConsistentSubs w)
    (h1 : ∀ n ∈ sub.nodes, ∀ i ∈ n.ivs, i ∈ w) (h2 : ∀ p ∈ nev, p.2.name = p.1.name)
    (h3 : ∀ k ∈ nev.keys, (∀ i ∈ k.ivs, i ∈ w) ∧ k.name ∉ w.map (·.name)) : conflicts sub nev = [] := by
  unfold conflicts
  rw [List.flatMap_eq_nil_iff]
  intro i hi
  have hiw : i ∈ w := by
    unfold cfInterventions at hi
    rw [mem_dedup', List.mem_flatMap] at hi
    obtain ⟨n, hn, hin⟩ := hi
    exact h1 n hn i hin
  rw [List.map_eq_nil_iff, List.filter_eq_nil_iff]
  intro e he
  unfold evidence at he
  rw [mem_dedup', List.mem_append] at he
  simp only [Bool.and_eq_true, beq_iff_eq, bne_iff_ne, ne_eq, not_and, not_not]
  intro hname
  rcases he with he | he
  · obtain ⟨p, hp, rfl⟩ := List.mem_map.1 he
    have hk : p.1 ∈ nev.keys := (mem_keys_iff nev p.1).2 ⟨p.2, hp⟩
    exfalso
    apply (h3 p.1 hk).2
    rw [← h2 p hp, ← hname]
    exact List.mem_map.2 ⟨i, hiw, rfl⟩
  · unfold cfInterventions at he
    rw [mem_dedup', List.mem_flatMap] at he
    obtain ⟨k, hk, hik⟩ := he
    rw [hwc i hiw e ((h3 k hk).1 e hik) hname]

theorem conflicts_nil_of_unst (sub : MG Var) (nev : Event) (h1 : ∀ n ∈ sub.nodes, ∀ i ∈ n.ivs, i.star = false)
    (h2 : Unst nev) (h3 : ∀ k ∈ nev.keys, ∀ i ∈ k.ivs, i.star = false) : conflicts sub nev = [] := by
  unfold conflicts
  rw [List.flatMap_eq_nil_iff]
  intro i hi
  have his : i.star = false := by
    unfold cfInterventions at hi
    rw [mem_dedup', List.mem_flatMap] at hi
    obtain ⟨n, hn, hin⟩ := hi
    exact h1 n hn i hin
  rw [List.map_eq_nil_iff, List.filter_eq_nil_iff]
  intro e he
  have hes : e.star = false := by
    unfold evidence at he
    rw [mem_dedup', List.mem_append] at he
    rcases he with he | he
    · obtain ⟨p, hp, rfl⟩ := List.mem_map.1 he
      rw [h2 p hp]
    · unfold cfInterventions at he
      rw [mem_dedup', List.mem_flatMap] at he
      obtain ⟨k, hk, hik⟩ := he
      exact h3 k hk e hik
  simp [his, hes]

theorem lines4to9_not_unid_sw {G : MG Name} (hG : G.WF) (hdl : ∀ e ∈ G.di, e.1 ≠ e.2) (hbl : ∀ e ∈ G.bi, e.1 ≠ e.2)
    {ordf : List World → List World} (hord : PermOrder ordf) {dordf : List Var → List Var} (hdo : PermDistrict dordf)
    (rec : Event → Except Err Expr)
    (hrec : ∀ w' s' ev', Frag2 G w' s' ev' → violatesEffectiveness ev' = false → rec ev' ≠ .error .unidentifiable)
    (w : World) (s : Name → Bool) (ev : Event) (hfr : Frag2 G w s ev) (hsk : SKeys s ev) (hk : KeysNSI ev) :
    idStarLines4to9 ordf dordf G rec ev ≠ .error .unidentifiable := by
  intro h
  unfold49 at h
  cases hcg : makeCounterfactualGraph ordf G ev with
  | error err =>
    rw [hcg] at h
    simp only [Except.error.injEq] at h
    subst h
    have ht := (cg_error_iff_cyclic ordf G ev _).1 hcg
    by_cases hA : G.Acyclic
    · obtain ⟨l, hl⟩ := MG.topologicalSort_total G hG hA
      rw [hl] at ht; cases ht
    · rw [MG.topologicalSort_cyclic G hG hA] at ht
      cases ht
  | ok v =>
    rw [hcg] at h
    simp only at h
    rcases v with ⟨cf, new⟩
    obtain ⟨nev, rfl, facts⟩ := frag_facts hord hG hdl hbl hfr hk.1 hcg
    simp only at h
    have hkeysnsi : ∀ k ∈ nev.keys, isNotSelfIntervened k = true := by
      obtain ⟨⟨_, hnsi⟩, _⟩ := cg_event_inv hord.good hcg hk hfr.good.ok
      intro k hkk
      obtain ⟨v, hv⟩ := (mem_keys_iff nev k).1 hkk
      exact hnsi _ hv
    cases hc : isConnected (nsiSubgraph cf) with
    | error err =>
      rw [hc] at h
      simp only [Except.error.injEq] at h
      subst h
      have := isConnected_error _ _ hc
      cases this
    | ok c =>
      rw [hc] at h
      simp only at h
      split at h
      · cases hevs : eventsOfEachDistrict dordf cf nev with
        | error err =>
          obtain ⟨evs, hevs', _⟩ := eventsOfEachDistrict_ok hdo.subset cf nev
          rw [hevs'] at hevs; cases hevs
        | ok evs =>
          rw [hevs] at h
          simp only at h
          split at h
          · cases h
          · cases hm : evs.mapM rec with
            | error err =>
              rw [hm] at h
              simp only [Except.error.injEq] at h
              subst h
              obtain ⟨x, hx, hxe⟩ := mapM_error _ _ _ hm
              have hxD : ∃ D ∈ (nsiSubgraph cf).districts, eventsOfDistrict cf (dordf D) nev = .ok x := by
                unfold eventsOfEachDistrict at hevs
                exact mapM_ok_mem _ _ _ hevs x hx
              obtain ⟨D, hD, hDx⟩ := hxD
              obtain ⟨pillow, _, _, hfrx, _, hnoself, _⟩ :=
                frag_of_district hord hdo hG hdl hbl hfr.good hcg facts.toD (sKeys_nev facts hsk) hkeysnsi hevs D hD x hDx
              exact hrec _ _ x hfrx (violates_false_of_noSelf hfrx.keysIn hfrx.good.ok.names hnoself) hxe
            | ok fs => rw [hm] at h; cases h
      · split at h
        · rename_i hconf
          -- a conflict needs two subscript sets, or a value of a variable the world names
          have : conflicts (nsiSubgraph cf) nev = [] := by
            have hshape : ∀ n ∈ cf.nodes, ∀ i ∈ n.ivs, i ∈ w := by
              intro n hn i hi
              rcases facts.shape n hn with h | h
              · rw [h] at hi; cases hi
              · rw [h] at hi; exact hi
            apply conflicts_nil_sw _ _ w (frag2_consistent hfr hk.1) _ facts.nevOK.names
            · intro k hkk
              exact ⟨hshape k (facts.keysNodes k hkk), facts.notW k (facts.keysNodes k hkk) (hkeysnsi k hkk)⟩
            · intro n hn
              exact hshape n ((mem_nsiSubgraph_iff cf n).1 hn).1
          rw [this] at hconf
          simp at hconf
        · cases h9 : line9 (nsiSubgraph cf) with
          | error err =>
            have hne : (nsiSubgraph cf).nodes ≠ [] := cg_nsi_nonempty hord.good hcg hk hfr.good.ok
            obtain ⟨e9, he9⟩ := line9_ok _ hne
            rw [he9] at h9; cases h9
          | ok e9 => rw [h9] at h; cases h

/-- **on a single-world event ID\* never refuses** (any polarity of values and subscripts) -/
theorem idStarFuel_not_unid_sw {G : MG Name} (hG : G.WF) (hdl : ∀ e ∈ G.di, e.1 ≠ e.2) (hbl : ∀ e ∈ G.bi, e.1 ≠ e.2)
    {ordf : List World → List World} (hord : PermOrder ordf) {dordf : List Var → List Var} (hdo : PermDistrict dordf) :
    ∀ (fuel : Nat) (w : World) (s : Name → Bool) (ev : Event), Frag2 G w s ev → violatesEffectiveness ev = false →
      idStarFuel ordf dordf G fuel ev ≠ .error .unidentifiable := by
  intro fuel
  induction fuel with
  | zero => intro w s ev _ _ h; simp only [idStarFuel] at h; cases h
  | succ fuel ih =>
    intro w s ev hfr hviol h
    simp only [idStarFuel] at h
    unfold idStarBody at h
    split at h
    · cases h
    · rename_i hne
      rw [hviol] at h
      simp only [Bool.false_eq_true, ↓reduceIte] at h
      split at h
      · exact ih w s _ (frag2_removeTautologies hfr) (violates_removeTautologies' ev hviol) h
      · rename_i h3
        have hk : KeysNSI ev := keysNSI_of_lines123 ev (by intro h0; simp [h0] at hne) hviol
          (eqv_true_of_not _ _ h3) hfr.good.ok
        exact lines4to9_not_unid_sw hG hdl hbl hord hdo _ (fun w' s' ev' hfr' hv' => ih w' s' ev' hfr' hv') w _ ev
          (frag2_restrictS hfr) (sKeys_restrictS s ev) hk h

theorem idStarFuel_not_unid_frag {G : MG Name} (hG : G.WF) (hdl : ∀ e ∈ G.di, e.1 ≠ e.2) (hbl : ∀ e ∈ G.bi, e.1 ≠ e.2)
    {ordf : List World → List World} (hord : PermOrder ordf) {dordf : List Var → List Var} (hdo : PermDistrict dordf) :
    ∀ (fuel : Nat) (w : World) (ev : Event), Frag G w ev → idStarFuel ordf dordf G fuel ev ≠ .error .unidentifiable :=
  fun fuel w ev hfr => idStarFuel_not_unid_sw hG hdl hbl hord hdo fuel w _ ev hfr.to2 (frag_no_violation hfr)

end Y0.Cf
