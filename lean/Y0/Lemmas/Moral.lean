/- helper lemmas for `moralize` (co-parent pairs) -/
import Y0.Lemmas.Closure
namespace Y0.MG
variable {α : Type} [DecidableEq α]
open Relation

theorem mem_parents_iff (G : MG α) (a b : α) : b ∈ G.parents a ↔ G.DiEdge b a := by
  simp only [parents, DiEdge, List.mem_map, List.mem_filter, decide_eq_true_eq]
  constructor
  · rintro ⟨⟨x, y⟩, ⟨h, rfl⟩, rfl⟩; exact h
  · intro h; exact ⟨(b, a), ⟨h, rfl⟩, rfl⟩


omit [DecidableEq α] in
theorem mem_pairs (l : List α) (x y : α) :
    (x, y) ∈ pairs l → x ∈ l ∧ y ∈ l := by
  induction l with
  | nil => simp [pairs]
  | cons a l ih =>
    simp only [pairs, List.mem_append, List.mem_map, Prod.mk.injEq, List.mem_cons]
    rintro (⟨b, hb, rfl, rfl⟩ | h)
    · exact ⟨Or.inl rfl, Or.inr hb⟩
    · exact ⟨Or.inr (ih h).1, Or.inr (ih h).2⟩

omit [DecidableEq α] in
theorem pairs_complete (l : List α) (x y : α) (hx : x ∈ l) (hy : y ∈ l) (hxy : x ≠ y) :
    (x, y) ∈ pairs l ∨ (y, x) ∈ pairs l := by
  induction l with
  | nil => cases hx
  | cons a l ih =>
    simp only [pairs, List.mem_append, List.mem_map, Prod.mk.injEq]
    rcases List.mem_cons.mp hx with rfl | hx' <;> rcases List.mem_cons.mp hy with rfl | hy'
    · exact absurd rfl hxy
    · exact Or.inl (Or.inl ⟨y, hy', rfl, rfl⟩)
    · exact Or.inr (Or.inl ⟨x, hx', rfl, rfl⟩)
    · rcases ih hx' hy' with h | h
      · exact Or.inl (Or.inr h)
      · exact Or.inr (Or.inr h)

theorem mem_moralLinks (G : MG α) (x y : α) :
    (x, y) ∈ G.moralLinks → ∃ n ∈ G.nodes, G.DiEdge x n ∧ G.DiEdge y n := by
  simp only [moralLinks, List.mem_flatMap]
  rintro ⟨n, hn, h⟩
  have := mem_pairs _ _ _ h
  rw [mem_parents_iff, mem_parents_iff] at this
  exact ⟨n, hn, this⟩

theorem moralLinks_complete (G : MG α) (x y n : α) (hn : n ∈ G.nodes) (hx : G.DiEdge x n) (hy : G.DiEdge y n)
    (hxy : x ≠ y) : (x, y) ∈ G.moralLinks ∨ (y, x) ∈ G.moralLinks := by
  simp only [moralLinks, List.mem_flatMap]
  rcases pairs_complete (G.parents n) x y ((mem_parents_iff G n x).mpr hx) ((mem_parents_iff G n y).mpr hy) hxy with h | h
  · exact Or.inl ⟨n, hn, h⟩
  · exact Or.inr ⟨n, hn, h⟩

theorem nodup_parents (G : MG α) (hd : G.di.Nodup) (n : α) : (G.parents n).Nodup := by
  unfold parents
  refine List.Nodup.map_on ?_ (hd.filter _)
  intro x hx y hy hxy
  simp only [List.mem_filter, decide_eq_true_eq] at hx hy
  exact Prod.ext hxy (hx.2.trans hy.2.symm)

omit [DecidableEq α] in
theorem mem_pairs_ne (l : List α) (hl : l.Nodup) (x y : α) (h : (x, y) ∈ pairs l) : x ≠ y := by
  induction l with
  | nil => simp [pairs] at h
  | cons a l ih =>
    rw [List.nodup_cons] at hl
    simp only [pairs, List.mem_append, List.mem_map, Prod.mk.injEq] at h
    rcases h with ⟨b, hb, rfl, rfl⟩ | h
    · exact fun e => hl.1 (e ▸ hb)
    · exact ih hl.2 h

theorem moralLinks_ne (G : MG α) (hd : G.di.Nodup) (x y : α) (h : (x, y) ∈ G.moralLinks) : x ≠ y := by
  simp only [moralLinks, List.mem_flatMap] at h
  obtain ⟨n, _, h⟩ := h
  exact mem_pairs_ne _ (nodup_parents G hd n) x y h

end Y0.MG
