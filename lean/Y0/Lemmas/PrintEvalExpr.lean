/-
  Y0.Lemmas.PrintEvalExpr — evaluating the operator tree of a built expression of the simple-division family with
  the DSL's operators (`*`, `/`, `Sum[…]`, `Q[…]`, `One()`, `Zero()`) rebuilds the very same object.
-/
import Y0.Lemmas.PrintEval
import Y0.Lemmas.PrintExpr

namespace Y0
namespace PyEval
open Print

variable (lt : Expr → Expr → Bool)

/-! ### tuples of variables (`Sum[…]`, `Q[…]`) -/

theorem eval_var_tuple (vs : List Var) (hne : vs ≠ []) (hall : vs.all canonVar = true) :
    ∃ val, eval lt (PyParse.tupleOf (vs.map astVar)) = .ok val ∧ hintVars val = .ok vs := by
  have hv : ∀ v ∈ vs, eval lt (astVar v) = .ok (.var v) :=
    fun v hv => eval_astVar lt v (List.all_eq_true.mp hall v hv)
  match vs, hne with
  | [v], _ => exact ⟨_, hv v (by simp), rfl⟩
  | v :: w :: r, _ =>
    refine ⟨.tuple ((v :: w :: r).map Val.var), ?_, ?_⟩
    · simp only [PyParse.tupleOf, List.map_cons, eval]
      have := evalList_map lt astVar Val.var (v :: w :: r) hv
      simp only [List.map_cons] at this
      rw [this]
      rfl
    · simpa [hintVars] using mapM_asVar_vars (v :: w :: r)

theorem canonVar_of_plain {v : Var} (h : plainVar v = true) : canonVar v = true := by
  unfold plainVar at h
  simp only [Bool.and_eq_true, Option.isNone_iff_eq_none, Bool.not_eq_true', List.isEmpty_iff] at h
  obtain ⟨⟨h1, h2⟩, h3⟩ := h
  simp [canonVar, h1, h2, h3, incBy]

/-! ### products -/

/-- a factor the operators leave in a product: a probability, a sum or a Q factor -/
def atomic (f : Expr) : Bool := !isProd f && !isOne f && !isZero f && !isFrac f

theorem noDescent_append_left {α} (lt : α → α → Bool) : ∀ (l r : List α), noDescent lt (l ++ r) = true → noDescent lt l = true
  | [], _, _ => rfl
  | [x], _, _ => rfl
  | x :: y :: l, r, h => by
    simp only [List.cons_append, noDescent, Bool.and_eq_true] at h ⊢
    exact ⟨h.1, noDescent_append_left lt (y :: l) r h.2⟩

theorem productSafe_atomic (l : List Expr) (hlen : 2 ≤ l.length) (hat : ∀ f ∈ l, atomic f = true)
    (hs : noDescent lt l = true) : productSafe lt l = .prod l := by
  unfold productSafe
  have hf : l.filter (fun e => !isOne e) = l := by
    rw [List.filter_eq_self]
    intro f hf
    have := hat f hf
    simp only [atomic, Bool.and_eq_true, Bool.not_eq_true'] at this
    simp [this.1.1.2]
  have hz : l.any isZero = false := by
    rw [List.any_eq_false]
    intro f hf
    have := hat f hf
    simp only [atomic, Bool.and_eq_true, Bool.not_eq_true'] at this
    simp [this.1.2]
  simp only [hf, hz, Bool.false_eq_true, if_false]
  match l, hlen with
  | a :: b :: r, _ => simp [sortBy_fix lt _ hs]

theorem mul_atomic (f g : Expr) (hf : atomic f = true) (hg : atomic g = true) :
    mul lt f g = .ok (productSafe lt [f, g]) := by
  cases f <;> simp [atomic, isProd, isOne, isZero, isFrac] at hf <;>
    cases g <;> simp [atomic, isProd, isOne, isZero, isFrac] at hg <;> rfl

theorem mul_prod_atomic (pre : List Expr) (g : Expr) (hg : atomic g = true) :
    mul lt (.prod pre) g = .ok (productSafe lt (pre ++ [g])) := by
  cases g <;> simp [atomic, isProd, isOne, isZero, isFrac] at hg <;> rfl

/-- `((acc * g₁) * g₂) * …` -/
def mulFold (acc : Expr) : List Expr → E Expr
  | [] => .ok acc
  | g :: gs => match mul lt acc g with
    | .ok a => mulFold a gs
    | .error e => .error e

theorem mulFold_prod : ∀ (gs pre : List Expr), 2 ≤ pre.length → (∀ f ∈ pre ++ gs, atomic f = true) →
    noDescent lt (pre ++ gs) = true → mulFold lt (.prod pre) gs = .ok (.prod (pre ++ gs))
  | [], pre, _, _, _ => by simp [mulFold]
  | g :: gs, pre, hlen, hat, hs => by
    have hs' : noDescent lt (pre ++ [g]) = true := by
      have : pre ++ g :: gs = (pre ++ [g]) ++ gs := by simp
      rw [this] at hs
      exact noDescent_append_left lt _ _ hs
    have hat' : ∀ f ∈ pre ++ [g], atomic f = true := by
      intro f hf
      apply hat f
      simp only [List.mem_append, List.mem_cons, List.not_mem_nil, or_false] at hf ⊢
      rcases hf with h | h
      · exact Or.inl h
      · exact Or.inr (Or.inl h)
    rw [mulFold, mul_prod_atomic lt pre g (hat g (by simp)),
      productSafe_atomic lt (pre ++ [g]) (by simp; omega) hat' hs']
    have := mulFold_prod gs (pre ++ [g]) (by simp; omega) (by simpa using hat) (by simpa using hs)
    simpa using this

theorem mulFold_atomic (f g : Expr) (gs : List Expr) (hat : ∀ x ∈ f :: g :: gs, atomic x = true)
    (hs : noDescent lt (f :: g :: gs) = true) : mulFold lt f (g :: gs) = .ok (.prod (f :: g :: gs)) := by
  have hs2 : noDescent lt [f, g] = true := noDescent_append_left lt [f, g] gs (by simpa using hs)
  rw [mulFold, mul_atomic lt f g (hat f (by simp)) (hat g (by simp)),
    productSafe_atomic lt [f, g] (by simp) (fun x hx => hat x (by
      simp only [List.mem_cons, List.not_mem_nil, or_false] at hx ⊢
      rcases hx with h | h
      · exact Or.inl h
      · exact Or.inr (Or.inl h))) hs2]
  exact mulFold_prod lt gs [f, g] (by simp) (by simpa using hat) (by simpa using hs)

theorem eval_foldl_error (e : Err) : ∀ (gs : List Expr) (a : Ast), eval lt a = .error e →
    eval lt (gs.foldl (fun a g => .bin .mul a (astOf g)) a) = .error e
  | [], _, h => h
  | g :: gs, a, h => by
    simp only [List.foldl_cons]
    apply eval_foldl_error e gs
    simp only [eval, h, bind, Except.bind]

theorem eval_mulFold : ∀ (gs : List Expr) (accA : Ast) (accE : Expr), eval lt accA = .ok (.expr accE) →
    (∀ g ∈ gs, eval lt (astOf g) = .ok (.expr g)) →
    eval lt (gs.foldl (fun a g => .bin .mul a (astOf g)) accA) =
      (match mulFold lt accE gs with | .ok r => .ok (.expr r) | .error e => .error e)
  | [], accA, accE, h, _ => by simpa [mulFold] using h
  | g :: gs, accA, accE, h, hg => by
    simp only [List.foldl_cons, mulFold]
    cases hm : mul lt accE g with
    | error e =>
      have hstep : eval lt (.bin .mul accA (astOf g)) = .error e := by
        simp only [eval, h, hg g (by simp), bind, Except.bind, binop, hm]
      simpa using eval_foldl_error lt e gs _ hstep
    | ok a =>
      have hstep : eval lt (.bin .mul accA (astOf g)) = .ok (.expr a) := by
        simp only [eval, h, hg g (by simp), bind, Except.bind, binop, hm]
        rfl
      exact eval_mulFold gs _ a hstep (fun x hx => hg x (by simp [hx]))

/-! ### the families -/

theorem divFreeAll_iff (fs : List Expr) : divFreeAll fs = true ↔ ∀ f ∈ fs, divFree f = true := by
  induction fs with
  | nil => simp [divFreeAll]
  | cons f fs ih => simp [divFreeAll, ih]

theorem simpleFactors_iff (fs : List Expr) : simpleFactors fs = true ↔ ∀ f ∈ fs, isFrac f = false ∧ simple f = true := by
  induction fs with
  | nil => simp [simpleFactors]
  | cons f fs ih => simp [simpleFactors, ih, and_assoc]

theorem builtFactors_iff (fs : List Expr) : builtFactors lt fs = true ↔
    ∀ f ∈ fs, built lt f = true ∧ isProd f = false ∧ isOne f = false ∧ isZero f = false := by
  induction fs with
  | nil => simp [builtFactors]
  | cons f fs ih => simp [builtFactors, ih, and_assoc]

theorem divFree_not_frac {e : Expr} (h : divFree e = true) : isFrac e = false := by
  cases e <;> simp [divFree, isFrac] at h ⊢

theorem divFree_simple : ∀ e, divFree e = true → simple e = true := by
  apply Expr.ind
  · intro _ _ _ _; rfl
  · intro fs ih h
    simp only [divFree] at h
    simp only [simple]
    rw [simpleFactors_iff]
    intro f hf
    have hd := (divFreeAll_iff fs).mp h f hf
    exact ⟨divFree_not_frac hd, ih f hf hd⟩
  · intro e rs ih h
    simp only [divFree] at h
    simpa [simple] using ih h
  · intro n d _ _ h; simp [divFree] at h
  · intro _; rfl
  · intro _; rfl
  · intro _ _ _; rfl

theorem div_simple (n d : Expr) (hn : divFree n = true) (hd : divFree d = true) (hn0 : isZero n = false)
    (hd1 : isOne d = false) (hd0 : isZero d = false) : div lt n d = .ok (.frac n d) := by
  cases n <;> simp [divFree, isZero] at hn hn0 <;>
    cases d <;> simp [divFree, isZero, isOne] at hd hd1 hd0 <;> rfl

/-! ### one evaluation step per constructor (shared by the object-equality and the meaning theorems) -/

theorem eval_prob_step (pop : Option Var) (c p : List Var) (hb : built lt (.prob pop c p) = true) :
    eval lt (astOf (.prob pop c p)) = .ok (.expr (.prob pop c p)) := by
  simp only [built, Bool.and_eq_true, Bool.not_eq_true', List.isEmpty_iff] at hb
  obtain ⟨⟨⟨⟨⟨hne, hc⟩, hp⟩, hcc⟩, hpc⟩, hpop⟩ := hb
  have hne' : c ≠ [] := by
    intro h0; rw [h0] at hne; simp at hne
  simpa [astOf] using eval_astProb lt pop c p hne' hc hp hcc hpc hpop

/-- `Sum[rs](e)` evaluates to the `Sum` of whatever (non-`Zero`) object the body evaluates to -/
theorem eval_sum_step (e e' : Expr) (rs : List Var) (hne : rs.isEmpty = false) (hinc : incBy Var.name rs = true)
    (hplain : rs.all plainVar = true) (he : eval lt (astOf e) = .ok (.expr e')) (hz : isZero e' = false) :
    eval lt (astOf (.sum e rs)) = .ok (.expr (.sum e' rs)) := by
  have hne' : rs ≠ [] := by
    intro h0; rw [h0] at hne; simp at hne
  have hcan : rs.all canonVar = true := by
    rw [List.all_eq_true] at hplain ⊢
    intro v hv; exact canonVar_of_plain (hplain v hv)
  obtain ⟨val, hval, hhint⟩ := eval_var_tuple lt rs hne' hcan
  have hany : rs.any (fun r => r.isIv || !r.ivs.isEmpty) = false := by
    rw [List.any_eq_false]
    intro v hv
    have := List.all_eq_true.mp hplain v hv
    simp only [plainVar, Bool.and_eq_true, Bool.not_eq_true', List.isEmpty_iff] at this
    simp [this.1.2, this.2]
  simp only [astOf, byName_fix hinc, eval, evalList, hval, he, bind, Except.bind, subscript, hhint, pure,
    Except.pure, upgradeOrdering_fix hinc, callVal, sumSafe, hne, hz, hany, Bool.false_eq_true, if_false]

/-- `n / d` evaluates to `n' / d'` of the objects the operands evaluate to -/
theorem eval_frac_step (n d n' d' : Expr) (hn : eval lt (astOf n) = .ok (.expr n')) (hd : eval lt (astOf d) = .ok (.expr d')) :
    eval lt (astOf (.frac n d)) = (match div lt n' d' with | .ok c => .ok (.expr c) | .error e => .error e) := by
  simp only [astOf, eval, hn, hd, bind, Except.bind, binop]
  cases div lt n' d' <;> rfl

theorem eval_q_step (dom cod : List Var) (hb : built lt (.q dom cod) = true) :
    eval lt (astOf (.q dom cod)) = .ok (.expr (.q dom cod)) := by
  simp only [built, Bool.and_eq_true, Bool.not_eq_true', List.isEmpty_iff] at hb
  obtain ⟨⟨⟨⟨⟨hdne, hcne⟩, hdi⟩, hci⟩, hdc⟩, hcc⟩ := hb
  have hcne' : cod ≠ [] := by
    intro h0; rw [h0] at hcne; simp at hcne
  obtain ⟨val, hval, hhint⟩ := eval_var_tuple lt cod hcne' hcc
  cases dom with
  | nil => simp at hdne
  | cons v rest =>
    have hrest : incBy Var.name rest = true := incBy_tail _ hdi
    have hev := evalList_vars lt (v :: rest) hdc
    simp only [List.map_cons] at hev
    simp only [astOf, byName_fix hdi, byName_fix hci, eval, hval, List.map_cons, hev, bind, Except.bind,
      subscript, callVal, qSafe, mapM_asVar_vars, hhint, pure, Except.pure, upgradeOrdering_fix hrest,
      normVars_fix hdi, normVars_fix hci]

/-! ### the main induction -/

/-- evaluating the operator tree of a built expression of the simple-division family rebuilds the object -/
theorem eval_astOf : ∀ e, built lt e = true → simple e = true → eval lt (astOf e) = .ok (.expr e) := by
  apply Expr.ind
  · -- Probability
    intro pop c p hb _
    simp only [built, Bool.and_eq_true, Bool.not_eq_true', List.isEmpty_iff] at hb
    obtain ⟨⟨⟨⟨⟨hne, hc⟩, hp⟩, hcc⟩, hpc⟩, hpop⟩ := hb
    have hne' : c ≠ [] := by
      intro h0; rw [h0] at hne; simp at hne
    simpa [astOf] using eval_astProb lt pop c p hne' hc hp hcc hpc hpop
  · -- Product
    intro fs ih hb hs
    simp only [built, Bool.and_eq_true, decide_eq_true_eq] at hb
    obtain ⟨⟨hlen, hbf⟩, hnd⟩ := hb
    simp only [simple] at hs
    have hB := (builtFactors_iff lt fs).mp hbf
    have hS := (simpleFactors_iff fs).mp hs
    have hat : ∀ f ∈ fs, atomic f = true := by
      intro f hf
      obtain ⟨_, h1, h2, h3⟩ := hB f hf
      simp [atomic, h1, h2, h3, (hS f hf).1]
    have hev : ∀ f ∈ fs, eval lt (astOf f) = .ok (.expr f) :=
      fun f hf => ih f hf (hB f hf).1 (hS f hf).2
    match fs, hlen with
    | f :: g :: gs, _ =>
      have h1 := eval_mulFold lt (g :: gs) (astOf f) f (hev f (by simp)) (fun x hx => hev x (by simp [hx]))
      rw [mulFold_atomic lt f g gs hat hnd] at h1
      simpa [astOf, astOfs, mulChain, astOfs_eq_map, List.foldl_map] using h1
  · -- Sum
    intro e rs ih hb hs
    simp only [built, Bool.and_eq_true, Bool.not_eq_true', List.isEmpty_iff] at hb
    obtain ⟨⟨⟨⟨hne, hinc⟩, hplain⟩, hbe⟩, hz⟩ := hb
    simp only [simple] at hs
    have hne' : rs ≠ [] := by
      intro h0; rw [h0] at hne; simp at hne
    have hcan : rs.all canonVar = true := by
      rw [List.all_eq_true] at hplain ⊢
      intro v hv; exact canonVar_of_plain (hplain v hv)
    obtain ⟨val, hval, hhint⟩ := eval_var_tuple lt rs hne' hcan
    have hany : rs.any (fun r => r.isIv || !r.ivs.isEmpty) = false := by
      rw [List.any_eq_false]
      intro v hv
      have := List.all_eq_true.mp hplain v hv
      simp only [plainVar, Bool.and_eq_true, Bool.not_eq_true', List.isEmpty_iff] at this
      simp [this.1.2, this.2]
    have hemp : rs.isEmpty = false := by
      cases rs with | nil => exact absurd rfl hne' | cons _ _ => rfl
    simp only [astOf, byName_fix hinc, eval, evalList, hval, ih hbe hs, bind, Except.bind, subscript, hhint, pure,
      Except.pure, upgradeOrdering_fix hinc, callVal, sumSafe, hemp, hz, hany, Bool.false_eq_true, if_false]
  · -- Fraction
    intro n d ihn ihd hb hs
    simp only [built, Bool.and_eq_true, Bool.not_eq_true'] at hb
    simp only [simple, Bool.and_eq_true, Bool.not_eq_true'] at hs
    obtain ⟨⟨⟨⟨⟨hdn, hdd⟩, _⟩, hn0⟩, hd1⟩, hd0⟩ := hs
    simp only [astOf, eval, ihn hb.1.1.1 (divFree_simple n hdn), ihd hb.1.1.2 (divFree_simple d hdd), bind, Except.bind,
      binop, div_simple lt n d hdn hdd hn0 hd1 hd0]
    rfl
  · intro _ _; rfl
  · intro _ _; rfl
  · -- QFactor
    intro dom cod hb _
    simp only [built, Bool.and_eq_true, Bool.not_eq_true', List.isEmpty_iff] at hb
    obtain ⟨⟨⟨⟨⟨hdne, hcne⟩, hdi⟩, hci⟩, hdc⟩, hcc⟩ := hb
    have hcne' : cod ≠ [] := by
      intro h0; rw [h0] at hcne; simp at hcne
    obtain ⟨val, hval, hhint⟩ := eval_var_tuple lt cod hcne' hcc
    cases dom with
    | nil => simp at hdne
    | cons v rest =>
      have hrest : incBy Var.name rest = true := incBy_tail _ hdi
      have hev := evalList_vars lt (v :: rest) hdc
      simp only [List.map_cons] at hev
      simp only [astOf, byName_fix hdi, byName_fix hci, eval, hval, List.map_cons, hev, bind, Except.bind,
        subscript, callVal, qSafe, mapM_asVar_vars, hhint, pure, Except.pure, upgradeOrdering_fix hrest,
        normVars_fix hdi, normVars_fix hci]

/-- a built expression is printable -/
theorem wf_of_built : ∀ e, built lt e = true → wf e = true := by
  apply Expr.ind
  · intro pop c p hb
    simp only [built, Bool.and_eq_true] at hb
    simp [wf, hb.1.1.1.1.1]
  · intro fs ih hb
    simp only [built, Bool.and_eq_true, decide_eq_true_eq] at hb
    have hB := (builtFactors_iff lt fs).mp hb.1.2
    simp only [wf, Bool.and_eq_true, decide_eq_true_eq]
    refine ⟨hb.1.1, (wfFactors_iff fs).mpr ?_⟩
    intro f hf
    exact ⟨ih f hf (hB f hf).1, (hB f hf).2.1⟩
  · intro e rs ih hb
    simp only [built, Bool.and_eq_true] at hb
    simp [wf, hb.1.1.1.1, ih hb.1.2]
  · intro n d ihn ihd hb
    simp only [built, Bool.and_eq_true] at hb
    simp [wf, ihn hb.1.1.1, ihd hb.1.1.2]
  · intro _; rfl
  · intro _; rfl
  · intro d c hb
    simp only [built, Bool.and_eq_true] at hb
    simp [wf, hb.1.1.1.1.1, hb.1.1.1.1.2]

end PyEval
end Y0
