/-
  Y0.Lemmas.QFactor — the three lemmas about Tian's c-factors `Scm.Q` that every semantic property rests on
  (DESIGN.md 3.4), for a model `M` compatible with a well-formed mixed graph `G`:

  * (sink)   `Q_sink_cons`  : if `r ∉ S` is not a parent of any member of `S` then `Σ_r Q[r :: S] = Q[S]`;
             `Q_ancestral`  : if no member of `R` is a parent of a member of `A` (and `G` has a rank function,
                              i.e. is acyclic) then `Σ_R Q[A ++ R] = Q[A]`               (Tian–Pearl Lemma 3)
  * (split)  `Q_split`      : if `S₁`, `S₂` share no latent then `Q[S₁ ++ S₂] = Q[S₁] · Q[S₂]`;
  * (ratio)  `Q_ratio`      : for a topologically ordered `H` and a part `D` of `H` that shares no latent with
             the rest, `Π_{v ∈ D} (Σ_{>v} Q[H] / Σ_{≥v} Q[H]) = Q[D]`   (Tian–Pearl Lemma 4; Lemma 1 when `H = V`).

  plus positivity `Q_pos`, permutation invariance `Q_perm`, `Q_nil`, and what `Q[S]` depends on (`Q_indepOf`).
  Used by C01/C03 (ID, IDC) and C17 (Tian–Pearl IDENTIFY).
-/
import Y0.Spec.Scm
import Y0.Spec.GraphSpec
import Y0.Lemmas.Prob
import Mathlib.Algebra.BigOperators.Group.List.Basic
import Mathlib.Algebra.Order.BigOperators.GroupWithZero.List
import Mathlib.Data.List.Perm.Basic
import Mathlib.Data.Finset.Max
import Mathlib.Tactic.FieldSimp

namespace Y0

/-- `G` is acyclic in the form used by the semantic proofs: the directed edges increase a rank -/
def MG.Ranked (G : MG Name) : Prop := ∃ rank : Name → Nat, ∀ e ∈ G.di, rank e.1 < rank e.2

theorem MG.mem_parents {G : MG Name} {u v : Name} : u ∈ G.parents v ↔ (u, v) ∈ G.di := by
  unfold MG.parents
  simp only [List.mem_map, List.mem_filter, decide_eq_true_eq]
  constructor
  · rintro ⟨e, ⟨he, rfl⟩, rfl⟩; exact he
  · intro h; exact ⟨(u, v), ⟨h, rfl⟩, rfl⟩

namespace Scm

/-! ### independence of products -/

theorem indepOf_mul {f g : Val → Rat} {x : Name} (hf : IndepOf f x) (hg : IndepOf g x) :
    IndepOf (fun σ => f σ * g σ) x := fun σ k => by simp only [hf σ k, hg σ k]

theorem indepOf_map_prod {α : Type} (l : List α) (F : α → Val → Rat) (x : Name)
    (h : ∀ a ∈ l, IndepOf (F a) x) : IndepOf (fun σ => (l.map fun a => F a σ).prod) x := by
  induction l with
  | nil => exact fun _ _ => rfl
  | cons a l ih =>
    intro σ k
    have h1 := h a List.mem_cons_self σ k
    have h2 := ih (fun b hb => h b (List.mem_cons_of_mem _ hb)) σ k
    simp only [List.map_cons, List.prod_cons] at h2 ⊢
    rw [h1, h2]

/-- the prior of a latent `u` read at the assignment does not depend on `x ≠ u` -/
theorem indepOf_prior (M : Scm) (u x : Name) (h : x ≠ u) : IndepOf (fun σ => M.prior u (σ u)) x := by
  intro σ k
  simp [Val.set, h.symm]

variable {M : Scm} {G : MG Name}

/-- the kernel of `v` depends on `x` only if `x` is `v`, a parent of `v` or a latent parent of `v` -/
theorem indepOf_kern' (hM : M.Compatible G) {v x : Name} (hv : v ∈ G.nodes)
    (hne : x ≠ v) (hpa : x ∉ G.parents v) (hlat : x ∉ M.latOf v) : IndepOf (M.kern v) x := by
  apply (hM.kern_dep v hv).indepOf
  simp only [List.cons_append, List.mem_cons, List.mem_append, not_or]
  exact ⟨hne, hpa, hlat⟩

/-- … in particular not on another observed variable that is not a parent -/
theorem indepOf_kern (hM : M.Compatible G) {v x : Name} (hv : v ∈ G.nodes) (hx : x ∈ G.nodes)
    (hne : x ≠ v) (hpa : x ∉ G.parents v) : IndepOf (M.kern v) x :=
  indepOf_kern' hM hv hne hpa (fun h => hM.lat_fresh x (hM.latOf_sub v x h) hx)

/-- … and not on a latent that is not one of its latent parents -/
theorem indepOf_kern_lat (hM : M.Compatible G) (hG : G.WF) {v u : Name} (hv : v ∈ G.nodes) (hu : u ∈ M.lat)
    (hnot : u ∉ M.latOf v) : IndepOf (M.kern v) u :=
  indepOf_kern' hM hv (fun h => hM.lat_fresh u hu (h ▸ hv))
    (fun h => hM.lat_fresh u hu (hG.di_mem _ (MG.mem_parents.mp h)).1) hnot

/-! ### the prior-weighted sum over a list of latents -/

/-- `Σ_L Π_{u∈L} P(u) · f` -/
def latPart (M : Scm) (L : List Name) (f : Val → Rat) : Val → Rat :=
  sumVars M.card L (fun τ => (L.map fun u => M.prior u (τ u)).prod * f τ)

theorem Q_eq_latPart (M : Scm) (S : List Name) :
    M.Q S = M.latPart M.lat (fun τ => (S.map fun v => M.kern v τ).prod) := rfl

theorem latPart_congr (M : Scm) (L : List Name) {f g : Val → Rat} (h : ∀ τ, f τ = g τ) :
    M.latPart L f = M.latPart L g := by
  have : f = g := funext h
  rw [this]

theorem latPart_perm (M : Scm) {L L' : List Name} (h : L.Perm L') (f : Val → Rat) :
    M.latPart L f = M.latPart L' f := by
  unfold latPart
  rw [sumVars_perm M.card h]
  congr 1
  funext τ
  rw [(h.map _).prod_eq]

/-- a latent that `f` does not mention sums out: `Σ_u P(u) = 1` -/
theorem latPart_indep (hM : M.Compatible G) (L : List Name) (hL : L.Nodup) (hLl : ∀ u ∈ L, u ∈ M.lat)
    (f : Val → Rat) (hf : ∀ u ∈ L, IndepOf f u) : M.latPart L f = f := by
  induction L generalizing f with
  | nil => funext σ; simp [latPart, sumVars]
  | cons u L ih =>
    have hu : u ∉ L := (List.nodup_cons.mp hL).1
    have hL' : L.Nodup := (List.nodup_cons.mp hL).2
    funext σ
    unfold latPart
    simp only [sumVars, List.map_cons, List.prod_cons]
    -- inner sum over L
    have hinner : sumVars M.card L (fun τ => M.prior u (τ u) * (L.map fun u => M.prior u (τ u)).prod * f τ)
        = fun τ => M.prior u (τ u) * f τ := by
      have := ih hL' (fun w hw => hLl w (List.mem_cons_of_mem _ hw)) (fun τ => M.prior u (τ u) * f τ)
        (fun w hw => indepOf_mul (indepOf_prior M u w (fun e => hu (e ▸ hw)))
          (hf w (List.mem_cons_of_mem _ hw)))
      unfold latPart at this
      rw [← this]
      congr 1
      funext τ
      ring
    rw [hinner]
    rw [sumVar_mul_right M.card u (fun τ => M.prior u (τ u)) f σ (hf u List.mem_cons_self)]
    have : sumVar M.card u (fun τ => M.prior u (τ u)) σ = 1 := by
      have := hM.prior_sum u (hLl u List.mem_cons_self)
      unfold sumVar
      simpa [Val.set] using this
    rw [this, one_mul]

/-- a factor that does not mention the latents of `L` comes out of the sum -/
theorem latPart_mul_left (M : Scm) (L : List Name) (g f : Val → Rat) (hg : ∀ u ∈ L, IndepOf g u) (σ : Val) :
    M.latPart L (fun τ => g τ * f τ) σ = g σ * M.latPart L f σ := by
  unfold latPart
  rw [← sumVars_mul_left M.card L g _ σ hg]
  apply sumVars_congr
  intro τ
  ring

theorem latPart_indepOf (M : Scm) (L : List Name) (f : Val → Rat) {x : Name}
    (hx : x ∈ L ∨ IndepOf f x) : IndepOf (M.latPart L f) x := by
  unfold latPart
  by_cases hxL : x ∈ L
  · exact sumVars_indep_mem M.card L _ hxL
  · rcases hx with hx | hx
    · exact absurd hx hxL
    · apply sumVars_indep
      exact indepOf_mul (indepOf_map_prod L (fun u σ => M.prior u (σ u)) x
        (fun u hu => indepOf_prior M u x (fun e => hxL (e ▸ hu)))) hx

theorem latPart_append (M : Scm) (L1 L2 : List Name) (hdisj : ∀ u ∈ L1, u ∉ L2) (f : Val → Rat) :
    M.latPart (L1 ++ L2) f = M.latPart L1 (M.latPart L2 f) := by
  funext σ
  unfold latPart
  rw [sumVars_append]
  apply sumVars_congr
  intro τ
  rw [← sumVars_mul_left M.card L2 (fun τ => (L1.map fun u => M.prior u (τ u)).prod) _ τ]
  · apply sumVars_congr
    intro ρ
    rw [List.map_append, List.prod_append]
    ring
  · intro w hw
    exact indepOf_map_prod L1 (fun u σ => M.prior u (σ u)) w
      (fun u hu => indepOf_prior M u w (fun e => hdisj u hu (e ▸ hw)))

/-! ### basic facts about `Q` -/

theorem Q_perm (M : Scm) {S S' : List Name} (h : S.Perm S') : M.Q S = M.Q S' := by
  rw [Q_eq_latPart, Q_eq_latPart]
  apply latPart_congr
  intro τ
  exact (h.map _).prod_eq

theorem Q_nil (hM : M.Compatible G) : M.Q [] = fun _ => 1 := by
  rw [Q_eq_latPart]
  simp only [List.map_nil, List.prod_nil]
  exact latPart_indep hM M.lat hM.lat_nodup (fun _ h => h) _ (fun _ _ _ _ => rfl)

theorem sumVars_pos (card : Name → Nat) (xs : List Name) (f : Val → Rat) (hc : ∀ x ∈ xs, 0 < card x)
    (h : ∀ τ, 0 < f τ) (σ : Val) : 0 < sumVars card xs f σ := by
  induction xs generalizing σ with
  | nil => exact h σ
  | cons x xs ih =>
    simp only [sumVars]
    exact sumVar_pos card x _ σ (hc x List.mem_cons_self)
      (fun τ => ih (fun y hy => hc y (List.mem_cons_of_mem _ hy)) τ)

theorem Q_pos (hM : M.Compatible G) (S : List Name) (hS : ∀ v ∈ S, v ∈ G.nodes) (σ : Val) : 0 < M.Q S σ := by
  unfold Q
  apply sumVars_pos _ _ _ (fun x _ => hM.card_pos x)
  intro τ
  unfold weight
  apply mul_pos
  · apply List.prod_pos
    intro a ha
    simp only [List.mem_map] at ha
    obtain ⟨u, hu, rfl⟩ := ha
    exact hM.prior_pos u hu _
  · apply List.prod_pos
    intro a ha
    simp only [List.mem_map] at ha
    obtain ⟨v, hv, rfl⟩ := ha
    exact hM.kern_pos v (hS v hv) τ

/-- `Q[S]` depends on the assignment only through `S` and the parents of `S` -/
theorem Q_indepOf (hM : M.Compatible G) (S : List Name) (hS : ∀ v ∈ S, v ∈ G.nodes) {x : Name}
    (hxS : x ∉ S) (hpa : ∀ v ∈ S, x ∉ G.parents v) : IndepOf (M.Q S) x := by
  rw [Q_eq_latPart]
  by_cases hx : x ∈ M.lat
  · exact latPart_indepOf M M.lat _ (Or.inl hx)
  · apply latPart_indepOf M M.lat _ (Or.inr _)
    apply indepOf_map_prod
    intro v hv
    exact indepOf_kern' hM (hS v hv) (fun e => hxS (e ▸ hv)) (hpa v hv)
      (fun h => hx (hM.latOf_sub v x h))

/-! ### (sink) -/

theorem Q_sink_cons (hM : M.Compatible G) {S : List Name} {r : Name} (hr : r ∈ G.nodes) (hrS : r ∉ S)
    (hS : ∀ v ∈ S, v ∈ G.nodes) (hsink : ∀ v ∈ S, r ∉ G.parents v) :
    sumVar M.card r (M.Q (r :: S)) = M.Q S := by
  unfold Q
  rw [sumVar_sumVars_comm]
  congr 1
  funext τ
  have hw : M.weight (r :: S) = fun ρ => M.weight S ρ * M.kern r ρ := by
    funext ρ; unfold weight; simp only [List.map_cons, List.prod_cons]; ring
  rw [hw]
  apply sink_core
  · show IndepOf (fun σ => (M.lat.map fun u => M.prior u (σ u)).prod * (S.map fun v => M.kern v σ).prod) r
    exact indepOf_mul
      (indepOf_map_prod M.lat (fun u σ => M.prior u (σ u)) r
        (fun u hu => indepOf_prior M u r (fun e => hM.lat_fresh u hu (e ▸ hr))))
      (indepOf_map_prod S (fun v σ => M.kern v σ) r
        (fun v hv => indepOf_kern hM (hS v hv) hr (fun e => hrS (e ▸ hv)) (hsink v hv)))
  · exact hM.kern_sum r hr

/-- Tian–Pearl Lemma 3: summing a c-factor over a part `R` none of whose members is a parent of the rest -/
theorem Q_ancestral (hM : M.Compatible G) (hrank : G.Ranked) (A R : List Name)
    (hnd : (A ++ R).Nodup) (hsub : ∀ v ∈ A ++ R, v ∈ G.nodes)
    (hanc : ∀ a ∈ A, ∀ r ∈ R, r ∉ G.parents a) : sumVars M.card R (M.Q (A ++ R)) = M.Q A := by
  obtain ⟨rank, hrk⟩ := hrank
  generalize hn : R.length = n
  induction n generalizing R with
  | zero =>
    have : R = [] := List.length_eq_zero_iff.mp hn
    subst this
    simp [sumVars]
  | succ n ih =>
    have hne : R.toFinset.Nonempty := by
      cases R with
      | nil => simp at hn
      | cons a l => exact ⟨a, by simp⟩
    obtain ⟨r, hrR, hmax⟩ := Finset.exists_max_image R.toFinset rank hne
    rw [List.mem_toFinset] at hrR
    have hmax' : ∀ v ∈ R, rank v ≤ rank r := fun v hv => hmax v (List.mem_toFinset.mpr hv)
    set R' := R.erase r with hR'
    have hRnd : R.Nodup := (List.nodup_append.mp hnd).2.1
    have hperm : R.Perm (R' ++ [r]) := (List.perm_cons_erase hrR).trans (List.perm_append_singleton r R').symm
    have hpermS : (A ++ R).Perm (r :: (A ++ R')) :=
      ((List.perm_cons_erase hrR).append_left A).trans List.perm_middle
    rw [sumVars_perm M.card hperm, sumVars_append, Q_perm M hpermS]
    have hrA : r ∉ A := fun h => (List.nodup_append.mp hnd).2.2 r h r hrR rfl
    have hrR' : r ∉ R' := fun h => ((hRnd.mem_erase_iff).mp h).1 rfl
    have hsink : sumVars M.card [r] (M.Q (r :: (A ++ R'))) = M.Q (A ++ R') := by
      show sumVar M.card r (M.Q (r :: (A ++ R'))) = _
      apply Q_sink_cons hM (hsub r (List.mem_append_right _ hrR))
      · intro h
        rcases List.mem_append.mp h with h | h
        · exact hrA h
        · exact hrR' h
      · intro v hv
        rcases List.mem_append.mp hv with h | h
        · exact hsub v (List.mem_append_left _ h)
        · exact hsub v (List.mem_append_right _ (List.mem_of_mem_erase h))
      · intro v hv hpa
        rcases List.mem_append.mp hv with h | h
        · exact hanc v h r hrR hpa
        · have h1 := hrk (r, v) (MG.mem_parents.mp hpa)
          have h2 := hmax' v (List.mem_of_mem_erase h)
          simp only at h1
          omega
    rw [hsink]
    apply ih R'
    · exact hnd.sublist (List.Sublist.append_left (List.erase_sublist) A)
    · intro v hv
      rcases List.mem_append.mp hv with h | h
      · exact hsub v (List.mem_append_left _ h)
      · exact hsub v (List.mem_append_right _ (List.mem_of_mem_erase h))
    · intro a ha r' hr'
      exact hanc a ha r' (List.mem_of_mem_erase hr')
    · rw [hR', List.length_erase_of_mem hrR, hn]; rfl

/-! ### (split) -/

theorem Q_split (hM : M.Compatible G) (hG : G.WF) {S1 S2 : List Name}
    (h1 : ∀ v ∈ S1, v ∈ G.nodes) (h2 : ∀ v ∈ S2, v ∈ G.nodes)
    (hno : ∀ v ∈ S1, ∀ w ∈ S2, ∀ u, u ∈ M.latOf v → u ∉ M.latOf w) (σ : Val) :
    M.Q (S1 ++ S2) σ = M.Q S1 σ * M.Q S2 σ := by
  let p : Name → Bool := fun u => S1.any (fun v => decide (u ∈ M.latOf v))
  set L1 := M.lat.filter p with hL1
  set L2 := M.lat.filter (fun u => !p u) with hL2
  have hperm : M.lat.Perm (L1 ++ L2) := (List.filter_append_perm p M.lat).symm
  have hp : ∀ u, p u = true ↔ ∃ v ∈ S1, u ∈ M.latOf v := by
    intro u; simp [p]
  have hdisj : ∀ u ∈ L1, u ∉ L2 := by
    intro u hu hu'
    simp only [hL1, hL2, List.mem_filter] at hu hu'
    simp [hu.2] at hu'
  have hnd : (L1 ++ L2).Nodup := hperm.nodup_iff.mp hM.lat_nodup
  have hL1nd : L1.Nodup := (List.nodup_append.mp hnd).1
  have hL2nd : L2.Nodup := (List.nodup_append.mp hnd).2.1
  have hL1lat : ∀ u ∈ L1, u ∈ M.lat := fun u hu => (List.mem_filter.mp hu).1
  have hL2lat : ∀ u ∈ L2, u ∈ M.lat := fun u hu => (List.mem_filter.mp hu).1
  set K1 : Val → Rat := fun τ => (S1.map fun v => M.kern v τ).prod with hK1d
  set K2 : Val → Rat := fun τ => (S2.map fun v => M.kern v τ).prod with hK2d
  have hK1 : ∀ u ∈ L2, IndepOf K1 u := by
    intro u hu
    apply indepOf_map_prod
    intro v hv
    apply indepOf_kern_lat hM hG (h1 v hv) (hL2lat u hu)
    intro hlat
    have : p u = true := (hp u).mpr ⟨v, hv, hlat⟩
    simp only [hL2, List.mem_filter] at hu
    simp [this] at hu
  have hK2 : ∀ u ∈ L1, IndepOf K2 u := by
    intro u hu
    apply indepOf_map_prod
    intro w hw
    apply indepOf_kern_lat hM hG (h2 w hw) (hL1lat u hu)
    obtain ⟨v, hv, hlat⟩ := (hp u).mp (List.mem_filter.mp hu).2
    exact hno v hv w hw u hlat
  have hB : ∀ u ∈ L1, IndepOf (M.latPart L2 K2) u := fun u hu =>
    latPart_indepOf M L2 K2 (Or.inr (hK2 u hu))
  have e1 : M.Q S1 = M.latPart L1 K1 := by
    rw [Q_eq_latPart, latPart_perm M hperm, latPart_append M L1 L2 hdisj,
      latPart_indep hM L2 hL2nd hL2lat K1 hK1]
  have e2 : M.Q S2 = M.latPart L2 K2 := by
    rw [Q_eq_latPart, latPart_perm M hperm, latPart_append M L1 L2 hdisj,
      latPart_indep hM L1 hL1nd hL1lat _ hB]
  have e12 : M.Q (S1 ++ S2) = M.latPart L1 (M.latPart L2 (fun τ => K1 τ * K2 τ)) := by
    rw [Q_eq_latPart, latPart_perm M hperm, latPart_append M L1 L2 hdisj]
    congr 1
    apply latPart_congr
    intro τ
    simp only [hK1d, hK2d, List.map_append, List.prod_append]
  rw [e12, e1, e2]
  have step1 : M.latPart L2 (fun τ => K1 τ * K2 τ) = fun τ => M.latPart L2 K2 τ * K1 τ := by
    funext τ
    rw [latPart_mul_left M L2 K1 K2 hK1 τ, mul_comm]
  rw [step1, latPart_mul_left M L1 (M.latPart L2 K2) K1 hB σ, mul_comm]

/-- a c-factor splits along a part `D` that shares no latent with the rest -/
theorem Q_filter_split (hM : M.Compatible G) (hG : G.WF) (D : Name → Bool) (l : List Name)
    (hl : ∀ v ∈ l, v ∈ G.nodes)
    (hsep : ∀ v ∈ l, D v = true → ∀ w ∈ l, D w = false → ∀ u, u ∈ M.latOf v → u ∉ M.latOf w) (σ : Val) :
    M.Q l σ = M.Q (l.filter D) σ * M.Q (l.filter (fun v => !D v)) σ := by
  rw [Q_perm M (List.filter_append_perm D l).symm]
  apply Q_split hM hG
  · exact fun v hv => hl v (List.mem_filter.mp hv).1
  · exact fun v hv => hl v (List.mem_filter.mp hv).1
  · intro v hv w hw
    have hv' := List.mem_filter.mp hv
    have hw' := List.mem_filter.mp hw
    exact hsep v hv'.1 hv'.2 w hw'.1 (by simpa using hw'.2)

/-! ### (ratio) -/

/-- Tian–Pearl Lemma 4 (Lemma 1 when `H = V`): along a topologically ordered `H`, the product over a part `D`
that shares no latent with the rest of the ratios `Σ_{>v} Q[H] / Σ_{≥v} Q[H]` is `Q[D]` -/
theorem Q_ratio (hM : M.Compatible G) (hG : G.WF) (hrank : G.Ranked) (H : List Name) (hnd : H.Nodup)
    (hsub : ∀ v ∈ H, v ∈ G.nodes)
    (htopo : ∀ l1 l2, H = l1 ++ l2 → ∀ a ∈ l1, ∀ r ∈ l2, r ∉ G.parents a)
    (D : Name → Bool)
    (hsep : ∀ v ∈ H, D v = true → ∀ w ∈ H, D w = false → ∀ u, u ∈ M.latOf v → u ∉ M.latOf w)
    (σ : Val) (R : Name → Rat)
    (hR : ∀ l1 v l2, H = l1 ++ v :: l2 →
      R v = sumVars M.card l2 (M.Q H) σ / sumVars M.card (v :: l2) (M.Q H) σ) :
    ((H.filter D).map R).prod = M.Q (H.filter D) σ := by
  have key : ∀ l2 l1, H = l1 ++ l2 →
      ((l2.filter D).map R).prod * M.Q (l1.filter D) σ = M.Q (H.filter D) σ := by
    intro l2
    induction l2 with
    | nil => intro l1 h; simp at h; subst h; simp
    | cons v l2 ih =>
      intro l1 h
      have h' : H = (l1 ++ [v]) ++ l2 := by rw [h]; simp
      have IH := ih (l1 ++ [v]) h'
      have hsubl : ∀ l, (∃ l', H = l ++ l') → ∀ w ∈ l, w ∈ G.nodes ∧ w ∈ H := by
        rintro l ⟨l', hl⟩ w hw
        have : w ∈ H := by rw [hl]; exact List.mem_append_left _ hw
        exact ⟨hsub w this, this⟩
      by_cases hD : D v = true
      · -- prefix sums
        have p1 : sumVars M.card l2 (M.Q H) = M.Q (l1 ++ [v]) := by
          conv_lhs => rw [h']
          exact Q_ancestral hM hrank (l1 ++ [v]) l2 (h' ▸ hnd) (fun w hw => hsub w (h' ▸ hw))
            (htopo (l1 ++ [v]) l2 h')
        have p2 : sumVars M.card (v :: l2) (M.Q H) = M.Q l1 := by
          conv_lhs => rw [h]
          exact Q_ancestral hM hrank l1 (v :: l2) (h ▸ hnd) (fun w hw => hsub w (h ▸ hw))
            (htopo l1 (v :: l2) h)
        have hRv := hR l1 v l2 h
        rw [p1, p2] at hRv
        have s1 := Q_filter_split hM hG D (l1 ++ [v])
          (fun w hw => (hsubl _ ⟨l2, h'⟩ w hw).1)
          (fun a ha hDa b hb hDb => hsep a (hsubl _ ⟨l2, h'⟩ a ha).2 hDa b (hsubl _ ⟨l2, h'⟩ b hb).2 hDb) σ
        have s2 := Q_filter_split hM hG D l1
          (fun w hw => (hsubl _ ⟨v :: l2, h⟩ w hw).1)
          (fun a ha hDa b hb hDb => hsep a (hsubl _ ⟨v :: l2, h⟩ a ha).2 hDa b (hsubl _ ⟨v :: l2, h⟩ b hb).2 hDb) σ
        have f1 : (l1 ++ [v]).filter D = l1.filter D ++ [v] := by simp [List.filter_append, hD]
        have f2 : (l1 ++ [v]).filter (fun w => !D w) = l1.filter (fun w => !D w) := by
          simp [List.filter_append, hD]
        rw [f1, f2] at s1
        rw [f1] at IH
        have posN : 0 < M.Q (l1.filter (fun w => !D w)) σ :=
          Q_pos hM _ (fun w hw => (hsubl _ ⟨v :: l2, h⟩ w (List.mem_filter.mp hw).1).1) σ
        have posD : 0 < M.Q (l1.filter D) σ :=
          Q_pos hM _ (fun w hw => (hsubl _ ⟨v :: l2, h⟩ w (List.mem_filter.mp hw).1).1) σ
        have hRv' : R v * M.Q (l1.filter D) σ = M.Q (l1.filter D ++ [v]) σ := by
          rw [hRv, s1, s2]
          field_simp
        simp only [List.filter_cons, hD, if_true, List.map_cons, List.prod_cons]
        rw [← IH, ← hRv']
        ring
      · have hD' : D v = false := by simpa using hD
        have f1 : (l1 ++ [v]).filter D = l1.filter D := by simp [List.filter_append, hD']
        rw [f1] at IH
        simp only [List.filter_cons, hD', Bool.false_eq_true, if_false]
        exact IH
  have := key H [] (by simp)
  simp only [List.filter_nil] at this
  rw [Q_nil hM] at this
  simpa using this

/-- (ratio) for the factors taken in any order: `D` a duplicate-free list of members of `H` -/
theorem Q_ratio_list (hM : M.Compatible G) (hG : G.WF) (hrank : G.Ranked) (H : List Name) (hnd : H.Nodup)
    (hsub : ∀ v ∈ H, v ∈ G.nodes)
    (htopo : ∀ l1 l2, H = l1 ++ l2 → ∀ a ∈ l1, ∀ r ∈ l2, r ∉ G.parents a)
    (D : List Name) (hDnd : D.Nodup) (hDH : ∀ v ∈ D, v ∈ H)
    (hsep : ∀ v ∈ D, ∀ w ∈ H, w ∉ D → ∀ u, u ∈ M.latOf v → u ∉ M.latOf w)
    (σ : Val) (R : Name → Rat)
    (hR : ∀ l1 v l2, H = l1 ++ v :: l2 →
      R v = sumVars M.card l2 (M.Q H) σ / sumVars M.card (v :: l2) (M.Q H) σ) :
    (D.map R).prod = M.Q D σ := by
  have hperm : D.Perm (H.filter (fun v => decide (v ∈ D))) := by
    apply (List.perm_ext_iff_of_nodup hDnd (hnd.filter _)).mpr
    intro a
    simp only [List.mem_filter, decide_eq_true_eq]
    exact ⟨fun h => ⟨hDH a h, h⟩, fun h => h.2⟩
  rw [(hperm.map R).prod_eq, Q_perm M hperm]
  apply Q_ratio hM hG hrank H hnd hsub htopo (fun v => decide (v ∈ D)) _ σ R hR
  intro v _ hv w hw hw'
  exact hsep v (by simpa using hv) w hw (by simpa using hw')

end Scm
end Y0
