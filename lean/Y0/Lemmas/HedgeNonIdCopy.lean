/-
  Y0.Lemmas.HedgeNonIdCopy — the "copy" extension of a model along a directed edge `y → z`
  (Shpitser & Pearl 2006, downward extension of non-identifiability): `z` gets the larger range
  `card z × card y`, its value is a pair (old value of `z`, noisy copy of `y`) coded as `old + card z · copy`;
  every mechanism reads only the old component of `z` (`dec`).  The extension of a compatible model is compatible.
-/
import Y0.Spec.Identifiable
import Y0.Lemmas.Prob
import Y0.Lemmas.QFactor
import Mathlib.Tactic.FieldSimp
import Mathlib.Tactic.Positivity

namespace Y0
namespace NonId
open Finset

/-- noisy copy kernel: `P(copy = b | y = j)` = 1/2·[b = j] + 1/(2m), read modulo `m` so that it is a kernel
for every `j` -/
def cK (m b j : Nat) : Rat := (if b = j % m then 1 / 2 else 0) + 1 / (2 * m)

theorem cK_pos {m : Nat} (hm : 0 < m) (b j : Nat) : 0 < cK m b j := by
  unfold cK
  have : (0 : Rat) < m := by exact_mod_cast hm
  split <;> positivity

theorem cK_sum {m : Nat} (hm : 0 < m) (j : Nat) : ∑ b ∈ range m, cK m b j = 1 := by
  unfold cK
  rw [Finset.sum_add_distrib, Finset.sum_ite_eq' (range m) (j % m) (fun _ => (1 / 2 : Rat))]
  have hj : j % m ∈ range m := Finset.mem_range.mpr (Nat.mod_lt _ hm)
  rw [if_pos hj, Finset.sum_const, Finset.card_range]
  have : (m : Rat) ≠ 0 := by exact_mod_cast hm.ne'
  simp only [nsmul_eq_mul]
  field_simp
  ring

/-- a sum over `k·m` values is a double sum over remainder and quotient -/
theorem sum_range_mul_split (k m : Nat) (hk : 0 < k) (f : Nat → Nat → Rat) :
    ∑ t ∈ range (k * m), f (t % k) (t / k) = ∑ b ∈ range m, ∑ i ∈ range k, f i b := by
  induction m with
  | zero => simp
  | succ m ih =>
    rw [Nat.mul_succ, Finset.sum_range_add, ih, Finset.sum_range_succ]
    congr 1
    apply Finset.sum_congr rfl
    intro i hi
    have hi' := Finset.mem_range.mp hi
    rw [Nat.mul_add_mod, Nat.mod_eq_of_lt hi', Nat.mul_add_div hk, Nat.div_eq_of_lt hi', Nat.add_zero]

/-- decode: keep only the old component of the value of `z` -/
def dec (k : Nat) (z : Name) (σ : Val) : Val := σ.set z (σ z % k)

theorem dec_other (k : Nat) (z : Name) (σ : Val) {v : Name} (h : v ≠ z) : dec k z σ v = σ v := Val.set_other σ _ h
theorem dec_same (k : Nat) (z : Name) (σ : Val) : dec k z σ z = σ z % k := Val.set_same σ z _

theorem dec_set_other (k : Nat) (z : Name) (σ : Val) {x : Name} (h : x ≠ z) (j : Nat) :
    dec k z (σ.set x j) = (dec k z σ).set x j := by
  unfold dec
  rw [Val.set_other σ j (Ne.symm h), Val.set_comm _ h]

theorem dec_set_same (k : Nat) (z : Name) (σ : Val) (t : Nat) : dec k z (σ.set z t) = σ.set z (t % k) := by
  unfold dec
  rw [Val.set_same, Val.set_set]

/-- the copy extension of `M` along `y → z` -/
def copyExt (M : Scm) (y z : Name) : Scm :=
  { card := fun v => if v = z then M.card z * M.card y else M.card v
    lat := M.lat
    prior := M.prior
    latOf := M.latOf
    kern := fun v σ =>
      if v = z then M.kern z (dec (M.card z) z σ) * cK (M.card y) (σ z / M.card z) (σ y)
      else M.kern v (dec (M.card z) z σ) }

theorem copyExt_compatible {M : Scm} {G : MG Name} (hM : M.Compatible G) (hG : G.WF) {y z : Name}
    (hyz : (y, z) ∈ G.di) (hne : y ≠ z) : (copyExt M y z).Compatible G := by
  have hz : z ∈ G.nodes := (hG.di_mem _ hyz).2
  have hzl : ∀ u ∈ M.lat, u ≠ z := fun u hu h => hM.lat_fresh u hu (h ▸ hz)
  have hk := hM.card_pos z
  have hm := hM.card_pos y
  refine ⟨?_, hM.lat_nodup, hM.lat_fresh, hM.prior_pos, ?_, hM.latOf_sub, ?_, ?_, ?_, hM.compat⟩
  · intro x
    simp only [copyExt]
    split
    · exact Nat.mul_pos hk hm
    · exact hM.card_pos x
  · intro u hu
    simp only [copyExt, if_neg (hzl u hu)]
    exact hM.prior_sum u hu
  · intro v hv σ τ hστ
    have hdec : ∀ w ∈ v :: G.parents v ++ M.latOf v, dec (M.card z) z σ w = dec (M.card z) z τ w := by
      intro w hw
      by_cases hwz : w = z
      · subst hwz; rw [dec_same, dec_same, hστ w hw]
      · rw [dec_other _ _ _ hwz, dec_other _ _ _ hwz, hστ w hw]
    have hk := hM.kern_dep v hv _ _ hdec
    simp only [copyExt]
    by_cases hvz : v = z
    · subst hvz
      simp only [if_true]
      rw [hk, hστ v (by simp), hστ y (by simp [MG.mem_parents.mpr hyz])]
    · simp only [if_neg hvz]
      exact hk
  · intro v hv σ
    simp only [copyExt]
    split
    · exact mul_pos (hM.kern_pos z hz _) (cK_pos hm _ _)
    · exact hM.kern_pos v hv _
  · intro v hv σ
    rw [sumVar_eq_sum]
    by_cases hvz : v = z
    · subst hvz
      simp only [copyExt, if_true, Val.set_same, Val.set_other σ _ hne, dec_set_same]
      rw [sum_range_mul_split _ _ hk (fun i b => M.kern v (σ.set v i) * cK (M.card y) b (σ y))]
      simp only [← Finset.sum_mul]
      have h1 : ∑ i ∈ range (M.card v), M.kern v (σ.set v i) = 1 := by
        have := hM.kern_sum v hv σ
        rwa [sumVar_eq_sum] at this
      rw [h1]
      simp only [one_mul]
      exact cK_sum hm _
    · simp only [copyExt, if_neg hvz, dec_set_other _ _ _ hvz]
      have := hM.kern_sum v hv (dec (M.card z) z σ)
      rwa [sumVar_eq_sum] at this

end NonId
end Y0
