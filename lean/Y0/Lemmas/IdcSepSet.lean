/-
  Y0.Lemmas.IdcSepSet — from pairwise separations to a separation of a node from a *set*.

  IDC tests `all(are_d_separated(G', y, c, conditions = X ∪ W) for y in Y)`, i.e. pairwise separations, each one a
  statement about the augmented ancestral graph of `{y, c} ∪ C`.  Rule 2 of the do-calculus needs the joint statement:
  in the augmented ancestral graph of `{c} ∪ Y ∪ C` (a bigger graph: more nodes, more marriages) minus `C` nothing of
  `Y` can be reached from `c`.  This is the forward half of the moralisation theorem of Y0/Lemmas/SepWalk.lean with a
  set of targets: a connection in the big augmented graph yields an open walk from `c` to SOME member of `Y`
  (re-routing through `c`, or straight down to a member of `Y`, whenever a collider is not an ancestor of `C`), and an
  open walk is a connection in the pair's own augmented graph (`augConnected_of_mwalk`).
-/
import Y0.Lemmas.SepWalk

namespace Y0.IdAux
open Relation MG
variable {α : Type}

/-- one step in the augmented ancestral graph of `{a} ∪ Y ∪ C` with the nodes of `C` deleted -/
def AugStepS (G : MG α) (C : List α) (a : α) (Y : List α) (u v : α) : Prop :=
  G.AugEdge (G.Anc (a :: Y ++ C)) u v ∧ u ∉ C ∧ v ∉ C

section
variable (G : MG α) (C : List α) (a : α) (Y : List α)

/-- either some member of `Y` has been reached by an open walk, or `u` has been reached and can be left -/
def QS (u : α) : Prop := (∃ y ∈ Y, ∃ m, G.MWalk C a y m) ∨ MG.Ready G C a u

theorem ancS_cases {u : α} (h : G.Anc (a :: Y ++ C) u) :
    G.Anc C u ∨ ReflTransGen G.DiEdge u a ∨ ∃ y ∈ Y, ReflTransGen G.DiEdge u y := by
  obtain ⟨s, hs, hus⟩ := h
  rcases List.mem_cons.1 hs with rfl | hs
  · exact Or.inr (Or.inl hus)
  · rcases List.mem_append.1 hs with hs | hs
    · exact Or.inr (Or.inr ⟨s, hs, hus⟩)
    · exact Or.inl ⟨s, hs, hus⟩

theorem qs_normalize {u : α} {m : Option Mark} (hw : G.MWalk C a u m) (hP : G.Anc (a :: Y ++ C) u)
    (hm : m ≠ some .head → u ∉ C) : QS G C a Y u := by
  by_cases hA : G.Anc C u
  · by_cases hh : m = some .head
    · exact Or.inr ⟨m, hw, fun _ => hA, fun h => absurd hh h⟩
    · exact Or.inr ⟨m, hw, fun h => absurd h hh, hm⟩
  · by_cases hh : m = some .head
    · rcases ancS_cases G C a Y hP with h | h | ⟨y, hy, h⟩
      · exact absurd h hA
      · obtain ⟨m', hw', hm'⟩ := mwalk_up G C a h hA
        exact Or.inr ⟨m', hw', fun h' => absurd h' hm', fun _ => not_mem_of_not_anc G hA⟩
      · obtain ⟨m', hw'⟩ := mwalk_down G C a h m hw hA
        exact Or.inl ⟨y, hy, m', hw'⟩
    · exact Or.inr ⟨m, hw, fun h => absurd h hh, hm⟩

theorem qs_bi {c c' : α} (hq : QS G C a Y c) (he : G.BiEdge c c') (hP : G.Anc (a :: Y ++ C) c') :
    QS G C a Y c' := by
  rcases hq with hq | hq
  · exact Or.inl hq
  · exact qs_normalize G C a Y (ready_extend G C a hq (.bi he) (Or.inl rfl)) hP (fun h => absurd rfl h)

theorem qs_in {u x : α} (hq : QS G C a Y u) (hu : u ∉ C) (he : G.DiEdge u x) (hP : G.Anc (a :: Y ++ C) x) :
    QS G C a Y x := by
  rcases hq with hq | hq
  · exact Or.inl hq
  · exact qs_normalize G C a Y (ready_extend G C a hq (.fwd he) (Or.inr hu)) hP (fun h => absurd rfl h)

theorem qs_out {y v : α} (hq : QS G C a Y y) (he : G.DiEdge v y) (hv : v ∉ C) : QS G C a Y v := by
  rcases hq with hq | hq
  · exact Or.inl hq
  · exact Or.inr ⟨some .tail, ready_extend G C a hq (.bwd he) (Or.inl rfl), (fun h => by cases h), fun _ => hv⟩

theorem qs_chain {x y : α} (hq : QS G C a Y x) (h : ReflTransGen (G.BiIn (G.Anc (a :: Y ++ C))) x y) :
    QS G C a Y y := by
  induction h with
  | refl => exact hq
  | tail _ hbc ih => exact qs_bi G C a Y ih hbc.1 hbc.2.2

theorem qs_step {u v : α} (hq : QS G C a Y u) (h : AugStepS G C a Y u v) : QS G C a Y v := by
  obtain ⟨⟨_, hPv, h | ⟨x, y, hPx, _, hc, hux, hvy⟩⟩, hu, hv⟩ := h
  · rcases h with h | h | h
    · exact qs_in G C a Y hq hu h hPv
    · exact qs_out G C a Y hq h hv
    · exact qs_bi G C a Y hq h hPv
  · have hqx : QS G C a Y x := by
      rcases hux with rfl | hux
      · exact hq
      · exact qs_in G C a Y hq hu hux hPx
    have hqy := qs_chain G C a Y hqx hc
    rcases hvy with rfl | hvy
    · exact hqy
    · exact qs_out G C a Y hqy hvy hv

/-- **pairwise separations give the separation from the set**: if `a` is separated from every member of `Y` (each in
the augmented ancestral graph of the pair), no member of `Y` is reachable from `a` in the augmented ancestral graph of
`{a} ∪ Y ∪ C` minus `C` -/
theorem reach_sep_set (ha : a ∉ C) (hY : ∀ y ∈ Y, y ∉ C) (hsep : ∀ y ∈ Y, G.AugSeparated a y C) :
    ∀ v, ReflTransGen (AugStepS G C a Y) a v → v ∉ Y := by
  intro v hv hvY
  have key : ∀ v, ReflTransGen (AugStepS G C a Y) a v → QS G C a Y v := by
    intro v hv
    induction hv with
    | refl => exact Or.inr ⟨none, .nil, (fun h => by cases h), fun _ => ha⟩
    | tail _ hbc ih => exact qs_step G C a Y ih hbc
  rcases key v hv with ⟨y, hy, m, hw⟩ | ⟨m, hw, _⟩
  · exact hsep y hy (augConnected_of_mwalk G C a ha (hY y hy) hw)
  · exact hsep v hvY (augConnected_of_mwalk G C a ha (hY v hvY) hw)

end
end Y0.IdAux
