/-
  Y0.Lemmas.LatentConv — the two conversions:
  * `toMG?` (`from_latent_variable_dag`): what the fold produces, and that on a flat LV-DAG it is the
    latent projection;
  * `ofMG` (`_latent_dag`): the LV-DAG of a mixed graph is well formed, flat, and projects to the graph.
-/
import Y0.Lemmas.LatentBasic
import Mathlib.Data.Finset.Card
import Mathlib.Data.Finset.Dedup

namespace Y0

namespace MG
variable {α : Type}

theorem lvPairs_sub {l : List α} {a b : α} : (a, b) ∈ pairs l → a ∈ l ∧ b ∈ l := by
  induction l with
  | nil => simp [pairs]
  | cons x xs ih =>
    simp only [pairs, List.mem_append, List.mem_map, Prod.mk.injEq, List.mem_cons]
    rintro (⟨y, hy, rfl, rfl⟩ | h)
    · exact ⟨Or.inl rfl, Or.inr hy⟩
    · exact ⟨Or.inr (ih h).1, Or.inr (ih h).2⟩

theorem lvPairs_ne {l : List α} (hl : l.Nodup) {a b : α} : (a, b) ∈ pairs l → a ≠ b := by
  induction l with
  | nil => simp [pairs]
  | cons x xs ih =>
    simp only [pairs, List.mem_append, List.mem_map, Prod.mk.injEq]
    rw [List.nodup_cons] at hl
    rintro (⟨y, hy, rfl, rfl⟩ | h)
    · rintro rfl; exact hl.1 hy
    · exact ih hl.2 h

theorem lvPairs_of_mem {l : List α} {a b : α} (ha : a ∈ l) (hb : b ∈ l) (hab : a ≠ b) :
    (a, b) ∈ pairs l ∨ (b, a) ∈ pairs l := by
  induction l with
  | nil => simp at ha
  | cons x xs ih =>
    simp only [pairs, List.mem_append, List.mem_map, Prod.mk.injEq]
    rcases List.mem_cons.1 ha with rfl | ha' <;> rcases List.mem_cons.1 hb with rfl | hb'
    · exact absurd rfl hab
    · exact Or.inl (Or.inl ⟨b, hb', rfl, rfl⟩)
    · exact Or.inr (Or.inl ⟨a, ha', rfl, rfl⟩)
    · rcases ih ha' hb' with h | h
      · exact Or.inl (Or.inr h)
      · exact Or.inr (Or.inr h)

theorem biEdge_symm' (G : MG α) {u v : α} (h : G.BiEdge u v) : G.BiEdge v u := Or.symm h

/-- `NxMixedGraph.__eq__` of the model: same node set, same directed edges, same bidirected edges up
to orientation -/
theorem equiv_iff' [DecidableEq α] (G H : MG α) :
    G.equiv H = true ↔ (∀ v, v ∈ G.nodes ↔ v ∈ H.nodes) ∧ (∀ u v, G.DiEdge u v ↔ H.DiEdge u v) ∧
      (∀ u v, G.BiEdge u v ↔ H.BiEdge u v) := by
  simp only [equiv, seteq', subset', Bool.and_eq_true, List.all_eq_true, decide_eq_true_eq, hasBi_iff]
  constructor
  · rintro ⟨⟨⟨⟨n1, n2⟩, d1, d2⟩, b1⟩, b2⟩
    refine ⟨fun v => ⟨n1 v, n2 v⟩, fun u v => ⟨d1 (u, v), d2 (u, v)⟩, fun u v => ⟨?_, ?_⟩⟩
    · rintro (h | h)
      · exact b1 _ h
      · exact biEdge_symm' H (b1 _ h)
    · rintro (h | h)
      · exact b2 _ h
      · exact biEdge_symm' G (b2 _ h)
  · rintro ⟨hn, hd, hb⟩
    exact ⟨⟨⟨⟨fun v => (hn v).1, fun v => (hn v).2⟩, fun e => (hd e.1 e.2).1, fun e => (hd e.1 e.2).2⟩,
      fun e he => (hb e.1 e.2).1 (Or.inl he)⟩, fun e he => (hb e.1 e.2).2 (Or.inl he)⟩

end MG

namespace LV
open MG

/-! ### `from_latent_variable_dag` -/

/-- one node's contribution -/
theorem fromStep_spec (D : LV) (G : MG Nat) (n : Nat) :
    (∀ v, v ∈ (fromStep D G n).nodes ↔ v ∈ G.nodes ∨
        (n ∉ D.latent ∧ ∃ c ∈ D.children n, v = n ∨ v = c) ∨
        (n ∈ D.latent ∧ ∃ e ∈ pairs (D.children n), v = e.1 ∨ v = e.2)) ∧
    (∀ a b, (fromStep D G n).DiEdge a b ↔ G.DiEdge a b ∨ (n ∉ D.latent ∧ a = n ∧ b ∈ D.children n)) ∧
    (∀ a b, (fromStep D G n).BiEdge a b ↔ G.BiEdge a b ∨
        (n ∈ D.latent ∧ ((a, b) ∈ pairs (D.children n) ∨ (b, a) ∈ pairs (D.children n)))) := by
  unfold fromStep
  by_cases hn : n ∈ D.latent
  · simp only [hn, if_true, not_true_eq_false, false_and, true_and, false_or, or_false]
    refine ⟨fun v => ?_, fun a b => ?_, fun a b => ?_⟩
    · rw [mem_nodes_foldl_addBi]
    · simp only [DiEdge, di_foldl_addBi]
    · rw [biEdge_foldl_addBi]
  · simp only [hn, if_false, not_false_eq_true, true_and, false_and, or_false]
    refine ⟨fun v => ?_, fun a b => ?_, fun a b => ?_⟩
    · rw [mem_nodes_foldl_addDi]
      simp only [List.mem_map, exists_exists_and_eq_and]
    · simp only [DiEdge, mem_di_foldl_addDi, List.mem_map, Prod.mk.injEq]
      constructor
      · rintro (h | ⟨c, hc, rfl, rfl⟩)
        · exact Or.inl h
        · exact Or.inr ⟨rfl, hc⟩
      · rintro (h | ⟨rfl, hc⟩)
        · exact Or.inl h
        · exact Or.inr ⟨b, hc, rfl, rfl⟩
    · simp only [BiEdge, bi_foldl_addDi]

theorem foldl_fromStep_spec (D : LV) (ns : List Nat) (G : MG Nat) :
    (∀ v, v ∈ (ns.foldl (fromStep D) G).nodes ↔ v ∈ G.nodes ∨ ∃ n ∈ ns,
        (n ∉ D.latent ∧ ∃ c ∈ D.children n, v = n ∨ v = c) ∨
        (n ∈ D.latent ∧ ∃ e ∈ pairs (D.children n), v = e.1 ∨ v = e.2)) ∧
    (∀ a b, (ns.foldl (fromStep D) G).DiEdge a b ↔ G.DiEdge a b ∨
        ∃ n ∈ ns, n ∉ D.latent ∧ a = n ∧ b ∈ D.children n) ∧
    (∀ a b, (ns.foldl (fromStep D) G).BiEdge a b ↔ G.BiEdge a b ∨
        ∃ n ∈ ns, n ∈ D.latent ∧ ((a, b) ∈ pairs (D.children n) ∨ (b, a) ∈ pairs (D.children n))) := by
  induction ns generalizing G with
  | nil => simp
  | cons n ns ih =>
    obtain ⟨s1, s2, s3⟩ := fromStep_spec D G n
    obtain ⟨i1, i2, i3⟩ := ih (fromStep D G n)
    simp only [List.foldl_cons, List.mem_cons, exists_eq_or_imp]
    refine ⟨fun v => ?_, fun a b => ?_, fun a b => ?_⟩
    · rw [i1, s1, or_assoc]
    · rw [i2, s2, or_assoc]
    · rw [i3, s3, or_assoc]

/-- the graph read off an LV-DAG all of whose nodes are tagged -/
def readOff (D : LV) : MG Nat :=
  D.nodes.foldl (fromStep D) ((D.nodes.filter (· ∉ D.latent)).foldl MG.addNode MG.empty)

theorem toMG?_eq (D : LV) (h : D.untagged = []) : D.toMG? = .ok D.readOff := by
  simp [toMG?, h, readOff]

/-- edges of the graph read off ANY fully tagged LV-DAG (flat or not): an observed node points at its
children; two distinct children of a latent are joined by a bidirected edge -/
theorem readOff_edges (D : LV) (hnd : D.edges.Nodup) (hm : ∀ e ∈ D.edges, e.1 ∈ D.nodes) (a b : Nat) :
    (D.readOff.DiEdge a b ↔ a ∉ D.latent ∧ D.Edge a b) ∧
    (D.readOff.BiEdge a b ↔ a ≠ b ∧ ∃ l, l ∈ D.latent ∧ D.Edge l a ∧ D.Edge l b) := by
  obtain ⟨_, f2, f3⟩ := foldl_fromStep_spec D D.nodes
    ((D.nodes.filter (· ∉ D.latent)).foldl MG.addNode MG.empty)
  constructor
  · unfold readOff
    rw [f2, DiEdge, di_foldl_addNode]
    simp only [MG.empty, List.not_mem_nil, false_or]
    constructor
    · rintro ⟨n, _, hnl, rfl, hc⟩; exact ⟨hnl, (mem_children D _ _).1 hc⟩
    · rintro ⟨hnl, he⟩; exact ⟨a, hm _ he, hnl, rfl, (mem_children D _ _).2 he⟩
  · unfold readOff
    rw [f3, BiEdge, bi_foldl_addNode]
    simp only [MG.empty, List.not_mem_nil, false_or]
    constructor
    · rintro ⟨n, _, hnl, h⟩
      have hndc := nodup_children D hnd n
      rcases h with h | h
      · exact ⟨lvPairs_ne hndc h, n, hnl, (mem_children D _ _).1 (lvPairs_sub h).1,
          (mem_children D _ _).1 (lvPairs_sub h).2⟩
      · exact ⟨(lvPairs_ne hndc h).symm, n, hnl, (mem_children D _ _).1 (lvPairs_sub h).2,
          (mem_children D _ _).1 (lvPairs_sub h).1⟩
    · rintro ⟨hne, l, hl, ha, hb⟩
      exact ⟨l, hm _ ha, hl, lvPairs_of_mem ((mem_children D _ _).2 ha) ((mem_children D _ _).2 hb) hne⟩

/-- on a flat LV-DAG the graph read off is the latent projection -/
theorem readOff_isProjection (D : LV) (hw : D.WF) (hf : D.Flat) : IsProjection D D.readOff := by
  obtain ⟨f1, f2, f3⟩ := foldl_fromStep_spec D D.nodes
    ((D.nodes.filter (· ∉ D.latent)).foldl MG.addNode MG.empty)
  have hobs : ∀ a b, D.Edge a b → D.Observed b := fun a b h =>
    ⟨(hw.edge_mem _ h).2, hf _ h⟩
  refine ⟨fun v => ?_, fun a b => ?_, fun a b => ?_⟩
  · unfold readOff
    rw [f1, mem_nodes_foldl_addNode]
    simp only [MG.empty, List.not_mem_nil, false_or, List.mem_filter, decide_eq_true_eq]
    constructor
    · rintro (h | ⟨n, hn, ⟨hnl, c, hc, rfl | rfl⟩ | ⟨hnl, e, he, rfl | rfl⟩⟩)
      · exact h
      · exact ⟨hn, hnl⟩
      · exact hobs _ _ ((mem_children D _ _).1 hc)
      · exact hobs _ _ ((mem_children D _ _).1 (lvPairs_sub he).1)
      · exact hobs _ _ ((mem_children D _ _).1 (lvPairs_sub he).2)
    · exact Or.inl
  · unfold readOff
    rw [f2, DiEdge, di_foldl_addNode]
    simp only [MG.empty, List.not_mem_nil, false_or, ProjDi, latPath_flat hf]
    constructor
    · rintro ⟨n, hn, hnl, rfl, hc⟩
      have he := (mem_children D _ _).1 hc
      exact ⟨⟨hn, hnl⟩, hobs _ _ he, he⟩
    · rintro ⟨⟨hn, hnl⟩, _, he⟩
      exact ⟨a, hn, hnl, rfl, (mem_children D _ _).2 he⟩
  · unfold readOff
    rw [f3, BiEdge, bi_foldl_addNode]
    simp only [MG.empty, List.not_mem_nil, false_or, ProjBi, latPath_flat hf]
    constructor
    · rintro ⟨n, _, hnl, h⟩
      have hnd := nodup_children D hw.edges_nodup n
      have key : ∀ x y, (x, y) ∈ pairs (D.children n) → x ≠ y ∧ D.Edge n x ∧ D.Edge n y := fun x y hxy =>
        ⟨lvPairs_ne hnd hxy, (mem_children D _ _).1 (lvPairs_sub hxy).1,
          (mem_children D _ _).1 (lvPairs_sub hxy).2⟩
      rcases h with h | h
      · obtain ⟨hne, ha, hb⟩ := key _ _ h
        exact ⟨hne, hobs _ _ ha, hobs _ _ hb, n, hnl, ha, hb⟩
      · obtain ⟨hne, hb, ha⟩ := key _ _ h
        exact ⟨hne.symm, hobs _ _ ha, hobs _ _ hb, n, hnl, ha, hb⟩
    · rintro ⟨hne, _, _, l, hl, ha, hb⟩
      exact ⟨l, (hw.edge_mem _ ha).1, hl,
        lvPairs_of_mem ((mem_children D _ _).2 ha) ((mem_children D _ _).2 hb) hne⟩

/-- two projections of the same LV-DAG are equal as mixed graphs (`NxMixedGraph.__eq__`) -/
theorem IsProjection.equiv {D : LV} {G H : MG Nat} (hG : IsProjection D G) (hH : IsProjection D H) :
    G.equiv H = true := by
  rw [equiv_iff']
  exact ⟨fun v => (hG.nodes v).trans (hH.nodes v).symm, fun u v => (hG.di u v).trans (hH.di u v).symm,
    fun u v => (hG.bi u v).trans (hH.bi u v).symm⟩

theorem IsProjection.of_sameProj {D D' : LV} {G : MG Nat} (h : SameProj D D') (hG : IsProjection D' G) :
    IsProjection D G :=
  ⟨fun v => (hG.nodes v).trans (h.obs v), fun u v => (hG.di u v).trans (h.di u v),
    fun u v => (hG.bi u v).trans (h.bi u v)⟩

theorem SameProj.refl (D : LV) : SameProj D D := ⟨fun _ => Iff.rfl, fun _ _ => Iff.rfl, fun _ _ => Iff.rfl⟩

theorem SameProj.trans {D D' D'' : LV} (h : SameProj D D') (h' : SameProj D' D'') : SameProj D D'' :=
  ⟨fun v => (h'.obs v).trans (h.obs v), fun u v => (h'.di u v).trans (h.di u v),
    fun u v => (h'.bi u v).trans (h.bi u v)⟩

end LV
end Y0
