/-
  Y0.Lemmas.CfMwD — MULTI-WORLD events, part D: the unstarred subscripts of the estimand of the top-level call (the counterpart of
  `lines4to9_allSubs` for a counterfactual graph known through `DFacts` only), and soundness under the LITERAL reading.
-/
import Y0.Lemmas.CfMwC

namespace Y0.Cf
open Relation MG Fscm

section
variable {Safe : Name → Prop} {G : MG Name}

theorem allSubs_after_cg (hG : G.WF) (hdl : ∀ e ∈ G.di, e.1 ≠ e.2) (hbl : ∀ e ∈ G.bi, e.1 ≠ e.2)
    {ordf : List World → List World} (hord : PermOrder ordf) {dordf : List Var → List Var} (hdo : PermDistrict dordf)
    (rec : Event → Except Err Expr)
    (hrec : ∀ w' s' ev' e', Frag2 G w' s' ev' → SKeys s' ev' → SubOK Safe G w' s' ev' → rec ev' = .ok e' →
      ∀ X ∈ allSubs e', Safe X)
    (ev : Event) (hev : GoodEv G ev) (g : MG Var) (nev : Event) (hcg : makeCounterfactualGraph ordf G ev = .ok (g, some nev))
    (s : Name → Bool) (hD : DFacts G s g nev) (hsk : SKeys s nev) (hkeysnsi : ∀ k ∈ nev.keys, isNotSelfIntervened k = true)
    (h9 : isConnected (nsiSubgraph g) = .ok true →
      ∀ i ∈ cfInterventions (nsiSubgraph g).nodes, i.star = false → Safe i.name)
    (h6 : isConnected (nsiSubgraph g) = .ok false →
      (∀ n ∈ (nsiSubgraph g).nodes, s n.name = false → Safe n.name) ∧
      (∀ k ∈ nev.keys, s k.name = true → ∀ n ∈ (nsiSubgraph g).nodes, (k.name, n.name) ∉ G.di) ∧
      (∀ v ∈ g.nodes, isNotSelfIntervened v = false → Safe v.name))
    (e : Expr) (h : idStarLines4to9 ordf dordf G rec ev = .ok e) : ∀ X ∈ allSubs e, Safe X := by
  intro X hX
  unfold49 at h
  rw [hcg] at h
  simp only at h
  have hwfn := wf_nsiSubgraph g
  cases hc : isConnected (nsiSubgraph g) with
  | error err => rw [hc] at h; cases h
  | ok c =>
    rw [hc] at h
    simp only at h
    split at h
    · -- line 6
      rename_i hnc
      have hcfalse : c = false := by simpa using hnc
      subst hcfalse
      obtain ⟨hnsiSafe, hc1, hsiSafe⟩ := h6 hc
      cases hevs : eventsOfEachDistrict dordf g nev with
      | error err => rw [hevs] at h; cases h
      | ok evs =>
        rw [hevs] at h
        simp only at h
        split at h
        · cases h
        · cases hm : evs.mapM rec with
          | error err => rw [hm] at h; cases h
          | ok fs =>
            rw [hm] at h
            simp only [Except.ok.injEq] at h
            subst h
            obtain ⟨f, hf, hXf⟩ := allSubs_productSafe fs X (allSubs_sumSafe _ _ X hX)
            obtain ⟨x, hx, hfx⟩ := mapM_ok_mem _ _ _ hm f hf
            have hxD : ∃ D ∈ (nsiSubgraph g).districts, eventsOfDistrict g (dordf D) nev = .ok x := by
              unfold eventsOfEachDistrict at hevs
              exact mapM_ok_mem _ _ _ hevs x hx
            obtain ⟨D, hD', hDx⟩ := hxD
            obtain ⟨pillow, hp, hxeq, hfrx, hwU, hnoself, hkD⟩ :=
              frag_of_district hord hdo hG hdl hbl hev hcg hD hsk hkeysnsi hevs D hD' x hDx
            have hsw := sw_of_district hord hdo.subset hG hdl hbl hev hcg hD.nevOK hevs x hx
            have hpspec := markovPillow_spec g (dordf D) pillow hp
            have hpnode : ∀ v ∈ pillow, v ∈ g.nodes := by
              intro v hv
              obtain ⟨_, s', _, hvs⟩ := (hpspec v).1 hv
              exact (hD.wf.di_mem _ hvs).1
            have hmemw := mem_toInterventions_unst hD pillow hpnode
            have hDn : ∀ n ∈ D, n ∈ (nsiSubgraph g).nodes := fun n hn => (districts_cover _ hwfn n).2 ⟨D, hD', hn⟩
            have hstarkey : ∀ n ∈ (nsiSubgraph g).nodes, s n.name = true → n ∈ nev.keys := by
              intro n hn hs
              obtain ⟨hng, hnnsi⟩ := (mem_nsiSubgraph_iff g n).1 hn
              obtain ⟨k, hkk, hkn⟩ := List.mem_map.1 (hsk n.name hs)
              have : k = n := hD.inj k (hD.keysNodes k hkk) n hng (hkeysnsi k hkk) hnnsi hkn
              exact this ▸ hkk
            refine hrec _ _ x f (frag2_restrictS hfrx) (sKeys_restrictS s x) ⟨hwU, ?_, hnoself, ?_, ?_, ?_⟩ hfx X hXf
            · intro i hi
              obtain ⟨v, hv, rfl⟩ := (hmemw i).1 hi
              simp only
              obtain ⟨hvD, c', hc'D, hvc⟩ := (hpspec v).1 hv
              have hvg := hpnode v hv
              by_cases hvnsi : isNotSelfIntervened v = true
              · have hvN : v ∈ (nsiSubgraph g).nodes := (mem_nsiSubgraph_iff g v).2 ⟨hvg, hvnsi⟩
                cases hs : s v.name with
                | false => exact hnsiSafe v hvN hs
                | true =>
                  exfalso
                  have hc'N := hDn c' ((hdo D).mem_iff.1 hc'D)
                  exact hc1 v (hstarkey v hvN hs) hs c' hc'N (hD.proj v c' hvc)
              · exact hsiSafe v hvg (by simpa using hvnsi)
            · intro b hb m hm'
              obtain ⟨w'', hkw'', hcl⟩ := hsw.world
              obtain ⟨k, hkx, _⟩ := List.mem_map.1 hb
              have e1 := hkw'' k hkx
              have e2 := hfrx.keysIn k hkx
              have : w'' = ivsCanon (toInterventions pillow) := atWorld_inj_world (e1.symm.trans e2)
              rw [← this]
              exact hcl b hb m hm'
            · intro k hkx hs k' hk'x
              obtain ⟨n, hnD, hnk⟩ := List.mem_map.1 (hkD k hkx)
              obtain ⟨n', hn'D, hn'k⟩ := List.mem_map.1 (hkD k' hk'x)
              have hs' : s n.name = true := by rw [hnk]; exact restrictS_true hs
              rw [← hnk, ← hn'k]
              exact hc1 n (hstarkey n (hDn n hnD) hs') hs' n' (hDn n' hn'D)
            · intro k hkx hs
              obtain ⟨n, hnD, hnk⟩ := List.mem_map.1 (hkD k hkx)
              rw [restrictS_eq_of_key hkx] at hs
              rw [← hnk]
              exact hnsiSafe n (hDn n hnD) (by rw [hnk]; exact hs)
    · rename_i hcn
      have hct : c = true := by simpa using hcn
      subst hct
      split at h
      · cases h
      · cases h9' : line9 (nsiSubgraph g) with
        | error err => rw [h9'] at h; cases h
        | ok e9 =>
          rw [h9'] at h
          simp only [Except.ok.injEq] at h
          subst h
          have hX9 := allSubs_sumSafe _ _ X hX
          unfold line9 at h9'
          obtain ⟨i, hi, his, rfl⟩ := allSubs_probSafe _ _ e9 h9' X hX9
          exact h9 hc i hi his

end

section
variable (M : Model) (ν : BaseValues) (dom : Name → Nat) {G : MG Name}

/-- **lines 4–9 of the top-level call on a multi-world event are sound under the LITERAL reading** `cden2`, when the
counterfactual graph satisfies `Frag3At` -/
theorem lines4to9_sound_mw_lit (hM : Compatible M G) (hn : ∀ pmf ∈ M.noise, pmf.sum = 1) (hν : ν.Distinct)
    (hdom : ∀ v ps us, M.f v ps us < dom v) (hG : G.WF) (hdl : ∀ e ∈ G.di, e.1 ≠ e.2) (hbl : ∀ e ∈ G.bi, e.1 ≠ e.2)
    {ordf : List World → List World} (hord : PermOrder ordf) {dordf : List Var → List Var} (hdo : PermDistrict dordf)
    (ev : Event) (hev : GoodEv G ev) (hk : KeysNSI ev) (f : Nat) (e : Expr)
    (h : idStarLines4to9 ordf dordf G (idStarFuel ordf dordf G f) ev = .ok e)
    (g : MG Var) (nev : Event) (hcg : makeCounterfactualGraph ordf G ev = .ok (g, some nev)) (h3 : Frag3At G g nev) :
    cden2 M ν dom e (sigma0 ν g nev) (fun n => ν n false) = probEvent M ν ev := by
  rw [← lines4to9_sound_mw M ν dom hM hn hν hdom hG hdl hbl hord hdo ev hev hk f e h g nev hcg h3]
  apply cden2_eq_cden
  obtain ⟨topo, facts⟩ := mw_facts M ν hν hM hG hdl hbl hord hev hcg
  have hkeysnsi : ∀ k ∈ nev.keys, isNotSelfIntervened k = true := by
    obtain ⟨⟨_, hnsi⟩, _⟩ := cg_event_inv hord.good hcg hk hev.ok
    intro k hkk
    obtain ⟨v, hv⟩ := (mem_keys_iff nev k).1 hkk
    exact hnsi _ hv
  have hD := dfacts_of_mw facts h3 hkeysnsi
  obtain ⟨_, hσi⟩ := sigma0_facts facts h3 hkeysnsi
  set Safe : Name → Prop := fun X => sigma0 ν g nev X = ν X false with hSafe
  show ∀ X ∈ allSubs e, Safe X
  refine allSubs_after_cg hG hdl hbl hord hdo _
    (fun w' s' x e' hfrx hskx hsub hx => idStarFuel_allSubs_sub hG hdl hbl hord hdo f w' s' x e' hfrx hskx hsub hx)
    ev hev g nev hcg (starOf nev) hD (sKeys_starOf nev) hkeysnsi ?_ ?_ e h
  · intro _ i hi his
    obtain ⟨n, hnN, hin⟩ := (mem_cfInterventions _ i).1 hi
    have := hσi n ((mem_nsiSubgraph_iff g n).1 hnN).1 i hin
    show sigma0 ν g nev i.name = ν i.name false
    rw [this]
    simp [ivValue, his]
  · intro hc
    obtain ⟨hc1, hc2⟩ := h3.line6 hc
    refine ⟨?_, hc1, ?_⟩
    · intro n hnN hs
      show sigma0 ν g nev n.name = ν n.name false
      unfold sigma0
      have : (cfInterventions g.nodes).any (fun i => i.name == n.name && i.star) = false := by
        rw [List.any_eq_false]
        intro i hi
        obtain ⟨x, hx, hix⟩ := (mem_cfInterventions _ i).1 hi
        simp only [Bool.and_eq_true, beq_iff_eq, not_and]
        intro hin
        exact absurd hin (h3.sepSubs n hnN x hx i hix)
      simp [hs, this]
    · intro v hv hvn
      obtain ⟨i, hi, hin⟩ := exists_self_iv v hvn
      have := hσi v hv i hi
      show sigma0 ν g nev v.name = ν v.name false
      rw [← hin, this]
      simp [ivValue, hc2 v hv hvn i hi hin]

end

end Y0.Cf
