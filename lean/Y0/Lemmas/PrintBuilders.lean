/-
  Y0.Lemmas.PrintBuilders — the leaf builders produce `built` objects: `_upgrade_ordering`, `@`, `+ - ~`,
  `Distribution.safe`, `Probability.safe` (with and without `[…]` interventions), `QFactor.safe`, when the
  arguments mention each name at most once.
-/
import Y0.Lemmas.PrintClosed

namespace Y0
namespace PyEval
open Print

/-! ### sorting a list whose keys are pairwise distinct gives a strictly increasing list -/

section sort
variable {α : Type} [DecidableEq α] (f : α → Nat) (lt : α → α → Bool)

/-- on elements with different `f`-values the order `lt` is the order of the `f`-values -/
def Agrees : Prop := ∀ a b, f a ≠ f b → (lt a b = true ↔ f a < f b)

theorem mem_insertBy' {x y : α} {l : List α} : y ∈ insertBy lt x l ↔ y = x ∨ y ∈ l := by
  induction l with
  | nil => simp [insertBy]
  | cons z zs ih =>
    simp only [insertBy]
    split
    · simp only [List.mem_cons, ih]
      constructor
      · rintro (h | h | h)
        · exact Or.inr (Or.inl h)
        · exact Or.inl h
        · exact Or.inr (Or.inr h)
      · rintro (h | h | h)
        · exact Or.inr (Or.inl h)
        · exact Or.inl h
        · exact Or.inr (Or.inr h)
    · simp

theorem mem_sortBy' {y : α} {l : List α} : y ∈ sortBy lt l ↔ y ∈ l := by
  induction l with
  | nil => simp [sortBy]
  | cons x xs ih =>
    show y ∈ insertBy lt x (sortBy lt xs) ↔ _
    rw [mem_insertBy', ih]
    simp

theorem incBy_cons_of {x : α} : ∀ {l : List α}, incBy f l = true → (∀ y, l.head? = some y → f x < f y) →
    incBy f (x :: l) = true
  | [], _, _ => rfl
  | y :: r, h, hx => by simp [incBy, hx y rfl, h]

theorem incBy_insertBy (hag : Agrees f lt) (x : α) : ∀ l : List α, incBy f l = true → (∀ y ∈ l, f y ≠ f x) →
    incBy f (insertBy lt x l) = true ∧ (∀ z, (insertBy lt x l).head? = some z → z = x ∨ l.head? = some z)
  | [], _, _ => ⟨rfl, by simp [insertBy]⟩
  | y :: r, h, hne => by
    simp only [insertBy]
    have hyx : f y ≠ f x := hne y (by simp)
    by_cases hlt : lt y x = true
    · simp only [hlt, if_true]
      obtain ⟨ih1, ih2⟩ := incBy_insertBy hag x r (incBy_tail f h) (fun z hz => hne z (by simp [hz]))
      refine ⟨incBy_cons_of f ih1 ?_, by simp⟩
      intro w hw
      rcases ih2 w hw with h' | h'
      · subst h'; exact (hag y w hyx).mp hlt
      · exact incBy_lt_all f y r h w (by
          cases r with
          | nil => simp at h'
          | cons z r' => simp at h'; subst h'; simp)
    · have hlt' : lt y x = false := by simpa using hlt
      simp only [hlt', Bool.false_eq_true, if_false]
      refine ⟨?_, by simp⟩
      have : f x < f y := by
        have h1 : ¬ f y < f x := fun h2 => hlt ((hag y x hyx).mpr h2)
        omega
      simp [incBy, this, h]

theorem incBy_sortBy (hag : Agrees f lt) : ∀ l : List α, (l.map f).Nodup → incBy f (sortBy lt l) = true
  | [], _ => rfl
  | x :: xs, h => by
    simp only [List.map_cons, List.nodup_cons, List.mem_map, not_exists, not_and] at h
    show incBy f (insertBy lt x (sortBy lt xs)) = true
    exact (incBy_insertBy f lt hag x _ (incBy_sortBy hag xs h.2)
      (fun y hy => h.1 y ((mem_sortBy' lt).mp hy))).1

theorem dedup'_of_nodup : ∀ l : List α, l.Nodup → dedup' l = l
  | [], _ => rfl
  | x :: xs, h => by
    simp only [List.nodup_cons] at h
    rw [dedup', dedup'_of_nodup xs h.2]
    congr 1
    rw [List.filter_eq_self]
    intro y hy
    simp only [ne_eq, decide_not, Bool.not_eq_true', decide_eq_false_iff_not]
    intro heq; subst heq; exact h.1 hy

theorem nodup_of_map_nodup {l : List α} (h : (l.map f).Nodup) : l.Nodup := by
  induction l with
  | nil => exact List.nodup_nil
  | cons x xs ih =>
    simp only [List.map_cons, List.nodup_cons, List.mem_map, not_exists, not_and] at h
    exact List.nodup_cons.mpr ⟨fun hx => h.1 x hx rfl, ih h.2⟩

end sort

theorem agrees_keyLt : Agrees Var.name Var.keyLt := by
  intro a b hne
  unfold Var.keyLt
  have : ¬ (a.name = b.name) := hne
  simp [this]

theorem agrees_ivLt : Agrees Iv.name Iv.lt := by
  intro a b hne
  unfold Iv.lt
  have : ¬ (a.name = b.name) := hne
  simp [this]

/-- `_upgrade_ordering` of variables with pairwise distinct names is sorted by name -/
theorem incBy_upgradeOrdering (vs : List Var) (h : (vs.map Var.name).Nodup) :
    incBy Var.name (upgradeOrdering vs) = true ∧ ∀ v, v ∈ upgradeOrdering vs ↔ v ∈ vs := by
  unfold upgradeOrdering sortedVars
  rw [dedup'_of_nodup vs (nodup_of_map_nodup Var.name h)]
  exact ⟨incBy_sortBy Var.name Var.keyLt agrees_keyLt vs h, fun v => mem_sortBy' Var.keyLt⟩

theorem incBy_normIvs (is : List Iv) (h : (is.map Iv.name).Nodup) :
    incBy Iv.name (normIvs is) = true ∧ ∀ i, i ∈ normIvs is ↔ i ∈ is := by
  unfold normIvs
  rw [dedup'_of_nodup is (nodup_of_map_nodup Iv.name h)]
  exact ⟨incBy_sortBy Iv.name Iv.lt agrees_ivLt is h, fun i => mem_sortBy' Iv.lt⟩

/-! ### variable-level operators keep variables canonical -/

theorem canonVar_unop (op : UOp) (v : Var) (h : canonVar v = true) : canonVar (unopVar op v) = true := by
  unfold unopVar
  by_cases he : v.ivs.isEmpty = true
  · simp [he, canonVar, incBy]
  · have he' : v.ivs.isEmpty = false := by simpa using he
    unfold canonVar at h ⊢
    simp only [he', Bool.false_eq_true, if_false, Bool.and_eq_true] at h ⊢
    exact h

theorem toIvs_names (vs : List Var) : (toIvs vs).map Iv.name = vs.map Var.name := by
  induction vs with
  | nil => rfl
  | cons v vs ih =>
    simp only [toIvs, List.map_cons, List.map_map] at ih ⊢
    rw [ih]
    congr 1
    split <;> rfl

theorem incBy_nodup {α} (f : α → Nat) : ∀ l : List α, incBy f l = true → (l.map f).Nodup
  | [], _ => List.nodup_nil
  | x :: xs, h => by
    simp only [List.map_cons, List.nodup_cons, List.mem_map, not_exists, not_and]
    refine ⟨fun y hy heq => ?_, incBy_nodup f xs (incBy_tail f h)⟩
    have := incBy_lt_all f x xs h y hy
    omega

/-- `v @ args`: the result is canonical when the subscript names (old and new) are pairwise distinct -/
theorem canonVar_varIntervene (v r : Var) (args : List Var) (hv : canonVar v = true)
    (hn : (v.ivs.map Iv.name ++ args.map Var.name).Nodup) (h : varIntervene v args = .ok r) :
    canonVar r = true ∧ r.name = v.name := by
  unfold varIntervene at h
  by_cases he : v.ivs.isEmpty = true
  · simp only [he, if_true] at h
    have hnil : v.ivs = [] := by simpa using he
    rw [hnil] at hn
    simp only [List.map_nil, List.nil_append] at hn
    have hinc := (incBy_normIvs (toIvs args) (by rw [toIvs_names]; exact hn)).1
    split at h
    · cases h
    · rename_i hne
      cases h
      simp only [canonVar, hinc, Bool.true_and]
      simp [hne]
  · have he' : v.ivs.isEmpty = false := by simpa using he
    simp only [he', Bool.false_eq_true, if_false] at h
    have hargs : (args.map Var.name).Nodup := (List.nodup_append.mp hn).2.1
    obtain ⟨hup, hmem⟩ := incBy_upgradeOrdering args hargs
    have hnod : ((v.ivs ++ toIvs (upgradeOrdering args)).map Iv.name).Nodup := by
      rw [List.map_append, toIvs_names]
      refine List.nodup_append.mpr ⟨(List.nodup_append.mp hn).1, incBy_nodup _ _ hup, ?_⟩
      intro a ha b hb
      have hb' : b ∈ args.map Var.name := by
        obtain ⟨w, hw, rfl⟩ := List.mem_map.mp hb
        exact List.mem_map.mpr ⟨w, (hmem w).mp hw, rfl⟩
      exact (List.nodup_append.mp hn).2.2 a ha b hb'
    have hinc := (incBy_normIvs _ hnod).1
    split at h
    · cases h
    · cases h
      unfold canonVar at hv ⊢
      simp only [he', Bool.false_eq_true, if_false, Bool.and_eq_true] at hv
      simp only [hinc, Bool.true_and]
      have hne : (normIvs (v.ivs ++ toIvs (upgradeOrdering args))).isEmpty = false := by
        cases hvi : v.ivs with
        | nil => simp [hvi] at he'
        | cons i is =>
          have : i ∈ normIvs (v.ivs ++ toIvs (upgradeOrdering args)) := ((incBy_normIvs _ hnod).2 i).mpr (by simp [hvi])
          cases hn' : normIvs (v.ivs ++ toIvs (upgradeOrdering args)) with
          | nil => rw [hn'] at this; cases this
          | cons _ _ => rw [← hvi, hn']; rfl
      simp [hne, hv.2]

/-! ### `Distribution.safe` / `Probability.safe` / `QFactor.safe` -/

/-- the variables an argument value contributes -/
def valVars : Val → List Var
  | .var v => [v]
  | .dist c p => c ++ p
  | .tuple xs => xs.filterMap fun x => match x with | .var v => some v | _ => none
  | _ => []

/-- all variables mentioned by an argument list -/
def argVars (args : List Val) : List Var := args.flatMap valVars

theorem mapM_asVar_ok : ∀ (l : List Val) (vs : List Var), l.mapM asVar = .ok vs → l = vs.map Val.var
  | [], vs, h => by simp [List.mapM_nil, pure, Except.pure] at h; subst h; rfl
  | x :: xs, vs, h => by
    simp only [List.mapM_cons, bind, Except.bind] at h
    cases x <;> simp only [asVar] at h <;> try (cases h)
    rename_i v
    cases hm : xs.mapM asVar with
    | error e => simp [hm] at h
    | ok ws =>
      simp only [hm, pure, Except.pure, Except.ok.injEq] at h
      subst h
      rw [mapM_asVar_ok xs ws hm]
      rfl

theorem argVars_vars (vs : List Var) : argVars (vs.map Val.var) = vs := by
  induction vs with
  | nil => rfl
  | cons v vs ih => simpa [argVars, valVars] using ih

theorem argVars_append (a b : List Val) : argVars (a ++ b) = argVars a ++ argVars b := by
  simp [argVars]

theorem filterMap_vars (vs : List Var) :
    (vs.map Val.var).filterMap (fun x => match x with | .var v => some v | _ => none) = vs := by
  induction vs with
  | nil => rfl
  | cons v vs ih => simp [ih]

/-- replacing a segment by a name-sorted list with the same members keeps the names distinct -/
theorem nodup_swap_left (A A' B : List Var) (hA : incBy Var.name A' = true) (hmem : ∀ v, v ∈ A' ↔ v ∈ A)
    (h : ((A ++ B).map Var.name).Nodup) : ((A' ++ B).map Var.name).Nodup := by
  rw [List.map_append] at h ⊢
  obtain ⟨_, hB, hd⟩ := List.nodup_append.mp h
  refine List.nodup_append.mpr ⟨incBy_nodup _ _ hA, hB, ?_⟩
  intro a ha b hb
  obtain ⟨w, hw, rfl⟩ := List.mem_map.mp ha
  exact hd _ (List.mem_map.mpr ⟨w, (hmem w).mp hw, rfl⟩) b hb

theorem nodup_swap_right (A A' B : List Var) (hA : incBy Var.name A' = true) (hmem : ∀ v, v ∈ A' ↔ v ∈ A)
    (h : ((B ++ A).map Var.name).Nodup) : ((B ++ A').map Var.name).Nodup := by
  rw [List.map_append] at h ⊢
  obtain ⟨hB, _, hd⟩ := List.nodup_append.mp h
  refine List.nodup_append.mpr ⟨hB, incBy_nodup _ _ hA, ?_⟩
  intro a ha b hb
  obtain ⟨w, hw, rfl⟩ := List.mem_map.mp hb
  exact hd a ha _ (List.mem_map.mpr ⟨w, (hmem w).mp hw, rfl⟩)

/-- what `Distribution.safe` guarantees -/
def DistOk (Q : Var → Prop) (c p : List Var) : Prop :=
  c ≠ [] ∧ incBy Var.name c = true ∧ incBy Var.name p = true ∧ ∀ v ∈ c ++ p, Q v

theorem distOk_upgrade (Q : Var → Prop) (vs c : List Var) (hcanon : ∀ v ∈ vs, Q v) (hnod : (vs.map Var.name).Nodup)
    (h : mkDist (upgradeOrdering vs) [] = .ok (c, ([] : List Var))) : DistOk Q c [] := by
  obtain ⟨hinc, hmem⟩ := incBy_upgradeOrdering vs hnod
  unfold mkDist at h
  split at h
  · cases h
  · rename_i hne
    cases h
    refine ⟨by intro h0; simp [h0] at hne, hinc, rfl, ?_⟩
    intro v hv
    simp only [List.append_nil] at hv
    exact hcanon v ((hmem v).mp hv)

theorem distOk_distSafeExt (Q : Var → Prop) (ext : List Val) (c p : List Var) (hcanon : ∀ v ∈ argVars ext, Q v)
    (hnod : ((argVars ext).map Var.name).Nodup) (h : distSafeExt ext = .ok (c, p)) : DistOk Q c p := by
  unfold distSafeExt at h
  split at h
  · -- no distribution among the arguments
    cases hm : ext.mapM asVar with
    | error e => simp [hm, bind, Except.bind] at h
    | ok vs =>
      have hext := mapM_asVar_ok ext vs hm
      rw [hext, argVars_vars] at hcanon hnod
      simp only [hm, bind, Except.bind] at h
      unfold mkDist at h
      split at h
      · cases h
      · rename_i hne
        cases h
        obtain ⟨hinc, hmem⟩ := incBy_upgradeOrdering vs hnod
        refine ⟨by intro h0; simp [h0] at hne, hinc, rfl, ?_⟩
        intro v hv
        simp only [List.append_nil] at hv
        exact hcanon v ((hmem v).mp hv)
  · -- exactly one distribution
    split at h
    · rename_i dc dp post hdrop
      cases hpre : (ext.takeWhile fun x => !isDistVal x).mapM asVar with
      | error e => simp [hpre, bind, Except.bind] at h
      | ok pre' =>
        cases hpost : post.mapM asVar with
        | error e => simp [hpre, hpost, bind, Except.bind] at h
        | ok post' =>
          simp only [hpre, hpost, bind, Except.bind] at h
          have hsplit : ext = pre'.map Val.var ++ Val.dist dc dp :: post'.map Val.var := by
            rw [← mapM_asVar_ok _ pre' hpre, ← mapM_asVar_ok post post' hpost, ← hdrop]
            exact (List.takeWhile_append_dropWhile).symm
          have hav : argVars ext = pre' ++ ((dc ++ dp) ++ post') := by
            rw [hsplit, argVars_append, argVars_vars]
            simp only [argVars, List.flatMap_cons, valVars]
            congr 1
            have := argVars_vars post'
            simpa [argVars] using this
          rw [hav] at hcanon hnod
          have hpreN : (pre'.map Var.name).Nodup := by
            rw [List.map_append] at hnod; exact (List.nodup_append.mp hnod).1
          have hpostN : (post'.map Var.name).Nodup := by
            simp only [List.map_append] at hnod
            exact (List.nodup_append.mp (List.nodup_append.mp hnod).2.1).2.1
          obtain ⟨hupI, hupM⟩ := incBy_upgradeOrdering pre' hpreN
          obtain ⟨hupI2, hupM2⟩ := incBy_upgradeOrdering post' hpostN
          -- names of the new children / parents are pairwise distinct
          have hcN : ((upgradeOrdering pre' ++ dc).map Var.name).Nodup := by
            apply nodup_swap_left pre' _ dc hupI hupM
            have : (pre' ++ dc).Sublist (pre' ++ ((dc ++ dp) ++ post')) := by
              apply List.Sublist.append_left
              rw [List.append_assoc]
              exact List.sublist_append_left dc (dp ++ post')
            exact (hnod.sublist (this.map Var.name))
          have hpN : ((dp ++ upgradeOrdering post').map Var.name).Nodup := by
            apply nodup_swap_right post' _ dp hupI2 hupM2
            have : (dp ++ post').Sublist (pre' ++ ((dc ++ dp) ++ post')) := by
              apply List.Sublist.trans _ (List.sublist_append_right pre' _)
              rw [List.append_assoc]
              exact List.sublist_append_right dc (dp ++ post')
            exact (hnod.sublist (this.map Var.name))
          unfold mkDist at h
          split at h
          · cases h
          · rename_i hne
            cases h
            refine ⟨by intro h0; simp [h0] at hne, incBy_sortBy Var.name Var.keyLt agrees_keyLt _ hcN,
              incBy_sortBy Var.name Var.keyLt agrees_keyLt _ hpN, ?_⟩
            intro v hv
            apply hcanon v
            rcases List.mem_append.mp hv with hv | hv
            · have := (mem_sortBy' Var.keyLt).mp hv
              rcases List.mem_append.mp this with h1 | h1
              · exact List.mem_append_left _ ((hupM v).mp h1)
              · exact List.mem_append_right _ (List.mem_append_left _ (List.mem_append_left _ h1))
            · have := (mem_sortBy' Var.keyLt).mp hv
              rcases List.mem_append.mp this with h1 | h1
              · exact List.mem_append_right _ (List.mem_append_left _ (List.mem_append_right _ h1))
              · exact List.mem_append_right _ (List.mem_append_right _ ((hupM2 v).mp h1))
    · cases h
  · cases h

theorem distOk_distSafe (Q : Var → Prop) (args : List Val) (c p : List Var) (hcanon : ∀ v ∈ argVars args, Q v)
    (hnod : ((argVars args).map Var.name).Nodup) (h : distSafe args = .ok (c, p)) : DistOk Q c p := by
  cases args with
  | nil => simp [distSafe] at h
  | cons a rest =>
    cases a with
    | tuple xs =>
      simp only [distSafe] at h
      split at h
      · cases h
      · rename_i hr
        have hrest : rest = [] := by simpa using hr
        subst hrest
        cases hm : xs.mapM asVar with
        | error e => simp [hm, bind, Except.bind] at h
        | ok vs =>
          have hxs := mapM_asVar_ok xs vs hm
          have hav : argVars [Val.tuple xs] = vs := by
            simp [argVars, valVars, hxs, filterMap_vars]
          rw [hav] at hcanon hnod
          simp only [hm, bind, Except.bind] at h
          cases p with
          | nil => exact distOk_upgrade Q vs c hcanon hnod h
          | cons q qs =>
            unfold mkDist at h
            split at h <;> cases h
    | var v => exact distOk_distSafeExt Q _ c p hcanon hnod (by simpa [distSafe] using h)
    | dist dc dp => exact distOk_distSafeExt Q _ c p hcanon hnod (by simpa [distSafe] using h)
    | expr _ => simp [distSafe] at h
    | pBuilder _ _ => simp [distSafe] at h
    | ppClass => simp [distSafe] at h
    | sumClass => simp [distSafe] at h
    | sumPartial _ => simp [distSafe] at h
    | qClass => simp [distSafe] at h
    | qPartial _ => simp [distSafe] at h
    | oneClass => simp [distSafe] at h
    | zeroClass => simp [distSafe] at h

variable (lt : Expr → Expr → Bool)

theorem built_prob_of_distOk (pop : Option Var) {c p : List Var} (h : DistOk (fun v => canonVar v = true) c p) (hpop : canonPop pop = true) :
    built lt (.prob pop c p) = true := by
  obtain ⟨hne, hc, hp, hall⟩ := h
  have hce : c.isEmpty = false := by cases c with | nil => exact absurd rfl hne | cons _ _ => rfl
  simp only [built, hce, hc, hp, hpop, Bool.not_false, Bool.true_and, Bool.and_true, Bool.and_eq_true, List.all_eq_true]
  exact ⟨fun v hv => hall v (List.mem_append_left _ hv), fun v hv => hall v (List.mem_append_right _ hv)⟩

/-- **`P(args…)` / `PP[pop](args…)` build a `built` probability** when the arguments are canonical variables (or one
`child | parents` distribution of such) with pairwise distinct names -/
theorem built_probSafe_plain (pop : Option Var) (args : List Val) (e : Expr)
    (hcanon : ∀ v ∈ argVars args, canonVar v = true) (hnod : ((argVars args).map Var.name).Nodup)
    (hpop : canonPop pop = true) (h : probSafe pop none args = .ok (.expr e)) : built lt e = true := by
  unfold probSafe at h
  cases hd : distSafe args with
  | error err => simp [hd, bind, Except.bind] at h
  | ok cp =>
    obtain ⟨c, p⟩ := cp
    simp only [hd, bind, Except.bind, pure, Except.pure, Except.ok.injEq, Val.expr.injEq] at h
    subst h
    exact built_prob_of_distOk lt pop (distOk_distSafe _ args c p hcanon hnod hd) hpop

theorem mapM_varIntervene (vs : List Var) : ∀ (l r : List Var), l.mapM (varIntervene · vs) = .ok r →
    (∀ v ∈ l, canonVar v = true ∧ (v.ivs.map Iv.name ++ vs.map Var.name).Nodup) →
    r.map Var.name = l.map Var.name ∧ ∀ v ∈ r, canonVar v = true
  | [], r, h, _ => by simp [List.mapM_nil, pure, Except.pure] at h; subst h; simp
  | x :: xs, r, h, hl => by
    simp only [List.mapM_cons, bind, Except.bind] at h
    cases hx : varIntervene x vs with
    | error e => simp [hx] at h
    | ok x' =>
      cases hxs : xs.mapM (varIntervene · vs) with
      | error e => simp [hx, hxs] at h
      | ok xs' =>
        simp only [hx, hxs, pure, Except.pure, Except.ok.injEq] at h
        subst h
        obtain ⟨h1, h2⟩ := canonVar_varIntervene x x' vs (hl x (by simp)).1 (hl x (by simp)).2 hx
        obtain ⟨ih1, ih2⟩ := mapM_varIntervene vs xs xs' hxs (fun v hv => hl v (by simp [hv]))
        refine ⟨by simp [h2, ih1], ?_⟩
        intro v hv
        rcases List.mem_cons.mp hv with h | h
        · subst h; exact h1
        · exact ih2 v h

theorem incBy_of_names_eq {l r : List Var} (h : r.map Var.name = l.map Var.name) (hl : incBy Var.name l = true) :
    incBy Var.name r = true := by
  have h1 := incBy_map (fun n : Nat => n) Var.name Var.name (fun _ => rfl) r
  have h2 := incBy_map (fun n : Nat => n) Var.name Var.name (fun _ => rfl) l
  rw [← h1, h, h2]; exact hl

/-- **`P[ivs](args…)` / `PP[pop][ivs](args…)`** (and `P(args…) @ ivs`): also built, when moreover the new subscripts have
pairwise distinct names that differ from the subscripts already present -/
theorem built_probSafe_ivs (pop : Option Var) (args : List Val) (ivs : Val) (is : List Var) (e : Expr)
    (hcanon : ∀ v ∈ argVars args, canonVar v = true) (hnod : ((argVars args).map Var.name).Nodup)
    (hpop : canonPop pop = true) (hivs : hintVars ivs = .ok is) (hisN : (is.map Var.name).Nodup)
    (hfresh : ∀ v ∈ argVars args, ∀ i ∈ v.ivs, ∀ w ∈ is, i.name ≠ w.name)
    (h : probSafe pop (some ivs) args = .ok (.expr e)) : built lt e = true := by
  unfold probSafe at h
  cases hd : distSafe args with
  | error err => simp [hd, bind, Except.bind] at h
  | ok cp =>
    obtain ⟨c, p⟩ := cp
    have hok := distOk_distSafe (fun v => canonVar v = true) args c p hcanon hnod hd
    simp only [hd, bind, Except.bind, hivs] at h
    cases hdi : distIntervene c p is with
    | error err => simp [hdi] at h
    | ok cp' =>
      obtain ⟨c', p'⟩ := cp'
      simp only [hdi, pure, Except.pure, Except.ok.injEq, Val.expr.injEq] at h
      subst h
      obtain ⟨hne, hc, hp, hall⟩ := hok
      -- the members of c and p are arguments
      obtain ⟨hupI, hupM⟩ := incBy_upgradeOrdering is hisN
      have hmemArgs : ∀ v ∈ c ++ p, v ∈ argVars args := by
        intro v hv
        -- every variable of the distribution comes from the arguments
        exact (distOk_distSafe (fun v => v ∈ argVars args) args c p (fun v hv => hv) hnod hd).2.2.2 v hv
      have hside : ∀ v ∈ c ++ p, canonVar v = true ∧ (v.ivs.map Iv.name ++ (upgradeOrdering is).map Var.name).Nodup := by
        intro v hv
        refine ⟨hall v hv, ?_⟩
        have hcv := hall v hv
        unfold canonVar at hcv
        simp only [Bool.and_eq_true] at hcv
        refine List.nodup_append.mpr ⟨incBy_nodup _ _ hcv.1, incBy_nodup _ _ hupI, ?_⟩
        intro a ha b hb
        obtain ⟨i, hi, rfl⟩ := List.mem_map.mp ha
        obtain ⟨w, hw, rfl⟩ := List.mem_map.mp hb
        exact hfresh v (hmemArgs v hv) i hi w ((hupM w).mp hw)
      unfold distIntervene at hdi
      cases hmc : c.mapM (varIntervene · (upgradeOrdering is)) with
      | error err => simp [hmc, bind, Except.bind] at hdi
      | ok c1 =>
        cases hmp : p.mapM (varIntervene · (upgradeOrdering is)) with
        | error err => simp [hmc, hmp, bind, Except.bind] at hdi
        | ok p1 =>
          simp only [hmc, hmp, bind, Except.bind] at hdi
          unfold mkDist at hdi
          split at hdi
          · cases hdi
          · rename_i hne1
            cases hdi
            obtain ⟨hn1, hc1⟩ := mapM_varIntervene _ c c' hmc (fun v hv => hside v (List.mem_append_left _ hv))
            obtain ⟨hn2, hc2⟩ := mapM_varIntervene _ p p' hmp (fun v hv => hside v (List.mem_append_right _ hv))
            refine built_prob_of_distOk lt pop ⟨by intro h0; simp [h0] at hne1, incBy_of_names_eq hn1 hc,
              incBy_of_names_eq hn2 hp, ?_⟩ hpop
            intro v hv
            rcases List.mem_append.mp hv with h | h
            · exact hc1 v h
            · exact hc2 v h

theorem normVars_eq (vs : List Var) : normVars vs = upgradeOrdering vs := rfl

theorem upgradeOrdering_ne_nil {vs : List Var} (hne : vs ≠ []) (hnod : (vs.map Var.name).Nodup) : upgradeOrdering vs ≠ [] := by
  cases vs with
  | nil => exact absurd rfl hne
  | cons v r =>
    intro h0
    have := ((incBy_upgradeOrdering (v :: r) hnod).2 v).mpr (by simp)
    rw [h0] at this; cases this

/-- **`Q[cod](dom…)` builds a `built` Q factor** when domain and codomain are non-empty lists of canonical variables,
each with pairwise distinct names (`Q[…](())` with an empty domain is outside the quantifier) -/
theorem built_qSafe (cod : Val) (args : List Val) (cs : List Var) (e : Expr)
    (hcod : hintVars cod = .ok cs) (hcne : cs ≠ []) (hcN : (cs.map Var.name).Nodup) (hcc : ∀ v ∈ cs, canonVar v = true)
    (hcanon : ∀ v ∈ argVars args, canonVar v = true) (hnod : ((argVars args).map Var.name).Nodup)
    (hane : argVars args ≠ []) (h : qSafe cod args = .ok (.expr e)) : built lt e = true := by
  have hfin : ∀ dom : List Var, dom ≠ [] → (dom.map Var.name).Nodup → (∀ v ∈ dom, canonVar v = true) →
      built lt (.q (normVars dom) (normVars cs)) = true := by
    intro dom hdne hdN hdc
    obtain ⟨hi1, hm1⟩ := incBy_upgradeOrdering dom hdN
    obtain ⟨hi2, hm2⟩ := incBy_upgradeOrdering cs hcN
    have e1 : (upgradeOrdering dom).isEmpty = false := by
      cases hu : upgradeOrdering dom with
      | nil => exact absurd hu (upgradeOrdering_ne_nil hdne hdN)
      | cons _ _ => rfl
    have e2 : (upgradeOrdering cs).isEmpty = false := by
      cases hu : upgradeOrdering cs with
      | nil => exact absurd hu (upgradeOrdering_ne_nil hcne hcN)
      | cons _ _ => rfl
    simp only [normVars_eq, built, e1, e2, hi1, hi2, Bool.not_false, Bool.true_and, Bool.and_eq_true, List.all_eq_true]
    exact ⟨fun v hv => hdc v ((hm1 v).mp hv), fun v hv => hcc v ((hm2 v).mp hv)⟩
  cases args with
  | nil => simp [qSafe] at h
  | cons a rest =>
    cases a with
    | var v =>
      simp only [qSafe] at h
      cases hm : rest.mapM asVar with
      | error err => simp [hm, bind, Except.bind] at h
      | ok rs =>
        simp only [hm, hcod, bind, Except.bind, pure, Except.pure, Except.ok.injEq, Val.expr.injEq] at h
        subst h
        have hrest := mapM_asVar_ok rest rs hm
        have hav : argVars (Val.var v :: rest) = v :: rs := by
          rw [hrest]; simpa [argVars, valVars] using argVars_vars rs
        rw [hav] at hcanon hnod
        have hrsN : (rs.map Var.name).Nodup := by
          simp only [List.map_cons, List.nodup_cons] at hnod; exact hnod.2
        obtain ⟨hupI, hupM⟩ := incBy_upgradeOrdering rs hrsN
        apply hfin (v :: upgradeOrdering rs) (by simp)
        · have := nodup_swap_right rs _ [v] hupI hupM (by simpa using hnod)
          simpa using this
        · intro w hw
          rcases List.mem_cons.mp hw with h1 | h1
          · subst h1; exact hcanon _ (by simp)
          · exact hcanon w (by simp [(hupM w).mp h1])
    | tuple xs =>
      simp only [qSafe] at h
      split at h
      · cases h
      · rename_i hr
        have hrest : rest = [] := by simpa using hr
        subst hrest
        cases hm : xs.mapM asVar with
        | error err => simp [hm, bind, Except.bind] at h
        | ok ds =>
          simp only [hm, hcod, bind, Except.bind, pure, Except.pure, Except.ok.injEq, Val.expr.injEq] at h
          subst h
          have hxs := mapM_asVar_ok xs ds hm
          have hav : argVars [Val.tuple xs] = ds := by
            simp [argVars, valVars, hxs, filterMap_vars]
          rw [hav] at hcanon hnod hane
          exact hfin ds hane hnod hcanon
    | dist _ _ => simp [qSafe] at h
    | expr _ => simp [qSafe] at h
    | pBuilder _ _ => simp [qSafe] at h
    | ppClass => simp [qSafe] at h
    | sumClass => simp [qSafe] at h
    | sumPartial _ => simp [qSafe] at h
    | qClass => simp [qSafe] at h
    | qPartial _ => simp [qSafe] at h
    | oneClass => simp [qSafe] at h
    | zeroClass => simp [qSafe] at h

end PyEval
end Y0
