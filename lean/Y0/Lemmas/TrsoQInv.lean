/-
  Y0.Lemmas.TrsoQInv — the graph-level invariant of the TRSO recursion in ALL its phases:

    T0  target domain, experiments still usable (`active = []`, `surr ≠ []`): every graph of the query has the same
        regular part (non-selection nodes and the directed edges leaving them) as the current graph;
    T1  target domain after a line 10 (`surr = []`);
    S   inside a source domain after line 6 (`active ≠ []`): the current graph is a selection diagram; every child of a
        selection node is a target intervention (this is what the positive separation test of line 6 guarantees), so
        line 3 moves the selection nodes into `X` before line 4 can split on them.

  Generalises `TInv` of TrsoGraphInv (which is the T0/T1 part under "no experiment is declared").
-/
import Y0.Lemmas.TrsoGraphInv
import Y0.Lemmas.TrsoSep

namespace Y0
namespace Trso
open TrDsl MG

/-- same regular part: same non-selection nodes, same directed edges leaving non-selection nodes -/
def RegEq (g G : MG Name) : Prop :=
  (∀ v, isTnode v = false → (v ∈ g.nodes ↔ v ∈ G.nodes)) ∧
  (∀ e : Name × Name, isTnode e.1 = false → (e ∈ g.di ↔ e ∈ G.di))

/-- the phase-dependent part of the invariant -/
def Phase (q : Query) (G : MG Name) : Prop :=
  (q.active = [] ∧ q.domain = targetPop ∧ (∀ v ∈ G.nodes, isTnode v = false) ∧
    (q.surr = [] ∨ ((∀ p ∈ q.graphs, p.1 ≠ targetPop → ∃ Z, lookup q.surr p.1 = .ok Z) ∧
                    (∀ p ∈ q.graphs, RegEq p.2 G))))
  ∨ (q.active ≠ [] ∧ ∀ e ∈ G.di, isTnode e.1 = true → e.2 ∈ q.X)

/-- Invariant of every query met by a TRSO run that starts in `identify_target_outcomes`; `G` is the current graph,
`M` bounds the size of every graph of the query. -/
structure QInv (M : Nat) (q : Query) (G : MG Name) : Prop where
  look : lookup q.graphs q.domain = .ok G
  wf : ∀ p ∈ q.graphs, p.2.WF
  rk : ∀ p ∈ q.graphs, p.2.Ranked
  /-- selection nodes have no parents -/
  tpl : ∀ p ∈ q.graphs, ∀ e ∈ p.2.di, isTnode e.2 = false
  /-- no bidirected edge touches a selection node -/
  tbi : ∀ p ∈ q.graphs, ∀ e ∈ p.2.bi, isTnode e.1 = false ∧ isTnode e.2 = false
  Yin : ∀ p ∈ q.graphs, ∀ y ∈ q.Y, y ∈ p.2.nodes
  YT : ∀ y ∈ q.Y, isTnode y = false
  Yne : q.Y ≠ []
  Xin : ∀ x ∈ q.X, x ∈ G.nodes
  XY : ∀ y ∈ q.Y, y ∉ q.X
  /-- the regular part of the current graph is contained in every graph of the query -/
  sub : ∀ p ∈ q.graphs, (∀ v ∈ G.nodes, isTnode v = false → v ∈ p.2.nodes) ∧
    (∀ e ∈ G.di, isTnode e.1 = false → e ∈ p.2.di)
  size : ∀ p ∈ q.graphs, p.2.nodes.length ≤ M
  phase : Phase q G

theorem QInv.cur {M q G} (h : QInv M q G) : (q.domain, G) ∈ q.graphs := lookup_key h.look
theorem QInv.wfG {M q G} (h : QInv M q G) : G.WF := h.wf _ h.cur
theorem QInv.rkG {M q G} (h : QInv M q G) : G.Ranked := h.rk _ h.cur
theorem QInv.YinG {M q G} (h : QInv M q G) : ∀ y ∈ q.Y, y ∈ G.nodes := h.Yin _ h.cur
theorem QInv.sizeG {M q G} (h : QInv M q G) : G.nodes.length ≤ M := h.size _ h.cur
theorem QInv.tplG {M q G} (h : QInv M q G) : ∀ e ∈ G.di, isTnode e.2 = false := h.tpl _ h.cur
theorem QInv.tbiG {M q G} (h : QInv M q G) : ∀ e ∈ G.bi, isTnode e.1 = false ∧ isTnode e.2 = false := h.tbi _ h.cur

/-! ### the measure -/

/-- 1 while line 6 can still fire (the guard of `step67`) -/
def flag (q : Query) : Nat := if (q.active.isEmpty && !q.surr.isEmpty) = true then 1 else 0

/-- 1 while some selection node of the current graph is not yet a target intervention -/
def ind (q : Query) (G : MG Name) : Nat := if (transportNodes G).all (fun t => decide (t ∈ q.X)) = true then 0 else 1

/-- termination measure: (line 6 still possible, number of nodes, 2·(regular nodes outside X) + ind), lexicographic -/
def mu2 (M : Nat) (q : Query) (G : MG Name) : Nat :=
  flag q * ((M + 1) * (2 * M + 2)) + G.nodes.length * (2 * M + 2) + 2 * (diff' (regularNodes G) q.X).length + ind q G

theorem flag_le_one (q : Query) : flag q ≤ 1 := by unfold flag; split <;> omega
theorem ind_le_one (q : Query) (G : MG Name) : ind q G ≤ 1 := by unfold ind; split <;> omega

theorem regular_diff_le (q : Query) (G : MG Name) : (diff' (regularNodes G) q.X).length ≤ G.nodes.length :=
  Nat.le_trans (List.length_filter_le _ _) (List.length_filter_le _ _)

/-- the graph part of the measure is below one unit of the node count -/
theorem low_lt (M : Nat) (q : Query) (G : MG Name) (hG : G.nodes.length ≤ M) :
    2 * (diff' (regularNodes G) q.X).length + ind q G < 2 * M + 2 := by
  have := regular_diff_le q G
  have := ind_le_one q G
  omega

/-- (a) the current graph loses a node and line 6 does not become possible again -/
theorem mu2_lt_of_nodes {M : Nat} {q q' : Query} {G G' : MG Name} (hG : G.nodes.length ≤ M)
    (h : G'.nodes.length < G.nodes.length) (hf : flag q' ≤ flag q) : mu2 M q' G' < mu2 M q G := by
  unfold mu2
  have hl := low_lt M q' G' (by omega)
  have h2 : (G'.nodes.length + 1) * (2 * M + 2) ≤ G.nodes.length * (2 * M + 2) := Nat.mul_le_mul_right _ h
  have h3 : (G'.nodes.length + 1) * (2 * M + 2) = G'.nodes.length * (2 * M + 2) + (2 * M + 2) := by ring
  have h4 : flag q' * ((M + 1) * (2 * M + 2)) ≤ flag q * ((M + 1) * (2 * M + 2)) := Nat.mul_le_mul_right _ hf
  omega

/-- (b) same graph, same flag, the low part decreases -/
theorem mu2_lt_of_low {M : Nat} {q q' : Query} {G : MG Name} (hf : flag q' = flag q)
    (h : 2 * (diff' (regularNodes G) q'.X).length + ind q' G < 2 * (diff' (regularNodes G) q.X).length + ind q G) :
    mu2 M q' G < mu2 M q G := by
  unfold mu2; rw [hf]; omega

/-- (c) line 6: the flag drops from 1 to 0 -/
theorem mu2_lt_of_flag {M : Nat} {q q' : Query} {G G' : MG Name} (hG' : G'.nodes.length ≤ M)
    (hf : flag q = 1) (hf' : flag q' = 0) : mu2 M q' G' < mu2 M q G := by
  unfold mu2
  rw [hf, hf']
  have hl := low_lt M q' G' hG'
  have h2 : G'.nodes.length * (2 * M + 2) ≤ M * (2 * M + 2) := Nat.mul_le_mul_right _ hG'
  have h3 : (M + 1) * (2 * M + 2) = M * (2 * M + 2) + (2 * M + 2) := by ring
  omega

/-- the budget of `trso` exceeds the measure of any query over graphs of size at most `M` -/
theorem mu2_lt_fuel (M : Nat) (q : Query) (G : MG Name) (hG : G.nodes.length ≤ M) :
    mu2 M q G < 4 * (M + 2) * (M + 2) := by
  unfold mu2
  have hl := low_lt M q G hG
  have hf := flag_le_one q
  have h1 : flag q * ((M + 1) * (2 * M + 2)) ≤ 1 * ((M + 1) * (2 * M + 2)) := Nat.mul_le_mul_right _ hf
  have h2 : G.nodes.length * (2 * M + 2) ≤ M * (2 * M + 2) := Nat.mul_le_mul_right _ hG
  have h3 : 4 * (M + 2) * (M + 2) = 1 * ((M + 1) * (2 * M + 2)) + M * (2 * M + 2) + (2 * M + 2) + (8 * M + 12) := by ring
  omega

/-- errors other than the `NotImplementedError` of `activate_domain_and_interventions` are excluded -/
def OnlyNIE {α} (x : Except Err α) : Prop := ∀ e, x = .error e → e = .internal "NotImplementedError"

theorem onlyNIE_ok {α} (a : α) : OnlyNIE (Except.ok a : Except Err α) := by intro e h; cases h

theorem onlyNIE_bind {α β} {x : Except Err α} {f : α → Except Err β} (hx : OnlyNIE x)
    (hf : ∀ a, x = .ok a → OnlyNIE (f a)) : OnlyNIE (x >>= f) := by
  cases x with
  | error e => intro e' h; simp [bind, Except.bind] at h; subst h; exact hx e rfl
  | ok a => exact hf a rfl

end Trso
end Y0
