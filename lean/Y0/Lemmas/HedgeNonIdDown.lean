/-
  Y0.Lemmas.HedgeNonIdDown — downward extension: if `z` is among the outcomes and `y → z` is an edge with `y, z ∉ X`,
  then identifiability of `P_x(Y)` implies identifiability of `P_x(y, Y)` (`identifiable_add_parent`): extend two
  indistinguishable models by a noisy copy of `y` inside `z`; the copy kernel is invertible, so agreement of the
  extended models on `P_x(Y)` forces agreement of the original ones on `P_x(y, Y)`.
  Consequently non-identifiability moves from a node to its child (`not_identifiable_child`).
-/
import Y0.Lemmas.HedgeNonIdCopyQ
import Y0.Lemmas.HedgeNonIdMono

namespace Y0
namespace NonId
open Finset

/-- the copy kernel is an invertible matrix -/
theorem cK_invert {m : Nat} (hm : 0 < m) (δ : Nat → Rat)
    (h : ∀ b < m, ∑ j ∈ range m, cK m b j * δ j = 0) : ∀ j < m, δ j = 0 := by
  have hm' : (m : Rat) ≠ 0 := by exact_mod_cast hm.ne'
  have hrow : ∀ b < m, ∑ j ∈ range m, cK m b j * δ j = 1 / 2 * δ b + 1 / (2 * m) * ∑ j ∈ range m, δ j := by
    intro b hb
    unfold cK
    simp only [add_mul, Finset.sum_add_distrib, ← Finset.mul_sum]
    congr 1
    have : ∀ j ∈ range m, (if b = j % m then (1 / 2 : Rat) else 0) * δ j = if b = j then 1 / 2 * δ j else 0 := by
      intro j hj
      rw [Nat.mod_eq_of_lt (Finset.mem_range.mp hj)]
      split <;> simp
    rw [Finset.sum_congr rfl this, Finset.sum_ite_eq (range m) b, if_pos (Finset.mem_range.mpr hb)]
  have htot : ∑ j ∈ range m, δ j = 0 := by
    have hs : ∑ b ∈ range m, (1 / 2 * δ b + 1 / (2 * m) * ∑ j ∈ range m, δ j) = 0 := by
      apply Finset.sum_eq_zero
      intro b hb
      rw [← hrow b (Finset.mem_range.mp hb)]
      exact h b (Finset.mem_range.mp hb)
    rw [Finset.sum_add_distrib, ← Finset.mul_sum, Finset.sum_const, Finset.card_range, nsmul_eq_mul] at hs
    have : (m : Rat) * (1 / (2 * m) * ∑ j ∈ range m, δ j) = 1 / 2 * ∑ j ∈ range m, δ j := by
      field_simp
    rw [this] at hs
    linarith
  intro j hj
  have := h j hj
  rw [hrow j hj, htot] at this
  linarith

theorem copyExt_obsEquiv {G : MG Name} {M₁ M₂ : Scm} (h₁ : M₁.Compatible G) (h₂ : M₂.Compatible G) (hG : G.WF)
    (he : ObsEquiv G M₁ M₂) {y z : Name} (hyz : (y, z) ∈ G.di) :
    ObsEquiv G (copyExt M₁ y z) (copyExt M₂ y z) := by
  have hz : z ∈ G.nodes := (hG.di_mem _ hyz).2
  have hy : y ∈ G.nodes := (hG.di_mem _ hyz).1
  have ck := he.card_eq z hz
  have cm := he.card_eq y hy
  constructor
  · intro v hv
    simp only [copyExt]
    split
    · rw [ck, cm]
    · exact he.card_eq v hv
  · intro σ hσ
    rw [copyExt_obs h₁ hG hyz, copyExt_obs h₂ hG hyz]
    unfold cF
    rw [ck, cm]
    congr 1
    rw [← ck]
    apply he.obs_eq
    intro v hv
    by_cases hvz : v = z
    · subst hvz
      rw [dec_same]
      exact Nat.mod_lt _ (h₁.card_pos v)
    · rw [dec_other _ _ _ hvz]
      have := hσ v hv
      simpa [copyExt, hvz] using this

/-- **adding a parent of an outcome to the outcomes preserves identifiability** -/
theorem identifiable_add_parent {G : MG Name} (hG : G.WF) {X Y : List Name} {y z : Name} (hyz : (y, z) ∈ G.di)
    (hne : y ≠ z) (hzY : z ∈ Y) (hzX : z ∉ X) (hyX : y ∉ X) (h : Identifiable G X Y) :
    Identifiable G X (y :: Y) := by
  by_cases hyY : y ∈ Y
  · exact identifiable_mono (fun v hv => by
      rcases List.mem_cons.mp hv with rfl | hv'
      · exact hyY
      · exact hv') h
  intro M₁ M₂ h₁ h₂ he σ hσ
  have hz : z ∈ G.nodes := (hG.di_mem _ hyz).2
  have hy : y ∈ G.nodes := (hG.di_mem _ hyz).1
  have ck := he.card_eq z hz
  have cm := he.card_eq y hy
  have hk := h₁.card_pos z
  have hm := h₁.card_pos y
  -- the extended models agree on `P_x(Y)` at every value of the copy component
  have key : ∀ b < M₁.card y, ∑ j ∈ range (M₁.card y), cK (M₁.card y) b j *
      (M₁.doProb G X (y :: Y) (σ.set y j) - M₂.doProb G X (y :: Y) (σ.set y j)) = 0 := by
    intro b hb
    have hσb : (copyExt M₁ y z).InRange G (σ.set z (σ z + M₁.card z * b)) := by
      intro v hv
      by_cases hvz : v = z
      · subst hvz
        rw [Val.set_same]
        simp only [copyExt, if_true]
        have := hσ v hv
        calc σ v + M₁.card v * b < M₁.card v + M₁.card v * b := by omega
          _ = M₁.card v * (b + 1) := by ring
          _ ≤ M₁.card v * M₁.card y := Nat.mul_le_mul_left _ hb
      · rw [Val.set_other σ _ hvz]
        simpa [copyExt, hvz] using hσ v hv
    have := h (copyExt M₁ y z) (copyExt M₂ y z) (copyExt_compatible h₁ hG hyz hne)
      (copyExt_compatible h₂ hG hyz hne) (copyExt_obsEquiv h₁ h₂ hG he hyz) _ hσb
    rw [copyExt_doProb h₁ hG hyz hne hzY hyY hzX hyX, copyExt_doProb h₂ hG hyz hne hzY hyY hzX hyX] at this
    have hdec : dec (M₁.card z) z (σ.set z (σ z + M₁.card z * b)) = σ := by
      rw [dec_set_same, Nat.add_mul_mod_self_left, Nat.mod_eq_of_lt (hσ z hz)]
      exact Val.set_self σ z
    have hdiv : (σ.set z (σ z + M₁.card z * b)) z / M₁.card z = b := by
      rw [Val.set_same, Nat.add_mul_div_left _ _ hk, Nat.div_eq_of_lt (hσ z hz), Nat.zero_add]
    rw [← ck, ← cm, hdec, hdiv] at this
    simp only [mul_sub, Finset.sum_sub_distrib]
    linarith
  have := cK_invert hm _ key (σ y) (hσ y hy)
  rw [Val.set_self] at this
  linarith

/-- **non-identifiability moves down an edge**: if `P_x(W)` is not identifiable, `y ∈ W` and `y → z` with `z ∉ X`,
then `P_x(z, W ∖ y)` is not identifiable either -/
theorem not_identifiable_child {G : MG Name} (hG : G.WF) {X W : List Name} {y z : Name} (hyz : (y, z) ∈ G.di)
    (hne : y ≠ z) (hzX : z ∉ X) (hyX : y ∉ X) (h : ¬ Identifiable G X W) :
    ¬ Identifiable G X (z :: W.filter (· ≠ y)) := by
  intro hid
  apply h
  have := identifiable_add_parent hG hyz hne (List.mem_cons_self ..) hzX hyX hid
  refine identifiable_mono ?_ this
  intro w hw
  by_cases hwy : w = y
  · subst hwy; exact List.mem_cons_self ..
  · exact List.mem_cons_of_mem _ (List.mem_cons_of_mem _ (List.mem_filter.mpr ⟨hw, by simpa using hwy⟩))

end NonId
end Y0
