/-
  Y0.Lemmas.TrsoInv — the vocabulary invariant carried through the TRSO recursion (engine of Props/C06Transport).

  A `Mode` fixes what the leaves of the CARRIED expression look like (`Lc`), what the leaves of a RESULT may look like
  (`Lr`) and which side conditions on (active interventions, domain, usable experiments) the recursion maintains (`ok`).
  Every block of `trsoF` preserves "carried leaves satisfy `Lc`, ranges are plain regular variables" and produces
  results whose leaves satisfy `Lr`.
-/
import Y0.Model.Trso
import Y0.Lemmas.TrsoVocab

namespace Y0
namespace Trso
open TrDsl

/-- a plain `Variable(name)` that is not a selection (transport) node -/
def PlainReg (v : Var) : Prop := v.ivs = [] ∧ v.star = none ∧ v.isIv = false ∧ isTnode v.name = false

theorem plainReg_plain {n : Name} (h : isTnode n = false) : PlainReg (Var.plain n) := ⟨rfl, rfl, rfl, h⟩

theorem mem_nsort (v : Name) (l : List Name) : v ∈ nsort l ↔ v ∈ l := by simp [nsort]

theorem regular_notT {G : MG Name} {v : Name} (h : v ∈ regularNodes G) : isTnode v = false := by
  simp [regularNodes] at h; exact h.2

theorem plainVars_reg {ns : List Name} (h : ∀ n ∈ ns, isTnode n = false) : ∀ v ∈ plainVars ns, PlainReg v := by
  intro v hv
  rcases (mem_plainVars v ns).1 hv with ⟨n, hn, rfl⟩
  exact plainReg_plain (h n hn)

structure Mode where
  Lc : Option Var → List Var → List Var → Prop
  Lr : Option Var → List Var → List Var → Prop
  ok : Query → Prop

structure Mode.Good (M : Mode) : Prop where
  monoC : LeafMono M.Lc
  monoR : LeafMono M.Lr
  sub : ∀ pop c p, M.Lc pop c p → M.Lr pop c p
  plain : ∀ pop c p, M.Lc pop c p → ∀ v ∈ c ++ p, PlainReg v
  fresh : ∀ q, M.ok q → ∀ c p, (∀ v ∈ c ++ p, PlainReg v) → M.Lc (some (popVar q.domain)) c p
  stable : ∀ q q', M.ok q → q'.active = q.active → q'.domain = q.domain → (q'.surr = q.surr ∨ q'.surr = []) → M.ok q'

abbrev WfC (M : Mode) (e : Expr) : Prop := Wf M.Lc PlainReg e
abbrev WfR (M : Mode) (e : Expr) : Prop := Wf M.Lr PlainReg e

variable {M : Mode}

theorem wfR_of_wfC (hg : M.Good) {e : Expr} (h : WfC M e) : WfR M e := wf_mono hg.sub e h

/-! ### Except plumbing -/

theorem bind_ok {α β} {x : Except Err α} {f : α → Except Err β} {b : β} (h : (x >>= f) = .ok b) :
    ∃ a, x = .ok a ∧ f a = .ok b := by
  cases x with
  | error e => simp [bind, Except.bind] at h
  | ok a => exact ⟨a, rfl, by simpa [bind, Except.bind] using h⟩

theorem map_ok {α β} {x : Except Err α} {f : α → β} {b : β} (h : (f <$> x) = .ok b) :
    ∃ a, x = .ok a ∧ f a = b := by
  cases x with
  | error e => simp [Functor.map, Except.map] at h
  | ok a => exact ⟨a, rfl, by simpa [Functor.map, Except.map] using h⟩

theorem mapM_ok {α β} {f : α → Except Err β} : ∀ {l : List α} {r : List β}, l.mapM f = .ok r →
    ∀ b ∈ r, ∃ a ∈ l, f a = .ok b := by
  intro l
  induction l with
  | nil => intro r h; simp [List.mapM_nil, pure, Except.pure] at h; subst h; simp
  | cons a as ih =>
    intro r h
    rw [List.mapM_cons] at h
    obtain ⟨b, hb, h⟩ := bind_ok h
    obtain ⟨bs, hbs, h⟩ := bind_ok h
    simp [pure, Except.pure] at h; subst h
    intro x hx
    rcases List.mem_cons.1 hx with rfl | hx
    · exact ⟨a, by simp, hb⟩
    · obtain ⟨a', ha', h'⟩ := ih hbs x hx; exact ⟨a', by simp [ha'], h'⟩

theorem mapM_ok_all {α β} {f : α → Except Err β} : ∀ {l : List α} {r : List β}, l.mapM f = .ok r →
    ∀ a ∈ l, ∃ b, f a = .ok b := by
  intro l
  induction l with
  | nil => intro r _ a ha; cases ha
  | cons a as ih =>
    intro r h
    rw [List.mapM_cons] at h
    obtain ⟨b, hb, h⟩ := bind_ok h
    obtain ⟨bs, hbs, _⟩ := bind_ok h
    intro x hx
    rcases List.mem_cons.1 hx with rfl | hx
    · exact ⟨b, hb⟩
    · exact ih hbs x hx

theorem foldlM_inv {α β} {f : β → α → Except Err β} (P : β → Prop) :
    ∀ {l : List α} {b r : β}, l.foldlM f b = .ok r → P b → (∀ acc a acc', a ∈ l → P acc → f acc a = .ok acc' → P acc') → P r := by
  intro l
  induction l with
  | nil => intro b r h hb _; simp [List.foldlM, pure, Except.pure] at h; subst h; exact hb
  | cons a as ih =>
    intro b r h hb hstep
    rw [List.foldlM_cons] at h
    obtain ⟨b', hb', h⟩ := bind_ok h
    exact ih h (hstep b a b' (by simp) hb hb') (fun acc x acc' hx => hstep acc x acc' (by simp [hx]))

theorem foldlM_ok_all {α β} {f : β → α → Except Err β} :
    ∀ {l : List α} {b r : β}, l.foldlM f b = .ok r → ∀ a ∈ l, ∃ acc acc', f acc a = .ok acc' := by
  intro l
  induction l with
  | nil => intro b r _ a ha; cases ha
  | cons a as ih =>
    intro b r h
    rw [List.foldlM_cons] at h
    obtain ⟨b', hb', h⟩ := bind_ok h
    intro x hx
    rcases List.mem_cons.1 hx with rfl | hx
    · exact ⟨b, b', hb'⟩
    · exact ih h x hx

theorem collectTerms_ok : ∀ {rs : List (Except Err (Option Expr))} {ts : List Expr},
    collectTerms rs = .ok (some ts) → ∀ t ∈ ts, Except.ok (some t) ∈ rs := by
  intro rs
  induction rs with
  | nil => intro ts h; simp [collectTerms] at h; subst h; simp
  | cons r rs ih =>
    intro ts h
    match r, h with
    | .error e, h => simp [collectTerms] at h
    | .ok none, h => simp [collectTerms] at h
    | .ok (some t0), h =>
      simp only [collectTerms] at h
      obtain ⟨o, ho, h⟩ := bind_ok h
      cases o with
      | none => simp [pure, Except.pure] at h
      | some ts' =>
        simp [pure, Except.pure] at h; subst h
        intro t ht
        rcases List.mem_cons.1 ht with rfl | ht
        · simp
        · exact List.mem_cons_of_mem _ (ih ho t ht)

/-! ### the blocks -/

theorem indexOf_mem {l : List Name} {v : Name} {i : Nat} (h : indexOf? l v = .ok i) : v ∈ l := by
  unfold indexOf? at h
  split at h
  · rename_i j hj
    have := List.findIdx?_eq_some_iff_getElem.1 hj
    obtain ⟨hlt, hp, _⟩ := this
    have : l[j] = v := by simpa using hp
    exact this ▸ List.getElem_mem hlt
  · cases h

theorem regularOrder_notT {G : MG Name} {o : List Name} (h : regularOrder G = .ok o) : ∀ v ∈ o, isTnode v = false := by
  unfold regularOrder at h
  obtain ⟨t, _, h⟩ := bind_ok h
  simp [pure, Except.pure] at h; subst h
  intro v hv; simp at hv; exact hv.2

theorem wf_ratioParts (hmono : LeafMono M.Lr) {e : Expr} {o : List Name} (i : Nat) (he : WfR M e)
    (ho : ∀ v ∈ o, isTnode v = false) : WfR M (ratioParts e o i).1 ∧ WfR M (ratioParts e o i).2 := by
  unfold ratioParts
  exact ⟨wf_sumSafe hmono false he (plainVars_reg fun n hn => ho n (List.mem_of_mem_drop hn)),
         wf_sumSafe hmono false he (plainVars_reg fun n hn => ho n (List.mem_of_mem_drop hn))⟩

theorem wf_line1 (hmono : LeafMono M.Lr) (Y : List Name) {e : Expr} (G : MG Name) (he : WfR M e) : WfR M (line1 Y e G) := by
  unfold line1
  exact wf_sumSafe hmono false he (plainVars_reg fun n hn => regular_notT (List.mem_filter.1 hn).1)

theorem step1_wf (hg : M.Good) {q : Query} {G : MG Name} {e : Expr} (he : WfC M q.expr)
    (h : step1 q G = .ok (some e)) : WfR M e := by
  unfold step1 at h
  obtain ⟨e', he', h⟩ := bind_ok h
  simp [pure, Except.pure] at h; subst h
  exact wf_canonicalize hg.monoR (wf_line1 hg.monoR _ _ (wfR_of_wfC hg he)) he'

theorem retag_wf (hg : M.Good) {q : Query} (hq : M.ok q) {s e : Expr} (hs : WfC M s) (h : retag q.domain s = .ok e) :
    WfC M e := by
  unfold retag at h
  split at h
  · rename_i pop c p
    cases h
    have hpl := hg.plain _ _ _ hs
    exact hg.fresh q hq c [] (fun v hv => hpl v (by simp at hv ⊢; exact Or.inl hv))
  · cases h
  · cases h; exact hs

theorem line2_inv (hg : M.Good) {q q' : Query} {anc : List Name} (hq : M.ok q) (he : WfC M q.expr)
    (h : line2 q anc = .ok q') : WfC M q'.expr ∧ M.ok q' := by
  unfold line2 at h
  obtain ⟨graphs, _, h⟩ := bind_ok h
  obtain ⟨g, _, h⟩ := bind_ok h
  obtain ⟨e2, he2, h⟩ := bind_ok h
  simp [pure, Except.pure] at h; subst h
  refine ⟨?_, hg.stable q _ hq rfl rfl (Or.inl rfl)⟩
  exact retag_wf hg hq (wf_sumSafe hg.monoC true he (plainVars_reg fun n hn => regular_notT (List.mem_filter.1 hn).1)) he2

theorem step2_wf (hg : M.Good) {rec : Rec} {q : Query} {anc : List Name} {e : Expr} (hq : M.ok q) (he : WfC M q.expr)
    (hrec : ∀ q' e', M.ok q' → WfC M q'.expr → rec q' = .ok (some e') → WfR M e')
    (h : step2 rec q anc = .ok (some e)) : WfR M e := by
  unfold step2 at h
  obtain ⟨q', hq', h⟩ := bind_ok h
  obtain ⟨r, hr, h⟩ := bind_ok h
  obtain ⟨hwf, hok⟩ := line2_inv hg hq he hq'
  exact wf_c14nSafe hg.monoR (fun a ha => hrec q' a hok hwf (ha ▸ hr)) h e rfl

theorem step3_wf (hg : M.Good) {rec : Rec} {q : Query} {extra : List Name} {e : Expr} (hq : M.ok q) (he : WfC M q.expr)
    (hrec : ∀ q' e', M.ok q' → WfC M q'.expr → rec q' = .ok (some e') → WfR M e')
    (h : step3 rec q extra = .ok (some e)) : WfR M e := by
  unfold step3 at h
  obtain ⟨r, hr, h⟩ := bind_ok h
  have hok : M.ok (line3 q extra) := hg.stable q _ hq rfl rfl (Or.inl rfl)
  exact wf_c14nSafe hg.monoR (fun a ha => hrec _ a hok (by simpa [line3] using he) (ha ▸ hr)) h e rfl

theorem step4_wf (hg : M.Good) {rec : Rec} {q : Query} {G : MG Name} {dwi : List (List Name)} {e : Expr}
    (hq : M.ok q) (he : WfC M q.expr)
    (hrec : ∀ q' e', M.ok q' → WfC M q'.expr → rec q' = .ok (some e') → WfR M e')
    (h : step4 rec q G dwi = .ok (some e)) : WfR M e := by
  unfold step4 at h
  obtain ⟨o, ho, h⟩ := bind_ok h
  cases o with
  | none => simp [pure, Except.pure] at h
  | some terms =>
    simp only [] at h
    obtain ⟨summand, hsum, h⟩ := bind_ok h
    obtain ⟨e', he', h⟩ := bind_ok h
    simp [pure, Except.pure] at h; subst h
    have hterms : WfList M.Lr PlainReg terms := by
      rw [wfList_iff]
      intro t ht
      have := collectTerms_ok ho t ht
      rcases List.mem_map.1 this with ⟨s, hs, hrs⟩
      unfold line4 at hs
      rcases List.mem_map.1 hs with ⟨c, _, rfl⟩
      refine hrec _ t ?_ ?_ hrs
      · exact hg.stable q _ hq rfl rfl (Or.inl rfl)
      · exact he
    have h1 := wf_canonicalize hg.monoR (wf_productSafe hterms) hsum
    exact wf_canonicalize hg.monoR
      (wf_sumSafe hg.monoR false h1 (plainVars_reg fun n hn => regular_notT (List.mem_filter.1 hn).1)) he'

theorem line9_wf (hg : M.Good) {q : Query} {G : MG Name} {c : List Name} {e : Expr} (he : WfC M q.expr)
    (h : line9 q G c = .ok e) : WfR M e := by
  unfold line9 at h
  have heR := wfR_of_wfC hg he
  split at h
  · cases h
  · obtain ⟨order, hord, h⟩ := bind_ok h
    have hordT := regularOrder_notT hord
    obtain ⟨prod, hprod, h⟩ := bind_ok h
    obtain ⟨prod', hprod', h⟩ := bind_ok h
    simp [pure, Except.pure] at h; subst h
    have hstepok : ∀ (acc : Expr) (node : Name) (acc' : Expr), WfR M acc →
        (do let i ← indexOf? order node
            let fr ← truediv (ratioParts q.expr order i).1 (ratioParts q.expr order i).2
            mul acc fr) = Except.ok acc' → WfR M acc' := by
      intro acc node acc' hacc hs
      obtain ⟨i, _, hs⟩ := bind_ok hs
      have hp := wf_ratioParts (M := M) hg.monoR i heR hordT
      obtain ⟨fr, hfr, hs⟩ := bind_ok hs
      exact wf_mul hacc (wf_truediv hp.1 hp.2 hfr) hs
    have hP : WfR M prod := foldlM_inv (fun x => WfR M x) hprod trivial
      (fun acc a acc' _ hacc hs => hstepok acc a acc' hacc hs)
    have hP' := wf_simplifyCast hg.monoR hP hprod'
    refine wf_sumSafe hg.monoR false hP' (plainVars_reg ?_)
    intro n hn
    have hn' : n ∈ nsort c := (mem_nsort n c).2 (List.mem_filter.1 hn).1
    obtain ⟨acc, acc', hs⟩ := foldlM_ok_all hprod n hn'
    obtain ⟨i, hi, _⟩ := bind_ok hs
    exact hordT n (indexOf_mem hi)

theorem line10_inv (hg : M.Good) {q q' : Query} {G : MG Name} {c : List Name} {s : List (Pop × List Name)}
    (hq : M.ok q) (he : WfC M q.expr) (hs : s = q.surr ∨ s = []) (h : line10 q G c s = .ok q') :
    WfC M q'.expr ∧ M.ok q' := by
  unfold line10 at h
  obtain ⟨order, hord, h⟩ := bind_ok h
  have hordT := regularOrder_notT hord
  simp only [] at h
  obtain ⟨factors, hfac, h⟩ := bind_ok h
  obtain ⟨e', he', h⟩ := bind_ok h
  simp [pure, Except.pure] at h; subst h
  refine ⟨?_, hg.stable q _ hq rfl rfl hs⟩
  simp only []
  refine wf_canonicalize hg.monoC (wf_productSafe ?_) he'
  rw [wfList_iff]
  intro f hf
  obtain ⟨node, _, hnode⟩ := mapM_ok hfac f hf
  unfold line10Factor at hnode
  obtain ⟨i, hi, hnode⟩ := bind_ok hnode
  split at hnode
  · simp [pure, Except.pure] at hnode; subst hnode
    refine hg.fresh q hq _ _ ?_
    intro v hv
    rcases List.mem_append.1 hv with hv | hv
    · simp at hv; subst hv; exact plainReg_plain (hordT node (indexOf_mem hi))
    · exact plainVars_reg (fun n hn => hordT n (List.mem_of_mem_take hn)) v hv
  · have hp := wf_ratioParts (M := ⟨M.Lc, M.Lc, M.ok⟩) hg.monoC i he hordT
    exact wf_truediv hp.1 hp.2 hnode

theorem line10Surr_cases {q : Query} {G : MG Name} {c' : List Name} {s : List (Pop × List Name)}
    (h : line10Surr q G c' = .ok (some s)) : s = q.surr ∨ s = [] := by
  unfold line10Surr at h
  split at h
  · cases h; exact Or.inr rfl
  · split at h
    · cases h
    · cases h
    · cases h; exact Or.inl rfl

theorem step811_wf (hg : M.Good) {rec : Rec} {q : Query} {G : MG Name} {dwi : List (List Name)} {e : Expr}
    (hq : M.ok q) (he : WfC M q.expr)
    (hrec : ∀ q' e', M.ok q' → WfC M q'.expr → rec q' = .ok (some e') → WfR M e')
    (h : step811 rec q G dwi = .ok (some e)) : WfR M e := by
  unfold step811 at h
  split at h
  · cases h
  · split at h
    · cases h
    · rename_i c rest
      split at h
      · obtain ⟨e9, he9, h⟩ := bind_ok h
        obtain ⟨ec, hec, h⟩ := bind_ok h
        simp [pure, Except.pure] at h; subst h
        exact wf_canonicalize hg.monoR (line9_wf hg he he9) hec
      · split at h
        · rename_i c' _
          obtain ⟨surr', hsurr, h⟩ := bind_ok h
          cases surr' with
          | none => simp [pure, Except.pure] at h
          | some s =>
            simp only [] at h
            obtain ⟨q', hq', h⟩ := bind_ok h
            obtain ⟨r, hr, h⟩ := bind_ok h
            obtain ⟨hwf, hok⟩ := line10_inv hg hq he (line10Surr_cases hsurr) hq'
            exact wf_c14nSafe hg.monoR (fun a ha => hrec q' a hok hwf (ha ▸ hr)) h e rfl
        · cases h

/-- one unfolding of the recursion keeps the invariant, given it for the recursive calls and for lines 6/7 -/
theorem trsoF_step (hg : M.Good) (sep : SepTest) (fuel : Nat)
    (hrec : ∀ q' e', M.ok q' → WfC M q'.expr → trsoF sep fuel q' = .ok (some e') → WfR M e')
    (h67 : ∀ q e, M.ok q → WfC M q.expr → step67 sep (trsoF sep fuel) q = .ok (some e) → WfR M e)
    {q : Query} {e : Expr} (hq : M.ok q) (he : WfC M q.expr) (h : trsoF sep (fuel + 1) q = .ok (some e)) : WfR M e := by
  unfold trsoF at h
  obtain ⟨G, _, h⟩ := bind_ok h
  split at h
  · exact step1_wf hg he h
  · obtain ⟨anc, _, h⟩ := bind_ok h
    split at h
    · exact step2_wf hg hq he hrec h
    · obtain ⟨extra, _, h⟩ := bind_ok h
      split at h
      · exact step3_wf hg hq he hrec h
      · simp only [] at h
        split at h
        · exact step4_wf hg hq he hrec h
        · obtain ⟨via, hvia, h⟩ := bind_ok h
          cases via with
          | some e67 =>
            simp only [] at h
            obtain ⟨ec, hec, h⟩ := bind_ok h
            simp [pure, Except.pure] at h; subst h
            exact wf_canonicalize hg.monoR (h67 q e67 hq he hvia) hec
          | none => exact step811_wf hg hq he hrec h

end Trso
end Y0
