/-
  Y0.Lemmas.IdObs — the observational terms `P(C | Pa)` of an estimand, read in the family `M.env G` of a model
  (Y0/Spec/Scm.lean), are ratios of marginals `Σ_{V ∖ S} Q[V]` of the model's joint.
-/
import Y0.Lemmas.IdDen

namespace Y0
open IdDsl IdAux

/-! ### `DependsOnly` algebra -/

theorem IdAux.dependsOnly_mul {f g : Val → Rat} {S : List Name} (hf : DependsOnly f S) (hg : DependsOnly g S) :
    DependsOnly (fun σ => f σ * g σ) S := fun σ τ h => by simp only [hf σ τ h, hg σ τ h]

theorem IdAux.dependsOnly_map_prod {α : Type} (l : List α) (F : α → Val → Rat) (S : List Name)
    (h : ∀ a ∈ l, DependsOnly (F a) S) : DependsOnly (fun σ => (l.map fun a => F a σ).prod) S := by
  intro σ τ hστ
  induction l with
  | nil => rfl
  | cons a l ih =>
    have h2 := ih (fun b hb => h b (List.mem_cons_of_mem _ hb))
    simp only [List.map_cons, List.prod_cons] at h2 ⊢
    rw [h a List.mem_cons_self σ τ hστ, h2]

theorem IdAux.sumVar_dependsOnly (card : Name → Nat) (x : Name) {f : Val → Rat} {S : List Name}
    (h : DependsOnly f (x :: S)) : DependsOnly (sumVar card x f) S := by
  intro σ τ hστ
  simp only [sumVar_eq_sum]
  refine Finset.sum_congr rfl fun k _ => h _ _ ?_
  intro v hv
  rcases List.mem_cons.mp hv with rfl | hv
  · simp
  · by_cases hvx : v = x
    · subst hvx; simp
    · simp [Val.set, hvx, hστ v hv]

theorem IdAux.sumVars_dependsOnly (card : Name → Nat) (xs : List Name) {f : Val → Rat} {S : List Name}
    (h : DependsOnly f (xs ++ S)) : DependsOnly (sumVars card xs f) S := by
  induction xs generalizing S with
  | nil => simpa [sumVars] using h
  | cons x xs ih =>
    simp only [sumVars]
    apply sumVar_dependsOnly
    apply ih
    apply h.mono
    intro v hv
    simp only [List.mem_append, List.mem_cons] at hv ⊢
    tauto

namespace Scm
variable {M : Scm} {G : MG Name}

/-- `Q[S]` depends on the assignment only through `S` and the parents of `S` -/
theorem Q_dependsOnly (hM : M.Compatible G) (S : List Name) (hS : ∀ v ∈ S, v ∈ G.nodes) (T : List Name)
    (hT : ∀ v ∈ S, v ∈ T ∧ ∀ u ∈ G.parents v, u ∈ T) : DependsOnly (M.Q S) T := by
  unfold Q
  apply sumVars_dependsOnly
  unfold weight
  apply dependsOnly_mul
  · apply dependsOnly_map_prod
    intro u hu σ τ h
    show M.prior u (σ u) = M.prior u (τ u)
    rw [h u (List.mem_append_left _ hu)]
  · apply dependsOnly_map_prod
    intro v hv
    apply (hM.kern_dep v (hS v hv)).mono
    intro w hw
    simp only [List.cons_append, List.mem_cons, List.mem_append] at hw
    rcases hw with rfl | hw | hw
    · exact List.mem_append_right _ (hT w hv).1
    · exact List.mem_append_right _ ((hT v hv).2 w hw)
    · exact List.mem_append_left _ (hM.latOf_sub v w hw)

/-- the observational marginal `P(S)` of the model, read at the assignment -/
def obsMarg (M : Scm) (G : MG Name) (S : List Name) : Val → Rat :=
  sumVars M.card (G.nodes.filter (· ∉ S)) (M.Q G.nodes)

theorem obsMarg_dependsOnly (hM : M.Compatible G) (hG : G.WF) (S : List Name) :
    DependsOnly (M.obsMarg G S) S := by
  unfold obsMarg
  apply sumVars_dependsOnly
  apply Q_dependsOnly hM G.nodes (fun _ h => h)
  intro v hv
  have key : ∀ w, w ∈ G.nodes → w ∈ G.nodes.filter (· ∉ S) ++ S := by
    intro w hw
    by_cases hwS : w ∈ S
    · exact List.mem_append_right _ hwS
    · exact List.mem_append_left _ (List.mem_filter.mpr ⟨hw, by simpa using hwS⟩)
  exact ⟨key v hv, fun u hu => key u (hG.di_mem _ (MG.mem_parents.mp hu)).1⟩

theorem setMany_apply (σ τ : Val) (names : List Name) (x : Name) :
    Val.setMany τ (names.map fun n => (n, σ n)) x = if x ∈ names then σ x else τ x := by
  induction names generalizing τ with
  | nil => simp [Val.setMany]
  | cons n names ih =>
    simp only [List.map_cons, Val.setMany, ih, List.mem_cons]
    by_cases hx : x ∈ names
    · simp [hx]
    · by_cases hxn : x = n
      · subst hxn; simp [hx, Val.set]
      · simp [hx, hxn, Val.set]

theorem consistent_names (σ : Val) (names : List Name) :
    consistent (names.map fun n => (n, σ n)) = true := by
  unfold consistent
  simp only [List.all_eq_true, List.mem_map, Bool.or_eq_true, bne_iff_ne, ne_eq, beq_iff_eq,
    forall_exists_index, and_imp]
  rintro a n _ rfl b m _ rfl
  by_cases h : n = m
  · subst h; exact Or.inr rfl
  · exact Or.inl h

/-- total mass: the joint sums to one -/
theorem obsMarg_nil (hM : M.Compatible G) (hG : G.WF) (hrank : G.Ranked) (σ : Val) : M.obsMarg G [] σ = 1 := by
  unfold obsMarg
  have : G.nodes.filter (· ∉ ([] : List Name)) = G.nodes := by simp
  rw [this]
  have := Q_ancestral hM hrank [] G.nodes (by simpa using hG.nodup) (by simp) (by simp)
  simp only [List.nil_append] at this
  rw [this, Q_nil hM]

theorem prDo_nil (hM : M.Compatible G) (hG : G.WF) (σ : Val) (names : List Name) :
    M.prDo G [] (names.map fun m => (m, σ m)) = M.obsMarg G names σ := by
  unfold prDo
  simp only [List.nil_append, consistent_names, Bool.not_true, Bool.false_eq_true, if_false, List.map_nil,
    List.not_mem_nil, not_false_eq_true, true_and, decide_true, List.filter_true]
  have hE : (names.map fun m => (m, σ m)).map (·.1) = names := by simp [Function.comp_def]
  rw [hE]
  apply obsMarg_dependsOnly hM hG names
  intro v hv
  rw [setMany_apply]
  simp [hv]

/-- the probability the family `M.env G` assigns to the conjunction `⋀_{n ∈ names} n = σ n` -/
theorem prAtoms_plain (hM : M.Compatible G) (hG : G.WF) (hrank : G.Ranked) (σ σ' : Val) (names : List Name) :
    M.prAtoms G (names.map fun n => Var.atom σ σ' (Var.plain n)) = M.obsMarg G names σ := by
  cases names with
  | nil => simp [prAtoms, obsMarg_nil hM hG hrank]
  | cons n names =>
    simp only [List.map_cons, prAtoms]
    have hall : (names.map fun n => Var.atom σ σ' (Var.plain n)).all
        (fun b => b.dos == (Var.atom σ σ' (Var.plain n)).dos) = true := by
      simp [Var.atom, Var.plain]
    rw [hall]
    simp only [if_true]
    have hdos : (Var.atom σ σ' (Var.plain n)).dos = [] := rfl
    have hev : ((Var.atom σ σ' (Var.plain n)).name, (Var.atom σ σ' (Var.plain n)).val) ::
        (names.map fun n => Var.atom σ σ' (Var.plain n)).map (fun b => (b.name, b.val)) =
        (n :: names).map fun m => (m, σ m) := by
      simp [Var.atom, Var.plain, Var.value, Function.comp_def]
    rw [hdos, hev]
    exact prDo_nil hM hG σ (n :: names)

end Scm

/-- `P(child | parents)` read in the observational family of a model is a ratio of two marginals -/
theorem den_pCond {M : Scm} {G : MG Name} (hM : M.Compatible G) (hG : G.WF) (hrank : G.Ranked) (σ' : Val)
    (child : Name) (parents : List Name) (σ : Val) :
    den (M.env G) σ' (pCond child parents) σ =
      M.obsMarg G (child :: sortNames parents) σ / M.obsMarg G (sortNames parents) σ := by
  unfold pCond plainVars
  simp only [den, Option.map_none, Scm.env]
  have h1 : (([Var.plain child] ++ (sortNames parents).map Var.plain).map (Var.atom σ σ')) =
      (child :: sortNames parents).map (fun n => Var.atom σ σ' (Var.plain n)) := by
    simp [Function.comp_def]
  have h2 : (((sortNames parents).map Var.plain).map (Var.atom σ σ')) =
      (sortNames parents).map (fun n => Var.atom σ σ' (Var.plain n)) := by
    simp [Function.comp_def]
  rw [h1, h2, Scm.prAtoms_plain hM hG hrank, Scm.prAtoms_plain hM hG hrank]

end Y0
