/-
  Y0.Lemmas.CfIdcTerm — termination of IDC*'s own line-4 recursion on the inputs in which no variable NAME occurs both
  among the outcomes and among the conditions.

  * the merge loop of `make_counterfactual_graph` only renames event keys to keys of the same name: for every predicate on
    names the number of keys satisfying it never grows (`cg_count_le`);
  * hence `get_new_outcomes_and_conditions` returns at most `|conditions|` conditions, all named like old conditions, and
    outcomes named like old outcomes (`reassoc_spec`);
  * the exchange step renames outcomes only in their subscripts and removes one condition, so `|conditions|` strictly
    decreases along the recursion: `|conditions| + 1` units of fuel are never exhausted (`idcStarO_isSome`).

  `idcStarO` is the IDC* model with the exhaustion of ITS OWN fuel made observable (`none`); `idcStarFuel_eq_idcStarO` shows
  it is the model.
-/
import Y0.Lemmas.CfIdcStar
import Y0.Lemmas.CfIdcCollapse
import Y0.Lemmas.CfTermC

namespace Y0
namespace Cf

/-! ### counting keys by name through the merge loop -/

theorem countP_filter_ne_add {α} [DecidableEq α] (p : α → Bool) (e : α) (l : List α) (he : e ∈ l) :
    (l.filter (fun x => decide (x ≠ e))).countP p + (if p e then 1 else 0) ≤ l.countP p := by
  induction l with
  | nil => cases he
  | cons x xs ih =>
    have hle : (xs.filter (fun y => decide (y ≠ e))).countP p ≤ xs.countP p := by
      rw [List.countP_filter]
      exact List.countP_mono_left (fun y _ hy => by simp only [Bool.and_eq_true] at hy; exact hy.1)
    by_cases hx : x = e
    · subst hx
      rw [List.filter_cons_of_neg (by simp), List.countP_cons]
      omega
    · have he' : e ∈ xs := by
        rcases List.mem_cons.1 he with h | h
        · exact absurd h.symm hx
        · exact h
      have := ih he'
      rw [List.filter_cons_of_pos (by simpa using hx), List.countP_cons, List.countP_cons]
      omega

theorem Event.keys_erase (ev : Event) (k : Var) : (ev.erase k).keys = ev.keys.filter (fun x => decide (x ≠ k)) := by
  unfold Event.erase Event.keys
  rw [List.filter_map]
  rfl

theorem Event.keys_set_of_has (ev : Event) (k : Var) (v : Iv) (h : ev.has k = true) : (ev.set k v).keys = ev.keys := by
  unfold Event.set Event.keys
  rw [if_pos h, List.map_map]
  apply List.map_congr_left
  intro p _
  by_cases hp : p.1 = k
  · simp [hp]
  · simp [hp]

theorem Event.keys_set_of_not_has (ev : Event) (k : Var) (v : Iv) (h : ev.has k = false) :
    (ev.set k v).keys = ev.keys ++ [k] := by
  unfold Event.set Event.keys
  rw [if_neg (by simp [h])]
  simp

/-- renaming a key to a key of the same name does not increase any count of keys by name -/
theorem updateEvent_countP (p : Name → Bool) (ev : Event) (pref elim : Var) (hn : pref.name = elim.name) :
    (updateEvent ev pref elim).keys.countP (fun k => p k.name) ≤ ev.keys.countP (fun k => p k.name) := by
  unfold updateEvent
  cases he : ev.get? elim with
  | none => exact Nat.le_refl _
  | some v =>
    simp only
    have helim : elim ∈ ev.keys := by
      have := Event.get?_mem he
      exact List.mem_map.2 ⟨_, this, rfl⟩
    rw [Event.keys_erase]
    by_cases hh : ev.has pref = true
    · rw [Event.keys_set_of_has ev pref v hh]
      have := countP_filter_ne_add (fun k => p k.name) elim ev.keys helim
      omega
    · have hh' : ev.has pref = false := by simpa using hh
      rw [Event.keys_set_of_not_has ev pref v hh']
      have hpe : pref ≠ elim := by
        intro h
        rw [h] at hh'
        have : ev.has elim = true := Event.has_iff.2 ⟨_, Event.get?_mem he, rfl⟩
        rw [this] at hh'
        cases hh'
      rw [List.filter_append, List.countP_append]
      have h1 := countP_filter_ne_add (fun k => p k.name) elim ev.keys helim
      have h2 : ([pref].filter (fun x => decide (x ≠ elim))).countP (fun k => p k.name) = if p elim.name then 1 else 0 := by
        simp [hpe, hn]
      omega

/-- loop invariant: the event is a dict and, for the name predicate `p`, has at most `n` keys satisfying it -/
def CntInv (p : Name → Bool) (n : Nat) : St → Prop
  | .run _ ev => ev.keys.Nodup ∧ ev.keys.countP (fun k => p k.name) ≤ n
  | .stop _ => True

theorem cntInv_mergeStep (p : Name → Bool) (n : Nat) (st : St) (a b : Var) (h : CntInv p n st) :
    CntInv p n (mergeStep st a b) := by
  unfold mergeStep
  cases st with
  | stop cf => trivial
  | run cf ev =>
    simp only
    split
    · rename_i h24
      split
      · trivial
      · have hn := lemma24Holds_names h24
        have hr1 : (mergePw cf a b).2.1 = (mergeOrder a b).1 := by unfold mergePw; rfl
        have hr2 : (mergePw cf a b).2.2 = (mergeOrder a b).2 := by unfold mergePw; rfl
        show CntInv p n (.run _ _)
        rw [hr1, hr2]
        rcases mergeOrder_cases a b with ho | ho
        · rw [ho]
          exact ⟨updateEvent_keys_nodup ev a b h.1, Nat.le_trans (updateEvent_countP p ev a b hn) h.2⟩
        · rw [ho]
          exact ⟨updateEvent_keys_nodup ev b a h.1, Nat.le_trans (updateEvent_countP p ev b a hn.symm) h.2⟩
    · exact h

theorem cntInv_runPairs (p : Name → Bool) (n : Nat) (ps : List (Var × Var)) (st : St) (h : CntInv p n st) :
    CntInv p n (runPairs st ps) := by
  induction ps generalizing st with
  | nil => exact h
  | cons q qs ih =>
    unfold runPairs
    simp only [List.foldl_cons]
    exact ih _ (cntInv_mergeStep p n st q.1 q.2 h)

/-- **`make_counterfactual_graph` only renames keys within their name**: the new event is a dict, and for every predicate
on names it has at most as many keys satisfying it as the old event -/
theorem cg_count_le {ordf : List World → List World} {G : MG Name} {ev nev : Event} {g : MG Var}
    (h : makeCounterfactualGraph ordf G ev = .ok (g, some nev)) (hnd : ev.keys.Nodup) :
    nev.keys.Nodup ∧ ∀ p : Name → Bool, nev.keys.countP (fun k => p k.name) ≤ ev.keys.countP (fun k => p k.name) := by
  obtain ⟨topo, cf', anc, _, hl, _, _⟩ := cg_some_shape h
  have key : ∀ p : Name → Bool, CntInv p (ev.keys.countP (fun k => p k.name)) (loopResult ordf G ev topo) := by
    intro p
    unfold loopResult
    rw [mergeLoop_eq]
    exact cntInv_runPairs p _ _ _ ⟨hnd, Nat.le_refl _⟩
  refine ⟨?_, fun p => ?_⟩
  · have := key (fun _ => true)
    rw [hl] at this
    exact this.1
  · have := key p
    rw [hl] at this
    exact this.2

/-! ### `get_new_outcomes_and_conditions` when no name is shared between outcomes and conditions -/

theorem mem_keys_iff' (ev : Event) (k : Var) : k ∈ ev.keys ↔ ∃ p ∈ ev, p.1 = k := by
  unfold Event.keys
  simp only [List.mem_map]

theorem addKeys_keys_nodup (new : Event) (want : Var → Bool) (keys : List Var) (acc : Event) (h : acc.keys.Nodup) :
    (addKeys acc new keys want).keys.Nodup := by
  unfold addKeys
  induction keys generalizing acc with
  | nil => exact h
  | cons x xs ih =>
    simp only [List.foldl_cons]
    apply ih
    split
    · split
      · exact Event.keys_set_nodup h _ _
      · exact h
    · exact h

theorem mem_addKeys_keys (new : Event) (want : Var → Bool) (keys : List Var) (acc : Event) (k : Var)
    (hk : k ∈ (addKeys acc new keys want).keys) :
    k ∈ acc.keys ∨ (k ∈ keys ∧ want k = true ∧ k ∈ new.keys) := by
  unfold addKeys at hk
  induction keys generalizing acc with
  | nil => exact Or.inl hk
  | cons x xs ih =>
    simp only [List.foldl_cons] at hk
    rcases ih _ hk with h | ⟨h1, h2, h3⟩
    · split at h
      · rename_i hw
        split at h
        · rename_i v hv
          rw [mem_keys_set] at h
          rcases h with h | rfl
          · exact Or.inl h
          · exact Or.inr ⟨by simp, hw, (mem_keys_iff' new k).2 ⟨_, Event.get?_mem hv, rfl⟩⟩
        · exact Or.inl h
      · exact Or.inl h
    · exact Or.inr ⟨by simp [h1], h2, h3⟩

/-- a duplicate-free list inside another one is not longer -/
theorem length_le_of_nodup_subset {α} [DecidableEq α] {l₁ l₂ : List α} (hnd : l₁.Nodup) (hsub : ∀ x ∈ l₁, x ∈ l₂) :
    l₁.length ≤ l₂.length :=
  (List.subperm_of_subset hnd hsub).length_le

section reassoc

variable {kordf : List Var → List Var} {new O C : Event}

/-- the names of the conditions -/
def condNames (C : Event) : List Name := C.keys.map (·.name)

theorem remaining_keys_sub (new old : Event) : ∀ k ∈ (remainingAndMissing new old).1.keys, k ∈ old.keys ∧ k ∈ new.keys := by
  intro k hk
  unfold remainingAndMissing at hk
  simp only at hk
  obtain ⟨p, hp, rfl⟩ := (mem_keys_iff' _ k).1 hk
  rw [List.mem_filter] at hp
  refine ⟨(mem_keys_iff' _ _).2 ⟨p, hp.1, rfl⟩, ?_⟩
  obtain ⟨q, hq, hqk⟩ := Event.has_iff.1 hp.2
  exact (mem_keys_iff' _ _).2 ⟨q, hq, hqk⟩

theorem missing_keys_sub (new old : Event) : ∀ p ∈ (remainingAndMissing new old).2, p ∈ old := by
  intro p hp
  unfold remainingAndMissing at hp
  simp only at hp
  exact (List.mem_filter.1 hp).1

theorem missing_empty (new old : Event) (h : (remainingAndMissing new old).2.isEmpty = true) :
    ∀ k ∈ old.keys, k ∈ new.keys := by
  intro k hk
  obtain ⟨p, hp, rfl⟩ := (mem_keys_iff' _ k).1 hk
  unfold remainingAndMissing at h
  simp only [List.isEmpty_iff, List.filter_eq_nil_iff, Bool.not_eq_true', Bool.not_eq_false] at h
  obtain ⟨q, hq, hqk⟩ := Event.has_iff.1 (h p hp)
  exact (mem_keys_iff' _ _).2 ⟨q, hq, hqk⟩

theorem remaining_keys_nodup (new old : Event) (h : old.keys.Nodup) : (remainingAndMissing new old).1.keys.Nodup := by
  unfold remainingAndMissing Event.keys
  simp only
  exact List.Nodup.sublist (List.Sublist.map _ List.filter_sublist) h

/-- the keys `get_new_outcomes_and_conditions` may add: keys of the new event that are neither old outcomes nor old
conditions (for an iteration order that only permutes / selects) -/
theorem newKeys_spec (hk : SubsetOrder kordf) (k : Var)
    (h : k ∈ kordf ((new.keys.filter (fun k => !O.has k)).filter (fun k => !C.has k))) :
    k ∈ new.keys ∧ k ∉ O.keys ∧ k ∉ C.keys := by
  have := hk _ _ h
  simp only [List.mem_filter, Bool.not_eq_true'] at this
  refine ⟨this.1.1, ?_, ?_⟩
  · intro hm
    obtain ⟨p, hp, hpk⟩ := (mem_keys_iff' _ _).1 hm
    have : O.has k = true := Event.has_iff.2 ⟨p, hp, hpk⟩
    simp_all
  · intro hm
    obtain ⟨p, hp, hpk⟩ := (mem_keys_iff' _ _).1 hm
    have : C.has k = true := Event.has_iff.2 ⟨p, hp, hpk⟩
    simp_all

end reassoc

/-- **the re-association step on inputs without a shared name**: if the new event `new` is a dict that, name by name, has
no more keys than the dict `E` of all old keys, the old conditions form a dict and no outcome is named like a condition, then
the new conditions form a dict of at most `|conditions|` keys, each a key of `new` named like an old condition, and no new
outcome is named like an old condition. -/
theorem reassoc_spec {kordf : List Var → List Var} (hk : SubsetOrder kordf) (new O C : Event)
    (hcnt : ∀ p : Name → Bool, new.keys.countP (fun k => p k.name) ≤
      (Event.ofList (O ++ C)).keys.countP (fun k => p k.name))
    (hC : C.keys.Nodup) (hdis : ∀ o ∈ O.keys, o.name ∉ condNames C) :
    (newOutcomesAndConditions kordf new O C).2.keys.Nodup ∧
    (newOutcomesAndConditions kordf new O C).2.length ≤ C.length ∧
    (∀ k ∈ (newOutcomesAndConditions kordf new O C).2.keys, k.name ∈ condNames C) ∧
    (∀ k ∈ (newOutcomesAndConditions kordf new O C).1.keys, k.name ∉ condNames C) := by
  -- facts about the dict of all old keys
  have hE := (Event.ofList_spec (O ++ C)).1
  have hEmem : ∀ x, x ∈ (Event.ofList (O ++ C)).keys ↔ x ∈ O.keys ∨ x ∈ C.keys := by
    intro x
    rw [mem_keys_ofList]
    simp only [List.mem_append, mem_keys_iff']
    constructor
    · rintro ⟨p, hp | hp, rfl⟩
      · exact Or.inl ⟨p, hp, rfl⟩
      · exact Or.inr ⟨p, hp, rfl⟩
    · rintro (⟨p, hp, rfl⟩ | ⟨p, hp, rfl⟩)
      · exact ⟨p, Or.inl hp, rfl⟩
      · exact ⟨p, Or.inr hp, rfl⟩
  have hCname : ∀ k ∈ C.keys, k.name ∈ condNames C := fun k hk' => List.mem_map.2 ⟨k, hk', rfl⟩
  -- counting with the predicate "named like a condition"
  let pS : Name → Bool := fun n => decide (n ∈ condNames C)
  have hES : (Event.ofList (O ++ C)).keys.countP (fun k => pS k.name) ≤ C.length := by
    rw [List.countP_eq_length_filter]
    have : C.length = C.keys.length := by simp [Event.keys]
    rw [this]
    apply length_le_of_nodup_subset (hE.filter _)
    intro x hx
    rw [List.mem_filter] at hx
    rcases (hEmem x).1 hx.1 with ho | hc
    · exact absurd (by simpa [pS] using hx.2) (hdis x ho)
    · exact hc
  -- a duplicate-free list of keys of `new`, all named like conditions, has at most |C| elements
  have hbound : ∀ l : List Var, l.Nodup → (∀ k ∈ l, k ∈ new.keys ∧ k.name ∈ condNames C) → l.length ≤ C.length := by
    intro l hl hsub
    have h1 : l.length ≤ (new.keys.filter (fun k => pS k.name)).length :=
      length_le_of_nodup_subset hl (fun x hx => List.mem_filter.2 ⟨(hsub x hx).1, by simpa [pS] using (hsub x hx).2⟩)
    rw [← List.countP_eq_length_filter] at h1
    exact Nat.le_trans h1 (Nat.le_trans (hcnt pS) hES)
  -- a new key named like a condition cannot exist when every old condition is still a key of `new`
  have hnoS : (∀ k ∈ C.keys, k ∈ new.keys) → ∀ k, k ∈ new.keys → k ∉ C.keys → k.name ∉ condNames C := by
    intro hall k hkn hkC hname
    have := hbound (k :: C.keys) (List.nodup_cons.2 ⟨hkC, hC⟩) (by
      intro x hx
      rcases List.mem_cons.1 hx with rfl | hx
      · exact ⟨hkn, hname⟩
      · exact ⟨hall x hx, hCname x hx⟩)
    simp only [List.length_cons, Event.keys, List.length_map] at this
    omega
  -- a new key NOT named like a condition cannot exist when every old outcome is still a key of `new`
  have hnoO : (∀ k ∈ O.keys, k ∈ new.keys) → ∀ k, k ∈ new.keys → k ∉ O.keys → k ∉ C.keys → k.name ∈ condNames C := by
    intro hall k hkn hkO hkC
    by_contra hname
    let pn : Name → Bool := fun n => decide (n = k.name)
    have h1 := hcnt pn
    rw [List.countP_eq_length_filter, List.countP_eq_length_filter] at h1
    have h2 : (k :: (Event.ofList (O ++ C)).keys.filter (fun x => pn x.name)).length ≤
        (new.keys.filter (fun x => pn x.name)).length := by
      apply length_le_of_nodup_subset
      · refine List.nodup_cons.2 ⟨?_, hE.filter _⟩
        intro hmem
        rw [List.mem_filter, hEmem] at hmem
        rcases hmem.1 with h | h
        · exact hkO h
        · exact hkC h
      · intro x hx
        rcases List.mem_cons.1 hx with rfl | hx
        · exact List.mem_filter.2 ⟨hkn, by simp [pn]⟩
        · rw [List.mem_filter, hEmem] at hx
          refine List.mem_filter.2 ⟨?_, hx.2⟩
          rcases hx.1 with h | h
          · exact hall x h
          · exfalso
            have hxn : x.name = k.name := by simpa [pn] using hx.2
            exact hname (hxn ▸ hCname x h)
    simp only [List.length_cons] at h2
    omega
  -- the four branches
  have hremC := remaining_keys_sub new C
  have hremO := remaining_keys_sub new O
  have hremCnd := remaining_keys_nodup new C hC
  have hnk := fun k => newKeys_spec (new := new) (O := O) (C := C) hk k
  -- conclusion from a description of the new conditions / outcomes
  suffices H : (newOutcomesAndConditions kordf new O C).2.keys.Nodup ∧
      (∀ k ∈ (newOutcomesAndConditions kordf new O C).2.keys, k ∈ new.keys ∧ k.name ∈ condNames C) ∧
      (∀ k ∈ (newOutcomesAndConditions kordf new O C).1.keys, k.name ∉ condNames C) by
    refine ⟨H.1, ?_, fun k hk' => (H.2.1 k hk').2, H.2.2⟩
    have := hbound _ H.1 H.2.1
    simpa [Event.keys] using this
  unfold newOutcomesAndConditions
  simp only
  split
  · -- both missing: new keys are distributed by name
    refine ⟨addKeys_keys_nodup _ _ _ _ hremCnd, ?_, ?_⟩
    · intro k hk'
      rcases mem_addKeys_keys _ _ _ _ _ hk' with h | ⟨h1, h2, h3⟩
      · exact ⟨(hremC k h).2, hCname k (hremC k h).1⟩
      · refine ⟨h3, ?_⟩
        simp only [List.any_eq_true, beq_iff_eq] at h2
        obtain ⟨q, hq, hqn⟩ := h2
        rw [← hqn]
        exact hCname _ ((mem_keys_iff' _ _).2 ⟨q, missing_keys_sub new C q hq, rfl⟩)
    · intro k hk'
      rcases mem_addKeys_keys _ _ _ _ _ hk' with h | ⟨h1, h2, h3⟩
      · exact hdis k (hremO k h).1
      · simp only [List.any_eq_true, beq_iff_eq] at h2
        obtain ⟨q, hq, hqn⟩ := h2
        rw [← hqn]
        exact hdis _ ((mem_keys_iff' _ _).2 ⟨q, missing_keys_sub new O q hq, rfl⟩)
  · rename_i hboth
    split
    · -- only outcomes missing: every old condition is still there
      rename_i hmO
      have hmC : (remainingAndMissing new C).2.isEmpty = true := by
        simp only [Bool.and_eq_true, Bool.not_eq_true', not_and, Bool.not_eq_false] at hboth hmO
        exact hboth hmO
      have hall := missing_empty new C hmC
      refine ⟨hremCnd, fun k hk' => ⟨(hremC k hk').2, hCname k (hremC k hk').1⟩, ?_⟩
      intro k hk'
      rcases mem_addKeys_keys _ _ _ _ _ hk' with h | ⟨h1, _, _⟩
      · exact hdis k (hremO k h).1
      · obtain ⟨a, _, c⟩ := hnk k h1
        exact hnoS hall k a c
    · rename_i hmO
      have hmO' : (remainingAndMissing new O).2.isEmpty = true := by simpa using hmO
      have hallO := missing_empty new O hmO'
      split
      · -- only conditions missing: every old outcome is still there
        refine ⟨addKeys_keys_nodup _ _ _ _ hremCnd, ?_, fun k hk' => hdis k (hremO k hk').1⟩
        intro k hk'
        rcases mem_addKeys_keys _ _ _ _ _ hk' with h | ⟨h1, _, _⟩
        · exact ⟨(hremC k h).2, hCname k (hremC k h).1⟩
        · obtain ⟨a, b, c⟩ := hnk k h1
          exact ⟨a, hnoO hallO k a b c⟩
      · exact ⟨hremCnd, fun k hk' => ⟨(hremC k hk').2, hCname k (hremC k hk').1⟩, fun k hk' => hdis k (hremO k hk').1⟩

/-! ### the exchange step -/

theorem firstExchangeableIn_mem (cf : MG Var) (os all : List Var) : ∀ (cs : List Var) (c : Var),
    firstExchangeableIn cf os all cs = .ok (some c) → c ∈ cs
  | [], c, h => by simp [firstExchangeableIn] at h
  | x :: xs, c, h => by
    unfold firstExchangeableIn at h
    simp only [bind, Except.bind, pure, Except.pure] at h
    cases hr : rule2Applies cf os x (all.filter (fun k => k ≠ x)) with
    | error e => rw [hr] at h; cases h
    | ok b =>
      rw [hr] at h
      cases b with
      | true =>
        simp only [if_true, Except.ok.injEq, Option.some.injEq] at h
        subst h
        simp
      | false =>
        simp only [Bool.false_eq_true, if_false] at h
        exact List.mem_cons_of_mem _ (firstExchangeableIn_mem cf os all xs c h)

theorem firstExchangeable_mem (cf : MG Var) (os : List Var) (cs : List Var) (c : Var)
    (h : firstExchangeable cf os cs = .ok (some c)) : c ∈ cs :=
  firstExchangeableIn_mem cf os cs cs c h

theorem interveneWith_name (o : Var) (iv : Iv) (k : Var) (h : interveneWith o iv = .ok k) : k.name = o.name := by
  unfold interveneWith at h
  split at h
  · simp only at h
    split at h
    · cases h
    · cases h; rfl
  · cases h; rfl

theorem mapM_ok_mem_idc {α β : Type} (f : α → Except Err β) : ∀ (l : List α) (r : List β), l.mapM f = .ok r →
    ∀ y ∈ r, ∃ x ∈ l, f x = .ok y
  | [], r, h, y, hy => by
    simp only [List.mapM_nil, pure, Except.pure, Except.ok.injEq] at h
    subst h
    cases hy
  | a :: l, r, h, y, hy => by
    rw [List.mapM_cons] at h
    simp only [bind, Except.bind, pure, Except.pure] at h
    cases hf : f a with
    | error e => rw [hf] at h; cases h
    | ok b =>
      rw [hf] at h
      simp only at h
      cases hl : l.mapM f with
      | error e => rw [hl] at h; cases h
      | ok bs =>
        rw [hl] at h
        simp only [Except.ok.injEq] at h
        subst h
        rcases List.mem_cons.1 hy with rfl | hy
        · exact ⟨a, by simp, hf⟩
        · obtain ⟨x, hx, hfx⟩ := mapM_ok_mem_idc f l bs hl y hy
          exact ⟨x, by simp [hx], hfx⟩

/-- the exchange renames outcomes only in their subscripts -/
theorem exchangeOutcomes_names (cf : MG Var) (outcomes : Event) (c : Var) (val : Iv) (no' : Event)
    (h : exchangeOutcomes cf outcomes c val = .ok no') : ∀ k ∈ no'.keys, ∃ k0 ∈ outcomes.keys, k.name = k0.name := by
  unfold exchangeOutcomes at h
  simp only [bind, Except.bind, pure, Except.pure] at h
  split at h
  · cases h
  · rename_i ps hps
    simp only [Except.ok.injEq] at h
    subst h
    intro k hk
    obtain ⟨q, hq, rfl⟩ := (mem_keys_ofList ps k).1 hk
    obtain ⟨p, hp, hfp⟩ := mapM_ok_mem_idc _ _ _ hps q hq
    refine ⟨p.1, (mem_keys_iff' _ _).2 ⟨p, hp, rfl⟩, ?_⟩
    unfold exchangeKey at hfp
    simp only [bind, Except.bind, pure, Except.pure] at hfp
    cases ha : cf.ancestorsInclusive [p.1] with
    | error e => rw [ha] at hfp; cases hfp
    | ok anc =>
      rw [ha] at hfp
      simp only at hfp
      split at hfp
      · cases hi : interveneWith p.1 val with
        | error e => rw [hi] at hfp; cases hfp
        | ok k' =>
          rw [hi] at hfp
          simp only [Except.ok.injEq] at hfp
          subst hfp
          exact interveneWith_name _ _ _ hi
      · simp only [Except.ok.injEq] at hfp
        subst hfp
        rfl

/-! ### IDC* with the exhaustion of its own fuel made observable -/

variable (ordf : List World → List World) (dordf kordf : List Var → List Var) (G : MG Name)

/-- line 5 of IDC* and the final normalisation, as in `idcStarFuel` -/
def idcLine5 (no nc conditions : Event) : Except Err Expr := do
  let est ← idStar ordf dordf G (Event.ofList (no ++ nc))
  if conditions.isEmpty || isZeroE est then pure est
  else conditional est (conditions.keys.map (·.name))

/-- the IDC* model (`idcStarFuel`, equation by equation) except that running out of ITS OWN fuel is the distinguished
result `none` instead of the error `internal "fuel"` (which an inner ID* call may also produce) -/
def idcStarO : Nat → Event → Event → Option (Except Err Expr)
  | 0, _, _ => none
  | fuel + 1, outcomes, conditions =>
    match line1 (idStar ordf dordf G conditions) with
    | .error e => some (.error e)
    | .ok _ =>
      match makeCounterfactualGraph ordf G (Event.ofList (outcomes ++ conditions)) with
      | .error e => some (.error e)
      | .ok (_, none) => some (.ok .zero)
      | .ok (cf, some nev) =>
        match firstExchangeable cf (newOutcomesAndConditions kordf nev outcomes conditions).1.keys
            (newOutcomesAndConditions kordf nev outcomes conditions).2.keys with
        | .error e => some (.error e)
        | .ok (some c) =>
          match (newOutcomesAndConditions kordf nev outcomes conditions).2.get? c with
          | none => some (.error (.internal "KeyError"))
          | some val =>
            match exchangeStep cf (newOutcomesAndConditions kordf nev outcomes conditions).1 c val
                    ((newOutcomesAndConditions kordf nev outcomes conditions).snd.filter (fun p => p.1 ≠ c)) with
            | .error e => some (.error e)
            | .ok none => some (.ok .zero)
            | .ok (some no') =>
              idcStarO fuel no' ((newOutcomesAndConditions kordf nev outcomes conditions).2.filter (fun p => p.1 ≠ c))
        | .ok none =>
          some (idcLine5 ordf dordf G (newOutcomesAndConditions kordf nev outcomes conditions).1
            (newOutcomesAndConditions kordf nev outcomes conditions).2 conditions)

/-- `idcStarO` IS the model: the model's answer is `idcStarO`'s, with `none` read as the error `internal "fuel"` -/
theorem idcStarFuel_eq_idcStarO (fuel : Nat) (outcomes conditions : Event) :
    idcStarFuel ordf dordf kordf G fuel outcomes conditions =
      match idcStarO ordf dordf kordf G fuel outcomes conditions with
      | some r => r
      | none => .error (.internal "fuel") := by
  induction fuel generalizing outcomes conditions with
  | zero => simp [idcStarFuel, idcStarO]
  | succ n ih =>
    unfoldIdc
    unfold idcStarO
    cases h1 : line1 (idStar ordf dordf G conditions) with
    | error err => rfl
    | ok u =>
      simp only
      cases hcg : makeCounterfactualGraph ordf G (Event.ofList (outcomes ++ conditions)) with
      | error err => rfl
      | ok v =>
        rcases v with ⟨cf, new⟩
        cases new with
        | none => rfl
        | some nev =>
          simp only
          cases hf : firstExchangeable cf (newOutcomesAndConditions kordf nev outcomes conditions).fst.keys
              (newOutcomesAndConditions kordf nev outcomes conditions).snd.keys with
          | error err => rfl
          | ok oc =>
            simp only
            cases oc with
            | some c1 =>
              simp only
              cases hg : (newOutcomesAndConditions kordf nev outcomes conditions).snd.get? c1 with
              | none => rfl
              | some val =>
                simp only
                cases hx : exchangeStep cf (newOutcomesAndConditions kordf nev outcomes conditions).fst c1 val
                    ((newOutcomesAndConditions kordf nev outcomes conditions).snd.filter (fun p => p.1 ≠ c1)) with
                | error err => rfl
                | ok on =>
                  cases on with
                  | none => rfl
                  | some no' =>
                    simp only
                    exact ih _ _
            | none =>
              simp only [idcLine5, bind, Except.bind, pure, Except.pure]

/-- **IDC*'s own recursion terminates when no name is both an outcome and a condition**: with `|conditions| + 1` units of
fuel (or more) the line-4 recursion never reaches the exhausted-fuel case.  Every level removes one condition; the
re-association never adds one (`reassoc_spec`), the exchange never creates an outcome named like a condition. -/
theorem idcStarO_isSome {kordf : List Var → List Var} (hk : SubsetOrder kordf) : ∀ (fuel : Nat) (O C : Event),
    C.keys.Nodup → (∀ o ∈ O.keys, o.name ∉ condNames C) → C.length + 1 ≤ fuel →
    (idcStarO ordf dordf kordf G fuel O C).isSome = true := by
  intro fuel
  induction fuel with
  | zero => intro O C _ _ h; omega
  | succ n ih =>
    intro O C hC hdis hfuel
    unfold idcStarO
    cases h1 : line1 (idStar ordf dordf G C) with
    | error err => rfl
    | ok u =>
      simp only
      cases hcg : makeCounterfactualGraph ordf G (Event.ofList (O ++ C)) with
      | error err => rfl
      | ok v =>
        rcases v with ⟨cf, new⟩
        cases new with
        | none => rfl
        | some nev =>
          simp only
          obtain ⟨_, hcnt⟩ := cg_count_le hcg (Event.ofList_spec (O ++ C)).1
          obtain ⟨hnd, hlen, hcn, hon⟩ := reassoc_spec hk nev O C hcnt hC hdis
          cases hf : firstExchangeable cf (newOutcomesAndConditions kordf nev O C).fst.keys
              (newOutcomesAndConditions kordf nev O C).snd.keys with
          | error err => rfl
          | ok oc =>
            cases oc with
            | none => rfl
            | some c1 =>
              simp only
              have hc1 := firstExchangeable_mem _ _ _ _ hf
              cases hg : (newOutcomesAndConditions kordf nev O C).snd.get? c1 with
              | none => rfl
              | some val =>
                simp only
                cases hx0 : exchangeStep cf (newOutcomesAndConditions kordf nev O C).fst c1 val
                    ((newOutcomesAndConditions kordf nev O C).snd.filter (fun p => p.1 ≠ c1)) with
                | error err => rfl
                | ok on =>
                  cases on with
                  | none => rfl
                  | some no' =>
                  have hx := exchangeStep_some _ _ _ _ _ _ hx0
                  simp only
                  have hsubkeys : ∀ k ∈ Event.keys ((newOutcomesAndConditions kordf nev O C).snd.filter (fun p => p.1 ≠ c1)),
                      k ∈ (newOutcomesAndConditions kordf nev O C).snd.keys := by
                    intro k hk'
                    obtain ⟨p, hp, rfl⟩ := (mem_keys_iff' _ _).1 hk'
                    exact (mem_keys_iff' _ _).2 ⟨p, (List.mem_filter.1 hp).1, rfl⟩
                  apply ih
                  · unfold Event.keys
                    exact List.Nodup.sublist (List.Sublist.map _ List.filter_sublist) hnd
                  · intro o ho hmem
                    obtain ⟨k0, hk0, hname⟩ := exchangeOutcomes_names _ _ _ _ _ hx o ho
                    obtain ⟨k, hkk, hkn⟩ := List.mem_map.1 hmem
                    have := hcn k (hsubkeys k hkk)
                    rw [hkn, hname] at this
                    exact hon k0 hk0 this
                  · obtain ⟨p, hp, hpc⟩ := (mem_keys_iff' _ _).1 hc1
                    have hlt : ((newOutcomesAndConditions kordf nev O C).snd.filter (fun p => p.1 ≠ c1)).length <
                        (newOutcomesAndConditions kordf nev O C).snd.length := by
                      apply List.length_filter_lt_length_iff_exists.2
                      exact ⟨p, hp, by simp [hpc]⟩
                    omega

end Cf
end Y0
