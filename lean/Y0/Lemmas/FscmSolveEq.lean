/-
  Y0.Lemmas.FscmSolveEq — `solve` is THE solution of the structural equations: a valuation satisfies every equation of
  the (recursive) model in the world `d` at the noise point `u` iff it coincides with `solve M u d` on the model's
  variables.  (Existence: `solve_forced`, `solve_unforced` of Y0/Lemmas/CfFscm.lean, CtfScm.lean; uniqueness: here.)
-/
import Y0.Lemmas.CfFscm

namespace Y0
namespace Fscm

/-- `ρ` satisfies the structural equation of `v` in the world `d` at the noise point `u` -/
def SatAt (M : Model) (u : NoisePoint) (d : Do) (ρ : Valuation) (v : Name) : Prop :=
  match forced d v with
  | some x => ρ v = x
  | none => ρ v = M.f v ((M.pa v).map ρ) ((M.lat v).map fun j => u.getD j 0)

theorem step_self_eq (M : Model) (u : NoisePoint) (d : Do) (σ ρ : Valuation) (y : Name) (h : SatAt M u d ρ y)
    (hpa : ∀ p ∈ M.pa y, σ p = ρ p) : step M u d σ y y = ρ y := by
  unfold SatAt at h
  unfold step
  cases hf : forced d y with
  | some x => rw [hf] at h; simp [update, h]
  | none =>
    rw [hf] at h
    simp only [update, if_true]
    rw [h]
    congr 1
    exact List.map_congr_left hpa

/-- **uniqueness**: a valuation satisfying all structural equations is the solution -/
theorem solve_unique (M : Model) (u : NoisePoint) (d : Do) (hnodup : M.order.Nodup)
    (htopo : ∀ l₁ v l₂, M.order = l₁ ++ v :: l₂ → ∀ p ∈ M.pa v, p ∈ l₁) (ρ : Valuation)
    (h : ∀ v ∈ M.order, SatAt M u d ρ v) : ∀ v ∈ M.order, solve M u d v = ρ v := by
  have aux : ∀ (l₂ l₁ : List Name) (σ₁ : Valuation), M.order = l₁ ++ l₂ → (∀ v ∈ l₁, σ₁ v = ρ v) →
      ∀ v ∈ l₁ ++ l₂, (l₂.foldl (step M u d) σ₁) v = ρ v := by
    intro l₂
    induction l₂ with
    | nil => intro l₁ σ₁ _ h1 v hv; rw [List.append_nil] at hv; exact h1 v hv
    | cons y l₂ ih =>
      intro l₁ σ₁ hord h1 v hv
      simp only [List.foldl_cons]
      have hord' : M.order = (l₁ ++ [y]) ++ l₂ := by rw [hord]; simp
      have hnd := hnodup
      rw [hord] at hnd
      have hy1 : y ∉ l₁ := fun hm => (List.nodup_append.mp hnd).2.2 y hm y List.mem_cons_self rfl
      apply ih (l₁ ++ [y]) _ hord'
      · intro w hw
        rcases List.mem_append.mp hw with hw | hw
        · have : w ≠ y := fun e => hy1 (e ▸ hw)
          rw [step_other M u d σ₁ y w this]
          exact h1 w hw
        · rw [List.mem_singleton] at hw
          subst hw
          apply step_self_eq M u d σ₁ ρ w (h w (by rw [hord]; simp))
          intro p hp
          exact h1 p (htopo l₁ w l₂ hord p hp)
      · rw [List.append_assoc]; simpa using hv
  intro v hv
  exact aux M.order [] _ (by simp) (by simp) v (by simpa using hv)

/-- **existence**: the solution satisfies every structural equation -/
theorem solve_satAt (M : Model) (u : NoisePoint) (d : Do) (hnodup : M.order.Nodup)
    (htopo : ∀ l₁ v l₂, M.order = l₁ ++ v :: l₂ → ∀ p ∈ M.pa v, p ∈ l₁) :
    ∀ v ∈ M.order, SatAt M u d (solve M u d) v := by
  intro v hv
  unfold SatAt
  cases hf : forced d v with
  | some x => exact solve_forced M u d v x hv hf
  | none => exact solve_unforced M ⟨hnodup, htopo⟩ u d v hv hf

/-- a valuation that agrees with the world on the forced variables coincides with the solution on the unforced ones
iff it satisfies their structural equations -/
theorem solve_eq_iff (M : Model) (u : NoisePoint) (d : Do) (hnodup : M.order.Nodup)
    (htopo : ∀ l₁ v l₂, M.order = l₁ ++ v :: l₂ → ∀ p ∈ M.pa v, p ∈ l₁) (ρ : Valuation)
    (hforced : ∀ v ∈ M.order, ∀ x, forced d v = some x → ρ v = x) :
    (∀ v ∈ M.order, forced d v = none → solve M u d v = ρ v) ↔
      (∀ v ∈ M.order, forced d v = none → ρ v = M.f v ((M.pa v).map ρ) ((M.lat v).map fun j => u.getD j 0)) := by
  constructor
  · intro h v hv hf
    have hall : ∀ w ∈ M.order, solve M u d w = ρ w := by
      intro w hw
      cases hfw : forced d w with
      | some x => rw [solve_forced M u d w x hw hfw, hforced w hw x hfw]
      | none => exact h w hw hfw
    rw [← h v hv hf, solve_unforced M ⟨hnodup, htopo⟩ u d v hv hf]
    congr 1
    apply List.map_congr_left
    intro p hp
    obtain ⟨l₁, l₂, hord⟩ := List.append_of_mem hv
    have hpo : p ∈ M.order := by rw [hord]; exact List.mem_append_left _ (htopo l₁ v l₂ hord p hp)
    exact hall p hpo
  · intro h v hv _
    apply solve_unique M u d hnodup htopo ρ _ v hv
    intro w hw
    unfold SatAt
    cases hfw : forced d w with
    | some x => exact hforced w hw x hfw
    | none => exact h w hw hfw

end Fscm
end Y0
