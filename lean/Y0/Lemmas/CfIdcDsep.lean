/-
  Y0.Lemmas.CfIdcDsep — the one direction of the d-separation model (`MG.dSeparated`, Y0/Model/Sep.lean) that IDC*'s
  soundness on the exchange fragment needs, for an EMPTY conditioning set, proved directly from the model:

      `H.dSeparated a b [] = ok true`  ⟹  `a` and `b` are not joined by a chain of edges (of any kind) inside An({a, b}).

  (The full characterisation is `dsep_iff_augmented`, Props/C04; Lemmas/SepModel cannot be imported together with
  Lemmas/CfIdStar — both declare `Y0.MG.markovPillow_ok` — so the needed half is re-derived here from the evidence graph.)
-/
import Y0.Model.Sep
import Y0.Props.C14

namespace Y0.MG
variable {α : Type} [DecidableEq α]
open Relation

/-- joined by an edge of any kind, both ends ancestors of `a` or `b` -/
def AncAdj (H : MG α) (a b : α) (u v : α) : Prop :=
  H.Anc [a, b] u ∧ H.Anc [a, b] v ∧ (H.DiEdge u v ∨ H.DiEdge v u ∨ H.BiEdge u v)

theorem biEdge_addClique_mono (E : MG α) (cl : List α) {u v : α} (h : E.BiEdge u v) : (addClique E cl).BiEdge u v := by
  unfold addClique
  rw [biEdge_foldl_addBi]
  exact Or.inl h

theorem mem_nodes_addClique_mono (E : MG α) (cl : List α) {u : α} (h : u ∈ E.nodes) : u ∈ (addClique E cl).nodes := by
  unfold addClique
  rw [mem_nodes_foldl_addBi]
  exact Or.inl h

theorem biEdge_foldl_addClique_mono (cls : List (List α)) (E : MG α) {u v : α} (h : E.BiEdge u v) :
    (cls.foldl addClique E).BiEdge u v := by
  induction cls generalizing E with
  | nil => exact h
  | cons c cs ih => exact ih _ (biEdge_addClique_mono E c h)

theorem mem_nodes_foldl_addClique_mono (cls : List (List α)) (E : MG α) {u : α} (h : u ∈ E.nodes) :
    u ∈ (cls.foldl addClique E).nodes := by
  induction cls generalizing E with
  | nil => exact h
  | cons c cs ih => exact ih _ (mem_nodes_addClique_mono E c h)

theorem rtg_mono_idc {β : Type} {r p : β → β → Prop} (h : ∀ u v, r u v → p u v) {x y : β}
    (hxy : ReflTransGen r x y) : ReflTransGen p x y := by
  induction hxy with
  | refl => exact .refl
  | tail _ hbc ih => exact ih.tail (h _ _ hbc)

/-- a positive verdict with nothing conditioned on: no chain of edges inside the ancestral set joins the two nodes -/
theorem no_ancAdj_path_of_dSeparated (H : MG α) (hH : H.WF) (a b : α) (h : H.dSeparated a b [] = .ok true) :
    ¬ ReflTransGen (H.AncAdj a b) a b := by
  unfold dSeparated dSepEvidence at h
  simp only [bind, Except.bind, pure, Except.pure] at h
  cases hv : H.sepValidate a b [] with
  | error e => rw [hv] at h; cases h
  | ok _ =>
    rw [hv] at h
    simp only at h
    cases hk : H.ancestorsInclusive [a, b] with
    | error e => rw [hk] at h; cases h
    | ok keep =>
      rw [hk] at h
      simp only at h
      have spec := ancestorsInclusive_spec H hH [a, b] keep hk
      unfold augment at h
      simp only [bind, Except.bind, pure, Except.pure] at h
      cases hc : (H.subgraph keep).districts.mapM (H.subgraph keep).districtClosure with
      | error e => rw [hc] at h; cases h
      | ok cls =>
        rw [hc] at h
        simp only at h
        set A := H.subgraph keep with hA
        set E := cls.foldl addClique A.moralize.disorient with hE
        set F := E.subgraph (E.nodes.filter (· ∉ ([] : List α))) with hF
        have hAwf : A.WF := wf_subgraph _ _
        have hFwf : F.WF := wf_subgraph _ _
        cases hp : F.hasPath a b with
        | error e => rw [hp] at h; cases h
        | ok pth =>
          rw [hp] at h
          simp only [Except.ok.injEq, Bool.not_eq_true'] at h
          subst h
          unfold hasPath at hp
          split at hp
          · cases hp
          · rename_i haF
            split at hp
            · cases hp
            · simp only [Except.ok.injEq, decide_eq_false_iff_not] at hp
              have h := hp
              have haF' : a ∈ F.nodes := by simpa using haF
              have hnd : ¬ F.SameDistrict a b := by
                intro hsd
                exact h ((mem_districtOf F hFwf a haF' b).2 hsd)
              intro hpath
              apply hnd
              have hnodeE : ∀ u, u ∈ keep → u ∈ E.nodes := by
                intro u hu
                apply mem_nodes_foldl_addClique_mono
                rw [mem_nodes_disorient _ (wf_moralize _ hAwf), mem_nodes_moralize _ hAwf, hA, mem_nodes_subgraph]
                exact hu
              have hstep : ∀ u v, H.AncAdj a b u v → F.BiEdge u v := by
                rintro u v ⟨hu, hv, hadj⟩
                have hu' := (spec u).2 hu
                have hv' := (spec v).2 hv
                rw [hF, biEdge_subgraph]
                refine ⟨?_, by simp [hnodeE u hu'], by simp [hnodeE v hv']⟩
                apply biEdge_foldl_addClique_mono
                rw [edge_disorient, diEdge_moralize, diEdge_moralize, biEdge_moralize_iff _ hAwf, hA, diEdge_subgraph,
                  diEdge_subgraph, biEdge_subgraph]
                rcases hadj with h1 | h1 | h1
                · exact Or.inl ⟨h1, hu', hv'⟩
                · exact Or.inr (Or.inl ⟨h1, hv', hu'⟩)
                · exact Or.inr (Or.inr (Or.inl ⟨h1, hu', hv'⟩))
              unfold SameDistrict
              exact rtg_mono_idc hstep hpath

/-- with any conditioning set: two nodes that are joined by a bidirected edge (or are the same node) and are not conditioned on
are never reported as separated -/
theorem dSeparated_ne_true_of_adjacent (H : MG α) (hH : H.WF) (a b : α) (Z : List α) (ha : a ∉ Z) (hb : b ∉ Z)
    (hab : a = b ∨ H.BiEdge a b) : H.dSeparated a b Z ≠ .ok true := by
  intro h
  unfold dSeparated dSepEvidence at h
  simp only [bind, Except.bind, pure, Except.pure] at h
  cases hv : H.sepValidate a b Z with
  | error e => rw [hv] at h; cases h
  | ok _ =>
    rw [hv] at h
    simp only at h
    cases hk : H.ancestorsInclusive (a :: b :: Z) with
    | error e => rw [hk] at h; cases h
    | ok keep =>
      rw [hk] at h
      simp only at h
      have spec := ancestorsInclusive_spec H hH (a :: b :: Z) keep hk
      unfold augment at h
      simp only [bind, Except.bind, pure, Except.pure] at h
      cases hc : (H.subgraph keep).districts.mapM (H.subgraph keep).districtClosure with
      | error e => rw [hc] at h; cases h
      | ok cls =>
        rw [hc] at h
        simp only at h
        set A := H.subgraph keep with hA
        set E := cls.foldl addClique A.moralize.disorient with hE
        set F := E.subgraph (E.nodes.filter (· ∉ Z)) with hF
        have hAwf : A.WF := wf_subgraph _ _
        have hFwf : F.WF := wf_subgraph _ _
        cases hp : F.hasPath a b with
        | error e => rw [hp] at h; cases h
        | ok pth =>
          rw [hp] at h
          simp only [Except.ok.injEq, Bool.not_eq_true'] at h
          subst h
          unfold hasPath at hp
          split at hp
          · cases hp
          · rename_i haF
            split at hp
            · cases hp
            · simp only [Except.ok.injEq, decide_eq_false_iff_not] at hp
              have haF' : a ∈ F.nodes := by simpa using haF
              apply hp
              apply (mem_districtOf F hFwf a haF' b).2
              rcases hab with rfl | hbi
              · exact .refl
              · have hak : a ∈ keep := (spec a).2 ⟨a, by simp, .refl⟩
                have hbk : b ∈ keep := (spec b).2 ⟨b, by simp, .refl⟩
                have hnodeE : ∀ u, u ∈ keep → u ∈ E.nodes := by
                  intro u hu
                  apply mem_nodes_foldl_addClique_mono
                  rw [mem_nodes_disorient _ (wf_moralize _ hAwf), mem_nodes_moralize _ hAwf, hA, mem_nodes_subgraph]
                  exact hu
                refine ReflTransGen.single ?_
                rw [hF, biEdge_subgraph]
                refine ⟨?_, by simp [hnodeE a hak, ha], by simp [hnodeE b hbk, hb]⟩
                apply biEdge_foldl_addClique_mono
                rw [edge_disorient, biEdge_moralize_iff _ hAwf, hA, biEdge_subgraph]
                exact Or.inr (Or.inr (Or.inl ⟨hbi, hak, hbk⟩))

end Y0.MG
