/-
  Y0.Lemmas.IdUnfold — the one-step unfolding of the well-founded definition `idAlg`, and `mapM` in `Except`.
-/
import Y0.Model.Id
import Mathlib.Data.List.Basic

namespace Y0
namespace IdAux
end IdAux
open IdAux

theorem IdAux.mapM_attach_except {α β ε : Type} (l : List α) (f : α → Except ε β) :
    l.attach.mapM (fun x => f x.1) = l.mapM f := by
  simp

theorem idAlg_eq (topo : MG Name → Except Err (List Name)) (I : IdIn) :
    idAlg topo I =
      match step topo I with
      | .error e => .error e
      | .ok (.done e) => .ok e
      | .ok (.tail J) =>
        if measureLt J.measure I.measure = true then idAlg topo J else .error (.internal "measure")
      | .ok (.split Js ranges) =>
        if Js.all (fun J => measureLt J.measure I.measure) = true then
          (Js.mapM (idAlg topo)).map (fun es => IdDsl.sumSafe (IdDsl.productSafe es) ranges)
        else .error (.internal "measure") := by
  rw [idAlg]
  cases h : step topo I with
  | error e => simp [bind, Except.bind]
  | ok s =>
    cases s with
    | done e => simp [bind, Except.bind, pure, Except.pure]
    | tail J =>
      simp only [bind, Except.bind]
      split <;> simp_all [throw, throwThe, MonadExceptOf.throw]
    | split Js ranges =>
      simp only [bind, Except.bind]
      split
      · rename_i hall
        rw [mapM_attach_except Js (idAlg topo)]
        cases List.mapM (idAlg topo) Js <;> rfl
      · simp_all [throw, throwThe, MonadExceptOf.throw]

/-! ### `mapM` in `Except` -/

theorem IdAux.mapM_ok_iff {α β ε : Type} (f : α → Except ε β) (l : List α) (r : List β) :
    l.mapM f = .ok r ↔ List.Forall₂ (fun a b => f a = .ok b) l r := by
  induction l generalizing r with
  | nil =>
    simp only [List.mapM_nil, pure, Except.pure, Except.ok.injEq]
    constructor
    · rintro rfl; exact .nil
    · intro h; cases h; rfl
  | cons a l ih =>
    simp only [List.mapM_cons, bind, Except.bind, pure, Except.pure]
    cases ha : f a with
    | error e =>
      simp only
      constructor
      · intro h; cases h
      · intro h; cases h with | cons h1 _ => rw [ha] at h1; cases h1
    | ok b =>
      simp only
      cases hl : l.mapM f with
      | error e =>
        simp only
        constructor
        · intro h; cases h
        · intro h
          cases h with
          | cons h1 h2 =>
            have := (ih _).mpr h2
            rw [hl] at this; cases this
      | ok bs =>
        simp only [Except.ok.injEq]
        constructor
        · rintro rfl
          exact .cons ha ((ih bs).mp hl)
        · intro h
          cases h with
          | cons h1 h2 =>
            rw [ha] at h1
            cases h1
            have := (ih _).mpr h2
            rw [hl] at this
            cases this
            rfl

theorem IdAux.mapM_error {α β ε : Type} (f : α → Except ε β) (l : List α) (e : ε) (h : l.mapM f = .error e) :
    ∃ a ∈ l, f a = .error e := by
  induction l with
  | nil => simp [pure, Except.pure] at h
  | cons a l ih =>
    simp only [List.mapM_cons, bind, Except.bind, pure, Except.pure] at h
    cases ha : f a with
    | error e' =>
      rw [ha] at h
      simp only at h
      cases h
      exact ⟨a, List.mem_cons_self, ha⟩
    | ok b =>
      rw [ha] at h
      simp only at h
      cases hl : l.mapM f with
      | error e' =>
        rw [hl] at h
        simp only at h
        cases h
        obtain ⟨a', ha', hfa'⟩ := ih hl
        exact ⟨a', List.mem_cons_of_mem _ ha', hfa'⟩
      | ok bs => rw [hl] at h; cases h

/-! ### induction along the recursion of `idAlg` -/

theorem measure_wf : WellFounded (fun J I : IdIn => measureLt J.measure I.measure = true) := by
  have wf : WellFounded (fun J I : IdIn => Prod.Lex (· < ·) (· < ·) J.measure I.measure) :=
    InvImage.wf IdIn.measure (Prod.lex Nat.lt_wfRel Nat.lt_wfRel).wf
  exact Subrelation.wf (fun {J I} h => measureLt_lex h) wf

/-- induction principle for successful runs of `idAlg`: to prove `P I e` for every run `idAlg topo I = ok e`
it suffices to treat the three shapes of a step -/
theorem idAlg_ok_induct (topo : MG Name → Except Err (List Name)) (P : IdIn → Expr → Prop)
    (hdone : ∀ I e, step topo I = .ok (.done e) → P I e)
    (htail : ∀ I J e, step topo I = .ok (.tail J) → idAlg topo J = .ok e → P J e → P I e)
    (hsplit : ∀ I Js ranges es, step topo I = .ok (.split Js ranges) →
      List.Forall₂ (fun J e => idAlg topo J = .ok e ∧ P J e) Js es →
      P I (IdDsl.sumSafe (IdDsl.productSafe es) ranges)) :
    ∀ I e, idAlg topo I = .ok e → P I e := by
  intro I
  induction I using measure_wf.induction with
  | _ I ih =>
    intro e h
    rw [idAlg_eq] at h
    cases hs : step topo I with
    | error err => rw [hs] at h; cases h
    | ok s =>
      rw [hs] at h
      cases s with
      | done e' =>
        simp only [Except.ok.injEq] at h
        subst h
        exact hdone I e' hs
      | tail J =>
        simp only at h
        split at h
        · rename_i hm
          exact htail I J e hs h (ih J hm e h)
        · cases h
      | split Js ranges =>
        simp only at h
        split at h
        · rename_i hm
          cases hmap : Js.mapM (idAlg topo) with
          | error err => rw [hmap] at h; cases h
          | ok es =>
            rw [hmap] at h
            simp only [Except.map, Except.ok.injEq] at h
            subst h
            apply hsplit I Js ranges es hs
            have hf := (mapM_ok_iff _ _ _).mp hmap
            have hall := List.all_eq_true.mp hm
            clear hmap hs
            induction hf with
            | nil => exact .nil
            | cons h1 _ ih' =>
              refine .cons ⟨h1, ih _ ?_ _ h1⟩ (ih' ?_ ?_)
              · simpa using hall _ List.mem_cons_self
              · simp only [List.all_cons, Bool.and_eq_true] at hm; exact hm.2
              · intro J hJ; exact hall J (List.mem_cons_of_mem _ hJ)
        · cases h

end Y0
