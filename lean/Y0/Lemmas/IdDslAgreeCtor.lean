/-
  Y0.Lemmas.IdDslAgreeCtor — the normalising constructors of Y0/Model/IdDsl.lean (used by ID / IDC) are the constructors
  of Y0/Model/Dsl.lean (the `expr` family's model of the whole DSL) on every constructible expression (`KeyOk`):
  `Product.safe`, `Sum.safe` (simplify=False), `Fraction(…)`, `__mul__`, `__truediv__`, `marginalize`,
  `normalize_marginalize`; and `KeyOk` is preserved by all of them, so every call ID / IDC make is covered.
-/
import Y0.Lemmas.IdDslAgree
import Y0.Lemmas.IdDen

namespace Y0
namespace IdAux

/-! ### sorting -/

theorem insertBy_eq_insertStable {α : Type} (lt : α → α → Bool) (x : α) (l : List α) :
    insertBy lt x l = insertStable lt x l := by
  induction l with
  | nil => rfl
  | cons y ys ih => simp only [insertBy, insertStable, ih]

theorem sortBy_eq_sortStable {α : Type} (lt : α → α → Bool) (l : List α) : sortBy lt l = sortStable lt l := by
  induction l with
  | nil => rfl
  | cons y ys ih =>
    unfold sortBy sortStable at *
    simp only [List.foldr_cons, ih, insertBy_eq_insertStable]

theorem mem_insertStable {α : Type} (lt : α → α → Bool) (x a : α) (l : List α) :
    a ∈ insertStable lt x l ↔ a = x ∨ a ∈ l := by
  induction l with
  | nil => simp [insertStable]
  | cons b l ih =>
    simp only [insertStable]
    split
    · simp only [List.mem_cons, ih]; tauto
    · simp

theorem mem_sortStable {α : Type} (lt : α → α → Bool) (a : α) (l : List α) : a ∈ sortStable lt l ↔ a ∈ l := by
  induction l with
  | nil => simp [sortStable]
  | cons b l ih =>
    unfold sortStable at ih ⊢
    simp only [List.foldr_cons, mem_insertStable, ih, List.mem_cons]

/-- sorting with two comparison functions that agree on the members of the list -/
theorem insertStable_congr {α : Type} {lt lt' : α → α → Bool} (x : α) (l : List α)
    (h : ∀ y ∈ l, lt y x = lt' y x) : insertStable lt x l = insertStable lt' x l := by
  induction l with
  | nil => rfl
  | cons y ys ih =>
    simp only [insertStable, h y List.mem_cons_self, ih (fun z hz => h z (List.mem_cons_of_mem _ hz))]

theorem sortStable_congr {α : Type} {lt lt' : α → α → Bool} (l : List α)
    (h : ∀ x ∈ l, ∀ y ∈ l, lt x y = lt' x y) : sortStable lt l = sortStable lt' l := by
  induction l with
  | nil => rfl
  | cons x xs ih =>
    have ih' := ih (fun a ha b hb => h a (List.mem_cons_of_mem _ ha) b (List.mem_cons_of_mem _ hb))
    unfold sortStable at ih' ⊢
    simp only [List.foldr_cons, ih']
    apply insertStable_congr
    intro y hy
    have hy' : y ∈ xs := (mem_sortStable lt' y xs).1 hy
    exact h y (List.mem_cons_of_mem _ hy') x List.mem_cons_self

theorem insertStable_map {α β : Type} (f : β → α) (lt : α → α → Bool) (lt' : β → β → Bool)
    (h : ∀ a b, lt (f a) (f b) = lt' a b) (x : β) (l : List β) :
    insertStable lt (f x) (l.map f) = (insertStable lt' x l).map f := by
  induction l with
  | nil => rfl
  | cons y ys ih =>
    simp only [List.map_cons, insertStable, h]
    split
    · simp [ih]
    · simp

theorem sortStable_map {α β : Type} (f : β → α) (lt : α → α → Bool) (lt' : β → β → Bool)
    (h : ∀ a b, lt (f a) (f b) = lt' a b) (l : List β) :
    sortStable lt (l.map f) = (sortStable lt' l).map f := by
  induction l with
  | nil => rfl
  | cons y ys ih =>
    unfold sortStable at ih ⊢
    simp only [List.map_cons, List.foldr_cons, ih]
    exact insertStable_map f lt lt' h y _

/-! ### `_upgrade_ordering` on plain variables is sorting the names -/

theorem dedup'_map_plain (r : List Name) : dedup' (r.map Var.plain) = (dedup' r).map Var.plain := by
  induction r with
  | nil => rfl
  | cons x xs ih =>
    simp only [List.map_cons, dedup', ih, List.filter_map]
    congr 2
    apply List.filter_congr
    intro y _
    simp [Var.plain]

theorem keyLt_plain (a b : Name) : Var.keyLt (Var.plain a) (Var.plain b) = decide (a < b) := by
  simp only [Var.keyLt, Var.plain, Var.sortKey, Var.listLt, List.map_nil, Bool.and_false, Bool.or_false]
  exact decide_eq_decide.2 Iff.rfl

theorem mem_dedup'' (a : Name) (l : List Name) : a ∈ dedup' l ↔ a ∈ l := by
  induction l with
  | nil => simp [dedup']
  | cons x xs ih =>
    simp only [dedup', List.mem_cons, List.mem_filter, ih, decide_eq_true_eq]
    constructor
    · rintro (h | h)
      · exact Or.inl h
      · exact Or.inr h.1
    · rintro (h | h)
      · exact Or.inl h
      · by_cases e : a = x
        · exact Or.inl e
        · exact Or.inr ⟨h, e⟩

theorem nodup_dedup'' (l : List Name) : (dedup' l).Nodup := by
  induction l with
  | nil => simp [dedup']
  | cons x xs ih =>
    simp only [dedup', List.nodup_cons, List.mem_filter, decide_eq_true_eq]
    exact ⟨fun h => h.2 rfl, ih.filter _⟩

theorem pairwise_insertStable_lt (x : Name) (l : List Name) (hl : l.Pairwise (· < ·)) (hx : x ∉ l) :
    (insertStable (fun a b => decide (a < b)) x l).Pairwise (· < ·) := by
  induction l with
  | nil => simp [insertStable]
  | cons y ys ih =>
    simp only [insertStable]
    have hy := List.pairwise_cons.1 hl
    have hxy : x ≠ y := fun e => hx (e ▸ List.mem_cons_self)
    have hxys : x ∉ ys := fun h => hx (List.mem_cons_of_mem _ h)
    by_cases h : y < x
    · simp only [h, decide_true, if_true]
      refine List.pairwise_cons.2 ⟨?_, ih hy.2 hxys⟩
      intro z hz
      rcases (mem_insertStable _ x z ys).1 hz with rfl | hz
      · exact h
      · exact hy.1 z hz
    · simp only [h, decide_false, Bool.false_eq_true, if_false]
      have hlt : x < y := Nat.lt_of_le_of_ne (Nat.le_of_not_lt h) hxy
      refine List.pairwise_cons.2 ⟨?_, hl⟩
      intro z hz
      rcases List.mem_cons.1 hz with rfl | hz
      · exact hlt
      · exact Nat.lt_trans hlt (hy.1 z hz)

theorem pairwise_sortStable_lt (l : List Name) (hl : l.Nodup) :
    (sortStable (fun a b => decide (a < b)) l).Pairwise (· < ·) := by
  induction l with
  | nil => simp [sortStable]
  | cons x xs ih =>
    have hx := List.nodup_cons.1 hl
    unfold sortStable at ih ⊢
    simp only [List.foldr_cons]
    exact pairwise_insertStable_lt x _ (ih hx.2) (fun h => hx.1 ((mem_sortStable _ x xs).1 h))

/-- strictly increasing lists with the same members are equal -/
theorem eq_of_pairwise_lt : ∀ (l m : List Name), l.Pairwise (· < ·) → m.Pairwise (· < ·) → (∀ a, a ∈ l ↔ a ∈ m) → l = m := by
  intro l
  induction l with
  | nil =>
    intro m _ _ h
    cases m with
    | nil => rfl
    | cons b bs => exact absurd ((h b).2 List.mem_cons_self) (by simp)
  | cons a as ih =>
    intro m hl hm h
    cases m with
    | nil => exact absurd ((h a).1 List.mem_cons_self) (by simp)
    | cons b bs =>
      have hl' := List.pairwise_cons.1 hl
      have hm' := List.pairwise_cons.1 hm
      have hab : a = b := by
        have h1 : a ∈ b :: bs := (h a).1 List.mem_cons_self
        have h2 : b ∈ a :: as := (h b).2 List.mem_cons_self
        rcases List.mem_cons.1 h1 with e | e
        · exact e
        · rcases List.mem_cons.1 h2 with e' | e'
          · exact e'.symm
          · exact absurd (Nat.lt_trans (hm'.1 a e) (hl'.1 b e')) (Nat.lt_irrefl _)
      subst hab
      congr 1
      apply ih bs hl'.2 hm'.2
      intro c
      constructor
      · intro hc
        rcases List.mem_cons.1 ((h c).1 (List.mem_cons_of_mem _ hc)) with e | e
        · exact absurd (e ▸ hl'.1 c hc) (Nat.lt_irrefl _)
        · exact e
      · intro hc
        rcases List.mem_cons.1 ((h c).2 (List.mem_cons_of_mem _ hc)) with e | e
        · exact absurd (e ▸ hm'.1 c hc) (Nat.lt_irrefl _)
        · exact e

theorem upgradeOrdering_plain (r : List Name) :
    upgradeOrdering (r.map Var.plain) = (IdDsl.sortNames r).map Var.plain := by
  unfold upgradeOrdering
  rw [dedup'_map_plain, sortStable_map Var.plain Var.keyLt (fun a b => decide (a < b)) keyLt_plain]
  congr 1
  apply eq_of_pairwise_lt _ _ (pairwise_sortStable_lt _ (nodup_dedup'' r)) (sortNames_sorted r)
  intro a
  rw [mem_sortStable, mem_dedup'', mem_sortNames]

/-! ### the constructors -/

theorem isOne_agree (e : Expr) : IdDsl.isOne e = e.isOne := by cases e <;> rfl
theorem isZero_agree (e : Expr) : IdDsl.isZero e = e.isZero := by cases e <;> rfl

theorem keyOkL_iff (es : List Expr) : KeyOkL es ↔ ∀ e ∈ es, KeyOk e := by
  induction es with
  | nil => simp [KeyOkL]
  | cons e es ih => simp [KeyOkL, ih]

/-- **`Product.safe`** -/
theorem productSafe_agree (es : List Expr) (h : ∀ e ∈ es, KeyOk e) : IdDsl.productSafe es = Y0.productSafe es := by
  unfold IdDsl.productSafe Y0.productSafe
  have hf : es.filter (fun e => !IdDsl.isOne e) = es.filter (fun e => !e.isOne) :=
    List.filter_congr (fun e _ => by rw [isOne_agree])
  have hz : IdDsl.isZero = Expr.isZero := funext isZero_agree
  simp only [hf, hz]
  have hs : sortBy IdDsl.exprLt (es.filter (fun e => !e.isOne)) = sortStable Expr.ltE (es.filter (fun e => !e.isOne)) := by
    rw [sortBy_eq_sortStable]
    apply sortStable_congr
    intro x hx y hy
    exact exprLt_eq_ltE x y (h x (List.mem_filter.1 hx).1) (h y (List.mem_filter.1 hy).1)
  rw [hs]
  generalize (es.filter fun e => !e.isOne) = L
  cases L with
  | nil => rfl
  | cons a l => cases l <;> rfl

/-- **`Sum.safe(e, ranges)`** (simplify=False) on plain ranges -/
theorem sumSafe_agree (e : Expr) (r : List Name) : IdDsl.sumSafe e r = Y0.sumSafe0 e (r.map Var.plain) := by
  unfold IdDsl.sumSafe Y0.sumSafe0
  simp only [upgradeOrdering_plain]
  cases hs : IdDsl.sortNames r with
  | nil => simp
  | cons a as => cases e <;> simp [IdDsl.isZero]

/-- **`Fraction(n, d)`** -/
theorem mkFrac_agree (n d : Expr) : IdDsl.mkFrac n d = Y0.mkFrac n d := by
  unfold IdDsl.mkFrac Y0.mkFrac zeroDivision
  cases d <;> rfl

theorem keyOk_prod {es : List Expr} : KeyOk (.prod es) ↔ ∀ e ∈ es, KeyOk e := by
  rw [← keyOkL_iff]; simp [KeyOk]

theorem mul_prod (es : List Expr) (b : Expr) : (Expr.prod es).mul b = (Expr.prod es).mulR b := by
  cases b <;> simp [Expr.mul]
theorem mul_sum (e : Expr) (r : List Var) (b : Expr) : (Expr.sum e r).mul b = (Expr.sum e r).mulR b := by
  cases b <;> simp [Expr.mul]
theorem mul_prob (p : Option Var) (c pa : List Var) (b : Expr) :
    (Expr.prob p c pa).mul b = (Expr.prob p c pa).mulR b := by
  cases b <;> simp [Expr.mul]
theorem mul_q (dm cd : List Var) (b : Expr) : (Expr.q dm cd).mul b = (Expr.q dm cd).mulR b := by
  cases b <;> simp [Expr.mul]

theorem ps2 {a b : Expr} (ha : KeyOk a) (hb : KeyOk b) : IdDsl.productSafe [a, b] = Y0.productSafe [a, b] :=
  productSafe_agree _ (by simp [ha, hb])
theorem psc {a : Expr} {es : List Expr} (ha : KeyOk a) (hes : KeyOk (.prod es)) :
    IdDsl.productSafe (a :: es) = Y0.productSafe (a :: es) :=
  productSafe_agree _ (by
    intro e he
    rcases List.mem_cons.1 he with rfl | he
    · exact ha
    · exact keyOk_prod.1 hes e he)
theorem psa {es es2 : List Expr} (h1 : KeyOk (.prod es)) (h2 : KeyOk (.prod es2)) :
    IdDsl.productSafe (es ++ es2) = Y0.productSafe (es ++ es2) :=
  productSafe_agree _ (by
    intro e he
    rcases List.mem_append.1 he with he | he
    · exact keyOk_prod.1 h1 e he
    · exact keyOk_prod.1 h2 e he)
theorem psb {es : List Expr} {b : Expr} (h1 : KeyOk (.prod es)) (hb : KeyOk b) :
    IdDsl.productSafe (es ++ [b]) = Y0.productSafe (es ++ [b]) :=
  productSafe_agree _ (by
    intro e he
    rcases List.mem_append.1 he with he | he
    · exact keyOk_prod.1 h1 e he
    · rw [List.mem_singleton.1 he]; exact hb)

/-- **`a * b`** (`__mul__` of every expression class) -/
theorem mul_agree (a b : Expr) : KeyOk a → KeyOk b → IdDsl.mul a b = Expr.mul a b := by
  fun_induction IdDsl.mul a b
  all_goals intro ha hb
  · simp [Expr.mul]; rfl
  · simp [Expr.mul]; rfl
  · simp [Expr.mul]; rfl
  · rename_i ih2 ih1
    rw [ih2 ha.1 hb.1, ih1 ha.2 hb.2]
    simp only [Expr.mul, mkFrac_agree]
  · rename_i n d b h0 hf ih1
    rw [ih1 ha.1 hb]
    cases b with
    | zero => exact absurd rfl h0
    | frac n2 d2 => exact absurd rfl (hf n2 d2)
    | _ => simp only [Expr.mul, mkFrac_agree]
  · simp [mul_prod, Expr.mulR]; rfl
  · simp only [mul_prod, Expr.mulR, psa ha hb]; rfl
  · rename_i es n d ih1
    rw [ih1 ha hb.1, mul_prod, mul_prod]
    simp only [Expr.mulR, mkFrac_agree]
  · rename_i es b h0 hp hf
    rw [mul_prod, psb ha hb]
    cases b with
    | zero => exact absurd rfl h0
    | prod es2 => exact absurd rfl (hp es2)
    | frac n d => exact absurd rfl (hf n d)
    | _ => simp [Expr.mulR]; rfl
  · simp [mul_sum, Expr.mulR]; rfl
  · simp only [mul_sum, Expr.mulR, psc ha hb]; rfl
  · rename_i e r b h0 hp
    rw [mul_sum, ps2 ha hb]
    cases b with
    | zero => exact absurd rfl h0
    | prod es2 => exact absurd rfl (hp es2)
    | _ => simp [Expr.mulR]; rfl
  · simp [mul_prob, Expr.mulR]; rfl
  · simp [mul_prob, Expr.mulR]; rfl
  · simp only [mul_prob, Expr.mulR, psc ha hb]; rfl
  · rename_i p c pa n d ih1
    rw [ih1 ha hb.1, mul_prob, mul_prob]
    simp only [Expr.mulR, mkFrac_agree]
  · rename_i p c pa b h0 h1 hp hf
    rw [mul_prob, ps2 ha hb]
    cases b with
    | zero => exact absurd rfl h0
    | one => exact absurd rfl h1
    | prod es2 => exact absurd rfl (hp es2)
    | frac n d => exact absurd rfl (hf n d)
    | _ => simp [Expr.mulR]; rfl
  · simp only [mul_q, Expr.mulR, psc ha hb]; rfl
  · rename_i dm cd n d ih1
    rw [ih1 ha hb.1, mul_q, mul_q]
    simp only [Expr.mulR, mkFrac_agree]
  · rename_i dm cd b hp hf
    rw [mul_q, ps2 ha hb]
    cases b with
    | prod es2 => exact absurd rfl (hp es2)
    | frac n d => exact absurd rfl (hf n d)
    | _ => simp [Expr.mulR]; rfl

/-- **`a / b`** (`__truediv__` of `Expression`, `Fraction`, `Zero`) -/
theorem div_agree (a b : Expr) (ha : KeyOk a) (hb : KeyOk b) : IdDsl.div a b = Expr.div a b := by
  unfold IdDsl.div Expr.div
  cases a with
  | frac n d =>
    cases b with
    | one => rfl
    | frac n2 d2 =>
      simp only [mul_agree n d2 ha.1 hb.2, mul_agree d n2 ha.2 hb.1, mkFrac_agree]
    | _ => simp only [mul_agree d _ ha.2 hb, mkFrac_agree]
  | zero => cases b <;> rfl
  | _ =>
    cases b with
    | one => rfl
    | frac n2 d2 => simp only [mul_agree _ d2 ha hb.2, mkFrac_agree]
    | _ => simp only [mkFrac_agree]

theorem base_plain (n : Name) : (Var.plain n).base = Var.plain n := rfl

/-- **`e.marginalize(ranges)`** -/
theorem marginalize_agree (e : Expr) (r : List Name) :
    IdDsl.marginalize e r = Expr.marginalize e (r.map Var.plain) := by
  unfold IdDsl.marginalize Expr.marginalize
  rw [sumSafe_agree, List.map_map]
  congr 1

theorem keyOk_sumSafe {e : Expr} (he : KeyOk e) (r : List Name) : KeyOk (IdDsl.sumSafe e r) := by
  unfold IdDsl.sumSafe
  split
  · exact he
  · split
    · exact he
    · exact he

/-- **`e.normalize_marginalize(ranges)`** -/
theorem normalizeMarginalize_agree (e : Expr) (r : List Name) (he : KeyOk e) :
    IdDsl.normalizeMarginalize e r = Expr.normalizeMarginalize e (r.map Var.plain) := by
  unfold IdDsl.normalizeMarginalize Expr.normalizeMarginalize
  rw [← marginalize_agree]
  exact div_agree e _ he (keyOk_sumSafe he r)

/-! ### every expression ID / IDC build is constructible (`KeyOk`), so the agreement covers every call they make -/

theorem keyOk_productSafe {es : List Expr} (h : ∀ e ∈ es, KeyOk e) : KeyOk (IdDsl.productSafe es) := by
  unfold IdDsl.productSafe
  simp only
  split
  · trivial
  · split
    · trivial
    · rename_i e heq
      have : e ∈ es.filter (fun e => !IdDsl.isOne e) := by rw [heq]; simp
      exact h e (List.mem_filter.1 this).1
    · apply keyOk_prod.2
      intro e he
      exact h e (List.mem_filter.1 ((mem_sortBy _ _ e).1 he)).1

theorem keyOk_pCond (child : Name) (parents : List Name) : KeyOk (IdDsl.pCond child parents) := by
  simp [IdDsl.pCond, KeyOk]

theorem keyOk_pJoint {nodes : List Name} {e : Expr} (h : IdDsl.pJoint nodes = .ok e) : KeyOk e := by
  unfold IdDsl.pJoint at h
  split at h
  · cases h
  · rename_i hne
    cases h
    simp only [KeyOk, ne_eq, List.map_eq_nil_iff]
    exact fun e => hne e

theorem keyOk_mkFrac {n d e : Expr} (hn : KeyOk n) (hd : KeyOk d) (h : IdDsl.mkFrac n d = .ok e) : KeyOk e := by
  unfold IdDsl.mkFrac at h
  split at h
  · cases h
  · cases h; exact ⟨hn, hd⟩

theorem keyOk_mul (a b : Expr) : KeyOk a → KeyOk b → ∀ e, IdDsl.mul a b = .ok e → KeyOk e := by
  fun_induction IdDsl.mul a b
  all_goals intro ha hb e h
  all_goals first
    | (cases h; first | exact ha | exact hb | trivial
                      | exact keyOk_productSafe (by
                          intro x hx
                          simp only [List.mem_append, List.mem_cons, List.not_mem_nil, or_false] at hx
                          rcases hx with hx | hx
                          · first | exact hx ▸ ha | exact keyOk_prod.1 ha x hx
                          · first | exact hx ▸ hb | exact keyOk_prod.1 hb x hx))
    | skip
  · rename_i ih2 ih1
    obtain ⟨x, hx, h⟩ := bind_ok h
    obtain ⟨y, hy, h⟩ := bind_ok h
    exact keyOk_mkFrac (ih2 ha.1 hb.1 x hx) (ih1 ha.2 hb.2 y hy) h
  · rename_i ih1
    obtain ⟨x, hx, h⟩ := bind_ok h
    exact keyOk_mkFrac (ih1 ha.1 hb x hx) ha.2 h
  all_goals
    (rename_i ih1
     obtain ⟨x, hx, h⟩ := bind_ok h
     exact keyOk_mkFrac (ih1 ha hb.1 x hx) hb.2 h)

theorem keyOk_div {a b e : Expr} (ha : KeyOk a) (hb : KeyOk b) (h : IdDsl.div a b = .ok e) : KeyOk e := by
  unfold IdDsl.div at h
  split at h
  · split at h
    · cases h; exact ha
    · obtain ⟨x, hx, h⟩ := bind_ok h
      obtain ⟨y, hy, h⟩ := bind_ok h
      exact keyOk_mkFrac (keyOk_mul _ _ ha.1 hb.2 x hx) (keyOk_mul _ _ ha.2 hb.1 y hy) h
    · obtain ⟨x, hx, h⟩ := bind_ok h
      exact keyOk_mkFrac ha.1 (keyOk_mul _ _ ha.2 hb x hx) h
  · split at h
    · cases h
    · cases h; trivial
  · split at h
    · cases h; exact ha
    · obtain ⟨x, hx, h⟩ := bind_ok h
      exact keyOk_mkFrac (keyOk_mul _ _ ha hb.2 x hx) hb.1 h
    · exact keyOk_mkFrac ha hb h

end IdAux
end Y0
