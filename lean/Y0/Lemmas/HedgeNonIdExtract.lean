/-
  Y0.Lemmas.HedgeNonIdExtract — from the relational hedge (Y0/Spec/Hedge.lean) to a list skeleton (`Skel`):
  a spanning tree of the bidirected edges of `F'`, extended to one of `F` (`tree_extend`: grow the tree along an edge
  leaving the part already covered), a child for every non-root node (`exists_child`), the roots as a list.
-/
import Y0.Spec.Hedge
import Y0.Lemmas.Graph
import Y0.Lemmas.HedgeNonIdSkel
import Mathlib.Tactic.Choose

namespace Y0
namespace NonId
open Relation MG

/-- a path from inside `P` to outside `P` has a step that leaves `P` -/
theorem exists_crossing {r : Name → Name → Prop} {P : Name → Prop} {u v : Name} (h : ReflTransGen r u v)
    (hu : P u) (hv : ¬ P v) : ∃ a b, r a b ∧ P a ∧ ¬ P b := by
  induction h with
  | refl => exact absurd hu hv
  | @tail b c _ hbc ih =>
    by_cases hb : P b
    · exact ⟨b, c, hbc, hb, hv⟩
    · exact ih hb

theorem mem_nodesOf_cons {e : Name × Name} {es : List (Name × Name)} {root v : Name} :
    v ∈ nodesOf (e :: es) root ↔ v = e.1 ∨ v ∈ nodesOf es root := by
  rw [nodesOf_cons]; exact List.mem_cons

/-- **growing a spanning tree**: a tree inside a bidirected-connected finite set extends to a spanning tree of it -/
theorem tree_extend (G : MG Name) (Sp : Name → Prop) (hfin : ∀ v, Sp v → v ∈ G.nodes) (hconn : G.BiConnectedOn Sp)
    (root : Name) : ∀ (n : Nat) (es : List (Name × Name)), TreeSeq root es → (∀ v ∈ nodesOf es root, Sp v) →
      (∀ e ∈ es, G.BiEdge e.1 e.2) →
      (G.nodes.filter fun v => decide (v ∉ nodesOf es root)).length ≤ n →
      ∃ es2, TreeSeq root (es2 ++ es) ∧ (∀ v, v ∈ nodesOf (es2 ++ es) root ↔ Sp v) ∧
        ∀ e ∈ es2 ++ es, G.BiEdge e.1 e.2 := by
  classical
  intro n
  induction n with
  | zero =>
    intro es ht hsub hbi hlen
    refine ⟨[], ht, fun v => ⟨hsub v, fun hv => ?_⟩, hbi⟩
    by_contra hnot
    have : v ∈ G.nodes.filter fun v => decide (v ∉ nodesOf es root) :=
      List.mem_filter.mpr ⟨hfin v hv, by simpa using hnot⟩
    have hl := List.length_pos_of_mem this
    omega
  | succ n ih =>
    intro es ht hsub hbi hlen
    by_cases hall : ∀ v, Sp v → v ∈ nodesOf es root
    · exact ⟨[], ht, fun v => ⟨hsub v, hall v⟩, hbi⟩
    · have hall' : ∃ v, Sp v ∧ v ∉ nodesOf es root := by
        by_contra hno
        exact hall fun v hv => by
          by_contra hvN
          exact hno ⟨v, hv, hvN⟩
      obtain ⟨v, hv, hvN⟩ := hall'
      have hroot : root ∈ nodesOf es root := by simp [nodesOf]
      obtain ⟨a, b, ⟨hab, _, hb⟩, haN, hbN⟩ :=
        exists_crossing (P := fun x => x ∈ nodesOf es root) (hconn root v (hsub root hroot) hv) hroot hvN
      have ht' : TreeSeq root ((b, a) :: es) := ⟨ht, haN, hbN⟩
      have hsub' : ∀ w ∈ nodesOf ((b, a) :: es) root, Sp w := by
        intro w hw
        rcases mem_nodesOf_cons.mp hw with rfl | hw'
        · exact hb
        · exact hsub w hw'
      have hbi' : ∀ e ∈ (b, a) :: es, G.BiEdge e.1 e.2 := by
        intro e he
        rcases List.mem_cons.mp he with rfl | he'
        · exact Or.symm hab
        · exact hbi e he'
      have hlen' : (G.nodes.filter fun v => decide (v ∉ nodesOf ((b, a) :: es) root)).length ≤ n := by
        have hlt : (G.nodes.filter fun v => decide (v ∉ nodesOf ((b, a) :: es) root)).length <
            (G.nodes.filter fun v => decide (v ∉ nodesOf es root)).length := by
          have hsubl : (G.nodes.filter fun v => decide (v ∉ nodesOf ((b, a) :: es) root)) =
              (G.nodes.filter fun v => decide (v ∉ nodesOf es root)).filter fun v => decide (v ≠ b) := by
            rw [List.filter_filter]
            apply List.filter_congr
            intro w _
            simp only [mem_nodesOf_cons, not_or, Bool.decide_and, ne_eq]
          rw [hsubl]
          apply List.length_filter_lt_length_iff_exists.mpr
          exact ⟨b, List.mem_filter.mpr ⟨hfin b hb, by simpa using hbN⟩, by simp⟩
        omega
      obtain ⟨es2, h1, h2, h3⟩ := ih ((b, a) :: es) ht' hsub' hbi' hlen'
      refine ⟨es2 ++ [(b, a)], ?_, ?_, ?_⟩
      · rw [List.append_assoc]; exact h1
      · intro w; rw [List.append_assoc]; exact h2 w
      · intro e; rw [List.append_assoc]; exact h3 e

/-- a non-root node of a set that reaches the roots has a child in the set -/
theorem exists_child {G : MG Name} {Sp R : Name → Prop} (hr : G.ReachesWithin Sp R) {p : Name} (hp : Sp p)
    (hpR : ¬ R p) : ∃ c, Sp c ∧ G.DiEdge p c := by
  obtain ⟨r, hRr, hpath⟩ := hr p hp
  rcases ReflTransGen.cases_head hpath with rfl | ⟨c, ⟨hpc, _, hc⟩, _⟩
  · exact absurd hRr hpR
  · exact ⟨c, hc, hpc⟩

/-- **the root distribution of a hedge is not identifiable**: `P_x(R)` for the root set `R` of the two C-forests -/
theorem roots_not_identifiable {G : MG Name} (hG : G.WF) (hac : G.Acyclic) {X : List Name} {F F' R : Name → Prop}
    (sub : ∀ v, F' v → F v) (nodes : ∀ v, F v → v ∈ G.nodes) (meetsX : ∃ x ∈ X, F x) (avoidsX : ∀ v, F' v → v ∉ X)
    (nonempty : ∃ v, F' v) (connF : G.BiConnectedOn F) (connF' : G.BiConnectedOn F')
    (hRF' : ∀ r, R r → F' r) (reachF : G.ReachesWithin F R) (reachF' : G.ReachesWithin F' R) :
    ∃ Rl : List Name, (∀ r, r ∈ Rl ↔ R r) ∧ ¬ Identifiable G X Rl := by
  classical
  obtain ⟨root, hroot⟩ := nonempty
  -- spanning tree of `F'`, then of `F`
  obtain ⟨es', ht', hcov', hbi'⟩ := tree_extend G F' (fun v hv => nodes v (sub v hv)) connF' root _ []
    trivial (by intro v hv; simp [nodesOf] at hv; subst hv; exact hroot) (by simp) (Nat.le_refl _)
  rw [List.append_nil] at ht' hcov' hbi'
  obtain ⟨es'', ht, hcov, hbi⟩ := tree_extend G F nodes connF root _ es' ht'
    (fun v hv => sub v ((hcov' v).mp hv)) hbi' (Nat.le_refl _)
  -- children
  have hchild : ∀ p, ∃ c, (F p → ¬ R p → F c ∧ G.DiEdge p c) ∧ (F' p → ¬ R p → F' c) := by
    intro p
    by_cases hpR : R p
    · exact ⟨p, fun _ h => absurd hpR h, fun _ h => absurd hpR h⟩
    · by_cases hp' : F' p
      · obtain ⟨c, hc, hpc⟩ := exists_child reachF' hp' hpR
        exact ⟨c, fun _ _ => ⟨sub c hc, hpc⟩, fun _ _ => hc⟩
      · by_cases hp : F p
        · obtain ⟨c, hc, hpc⟩ := exists_child reachF hp hpR
          exact ⟨c, fun _ _ => ⟨hc, hpc⟩, fun h _ => absurd h hp'⟩
        · exact ⟨p, fun h _ => absurd h hp, fun h _ => absurd h hp'⟩
  choose ch hch using hchild
  let Rl := G.nodes.filter fun v => decide (R v)
  have hRl : ∀ r, r ∈ Rl ↔ R r := by
    intro r
    simp only [Rl, List.mem_filter, decide_eq_true_eq]
    exact ⟨fun h => h.2, fun h => ⟨nodes r (sub r (hRF' r h)), h⟩⟩
  let S : Skel := { root := root, es' := es', es'' := es'', Rl := Rl, ch := ch }
  have hS : S.Good G X := by
    refine ⟨hG.nodup, ?_, fun e he => (hG.di_mem e he).1, ht, fun v hv => nodes v ((hcov v).mp hv),
      fun e he => (hasBi_iff G _ _).mpr (hbi e he), hG.nodup.filter _, fun r hr => (hcov' r).mpr (hRF' r ((hRl r).mp hr)),
      ?_, ?_, ?_, ?_, ?_, fun v hv => avoidsX v ((hcov' v).mp hv)⟩
    · intro v hv
      exact hac v (TransGen.single hv)
    · obtain ⟨r, hr, _⟩ := reachF' root hroot
      exact List.ne_nil_of_mem ((hRl r).mpr hr)
    · intro p hp hpR
      exact (hcov _).mpr ((hch p).1 ((hcov p).mp hp) (fun h => hpR ((hRl p).mpr h))).1
    · intro p hp hpR
      exact (hcov' _).mpr ((hch p).2 ((hcov' p).mp hp) (fun h => hpR ((hRl p).mpr h)))
    · intro p hp hpR
      exact ((hch p).1 ((hcov p).mp hp) (fun h => hpR ((hRl p).mpr h))).2
    · obtain ⟨x, hxX, hxF⟩ := meetsX
      exact ⟨x, hxX, (hcov x).mpr hxF⟩
  exact ⟨Rl, hRl, Skel.skel_not_identifiable hS⟩

end NonId
end Y0
