/-
  Y0.Lemmas.DslList — list-as-set plumbing of the models: `dedup'`, `inter'`/`diff'`/`subset'`/`seteq'`,
  `upgradeOrdering`, `lastWithBase`.
-/
import Y0.Model.Dsl
import Y0.Lemmas.SemBasic
import Y0.Lemmas.Graph
import Mathlib.Data.List.Nodup
import Mathlib.Data.List.Perm.Lattice

namespace Y0
set_option linter.unusedSimpArgs false

section generic
variable {α : Type} [DecidableEq α]

/-- Boolean membership through `DecidableEq` (the instance `inter'`/`diff'` of Model/Basic use) -/
def memb (a : α) (l : List α) : Bool := decide (a ∈ l)
@[simp] theorem memb_iff {a : α} {l : List α} : memb a l = true ↔ a ∈ l := by simp [memb]
theorem inter'_eq_filter (l m : List α) : inter' l m = l.filter (fun a => memb a m) := rfl
theorem diff'_eq_filter (l m : List α) : diff' l m = l.filter (fun a => !memb a m) := by
  unfold diff' memb; apply List.filter_congr; intro a _; simp

-- `mem_dedup'` and `nodup_dedup'` are the shared lemmas of Y0/Lemmas/Graph.lean (imported above)

theorem dedup'_of_nodup {l : List α} (h : l.Nodup) : dedup' l = l := by
  induction l with
  | nil => rfl
  | cons x xs ih =>
    rw [List.nodup_cons] at h
    simp only [dedup', ih h.2]
    congr 1
    apply List.filter_eq_self.mpr
    intro a ha
    have : a ≠ x := fun e => h.1 (e ▸ ha)
    simpa using this

theorem length_dedup'_le (l : List α) : (dedup' l).length ≤ l.length := by
  induction l with
  | nil => simp [dedup']
  | cons x xs ih =>
    simp only [dedup', List.length_cons]
    have := List.length_filter_le (fun a => decide (a ≠ x)) (dedup' xs)
    omega

/-- the guard of the repaired `Sum.simplify` (`len(children) != len(expression.children)`) passes exactly on lists
without repetition -/
theorem nodup_of_length_dedup' {l : List α} (h : (dedup' l).length = l.length) : l.Nodup := by
  induction l with
  | nil => exact List.nodup_nil
  | cons x xs ih =>
    simp only [dedup', List.length_cons] at h
    have h1 := List.length_filter_le (fun a => decide (a ≠ x)) (dedup' xs)
    have h2 := length_dedup'_le xs
    have hf : ((dedup' xs).filter (fun a => decide (a ≠ x))).length = (dedup' xs).length := by omega
    have hx : x ∉ xs := by
      intro hm
      have hall := List.length_filter_eq_length_iff.mp hf x (mem_dedup'.mpr hm)
      simp at hall
    exact List.nodup_cons.mpr ⟨hx, ih (by omega)⟩

theorem length_dedup'_iff {l : List α} : (dedup' l).length = l.length ↔ l.Nodup :=
  ⟨nodup_of_length_dedup', fun h => by rw [dedup'_of_nodup h]⟩

theorem mem_inter' {a : α} {l m : List α} : a ∈ inter' l m ↔ a ∈ l ∧ a ∈ m := by simp [inter']
theorem mem_diff' {a : α} {l m : List α} : a ∈ diff' l m ↔ a ∈ l ∧ a ∉ m := by simp [diff']
theorem subset'_iff {l m : List α} : subset' l m = true ↔ ∀ a ∈ l, a ∈ m := by simp [subset']
theorem seteq'_iff {l m : List α} : seteq' l m = true ↔ (∀ a, a ∈ l ↔ a ∈ m) := by
  simp only [seteq', Bool.and_eq_true, subset'_iff]
  constructor
  · rintro ⟨h1, h2⟩ a; exact ⟨h1 a, h2 a⟩
  · intro h; exact ⟨fun a => (h a).mp, fun a => (h a).mpr⟩

theorem diff'_inter'_perm (l m : List α) : l.Perm (diff' l m ++ inter' l m) := by
  unfold diff' inter'
  have := List.filter_append_perm (fun a => decide (a ∈ m)) l
  refine (this.symm.trans ?_)
  have h2 : (l.filter fun a => !decide (a ∈ m)) = l.filter (fun a => decide (a ∉ m)) := by
    apply List.filter_congr; intro a _; simp
  rw [h2]
  exact List.perm_append_comm

theorem nodup_diff' {l : List α} (h : l.Nodup) (m : List α) : (diff' l m).Nodup := h.filter _
theorem nodup_inter' {l : List α} (h : l.Nodup) (m : List α) : (inter' l m).Nodup := h.filter _

end generic

/-! ### `_upgrade_ordering` -/

theorem upgradeOrdering_perm (l : List Var) : (upgradeOrdering l).Perm (dedup' l) := sortStable_perm _ _

theorem upgradeOrdering_perm_of_nodup {l : List Var} (h : l.Nodup) : (upgradeOrdering l).Perm l := by
  have := upgradeOrdering_perm l
  rwa [dedup'_of_nodup h] at this

theorem mem_upgradeOrdering {v : Var} {l : List Var} : v ∈ upgradeOrdering l ↔ v ∈ l :=
  ((upgradeOrdering_perm l).mem_iff).trans mem_dedup'

theorem nodup_upgradeOrdering (l : List Var) : (upgradeOrdering l).Nodup :=
  ((upgradeOrdering_perm l).nodup_iff).mpr (nodup_dedup' l)

/-! ### plain variables, bases -/

theorem Var.isPlain_iff {v : Var} : v.isPlain = true ↔ v = v.base := by
  cases v with
  | mk name star isIv ivs =>
    simp only [Var.isPlain, Var.base, Bool.and_eq_true, Option.isNone_iff_eq_none, Bool.not_eq_true',
      List.isEmpty_iff, Var.mk.injEq, true_and]
    constructor
    · rintro ⟨⟨h1, h2⟩, h3⟩; exact ⟨h1, h2, h3⟩
    · rintro ⟨h1, h2, h3⟩; exact ⟨⟨h1, h2⟩, h3⟩

theorem Var.base_eq_iff {v w : Var} : v.base = w.base ↔ v.name = w.name := by
  simp [Var.base]

theorem base_mem_iff_name_mem {v : Var} {rs : List Var} (hp : ∀ r ∈ rs, r.isPlain = true) :
    v.base ∈ rs ↔ v.name ∈ rs.map (·.name) := by
  constructor
  · intro h; exact List.mem_map.mpr ⟨v.base, h, rfl⟩
  · intro h
    obtain ⟨r, hr, hn⟩ := List.mem_map.mp h
    have : r = r.base := Var.isPlain_iff.mp (hp r hr)
    have : r = v.base := by rw [this]; exact Var.base_eq_iff.mpr hn
    exact this ▸ hr

theorem nodup_names_of_plain {rs : List Var} (hp : ∀ r ∈ rs, r.isPlain = true) (hn : rs.Nodup) :
    (rs.map (·.name)).Nodup := by
  refine (List.nodup_map_iff_inj_on hn).mpr ?_
  intro a ha b hb e
  rw [Var.isPlain_iff.mp (hp a ha), Var.isPlain_iff.mp (hp b hb)]
  exact Var.base_eq_iff.mpr e

theorem nodup_map_base {c : List Var} (h : (c.map (·.name)).Nodup) : (c.map Var.base).Nodup := by
  induction c with
  | nil => simp
  | cons a l ih =>
    simp only [List.map_cons, List.nodup_cons, List.mem_map] at h ⊢
    refine ⟨?_, ih h.2⟩
    rintro ⟨w, hw, e⟩
    exact h.1 ⟨w, hw, (Var.base_eq_iff.mp e)⟩

theorem nodup_of_nodup_map_name {c : List Var} (h : (c.map (·.name)).Nodup) : c.Nodup :=
  List.Nodup.of_map _ h

/-! ### the children dict of `Sum.simplify` -/

theorem lastWithBase_of_mem {c : List Var} (hn : (c.map (·.name)).Nodup) {v : Var} (hv : v ∈ c) :
    lastWithBase c v.base = some v := by
  unfold lastWithBase
  have : c.filter (fun w => decide (w.base = v.base)) = [v] := by
    induction c with
    | nil => cases hv
    | cons a l ih =>
      rw [List.map_cons, List.nodup_cons] at hn
      rcases List.mem_cons.mp hv with rfl | h
      · rw [List.filter_cons_of_pos (by simp)]
        congr 1
        apply List.filter_eq_nil_iff.mpr
        intro w hw
        have : w.name ≠ v.name := fun e => hn.1 (e ▸ List.mem_map_of_mem hw)
        simpa [Var.base_eq_iff] using this
      · have hne : a.name ≠ v.name := fun e => hn.1 (e ▸ List.mem_map_of_mem h)
        rw [List.filter_cons_of_neg (by simpa [Var.base_eq_iff] using hne)]
        exact ih hn.2 h
  rw [this]; rfl

/-- `[v for k, v in children.items() if k in ks]` when the children have pairwise distinct names -/
theorem dictVals_eq_filter {c : List Var} (hn : (c.map (·.name)).Nodup) (ks : List Var) :
    (inter' (dedup' (c.map Var.base)) ks).filterMap (lastWithBase c) = c.filter (fun v => memb v.base ks) := by
  rw [dedup'_of_nodup (nodup_map_base hn), inter'_eq_filter, List.filter_map, List.filterMap_map]
  have : ∀ v ∈ c.filter ((fun k => memb k ks) ∘ Var.base), (lastWithBase c ∘ Var.base) v = some v := by
    intro v hv
    exact lastWithBase_of_mem hn (List.mem_filter.mp hv).1
  rw [List.filterMap_congr this, List.filterMap_some]
  rfl

end Y0

namespace Y0

/-! ### the children dict of `Sum.simplify`, without any assumption on the children -/

theorem lastWithBase_some {c : List Var} {k : Var} (hk : k ∈ c.map Var.base) :
    ∃ v, lastWithBase c k = some v ∧ v ∈ c ∧ v.base = k := by
  unfold lastWithBase
  obtain ⟨w, hw, hwk⟩ := List.mem_map.mp hk
  have hne : c.filter (fun v => decide (v.base = k)) ≠ [] := by
    intro h0
    have : w ∈ c.filter (fun v => decide (v.base = k)) := List.mem_filter.mpr ⟨hw, by simpa using hwk⟩
    rw [h0] at this; cases this
  obtain ⟨v, hv⟩ : ∃ v, (c.filter (fun v => decide (v.base = k))).getLast? = some v := by
    cases h : (c.filter (fun v => decide (v.base = k))).getLast? with
    | none => exact absurd (List.getLast?_eq_none_iff.mp h) hne
    | some v => exact ⟨v, rfl⟩
  have hmem := List.mem_of_getLast? hv
  rw [List.mem_filter] at hmem
  exact ⟨v, hv, hmem.1, by simpa using hmem.2⟩

/-- the values kept from the dict have exactly the selected keys as bases, in the order of the keys -/
theorem dictVals_map_base (c ks : List Var) :
    ((inter' (dedup' (c.map Var.base)) ks).filterMap (lastWithBase c)).map Var.base =
      inter' (dedup' (c.map Var.base)) ks := by
  have hsub : ∀ k ∈ inter' (dedup' (c.map Var.base)) ks, k ∈ c.map Var.base :=
    fun k hk => mem_dedup'.mp (mem_inter'.mp hk).1
  generalize inter' (dedup' (c.map Var.base)) ks = l at hsub
  induction l with
  | nil => rfl
  | cons k l ih =>
    obtain ⟨v, hv, _, hb⟩ := lastWithBase_some (hsub k List.mem_cons_self)
    rw [List.filterMap_cons, hv]
    simp only [List.map_cons, hb]
    rw [ih (fun x hx => hsub x (List.mem_cons_of_mem _ hx))]

theorem dictVals_mem {c ks : List Var} {v : Var}
    (h : v ∈ (inter' (dedup' (c.map Var.base)) ks).filterMap (lastWithBase c)) : v ∈ c := by
  obtain ⟨k, hk, hv⟩ := List.mem_filterMap.mp h
  unfold lastWithBase at hv
  exact (List.mem_filter.mp (List.mem_of_getLast? hv)).1

theorem nodup_names_of_nodup_map_base {l : List Var} (h : (l.map Var.base).Nodup) : (l.map (·.name)).Nodup := by
  induction l with
  | nil => simp
  | cons a l ih =>
    simp only [List.map_cons, List.nodup_cons, List.mem_map] at h ⊢
    refine ⟨?_, ih h.2⟩
    rintro ⟨w, hw, e⟩
    exact h.1 ⟨w, hw, Var.base_eq_iff.mpr e⟩

theorem dictVals_names_nodup (c ks : List Var) :
    (((inter' (dedup' (c.map Var.base)) ks).filterMap (lastWithBase c)).map (·.name)).Nodup := by
  apply nodup_names_of_nodup_map_base
  rw [dictVals_map_base]
  exact nodup_inter' (nodup_dedup' _) _

/-! ### the guard of the repaired `Sum.simplify` -/

/-- several children share a base variable -/
def dupBase (c : List Var) : Bool := (dedup' (c.map Var.base)).length != c.length

theorem dupBase_false_iff {c : List Var} : dupBase c = false ↔ (c.map (·.name)).Nodup := by
  unfold dupBase
  rw [bne_eq_false_iff_eq]
  constructor
  · intro h
    apply nodup_names_of_nodup_map_base
    apply nodup_of_length_dedup'
    rw [h, List.length_map]
  · intro h
    rw [dedup'_of_nodup (nodup_map_base h), List.length_map]

theorem dupBase_of_not_nodup {c : List Var} (h : ¬ (c.map (·.name)).Nodup) : dupBase c = true := by
  cases hd : dupBase c with
  | true => rfl
  | false => exact absurd (dupBase_false_iff.mp hd) h

/-- a base variable with several children: the sum is returned as it is -/
theorem sumSimplify_dup {pop : Option Var} {c rs : List Var} (h : dupBase c = true) :
    sumSimplify (.prob pop c []) rs = .sum (.prob pop c []) rs := by
  unfold dupBase at h
  simp only [sumSimplify, h, if_true]

end Y0
