/-
  Y0.Lemmas.SemLeaf — consequences of the probability laws (`ProbFamily`) for leaves of expressions:
  a conjunction is a set of atoms, marginalising children out of a joint, positivity of well-formed leaves.
-/
import Y0.Lemmas.SemBasic
import Y0.Lemmas.DslList
import Mathlib.Data.List.Dedup
import Mathlib.Data.List.Perm.Lattice

namespace Y0
set_option linter.unusedSimpArgs false

variable {env : Env} {σ' : Val}

/-! ### a conjunction is a set of atomic events -/

theorem pr_dedup_aux (hF : ProbFamily env) (pop : Option Name) (l : List Atom) :
    ∀ pre : List Atom, env.pr pop (pre ++ l.dedup) = env.pr pop (pre ++ l) := by
  induction l with
  | nil => intro pre; rfl
  | cons a l ih =>
    intro pre
    by_cases h : a ∈ l
    · rw [List.dedup_cons_of_mem h, ih pre]
      obtain ⟨s, t, rfl⟩ := List.append_of_mem h
      have p1 : (pre ++ a :: (s ++ a :: t)).Perm (a :: a :: (pre ++ (s ++ t))) := by
        have h1 : (pre ++ a :: (s ++ a :: t)).Perm (a :: (pre ++ (s ++ a :: t))) := List.perm_middle
        have h2 : (pre ++ (s ++ a :: t)).Perm (a :: (pre ++ (s ++ t))) := by
          rw [← List.append_assoc, ← List.append_assoc]; exact List.perm_middle
        exact h1.trans (List.Perm.cons a h2)
      have p2 : (pre ++ (s ++ a :: t)).Perm (a :: (pre ++ (s ++ t))) := by
        rw [← List.append_assoc, ← List.append_assoc]; exact List.perm_middle
      rw [hF.pr_perm _ _ _ p1, hF.pr_dup, hF.pr_perm _ _ _ p2]
    · rw [List.dedup_cons_of_notMem h]
      have := ih (pre ++ [a])
      simpa [List.append_assoc] using this

theorem pr_dedup (hF : ProbFamily env) (pop : Option Name) (l : List Atom) :
    env.pr pop l.dedup = env.pr pop l := by simpa using pr_dedup_aux hF pop l []

/-- the probability of a conjunction depends only on the SET of its atoms -/
theorem pr_congr_set (hF : ProbFamily env) (pop : Option Name) {l₁ l₂ : List Atom}
    (h : ∀ a, a ∈ l₁ ↔ a ∈ l₂) : env.pr pop l₁ = env.pr pop l₂ := by
  rw [← pr_dedup hF pop l₁, ← pr_dedup hF pop l₂]
  apply hF.pr_perm
  rw [List.perm_ext_iff_of_nodup (List.nodup_dedup _) (List.nodup_dedup _)]
  intro a
  simp [h a]

/-! ### which assignments an atom depends on -/

/-- the atom of `v` does not look at `σ x`: `x` is neither its (unstarred) event value nor an unstarred subscript -/
def Var.IndepOfName (v : Var) (x : Name) : Prop :=
  (v.name ≠ x ∨ v.star = some true) ∧ ∀ i ∈ v.ivs, i.star = false → i.name ≠ x

theorem Iv.eval_set {i : Iv} {x : Name} (h : i.star = false → i.name ≠ x) (σ : Val) (k : Nat) :
    Iv.eval (σ.set x k) σ' i = Iv.eval σ σ' i := by
  unfold Iv.eval
  cases hs : i.star with
  | true => simp
  | false => simp [Val.set, h hs]

theorem Var.dos_set {v : Var} {x : Name} (h : ∀ i ∈ v.ivs, i.star = false → i.name ≠ x) (σ : Val) (k : Nat) :
    v.ivs.map (Iv.eval (σ.set x k) σ') = v.ivs.map (Iv.eval σ σ') :=
  List.map_congr_left fun i hi => Iv.eval_set (h i hi) σ k

theorem Var.atom_set_indep {v : Var} {x : Name} (h : v.IndepOfName x) (σ : Val) (k : Nat) :
    Var.atom (σ.set x k) σ' v = Var.atom σ σ' v := by
  obtain ⟨h1, h2⟩ := h
  unfold Var.atom
  rw [Var.dos_set h2]
  congr 1
  unfold Var.value
  rcases h1 with h1 | h1
  · cases v.star with
    | none => simp [Val.set, h1]
    | some b => cases b <;> simp [Val.set, h1]
  · simp [h1]

theorem Var.atom_set_bound {v : Var} {x : Name} (hx : v.name = x) (hs : v.star ≠ some true)
    (h2 : ∀ i ∈ v.ivs, i.star = false → i.name ≠ x) (σ : Val) (k : Nat) :
    Var.atom (σ.set x k) σ' v = ⟨x, v.ivs.map (Iv.eval σ σ'), k⟩ := by
  unfold Var.atom
  rw [Var.dos_set h2, hx]
  congr 1
  unfold Var.value
  cases hst : v.star with
  | none => simp [Val.set, hx]
  | some b =>
    cases b with
    | true => exact absurd hst hs
    | false => simp [Val.set, hx]

/-! ### marginalising one child out of a conjunction -/

theorem sumVar_pr_head (hF : ProbFamily env) (pop : Option Name) (v : Var) (rest : List Var) (x : Name)
    (hx : v.name = x) (hs : v.star ≠ some true)
    (hdos : ∀ i ∈ v.ivs, i.star = false → i.name ≠ x)
    (hrest : ∀ w ∈ rest, w.IndepOfName x ∧ w.name ≠ x) (σ : Val) :
    sumVar env.card x (fun τ => env.pr pop ((v :: rest).map (Var.atom τ σ'))) σ =
      env.pr pop (rest.map (Var.atom σ σ')) := by
  unfold sumVar
  have hrw : ∀ k, env.pr pop ((v :: rest).map (Var.atom (σ.set x k) σ')) =
      env.pr pop (⟨x, v.ivs.map (Iv.eval σ σ'), k⟩ :: rest.map (Var.atom σ σ')) := by
    intro k
    rw [List.map_cons, Var.atom_set_bound hx hs hdos]
    congr 2
    exact List.map_congr_left fun w hw => Var.atom_set_indep (hrest w hw).1 σ k
  simp only [hrw]
  apply hF.pr_marg
  intro a ha
  obtain ⟨w, hw, rfl⟩ := List.mem_map.mp ha
  intro h
  exact (hrest w hw).2 h.1

theorem perm_cons_filter_of_nodup {l : List Var} (hn : (l.map (·.name)).Nodup) {v : Var} (hv : v ∈ l) :
    l.Perm (v :: l.filter (fun w => decide (w.name ≠ v.name))) := by
  induction l with
  | nil => cases hv
  | cons a l ih =>
    rw [List.map_cons, List.nodup_cons] at hn
    rcases List.mem_cons.mp hv with rfl | h
    · have : l.filter (fun w => decide (w.name ≠ v.name)) = l := by
        apply List.filter_eq_self.mpr
        intro w hw
        have : w.name ≠ v.name := fun e => hn.1 (e ▸ List.mem_map_of_mem hw)
        simpa using this
      rw [List.filter_cons_of_neg (by simp), this]
    · have hne : a.name ≠ v.name := fun e => hn.1 (e ▸ List.mem_map_of_mem h)
      rw [List.filter_cons_of_pos (by simpa using hne)]
      exact (List.Perm.cons a (ih hn.2 h)).trans (List.Perm.swap _ _ _)

/-- the side conditions under which the variables `xs` can be summed out of the conjunction of `c` -/
structure MargOK (c : List Var) (xs : List Name) : Prop where
  names_nodup : (c.map (·.name)).Nodup
  not_plus : ∀ v ∈ c, v.name ∈ xs → v.star ≠ some true
  not_sub : ∀ w ∈ c, ∀ i ∈ w.ivs, i.star = false → i.name ∉ xs

/-- **marginalisation**: summing a joint over some of its children leaves the joint of the others -/
theorem sumVars_pr_children (hF : ProbFamily env) (pop : Option Name) (c : List Var) :
    ∀ (xs : List Name), xs.Nodup → (∀ x ∈ xs, x ∈ c.map (·.name)) → MargOK c xs → ∀ σ,
      sumVars env.card xs (fun τ => env.pr pop (c.map (Var.atom τ σ'))) σ =
        env.pr pop ((c.filter (fun v => decide (v.name ∉ xs))).map (Var.atom σ σ')) := by
  intro xs
  induction xs with
  | nil => intro _ _ _ σ; simp [sumVars]
  | cons x xs ih =>
    intro hnd hsub hok σ
    rw [List.nodup_cons] at hnd
    have hok' : MargOK c xs :=
      ⟨hok.names_nodup, fun v hv hm => hok.not_plus v hv (List.mem_cons_of_mem _ hm),
       fun w hw i hi hst hm => hok.not_sub w hw i hi hst (List.mem_cons_of_mem _ hm)⟩
    have ih' := ih hnd.2 (fun y hy => hsub y (List.mem_cons_of_mem _ hy)) hok'
    simp only [sumVars]
    rw [show sumVars env.card xs (fun τ => env.pr pop (c.map (Var.atom τ σ'))) =
        fun τ => env.pr pop ((c.filter (fun v => decide (v.name ∉ xs))).map (Var.atom τ σ')) from funext ih']
    -- the child named x is still there
    obtain ⟨v, hvc, hvx⟩ := List.mem_map.mp (hsub x List.mem_cons_self)
    set c' := c.filter (fun v => decide (v.name ∉ xs)) with hc'
    have hvc' : v ∈ c' := by
      rw [hc', List.mem_filter]; exact ⟨hvc, by simpa [hvx] using hnd.1⟩
    have hn' : (c'.map (·.name)).Nodup := (hok.names_nodup).sublist ((List.filter_sublist).map _)
    have hperm := perm_cons_filter_of_nodup hn' hvc'
    have hrw : (fun τ => env.pr pop (c'.map (Var.atom τ σ'))) =
        fun τ => env.pr pop ((v :: c'.filter (fun w => decide (w.name ≠ v.name))).map (Var.atom τ σ')) :=
      funext fun τ => hF.pr_perm _ _ _ (hperm.map _)
    rw [hrw, sumVar_pr_head hF pop v _ x hvx (hok.not_plus v hvc (hvx ▸ List.mem_cons_self))
      (fun i hi hst e => hok.not_sub v hvc i hi hst (e ▸ List.mem_cons_self))]
    · congr 2
      rw [hc', List.filter_filter]
      apply List.filter_congr
      intro w _
      simp [hvx, List.mem_cons, not_or, and_comm]
    · intro w hw
      rw [List.mem_filter] at hw
      have hwc : w ∈ c := (List.mem_filter.mp hw.1).1
      have hne : w.name ≠ x := by simpa [hvx] using hw.2
      exact ⟨⟨Or.inl hne, fun i hi hst e => hok.not_sub w hwc i hi hst (e ▸ List.mem_cons_self)⟩, hne⟩

/-! ### Sum.simplify -/

theorem den_joint (hF : ProbFamily env) (pop : Option Var) (c : List Var) (σ : Val) :
    den env σ' (.prob pop c []) σ = env.pr (pop.map (·.name)) (c.map (Var.atom σ σ')) := by
  simp [hF.pr_nil]

/-- side conditions of `Sum(P(c), rs).simplify()`: the ranges are distinct plain variables, the children have
pairwise distinct names, a child that is summed out is not a `+` value and not an unstarred subscript of the leaf -/
structure SumLeafOK (c rs : List Var) : Prop where
  plain : ∀ r ∈ rs, r.isPlain = true
  nodup : rs.Nodup
  names_nodup : (c.map (·.name)).Nodup
  not_plus : ∀ v ∈ c, v.base ∈ rs → v.star ≠ some true
  not_sub : ∀ w ∈ c, ∀ i ∈ w.ivs, i.star = false → ∀ v ∈ c, v.base ∈ rs → i.name ≠ v.name

theorem sum_leaf_general (hF : ProbFamily env) (pop : Option Name) {c rs : List Var} (h : SumLeafOK c rs) (σ : Val) :
    sumVars env.card (rs.map (·.name)) (fun τ => env.pr pop (c.map (Var.atom τ σ'))) σ =
      sumVars env.card ((diff' rs (c.map Var.base)).map (·.name))
        (fun τ => env.pr pop ((c.filter (fun v => !memb v.base rs)).map (Var.atom τ σ'))) σ := by
  set keys := c.map Var.base with hkeys
  have hperm := (diff'_inter'_perm rs keys).map (·.name)
  rw [sumVars_perm env.card hperm, List.map_append, sumVars_append]
  apply sumVars_congr
  intro τ
  have hBsub : ∀ b ∈ inter' rs keys, b ∈ rs ∧ ∃ v ∈ c, v.base = b := by
    intro b hb
    obtain ⟨h1, h2⟩ := mem_inter'.mp hb
    obtain ⟨v, hv, e⟩ := List.mem_map.mp h2
    exact ⟨h1, v, hv, e⟩
  have hBplain : ∀ b ∈ inter' rs keys, b.isPlain = true := fun b hb => h.plain b (hBsub b hb).1
  have hxs_nodup := nodup_names_of_plain hBplain (nodup_inter' h.nodup keys)
  rw [sumVars_pr_children hF pop c _ hxs_nodup]
  · congr 2
    apply List.filter_congr
    intro v hv
    have hkey : v.base ∈ keys := List.mem_map_of_mem hv
    have : v.name ∈ (inter' rs keys).map (·.name) ↔ v.base ∈ rs := by
      rw [← base_mem_iff_name_mem hBplain, mem_inter']
      exact ⟨fun h => h.1, fun h => ⟨h, hkey⟩⟩
    by_cases hm : v.base ∈ rs
    · have h1 := this.mpr hm
      simp only [memb, hm, h1, not_true_eq_false, decide_false, decide_true, Bool.not_true]
    · have h1 : v.name ∉ (inter' rs keys).map (·.name) := fun h' => hm (this.mp h')
      simp only [memb, hm, h1, not_false_eq_true, decide_true, decide_false, Bool.not_false]
  · intro x hx
    obtain ⟨b, hb, rfl⟩ := List.mem_map.mp hx
    obtain ⟨_, v, hv, e⟩ := hBsub b hb
    exact List.mem_map.mpr ⟨v, hv, by rw [← e]; rfl⟩
  · refine ⟨h.names_nodup, ?_, ?_⟩
    · intro v hv hm
      apply h.not_plus v hv
      have := (base_mem_iff_name_mem hBplain).mpr hm
      exact (mem_inter'.mp this).1
    · intro w hw i hi hst hm
      obtain ⟨b, hb, hn⟩ := List.mem_map.mp hm
      obtain ⟨hbr, v, hv, e⟩ := hBsub b hb
      have hvn : v.name = b.name := by rw [← e]; rfl
      exact h.not_sub w hw i hi hst v hv (e ▸ hbr) (by rw [hvn, hn])

/-- **`Sum(e, rs).simplify()` denotes `Σ_rs e`** (C13 `sum_simplify_den`; the fixed superset branch included).
For a joint leaf the side conditions `SumLeafOK` are needed; every other summand is returned unchanged. -/
theorem sumSimplify_den_w (hF : ProbFamily env) (e : Expr) (rs : List Var)
    (hleaf : ∀ pop c, e = .prob pop c [] → (c.map (·.name)).Nodup → SumLeafOK c rs) (σ : Val) :
    den env σ' (sumSimplify e rs) σ = sumVars env.card (rs.map (·.name)) (fun τ => den env σ' e τ) σ := by
  by_cases hdup : ∃ pop c, e = .prob pop c [] ∧ dupBase c = true
  · obtain ⟨pop, c, rfl, hd⟩ := hdup
    rw [sumSimplify_dup hd]; simp
  unfold sumSimplify
  split
  · rename_i pop c
    have hg0 : dupBase c = false := by
      cases hd : dupBase c with
      | false => rfl
      | true => exact absurd ⟨pop, c, rfl, hd⟩ hdup
    have h := hleaf pop c rfl (dupBase_false_iff.mp hg0)
    have hg : ((dedup' (c.map Var.base)).length != c.length) = false := hg0
    have hcn : c.Nodup := nodup_of_nodup_map_name h.names_nodup
    simp only [hg, Bool.false_eq_true, if_false]
    simp only [den_joint hF]
    rw [sum_leaf_general hF _ h]
    rw [dedup'_of_nodup (nodup_map_base h.names_nodup)]
    set keys := c.map Var.base with hkeys
    have hvals : ∀ ks : List Var, (inter' keys ks).filterMap (lastWithBase c) = c.filter (fun v => memb v.base ks) := by
      intro ks
      have := dictVals_eq_filter h.names_nodup ks
      rwa [dedup'_of_nodup (nodup_map_base h.names_nodup)] at this
    by_cases h1 : seteq' rs keys = true
    · rw [if_pos h1]
      have hset := seteq'_iff.mp h1
      have hd : diff' rs keys = [] := by
        apply List.filter_eq_nil_iff.mpr
        intro a ha; simpa using (hset a).mp ha
      have hf : c.filter (fun v => !memb v.base rs) = [] := by
        apply List.filter_eq_nil_iff.mpr
        intro v hv
        have : v.base ∈ rs := (hset _).mpr (List.mem_map_of_mem hv)
        simp [memb, this]
      rw [hd, hf]
      simp [sumVars, hF.pr_nil]
    · rw [if_neg h1]
      by_cases h2 : subset' keys rs = true
      · rw [if_pos h2]
        have hsub := subset'_iff.mp h2
        have hf : c.filter (fun v => !memb v.base rs) = [] := by
          apply List.filter_eq_nil_iff.mpr
          intro v hv
          have : v.base ∈ rs := hsub _ (List.mem_map_of_mem hv)
          simp [memb, this]
        rw [hf, sumSafe0_den]
        simp only [List.map_nil, hF.pr_nil, den_one]
        exact congrFun (sumVars_perm env.card ((upgradeOrdering_perm_of_nodup (nodup_diff' h.nodup keys)).map _) _) σ
      · rw [if_neg h2]
        have hfilt : ∀ ks : List Var, (∀ v ∈ c, (v.base ∈ ks ↔ v.base ∉ rs)) →
            c.filter (fun v => memb v.base ks) = c.filter (fun v => !memb v.base rs) := by
          intro ks hk
          apply List.filter_congr
          intro v hv
          by_cases hm : v.base ∈ rs
          · simp [memb, hm, (hk v hv).not.mpr (not_not.mpr hm)]
          · simp [memb, hm, (hk v hv).mpr hm]
        by_cases h3 : subset' rs keys = true
        · rw [if_pos h3]
          have hsub := subset'_iff.mp h3
          have hd : diff' rs keys = [] := by
            apply List.filter_eq_nil_iff.mpr
            intro a ha; simpa using hsub a ha
          rw [hd, den_joint hF, hvals]
          simp only [List.map_nil, sumVars]
          rw [hfilt]
          · exact hF.pr_perm _ _ _ ((upgradeOrdering_perm_of_nodup (hcn.filter _)).map _)
          · intro v hv
            rw [mem_diff']
            exact ⟨fun h => h.2, fun h => ⟨List.mem_map_of_mem hv, h⟩⟩
        · rw [if_neg h3, sumSafe0_den]
          have hdd : diff' rs (inter' rs keys) = diff' rs keys := by
            unfold diff'
            apply List.filter_congr
            intro a ha
            simp [mem_inter', ha]
          rw [hdd]
          rw [congrFun (sumVars_perm env.card ((upgradeOrdering_perm_of_nodup (nodup_diff' h.nodup keys)).map _) _) σ]
          apply sumVars_congr
          intro τ
          rw [den_joint hF, hvals, hfilt]
          · exact hF.pr_perm _ _ _ ((upgradeOrdering_perm_of_nodup (hcn.filter _)).map _)
          · intro v hv
            rw [mem_diff', mem_inter']
            have hk : v.base ∈ keys := List.mem_map_of_mem hv
            exact ⟨fun h hr => h.2 ⟨hr, hk⟩, fun h => ⟨hk, fun h' => h h'.1⟩⟩
  · simp

/-- the statement with the side conditions required of every joint leaf (kept for its callers) -/
theorem sumSimplify_den (hF : ProbFamily env) (e : Expr) (rs : List Var)
    (hleaf : ∀ pop c, e = .prob pop c [] → SumLeafOK c rs) (σ : Val) :
    den env σ' (sumSimplify e rs) σ = sumVars env.card (rs.map (·.name)) (fun τ => den env σ' e τ) σ :=
  sumSimplify_den_w hF e rs (fun pop c h _ => hleaf pop c h) σ

end Y0
