/-
  Y0.Lemmas.CfFragB — soundness of ID* on the single-world unstarred fragment, part B: the semantic core.
  Everything is relative to the facts `SWFacts` about the counterfactual graph (Lemmas/CfFragA.lean):

  * `localSet_world`    : the names `T` of the non-self-intervened nodes form a "local set" in the world `w` of the event (and in
                          the world line 9 writes into its term): every parent is in `T` or fixed by the world;
  * `localSet_district` : the names of a district form a local set in the world made of the district's Markov pillow;
  * `mass_districts`    : c-component factorisation — the joint local event of `T` is the product over the districts;
  * `sumOver_world`     : summing the joint distribution of `T` in world `w` over the non-event variables gives `P(event)`.
-/
import Y0.Lemmas.CfFragA
import Y0.Lemmas.CfDen

namespace Y0.Cf
open Relation MG Fscm

/-! ## unstarred worlds under a valuation -/

theorem worldOf_nuOf_unst (ν : BaseValues) (τ : Valuation) (L : List Iv) (hL : ∀ i ∈ L, i.star = false) :
    worldOf (nuOf ν τ) L = L.map fun i => (i.name, τ i.name) := by
  unfold worldOf
  apply List.map_congr_left
  intro i hi
  simp [ivValue, nuOf, hL i hi]

theorem worldOf_nuOf_update (ν : BaseValues) (τ : Valuation) (L : List Iv) (hL : ∀ i ∈ L, i.star = false) (r : Name)
    (hr : r ∉ L.map (·.name)) (x : Nat) : worldOf (nuOf ν (update τ r x)) L = worldOf (nuOf ν τ) L := by
  rw [worldOf_nuOf_unst ν _ L hL, worldOf_nuOf_unst ν _ L hL]
  apply List.map_congr_left
  intro i hi
  have : i.name ≠ r := fun e => hr (List.mem_map.2 ⟨i, hi, e⟩)
  simp [update, this]

theorem consistent_of_unst (L : List Iv) (hL : ∀ i ∈ L, i.star = false) : ConsistentSubs L := by
  intro i hi j hj hij
  rcases i with ⟨n1, s1⟩
  rcases j with ⟨n2, s2⟩
  have h1 := hL _ hi
  have h2 := hL _ hj
  simp only at hij h1 h2
  subst hij h1 h2
  rfl

theorem forced_unst (ν : BaseValues) (τ : Valuation) (L : List Iv) (hL : ∀ i ∈ L, i.star = false) (p : Name)
    (hp : p ∈ L.map (·.name)) : forced (worldOf (nuOf ν τ) L) p = some (τ p) := by
  obtain ⟨i, hi, rfl⟩ := List.mem_map.1 hp
  rw [forced_worldOf (nuOf ν τ) L i hi (consistent_of_unst L hL)]
  simp [ivValue, nuOf, hL i hi]

section
variable {G : MG Name} {w : World} {ev : Event} {g : MG Var} {nev : Event}

/-- a node that is not non-self-intervened is `X @ w` for a variable `X` named in `w` -/
theorem SWFacts.selfIntervened (facts : SWFacts G w ev g nev) (x : Var) (hx : x ∈ g.nodes)
    (hn : isNotSelfIntervened x = false) : x = atWorld x.name w ∧ x.name ∈ w.map (·.name) := by
  rcases facts.shape x hx with h | h
  · rw [h] at hn
    cases hn
  · refine ⟨h, ?_⟩
    unfold isNotSelfIntervened at hn
    have : ¬ (∀ i ∈ x.ivs, (decide (i.name ≠ x.name)) = true) := by
      intro hall
      rw [List.all_eq_true.2 hall] at hn
      cases hn
    simp only [ne_eq, decide_not, Bool.not_eq_eq_eq_not, Bool.not_true, decide_eq_false_iff_not, not_forall,
      Decidable.not_not] at this
    obtain ⟨i, hi, hin⟩ := this
    have hivs : x.ivs = w := by rw [h]; rfl
    rw [hivs] at hi
    exact List.mem_map.2 ⟨i, hi, hin⟩

/-- **the non-self-intervened variables form a local set in the world of the event** — and in every sub-world `L ⊆ w` that
contains all of `w` as soon as some node still lives in `w` -/
theorem localSet_world (M : Model) (ν : BaseValues) (hM : Compatible M G) (facts : SWFacts G w ev g nev) (hwU : ∀ i ∈ w, i.star = false) (T : List Name)
    (hT : ∀ V, V ∈ T ↔ ∃ n ∈ (nsiSubgraph g).nodes, n.name = V) (L : List Iv) (hL1 : ∀ i ∈ L, i ∈ w)
    (hL2 : (∃ n ∈ (nsiSubgraph g).nodes, n ≠ Var.plain n.name) → ∀ i ∈ w, i ∈ L) (τ : Valuation) :
    LocalSet M (worldOf (nuOf ν τ) L) τ T := by
  have hLU : ∀ i ∈ L, i.star = false := fun i hi => hwU i (hL1 i hi)
  intro V hV
  obtain ⟨n, hnN, rfl⟩ := (hT V).1 hV
  obtain ⟨hng, hnsi⟩ := (mem_nsiSubgraph_iff g n).1 hnN
  refine ⟨(hM.perm.mem_iff).2 (facts.nodeOK n hng).inG, ?_, ?_⟩
  · apply forced_worldOf_none'
    intro hmem
    obtain ⟨i, hi, hin⟩ := List.mem_map.1 hmem
    exact facts.notW n hng hnsi (List.mem_map.2 ⟨i, hL1 i hi, hin⟩)
  · intro p hp
    obtain ⟨x, hxn, hxname⟩ := facts.rep n hng hnsi p (hM.pa_sub n.name p hp)
    have hxg : x ∈ g.nodes := (facts.wf.di_mem _ hxn).1
    by_cases hxnsi : isNotSelfIntervened x = true
    · left
      exact (hT p).2 ⟨x, (mem_nsiSubgraph_iff g x).2 ⟨hxg, hxnsi⟩, hxname⟩
    · right
      have hx' := facts.selfIntervened x hxg (by simpa using hxnsi)
      rw [hxname] at hx'
      have hw : w ≠ [] := by
        intro h0
        rw [h0] at hx'
        cases hx'.2
      -- `n` is a child of a node of world `w`, hence not factual
      have hnw : n ≠ Var.plain n.name := by
        intro hnp
        have hxp := facts.plainPa x n hxn hnp
        rw [hxname] at hxp
        rw [hx'.1] at hxp
        exact plain_ne_atWorld _ _ hw hxp.symm
      have hsub := hL2 ⟨n, hnN, hnw⟩
      apply forced_unst ν τ L hLU p
      obtain ⟨i, hi, hin⟩ := List.mem_map.1 hx'.2
      exact List.mem_map.2 ⟨i, hsub i hi, hin⟩


/-- **marginalisation to the event**: the joint distribution of all non-self-intervened variables in the world `w` of the
event, summed over the variables that are not in the event, is the probability of the event -/
theorem sumOver_world (M : Model) (ν : BaseValues) (dom : Name → Nat) (hdom : ∀ u d v, solve M u d v < dom v)
    (facts : SWFacts G w ev g nev) (hfr : Frag G w ev) (hnsiK : ∀ k ∈ nev.keys, isNotSelfIntervened k = true)
    (T : List Name) (hT : ∀ V, V ∈ T ↔ ∃ n ∈ (nsiSubgraph g).nodes, n.name = V) (rs : List Name) (hrs : rs.Nodup)
    (hrsm : ∀ V, V ∈ rs ↔ V ∈ T ∧ V ∉ ev.keys.map (·.name)) (σ : Valuation) :
    sumOver dom rs (fun τ => prob M (T.map fun V => ⟨V, worldOf (nuOf ν τ) w, τ V⟩)) σ = probEvent M (nuOf ν σ) ev := by
  have hnotW : ∀ V ∈ T, V ∉ w.map (·.name) := by
    intro V hV
    obtain ⟨n, hnN, rfl⟩ := (hT V).1 hV
    obtain ⟨hng, hnsi⟩ := (mem_nsiSubgraph_iff g n).1 hnN
    exact facts.notW n hng hnsi
  rw [sumOver_prob M dom hdom T (fun τ => worldOf (nuOf ν τ) w) rs hrs (fun r hr => ((hrsm r).1 hr).1)
    (fun r hr τ x => worldOf_nuOf_update ν τ w hfr.wUnst r (hnotW r ((hrsm r).1 hr).1) x) σ]
  unfold probEvent
  -- the remaining variables are exactly the key names
  have hkeyT : ∀ k ∈ ev.keys, k.name ∈ T := by
    intro k hk
    have hb : k.name ∈ nev.keys.map (·.name) := (facts.keyNames k.name).2 (List.mem_map.2 ⟨k, hk, rfl⟩)
    obtain ⟨k', hk', hkn⟩ := List.mem_map.1 hb
    exact (hT k.name).2 ⟨k', (mem_nsiSubgraph_iff g k').2 ⟨facts.keysNodes k' hk', hnsiK k' hk'⟩, hkn⟩
  apply prob_congr_conj
  · intro c hc
    obtain ⟨V, hV, rfl⟩ := List.mem_map.1 hc
    rw [List.mem_filter] at hV
    have hVk : V ∈ ev.keys.map (·.name) := by
      by_contra hno
      have := (hrsm V).2 ⟨hV.1, hno⟩
      simp [this] at hV
    obtain ⟨k, hk, rfl⟩ := List.mem_map.1 hVk
    obtain ⟨v, hv⟩ := (mem_keys_iff ev k).1 hk
    refine ⟨conjunctOf (nuOf ν σ) (k, v), List.mem_map.2 ⟨(k, v), hv, rfl⟩, fun u => ?_⟩
    have hvk := hfr.unst _ hv
    simp only at hvk
    have hkw : k.ivs = w := by rw [hfr.keysIn k hk]; rfl
    simp only [conjunctOf, hkw, hvk, ivValue, nuOf]
    rfl
  · intro c hc
    obtain ⟨p, hp, rfl⟩ := List.mem_map.1 hc
    have hk : p.1 ∈ ev.keys := (mem_keys_iff ev p.1).2 ⟨p.2, hp⟩
    refine ⟨⟨p.1.name, worldOf (nuOf ν σ) w, σ p.1.name⟩, ?_, fun u => ?_⟩
    · refine List.mem_map.2 ⟨p.1.name, ?_, rfl⟩
      rw [List.mem_filter]
      refine ⟨hkeyT p.1 hk, ?_⟩
      simp only [decide_eq_true_eq]
      intro hr
      exact ((hrsm _).1 hr).2 (List.mem_map.2 ⟨p.1, hk, rfl⟩)
    · have hvk := hfr.unst _ hp
      have hkw : p.1.ivs = w := by rw [hfr.keysIn p.1 hk]; rfl
      simp only [conjunctOf, hkw, hvk, ivValue, nuOf]
      rfl

end

end Y0.Cf
