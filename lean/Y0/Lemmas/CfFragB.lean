/-
  Y0.Lemmas.CfFragB — soundness of ID* on the single-world unstarred fragment, part B: the semantic core.
  Everything is relative to the facts `SWFacts` about the counterfactual graph (Lemmas/CfFragA.lean):

  * `localSet_world`    : the names `T` of the non-self-intervened nodes form a "local set" in the world `w` of the event (and in
                          the world line 9 writes into its term): every parent is in `T` or fixed by the world;
  * `localSet_district` : the names of a district form a local set in the world made of the district's Markov pillow;
  * `mass_districts`    : c-component factorisation — the joint local event of `T` is the product over the districts;
  * `sumOver_world`     : summing the joint distribution of `T` in world `w` over the non-event variables gives `P(event)`.
-/
import Y0.Lemmas.CfFragA
import Y0.Lemmas.CfDen

namespace Y0.Cf
open Relation MG Fscm

/-! ## unstarred worlds under a valuation -/

theorem worldOf_nuOf_unst (ν : BaseValues) (τ : Valuation) (L : List Iv) (hL : ∀ i ∈ L, i.star = false) :
    worldOf (nuOf ν τ) L = L.map fun i => (i.name, τ i.name) := by
  unfold worldOf
  apply List.map_congr_left
  intro i hi
  simp [ivValue, nuOf, hL i hi]

theorem worldOf_nuOf_update (ν : BaseValues) (τ : Valuation) (L : List Iv) (hL : ∀ i ∈ L, i.star = false) (r : Name)
    (hr : r ∉ L.map (·.name)) (x : Nat) : worldOf (nuOf ν (update τ r x)) L = worldOf (nuOf ν τ) L := by
  rw [worldOf_nuOf_unst ν _ L hL, worldOf_nuOf_unst ν _ L hL]
  apply List.map_congr_left
  intro i hi
  have : i.name ≠ r := fun e => hr (List.mem_map.2 ⟨i, hi, e⟩)
  simp [update, this]

theorem consistent_of_unst (L : List Iv) (hL : ∀ i ∈ L, i.star = false) : ConsistentSubs L := by
  intro i hi j hj hij
  rcases i with ⟨n1, s1⟩
  rcases j with ⟨n2, s2⟩
  have h1 := hL _ hi
  have h2 := hL _ hj
  simp only at hij h1 h2
  subst hij h1 h2
  rfl

theorem forced_unst (ν : BaseValues) (τ : Valuation) (L : List Iv) (hL : ∀ i ∈ L, i.star = false) (p : Name)
    (hp : p ∈ L.map (·.name)) : forced (worldOf (nuOf ν τ) L) p = some (τ p) := by
  obtain ⟨i, hi, rfl⟩ := List.mem_map.1 hp
  rw [forced_worldOf (nuOf ν τ) L i hi (consistent_of_unst L hL)]
  simp [ivValue, nuOf, hL i hi]

/-- in a consistent world read under `τ`, a variable named by a subscript is forced to its value under `τ` — provided `τ` gives
the variables with a STARRED subscript the starred value -/
theorem forced_nuOf (ν : BaseValues) (τ : Valuation) (L : List Iv) (hL : ConsistentSubs L)
    (hτ : ∀ i ∈ L, i.star = true → τ i.name = ν i.name true) (p : Name) (hp : p ∈ L.map (·.name)) :
    forced (worldOf (nuOf ν τ) L) p = some (τ p) := by
  obtain ⟨i, hi, rfl⟩ := List.mem_map.1 hp
  rw [forced_worldOf (nuOf ν τ) L i hi hL]
  cases hs : i.star with
  | false => simp [ivValue, nuOf, hs]
  | true => simp [ivValue, nuOf, hs, hτ i hi hs]

/-- re-binding a variable the world does not name does not change the world -/
theorem worldOf_nuOf_update' (ν : BaseValues) (τ : Valuation) (L : List Iv) (r : Name)
    (hr : r ∉ L.map (·.name)) (x : Nat) : worldOf (nuOf ν (update τ r x)) L = worldOf (nuOf ν τ) L := by
  unfold worldOf
  apply List.map_congr_left
  intro i hi
  have : i.name ≠ r := fun e => hr (List.mem_map.2 ⟨i, hi, e⟩)
  simp [ivValue, nuOf, update, this]

theorem consistentSubs_subset {L w : List Iv} (hw : ConsistentSubs w) (h : ∀ i ∈ L, i ∈ w) : ConsistentSubs L :=
  fun i hi j hj hij => hw i (h i hi) j (h j hj) hij

section
variable {G : MG Name} {w : World} {s : Name → Bool} {ev : Event} {g : MG Var} {nev : Event}

/-- a node that is not non-self-intervened is `X @ w` for a variable `X` named in `w` -/
theorem SWFacts.selfIntervened (facts : SWFacts G w s ev g nev) (x : Var) (hx : x ∈ g.nodes)
    (hn : isNotSelfIntervened x = false) : x = atWorld x.name w ∧ x.name ∈ w.map (·.name) := by
  rcases facts.shape x hx with h | h
  · rw [h] at hn
    cases hn
  · refine ⟨h, ?_⟩
    unfold isNotSelfIntervened at hn
    have : ¬ (∀ i ∈ x.ivs, (decide (i.name ≠ x.name)) = true) := by
      intro hall
      rw [List.all_eq_true.2 hall] at hn
      cases hn
    simp only [ne_eq, decide_not, Bool.not_eq_eq_eq_not, Bool.not_true, decide_eq_false_iff_not, not_forall,
      Decidable.not_not] at this
    obtain ⟨i, hi, hin⟩ := this
    have hivs : x.ivs = w := by rw [h]; rfl
    rw [hivs] at hi
    exact List.mem_map.2 ⟨i, hi, hin⟩

/-- the single-world facts contain the district facts -/
theorem SWFacts.toD (facts : SWFacts G w s ev g nev) : DFacts G s g nev where
  wf := facts.wf
  nodeOK := facts.nodeOK
  inj := facts.inj
  rep := facts.rep
  biRep := facts.biRep
  sep := by
    intro v hv hvn n hn hnn hname
    have := (facts.selfIntervened v hv hvn).2
    rw [hname] at this
    exact facts.notW n hn hnn this
  nevVals := facts.nevVals
  nevOK := facts.nevOK
  keysNodes := facts.keysNodes
  proj := facts.proj

/-- **the non-self-intervened variables form a local set in the world of the event** — and in every sub-world `L ⊆ w` that
contains all of `w` as soon as some node still lives in `w` -/
theorem localSet_world (M : Model) (ν : BaseValues) (hM : Compatible M G) (facts : SWFacts G w s ev g nev)
    (hwc : ConsistentSubs w) (T : List Name)
    (hT : ∀ V, V ∈ T ↔ ∃ n ∈ (nsiSubgraph g).nodes, n.name = V) (L : List Iv) (hL1 : ∀ i ∈ L, i ∈ w)
    (hL2 : (∃ n ∈ (nsiSubgraph g).nodes, n ≠ Var.plain n.name) → ∀ i ∈ w, i ∈ L) (τ : Valuation)
    (hτw : ∀ i ∈ w, i.star = true → τ i.name = ν i.name true) :
    LocalSet M (worldOf (nuOf ν τ) L) τ T := by
  have hLc : ConsistentSubs L := consistentSubs_subset hwc hL1
  have hτL : ∀ i ∈ L, i.star = true → τ i.name = ν i.name true := fun i hi => hτw i (hL1 i hi)
  intro V hV
  obtain ⟨n, hnN, rfl⟩ := (hT V).1 hV
  obtain ⟨hng, hnsi⟩ := (mem_nsiSubgraph_iff g n).1 hnN
  refine ⟨(hM.perm.mem_iff).2 (facts.nodeOK n hng).inG, ?_, ?_⟩
  · apply forced_worldOf_none'
    intro hmem
    obtain ⟨i, hi, hin⟩ := List.mem_map.1 hmem
    exact facts.notW n hng hnsi (List.mem_map.2 ⟨i, hL1 i hi, hin⟩)
  · intro p hp
    obtain ⟨x, hxn, hxname⟩ := facts.rep n hng hnsi p (hM.pa_sub n.name p hp)
    have hxg : x ∈ g.nodes := (facts.wf.di_mem _ hxn).1
    by_cases hxnsi : isNotSelfIntervened x = true
    · left
      exact (hT p).2 ⟨x, (mem_nsiSubgraph_iff g x).2 ⟨hxg, hxnsi⟩, hxname⟩
    · right
      have hx' := facts.selfIntervened x hxg (by simpa using hxnsi)
      rw [hxname] at hx'
      have hw : w ≠ [] := by
        intro h0
        rw [h0] at hx'
        cases hx'.2
      -- `n` is a child of a node of world `w`, hence not factual
      have hnw : n ≠ Var.plain n.name := by
        intro hnp
        have hxp := facts.plainPa x n hxn hnp
        rw [hxname] at hxp
        rw [hx'.1] at hxp
        exact plain_ne_atWorld _ _ hw hxp.symm
      have hsub := hL2 ⟨n, hnN, hnw⟩
      apply forced_nuOf ν τ L hLc hτL p
      obtain ⟨i, hi, hin⟩ := List.mem_map.1 hx'.2
      exact List.mem_map.2 ⟨i, hsub i hi, hin⟩


/-- **marginalisation to the event**: the joint distribution of all non-self-intervened variables in the world `w` of the
event, summed over the variables that are not in the event, is the probability of the event -/
theorem sumOver_world (M : Model) (ν : BaseValues) (dom : Name → Nat) (hM : Compatible M G)
    (hdom : ∀ v ps us, M.f v ps us < dom v) (facts : SWFacts G w s ev g nev) (hfr : Frag2 G w s ev) (hnsiK : ∀ k ∈ nev.keys, isNotSelfIntervened k = true)
    (T : List Name) (hT : ∀ V, V ∈ T ↔ ∃ n ∈ (nsiSubgraph g).nodes, n.name = V) (rs : List Name) (hrs : rs.Nodup)
    (hrsm : ∀ V, V ∈ rs ↔ V ∈ T ∧ V ∉ ev.keys.map (·.name)) (σ : Valuation)
    (hσ : ∀ k ∈ ev.keys, s k.name = true → σ k.name = ν k.name true) :
    sumOver dom rs (fun τ => prob M (T.map fun V => ⟨V, worldOf (nuOf ν τ) w, τ V⟩)) σ = probEvent M (nuOf ν σ) ev := by
  have hnotW : ∀ V ∈ T, V ∉ w.map (·.name) := by
    intro V hV
    obtain ⟨n, hnN, rfl⟩ := (hT V).1 hV
    obtain ⟨hng, hnsi⟩ := (mem_nsiSubgraph_iff g n).1 hnN
    exact facts.notW n hng hnsi
  have hbound : ∀ r ∈ rs, ∀ (τ : Valuation) (u : NoisePoint), solve M u (worldOf (nuOf ν τ) w) r < dom r := by
    intro r hr τ u
    have hrT := ((hrsm r).1 hr).1
    obtain ⟨n, hnN, hnr⟩ := (hT r).1 hrT
    have hng := ((mem_nsiSubgraph_iff g n).1 hnN).1
    have hro : r ∈ M.order := by rw [← hnr]; exact (hM.perm.mem_iff).2 (facts.nodeOK n hng).inG
    rw [solve_unforced M hM.topoOrder u _ r hro (forced_worldOf_none' _ w r (hnotW r hrT))]
    exact hdom _ _ _
  rw [sumOver_prob M dom T (fun τ => worldOf (nuOf ν τ) w) rs hbound hrs (fun r hr => ((hrsm r).1 hr).1)
    (fun r hr τ x => worldOf_nuOf_update' ν τ w r (hnotW r ((hrsm r).1 hr).1) x) σ]
  unfold probEvent
  -- the conjunct of a key, read under `σ`
  have hconj : ∀ k v, (k, v) ∈ ev → conjunctOf (nuOf ν σ) (k, v) = ⟨k.name, worldOf (nuOf ν σ) w, σ k.name⟩ := by
    intro k v hv
    have hk : k ∈ ev.keys := (mem_keys_iff ev k).2 ⟨v, hv⟩
    have hvk : v = ⟨k.name, s k.name⟩ := hfr.vals _ hv
    have hkw : k.ivs = w := by rw [hfr.keysIn k hk]; rfl
    have hval : ivValue (nuOf ν σ) v = σ k.name := by
      rw [hvk]
      cases hs : s k.name with
      | false => simp [ivValue, nuOf]
      | true => simp [ivValue, nuOf, hσ k hk hs]
    simp only [conjunctOf, hkw, hval]
  -- the remaining variables are exactly the key names
  have hkeyT : ∀ k ∈ ev.keys, k.name ∈ T := by
    intro k hk
    have hb : k.name ∈ nev.keys.map (·.name) := (facts.keyNames k.name).2 (List.mem_map.2 ⟨k, hk, rfl⟩)
    obtain ⟨k', hk', hkn⟩ := List.mem_map.1 hb
    exact (hT k.name).2 ⟨k', (mem_nsiSubgraph_iff g k').2 ⟨facts.keysNodes k' hk', hnsiK k' hk'⟩, hkn⟩
  apply prob_congr_conj
  · intro c hc
    obtain ⟨V, hV, rfl⟩ := List.mem_map.1 hc
    rw [List.mem_filter] at hV
    have hVk : V ∈ ev.keys.map (·.name) := by
      by_contra hno
      have := (hrsm V).2 ⟨hV.1, hno⟩
      simp [this] at hV
    obtain ⟨k, hk, rfl⟩ := List.mem_map.1 hVk
    obtain ⟨v, hv⟩ := (mem_keys_iff ev k).1 hk
    refine ⟨conjunctOf (nuOf ν σ) (k, v), List.mem_map.2 ⟨(k, v), hv, rfl⟩, fun u => ?_⟩
    rw [hconj k v hv]
  · intro c hc
    obtain ⟨p, hp, rfl⟩ := List.mem_map.1 hc
    have hk : p.1 ∈ ev.keys := (mem_keys_iff ev p.1).2 ⟨p.2, hp⟩
    refine ⟨⟨p.1.name, worldOf (nuOf ν σ) w, σ p.1.name⟩, ?_, fun u => ?_⟩
    · refine List.mem_map.2 ⟨p.1.name, ?_, rfl⟩
      rw [List.mem_filter]
      refine ⟨hkeyT p.1 hk, ?_⟩
      simp only [decide_eq_true_eq]
      intro hr
      exact ((hrsm _).1 hr).2 (List.mem_map.2 ⟨p.1, hk, rfl⟩)
    · rw [show p = (p.1, p.2) from rfl, hconj p.1 p.2 hp]


/-- the order in which the nodes of a district are iterated is a permutation of the district -/
def PermDistrict (dordf : List Var → List Var) : Prop := ∀ d, (dordf d).Perm d

theorem PermDistrict.subset {dordf : List Var → List Var} (h : PermDistrict dordf) : SubsetOrder dordf :=
  fun d x hx => (h d).mem_iff.1 hx

theorem mem_toInterventions_unst (facts : DFacts G s g nev) (pillow : List Var) (hp : ∀ v ∈ pillow, v ∈ g.nodes) (i : Iv) :
    i ∈ ivsCanon (toInterventions pillow) ↔ ∃ v ∈ pillow, i = ⟨v.name, false⟩ := by
  rw [mem_ivsCanon]
  unfold toInterventions
  simp only [List.mem_map]
  constructor
  · rintro ⟨v, hv, rfl⟩
    refine ⟨v, hv, ?_⟩
    rw [(facts.nodeOK v (hp v hv)).notIv]
    rfl
  · rintro ⟨v, hv, rfl⟩
    refine ⟨v, hv, ?_⟩
    rw [(facts.nodeOK v (hp v hv)).notIv]
    rfl

/-- **the variables of a district form a local set in the world of the district's Markov pillow** -/
theorem localSet_district (M : Model) (ν : BaseValues) (hM : Compatible M G) (facts : DFacts G s g nev)
    {dordf : List Var → List Var} (hdo : PermDistrict dordf) (D : List Var) (hD : D ∈ (nsiSubgraph g).districts)
    (pillow : List Var) (hp : g.markovPillow (dordf D) = .ok pillow) (τ : Valuation) :
    LocalSet M (worldOf (nuOf ν τ) (ivsCanon (toInterventions pillow))) τ (D.map (·.name)) := by
  have hwfn := wf_nsiSubgraph g
  have hDmem : ∀ n ∈ D, n ∈ g.nodes ∧ isNotSelfIntervened n = true := fun n hn =>
    (mem_nsiSubgraph_iff g n).1 ((districts_cover _ hwfn n).2 ⟨D, hD, hn⟩)
  have hpspec := markovPillow_spec g (dordf D) pillow hp
  have hpnode : ∀ v ∈ pillow, v ∈ g.nodes := by
    intro v hv
    obtain ⟨_, s, _, hvs⟩ := (hpspec v).1 hv
    exact (facts.wf.di_mem _ hvs).1
  have hmemw := mem_toInterventions_unst facts pillow hpnode
  have hLU : ∀ i ∈ ivsCanon (toInterventions pillow), i.star = false := by
    intro i hi
    obtain ⟨v, _, rfl⟩ := (hmemw i).1 hi
    rfl
  intro V hV
  obtain ⟨n, hnD, rfl⟩ := List.mem_map.1 hV
  obtain ⟨hng, hnsi⟩ := hDmem n hnD
  refine ⟨(hM.perm.mem_iff).2 (facts.nodeOK n hng).inG, ?_, ?_⟩
  · apply forced_worldOf_none'
    intro hmem
    obtain ⟨i, hi, hin⟩ := List.mem_map.1 hmem
    obtain ⟨v, hv, rfl⟩ := (hmemw i).1 hi
    simp only at hin
    -- a pillow node with the name of a district node
    have hvD : v ∉ dordf D := ((hpspec v).1 hv).1
    by_cases hvnsi : isNotSelfIntervened v = true
    · have : v = n := facts.inj v (hpnode v hv) n hng hvnsi hnsi hin
      exact hvD ((hdo D).mem_iff.2 (this ▸ hnD))
    · exact facts.sep v (hpnode v hv) (by simpa using hvnsi) n hng hnsi hin
  · intro p hpp
    obtain ⟨x, hxn, hxname⟩ := facts.rep n hng hnsi p (hM.pa_sub n.name p hpp)
    by_cases hxD : x ∈ dordf D
    · left
      exact List.mem_map.2 ⟨x, (hdo D).mem_iff.1 hxD, hxname⟩
    · right
      have : x ∈ pillow := (hpspec x).2 ⟨hxD, n, (hdo D).mem_iff.2 hnD, hxn⟩
      apply forced_unst ν τ _ hLU p
      exact List.mem_map.2 ⟨⟨x.name, false⟩, (hmemw _).2 ⟨x, this, rfl⟩, hxname⟩

/-- **c-component factorisation**: the joint local event of all non-self-intervened variables is the product over the
districts of the counterfactual graph -/
theorem mass_districts (M : Model) (hM : Compatible M G) (hn : ∀ pmf ∈ M.noise, pmf.sum = 1)
    (facts : DFacts G s g nev) (T : List Name) (hT : ∀ V, V ∈ T ↔ ∃ n ∈ (nsiSubgraph g).nodes, n.name = V) (τ : Valuation) :
    mass M.noise (fun u => T.all (localOK M τ u)) =
      ((nsiSubgraph g).districts.map fun D => mass M.noise (fun u => (D.map (·.name)).all (localOK M τ u))).prod := by
  have hwfn := wf_nsiSubgraph g
  rw [← mass_indep_list M.noise hn (fun (D : List Var) u => (D.map (·.name)).all (localOK M τ u))
    (fun D j => ∃ V ∈ D.map (·.name), j ∈ M.lat V)]
  · apply mass_congr
    intro u
    apply Bool.eq_iff_iff.2
    simp only [List.all_eq_true, List.mem_map, forall_exists_index, and_imp, forall_apply_eq_imp_iff₂]
    constructor
    · intro h D hD n hnD
      exact h n.name ((hT _).2 ⟨n, (districts_cover _ hwfn n).2 ⟨D, hD, hnD⟩, rfl⟩)
    · intro h V hV
      obtain ⟨n, hnN, rfl⟩ := (hT V).1 hV
      obtain ⟨D, hD, hnD⟩ := (districts_cover _ hwfn n).1 hnN
      exact h D hD n hnD
  · intro D _ u u' huu
    apply Bool.eq_iff_iff.2
    simp only [List.all_eq_true]
    constructor
    · intro h V hV
      have e : localOK M τ u V = localOK M τ u' V := localOK_dependsOn M τ V u u' (fun j hj => huu j ⟨V, hV, hj⟩)
      rw [← e]
      exact h V hV
    · intro h V hV
      have e : localOK M τ u V = localOK M τ u' V := localOK_dependsOn M τ V u u' (fun j hj => huu j ⟨V, hV, hj⟩)
      rw [e]
      exact h V hV
  · apply List.Pairwise.imp_of_mem _ (districts_disjoint _ hwfn)
    intro D D' hD hD' hdis j hj hj'
    obtain ⟨V, hV, hjV⟩ := hj
    obtain ⟨V', hV', hjV'⟩ := hj'
    obtain ⟨a, haD, rfl⟩ := List.mem_map.1 hV
    obtain ⟨b, hbD', rfl⟩ := List.mem_map.1 hV'
    have haN : a ∈ (nsiSubgraph g).nodes := (districts_cover _ hwfn a).2 ⟨D, hD, haD⟩
    have hbN : b ∈ (nsiSubgraph g).nodes := (districts_cover _ hwfn b).2 ⟨D', hD', hbD'⟩
    obtain ⟨hag, hansi⟩ := (mem_nsiSubgraph_iff g a).1 haN
    obtain ⟨hbg, hbnsi⟩ := (mem_nsiSubgraph_iff g b).1 hbN
    by_cases hname : a.name = b.name
    · have : a = b := facts.inj a hag b hbg hansi hbnsi hname
      exact hdis a haD (this ▸ hbD')
    · have hbi := hM.lat_bi a.name b.name hname ⟨j, hjV, hjV'⟩
      have hab : a ≠ b := fun e => hname (by rw [e])
      have hedge : g.BiEdge a b := facts.biRep a hag b hbg hansi hbnsi hab hbi
      have hedge' : (nsiSubgraph g).BiEdge a b := by
        unfold nsiSubgraph
        rw [MG.biEdge_subgraph]
        exact ⟨hedge, List.mem_filter.2 ⟨hag, hansi⟩, List.mem_filter.2 ⟨hbg, hbnsi⟩⟩
      have : b ∈ D := (districts_spec _ hwfn D hD a haD b).2 (ReflTransGen.single hedge')
      exact hdis b this hbD'

end

end Y0.Cf
