/-
  Y0.Lemmas.SemObs — purely observational expressions (`ObsOnly G.nodes e`, the vocabulary of ID / IDC estimands,
  Y0/Lemmas/IdVocab.lean) in the environment `M.env G` of a compatible semi-Markovian model:
    * they are single-world expressions over the nodes (`swOK_of_obsOnly`), so `M.envX G` and `M.env G` agree on them;
    * zero-free ones (`ZF`, Y0/Lemmas/IdZeroFree.lean) denote POSITIVE numbers at every valuation
      (`den_pos_of_obsOnly`), hence have no vanishing denominator (`denNZA_of_obsOnly`): the hypothesis `DenNZ` of
      C10 `canon_den` is discharged for every estimand ID returns.
  (Kept free of Y0/Lemmas/Sem*.lean: only the id-side libraries and Y0/Spec/SingleWorld.lean are needed.)
-/
import Y0.Spec.SingleWorld
import Y0.Lemmas.TianProb
import Y0.Lemmas.IdZeroFree
import Y0.Lemmas.IdVocab

namespace Y0
namespace Scm
open TianProb

variable {M : Scm} {G : MG Name}

theorem leafSW_of_plainIn {c p : List Var} (hc : ∀ v ∈ c, v.PlainIn G.nodes) (hp : ∀ v ∈ p, v.PlainIn G.nodes) :
    leafSW G c p = true := by
  have h : ∀ v ∈ c ++ p, v.PlainIn G.nodes := by
    intro v hv
    rcases List.mem_append.mp hv with h | h
    · exact hc v h
    · exact hp v h
  have hivs : ∀ v ∈ c ++ p, v.ivs = [] := fun v hv => by rw [(h v hv).1]; rfl
  unfold leafSW
  simp only [Bool.and_eq_true, List.all_eq_true, decide_eq_true_eq]
  refine ⟨⟨fun v hv w hw => by rw [hivs v hv, hivs w hw], fun v hv => by rw [hivs v hv]; rfl⟩,
    fun v hv => (h v hv).2⟩

/-- the estimands of ID / IDC are single-world expressions over the nodes -/
theorem swOK_of_obsOnly {e : Expr} (h : ObsOnly G.nodes e) : e.swOK G = true := by
  induction h with
  | prob c p hc hp => simpa [Expr.swOK] using leafSW_of_plainIn hc hp
  | prod fs _ ih =>
    simp only [Expr.swOK]
    have key : ∀ l : List Expr, (∀ f ∈ l, Expr.swOK G f = true) → Expr.swOKList G l = true := by
      intro l
      induction l with
      | nil => intro _; rfl
      | cons f l ihl =>
        intro hl
        simp only [Expr.swOKList, Bool.and_eq_true]
        exact ⟨hl f List.mem_cons_self, ihl (fun g hg => hl g (List.mem_cons_of_mem _ hg))⟩
    exact key fs ih
  | sum e r _ _ ih => simpa [Expr.swOK] using ih
  | frac n d _ _ ih1 ih2 => simp [Expr.swOK, ih1, ih2]
  | one => rfl
  | zero => rfl

theorem prAtoms_plain_pos (hM : M.Compatible G) (hG : G.WF) (σ σ' : Val) (vs : List Var)
    (h : ∀ v ∈ vs, v.PlainIn G.nodes) : 0 < M.prAtoms G (vs.map (Var.atom σ σ')) := by
  by_cases hne : vs = []
  · subst hne; simp [prAtoms]
  · rw [prAtoms_world hM hG σ σ' [] (by simp) vs hne (fun v hv => by rw [(h v hv).1]; exact ⟨rfl, by simp [Var.plain]⟩)]
    exact F_pos hM _ _ _

mutual
theorem den_pos_of_obsOnly (hM : M.Compatible G) (hG : G.WF) (σ' : Val) : ∀ (e : Expr), ObsOnly G.nodes e → ZF e →
    ∀ σ, 0 < den (M.env G) σ' e σ
  | .prob pop c p, ho, _, σ => by
    cases ho with
    | prob _ _ hc hp =>
      simp only [den]
      apply div_pos
      · apply prAtoms_plain_pos hM hG
        intro v hv
        rcases List.mem_append.mp hv with h | h
        · exact hc v h
        · exact hp v h
      · exact prAtoms_plain_pos hM hG σ σ' p hp
  | .prod fs, ho, hz, σ => by
    simp only [den]
    exact denProd_pos_of_obsOnly hM hG σ' fs (obsOnly_prod_inv ho) (zf_prod_inv hz) σ
  | .sum e r, ho, hz, σ => by
    simp only [den]
    cases ho with
    | sum _ _ he _ =>
      cases hz with
      | sum _ _ hze =>
        exact Scm.sumVars_pos _ _ _ (fun x _ => hM.card_pos x) (fun τ => den_pos_of_obsOnly hM hG σ' e he hze τ) σ
  | .frac n d, ho, hz, σ => by
    simp only [den]
    obtain ⟨h1, h2⟩ := obsOnly_frac_inv ho
    obtain ⟨z1, z2⟩ := zf_frac_inv hz
    exact div_pos (den_pos_of_obsOnly hM hG σ' n h1 z1 σ) (den_pos_of_obsOnly hM hG σ' d h2 z2 σ)
  | .one, _, _, σ => by simp [den]
  | .zero, _, hz, _ => by cases hz
  | .q _ _, ho, _, _ => by cases ho
theorem denProd_pos_of_obsOnly (hM : M.Compatible G) (hG : G.WF) (σ' : Val) : ∀ (fs : List Expr),
    (∀ f ∈ fs, ObsOnly G.nodes f) → (∀ f ∈ fs, ZF f) → ∀ σ, 0 < denProd (M.env G) σ' fs σ
  | [], _, _, σ => by simp [denProd]
  | e :: es, ho, hz, σ => by
    simp only [denProd]
    exact mul_pos (den_pos_of_obsOnly hM hG σ' e (ho e List.mem_cons_self) (hz e List.mem_cons_self) σ)
      (denProd_pos_of_obsOnly hM hG σ' es (fun f hf => ho f (List.mem_cons_of_mem _ hf))
        (fun f hf => hz f (List.mem_cons_of_mem _ hf)) σ)
end

mutual
/-- zero-free observational expressions have no vanishing denominator in the environment of a compatible model -/
theorem denNZA_of_obsOnly (hM : M.Compatible G) (hG : G.WF) (σ' : Val) : ∀ (e : Expr), ObsOnly G.nodes e → ZF e →
    DenNZA (M.env G) σ' e
  | .prob _ _ _, _, _ => by simp [DenNZA]
  | .prod fs, ho, hz => by
    simp only [DenNZA]
    exact denNZAList_of_obsOnly hM hG σ' fs (obsOnly_prod_inv ho) (zf_prod_inv hz)
  | .sum e r, ho, hz => by
    simp only [DenNZA]
    cases ho with
    | sum _ _ he _ =>
      cases hz with
      | sum _ _ hze => exact denNZA_of_obsOnly hM hG σ' e he hze
  | .frac n d, ho, hz => by
    obtain ⟨h1, h2⟩ := obsOnly_frac_inv ho
    obtain ⟨z1, z2⟩ := zf_frac_inv hz
    simp only [DenNZA]
    exact ⟨denNZA_of_obsOnly hM hG σ' n h1 z1, denNZA_of_obsOnly hM hG σ' d h2 z2,
      fun σ => (den_pos_of_obsOnly hM hG σ' d h2 z2 σ).ne'⟩
  | .one, _, _ => by simp [DenNZA]
  | .zero, _, _ => by simp [DenNZA]
  | .q _ _, _, _ => by simp [DenNZA]
theorem denNZAList_of_obsOnly (hM : M.Compatible G) (hG : G.WF) (σ' : Val) : ∀ (fs : List Expr),
    (∀ f ∈ fs, ObsOnly G.nodes f) → (∀ f ∈ fs, ZF f) → DenNZAList (M.env G) σ' fs
  | [], _, _ => by simp [DenNZAList]
  | e :: es, ho, hz => by
    simp only [DenNZAList]
    exact ⟨denNZA_of_obsOnly hM hG σ' e (ho e List.mem_cons_self) (hz e List.mem_cons_self),
      denNZAList_of_obsOnly hM hG σ' es (fun f hf => ho f (List.mem_cons_of_mem _ hf))
        (fun f hf => hz f (List.mem_cons_of_mem _ hf))⟩
end

end Scm
end Y0
