/-
  Y0.Lemmas.FscmEnv — the ingredients of `fscmEnv_probFamily` (Y0/Lemmas/FscmEnvLaws.lean):
    * worlds: `forced` on single-valued lists, `normDo` (perm-invariant, in range, identity on valid worlds),
      `solve` depends on the world only through `forced`;
    * values: in a well-formed model every solution is in range;
    * the noise space: non-negative weights of total mass one;
    * finite mass: the generic marginalisation identity `Σ_k mass{g = k ∧ P} = mass P`.
-/
import Y0.Spec.FscmEnv
import Y0.Lemmas.CfFscm
import Y0.Lemmas.Prob

namespace Y0
namespace Fscm

/-! ### worlds -/

/-- at most one value per variable -/
def Functional (d : Do) : Prop := ∀ p ∈ d, ∀ q ∈ d, p.1 = q.1 → p.2 = q.2

theorem forced_eq_some_iff {d : Do} (hd : Functional d) (v : Name) (x : Nat) :
    forced d v = some x ↔ (v, x) ∈ d := by
  unfold forced
  induction d with
  | nil => simp
  | cons p r ih =>
    have hr : Functional r := fun a ha b hb => hd a (List.mem_cons_of_mem _ ha) b (List.mem_cons_of_mem _ hb)
    simp only [List.find?_cons]
    by_cases hp : p.1 = v
    · simp only [hp, decide_true, Option.map_some, Option.some.injEq, List.mem_cons]
      constructor
      · intro h; left; rw [← h, ← hp]
      · rintro (h | h)
        · rw [← h]
        · have := hd p List.mem_cons_self (v, x) (List.mem_cons_of_mem _ h) hp
          exact this
    · simp only [hp, decide_false]
      rw [ih hr]
      simp only [List.mem_cons]
      constructor
      · exact Or.inr
      · rintro (h | h)
        · exact absurd (by rw [← h]) hp
        · exact h

theorem forced_eq_none_iff (d : Do) (v : Name) : forced d v = none ↔ ∀ p ∈ d, p.1 ≠ v := by
  unfold forced
  simp [List.find?_eq_none]

theorem forced_mem {d : Do} {v : Name} {x : Nat} (h : forced d v = some x) : (v, x) ∈ d := by
  unfold forced at h
  cases hf : d.find? (fun p => decide (p.1 = v)) with
  | none => simp [hf] at h
  | some p =>
    simp only [hf, Option.map_some, Option.some.injEq] at h
    have h1 := List.mem_of_find?_eq_some hf
    have h2 := List.find?_some hf
    simp only [decide_eq_true_eq] at h2
    rw [← h2, ← h]
    exact h1

/-- two single-valued worlds with the same bindings force the same values -/
theorem forced_congr_mem {d d' : Do} (hd : Functional d) (hd' : Functional d') (h : ∀ p, p ∈ d ↔ p ∈ d') (v : Name) :
    forced d v = forced d' v := by
  cases hf : forced d v with
  | none =>
    symm
    rw [forced_eq_none_iff] at hf ⊢
    exact fun p hp => hf p ((h p).mpr hp)
  | some x =>
    symm
    rw [forced_eq_some_iff hd] at hf
    rw [forced_eq_some_iff hd']
    exact (h _).mp hf

theorem mem_normDo {card : Name → Nat} {d : Do} {p : Name × Nat} :
    p ∈ normDo card d ↔ p ∈ d ∧ p.2 < card p.1 ∧ ∀ q ∈ d, q.1 = p.1 → q.2 < card q.1 → p.2 ≤ q.2 := by
  unfold normDo
  simp only [List.mem_filter, Bool.and_eq_true, decide_eq_true_eq, List.all_eq_true, Bool.or_eq_true,
    Bool.not_eq_true', Bool.and_eq_false_iff, decide_eq_false_iff_not]
  constructor
  · rintro ⟨h1, h2, h3⟩
    refine ⟨h1, h2, fun q hq e hr => ?_⟩
    rcases h3 q hq with (h | h) | h
    · exact absurd e h
    · exact absurd hr h
    · exact h
  · rintro ⟨h1, h2, h3⟩
    refine ⟨h1, h2, fun q hq => ?_⟩
    by_cases e : q.1 = p.1
    · by_cases hr : q.2 < card q.1
      · exact Or.inr (h3 q hq e hr)
      · exact Or.inl (Or.inr hr)
    · exact Or.inl (Or.inl e)

theorem normDo_functional (card : Name → Nat) (d : Do) : Functional (normDo card d) := by
  intro p hp q hq e
  obtain ⟨hp1, hp2, hp3⟩ := mem_normDo.mp hp
  obtain ⟨hq1, hq2, hq3⟩ := mem_normDo.mp hq
  exact Nat.le_antisymm (hp3 q hq1 e.symm hq2) (hq3 p hp1 e hp2)

theorem normDo_inRange {card : Name → Nat} {d : Do} {v : Name} {x : Nat} (h : forced (normDo card d) v = some x) :
    x < card v := (mem_normDo.mp (forced_mem h)).2.1

/-- **the denoted world does not depend on the order in which the interventions are listed** -/
theorem forced_normDo_perm (card : Name → Nat) {d d' : Do} (h : d.Perm d') (v : Name) :
    forced (normDo card d) v = forced (normDo card d') v := by
  apply forced_congr_mem (normDo_functional card d) (normDo_functional card d')
  intro p
  simp only [mem_normDo, h.mem_iff]

/-- the convention is invisible on well-formed worlds -/
theorem normDo_of_valid {card : Name → Nat} {d : Do} (h : DoValid card d) : normDo card d = d := by
  unfold normDo
  apply List.filter_eq_self.mpr
  intro p hp
  simp only [Bool.and_eq_true, decide_eq_true_eq, List.all_eq_true, Bool.or_eq_true, Bool.not_eq_true',
    Bool.and_eq_false_iff, decide_eq_false_iff_not]
  refine ⟨h.1 p hp, fun q hq => ?_⟩
  by_cases e : q.1 = p.1
  · exact Or.inr (Nat.le_of_eq (h.2 p hp q hq e.symm))
  · exact Or.inl (Or.inl e)

theorem DoValid.functional {card : Name → Nat} {d : Do} (h : DoValid card d) : Functional d := h.2

/-- `solve` reads the world only through `forced` -/
theorem solve_congr_forced (M : Model) (u : NoisePoint) {d d' : Do} (h : ∀ v, forced d v = forced d' v) :
    solve M u d = solve M u d' := by
  unfold solve
  have : step M u d = step M u d' := by
    funext σ v
    unfold step
    rw [h v]
  rw [this]

theorem solve_normDo_perm (M : Model) (u : NoisePoint) (card : Name → Nat) {d d' : Do} (h : d.Perm d') :
    solve M u (normDo card d) = solve M u (normDo card d') :=
  solve_congr_forced M u (forced_normDo_perm card h)

/-- for single-valued worlds the order of the bindings is irrelevant (raw worlds) -/
theorem solve_perm_of_functional (M : Model) (u : NoisePoint) {d d' : Do} (hd : Functional d) (h : d.Perm d') :
    solve M u d = solve M u d' := by
  apply solve_congr_forced
  have hd' : Functional d' := fun p hp q hq => hd p (h.mem_iff.mpr hp) q (h.mem_iff.mpr hq)
  exact forced_congr_mem hd hd' (fun p => h.mem_iff)

/-! ### values are in range -/

/-- every binding the world actually uses is in range -/
def DoInRange (card : Name → Nat) (d : Do) : Prop := ∀ v x, forced d v = some x → x < card v

theorem normDo_doInRange (card : Name → Nat) (d : Do) : DoInRange card (normDo card d) :=
  fun _ _ h => normDo_inRange h

theorem DoValid.doInRange {card : Name → Nat} {d : Do} (h : DoValid card d) : DoInRange card d :=
  fun _ _ hf => h.1 _ (forced_mem hf)

theorem step_lt {M : Model} {card : Name → Nat} (hM : WellFormed M card) (u : NoisePoint) {d : Do}
    (hd : DoInRange card d) (σ : Valuation) (hσ : ∀ w, σ w < card w) (v : Name) :
    ∀ w, step M u d σ v w < card w := by
  intro w
  unfold step
  cases hf : forced d v with
  | some x =>
    simp only [update]
    split
    · rename_i e; subst e; exact hd _ x hf
    · exact hσ w
  | none =>
    simp only [update]
    split
    · rename_i e; subst e; exact hM.f_range _ _ _
    · exact hσ w

/-- **in a well-formed model every variable takes one of its values**, in every world whose bindings are in range -/
theorem solve_lt {M : Model} {card : Name → Nat} (hM : WellFormed M card) (u : NoisePoint) {d : Do}
    (hd : DoInRange card d) (v : Name) : solve M u d v < card v := by
  unfold solve
  have : ∀ (l : List Name) (σ : Valuation), (∀ w, σ w < card w) → ∀ w, (l.foldl (step M u d) σ) w < card w := by
    intro l
    induction l with
    | nil => intro σ hσ; exact hσ
    | cons a l ih =>
      intro σ hσ
      simp only [List.foldl_cons]
      exact ih _ (step_lt hM u hd σ hσ a)
  exact this M.order _ (fun w => hM.card_pos w) v

/-! ### the noise space -/

theorem sum_map_mul_left {α} (l : List α) (c : Rat) (f : α → Rat) : (l.map fun x => c * f x).sum = c * (l.map f).sum := by
  induction l with
  | nil => simp
  | cons a l ih => simp only [List.map_cons, List.sum_cons, ih]; ring

theorem sum_flatMap {α β} (l : List α) (g : α → List β) (f : β → Rat) :
    ((l.flatMap g).map f).sum = (l.map fun a => ((g a).map f).sum).sum := by
  induction l with
  | nil => simp
  | cons a l ih => simp only [List.flatMap_cons, List.map_append, List.sum_append, List.map_cons, List.sum_cons, ih]

theorem sum_zipIdx_fst (l : List Rat) (n : Nat) : ((l.zipIdx n).map (·.1)).sum = l.sum := by
  induction l generalizing n with
  | nil => simp
  | cons a l ih => simp only [List.zipIdx_cons, List.map_cons, List.sum_cons, ih]

/-- total mass of the noise space = product of the total masses of the pmfs -/
theorem space_mass (noise : List (List Rat)) : ((space noise).map (·.2)).sum = (noise.map List.sum).prod := by
  induction noise with
  | nil => simp [space]
  | cons pmf rest ih =>
    simp only [space, List.map_cons, List.prod_cons]
    rw [sum_flatMap]
    simp only [List.map_map, Function.comp_def]
    rw [show (fun a : Rat × Nat => ((space rest).map fun x => a.1 * x.2).sum) =
        fun a : Rat × Nat => a.1 * ((space rest).map (·.2)).sum from
      funext fun a => sum_map_mul_left _ _ _]
    rw [ih]
    have : ((pmf.zipIdx).map fun a : Rat × Nat => a.1 * (rest.map List.sum).prod).sum =
        ((pmf.zipIdx).map (·.1)).sum * (rest.map List.sum).prod := by
      generalize pmf.zipIdx = z
      induction z with
      | nil => simp
      | cons a z ih => simp only [List.map_cons, List.sum_cons, ih]; ring
    rw [this, sum_zipIdx_fst]

theorem space_mass_one {noise : List (List Rat)} (h : ∀ pmf ∈ noise, pmf.sum = 1) :
    ((space noise).map (·.2)).sum = 1 := by
  rw [space_mass]
  apply List.prod_eq_one
  intro x hx
  obtain ⟨pmf, hp, rfl⟩ := List.mem_map.mp hx
  exact h pmf hp

theorem space_weight_nonneg {noise : List (List Rat)} (h : ∀ pmf ∈ noise, ∀ p ∈ pmf, 0 ≤ p) :
    ∀ pt ∈ space noise, 0 ≤ pt.2 := by
  induction noise with
  | nil => intro pt hpt; simp [space] at hpt; subst hpt; decide
  | cons pmf rest ih =>
    intro pt hpt
    simp only [space, List.mem_flatMap, List.mem_map] at hpt
    obtain ⟨⟨p, x⟩, hpx, ⟨q, hq, rfl⟩⟩ := hpt
    have hp : p ∈ pmf := by
      have := List.mem_zipIdx hpx
      simp only [Nat.zero_add] at this
      obtain ⟨_, _, e⟩ := this
      rw [e]; exact List.getElem_mem _
    exact mul_nonneg (h pmf List.mem_cons_self p hp)
      (ih (fun pm hpm => h pm (List.mem_cons_of_mem _ hpm)) q hq)

/-! ### finite mass -/

/-- mass of the sample points satisfying `P` -/
def massOn {Ω} (sp : List (Ω × Rat)) (P : Ω → Bool) : Rat := (sp.map fun pt => if P pt.1 then pt.2 else 0).sum

theorem prob_eq_massOn (M : Model) (cs : List Conjunct) : prob M cs = massOn (space M.noise) (fun u => cs.all (holds M u)) := rfl

theorem massOn_nonneg {Ω} (sp : List (Ω × Rat)) (P : Ω → Bool) (h : ∀ pt ∈ sp, 0 ≤ pt.2) : 0 ≤ massOn sp P := by
  unfold massOn
  apply List.sum_nonneg
  intro x hx
  obtain ⟨pt, hpt, rfl⟩ := List.mem_map.mp hx
  split
  · exact h pt hpt
  · exact le_refl 0

theorem massOn_true {Ω} (sp : List (Ω × Rat)) : massOn sp (fun _ => true) = (sp.map (·.2)).sum := by
  unfold massOn; simp

theorem massOn_congr {Ω} (sp : List (Ω × Rat)) {P P' : Ω → Bool} (h : ∀ pt ∈ sp, P pt.1 = P' pt.1) :
    massOn sp P = massOn sp P' := by
  unfold massOn
  apply sum_map_congr
  intro pt hpt
  rw [h pt hpt]

theorem massOn_false {Ω} (sp : List (Ω × Rat)) {P : Ω → Bool} (h : ∀ pt ∈ sp, P pt.1 = false) : massOn sp P = 0 := by
  unfold massOn
  apply sum_map_zero
  intro pt hpt
  simp [h pt hpt]

/-- **marginalisation over a finite sample space**: a statistic `g` with values below `n` partitions every event -/
theorem massOn_marg {Ω} (sp : List (Ω × Rat)) (P : Ω → Bool) (g : Ω → Nat) (n : Nat) (hg : ∀ pt ∈ sp, g pt.1 < n) :
    sumRange n (fun k => massOn sp (fun ω => (g ω == k) && P ω)) = massOn sp P := by
  rw [sumRange_eq_sum]
  unfold massOn
  induction sp with
  | nil => simp
  | cons pt sp ih =>
    simp only [List.map_cons, List.sum_cons]
    rw [Finset.sum_add_distrib, ih (fun q hq => hg q (List.mem_cons_of_mem _ hq))]
    congr 1
    have hlt := hg pt List.mem_cons_self
    by_cases hP : P pt.1 = true
    · simp only [hP, Bool.and_true, if_true, beq_iff_eq]
      rw [Finset.sum_ite_eq]
      simp [hlt]
    · have : P pt.1 = false := by simpa using hP
      simp [this]

end Fscm
end Y0
