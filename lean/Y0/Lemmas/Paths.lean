/-
  Y0.Lemmas.Paths — directed walks as node lists (`MG.DiPath`), their relation to `ReflTransGen`/`TransGen`,
  and the two implementations of `get_nodes_in_directed_paths`:
  the transitive-closure one (`strictDesc`) and the simple-path enumeration with fuel (`simplePathsFrom`).
-/
import Y0.Lemmas.Topo

namespace Y0.MG
variable {α : Type} [DecidableEq α]
open Relation

/-! ### walks -/

omit [DecidableEq α] in
theorem DiPath.eq_cons {G : MG α} {a b : α} {p : List α} (h : G.DiPath a p b) : ∃ p', p = a :: p' := by
  cases h with
  | single => exact ⟨[], rfl⟩
  | cons _ _ => exact ⟨_, rfl⟩

omit [DecidableEq α] in
theorem DiPath.head_mem {G : MG α} {a b : α} {p : List α} (h : G.DiPath a p b) : a ∈ p := by
  obtain ⟨p', rfl⟩ := h.eq_cons; simp

omit [DecidableEq α] in
theorem DiPath.last_mem {G : MG α} {a b : α} {p : List α} (h : G.DiPath a p b) : b ∈ p := by
  induction h with
  | single => simp
  | cons _ _ ih => exact List.mem_cons_of_mem _ ih

omit [DecidableEq α] in
theorem DiPath.rtg {G : MG α} {a b : α} {p : List α} (h : G.DiPath a p b) : ReflTransGen G.DiEdge a b := by
  induction h with
  | single => exact .refl
  | cons hab _ ih => exact ReflTransGen.head hab ih

omit [DecidableEq α] in
theorem DiPath.singleton_eq {G : MG α} {a b x : α} (h : G.DiPath a [x] b) : a = x ∧ x = b := by
  cases h with
  | single => exact ⟨rfl, rfl⟩
  | cons _ h' => cases h'

omit [DecidableEq α] in
theorem DiPath.rtg_of_mem {G : MG α} {a b : α} {p : List α} (h : G.DiPath a p b) (v : α) (hv : v ∈ p) :
    ReflTransGen G.DiEdge a v ∧ ReflTransGen G.DiEdge v b := by
  induction h with
  | single a =>
    simp only [List.mem_singleton] at hv; subst hv; exact ⟨.refl, .refl⟩
  | cons hab hp ih =>
    rename_i a b c p
    rcases List.mem_cons.1 hv with rfl | hv
    · exact ⟨.refl, ReflTransGen.head hab hp.rtg⟩
    · exact ⟨ReflTransGen.head hab (ih hv).1, (ih hv).2⟩

omit [DecidableEq α] in
theorem DiPath.transGen {G : MG α} {a b : α} {p : List α} (h : G.DiPath a p b) (hl : 2 ≤ p.length) :
    TransGen G.DiEdge a b := by
  cases h with
  | single => simp at hl
  | cons hab hp => exact TransGen.head' hab (hp.rtg_of_mem _ hp.last_mem).1

omit [DecidableEq α] in
theorem exists_diPath_of_rtg {G : MG α} {a b : α} (h : ReflTransGen G.DiEdge a b) : ∃ p, G.DiPath a p b := by
  induction h using ReflTransGen.head_induction_on with
  | refl => exact ⟨[b], .single b⟩
  | head hac _ ih => obtain ⟨p, hp⟩ := ih; exact ⟨_, .cons hac hp⟩

omit [DecidableEq α] in
theorem exists_diPath_of_tg {G : MG α} {a b : α} (h : TransGen G.DiEdge a b) :
    ∃ p, G.DiPath a p b ∧ 2 ≤ p.length := by
  obtain ⟨c, hac, hcb⟩ := TransGen.head'_iff.1 h
  obtain ⟨p, hp⟩ := exists_diPath_of_rtg hcb
  obtain ⟨p', rfl⟩ := hp.eq_cons
  exact ⟨_, .cons hac hp, by simp⟩

omit [DecidableEq α] in
/-- concatenation of walks (the shared node is listed once) -/
theorem DiPath.append {G : MG α} {a v b : α} {p q : List α} (hp : G.DiPath a p v) (hq : G.DiPath v q b) :
    G.DiPath a (p ++ q.tail) b := by
  induction hp with
  | single a => obtain ⟨q', rfl⟩ := hq.eq_cons; simpa using hq
  | cons hab _ ih => exact .cons hab (ih hq)

omit [DecidableEq α] in
/-- in a graph without directed cycles every walk is a simple path -/
theorem DiPath.nodup_of_acyclic {G : MG α} (hA : G.Acyclic) {a b : α} {p : List α} (h : G.DiPath a p b) :
    p.Nodup := by
  induction h with
  | single => simp
  | cons hab hp ih =>
    refine List.nodup_cons.2 ⟨fun ha => ?_, ih⟩
    exact hA _ (TransGen.head' hab (hp.rtg_of_mem _ ha).1)

omit [DecidableEq α] in
/-- lying on a walk with at least one edge, stated with the closures -/
theorem onWalk_iff (G : MG α) (s t v : α) :
    (∃ p, G.DiPath s p t ∧ 2 ≤ p.length ∧ v ∈ p) ↔
      TransGen G.DiEdge s t ∧ ReflTransGen G.DiEdge s v ∧ ReflTransGen G.DiEdge v t := by
  constructor
  · rintro ⟨p, hp, hl, hv⟩
    exact ⟨hp.transGen hl, hp.rtg_of_mem v hv⟩
  · rintro ⟨hst, hsv, hvt⟩
    obtain ⟨p₁, h₁⟩ := exists_diPath_of_rtg hsv
    obtain ⟨p₂, h₂⟩ := exists_diPath_of_rtg hvt
    by_cases hl : 2 ≤ (p₁ ++ p₂.tail).length
    · exact ⟨_, h₁.append h₂, hl, List.mem_append_left _ h₁.last_mem⟩
    · obtain ⟨p₁', rfl⟩ := h₁.eq_cons
      obtain ⟨p₂', rfl⟩ := h₂.eq_cons
      simp only [List.tail_cons, List.length_append, List.length_cons] at hl
      have e1 : p₁' = [] := List.eq_nil_of_length_eq_zero (by omega)
      have e2 : p₂' = [] := List.eq_nil_of_length_eq_zero (by omega)
      subst e1 e2
      obtain ⟨_, rfl⟩ := h₁.singleton_eq
      obtain ⟨_, rfl⟩ := h₂.singleton_eq
      obtain ⟨p, hp, hpl⟩ := exists_diPath_of_tg hst
      exact ⟨p, hp, hpl, hp.head_mem⟩

/-! ### the DAG branch: strict descendants -/

theorem mem_strictDesc (G : MG α) (hG : G.WF) (a b : α) :
    b ∈ G.strictDesc a ↔ TransGen G.DiEdge a b := by
  unfold strictDesc
  rw [mem_closure_iff G.children G.nodes.toFinset]
  · have hrel : (fun x y => y ∈ G.children x) = G.DiEdge := by
      funext x y; exact propext (mem_children_iff G x y)
    simp only [mem_dedup', mem_children_iff]
    exact TransGen.head'_iff.symm
  · intro x _ y hy
    rw [mem_children_iff] at hy
    simpa using (hG.di_mem _ hy).2
  · intro x hx
    rw [mem_dedup', mem_children_iff] at hx
    simpa using (hG.di_mem _ hx).2
  · exact Nat.lt_succ_of_le (List.toFinset_card_le _)

theorem mem_nodesInDirectedPathsDag (G : MG α) (hG : G.WF) (S T : List α) (v : α) :
    v ∈ G.nodesInDirectedPathsDag S T ↔
      ∃ s ∈ S, ∃ t ∈ T, ∃ p, G.DiPath s p t ∧ 2 ≤ p.length ∧ v ∈ p := by
  have hon : ∀ s t, (∃ p, G.DiPath s p t ∧ 2 ≤ p.length ∧ v ∈ p) ↔
      TransGen G.DiEdge s t ∧ (v = s ∨ v = t ∨ (TransGen G.DiEdge s v ∧ TransGen G.DiEdge v t)) := by
    intro s t
    rw [onWalk_iff]
    constructor
    · rintro ⟨hst, hsv, hvt⟩
      refine ⟨hst, ?_⟩
      rcases reflTransGen_iff_eq_or_transGen.1 hsv with e | hsv'
      · exact Or.inl e
      · rcases reflTransGen_iff_eq_or_transGen.1 hvt with e | hvt'
        · exact Or.inr (Or.inl e.symm)
        · exact Or.inr (Or.inr ⟨hsv', hvt'⟩)
    · rintro ⟨hst, rfl | rfl | ⟨h1, h2⟩⟩
      · exact ⟨hst, .refl, hst.to_reflTransGen⟩
      · exact ⟨hst, hst.to_reflTransGen, .refl⟩
      · exact ⟨hst, h1.to_reflTransGen, h2.to_reflTransGen⟩
  simp only [hon]
  unfold nodesInDirectedPathsDag
  simp only [mem_dedup', List.mem_append, List.mem_filter, List.any_eq_true, Bool.and_eq_true,
    decide_eq_true_eq, List.mem_flatMap, mem_strictDesc G hG]
  have hif : ∀ (c : Prop) [Decidable c] (a b : α), (v ∈ if c then [a, b] else []) ↔ c ∧ (v = a ∨ v = b) := by
    intro c _ a b; split <;> simp [*]
  simp only [hif, decide_eq_true_eq, mem_strictDesc G hG]
  constructor
  · rintro (⟨_, s, hs, t, ht, h1, h2⟩ | ⟨s, hs, t, ht, hst, h⟩)
    · exact ⟨s, hs, t, ht, h1.trans h2, Or.inr (Or.inr ⟨h1, h2⟩)⟩
    · rcases h with h | h
      · exact ⟨s, hs, t, ht, hst, Or.inl h⟩
      · exact ⟨s, hs, t, ht, hst, Or.inr (Or.inl h)⟩
  · rintro ⟨s, hs, t, ht, hst, h | h | ⟨h1, h2⟩⟩
    · exact Or.inr ⟨s, hs, t, ht, hst, Or.inl h⟩
    · exact Or.inr ⟨s, hs, t, ht, hst, Or.inr h⟩
    · refine Or.inl ⟨?_, s, hs, t, ht, h1, h2⟩
      obtain ⟨c, _, hcv⟩ := TransGen.tail'_iff.1 h1
      exact (hG.di_mem _ hcv).2

/-! ### the cyclic branch: enumeration of simple paths by DFS with fuel -/

/-- `simplePathsFrom G t fuel path cur` (with `path` the reversed list of nodes already on the path and `cur` the
node being expanded) enumerates exactly the simple paths from `cur` to `t` that avoid `path`, each prefixed with
`path`; the fuel `nodes.length + 1` of the model suffices because a simple path never repeats a node. -/
theorem mem_simplePathsFrom (G : MG α) (hG : G.WF) (t : α) :
    ∀ (fuel : Nat) (path : List α) (cur : α), (cur :: path).Nodup → (∀ x ∈ cur :: path, x ∈ G.nodes) →
      G.nodes.length ≤ fuel + path.length →
      ∀ q, q ∈ G.simplePathsFrom t fuel path cur ↔
        ∃ p, G.DiPath cur p t ∧ (path.reverse ++ p).Nodup ∧ q = path.reverse ++ p := by
  intro fuel
  induction fuel with
  | zero =>
    intro path cur hnd hsub hf
    exfalso
    have := List.Nodup.length_le_of_subset hnd hsub
    simp only [List.length_cons] at this
    omega
  | succ n ih =>
    intro path cur hnd hsub hf q
    have hrev : (path.reverse ++ [cur]).Nodup := by
      have := List.nodup_reverse.2 hnd
      simpa using this
    simp only [simplePathsFrom]
    by_cases hct : cur = t
    · subst hct
      simp only [if_true, List.mem_singleton, List.reverse_cons]
      constructor
      · rintro rfl
        exact ⟨[cur], .single cur, hrev, rfl⟩
      · rintro ⟨p, hp, hpn, rfl⟩
        cases hp with
        | single => rfl
        | cons hab hp' =>
          exfalso
          have h1 := (List.nodup_append.1 hpn).2.1
          exact (List.nodup_cons.1 h1).1 hp'.last_mem
    · simp only [hct, if_false, List.nil_append, List.mem_flatMap, List.mem_filter, decide_eq_true_eq,
        mem_children_iff]
      constructor
      · rintro ⟨c, ⟨hcc, hcp, hcne⟩, hq⟩
        have hnd' : (c :: cur :: path).Nodup :=
          List.nodup_cons.2 ⟨by simp only [List.mem_cons, not_or]; exact ⟨hcne, hcp⟩, hnd⟩
        have hsub' : ∀ x ∈ c :: cur :: path, x ∈ G.nodes := by
          intro x hx
          rcases List.mem_cons.1 hx with rfl | hx
          · exact (hG.di_mem _ hcc).2
          · exact hsub x hx
        obtain ⟨p', hp', hpn', rfl⟩ := (ih (cur :: path) c hnd' hsub' (by simp only [List.length_cons]; omega) q).1 hq
        refine ⟨cur :: p', .cons hcc hp', ?_, ?_⟩
        · simpa using hpn'
        · simp
      · rintro ⟨p, hp, hpn, rfl⟩
        cases hp with
        | single => exact absurd rfl hct
        | cons hab hp' =>
          rename_i b p'
          have hb : b ∈ p' := hp'.head_mem
          have hcp : b ∉ path := by
            intro hb'
            exact (List.nodup_append.1 hpn).2.2 b (by simpa using hb') b (by simp [hb]) rfl
          have hcne : b ≠ cur := by
            rintro rfl
            exact (List.nodup_cons.1 (List.nodup_append.1 hpn).2.1).1 hb
          have hnd' : (b :: cur :: path).Nodup :=
            List.nodup_cons.2 ⟨by simp only [List.mem_cons, not_or]; exact ⟨hcne, hcp⟩, hnd⟩
          have hsub' : ∀ x ∈ b :: cur :: path, x ∈ G.nodes := by
            intro x hx
            rcases List.mem_cons.1 hx with rfl | hx
            · exact (hG.di_mem _ hab).2
            · exact hsub x hx
          refine ⟨b, ⟨hab, hcp, hcne⟩, ?_⟩
          rw [ih (cur :: path) b hnd' hsub' (by simp only [List.length_cons]; omega)]
          exact ⟨p', hp', by simpa using hpn, by simp⟩

theorem nodesInDirectedPathsCyclic_ok (G : MG α) (hG : G.WF) (S T : List α)
    (h : S = [] ∨ T = [] ∨ ((∀ s ∈ S, s ∈ G.nodes) ∧ ∀ t ∈ T, t ∈ G.nodes)) :
    ∃ R, G.nodesInDirectedPathsCyclic S T = .ok R ∧
      ∀ v, v ∈ R ↔ ∃ s ∈ S, ∃ t ∈ T, ∃ p, G.DiPath s p t ∧ p.Nodup ∧ 2 ≤ p.length ∧ v ∈ p := by
  unfold nodesInDirectedPathsCyclic
  by_cases hE : S = [] ∨ T = []
  · have : (S.isEmpty || T.isEmpty) = true := by
      rcases hE with rfl | rfl <;> simp
    rw [if_pos this]
    refine ⟨[], rfl, fun v => ?_⟩
    rcases hE with rfl | rfl <;> simp
  · have hne : (S.isEmpty || T.isEmpty) = false := by
      simp only [not_or] at hE
      simp [hE.1, hE.2]
    obtain ⟨hS, hT⟩ : (∀ s ∈ S, s ∈ G.nodes) ∧ ∀ t ∈ T, t ∈ G.nodes := by
      rcases h with h | h | h
      · exact absurd (Or.inl h) hE
      · exact absurd (Or.inr h) hE
      · exact h
    have hall : (S.all (fun x => decide (x ∈ G.nodes)) && T.all (fun x => decide (x ∈ G.nodes))) = true := by
      simp only [Bool.and_eq_true, List.all_eq_true, decide_eq_true_eq]
      exact ⟨hS, hT⟩
    simp only [hne, Bool.false_eq_true, if_false, hall, if_true]
    refine ⟨_, rfl, fun v => ?_⟩
    simp only [mem_dedup', List.mem_flatMap, List.mem_flatten, List.mem_filter, decide_eq_true_eq]
    constructor
    · rintro ⟨s, hs, t, ht, q, ⟨hq, hql⟩, hv⟩
      rw [mem_simplePathsFrom G hG t _ [] s (by simp) (by simpa using hS s hs) (by simp)] at hq
      obtain ⟨p, hp, hpn, hqp⟩ := hq
      have hqp' : q = p := by simpa using hqp
      subst hqp'
      exact ⟨s, hs, t, ht, q, hp, by simpa using hpn, hql, hv⟩
    · rintro ⟨s, hs, t, ht, p, hp, hpn, hl, hv⟩
      refine ⟨s, hs, t, ht, p, ⟨?_, hl⟩, hv⟩
      rw [mem_simplePathsFrom G hG t _ [] s (by simp) (by simpa using hS s hs) (by simp)]
      exact ⟨p, hp, by simpa using hpn, by simp⟩

/-- `nx.all_simple_paths` raises `NodeNotFound` for an endpoint that is not a node (only reached when both
argument sets are non-empty: the product of the two is iterated) -/
theorem nodesInDirectedPathsCyclic_error (G : MG α) (S T : List α) (hS : S ≠ []) (hT : T ≠ [])
    (h : ¬ ((∀ s ∈ S, s ∈ G.nodes) ∧ ∀ t ∈ T, t ∈ G.nodes)) :
    G.nodesInDirectedPathsCyclic S T = .error (.internal "NodeNotFound") := by
  unfold nodesInDirectedPathsCyclic
  have hne : (S.isEmpty || T.isEmpty) = false := by simp [hS, hT]
  have hall : (S.all (fun x => decide (x ∈ G.nodes)) && T.all (fun x => decide (x ∈ G.nodes))) = false := by
    rw [← Bool.not_eq_true]
    simp only [Bool.and_eq_true, List.all_eq_true, decide_eq_true_eq]
    exact h
  simp only [hne, Bool.false_eq_true, if_false, hall]

end Y0.MG
