/-
  Y0.Lemmas.CanonPerm — presentation invariance of the canonicaliser (C11 `canon_perm`).

  `Present e e'`: `e'` is obtained from `e` by permuting the factors of products, changing the nesting of products and
  permuting children / parents of leaves, at any depth (under sums and fractions as well).
  `present_canon`: then every canonical form of `e` is the canonical form of `e'`.
-/
import Y0.Model.Canon
import Y0.Lemmas.DslKey
import Y0.Lemmas.DslList

namespace Y0
set_option linter.unusedSimpArgs false
set_option linter.unusedVariables false

/-! ### sorting by a key: the result only depends on the multiset -/

section sort
variable {α : Type} (key : α → Key)

def kle (a b : α) : Prop := Key.lt (key b) (key a) = false

theorem kle_trans {a b c : α} (h1 : kle key a b) (h2 : kle key b c) : kle key a c := by
  unfold kle at *
  by_contra hca
  have hca : Key.lt (key c) (key a) = true := by simpa using hca
  rcases Key.lt_trichotomy (key a) (key b) with h | h | h
  · have := Key.lt_trans hca h; rw [h2] at this; cases this
  · rw [h] at hca; rw [h2] at hca; cases hca
  · rw [h1] at h; cases h

theorem pairwise_insertStable (x : α) : ∀ (l : List α), l.Pairwise (kle key) →
    (insertStable (fun a b => Key.lt (key a) (key b)) x l).Pairwise (kle key)
  | [], _ => by simp [insertStable]
  | y :: ys, h => by
    rw [List.pairwise_cons] at h
    unfold insertStable
    split
    · rename_i hyx
      rw [List.pairwise_cons]
      refine ⟨?_, pairwise_insertStable x ys h.2⟩
      intro z hz
      rcases List.mem_cons.mp ((insertStable_perm _ x ys).subset hz) with rfl | hz
      · exact Key.lt_asymm hyx
      · exact h.1 z hz
    · rename_i hyx
      have hxy : kle key x y := by simpa [kle] using hyx
      rw [List.pairwise_cons]
      refine ⟨?_, List.pairwise_cons.mpr h⟩
      intro z hz
      rcases List.mem_cons.mp hz with rfl | hz
      · exact hxy
      · exact kle_trans key hxy (h.1 z hz)

theorem pairwise_sortStable (l : List α) : (sortStable (fun a b => Key.lt (key a) (key b)) l).Pairwise (kle key) := by
  induction l with
  | nil => simp [sortStable]
  | cons x xs ih => exact pairwise_insertStable key x _ ih

/-- a stable sort by an injective key yields the same list for every permutation of the input -/
theorem sortStable_key_perm {l₁ l₂ : List α} (h : l₁.Perm l₂)
    (hinj : ∀ a ∈ l₁, ∀ b ∈ l₁, key a = key b → a = b) :
    sortStable (fun a b => Key.lt (key a) (key b)) l₁ = sortStable (fun a b => Key.lt (key a) (key b)) l₂ := by
  apply List.Perm.eq_of_pairwise (le := kle key) _ (pairwise_sortStable key l₁) (pairwise_sortStable key l₂)
  · exact (sortStable_perm _ l₁).trans (h.trans (sortStable_perm _ l₂).symm)
  · intro a b ha hb hab hba
    have ha' : a ∈ l₁ := (sortStable_perm _ l₁).subset ha
    have hb' : b ∈ l₁ := h.symm.subset ((sortStable_perm _ l₂).subset hb)
    apply hinj a ha' b hb'
    rcases Key.lt_trichotomy (key a) (key b) with h1 | h1 | h1
    · unfold kle at hba; rw [hba] at h1; cases h1
    · exact h1
    · unfold kle at hab; rw [hab] at h1; cases h1

theorem insertStable_map {β : Type} (f : β → α) (lt : α → α → Bool) (x : β) : ∀ (l : List β),
    (insertStable (fun a b => lt (f a) (f b)) x l).map f = insertStable lt (f x) (l.map f)
  | [] => rfl
  | y :: ys => by
    simp only [insertStable, List.map_cons]
    split <;> simp [insertStable_map f lt x ys]

theorem sortStable_map {β : Type} (f : β → α) (lt : α → α → Bool) (l : List β) :
    (sortStable (fun a b => lt (f a) (f b)) l).map f = sortStable lt (l.map f) := by
  induction l with
  | nil => rfl
  | cons x xs ih =>
    show (insertStable _ x (sortStable _ xs)).map f = insertStable lt (f x) (sortStable lt (xs.map f))
    rw [insertStable_map, ih]

end sort

/-! ### sorting the variables of a leaf -/

/-- the key `Canonicalizer._sorted_key` assigns to a variable (junk when the name has no level) -/
def levelKey (lvl : Name → Option Nat) (v : Var) : Key :=
  match lvl v.name with
  | some l => .tup [.atom l, v.totalKey]
  | none => .tup []

theorem mapM_keyed_eq {lvl : Name → Option Nat} : ∀ (vs : List Var), (∀ v ∈ vs, (lvl v.name).isSome = true) →
    vs.mapM (fun v => do pure (← varLevelKey lvl v, v)) = Except.ok (vs.map fun v => (levelKey lvl v, v))
  | [], _ => rfl
  | v :: vs, h => by
    obtain ⟨l, hl⟩ := Option.isSome_iff_exists.mp (h v List.mem_cons_self)
    rw [List.mapM_cons, mapM_keyed_eq vs (fun w hw => h w (List.mem_cons_of_mem _ hw))]
    simp [varLevelKey, levelKey, hl]

theorem mapM_keyed_covered {lvl : Name → Option Nat} : ∀ (vs : List Var) (keyed : List (Key × Var)),
    vs.mapM (fun v => do pure (← varLevelKey lvl v, v)) = .ok keyed → ∀ v ∈ vs, (lvl v.name).isSome = true
  | [], _, _, v, hv => by cases hv
  | w :: vs, keyed, h, v, hv => by
    rw [List.mapM_cons] at h
    obtain ⟨a, ha, h⟩ := bind_ok h
    obtain ⟨rest, hrest, h⟩ := bind_ok h
    rcases List.mem_cons.mp hv with rfl | hv
    · obtain ⟨k, hk, _⟩ := bind_ok ha
      unfold varLevelKey at hk
      split at hk
      · rename_i l hl; simp [hl]
      · cases hk
    · exact mapM_keyed_covered vs rest hrest v hv

theorem sortVars_eq {lvl : Name → Option Nat} {vs : List Var} (h : ∀ v ∈ vs, (lvl v.name).isSome = true) :
    sortVars lvl vs = .ok (sortStable (fun a b => Key.lt (levelKey lvl a) (levelKey lvl b)) vs) := by
  unfold sortVars
  rw [mapM_keyed_eq vs h]
  simp only [bind, Except.bind, pure, Except.pure]
  congr 1
  have h2 := sortStable_map (fun v => (levelKey lvl v, v)) (fun (a b : Key × Var) => Key.lt a.1 b.1) vs
  rw [← h2, List.map_map]
  have : ((fun (x : Key × Var) => x.2) ∘ fun v => (levelKey lvl v, v)) = id := rfl
  rw [this, List.map_id]

theorem sortVars_covered {lvl : Name → Option Nat} {vs vs' : List Var} (h : sortVars lvl vs = .ok vs') :
    ∀ v ∈ vs, (lvl v.name).isSome = true := by
  unfold sortVars at h
  obtain ⟨keyed, hk, _⟩ := bind_ok h
  exact mapM_keyed_covered vs keyed hk

theorem levelKey_inj {lvl : Name → Option Nat} {a b : Var} (ha : (lvl a.name).isSome = true)
    (hb : (lvl b.name).isSome = true) (h : levelKey lvl a = levelKey lvl b) : a = b := by
  obtain ⟨la, hla⟩ := Option.isSome_iff_exists.mp ha
  obtain ⟨lb, hlb⟩ := Option.isSome_iff_exists.mp hb
  simp only [levelKey, hla, hlb, Key.tup.injEq, List.cons.injEq, and_true] at h
  exact Var.totalKey_inj h.2

/-- the sorted children / parents do not depend on the order they are given in -/
theorem sortVars_perm_eq {lvl : Name → Option Nat} {vs ws vs' : List Var} (hp : vs.Perm ws)
    (h : sortVars lvl vs = .ok vs') : sortVars lvl ws = .ok vs' := by
  have hc := sortVars_covered h
  rw [sortVars_eq hc] at h
  rw [sortVars_eq (fun v hv => hc v (hp.symm.subset hv)), ← h]
  congr 1
  exact (sortStable_key_perm (levelKey lvl) hp
    (fun a ha b hb e => levelKey_inj (hc a ha) (hc b hb) e)).symm

/-! ### Product.safe and flattening only depend on the multiset of factors -/

theorem productSafe_perm {l₁ l₂ : List Expr} (h : l₁.Perm l₂) : productSafe l₁ = productSafe l₂ := by
  unfold productSafe
  simp only
  have hf : (l₁.filter (fun e => !e.isOne)).Perm (l₂.filter (fun e => !e.isOne)) := h.filter _
  generalize l₁.filter (fun e => !e.isOne) = m₁ at hf
  generalize l₂.filter (fun e => !e.isOne) = m₂ at hf
  have hany : m₁.any Expr.isZero = m₂.any Expr.isZero := by
    rw [Bool.eq_iff_iff]; simp only [List.any_eq_true]
    exact ⟨fun ⟨x, hx, hz⟩ => ⟨x, hf.subset hx, hz⟩, fun ⟨x, hx, hz⟩ => ⟨x, hf.symm.subset hx, hz⟩⟩
  rw [hany]
  split
  · rfl
  · have hlen := hf.length_eq
    match m₁, m₂, hf, hlen with
    | [], [], _, _ => rfl
    | [a], [b], hf, _ =>
      have := List.perm_singleton.mp hf
      simp only [List.cons.injEq, and_true] at this
      simp only [this]
    | a :: b :: r, c :: d :: s, hf, _ =>
      simp only
      congr 1
      exact sortStable_key_perm Expr.key hf (fun x _ y _ e => Expr.key_inj x y e)
    | [], _ :: _, _, hlen => simp at hlen
    | _ :: _, [], _, hlen => simp at hlen
    | [_], _ :: _ :: _, _, hlen => simp at hlen
    | _ :: _ :: _, [_], _, hlen => simp at hlen

theorem flattenFactors_cons (a : Expr) (l : List Expr) :
    flattenFactors (a :: l) = flattenFactor a ++ flattenFactors l := by simp [flattenFactors]

theorem flattenFactors_perm {l₁ l₂ : List Expr} (h : l₁.Perm l₂) : (flattenFactors l₁).Perm (flattenFactors l₂) := by
  induction h with
  | nil => exact List.Perm.refl _
  | cons x _ ih => rw [flattenFactors_cons, flattenFactors_cons]; exact ih.append_left _
  | swap x y l =>
    simp only [flattenFactors_cons]
    rw [← List.append_assoc, ← List.append_assoc]
    exact List.perm_append_comm.append_right _
  | trans _ _ ih₁ ih₂ => exact ih₁.trans ih₂

/-! ### `canonFactors` = canonicalise every flattened factor -/

theorem mapM_append_ok {α β : Type} (f : α → Except Err β) (l₁ l₂ : List α) :
    (l₁ ++ l₂).mapM f = (do let a ← l₁.mapM f; let b ← l₂.mapM f; pure (a ++ b)) := by
  induction l₁ with
  | nil =>
    simp only [List.nil_append, List.mapM_nil, pure_bind]
    cases l₂.mapM f <;> rfl
  | cons x xs ih =>
    rw [List.cons_append, List.mapM_cons, List.mapM_cons, ih]
    cases f x with
    | error e => rfl
    | ok y =>
      simp only [bind, Except.bind]
      cases xs.mapM f with
      | error e => rfl
      | ok ys =>
        simp only
        cases l₂.mapM f <;> rfl

theorem canonFactors_eq_mapM (lvl : Name → Option Nat) : ∀ (fs : List Expr),
    canonFactors lvl fs = (flattenFactors fs).mapM (canonL lvl)
  | [] => by simp [canonFactors, flattenFactors]
  | .prod gs :: rest => by
    unfold canonFactors
    rw [flattenFactors_cons, mapM_append_ok, canonFactors_eq_mapM lvl gs, canonFactors_eq_mapM lvl rest]
    simp [flattenFactor]
  | .prob pop c p :: rest => by
    unfold canonFactors
    rw [flattenFactors_cons, canonFactors_eq_mapM lvl rest]
    simp only [flattenFactor, List.singleton_append, List.mapM_cons]
  | .sum e r :: rest => by
    unfold canonFactors
    rw [flattenFactors_cons, canonFactors_eq_mapM lvl rest]
    simp only [flattenFactor, List.singleton_append, List.mapM_cons]
  | .frac n d :: rest => by
    unfold canonFactors
    rw [flattenFactors_cons, canonFactors_eq_mapM lvl rest]
    simp only [flattenFactor, List.singleton_append, List.mapM_cons]
  | .one :: rest => by
    unfold canonFactors
    rw [flattenFactors_cons, canonFactors_eq_mapM lvl rest]
    simp only [flattenFactor, List.singleton_append, List.mapM_cons]
  | .zero :: rest => by
    unfold canonFactors
    rw [flattenFactors_cons, canonFactors_eq_mapM lvl rest]
    simp only [flattenFactor, List.singleton_append, List.mapM_cons]
  | .q d c :: rest => by
    unfold canonFactors
    rw [flattenFactors_cons, canonFactors_eq_mapM lvl rest]
    simp only [flattenFactor, List.singleton_append, List.mapM_cons]

/-! ### mapping a partial function over a permuted list -/

theorem mapM_ok_cons {α β : Type} {f : α → Except Err β} {a : α} {l : List α} {ys : List β}
    (h : (a :: l).mapM f = .ok ys) : ∃ y ys', f a = .ok y ∧ l.mapM f = .ok ys' ∧ ys = y :: ys' := by
  rw [List.mapM_cons] at h
  obtain ⟨y, hy, h⟩ := bind_ok h
  obtain ⟨ys', hys, h⟩ := bind_ok h
  exact ⟨y, ys', hy, hys, (pure_ok h).symm⟩

theorem mapM_ok_of_cons {α β : Type} {f : α → Except Err β} {a : α} {l : List α} {y : β} {ys : List β}
    (h1 : f a = .ok y) (h2 : l.mapM f = .ok ys) : (a :: l).mapM f = .ok (y :: ys) := by
  rw [List.mapM_cons, h1, h2]; rfl

theorem mapM_perm {α β : Type} {f : α → Except Err β} {l₁ l₂ : List α} (h : l₁.Perm l₂) :
    ∀ ys, l₁.mapM f = .ok ys → ∃ zs, l₂.mapM f = .ok zs ∧ zs.Perm ys := by
  induction h with
  | nil => intro ys h; exact ⟨ys, h, List.Perm.refl _⟩
  | cons x _ ih =>
    intro ys h
    obtain ⟨y, ys', hy, hys, rfl⟩ := mapM_ok_cons h
    obtain ⟨zs, hzs, hp⟩ := ih ys' hys
    exact ⟨y :: zs, mapM_ok_of_cons hy hzs, hp.cons y⟩
  | swap a b l =>
    intro ys h
    obtain ⟨y1, ys1, hy1, h1, rfl⟩ := mapM_ok_cons h
    obtain ⟨y2, ys2, hy2, h2, e⟩ := mapM_ok_cons h1
    subst e
    exact ⟨y2 :: y1 :: ys2, mapM_ok_of_cons hy2 (mapM_ok_of_cons hy1 h2), List.Perm.swap _ _ _⟩
  | trans _ _ ih₁ ih₂ =>
    intro ys h
    obtain ⟨zs, hzs, hp⟩ := ih₁ ys h
    obtain ⟨ws, hws, hq⟩ := ih₂ zs hzs
    exact ⟨ws, hws, hq.trans hp⟩

/-! ### presentations -/

mutual
/-- `Present e e'`: the same expression up to factor order, product nesting and children / parents order -/
inductive Present : Expr → Expr → Prop
  | prob {pop : Option Var} {c c' p p' : List Var} : c.Perm c' → p.Perm p' → Present (.prob pop c p) (.prob pop c' p')
  | prod {fs gs : List Expr} : PresentList (flattenFactors fs) (flattenFactors gs) → Present (.prod fs) (.prod gs)
  | sum {e e' : Expr} {r : List Var} : Present e e' → Present (.sum e r) (.sum e' r)
  | frac {n n' d d' : Expr} : Present n n' → Present d d' → Present (.frac n d) (.frac n' d')
  | one : Present .one .one
  | zero : Present .zero .zero
  | q {d c : List Var} : Present (.q d c) (.q d c)
/-- the two factor lists correspond one to one, in any order -/
inductive PresentList : List Expr → List Expr → Prop
  | nil : PresentList [] []
  | cons {a b : Expr} {as bs bs' : List Expr} :
      Present a b → PresentList as bs → bs'.Perm (b :: bs) → PresentList (a :: as) bs'
end

mutual
/-- **presentation invariance**: a canonical form of `e` is the canonical form of every presentation of `e` -/
theorem present_canon {lvl : Name → Option Nat} : ∀ {e e' : Expr}, Present e e' → ∀ a, canonL lvl e = .ok a →
    canonL lvl e' = .ok a
  | _, _, .prob hc hp, a, h => by
    unfold canonL at h ⊢
    obtain ⟨c1, hc1, h⟩ := bind_ok h
    obtain ⟨p1, hp1, h⟩ := bind_ok h
    rw [sortVars_perm_eq hc hc1, sortVars_perm_eq hp hp1]
    exact h
  | _, _, .prod (fs := fs) (gs := gs) hl, a, h => by
    unfold canonL at h ⊢
    obtain ⟨xs, hxs, h⟩ := bind_ok h
    rw [canonFactors_eq_mapM] at hxs
    obtain ⟨ys, hys, hperm⟩ := presentList_mapM hl xs hxs
    rw [canonFactors_eq_mapM, hys]
    have := productSafe_perm (flattenFactors_perm hperm)
    simp only [bind, Except.bind, pure, Except.pure] at h ⊢
    rw [this]; exact h
  | _, _, .sum he, a, h => by
    unfold canonL at h ⊢
    obtain ⟨x, hx, h⟩ := bind_ok h
    rw [present_canon he x hx]; exact h
  | _, _, .frac hn hd, a, h => by
    unfold canonL at h ⊢
    obtain ⟨n1, hn1, h⟩ := bind_ok h
    obtain ⟨d1, hd1, h⟩ := bind_ok h
    rw [present_canon hn n1 hn1, present_canon hd d1 hd1]; exact h
  | _, _, .one, a, h => h
  | _, _, .zero, a, h => h
  | _, _, .q, a, h => h
theorem presentList_mapM {lvl : Name → Option Nat} : ∀ {l₁ l₂ : List Expr}, PresentList l₁ l₂ →
    ∀ xs, l₁.mapM (canonL lvl) = .ok xs → ∃ ys, l₂.mapM (canonL lvl) = .ok ys ∧ ys.Perm xs
  | _, _, .nil, xs, h => ⟨xs, h, List.Perm.refl _⟩
  | _, _, .cons hab hl hp, xs, h => by
    obtain ⟨x, xs', hx, hxs, rfl⟩ := mapM_ok_cons h
    obtain ⟨ys, hys, hperm⟩ := presentList_mapM hl xs' hxs
    have hb := present_canon hab x hx
    obtain ⟨zs, hzs, hq⟩ := mapM_perm hp.symm (x :: ys) (mapM_ok_of_cons hb hys)
    exact ⟨zs, hzs, hq.trans (hperm.cons x)⟩
end

end Y0
