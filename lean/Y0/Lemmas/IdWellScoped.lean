/-
  Y0.Lemmas.IdWellScoped — every estimand returned by ID is WELL SCOPED (`WellScoped`, Y0/Lemmas/SemScope.lean: the
  decidable quantifier of C10), so the canonicaliser's meaning-preservation theorem applies to it without a side
  condition.  From the invariant `ObsWS` (Y0/Lemmas/IdObsWS.lean).
-/
import Y0.Lemmas.IdObsWS
import Y0.Lemmas.SemScope

namespace Y0

/-! ### from the invariant to `WellScoped` -/

theorem contains_iff {S : List Name} {x : Name} : S.contains x = true ↔ x ∈ S := by simp

mutual
theorem wss_of_obsWS : ∀ (e : Expr) (S : List Name), ObsWS e → (∀ x ∈ e.rangeNames, x ∈ S) → Expr.wss S e = true
  | .prob pop c p, S, h, _ => by
    cases h with
    | prob _ _ _ hne hn hp =>
      have hivs : ∀ v ∈ c ++ p, v.ivs = [] := fun v hv => by rw [hp v hv]; rfl
      have hstar : ∀ v ∈ c ++ p, v.star = none := fun v hv => by rw [hp v hv]; rfl
      simp only [Expr.wss, leafOK, Bool.and_eq_true, Bool.not_eq_true', List.all_eq_true, decide_eq_true_eq,
        bne_iff_ne, ne_eq]
      refine ⟨⟨⟨⟨?_, ?_⟩, ?_⟩, ?_⟩, ?_⟩
      · cases c with
        | nil => exact absurd rfl hne
        | cons _ _ => rfl
      · have key : ∀ l : List Name, l.Nodup → namesNodup l = true := by
          intro l
          induction l with
          | nil => intro _; rfl
          | cons a l ih =>
            intro hl
            rw [List.nodup_cons] at hl
            simp only [namesNodup, Bool.and_eq_true, Bool.not_eq_true']
            exact ⟨by simpa using hl.1, ih hl.2⟩
        exact key _ hn
      · intro v hv w hw; rw [hivs v hv, hivs w hw]
      · intro v hv w hw i hi
        rw [hivs w hw] at hi; cases hi
      · intro v hv
        rw [hstar v hv]; rfl
  | .prod fs, S, h, hS => by
    simp only [Expr.wss]
    exact wssList_of_obsWS fs S (obsWS_prod_inv h) (by simpa [Expr.rangeNames] using hS)
  | .sum e r, S, h, hS => by
    cases h with
    | sum _ _ he hn hp =>
      simp only [Expr.rangeNames, List.mem_append] at hS
      simp only [Expr.wss, rangesOK, Bool.and_eq_true, List.all_eq_true]
      refine ⟨⟨?_, ?_⟩, wss_of_obsWS e S he (fun x hx => hS x (Or.inr hx))⟩
      · have key : ∀ l : List Name, l.Nodup → namesNodup l = true := by
          intro l
          induction l with
          | nil => intro _; rfl
          | cons a l ih =>
            intro hl
            rw [List.nodup_cons] at hl
            simp only [namesNodup, Bool.and_eq_true, Bool.not_eq_true']
            exact ⟨by simpa using hl.1, ih hl.2⟩
        exact key _ hn
      · intro v hv
        refine ⟨by rw [hp v hv]; rfl, ?_⟩
        exact contains_iff.mpr (hS _ (Or.inl (List.mem_map_of_mem hv)))
  | .frac n d, S, h, hS => by
    obtain ⟨h1, h2⟩ := obsWS_frac_inv h
    simp only [Expr.rangeNames, List.mem_append] at hS
    simp only [Expr.wss, Bool.and_eq_true]
    exact ⟨wss_of_obsWS n S h1 (fun x hx => hS x (Or.inl hx)), wss_of_obsWS d S h2 (fun x hx => hS x (Or.inr hx))⟩
  | .one, _, _, _ => rfl
  | .zero, _, _, _ => rfl
  | .q _ _, _, h, _ => by cases h
theorem wssList_of_obsWS : ∀ (fs : List Expr) (S : List Name), (∀ f ∈ fs, ObsWS f) →
    (∀ x ∈ Expr.rangeNamesList fs, x ∈ S) → Expr.wssList S fs = true
  | [], _, _, _ => rfl
  | e :: es, S, h, hS => by
    simp only [Expr.rangeNamesList, List.mem_append] at hS
    simp only [Expr.wssList, Bool.and_eq_true]
    exact ⟨wss_of_obsWS e S (h e List.mem_cons_self) (fun x hx => hS x (Or.inl hx)),
      wssList_of_obsWS es S (fun f hf => h f (List.mem_cons_of_mem _ hf)) (fun x hx => hS x (Or.inr hx))⟩
end

/-- **every estimand of ID is well scoped** -/
theorem id_wellScoped (topo : MG Name → Except Err (List Name)) (G : MG Name) (X Y : List Name) (e : Expr)
    (h : identify topo G X Y = .ok e) : WellScoped e = true :=
  wss_of_obsWS e _ (id_obsWS topo G X Y e h) (fun _ hx => hx)

end Y0
