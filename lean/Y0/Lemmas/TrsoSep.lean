/-
  Y0.Lemmas.TrsoSep — the separation test of TRSO's line 6 (`all_transports_d_separated` instantiated with
  `are_d_separated`): it is total on well-formed input, and a positive answer rules out every open directed path
  from a selection (transport) node to an outcome in the graph with the edges into `X` removed.
-/
import Y0.Props.C14
import Y0.Lemmas.IdGraph
import Y0.Lemmas.TrsoInv

namespace Y0
namespace Trso
open Relation MG

/-! ### `mapM` in `Except` -/

theorem mapM_total {α β} {f : α → Except Err β} : ∀ {l : List α}, (∀ a ∈ l, ∃ b, f a = .ok b) →
    ∃ r, l.mapM f = .ok r := by
  intro l
  induction l with
  | nil => intro _; exact ⟨[], by simp [List.mapM_nil, pure, Except.pure]⟩
  | cons a as ih =>
    intro h
    obtain ⟨b, hb⟩ := h a (by simp)
    obtain ⟨r, hr⟩ := ih (fun x hx => h x (by simp [hx]))
    exact ⟨b :: r, by simp [List.mapM_cons, hb, hr, bind, Except.bind, pure, Except.pure]⟩

theorem mapM_ok_of_mem {α β} {f : α → Except Err β} : ∀ {l : List α} {r : List β}, l.mapM f = .ok r →
    ∀ a ∈ l, ∃ b ∈ r, f a = .ok b := by
  intro l
  induction l with
  | nil => intro r _ a ha; cases ha
  | cons a as ih =>
    intro r h
    rw [List.mapM_cons] at h
    obtain ⟨b, hb, h⟩ := bind_ok h
    obtain ⟨bs, hbs, h⟩ := bind_ok h
    simp [pure, Except.pure] at h; subst h
    intro x hx
    rcases List.mem_cons.1 hx with rfl | hx
    · exact ⟨b, by simp, hb⟩
    · obtain ⟨b', hb', h'⟩ := ih hbs x hx; exact ⟨b', by simp [hb'], h'⟩

/-! ### the evidence graph of `are_d_separated` -/

/-- ancestral subgraph on `keep`, moralised, disoriented, conditions deleted -/
def evGraph (G : MG Name) (keep conds : List Name) : MG Name :=
  (((G.subgraph keep).moralize).disorient).subgraph
    ((((G.subgraph keep).moralize).disorient).nodes.filter (· ∉ conds))

theorem wf_evGraph (G : MG Name) (keep conds : List Name) : (evGraph G keep conds).WF := wf_subgraph _ _

theorem mem_nodes_evGraph (G : MG Name) (keep conds : List Name) (v : Name) :
    v ∈ (evGraph G keep conds).nodes ↔ v ∈ keep ∧ v ∉ conds := by
  unfold evGraph
  rw [mem_nodes_subgraph, List.mem_filter, mem_nodes_disorient _ (wf_moralize _ (wf_subgraph _ _)),
    mem_nodes_moralize _ (wf_subgraph _ _), mem_nodes_subgraph]
  simp

/-- a directed edge between kept, unconditioned nodes is an (undirected) edge of the evidence graph -/
theorem biEdge_evGraph_of_diEdge (G : MG Name) (keep conds : List Name) {u v : Name} (h : G.DiEdge u v)
    (hu : u ∈ keep) (hv : v ∈ keep) (huc : u ∉ conds) (hvc : v ∉ conds) :
    (evGraph G keep conds).BiEdge u v := by
  have hu' := (mem_nodes_evGraph G keep conds u).2 ⟨hu, huc⟩
  have hv' := (mem_nodes_evGraph G keep conds v).2 ⟨hv, hvc⟩
  unfold evGraph at hu' hv' ⊢
  rw [mem_nodes_subgraph] at hu' hv'
  rw [biEdge_subgraph]
  refine ⟨?_, hu', hv'⟩
  rw [edge_disorient, diEdge_moralize, diEdge_subgraph]
  exact Or.inl ⟨h, hu, hv⟩

/-- what an answer of `are_d_separated` means -/
theorem dSeparated_ok_iff (G : MG Name) (a b : Name) (conds : List Name) (r : Bool) :
    dSeparated G a b conds = .ok r ↔
      a ∈ G.nodes ∧ b ∈ G.nodes ∧ (∀ c ∈ conds, c ∈ G.nodes) ∧
      ∃ keep, G.ancestorsInclusive (nsort (a :: b :: conds)) = .ok keep ∧
        a ∈ (evGraph G keep conds).nodes ∧ b ∈ (evGraph G keep conds).nodes ∧
        r = !(decide (b ∈ (evGraph G keep conds).districtOf a)) := by
  unfold dSeparated
  by_cases ha : a ∈ G.nodes
  swap
  · simp [ha]
  by_cases hb : b ∈ G.nodes
  swap
  · simp [hb]
  by_cases hc : ∀ c ∈ conds, c ∈ G.nodes
  swap
  · have : ¬ (conds.all (· ∈ G.nodes) = true) := by simpa using hc
    simp [ha, hb, this, hc]
  have hc' : conds.all (· ∈ G.nodes) = true := by simpa using hc
  simp only [ha, hb, hc', not_true_eq_false, if_false, Bool.not_true, Bool.false_eq_true, true_and]
  cases hk : G.ancestorsInclusive (nsort (a :: b :: conds)) with
  | error e => simp [bind, Except.bind]
  | ok keep =>
    simp only [bind, Except.bind, Except.ok.injEq, exists_eq_left']
    change (if (a ∉ (evGraph G keep conds).nodes || b ∉ (evGraph G keep conds).nodes) = true then _ else _) = _ ↔ _
    by_cases h1 : a ∈ (evGraph G keep conds).nodes
    swap
    · simp [h1]
    by_cases h2 : b ∈ (evGraph G keep conds).nodes
    swap
    · simp [h2]
    simp only [h1, h2, not_true_eq_false, decide_false, Bool.or_self, Bool.false_eq_true, if_false, true_and,
      pure, Except.pure, Except.ok.injEq, districtOf]
    constructor
    · intro h; exact ⟨hc, h.symm⟩
    · intro h; exact h.2.symm

/-- `are_d_separated` is total when the endpoints are nodes outside the conditions -/
theorem dSeparated_total (G : MG Name) (hG : G.WF) (a b : Name) (conds : List Name)
    (ha : a ∈ G.nodes) (hb : b ∈ G.nodes) (hc : ∀ c ∈ conds, c ∈ G.nodes) (hac : a ∉ conds) (hbc : b ∉ conds) :
    ∃ r, dSeparated G a b conds = .ok r := by
  have hsrc : ∀ s ∈ nsort (a :: b :: conds), s ∈ G.nodes := by
    intro s hs
    rw [mem_nsort] at hs
    rcases List.mem_cons.1 hs with rfl | hs
    · exact ha
    rcases List.mem_cons.1 hs with rfl | hs
    · exact hb
    · exact hc s hs
  obtain ⟨keep, hk⟩ := ancestorsInclusive_total G _ hsrc
  have hself := ancestorsInclusive_self hG hk
  refine ⟨_, (dSeparated_ok_iff G a b conds _).2 ⟨ha, hb, hc, keep, hk, ?_, ?_, rfl⟩⟩
  · exact (mem_nodes_evGraph G keep conds a).2 ⟨hself a (by simp [mem_nsort]), hac⟩
  · exact (mem_nodes_evGraph G keep conds b).2 ⟨hself b (by simp [mem_nsort]), hbc⟩

/-- a positive answer excludes a directed path from `a` to `b` all of whose nodes after `a` avoid the conditions
(`a` and `b` themselves avoid them whenever the test answers at all) -/
theorem dSeparated_true_no_diPath (G : MG Name) (hG : G.WF) (a b : Name) (conds : List Name)
    (h : dSeparated G a b conds = .ok true)
    (hpath : ReflTransGen (fun u v => G.DiEdge u v ∧ v ∉ conds) a b) : False := by
  obtain ⟨_, _, _, keep, hk, ha, hb, hr⟩ := (dSeparated_ok_iff G a b conds true).1 h
  have hnot : b ∉ (evGraph G keep conds).districtOf a := by simpa using hr
  apply hnot
  rw [mem_districtOf _ (wf_evGraph G keep conds) a ha]
  have hac : a ∉ conds := ((mem_nodes_evGraph G keep conds a).1 ha).2
  have hbk : b ∈ keep := ((mem_nodes_evGraph G keep conds b).1 hb).1
  have hanc : ∀ w, ReflTransGen G.DiEdge w b → w ∈ keep := by
    intro w hw
    exact (ancestorsInclusive_spec G hG _ keep hk w).2 ⟨b, by simp [mem_nsort], hw⟩
  have hmono : ∀ {u w}, ReflTransGen (fun u v => G.DiEdge u v ∧ v ∉ conds) u w → ReflTransGen G.DiEdge u w := by
    intro u w huw
    exact ReflTransGen.mono (fun _ _ (h : _ ∧ _) => h.1) _ _ huw
  revert hac
  refine ReflTransGen.head_induction_on hpath ?_ ?_
  · intro _; exact .refl
  · intro u c huc hcb ih huX
    have hck : c ∈ keep := hanc c (hmono hcb)
    have huk : u ∈ keep := hanc u (.head huc.1 (hmono hcb))
    exact .head (biEdge_evGraph_of_diEdge G keep conds huc.1 huk hck huX huc.2) (ih huc.2)

/-! ### D1: totality -/

theorem allTransportsDSeparated_total (G : MG Name) (hG : G.WF) (X Y : List Name)
    (hX : ∀ x ∈ X, x ∈ G.nodes) (hY : ∀ y ∈ Y, y ∈ G.nodes)
    (hXT : ∀ x ∈ X, isTnode x = false) (hXY : ∀ y ∈ Y, y ∉ X) :
    ∃ b, allTransportsDSeparated dSeparated G X Y = .ok b := by
  unfold allTransportsDSeparated
  have hn : ∀ v, v ∈ (G.removeInEdges X).nodes ↔ v ∈ G.nodes := mem_nodes_removeInEdges G hG X
  obtain ⟨rs, hrs⟩ : ∃ rs, (transportNodes G).mapM (fun t =>
      if t ∈ (G.removeInEdges X).nodes then Y.mapM (fun y => dSeparated (G.removeInEdges X) t y X)
      else pure []) = .ok rs := by
    apply mapM_total
    intro t ht
    have htn : t ∈ G.nodes ∧ isTnode t = true := by simpa [transportNodes] using ht
    rw [if_pos ((hn t).2 htn.1)]
    apply mapM_total
    intro y hy
    refine dSeparated_total _ (wf_removeInEdges G X) t y X ((hn t).2 htn.1) ((hn y).2 (hY y hy))
      (fun c hc => (hn c).2 (hX c hc)) ?_ (hXY y hy)
    intro htX
    have := hXT t htX
    rw [htn.2] at this
    cases this
  refine ⟨rs.all (fun r => r.all id), ?_⟩
  show ((transportNodes G).mapM _ >>= _) = _
  rw [hrs]
  rfl

/-! ### D2: a positive answer detects every open directed path out of a selection node -/

theorem allTransportsDSeparated_true_blocks (G : MG Name) (hG : G.WF) (X Y : List Name)
    (h : allTransportsDSeparated dSeparated G X Y = .ok true)
    (t v y : Name) (ht : isTnode t = true) (htv : (t, v) ∈ G.di) (hv : v ∉ X) (hy : y ∈ Y) :
    ¬ ReflTransGen (G.removeInEdges X).DiEdge v y := by
  intro hpath
  unfold allTransportsDSeparated at h
  obtain ⟨rs, hrs, hall⟩ := bind_ok h
  simp only [pure, Except.pure, Except.ok.injEq] at hall
  have htG : t ∈ G.nodes := (hG.di_mem _ htv).1
  have htg : t ∈ (G.removeInEdges X).nodes := (mem_nodes_removeInEdges G hG X t).2 htG
  have htT : t ∈ transportNodes G := by simp [transportNodes, htG, ht]
  obtain ⟨r, hr, hfr⟩ := mapM_ok_of_mem hrs t htT
  rw [if_pos htg] at hfr
  obtain ⟨b, hb, hsep⟩ := mapM_ok_of_mem hfr y hy
  have hbt : b = true := by
    have h1 := List.all_eq_true.1 hall r hr
    exact List.all_eq_true.1 h1 b hb
  subst hbt
  refine dSeparated_true_no_diPath _ (wf_removeInEdges G X) t y X hsep ?_
  have hstep : ∀ u w, (G.removeInEdges X).DiEdge u w → (G.removeInEdges X).DiEdge u w ∧ w ∉ X :=
    fun u w huw => ⟨huw, ((diEdge_removeInEdges G X u w).1 huw).2⟩
  exact .head (hstep t v ((diEdge_removeInEdges G X t v).2 ⟨htv, hv⟩)) (ReflTransGen.mono hstep _ _ hpath)

end Trso
end Y0
