/-
  Y0.Lemmas.CfProb — the noise space of a functional SCM (Y0/Spec/Fscm.lean) as a finite product measure:

  * `mass noise A`       : mass of the noise points at which the (Boolean) event `A` holds; `prob M cs = mass M.noise (all cs hold)`
  * `mass_cons`          : one coordinate at a time
  * `mass_true`          : total mass 1 when every pmf sums to 1
  * `mass_indep`, `mass_indep_list` : events that depend on DISJOINT sets of noise coordinates are independent
  * `mass_sum_values`    : marginalisation — summing `A ∧ Z = x` over all values `x` of a bounded `Z` gives `A`
-/
import Y0.Lemmas.CfFscm
import Mathlib.Algebra.BigOperators.Ring.List
import Mathlib.Tactic.Ring

namespace Y0.Fscm

def mass (noise : List (List Rat)) (A : NoisePoint → Bool) : Rat :=
  ((space noise).map fun (p : NoisePoint × Rat) => if A p.1 then p.2 else 0).sum

theorem prob_eq_mass (M : Model) (cs : List Conjunct) : prob M cs = mass M.noise (fun u => cs.all (holds M u)) := by
  unfold prob mass
  congr 1

theorem mass_congr (noise : List (List Rat)) {A B : NoisePoint → Bool} (h : ∀ u, A u = B u) : mass noise A = mass noise B := by
  have : A = B := funext h
  rw [this]

theorem sum_map_flatMap' {α β : Type} (l : List α) (g : α → List β) (f : β → Rat) :
    ((l.flatMap g).map f).sum = (l.map fun a => ((g a).map f).sum).sum := by
  induction l with
  | nil => simp
  | cons a t ih =>
    simp only [List.flatMap_cons, List.map_append, List.sum_append, List.map_cons, List.sum_cons, ih]

theorem mass_nil (A : NoisePoint → Bool) : mass [] A = if A [] then 1 else 0 := by
  simp [mass, space]

theorem mass_cons (pmf : List Rat) (rest : List (List Rat)) (A : NoisePoint → Bool) :
    mass (pmf :: rest) A = ((pmf.zipIdx).map fun q => q.1 * mass rest (fun pt => A (q.2 :: pt))).sum := by
  unfold mass
  simp only [space]
  rw [sum_map_flatMap']
  congr 1
  apply List.map_congr_left
  intro q _
  rcases q with ⟨p, x⟩
  simp only [List.map_map]
  rw [← List.sum_map_mul_left]
  congr 1
  apply List.map_congr_left
  intro r _
  rcases r with ⟨pt, w⟩
  simp only [Function.comp]
  split <;> simp

theorem sum_zipIdx_fst (pmf : List Rat) : ((pmf.zipIdx).map fun q => q.1).sum = pmf.sum := by
  have := List.zipIdx_map_fst 0 pmf
  have h2 : (pmf.zipIdx.map fun q => q.1) = List.map Prod.fst (pmf.zipIdx 0) := rfl
  rw [h2, this]

theorem mass_true (noise : List (List Rat)) (hn : ∀ pmf ∈ noise, pmf.sum = 1) : mass noise (fun _ => true) = 1 := by
  induction noise with
  | nil => simp [mass_nil]
  | cons pmf rest ih =>
    rw [mass_cons]
    have hrest := ih (fun p hp => hn p (by simp [hp]))
    simp only [hrest, mul_one]
    rw [sum_zipIdx_fst]
    exact hn pmf (by simp)

/-- the event `A` looks at the noise point only through the coordinates in `I` -/
def DependsOn (A : NoisePoint → Bool) (I : Nat → Prop) : Prop :=
  ∀ u u', (∀ j, I j → u.getD j 0 = u'.getD j 0) → A u = A u'

theorem DependsOn.tail {A : NoisePoint → Bool} {I : Nat → Prop} (h : DependsOn A I) (x : Nat) :
    DependsOn (fun pt => A (x :: pt)) (fun j => I (j + 1)) := by
  intro u u' huu
  apply h
  intro j hj
  cases j with
  | zero => rfl
  | succ j => simpa using huu j hj

theorem DependsOn.head_irrelevant {A : NoisePoint → Bool} {I : Nat → Prop} (h : DependsOn A I) (h0 : ¬ I 0) (x : Nat)
    (pt : NoisePoint) : A (x :: pt) = A (0 :: pt) := by
  apply h
  intro j hj
  cases j with
  | zero => exact absurd hj h0
  | succ j => rfl

private theorem mass_indep_step (pmf : List Rat) (rest : List (List Rat)) (hp : pmf.sum = 1)
    (ih : ∀ (A B : NoisePoint → Bool) (I J : Nat → Prop), DependsOn A I → DependsOn B J → (∀ j, I j → J j → False) →
      mass rest (fun u => A u && B u) = mass rest A * mass rest B)
    (A B : NoisePoint → Bool) (I J : Nat → Prop) (hA : DependsOn A I) (hB : DependsOn B J)
    (hdisj : ∀ j, I j → J j → False) (h0 : ¬ I 0) :
    mass (pmf :: rest) (fun u => A u && B u) = mass (pmf :: rest) A * mass (pmf :: rest) B := by
  rw [mass_cons, mass_cons, mass_cons]
  have hA' : ∀ x, mass rest (fun pt => A (x :: pt)) = mass rest (fun pt => A (0 :: pt)) :=
    fun x => mass_congr rest (fun pt => hA.head_irrelevant h0 x pt)
  have h1 : ∀ q ∈ pmf.zipIdx, q.1 * mass rest (fun pt => A (q.2 :: pt) && B (q.2 :: pt)) =
      mass rest (fun pt => A (0 :: pt)) * (q.1 * mass rest (fun pt => B (q.2 :: pt))) := by
    intro q _
    rw [ih _ _ _ _ (hA.tail q.2) (hB.tail q.2) (fun j hi hj => hdisj (j + 1) hi hj), hA' q.2]
    ring
  rw [List.map_congr_left h1, List.sum_map_mul_left]
  have h2 : ∀ q ∈ pmf.zipIdx, q.1 * mass rest (fun pt => A (q.2 :: pt)) = mass rest (fun pt => A (0 :: pt)) * q.1 := by
    intro q _
    rw [hA' q.2]; ring
  rw [List.map_congr_left h2, List.sum_map_mul_left, sum_zipIdx_fst, hp, mul_one]

/-- **independence**: events that look at disjoint sets of noise coordinates -/
theorem mass_indep (noise : List (List Rat)) (hn : ∀ pmf ∈ noise, pmf.sum = 1) :
    ∀ (A B : NoisePoint → Bool) (I J : Nat → Prop), DependsOn A I → DependsOn B J → (∀ j, I j → J j → False) →
      mass noise (fun u => A u && B u) = mass noise A * mass noise B := by
  induction noise with
  | nil =>
    intro A B _ _ _ _ _
    simp only [mass_nil]
    cases A [] <;> cases B [] <;> simp
  | cons pmf rest ih =>
    intro A B I J hA hB hdisj
    have hp : pmf.sum = 1 := hn pmf (by simp)
    have ih' := ih (fun p hp' => hn p (by simp [hp']))
    by_cases h0 : I 0
    · have hJ0 : ¬ J 0 := fun hj => hdisj 0 h0 hj
      have := mass_indep_step pmf rest hp ih' B A J I hB hA (fun j hj hi => hdisj j hi hj) hJ0
      rw [mul_comm, ← this]
      exact mass_congr _ (fun u => Bool.and_comm _ _)
    · exact mass_indep_step pmf rest hp ih' A B I J hA hB hdisj h0

/-- … for a whole family with pairwise disjoint supports -/
theorem mass_indep_list {α : Type} (noise : List (List Rat)) (hn : ∀ pmf ∈ noise, pmf.sum = 1) (E : α → NoisePoint → Bool)
    (I : α → Nat → Prop) :
    ∀ (l : List α), (∀ a ∈ l, DependsOn (E a) (I a)) → l.Pairwise (fun a b => ∀ j, I a j → I b j → False) →
      mass noise (fun u => l.all fun a => E a u) = (l.map fun a => mass noise (E a)).prod := by
  intro l
  induction l with
  | nil =>
    intro _ _
    simp only [List.all_nil, List.map_nil, List.prod_nil]
    exact mass_true noise hn
  | cons a t ih =>
    intro hdep hpw
    rw [List.pairwise_cons] at hpw
    have hrest := ih (fun b hb => hdep b (by simp [hb])) hpw.2
    simp only [List.all_cons, List.map_cons, List.prod_cons]
    rw [mass_indep noise hn (E a) (fun u => t.all fun b => E b u) (I a) (fun j => ∃ b ∈ t, I b j)
      (hdep a (by simp)) ?_ ?_, hrest]
    · intro u u' huu
      have : ∀ b ∈ t, E b u = E b u' := fun b hb => hdep b (by simp [hb]) u u' (fun j hj => huu j ⟨b, hb, hj⟩)
      induction t with
      | nil => rfl
      | cons c t' _ =>
        apply Bool.eq_iff_iff.2
        simp only [List.all_eq_true]
        constructor
        · intro h b hb; rw [← this b hb]; exact h b hb
        · intro h b hb; rw [this b hb]; exact h b hb
    · rintro j hi ⟨b, hb, hj⟩
      exact hpw.1 b hb j hi hj

/-! ### marginalisation -/

theorem mass_add_disjoint (noise : List (List Rat)) (C A₁ A₂ : NoisePoint → Bool)
    (hor : ∀ u, C u = (A₁ u || A₂ u)) (hdis : ∀ u, ¬ (A₁ u = true ∧ A₂ u = true)) :
    mass noise C = mass noise A₁ + mass noise A₂ := by
  unfold mass
  rw [← List.sum_map_add]
  congr 1
  apply List.map_congr_left
  intro p _
  rw [hor p.1]
  have := hdis p.1
  cases h1 : A₁ p.1 <;> cases h2 : A₂ p.1 <;> simp_all

theorem mass_false (noise : List (List Rat)) : mass noise (fun _ => false) = 0 := by
  unfold mass
  simp

theorem mass_sum_lt (noise : List (List Rat)) (A : NoisePoint → Bool) (Z : NoisePoint → Nat) (n : Nat) :
    ((List.range n).map fun x => mass noise (fun u => A u && decide (Z u = x))).sum =
      mass noise (fun u => A u && decide (Z u < n)) := by
  induction n with
  | zero =>
    simp only [List.range_zero, List.map_nil, List.sum_nil, Nat.not_lt_zero, decide_false, Bool.and_false]
    exact (mass_false noise).symm
  | succ n ih =>
    rw [List.range_succ, List.map_append, List.sum_append, ih]
    simp only [List.map_cons, List.map_nil, List.sum_cons, List.sum_nil, add_zero]
    symm
    apply mass_add_disjoint
    · intro u
      by_cases h1 : Z u < n
      · have : Z u < n + 1 := by omega
        have h3 : ¬ Z u = n := by omega
        simp [h1, this, h3]
      · by_cases h2 : Z u = n
        · simp [h2]
        · have : ¬ Z u < n + 1 := by omega
          simp [h1, this, h2]
    · intro u ⟨h1, h2⟩
      simp only [Bool.and_eq_true, decide_eq_true_eq] at h1 h2
      omega

/-- **marginalisation**: if `Z` takes values below `n`, summing `A ∧ Z = x` over `x < n` gives `A` -/
theorem mass_sum_values (noise : List (List Rat)) (A : NoisePoint → Bool) (Z : NoisePoint → Nat) (n : Nat)
    (hZ : ∀ u, Z u < n) :
    ((List.range n).map fun x => mass noise (fun u => A u && decide (Z u = x))).sum = mass noise A := by
  rw [mass_sum_lt]
  apply mass_congr
  intro u
  simp [hZ u]

end Y0.Fscm
