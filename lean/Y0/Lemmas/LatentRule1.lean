/-
  Y0.Lemmas.LatentRule1 — Evans' rule "exogenise a latent with parents"
  (`transform_latents_with_parents`): one step replaces a latent `v` by direct edges parent → child and
  a fresh exogenous latent `v'` above the children.  The step preserves the latent projection,
  acyclicity and well-formedness; after all latents have been visited no latent has both a parent and
  a child.
-/
import Y0.Lemmas.LatentTopo
import Y0.Lemmas.LatentConv
import Mathlib.Data.Finset.Card
import Mathlib.Data.Finset.Dedup

namespace Y0.LV
open Relation

/-- extensional description of one expansion step -/
structure Expand (D D' : LV) (v v' : Nat) : Prop where
  nodes : ∀ x, x ∈ D'.nodes ↔ (x ∈ D.nodes ∧ x ≠ v) ∨ x = v'
  latent : ∀ x, x ∈ D'.latent ↔ (x ∈ D.latent ∧ x ≠ v) ∨ x = v'
  edges : ∀ a b, D'.Edge a b ↔
    (D.Edge a b ∧ a ≠ v ∧ b ≠ v) ∨ (D.Edge a v ∧ D.Edge v b) ∨ (a = v' ∧ D.Edge v b)

/-- a latent that can no longer be a "middle" latent -/
def NoParentOrChild (D : LV) (l : Nat) : Prop := (∀ p, ¬ D.Edge p l) ∨ (∀ c, ¬ D.Edge l c)

section expand
variable {D D' : LV} {v v' : Nat}

theorem Expand.old_ne (_ : Expand D D' v v') (hw : D.WF) (hv' : v' ∉ D.nodes) {a b : Nat}
    (h : D.Edge a b) : a ≠ v' ∧ b ≠ v' :=
  ⟨fun e => hv' (e ▸ (hw.edge_mem _ h).1), fun e => hv' (e ▸ (hw.edge_mem _ h).2)⟩

theorem Expand.new_target (hx : Expand D D' v v') (hw : D.WF) (hv' : v' ∉ D.nodes) (hloop : ¬ D.Edge v v)
    {a b : Nat} (h : D'.Edge a b) : b ≠ v' ∧ b ≠ v := by
  rcases (hx.edges a b).1 h with ⟨h1, _, h3⟩ | ⟨_, h2⟩ | ⟨_, h2⟩
  · exact ⟨(hx.old_ne hw hv' h1).2, h3⟩
  · exact ⟨(hx.old_ne hw hv' h2).2, fun e => hloop (e ▸ h2)⟩
  · exact ⟨(hx.old_ne hw hv' h2).2, fun e => hloop (e ▸ h2)⟩

/-- old paths survive: a path avoiding `v` as an endpoint is rerouted over the new direct edges; a path
starting at `v` restarts at every parent of `v` and at `v'` -/
theorem Expand.fwd (hx : Expand D D' v v') (hv : v ∈ D.latent) (hloop : ¬ D.Edge v v) {a b : Nat}
    (h : D.LatPath a b) (hb : b ≠ v) :
    (a ≠ v → D'.LatPath a b) ∧ (a = v → (∀ p, D.Edge p v → D'.LatPath p b) ∧ D'.LatPath v' b) := by
  induction h with
  | @edge a b h =>
    refine ⟨fun ha => .edge ((hx.edges a b).2 (Or.inl ⟨h, ha, hb⟩)), ?_⟩
    rintro rfl
    exact ⟨fun p hp => .edge ((hx.edges p b).2 (Or.inr (Or.inl ⟨hp, h⟩))),
      .edge ((hx.edges v' b).2 (Or.inr (Or.inr ⟨rfl, h⟩)))⟩
  | @cons a l b h hl _ ih =>
    obtain ⟨ih1, ih2⟩ := ih hb
    refine ⟨fun ha => ?_, ?_⟩
    · by_cases hlv : l = v
      · subst hlv; exact (ih2 rfl).1 a h
      · exact .cons ((hx.edges a l).2 (Or.inl ⟨h, ha, hlv⟩)) ((hx.latent l).2 (Or.inl ⟨hl, hlv⟩)) (ih1 hlv)
    · rintro rfl
      have hlv : l ≠ a := fun e => hloop (e ▸ h)
      have hl' : D'.Latent l := (hx.latent l).2 (Or.inl ⟨hl, hlv⟩)
      exact ⟨fun p hp => .cons ((hx.edges p l).2 (Or.inr (Or.inl ⟨hp, h⟩))) hl' (ih1 hlv),
        .cons ((hx.edges v' l).2 (Or.inr (Or.inr ⟨rfl, h⟩))) hl' (ih1 hlv)⟩

/-- new paths come from old ones -/
theorem Expand.bwd (hx : Expand D D' v v') (hw : D.WF) (hv : v ∈ D.latent) (hv' : v' ∉ D.nodes)
    (hloop : ¬ D.Edge v v) {a b : Nat} (h : D'.LatPath a b) :
    (a ≠ v' → D.LatPath a b) ∧ (a = v' → D.LatPath v b) := by
  induction h with
  | @edge a b h =>
    rcases (hx.edges a b).1 h with ⟨h1, _, _⟩ | ⟨h1, h2⟩ | ⟨h1, h2⟩
    · exact ⟨fun _ => .edge h1, fun e => absurd e (hx.old_ne hw hv' h1).1⟩
    · exact ⟨fun _ => .cons h1 hv (.edge h2), fun e => absurd e (hx.old_ne hw hv' h1).1⟩
    · exact ⟨fun e => absurd h1 e, fun _ => .edge h2⟩
  | @cons a l b h hl _ ih =>
    have hlv' : l ≠ v' := (hx.new_target hw hv' hloop h).1
    have hp : D.LatPath l b := ih.1 hlv'
    have hl0 : D.Latent l := by
      rcases (hx.latent l).1 hl with h' | h'
      · exact h'.1
      · exact absurd h' hlv'
    rcases (hx.edges a l).1 h with ⟨h1, _, _⟩ | ⟨h1, h2⟩ | ⟨h1, h2⟩
    · exact ⟨fun _ => .cons h1 hl0 hp, fun e => absurd e (hx.old_ne hw hv' h1).1⟩
    · exact ⟨fun _ => .cons h1 hv (.cons h2 hl0 hp), fun e => absurd e (hx.old_ne hw hv' h1).1⟩
    · exact ⟨fun e => absurd h1 e, fun _ => .cons h2 hl0 hp⟩

theorem Expand.observed (hx : Expand D D' v v') (hv : v ∈ D.latent) (hv' : v' ∉ D.nodes) (x : Nat) :
    D'.Observed x ↔ D.Observed x := by
  simp only [Observed, hx.nodes, hx.latent, not_or, not_and]
  constructor
  · rintro ⟨h1 | h1, h2, h3⟩
    · exact ⟨h1.1, fun hl => h2 hl h1.2⟩
    · exact absurd h1 h3
  · rintro ⟨h1, h2⟩
    exact ⟨Or.inl ⟨h1, fun e => h2 (e ▸ hv)⟩, fun hl => absurd hl h2, fun e => hv' (e ▸ h1)⟩

/-- **rule 1 preserves the latent projection** -/
theorem Expand.sameProj (hx : Expand D D' v v') (hw : D.WF) (hv : v ∈ D.latent) (hv' : v' ∉ D.nodes)
    (hloop : ¬ D.Edge v v) : SameProj D D' := by
  have hobs := hx.observed hv hv'
  have hne : ∀ x, D.Observed x → x ≠ v ∧ x ≠ v' := fun x h =>
    ⟨fun e => h.2 (e ▸ hv), fun e => hv' (e ▸ h.1)⟩
  have hpath : ∀ a b, a ≠ v → a ≠ v' → b ≠ v → (D'.LatPath a b ↔ D.LatPath a b) := fun a b h1 h2 h3 =>
    ⟨fun h => (hx.bwd hw hv hv' hloop h).1 h2, fun h => (hx.fwd hv hloop h h3).1 h1⟩
  refine ⟨hobs, fun u w => ?_, fun u w => ?_⟩
  · simp only [ProjDi, hobs]
    constructor
    · rintro ⟨h1, h2, h3⟩
      exact ⟨h1, h2, (hpath u w (hne u h1).1 (hne u h1).2 (hne w h2).1).1 h3⟩
    · rintro ⟨h1, h2, h3⟩
      exact ⟨h1, h2, (hpath u w (hne u h1).1 (hne u h1).2 (hne w h2).1).2 h3⟩
  · simp only [ProjBi, hobs]
    constructor
    · rintro ⟨hn, h1, h2, l, hl, pu, pw⟩
      refine ⟨hn, h1, h2, ?_⟩
      rcases (hx.latent l).1 hl with ⟨hl0, _⟩ | rfl
      · have hlv' : l ≠ v' := fun e => hv' (e ▸ hw.latent_mem l hl0)
        exact ⟨l, hl0, (hx.bwd hw hv hv' hloop pu).1 hlv', (hx.bwd hw hv hv' hloop pw).1 hlv'⟩
      · exact ⟨v, hv, (hx.bwd hw hv hv' hloop pu).2 rfl, (hx.bwd hw hv hv' hloop pw).2 rfl⟩
    · rintro ⟨hn, h1, h2, l, hl, pu, pw⟩
      refine ⟨hn, h1, h2, ?_⟩
      by_cases hlv : l = v
      · subst hlv
        exact ⟨v', (hx.latent v').2 (Or.inr rfl), ((hx.fwd hv hloop pu (hne u h1).1).2 rfl).2,
          ((hx.fwd hv hloop pw (hne w h2).1).2 rfl).2⟩
      · exact ⟨l, (hx.latent l).2 (Or.inl ⟨hl, hlv⟩), (hx.fwd hv hloop pu (hne u h1).1).1 hlv,
          (hx.fwd hv hloop pw (hne w h2).1).1 hlv⟩

theorem Expand.transGen (hx : Expand D D' v v') (hw : D.WF) (hv' : v' ∉ D.nodes) (hloop : ¬ D.Edge v v)
    {x y : Nat} (h : TransGen D'.Edge x y) : y ≠ v' ∧ (x ≠ v' → TransGen D.Edge x y) := by
  have step : ∀ a b, D'.Edge a b → a ≠ v' → TransGen D.Edge a b := by
    intro a b h ha
    rcases (hx.edges a b).1 h with ⟨h1, _, _⟩ | ⟨h1, h2⟩ | ⟨h1, _⟩
    · exact .single h1
    · exact .head h1 (.single h2)
    · exact absurd h1 ha
  induction h with
  | single h => exact ⟨(hx.new_target hw hv' hloop h).1, step _ _ h⟩
  | tail _ h ih =>
    exact ⟨(hx.new_target hw hv' hloop h).1, fun hxv => (ih.2 hxv).trans (step _ _ h ih.1)⟩

/-- rule 1 keeps the graph acyclic -/
theorem Expand.acyclic (hx : Expand D D' v v') (hw : D.WF) (hv' : v' ∉ D.nodes) (ha : D.Acyclic) :
    D'.Acyclic := by
  intro x h
  have hloop : ¬ D.Edge v v := fun e => ha v (.single e)
  have := hx.transGen hw hv' hloop h
  exact ha x (this.2 this.1)

/-- a latent that already lacks parents or children keeps lacking them; the new latent has no parents -/
theorem Expand.noParentOrChild (hx : Expand D D' v v') (hw : D.WF) (hv' : v' ∉ D.nodes)
    (hloop : ¬ D.Edge v v) (l : Nat) (hl : l ∈ D'.latent)
    (h : l ∈ D.latent → l ≠ v → NoParentOrChild D l) : NoParentOrChild D' l := by
  rcases (hx.latent l).1 hl with ⟨hl0, hlv⟩ | rfl
  · rcases h hl0 hlv with h | h
    · left
      intro p hp
      rcases (hx.edges p l).1 hp with ⟨h1, _, _⟩ | ⟨_, h2⟩ | ⟨_, h2⟩
      · exact h _ h1
      · exact h _ h2
      · exact h _ h2
    · right
      intro c hc
      rcases (hx.edges l c).1 hc with ⟨h1, _, _⟩ | ⟨h1, _⟩ | ⟨h1, _⟩
      · exact h _ h1
      · exact h _ h1
      · exact hv' (h1 ▸ hw.latent_mem l hl0)
  · left
    intro p hp
    exact (hx.new_target hw hv' hloop hp).1 rfl

end expand

/-! ### the executable step is such an expansion -/

theorem primeFree_spec (prime : Nat → Nat) (hp : ∀ n, n < prime n) (nodes : List Nat) :
    ∀ fuel n, (nodes.toFinset.filter (fun x => n ≤ x)).card < fuel →
      primeFree prime nodes fuel n ∉ nodes ∧ n ≤ primeFree prime nodes fuel n := by
  intro fuel
  induction fuel with
  | zero => intro n h; omega
  | succ k ih =>
    intro n h
    simp only [primeFree]
    split
    · rename_i hn
      have hlt : (nodes.toFinset.filter (fun x => prime n ≤ x)).card <
          (nodes.toFinset.filter (fun x => n ≤ x)).card := by
        apply Finset.card_lt_card
        constructor
        · intro x hx
          simp only [Finset.mem_filter, List.mem_toFinset] at hx ⊢
          exact ⟨hx.1, by have := hp n; omega⟩
        · intro hsub
          have : n ∈ nodes.toFinset.filter (fun x => prime n ≤ x) :=
            hsub (by simp only [Finset.mem_filter, List.mem_toFinset]; exact ⟨hn, le_refl _⟩)
          simp only [Finset.mem_filter, List.mem_toFinset] at this
          have := hp n
          omega
      obtain ⟨h1, h2⟩ := ih (prime n) (by omega)
      exact ⟨h1, by have := hp n; omega⟩
    · rename_i hn
      exact ⟨hn, le_refl _⟩

theorem primeFree_free (prime : Nat → Nat) (hp : ∀ n, n < prime n) (nodes : List Nat) (n : Nat) :
    primeFree prime nodes (nodes.length + 1) n ∉ nodes ∧ n ≤ primeFree prime nodes (nodes.length + 1) n := by
  apply primeFree_spec prime hp
  have h1 : (nodes.toFinset.filter (fun x => n ≤ x)).card ≤ nodes.toFinset.card :=
    Finset.card_le_card (Finset.filter_subset _ _)
  have h2 := List.toFinset_card_le nodes
  omega

/-- `transformStep` on a latent with parents and children is an expansion with a fresh `v'` -/
theorem transformStep_expand (prime : Nat → Nat) (hp : ∀ n, n < prime n) (D : LV) (hw : D.WF) (v : Nat)
    (hloop : ¬ D.Edge v v) (hps : D.parents v ≠ []) (hcs : D.children v ≠ []) :
    ∃ v', v' ∉ D.nodes ∧ Expand D (transformStep prime D v) v v' ∧ (transformStep prime D v).WF := by
  have hpm : ∀ p ∈ D.parents v, p ∈ D.nodes ∧ p ≠ v := fun p h => by
    rw [mem_parents] at h
    exact ⟨(hw.edge_mem _ h).1, fun e => hloop (e ▸ h)⟩
  have hcm : ∀ c ∈ D.children v, c ∈ D.nodes ∧ c ≠ v := fun c h => by
    rw [mem_children] at h
    exact ⟨(hw.edge_mem _ h).2, fun e => hloop (e ▸ h)⟩
  -- D1: remove v
  set D1 := D.removeNode v with hD1
  have w1 : D1.WF := wf_removeNodes D [v] hw
  have n1 : ∀ x, x ∈ D1.nodes ↔ x ∈ D.nodes ∧ x ≠ v := by intro x; simp [hD1, removeNode]
  have l1 : ∀ x, x ∈ D1.latent ↔ x ∈ D.latent ∧ x ≠ v := by intro x; simp [hD1, removeNode]
  have e1 : ∀ a b, D1.Edge a b ↔ D.Edge a b ∧ a ≠ v ∧ b ≠ v := by intro a b; simp [hD1, removeNode]
  -- D2: parent x child edges
  set es := (D.parents v).flatMap (fun p => (D.children v).map (fun c => (p, c))) with hes
  have hesm : ∀ e ∈ es, e.1 ∈ D1.nodes ∧ e.2 ∈ D1.nodes := by
    rintro ⟨a, b⟩ he
    simp only [hes, List.mem_flatMap, List.mem_map, Prod.mk.injEq] at he
    obtain ⟨p, hp', c, hc, rfl, rfl⟩ := he
    exact ⟨(n1 _).2 (hpm p hp'), (n1 _).2 (hcm c hc)⟩
  obtain ⟨n2, l2, u2, e2, d2⟩ := foldl_addEdge_of_mem es D1 hesm
  set D2 := es.foldl addEdge D1 with hD2
  -- the new name
  obtain ⟨hfree, hge⟩ := primeFree_free prime hp D2.nodes (prime v)
  set v' := primeFree prime D2.nodes (D2.nodes.length + 1) (prime v) with hv'
  have hv'v : v' ≠ v := by have := hp v; omega
  have hv'D : v' ∉ D.nodes := by
    intro h
    apply hfree
    rw [n2]
    exact (n1 _).2 ⟨h, hv'v⟩
  -- D3: add the latent node
  set D3 := D2.addLatentNode v' with hD3
  -- D4: edges v' -> child
  have hcs' : ∀ e ∈ (D.children v).map (fun c => (v', c)), e.1 ∈ D3.nodes ∧ e.2 ∈ D3.nodes := by
    rintro ⟨a, b⟩ he
    simp only [List.mem_map, Prod.mk.injEq] at he
    obtain ⟨c, hc, rfl, rfl⟩ := he
    refine ⟨(mem_nodes_addLatentNode _ _ _).2 (Or.inr rfl), (mem_nodes_addLatentNode _ _ _).2 (Or.inl ?_)⟩
    rw [n2]
    exact (n1 _).2 (hcm c hc)
  obtain ⟨n4, l4, u4, e4, d4⟩ := foldl_addEdge_of_mem _ D3 hcs'
  have hstep : transformStep prime D v = ((D.children v).map (fun c => (v', c))).foldl addEdge D3 := by
    unfold transformStep
    have : ((D.parents v).isEmpty || (D.children v).isEmpty) = false := by
      simp [hps, hcs]
    simp only [this, Bool.false_eq_true, if_false]
    rw [List.foldl_map]
  rw [hstep]
  have hN : ∀ x, x ∈ (((D.children v).map (fun c => (v', c))).foldl addEdge D3).nodes ↔
      (x ∈ D.nodes ∧ x ≠ v) ∨ x = v' := by
    intro x; rw [n4]; simp only [hD3, mem_nodes_addLatentNode, n2, n1]
  have hL : ∀ x, x ∈ (((D.children v).map (fun c => (v', c))).foldl addEdge D3).latent ↔
      (x ∈ D.latent ∧ x ≠ v) ∨ x = v' := by
    intro x; rw [l4]; simp only [hD3, mem_latent_addLatentNode, l2, l1]
  have hE : ∀ a b, (((D.children v).map (fun c => (v', c))).foldl addEdge D3).Edge a b ↔
      (D.Edge a b ∧ a ≠ v ∧ b ≠ v) ∨ (D.Edge a v ∧ D.Edge v b) ∨ (a = v' ∧ D.Edge v b) := by
    intro a b
    unfold Edge at *
    rw [e4, hD3, edges_addLatentNode, e2]
    have := e1 a b
    rw [this]
    simp only [hes, List.mem_flatMap, List.mem_map, Prod.mk.injEq]
    constructor
    · rintro ((h | ⟨p, hp', c, hc, rfl, rfl⟩) | ⟨c, hc, rfl, rfl⟩)
      · exact Or.inl h
      · exact Or.inr (Or.inl ⟨(mem_parents D _ _).1 hp', (mem_children D _ _).1 hc⟩)
      · exact Or.inr (Or.inr ⟨rfl, (mem_children D _ _).1 hc⟩)
    · rintro (h | ⟨h1, h2⟩ | ⟨rfl, h2⟩)
      · exact Or.inl (Or.inl h)
      · exact Or.inl (Or.inr ⟨a, (mem_parents D _ _).2 h1, b, (mem_children D _ _).2 h2, rfl, rfl⟩)
      · exact Or.inr ⟨b, (mem_children D _ _).2 h2, rfl, rfl⟩
  refine ⟨v', hv'D, ⟨hN, hL, hE⟩, ⟨?_, ?_, ?_, ?_, ?_⟩⟩
  · rw [n4]; exact nodup_nodes_addLatentNode D2 v' (n2 ▸ w1.nodes_nodup)
  · exact d4 (by rw [hD3, edges_addLatentNode]; exact d2 w1.edges_nodup)
  · rintro ⟨a, b⟩ he
    have he' := (hE a b).1 he
    simp only [hN]
    rcases he' with ⟨h1, h2, h3⟩ | ⟨h1, h2⟩ | ⟨rfl, h2⟩
    · exact ⟨Or.inl ⟨(hw.edge_mem _ h1).1, h2⟩, Or.inl ⟨(hw.edge_mem _ h1).2, h3⟩⟩
    · exact ⟨Or.inl (hpm a ((mem_parents D _ _).2 h1)), Or.inl (hcm b ((mem_children D _ _).2 h2))⟩
    · exact ⟨Or.inr rfl, Or.inl (hcm b ((mem_children D _ _).2 h2))⟩
  · intro l hl
    rw [hL] at hl
    rw [hN]
    rcases hl with ⟨h1, h2⟩ | h
    · exact Or.inl ⟨hw.latent_mem l h1, h2⟩
    · exact Or.inr h
  · rw [u4, hD3]
    exact untagged_addLatentNode D2 v' (by rw [u2]; exact w1.tagged)


theorem transformStep_of_empty (prime : Nat → Nat) (D : LV) (v : Nat)
    (h : D.parents v = [] ∨ D.children v = []) : transformStep prime D v = D := by
  unfold transformStep
  have : ((D.parents v).isEmpty || (D.children v).isEmpty) = true := by
    rcases h with h | h <;> simp [h]
  simp [this]

/-- the loop of `transform_latents_with_parents` over any list of latents of the input -/
theorem foldl_transformStep_spec (prime : Nat → Nat) (hp : ∀ n, n < prime n) (D : LV) :
    ∀ (ls : List Nat) (Dk : LV), Dk.WF → Dk.Acyclic → SameProj D Dk →
      (∀ x ∈ D.latent, x ∈ Dk.nodes → x ∈ Dk.latent) → (∀ l ∈ ls, l ∈ D.latent) →
      (∀ l ∈ Dk.latent, l ∉ ls → NoParentOrChild Dk l) →
      (ls.foldl (transformStep prime) Dk).WF ∧ (ls.foldl (transformStep prime) Dk).Acyclic ∧
      SameProj D (ls.foldl (transformStep prime) Dk) ∧
      ∀ l ∈ (ls.foldl (transformStep prime) Dk).latent, NoParentOrChild (ls.foldl (transformStep prime) Dk) l := by
  intro ls
  induction ls with
  | nil =>
    intro Dk hw ha hs _ _ hnpc
    exact ⟨hw, ha, hs, fun l hl => hnpc l hl (by simp)⟩
  | cons v ls ih =>
    intro Dk hw ha hs hL hls hnpc
    simp only [List.foldl_cons]
    by_cases hemp : Dk.parents v = [] ∨ Dk.children v = []
    · rw [transformStep_of_empty prime Dk v hemp]
      apply ih Dk hw ha hs hL (fun l hl => hls l (by simp [hl]))
      intro l hl hnl
      by_cases hlv : l = v
      · subst hlv
        rcases hemp with h | h
        · exact Or.inl ((parents_eq_nil Dk l).1 h)
        · exact Or.inr ((children_eq_nil Dk l).1 h)
      · exact hnpc l hl (by simp [hlv, hnl])
    · rw [not_or] at hemp
      have hloop : ¬ Dk.Edge v v := fun e => ha v (.single e)
      obtain ⟨p, hpv⟩ := List.exists_mem_of_ne_nil _ hemp.1
      rw [mem_parents] at hpv
      have hvn : v ∈ Dk.nodes := (hw.edge_mem _ hpv).2
      have hvl : v ∈ Dk.latent := hL v (hls v (by simp)) hvn
      obtain ⟨v', hv', hx, hw'⟩ := transformStep_expand prime hp Dk hw v hloop hemp.1 hemp.2
      apply ih _ hw' (hx.acyclic hw hv' ha) (hs.trans (hx.sameProj hw hvl hv' hloop))
      · intro x hxl hxn
        rcases (hx.nodes x).1 hxn with ⟨h1, h2⟩ | h
        · exact (hx.latent x).2 (Or.inl ⟨hL x hxl h1, h2⟩)
        · exact (hx.latent x).2 (Or.inr h)
      · exact fun l hl => hls l (by simp [hl])
      · intro l hl hnl
        apply hx.noParentOrChild hw hv' hloop l hl
        intro hl0 hlv
        exact hnpc l hl0 (by simp [hlv, hnl])

/-- **rule 1** as a whole -/
theorem transform_spec (prime : Nat → Nat) (hp : ∀ n, n < prime n) (D D1 : LV) (hw : D.WF) (ha : D.Acyclic)
    (h : D.transformLatentsWithParents prime = .ok D1) :
    D1.WF ∧ D1.Acyclic ∧ SameProj D D1 ∧ ∀ l ∈ D1.latent, NoParentOrChild D1 l := by
  unfold transformLatentsWithParents at h
  cases hl : D.iterLatents with
  | error e => rw [hl] at h; cases h
  | ok ls =>
    rw [hl] at h
    have : D1 = ls.foldl (transformStep prime) D := by cases h; rfl
    subst this
    apply foldl_transformStep_spec prime hp D ls D hw ha (SameProj.refl D) (fun x hx _ => hx)
      (fun l hl' => (mem_iterLatents D hw ls hl l).1 hl')
    intro l hl' hnl
    exact absurd ((mem_iterLatents D hw ls hl l).2 hl') hnl

end Y0.LV
