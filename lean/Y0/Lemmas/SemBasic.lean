/-
  Y0.Lemmas.SemBasic — denotation of the normalising constructors and operators of Y0.Model.Dsl
  (Product.safe, `*`, `/`, Sum.safe, marginalize, normalize_marginalize, conditional).
  No hypothesis on the environment is needed here: these are identities of field arithmetic with `x / 0 = 0`
  and of finite sums.
-/
import Y0.Spec.Sem
import Y0.Model.Dsl
import Y0.Lemmas.Prob
import Mathlib.Algebra.Order.Field.Basic

namespace Y0
set_option linter.unusedSimpArgs false

variable {env : Env} {σ' : Val}

/-! ### unfolding `den` -/

@[simp] theorem den_prob (pop : Option Var) (c p : List Var) (σ : Val) :
    den env σ' (.prob pop c p) σ =
      env.pr (pop.map (·.name)) ((c ++ p).map (Var.atom σ σ')) / env.pr (pop.map (·.name)) (p.map (Var.atom σ σ')) := by
  simp [den]
@[simp] theorem den_prod (fs : List Expr) (σ : Val) : den env σ' (.prod fs) σ = denProd env σ' fs σ := by simp [den]
@[simp] theorem den_sum (e : Expr) (r : List Var) (σ : Val) :
    den env σ' (.sum e r) σ = sumVars env.card (r.map (·.name)) (fun τ => den env σ' e τ) σ := by simp [den]
@[simp] theorem den_frac (n d : Expr) (σ : Val) : den env σ' (.frac n d) σ = den env σ' n σ / den env σ' d σ := by
  simp [den]
@[simp] theorem den_one (σ : Val) : den env σ' .one σ = 1 := by simp [den]
@[simp] theorem den_zero (σ : Val) : den env σ' .zero σ = 0 := by simp [den]
@[simp] theorem denProd_nil (σ : Val) : denProd env σ' [] σ = 1 := by simp [denProd]
@[simp] theorem denProd_cons (e : Expr) (es : List Expr) (σ : Val) :
    denProd env σ' (e :: es) σ = den env σ' e σ * denProd env σ' es σ := by simp [denProd]

theorem denProd_append (l₁ l₂ : List Expr) (σ : Val) :
    denProd env σ' (l₁ ++ l₂) σ = denProd env σ' l₁ σ * denProd env σ' l₂ σ := by
  induction l₁ with
  | nil => simp
  | cons a l ih => simp [ih, mul_assoc]

theorem denProd_perm {l₁ l₂ : List Expr} (h : l₁.Perm l₂) (σ : Val) :
    denProd env σ' l₁ σ = denProd env σ' l₂ σ := by
  induction h with
  | nil => rfl
  | cons x _ ih => simp [ih]
  | swap x y l => simp only [denProd_cons]; ring
  | trans _ _ ih₁ ih₂ => rw [ih₁, ih₂]

theorem Expr.isOne_iff {e : Expr} : e.isOne = true ↔ e = .one := by cases e <;> simp [Expr.isOne]
theorem Expr.isZero_iff {e : Expr} : e.isZero = true ↔ e = .zero := by cases e <;> simp [Expr.isZero]

theorem denProd_filter_notOne (es : List Expr) (σ : Val) :
    denProd env σ' (es.filter (fun e => !e.isOne)) σ = denProd env σ' es σ := by
  induction es with
  | nil => rfl
  | cons a l ih =>
    by_cases h : a.isOne = true
    · rw [List.filter_cons_of_neg (by simp [h]), ih]
      have ha : a = .one := Expr.isOne_iff.mp h
      subst ha
      simp
    · rw [List.filter_cons_of_pos (by simp [h])]
      simp [ih]

theorem denProd_eq_zero_of_mem {es : List Expr} {e : Expr} (he : e ∈ es) (σ : Val)
    (h0 : den env σ' e σ = 0) : denProd env σ' es σ = 0 := by
  induction es with
  | nil => cases he
  | cons a l ih =>
    rcases List.mem_cons.mp he with rfl | h
    · simp [h0]
    · simp [ih h]

/-! ### stable sorting is a permutation -/

theorem insertStable_perm {α} (lt : α → α → Bool) (x : α) (l : List α) : (insertStable lt x l).Perm (x :: l) := by
  induction l with
  | nil => exact List.Perm.refl _
  | cons y ys ih =>
    unfold insertStable
    split
    · exact (List.Perm.cons y ih).trans (List.Perm.swap x y ys)
    · exact List.Perm.refl _

theorem sortStable_perm {α} (lt : α → α → Bool) (l : List α) : (sortStable lt l).Perm l := by
  induction l with
  | nil => exact List.Perm.refl _
  | cons x xs ih =>
    show (insertStable lt x (sortStable lt xs)).Perm (x :: xs)
    exact (insertStable_perm lt x _).trans (List.Perm.cons x ih)

/-! ### Product.safe -/

/-- **Product.safe denotes the product of its arguments.** -/
theorem productSafe_den (es : List Expr) (σ : Val) :
    den env σ' (productSafe es) σ = denProd env σ' es σ := by
  unfold productSafe
  simp only
  rw [← denProd_filter_notOne es σ]
  generalize es.filter (fun e => !e.isOne) = l
  by_cases hz : l.any Expr.isZero = true
  · rw [if_pos hz]
    obtain ⟨e, he, hez⟩ := List.any_eq_true.mp hz
    have : e = .zero := Expr.isZero_iff.mp hez
    subst this
    rw [denProd_eq_zero_of_mem he σ (by simp)]
    simp
  · rw [if_neg hz]
    match l with
    | [] => simp
    | [e] => simp
    | a :: b :: r =>
      simp only [den_prod]
      exact denProd_perm (sortStable_perm _ _) σ

/-! ### `*` and `/` -/

theorem den_mkFrac {n d c : Expr} (h : mkFrac n d = .ok c) (σ : Val) :
    den env σ' c σ = den env σ' n σ / den env σ' d σ := by
  unfold mkFrac at h
  split at h
  · cases h
  · cases h; simp

theorem pure_ok {α} {a b : α} (h : (pure a : Except Err α) = .ok b) : a = b := by
  cases h; rfl

theorem bind_ok {α β} {x : Except Err α} {f : α → Except Err β} {b : β} (h : x >>= f = .ok b) :
    ∃ a, x = .ok a ∧ f a = .ok b := by
  cases x with
  | error e => cases h
  | ok a => exact ⟨a, rfl, h⟩

/-- `a * b` for `a` a Probability / Product / Sum / QFactor -/
theorem mulR_den (a : Expr) : ∀ (b c : Expr), Expr.mulR a b = .ok c →
    ∀ σ, den env σ' c σ = den env σ' a σ * den env σ' b σ
  | .frac n d, c, h, σ => by
    unfold Expr.mulR at h
    cases a with
    | sum e r => cases h; simp [productSafe_den]
    | prob pop ch pa =>
      obtain ⟨x, hx, hc⟩ := bind_ok h
      rw [den_mkFrac hc, mulR_den _ n x hx]; simp [mul_div_assoc]
    | prod fs =>
      obtain ⟨x, hx, hc⟩ := bind_ok h
      rw [den_mkFrac hc, mulR_den _ n x hx]; simp [mul_div_assoc]
    | frac n1 d1 =>
      obtain ⟨x, hx, hc⟩ := bind_ok h
      rw [den_mkFrac hc, mulR_den _ n x hx]; simp [mul_div_assoc]
    | one =>
      obtain ⟨x, hx, hc⟩ := bind_ok h
      rw [den_mkFrac hc, mulR_den _ n x hx]; simp [mul_div_assoc]
    | zero =>
      obtain ⟨x, hx, hc⟩ := bind_ok h
      rw [den_mkFrac hc, mulR_den _ n x hx]; simp [mul_div_assoc]
    | q dd cc =>
      obtain ⟨x, hx, hc⟩ := bind_ok h
      rw [den_mkFrac hc, mulR_den _ n x hx]; simp [mul_div_assoc]
  | .zero, c, h, σ => by
    unfold Expr.mulR at h
    cases a <;> cases h <;> simp [productSafe_den]
  | .one, c, h, σ => by
    unfold Expr.mulR at h
    cases a <;> cases h <;> simp [productSafe_den, denProd_append]
  | .prod gs, c, h, σ => by
    unfold Expr.mulR at h
    cases a <;> cases h <;> simp [productSafe_den, denProd_append]
  | .prob pop ch pa, c, h, σ => by
    unfold Expr.mulR at h
    cases a <;> cases h <;> simp [productSafe_den, denProd_append]
  | .sum e r, c, h, σ => by
    unfold Expr.mulR at h
    cases a <;> cases h <;> simp [productSafe_den, denProd_append]
  | .q dd cc, c, h, σ => by
    unfold Expr.mulR at h
    cases a <;> cases h <;> simp [productSafe_den, denProd_append]

/-- **`a * b` denotes the product** (C13 `mul_den`): every one of the `__mul__` overloads. -/
theorem mul_den : ∀ (a b c : Expr), Expr.mul a b = .ok c →
    ∀ σ, den env σ' c σ = den env σ' a σ * den env σ' b σ
  | .one, b, c, h, σ => by unfold Expr.mul at h; cases h; simp
  | .zero, b, c, h, σ => by unfold Expr.mul at h; cases h; simp
  | .frac n d, .zero, c, h, σ => by unfold Expr.mul at h; cases h; simp
  | .frac n d, .frac n2 d2, c, h, σ => by
    unfold Expr.mul at h
    obtain ⟨x, hx, h⟩ := bind_ok h
    obtain ⟨y, hy, hc⟩ := bind_ok h
    rw [den_mkFrac hc, mul_den n n2 x hx, mul_den d d2 y hy]
    simp [div_mul_div_comm]
  | .frac n d, .one, c, h, σ => by
    unfold Expr.mul at h
    obtain ⟨x, hx, hc⟩ := bind_ok h
    rw [den_mkFrac hc, mul_den n _ x hx]; simp
  | .frac n d, .prob pop ch pa, c, h, σ => by
    unfold Expr.mul at h
    obtain ⟨x, hx, hc⟩ := bind_ok h
    rw [den_mkFrac hc, mul_den n _ x hx]; simp [div_mul_eq_mul_div]
  | .frac n d, .prod gs, c, h, σ => by
    unfold Expr.mul at h
    obtain ⟨x, hx, hc⟩ := bind_ok h
    rw [den_mkFrac hc, mul_den n _ x hx]; simp [div_mul_eq_mul_div]
  | .frac n d, .sum e r, c, h, σ => by
    unfold Expr.mul at h
    obtain ⟨x, hx, hc⟩ := bind_ok h
    rw [den_mkFrac hc, mul_den n _ x hx]; simp [div_mul_eq_mul_div]
  | .frac n d, .q dd cc, c, h, σ => by
    unfold Expr.mul at h
    obtain ⟨x, hx, hc⟩ := bind_ok h
    rw [den_mkFrac hc, mul_den n _ x hx]; simp [div_mul_eq_mul_div]
  | .prob pop ch pa, b, c, h, σ => by unfold Expr.mul at h; exact mulR_den _ b c h σ
  | .prod fs, b, c, h, σ => by unfold Expr.mul at h; exact mulR_den _ b c h σ
  | .sum e r, b, c, h, σ => by unfold Expr.mul at h; exact mulR_den _ b c h σ
  | .q dd cc, b, c, h, σ => by unfold Expr.mul at h; exact mulR_den _ b c h σ

/-- **`a / b` denotes the quotient** (C13 `div_den`): `Zero.__truediv__`, `Fraction.__truediv__`,
`Expression.__truediv__`; an identity of field arithmetic with `x / 0 = 0`, no hypothesis on `b`. -/
theorem div_den (a b c : Expr) (h : Expr.div a b = .ok c) (σ : Val) :
    den env σ' c σ = den env σ' a σ / den env σ' b σ := by
  cases a <;> cases b <;> simp only [Expr.div] at h <;>
  first
    | (cases h; simp; done)
    | (rw [den_mkFrac h]; done)
    | (obtain ⟨x, hx, h⟩ := bind_ok h
       obtain ⟨y, hy, hc⟩ := bind_ok h
       rw [den_mkFrac hc, mul_den _ _ x hx, mul_den _ _ y hy]
       simp only [den_frac]
       rw [div_div_div_eq]; done)
    | (obtain ⟨x, hx, hc⟩ := bind_ok h
       rw [den_mkFrac hc, mul_den _ _ x hx]
       simp only [den_frac, div_div, div_div_eq_mul_div]; done)
    | (split at h
       · cases h
       · cases h; simp)

/-! ### sums -/

theorem sumVars_zero (card : Name → Nat) (xs : List Name) (σ : Val) : sumVars card xs (fun _ => (0 : Rat)) σ = 0 := by
  induction xs generalizing σ with
  | nil => rfl
  | cons x xs ih =>
    simp only [sumVars]
    have : sumVars card xs (fun _ => (0 : Rat)) = fun _ => 0 := funext ih
    rw [this, sumVar_eq_sum]
    simp

/-- `Sum.safe(e, ranges)` (no simplification) denotes the sum of `e` over the de-duplicated ranges -/
theorem sumSafe0_den (e : Expr) (r : List Var) (σ : Val) :
    den env σ' (sumSafe0 e r) σ =
      sumVars env.card ((upgradeOrdering r).map (·.name)) (fun τ => den env σ' e τ) σ := by
  unfold sumSafe0
  simp only
  by_cases h : (upgradeOrdering r).isEmpty = true
  · rw [if_pos h]
    have : upgradeOrdering r = [] := List.isEmpty_iff.mp h
    rw [this]; rfl
  · rw [if_neg h]
    cases e <;> simp [sumVars_zero]

/-- **`e.marginalize(ranges)` denotes the sum of `e` over the base variables of `ranges`** (C13 `marginalize_den`) -/
theorem marginalize_den (e : Expr) (r : List Var) (σ : Val) :
    den env σ' (e.marginalize r) σ =
      sumVars env.card ((upgradeOrdering (r.map Var.base)).map (·.name)) (fun τ => den env σ' e τ) σ :=
  sumSafe0_den e _ σ

/-- **`e.normalize_marginalize(ranges)` denotes `e / Σ_ranges e`** (C13) -/
theorem normalize_marginalize_den (e c : Expr) (r : List Var) (h : e.normalizeMarginalize r = .ok c) (σ : Val) :
    den env σ' c σ = den env σ' e σ /
      sumVars env.card ((upgradeOrdering (r.map Var.base)).map (·.name)) (fun τ => den env σ' e τ) σ := by
  unfold Expr.normalizeMarginalize at h
  rw [div_den _ _ _ h, marginalize_den]

/-- the variables `conditional` normalises over, as the code collects them (both overloads skip `Intervention`
objects — the subscripts — since `fix:` a54a0f5; the ranges of inner `Sum`s are collected) -/
def Expr.conditionalComplement (e : Expr) (ranges : List Var) : List Var :=
  diff' (dedup' ((e.iterVars.filter (fun (v : Var) => !v.isIv)).map Var.base)) (upgradeOrdering (ranges.map Var.base))

/-- **what `e.conditional(ranges)` denotes** (C13 `conditional_den`, statement about the code as it is):
`e / Σ_{collected ∖ ranges} e`. Whether the collected variables are the free event variables of `e` is the content
of `Props/C13.lean` (F11). -/
theorem conditional_den (e c : Expr) (r : List Var) (h : e.conditional r = .ok c) (σ : Val) :
    den env σ' c σ = den env σ' e σ /
      sumVars env.card ((upgradeOrdering ((e.conditionalComplement r).map Var.base)).map (·.name))
        (fun τ => den env σ' e τ) σ := by
  unfold Expr.conditional at h
  exact normalize_marginalize_den e c _ h σ

end Y0
