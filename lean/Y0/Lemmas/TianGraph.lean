/-
  Y0.Lemmas.TianGraph — the graph facts IDENTIFY relies on, for the executable graph model (Y0.Model.Graph):
  the ancestral set `A = An(C)_{G[T]}` lies between `C` and `T` and is ancestral in `G[T]`; a district of `G[A]`
  is duplicate free, lies inside `A` and no bidirected edge joins it to the rest of `A`; filtering a topological
  listing keeps it topological.
-/
import Y0.Props.C14
import Y0.Spec.TianSpec
import Y0.Lemmas.QFactor

namespace Y0
namespace TianGraph
open TianSpec MG

/-! ### closures are duplicate free -/

theorem closure_nodup {α} [DecidableEq α] (next : α → List α) :
    ∀ (fuel : Nat) (A : List α), A.Nodup → (closure next fuel A).Nodup
  | 0, A, h => by simpa [closure] using h
  | fuel + 1, A, h => by
    simp only [closure]
    split
    · exact h
    · apply closure_nodup next fuel
      rw [List.nodup_append]
      refine ⟨h, nodup_dedup' _, ?_⟩
      intro a ha b hb e
      subst e
      rw [mem_dedup'] at hb
      have := (List.mem_filter.mp hb).2
      simp only [decide_eq_true_eq] at this
      exact this ha

theorem district_nodup (G : MG Name) (d : List Name) (hd : d ∈ G.districts) : d.Nodup := by
  -- every district is a `districtOf`, i.e. a closure started from a singleton
  have key : ∀ (vs : List Name) (acc : List (List Name)), (∀ x ∈ acc, x.Nodup) →
      ∀ x ∈ districtsAux G vs acc, x.Nodup := by
    intro vs
    induction vs with
    | nil => intro acc hacc x hx; simp only [districtsAux, List.mem_reverse] at hx; exact hacc x hx
    | cons v vs ih =>
      intro acc hacc x hx
      simp only [districtsAux] at hx
      split at hx
      · exact ih acc hacc x hx
      · apply ih _ _ x hx
        intro y hy
        rcases List.mem_cons.mp hy with rfl | hy
        · exact closure_nodup _ _ _ (List.nodup_singleton v)
        · exact hacc y hy
  exact key G.nodes [] (by simp) d hd

/-! ### the ancestral set computed by IDENTIFY -/

theorem anc_facts (G : MG Name) (C T A : List Name) (hCT : ∀ c ∈ C, c ∈ T)
    (h : (G.subgraph T).ancestorsInclusive C = .ok A) :
    (∀ c ∈ C, c ∈ A) ∧ (∀ a ∈ A, a ∈ T) ∧ AncestralIn G A T := by
  have hwf := wf_subgraph G T
  have spec := ancestorsInclusive_spec (G.subgraph T) hwf C A h
  have hAT : ∀ a ∈ A, a ∈ T := by
    intro a ha
    obtain ⟨s, hs, hpath⟩ := (spec a).mp ha
    cases hpath.cases_head with
    | inl e => exact e ▸ hCT s hs
    | inr hh =>
      obtain ⟨b, hab, _⟩ := hh
      exact ((diEdge_subgraph G T a b).mp hab).2.1
  refine ⟨fun c hc => (spec c).mpr ⟨c, hc, .refl⟩, hAT, ?_⟩
  intro a ha p hp hpT
  obtain ⟨s, hs, hpath⟩ := (spec a).mp ha
  apply (spec p).mpr
  refine ⟨s, hs, .head ?_ hpath⟩
  exact (diEdge_subgraph G T p a).mpr ⟨MG.mem_parents.mp hp, hpT, hAT a ha⟩

theorem anc_ok (G : MG Name) (C T : List Name) (hCT : ∀ c ∈ C, c ∈ T) :
    ∃ A, (G.subgraph T).ancestorsInclusive C = .ok A :=
  ancestorsInclusive_total _ _ (fun s hs => (mem_nodes_subgraph G T s).mpr (hCT s hs))

/-! ### districts of the subgraph induced by the ancestral set -/

theorem district_facts (G : MG Name) (S : List Name) (d : List Name) (hd : d ∈ (G.subgraph S).districts) :
    d.Nodup ∧ (∀ v ∈ d, v ∈ S) ∧ BiClosedIn G d S ∧ d ≠ [] := by
  have hwf := wf_subgraph G S
  refine ⟨district_nodup _ d hd, ?_, ?_, districts_nonempty _ hwf d hd⟩
  · intro v hv
    exact (mem_nodes_subgraph G S v).mp ((districts_cover _ hwf v).mpr ⟨d, hd, hv⟩)
  · intro v hv w hw hwd
    by_contra hbi
    have hbi' : G.hasBi v w = true := by simpa using hbi
    have hvS : v ∈ S := (mem_nodes_subgraph G S v).mp ((districts_cover _ hwf v).mpr ⟨d, hd, hv⟩)
    have hedge : (G.subgraph S).BiEdge v w :=
      (biEdge_subgraph G S v w).mpr ⟨(hasBi_iff G v w).mp hbi', hvS, hw⟩
    exact hwd ((districts_spec _ hwf d hd v hv w).mpr (Relation.ReflTransGen.single hedge))

/-! ### topological listings -/

theorem topoOrdered_filter {G : MG Name} {l : List Name} (h : TopoOrdered G l) (p : Name → Bool) :
    TopoOrdered G (l.filter p) := by
  intro l1 l2 e a ha r hr
  obtain ⟨t1, t2, e', h1, h2⟩ := List.filter_eq_append_iff.mp e
  exact h t1 t2 e' a (List.mem_filter.mp (h1 ▸ ha)).1 r (List.mem_filter.mp (h2 ▸ hr)).1

theorem filter_perm_of_nodup {S topo : List Name} (hS : S.Nodup) (ht : topo.Nodup) (hsub : ∀ v ∈ S, v ∈ topo) :
    (topo.filter (· ∈ S)).Perm S := by
  apply (List.perm_ext_iff_of_nodup (ht.filter _) hS).mpr
  intro a
  simp only [List.mem_filter, decide_eq_true_eq]
  exact ⟨fun h => h.2, fun h => ⟨hsub a h, h⟩⟩

theorem filter_congr_mem {A B topo : List Name} (h : ∀ v, v ∈ A ↔ v ∈ B) :
    topo.filter (· ∈ A) = topo.filter (· ∈ B) := by
  apply List.filter_congr
  intro x _
  simp only [h x]

theorem seteq'_iff {A B : List Name} : seteq' A B = true ↔ ∀ v, v ∈ A ↔ v ∈ B := by
  simp only [seteq', subset', Bool.and_eq_true, List.all_eq_true, decide_eq_true_eq]
  exact ⟨fun h v => ⟨h.1 v, h.2 v⟩, fun h => ⟨fun v => (h v).mp, fun v => (h v).mpr⟩⟩

theorem subset'_iff {A B : List Name} : subset' A B = true ↔ ∀ v ∈ A, v ∈ B := by
  simp only [subset', List.all_eq_true, decide_eq_true_eq]

end TianGraph
end Y0
