/-
  Y0.Lemmas.PrintNames — list facts for `built_of_eval`: `distinct` decides `Nodup`, the names a construction tree
  writes are pairwise distinct when the tree is `namesOnce`, `_upgrade_ordering` / intervention sets keep names
  distinct, and the `@` operator keeps a variable canonical (the `Overlapping interventions` check of
  `CounterfactualVariable.intervene` is exactly what is needed when subscripts are extended).
-/
import Y0.Lemmas.PrintBuilders

namespace Y0
namespace PyEval
open Print

/-! ### `distinct` -/

theorem distinct_iff : ∀ l : List Name, distinct l = true ↔ l.Nodup
  | [] => by simp [distinct]
  | x :: xs => by
    simp only [distinct, Bool.and_eq_true, Bool.not_eq_true', List.nodup_cons, distinct_iff xs]
    constructor
    · rintro ⟨h1, h2⟩
      refine ⟨fun hx => ?_, h2⟩
      have : xs.contains x = true := by simpa using hx
      rw [h1] at this; cases this
    · rintro ⟨h1, h2⟩
      refine ⟨?_, h2⟩
      cases hc : xs.contains x
      · rfl
      · exact absurd (by simpa using hc) h1

theorem nodup_of_distinct {l : List Name} (h : distinct l = true) : l.Nodup := (distinct_iff l).mp h

/-- the names a `namesOnce` tree writes are pairwise distinct -/
theorem names_nodup : ∀ a : Ast, namesOnce a = true → (names a).Nodup
  | .name n, _ => by simp [names]
  | .kw k, _ => by cases k <;> simp [names]
  | .call _ _, _ => by simp [names]
  | .sub _ _, _ => by simp [names]
  | .tuple xs, h => by
    simp only [namesOnce, Bool.and_eq_true] at h
    simpa [names] using nodup_of_distinct h.2
  | .un _ a, h => by
    simp only [namesOnce] at h
    simpa [names] using names_nodup a h
  | .bin .matmul l r, h => by
    simp only [namesOnce, Bool.and_eq_true] at h
    simpa [names] using names_nodup l h.1.1
  | .bin .bor l r, h => by
    simp only [namesOnce, Bool.and_eq_true] at h
    simpa [names] using nodup_of_distinct h.2
  | .bin .band l r, h => by
    simp only [namesOnce, Bool.and_eq_true] at h
    simpa [names] using nodup_of_distinct h.2
  | .bin .add _ _, _ => by simp [names]
  | .bin .sub _ _, _ => by simp [names]
  | .bin .mul _ _, _ => by simp [names]
  | .bin .div _ _, _ => by simp [names]

/-! ### de-duplication, sorting -/

theorem nodup_dedup'' {α} [DecidableEq α] : ∀ l : List α, (dedup' l).Nodup
  | [] => by simp [dedup']
  | x :: xs => by
    rw [dedup', List.nodup_cons]
    refine ⟨?_, (nodup_dedup'' xs).sublist List.filter_sublist⟩
    simp [List.mem_filter]

theorem mem_dedup'' {α} [DecidableEq α] (x : α) : ∀ l : List α, x ∈ dedup' l ↔ x ∈ l
  | [] => by simp [dedup']
  | y :: ys => by
    simp only [dedup', List.mem_cons, List.mem_filter, mem_dedup'' x ys, ne_eq, decide_not, Bool.not_eq_true',
      decide_eq_false_iff_not]
    constructor
    · rintro (h | ⟨h, _⟩)
      · exact Or.inl h
      · exact Or.inr h
    · intro h
      by_cases hxy : x = y
      · exact Or.inl hxy
      · rcases h with h | h
        · exact Or.inl h
        · exact Or.inr ⟨h, hxy⟩

theorem mem_upgradeOrdering (v : Var) (vs : List Var) : v ∈ upgradeOrdering vs ↔ v ∈ vs := by
  unfold upgradeOrdering sortedVars
  rw [mem_sortBy', mem_dedup'']

theorem mem_normIvs (i : Iv) (is : List Iv) : i ∈ normIvs is ↔ i ∈ is := by
  unfold normIvs
  rw [mem_sortBy', mem_dedup'']

/-- a list without repetitions on which `f` is injective has pairwise distinct `f`-values -/
theorem nodup_map_of_inj {α} (f : α → Nat) : ∀ l : List α, l.Nodup → (∀ a ∈ l, ∀ b ∈ l, f a = f b → a = b) →
    (l.map f).Nodup
  | [], _, _ => List.nodup_nil
  | x :: xs, h, hinj => by
    simp only [List.nodup_cons] at h
    simp only [List.map_cons, List.nodup_cons, List.mem_map, not_exists, not_and]
    refine ⟨fun y hy heq => ?_, nodup_map_of_inj f xs h.2 (fun a ha b hb => hinj a (by simp [ha]) b (by simp [hb]))⟩
    have := hinj y (by simp [hy]) x (by simp) heq
    subst this
    exact h.1 hy

/-- `_upgrade_ordering` of ANY variables with pairwise distinct names: sorted by name, same members -/
theorem upgradeOrdering_names_nodup (vs : List Var) (h : (vs.map Var.name).Nodup) :
    ((upgradeOrdering vs).map Var.name).Nodup :=
  incBy_nodup _ _ (incBy_upgradeOrdering vs h).1

/-! ### the intervention set of a counterfactual variable that passed the overlap check names each variable once -/

theorem incBy_normIvs_of_no_overlap (l : List Iv) (h : overlapping (normIvs l) = false) :
    incBy Iv.name (normIvs l) = true := by
  unfold normIvs
  apply incBy_sortBy Iv.name Iv.lt agrees_ivLt
  apply nodup_map_of_inj Iv.name _ (nodup_dedup'' l)
  intro a ha b hb hab
  have ha' : a ∈ normIvs l := by unfold normIvs; exact (mem_sortBy' Iv.lt).mpr ha
  have hb' : b ∈ normIvs l := by unfold normIvs; exact (mem_sortBy' Iv.lt).mpr hb
  unfold overlapping at h
  rw [List.any_eq_false] at h
  have h1 := h a ha'
  simp only [Bool.not_eq_true] at h1
  rw [List.any_eq_false] at h1
  have h2 := h1 b hb'
  have hs : a.star = b.star := by
    cases hsa : a.star <;> cases hsb : b.star <;> simp_all
  cases a; cases b; simp_all

/-- **`v @ args`** keeps a canonical variable canonical when `args` names each variable once: a fresh subscript list
is a set of pairwise distinct names; an extended one passed `_raise_for_overlapping_interventions` -/
theorem canonVar_varIntervene_gen (v r : Var) (args : List Var) (hv : canonVar v = true)
    (hn : (args.map Var.name).Nodup) (h : varIntervene v args = .ok r) :
    canonVar r = true ∧ r.name = v.name := by
  by_cases he : v.ivs.isEmpty = true
  · have hnil : v.ivs = [] := by simpa using he
    exact canonVar_varIntervene v r args hv (by rw [hnil]; simpa using hn) h
  · have he' : v.ivs.isEmpty = false := by simpa using he
    unfold varIntervene at h
    simp only [he', Bool.false_eq_true, if_false] at h
    split at h
    · cases h
    · rename_i hov
      have hov' : overlapping (normIvs (v.ivs ++ toIvs (upgradeOrdering args))) = false := by simpa using hov
      have hinc := incBy_normIvs_of_no_overlap _ hov'
      cases h
      unfold canonVar at hv ⊢
      simp only [he', Bool.false_eq_true, if_false, Bool.and_eq_true] at hv
      simp only [hinc, Bool.true_and]
      have hne : (normIvs (v.ivs ++ toIvs (upgradeOrdering args))).isEmpty = false := by
        cases hvi : v.ivs with
        | nil => simp [hvi] at he'
        | cons i is =>
          have : i ∈ normIvs (v.ivs ++ toIvs (upgradeOrdering args)) := (mem_normIvs i _).mpr (by simp [hvi])
          cases hn' : normIvs (v.ivs ++ toIvs (upgradeOrdering args)) with
          | nil => rw [hn'] at this; cases this
          | cons _ _ => rw [← hvi, hn']; rfl
      simp [hne, hv.2]

/-- `Distribution.intervene` variable by variable -/
theorem mapM_varIntervene_gen (vs : List Var) (hvs : (vs.map Var.name).Nodup) : ∀ (l r : List Var),
    l.mapM (varIntervene · vs) = .ok r → (∀ v ∈ l, canonVar v = true) →
    r.map Var.name = l.map Var.name ∧ ∀ v ∈ r, canonVar v = true
  | [], r, h, _ => by simp [List.mapM_nil, pure, Except.pure] at h; subst h; simp
  | x :: xs, r, h, hl => by
    simp only [List.mapM_cons, bind, Except.bind] at h
    cases hx : varIntervene x vs with
    | error e => simp [hx] at h
    | ok x' =>
      cases hxs : xs.mapM (varIntervene · vs) with
      | error e => simp [hx, hxs] at h
      | ok xs' =>
        simp only [hx, hxs, pure, Except.pure, Except.ok.injEq] at h
        subst h
        obtain ⟨h1, h2⟩ := canonVar_varIntervene_gen x x' vs (hl x (by simp)) hvs hx
        obtain ⟨ih1, ih2⟩ := mapM_varIntervene_gen vs hvs xs xs' hxs (fun v hv => hl v (by simp [hv]))
        refine ⟨by simp [h2, ih1], ?_⟩
        intro v hv
        rcases List.mem_cons.mp hv with h | h
        · subst h; exact h1
        · exact ih2 v h

/-- what `Distribution.intervene` (the `@` of distributions and probabilities, `P[…]`) returns: same names in the same
order, canonical variables, a child -/
theorem distIntervene_ok (c p is c' p' : List Var) (hc : ∀ v ∈ c ++ p, canonVar v = true) (his : (is.map Var.name).Nodup)
    (h : distIntervene c p is = .ok (c', p')) :
    c' ≠ [] ∧ c'.map Var.name = c.map Var.name ∧ p'.map Var.name = p.map Var.name ∧ ∀ v ∈ c' ++ p', canonVar v = true := by
  have hup := upgradeOrdering_names_nodup is his
  unfold distIntervene at h
  cases hmc : c.mapM (varIntervene · (upgradeOrdering is)) with
  | error err => simp [hmc, bind, Except.bind] at h
  | ok c1 =>
    cases hmp : p.mapM (varIntervene · (upgradeOrdering is)) with
    | error err => simp [hmc, hmp, bind, Except.bind] at h
    | ok p1 =>
      simp only [hmc, hmp, bind, Except.bind] at h
      unfold mkDist at h
      split at h
      · cases h
      · rename_i hne1
        cases h
        obtain ⟨hn1, hc1⟩ := mapM_varIntervene_gen _ hup c c' hmc (fun v hv => hc v (List.mem_append_left _ hv))
        obtain ⟨hn2, hc2⟩ := mapM_varIntervene_gen _ hup p p' hmp (fun v hv => hc v (List.mem_append_right _ hv))
        refine ⟨by intro h0; simp [h0] at hne1, hn1, hn2, ?_⟩
        intro v hv
        rcases List.mem_append.mp hv with h | h
        · exact hc1 v h
        · exact hc2 v h

end PyEval
end Y0
