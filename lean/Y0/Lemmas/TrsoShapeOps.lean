/-
  Y0.Lemmas.TrsoShapeOps — the shape invariant of Lemmas/TrsoShapeDefs through the constructors / operators TRSO applies
  outside `canonicalize`: `Product.safe`, `Sum.safe`, `/`, `*` on non-fractions, `Fraction.simplify` (where the value of
  the fraction, below 1, and the values of the denominator's factors, at most 1, exclude `One()` and `1 / …` semantically),
  and: `activate_domain_and_interventions` succeeds on every clean expression over plain variables without `One()`.
-/
import Y0.Lemmas.TrsoShapeDefs
import Y0.Lemmas.TrsoActivate

namespace Y0
namespace Trso
open TrDsl

variable {card : Name → Nat} {leaf : LeafFn}

/-- the factors of an expression seen as a product -/
def factors : Expr → List Expr
  | .prod fs => fs
  | e => [e]

/-! ### helpers -/

theorem TrsoAux.so_shape_prod_iff (σ₀ : Val) (fs : List Expr) :
    Shape card leaf σ₀ (.prod fs) ↔ 2 ≤ fs.length ∧ ∀ f ∈ fs, Shape card leaf σ₀ f := by
  constructor
  · intro h
    have h1 := h.noOne; have h2 := h.pw; have h3 := h.chain; have h4 := h.frac
    simp only [NoOne, PW, ChainOK, FracNe] at h1 h2 h3 h4
    rw [noOneList_iff] at h1; rw [pwList_iff] at h2; rw [chainOKList_iff] at h3; rw [fracNeList_iff] at h4
    exact ⟨h2.1, fun f hf => ⟨h1 f hf, h2.2 f hf, h3 f hf, h4 f hf⟩⟩
  · rintro ⟨hl, h⟩
    refine ⟨?_, ?_, ?_, ?_⟩
    · simp only [NoOne]; rw [noOneList_iff]; exact fun f hf => (h f hf).noOne
    · simp only [PW]; rw [pwList_iff]; exact ⟨hl, fun f hf => (h f hf).pw⟩
    · simp only [ChainOK]; rw [chainOKList_iff]; exact fun f hf => (h f hf).chain
    · simp only [FracNe]; rw [fracNeList_iff]; exact fun f hf => (h f hf).frac

theorem TrsoAux.so_shape_zero (σ₀ : Val) : Shape card leaf σ₀ .zero :=
  ⟨by simp [NoOne], by simp [PW], by simp [ChainOK], by simp [FracNe]⟩

theorem TrsoAux.so_noOne_isOne {e : Expr} (h : NoOne e) : isOne e = false := by
  cases e <;> simp [isOne, NoOne] at h ⊢

theorem TrsoAux.so_filter_notOne {es : List Expr} (h : ∀ e ∈ es, isOne e = false) :
    es.filter (fun e => !isOne e) = es := by
  apply List.filter_eq_self.2
  intro e he; simp [h e he]

/-- `Product.safe` of at least two factors, none `One()` or `Zero()`, is the sorted `Product` -/
theorem TrsoAux.so_productSafe_eq {l : List Expr} (h1 : ∀ e ∈ l, isOne e = false) (h0 : ∀ e ∈ l, isZero e = false)
    (hl : 2 ≤ l.length) : productSafe l = .prod (ssort exprLt l) := by
  unfold productSafe
  simp only [TrsoAux.so_filter_notOne h1]
  have hz : l.any isZero = false := by
    rw [List.any_eq_false]; intro e he; simp [h0 e he]
  rw [hz]
  match l, hl with
  | [], hl => simp at hl
  | [_], hl => simp at hl
  | a :: b :: r, _ => simp

/-! ### the constructors -/

theorem shape_leaf (σ₀ : Val) (pop : Option Var) (c p : List Var) : Shape card leaf σ₀ (.prob pop c p) :=
  ⟨by simp [NoOne], by simp [PW], by simp [ChainOK], by simp [FracNe]⟩

theorem shape_productSafe (σ₀ : Val) {es : List Expr} (hne : es ≠ []) (h : ∀ e ∈ es, Shape card leaf σ₀ e) :
    Shape card leaf σ₀ (productSafe es) := by
  have hf : es.filter (fun e => !isOne e) = es :=
    TrsoAux.so_filter_notOne (fun e he => TrsoAux.so_noOne_isOne (h e he).noOne)
  unfold productSafe
  simp only [hf]
  split
  · exact TrsoAux.so_shape_zero σ₀
  · split
    · exact absurd rfl hne
    · exact h _ (by simp)
    · rename_i hn0 hn1
      rw [TrsoAux.so_shape_prod_iff]
      refine ⟨?_, fun f hf => h f (by simpa using hf)⟩
      rw [(TrsoAux.ssort_perm _ _).length_eq]
      match es, hn0, hn1 with
      | [], hn0, _ => exact absurd rfl hn0
      | [e], _, hn1 => exact absurd rfl (hn1 e)
      | _ :: _ :: _, _, _ => simp

/-- `Sum.safe(e, rs)` without simplification keeps the shape when the new sum does not sum out all children of a joint -/
theorem shape_sumSafe_false (σ₀ : Val) {e : Expr} {rs : List Var} (h : Shape card leaf σ₀ e)
    (hc : ∀ c s, chain e = some (c, s) → ∃ n ∈ c.map (·.name), n ∉ s ∧ n ∉ rs.map (·.name)) :
    Shape card leaf σ₀ (sumSafe e rs false) := by
  unfold sumSafe
  simp only []
  split
  · exact h
  · split
    · exact h
    · simp only [Bool.false_eq_true, if_false]
      refine ⟨h.noOne, h.pw, ⟨h.chain, ?_⟩, h.frac⟩
      intro c s hcs
      simp only [chain, Option.map_eq_some_iff] at hcs
      obtain ⟨⟨c0, s0⟩, h0, heq⟩ := hcs
      simp only [Prod.mk.injEq] at heq
      obtain ⟨rfl, rfl⟩ := heq
      obtain ⟨n, hn, h1, h2⟩ := hc c0 s0 h0
      refine ⟨n, hn, ?_⟩
      simp only [List.mem_append, not_or]
      refine ⟨h1, fun hm => h2 ?_⟩
      obtain ⟨v, hv, rfl⟩ := List.mem_map.1 hm
      exact List.mem_map.2 ⟨v, (mem_sortVars v rs).1 hv, rfl⟩


/-- `shape_truediv` is false for `a = Zero()` (`Zero() / b` is `Zero()`, not a `Fraction`; `Shape` does not exclude
`Zero()`): a counterexample -/
theorem TrsoAux.so_shape_truediv_counterexample :
    ¬ (∀ (card : Name → Nat) (leaf : LeafFn) (σ₀ : Val) (a b e : Expr), Shape card leaf σ₀ a → Shape card leaf σ₀ b →
        isFrac a = false → isFrac b = false → denL card leaf a σ₀ ≠ denL card leaf b σ₀ → truediv a b = .ok e →
        e = .frac a b ∧ Shape card leaf σ₀ e) := by
  intro H
  have := (H (fun _ => 1) (fun _ _ _ _ => 1) (fun _ => 0) .zero (.prob none [] []) .zero
    (TrsoAux.so_shape_zero _) (shape_leaf _ _ _ _) rfl rfl (by simp) (by simp [truediv, isZero])).1
  cases this

/-- `a / b` for two expressions that are not fractions, not `Zero()`, and have different values -/
theorem shape_truediv' (σ₀ : Val) {a b e : Expr} (ha : Shape card leaf σ₀ a) (hb : Shape card leaf σ₀ b)
    (hfa : isFrac a = false) (hfb : isFrac b = false) (hz : isZero a = false ∧ isZero b = false)
    (hne : denL card leaf a σ₀ ≠ denL card leaf b σ₀)
    (h : truediv a b = .ok e) : e = .frac a b ∧ Shape card leaf σ₀ e := by
  have hb1 := hb.noOne
  have hza := hz.1
  have he : e = .frac a b := by
    cases a <;> cases b <;>
      simp_all [truediv, mkFrac, isFrac, isZero, NoOne]
  subst he
  exact ⟨rfl, ⟨ha.noOne, hb.noOne⟩, ⟨ha.pw, hb.pw⟩, ⟨ha.chain, hb.chain⟩, ⟨ha.frac, hb.frac, hne⟩⟩

/-! ### factors -/

theorem TrsoAux.so_factors_shape (σ₀ : Val) {a : Expr} (h : Shape card leaf σ₀ a) :
    ∀ f ∈ factors a, Shape card leaf σ₀ f := by
  cases a with
  | prod fs => exact ((TrsoAux.so_shape_prod_iff σ₀ fs).1 h).2
  | _ => intro f hf; simp only [factors, List.mem_singleton] at hf; subst hf; exact h

theorem TrsoAux.so_factors_length {a : Expr} (h : PW a) : 1 ≤ (factors a).length := by
  cases a with
  | prod fs => have := h.1; simp only [factors]; omega
  | _ => simp [factors]

theorem TrsoAux.so_factors_clean {a : Expr} (h : Clean a) : ∀ f ∈ factors a, Clean f := by
  cases a with
  | prod fs => exact (cleanList_iff fs).1 h
  | _ => intro f hf; simp only [factors, List.mem_singleton] at hf; subst hf; exact h

theorem TrsoAux.so_factors_good (S : LeafSem card leaf) {a : Expr} (h : Good S a) : ∀ f ∈ factors a, Good S f := by
  cases a with
  | prod fs => exact (goodList_iff S fs).1 ⟨h.1, h.2⟩
  | _ => intro f hf; simp only [factors, List.mem_singleton] at hf; subst hf; exact h

theorem TrsoAux.so_denLProd_factors (a : Expr) (σ : Val) : denLProd card leaf (factors a) σ = denL card leaf a σ := by
  cases a <;> simp [factors]

/-- `a * b` for two clean expressions that are neither fractions nor `One()` is `Product.safe` of all the factors -/
theorem TrsoAux.so_mul_eq {a b : Expr} (hca : Clean a) (hcb : Clean b) (hna : NoOne a) (hnb : NoOne b)
    (hfa : isFrac a = false) (hfb : isFrac b = false) : mul a b = .ok (productSafe (factors a ++ factors b)) := by
  unfold mul
  generalize size a + size b = k
  cases a <;> cases b <;> simp_all [mulF, Clean, NoOne, isFrac, factors]

/-- `a * b` for two clean expressions that are neither fractions nor `One()`: the product of their factors -/
theorem shape_mul_nonfrac (σ₀ : Val) {a b e : Expr} (ha : Shape card leaf σ₀ a) (hb : Shape card leaf σ₀ b)
    (hca : Clean a) (hcb : Clean b) (hfa : isFrac a = false) (hfb : isFrac b = false) (h : mul a b = .ok e) :
    Shape card leaf σ₀ e ∧ isFrac e = false ∧ (factors e).Perm (factors a ++ factors b) := by
  rw [TrsoAux.so_mul_eq hca hcb ha.noOne hb.noOne hfa hfb] at h
  have hsh : ∀ f ∈ factors a ++ factors b, Shape card leaf σ₀ f := by
    intro f hf
    rcases List.mem_append.1 hf with hf | hf
    · exact TrsoAux.so_factors_shape σ₀ ha f hf
    · exact TrsoAux.so_factors_shape σ₀ hb f hf
  have hcl : ∀ f ∈ factors a ++ factors b, Clean f := by
    intro f hf
    rcases List.mem_append.1 hf with hf | hf
    · exact TrsoAux.so_factors_clean hca f hf
    · exact TrsoAux.so_factors_clean hcb f hf
  have hlen : 2 ≤ (factors a ++ factors b).length := by
    have h1 := TrsoAux.so_factors_length ha.pw
    have h2 := TrsoAux.so_factors_length hb.pw
    rw [List.length_append]; omega
  have hne : factors a ++ factors b ≠ [] := by
    intro h0; rw [h0] at hlen; simp at hlen
  have heq := TrsoAux.so_productSafe_eq (fun f hf => TrsoAux.so_noOne_isOne (hsh f hf).noOne)
    (fun f hf => clean_not_zero (hcl f hf)) hlen
  have he : e = productSafe (factors a ++ factors b) := by cases h; rfl
  refine ⟨he ▸ shape_productSafe σ₀ hne hsh, ?_, ?_⟩
  · rw [he, heq]; rfl
  · rw [he, heq]; exact TrsoAux.ssort_perm _ _

/-! ### Fraction.simplify -/

/-- `_simplify_parts_helper` only removes factors -/
theorem TrsoAux.so_mem_cancelParts : ∀ (num den : List Expr),
    (∀ f ∈ (cancelParts num den).1, f ∈ num) ∧ (∀ f ∈ (cancelParts num den).2, f ∈ den) := by
  intro num
  induction num with
  | nil => intro den; exact ⟨fun f hf => hf, fun f hf => hf⟩
  | cons n ns ih =>
    intro den
    unfold cancelParts
    split
    · rename_i j _
      obtain ⟨h1, h2⟩ := ih (den.eraseIdx j)
      exact ⟨fun f hf => List.mem_cons_of_mem _ (h1 f hf), fun f hf => List.mem_of_mem_eraseIdx (h2 f hf)⟩
    · obtain ⟨h1, h2⟩ := ih den
      generalize cancelParts ns den = c at h1 h2 ⊢
      obtain ⟨x, y⟩ := c
      refine ⟨fun f hf => ?_, h2⟩
      rcases List.mem_cons.1 hf with rfl | hf
      · exact List.mem_cons_self
      · exact List.mem_cons_of_mem _ (h1 f hf)

/-- a product of numbers in `(0, 1]` is in `(0, 1]` -/
theorem TrsoAux.so_denLProd_unit (σ : Val) : ∀ (l : List Expr),
    (∀ f ∈ l, 0 < denL card leaf f σ ∧ denL card leaf f σ ≤ 1) →
    0 < denLProd card leaf l σ ∧ denLProd card leaf l σ ≤ 1 := by
  intro l
  induction l with
  | nil => intro _; simp
  | cons a l ih =>
    intro h
    obtain ⟨h1, h2⟩ := h a (by simp)
    obtain ⟨h3, h4⟩ := ih (fun f hf => h f (by simp [hf]))
    rw [TrsoAux.denLProd_cons]
    exact ⟨mul_pos h1 h3, mul_le_one₀ h2 (le_of_lt h3) h4⟩

/-- what `_simplify_parts` returns when the value is below 1 and every factor of the denominator is at most 1:
a `Fraction` of shaped parts of different values, or `Product.safe` of some factors of the numerator -/
theorem TrsoAux.so_simplifyParts_cases (S : LeafSem card leaf) (σ₀ : Val) {ns ds : List Expr} {e : Expr}
    (hns : ∀ f ∈ ns, Good S f ∧ Shape card leaf σ₀ f) (hds : ∀ f ∈ ds, Good S f ∧ Shape card leaf σ₀ f)
    (hlt : denLProd card leaf ns σ₀ / denLProd card leaf ds σ₀ < 1)
    (hle : ∀ f ∈ ds, denL card leaf f σ₀ ≤ 1) (h : simplifyParts ns ds = .ok e) :
    (∃ x y, e = .frac x y ∧ Shape card leaf σ₀ x ∧ Shape card leaf σ₀ y ∧
        denL card leaf x σ₀ ≠ denL card leaf y σ₀) ∨
      (∃ n', n' ≠ [] ∧ (∀ f ∈ n', f ∈ ns) ∧ e = productSafe n') := by
  have hmem := TrsoAux.so_mem_cancelParts ns ds
  have hval := TrsoAux.cancelParts_den (card := card) (leaf := leaf) σ₀ ns ds
    (fun f hf => ne_of_gt (good_pos S (hns f hf).1 σ₀))
  unfold simplifyParts at h
  generalize cancelParts ns ds = r at h hmem hval
  obtain ⟨n', d'⟩ := r
  simp only at h hmem hval
  rw [← hval] at hlt
  have hd' : 0 < denLProd card leaf d' σ₀ ∧ denLProd card leaf d' σ₀ ≤ 1 :=
    TrsoAux.so_denLProd_unit σ₀ d' (fun f hf =>
      ⟨good_pos S (hds f (hmem.2 f hf)).1 σ₀, hle f (hmem.2 f hf)⟩)
  cases n' with
  | nil =>
    exfalso
    rw [TrsoAux.denLProd_nil] at hlt
    exact absurd hlt (not_lt.2 (one_le_one_div hd'.1 hd'.2))
  | cons a n' =>
    cases d' with
    | nil =>
      simp at h
      exact Or.inr ⟨a :: n', by simp, hmem.1, h.symm⟩
    | cons b d' =>
      simp only [List.isEmpty_cons, Bool.not_false, Bool.and_self, if_true] at h
      unfold mkFrac at h
      split at h
      · cases h
      · cases h
        refine Or.inl ⟨_, _, rfl, shape_productSafe σ₀ (by simp) (fun f hf => (hns f (hmem.1 f hf)).2),
          shape_productSafe σ₀ (by simp) (fun f hf => (hds f (hmem.2 f hf)).2), ?_⟩
        rw [TrsoAux.denL_productSafe', TrsoAux.denL_productSafe']
        intro heq
        rw [heq, div_self (ne_of_gt hd'.1)] at hlt
        exact lt_irrefl _ hlt

/-- is a `Product` -/
def TrsoAux.so_isProd : Expr → Bool
  | .prod _ => true
  | _ => false

theorem TrsoAux.so_fracSimplifyF_eq (k : Nat) {N D : Expr} (h1 : isOne D = false) (h2 : isZero N = false)
    (h3 : isOne N = false) (h4 : exprEq N D = false) :
    fracSimplifyF (k + 1) N D =
      if TrsoAux.so_isProd N || TrsoAux.so_isProd D then simplifyParts (factors N) (factors D)
      else .ok (.frac N D) := by
  unfold fracSimplifyF
  simp only [h1, h2, h3, h4, Bool.false_eq_true, if_false]
  cases N <;> cases D <;> simp [TrsoAux.so_isProd, factors]

/-- what `Fraction.simplify` returns: a `Fraction` of shaped parts of different values, or `Product.safe` of some
factors of the numerator -/
theorem TrsoAux.so_fracSimplify_cases (S : LeafSem card leaf) (σ₀ : Val) {N D e : Expr} (hgN : Good S N)
    (hgD : Good S D) (hN : Shape card leaf σ₀ N) (hD : Shape card leaf σ₀ D)
    (hlt : denL card leaf N σ₀ / denL card leaf D σ₀ < 1)
    (hle : ∀ f ∈ factors D, denL card leaf f σ₀ ≤ 1) (h : fracSimplify N D = .ok e) :
    (∃ x y, e = .frac x y ∧ Shape card leaf σ₀ x ∧ Shape card leaf σ₀ y ∧
        denL card leaf x σ₀ ≠ denL card leaf y σ₀) ∨
      (∃ n', n' ≠ [] ∧ (∀ f ∈ n', f ∈ factors N) ∧ e = productSafe n') := by
  have hposD := good_pos S hgD σ₀
  have h1 : isOne D = false := TrsoAux.so_noOne_isOne hD.noOne
  have h2 : isZero N = false := clean_not_zero hgN.1
  have h3 : isOne N = false := TrsoAux.so_noOne_isOne hN.noOne
  have hvne : denL card leaf N σ₀ ≠ denL card leaf D σ₀ := by
    intro heq
    rw [heq, div_self (ne_of_gt hposD)] at hlt
    exact lt_irrefl _ hlt
  have h4 : exprEq N D = false := by
    cases hh : exprEq N D with
    | false => rfl
    | true => exact absurd (congrArg (denL card leaf · σ₀) (exprEq_sound N D hh)) hvne
  unfold fracSimplify at h
  rw [show size D + 2 = (size D + 1) + 1 from rfl, TrsoAux.so_fracSimplifyF_eq _ h1 h2 h3 h4] at h
  split at h
  · exact TrsoAux.so_simplifyParts_cases S σ₀
      (fun f hf => ⟨TrsoAux.so_factors_good S hgN f hf, TrsoAux.so_factors_shape σ₀ hN f hf⟩)
      (fun f hf => ⟨TrsoAux.so_factors_good S hgD f hf, TrsoAux.so_factors_shape σ₀ hD f hf⟩)
      (by rw [TrsoAux.so_denLProd_factors, TrsoAux.so_denLProd_factors]; exact hlt) hle h
  · cases h
    exact Or.inl ⟨N, D, rfl, hN, hD, hvne⟩

/-- **`Fraction.simplify`** of `N / D` (neither a fraction): if the value of the fraction is below 1 and every factor
of the denominator has a value at most 1, neither `One()` nor `1 / …` can come out -/
theorem shape_fracSimplify (S : LeafSem card leaf) (σ₀ : Val) {N D e : Expr} (hgN : Good S N) (hgD : Good S D)
    (hN : Shape card leaf σ₀ N) (hD : Shape card leaf σ₀ D) (hfN : isFrac N = false) (hfD : isFrac D = false)
    (hlt : denL card leaf N σ₀ / denL card leaf D σ₀ < 1)
    (hle : ∀ f ∈ factors D, denL card leaf f σ₀ ≤ 1) (h : fracSimplify N D = .ok e) :
    Shape card leaf σ₀ e := by
  rcases TrsoAux.so_fracSimplify_cases S σ₀ hgN hgD hN hD hlt hle h with ⟨x, y, rfl, hx, hy, hxy⟩ | ⟨n', hne, hm, rfl⟩
  · exact ⟨⟨hx.noOne, hy.noOne⟩, ⟨hx.pw, hy.pw⟩, ⟨hx.chain, hy.chain⟩, ⟨hx.frac, hy.frac, hxy⟩⟩
  · exact shape_productSafe σ₀ hne (fun f hf => TrsoAux.so_factors_shape σ₀ hN f (hm f hf))

mutual
theorem TrsoAux.so_activate_ok {zs : List Name} {d : Pop} (hz : zs ≠ []) :
    ∀ (e : Expr), Clean e → Raw e → NoOne e → ∃ e', activate zs d e = .ok e' ∧ Clean e'
  | .prob none _ _, hc, _, _ => hc.elim
  | .prob (some pop) c p, _, hr, _ => by
    simp only [activate]
    split
    · exact ⟨.one, rfl, trivial⟩
    · obtain ⟨c', hc'⟩ := interveneVars_ok hz
        (vs := sortVars (c.filter (fun v => !(zs.any fun z => decide (Var.plain z = v))))) (fun w hw => by
          have : w ∈ c := (List.mem_filter.1 ((mem_sortVars w _).1 hw)).1
          exact hr.2 w (List.mem_append.2 (Or.inl this)))
      obtain ⟨p', hp'⟩ := interveneVars_ok hz
        (vs := sortVars (p.filter (fun v => !(zs.any fun z => decide (Var.plain z = v))))) (fun w hw => by
          have : w ∈ p := (List.mem_filter.1 ((mem_sortVars w _).1 hw)).1
          exact hr.2 w (List.mem_append.2 (Or.inr this)))
      simp only [hc', hp', bind, Except.bind, pure, Except.pure]
      exact ⟨_, rfl, trivial⟩
  | .sum e r, hc, hr, hn => by
    simp only [activate]
    exact bind_ok_of (Q := Clean) (TrsoAux.so_activate_ok hz e hc hr.1 hn)
      (fun a ha => ⟨_, rfl, clean_sumSafe false ha⟩)
  | .frac n dn, hc, hr, hn => by
    simp only [activate]
    refine bind_ok_of (Q := Clean) (TrsoAux.so_activate_ok hz n hc.1 hr.1 hn.1) (fun n' hn' => ?_)
    refine bind_ok_of (Q := Clean) (TrsoAux.so_activate_ok hz dn hc.2 hr.2 hn.2) (fun d' hd' => ?_)
    refine bind_ok_of (Q := Clean) (truediv_ok hn' hd') (fun t ht => ?_)
    split
    · exact fracSimplify_ok ht.1 ht.2
    · exact ⟨_, rfl, ht⟩
  | .prod fs, hc, hr, hn => by
    simp only [activate]
    exact bind_ok_of (Q := CleanList) (TrsoAux.so_activateList_ok hz fs hc hr hn)
      (fun a ha => ⟨_, rfl, clean_productSafe ha⟩)
  | .one, _, _, hn => hn.elim
  | .zero, hc, _, _ => hc.elim
  | .q _ _, hc, _, _ => hc.elim
theorem TrsoAux.so_activateList_ok {zs : List Name} {d : Pop} (hz : zs ≠ []) :
    ∀ (es : List Expr), CleanList es → WfList RawLeaf PlainReg es → NoOneList es →
      ∃ es', activate.activateList zs d es = .ok es' ∧ CleanList es'
  | [], _, _, _ => ⟨[], by simp [activate.activateList], trivial⟩
  | e :: es, hc, hr, hn => by
    simp only [activate.activateList]
    refine bind_ok_of (Q := Clean) (TrsoAux.so_activate_ok hz e hc.1 hr.1 hn.1) (fun a ha => ?_)
    exact bind_ok_of (Q := CleanList) (TrsoAux.so_activateList_ok hz es hc.2 hr.2 hn.2)
      (fun as has => ⟨_, rfl, ha, has⟩)
end

/-- **activation succeeds when there is no `One()`**: on a clean expression over plain regular variables without
`One()`, `activate_domain_and_interventions` (with a non-empty set of interventions) returns an expression -/
theorem activate_ok_of_noOne {zs : List Name} {d : Pop} (hz : zs ≠ []) {e : Expr} (hc : Clean e) (hr : Raw e)
    (hn : NoOne e) : ∃ e', activate zs d e = .ok e' := by
  obtain ⟨e', he', _⟩ := TrsoAux.so_activate_ok (d := d) hz e hc hr hn
  exact ⟨e', he'⟩

/-! ### extras -/

/-- on two non-fractions `*` does not recurse: the fuel is irrelevant -/
theorem TrsoAux.so_mulF_fuel (f g : Nat) {x y : Expr} (hx : isFrac x = false) (hy : isFrac y = false) :
    mulF (f + 1) x y = mulF (g + 1) x y := by
  cases x <;> cases y <;> simp_all [mulF, isFrac]

/-- `Fraction * Fraction` multiplies numerators and denominators (parts that are not fractions) -/
theorem mul_frac_frac {N D a b e : Expr} (hN : isFrac N = false) (hD : isFrac D = false) (ha : isFrac a = false)
    (hb : isFrac b = false) (h : mul (.frac N D) (.frac a b) = .ok e) :
    ∃ N' D', mul N a = .ok N' ∧ mul D b = .ok D' ∧ mkFrac N' D' = .ok e := by
  unfold mul at h
  have hsz : size (.frac N D) + size (.frac a b) = (size N + size D + size a + size b + 1) + 1 := by
    simp only [size]; omega
  rw [hsz] at h
  unfold mulF at h
  simp only [] at h
  obtain ⟨N', hN', h⟩ := bind_ok h
  obtain ⟨D', hD', h⟩ := bind_ok h
  refine ⟨N', D', ?_, ?_, h⟩
  · unfold mul; rw [← hN']; exact TrsoAux.so_mulF_fuel _ _ hN ha
  · unfold mul; rw [← hD']; exact TrsoAux.so_mulF_fuel _ _ hD hb

theorem TrsoAux.so_chain_frac (x y : Expr) : chain (.frac x y) = none := rfl
theorem TrsoAux.so_chain_prod (fs : List Expr) : chain (.prod fs) = none := rfl

/-- when `Fraction.simplify` returns an iterated sum over a joint leaf, it is one of the numerator's factors -/
theorem fracSimplify_chain_mem (S : LeafSem card leaf) (σ₀ : Val) {N D e : Expr} (hgN : Good S N) (hgD : Good S D)
    (hN : Shape card leaf σ₀ N) (hD : Shape card leaf σ₀ D) (hfN : isFrac N = false) (hfD : isFrac D = false)
    (hlt : denL card leaf N σ₀ / denL card leaf D σ₀ < 1)
    (hle : ∀ f ∈ factors D, denL card leaf f σ₀ ≤ 1) (h : fracSimplify N D = .ok e)
    (hch : (chain e).isSome = true) : e ∈ factors N := by
  rcases TrsoAux.so_fracSimplify_cases S σ₀ hgN hgD hN hD hlt hle h with ⟨x, y, rfl, _, _, _⟩ | ⟨n', hne, hm, rfl⟩
  · simp [TrsoAux.so_chain_frac] at hch
  · have h1 : ∀ f ∈ n', isOne f = false := fun f hf =>
      TrsoAux.so_noOne_isOne (TrsoAux.so_factors_shape σ₀ hN f (hm f hf)).noOne
    have h0 : ∀ f ∈ n', isZero f = false := fun f hf =>
      clean_not_zero (TrsoAux.so_factors_clean hgN.1 f (hm f hf))
    match n', hne, hm, h1, h0, hch with
    | [f], _, hm, h1, h0, _ =>
      have : productSafe [f] = f := by
        unfold productSafe
        simp [h1 f (by simp), h0 f (by simp)]
      rw [this]; exact hm f (by simp)
    | a :: b :: r, _, _, h1, h0, hch =>
      rw [TrsoAux.so_productSafe_eq h1 h0 (by simp), TrsoAux.so_chain_prod] at hch
      simp at hch

end Trso
end Y0
