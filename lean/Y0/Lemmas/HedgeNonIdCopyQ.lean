/-
  Y0.Lemmas.HedgeNonIdCopyQ — distributions of the copy extension (`copyExt M y z`) in terms of those of `M`:
      Q'[S](σ)   = Q[S](dec σ) · [z ∈ S] cK(copy component of σ z | σ y)
      P'(v)      = P(dec v) · cK(…)
      P'_x(Y)(σ) = Σ_j cK(copy component of σ z | j) · P_x(y, Y)(dec σ [y ↦ j])          (z ∈ Y, y ∉ Y, y, z ∉ X)
-/
import Y0.Lemmas.HedgeNonIdCopy
import Y0.Lemmas.HedgeNonIdObs
import Y0.Lemmas.HedgeNonIdPeel

namespace Y0
namespace NonId
open Finset

theorem sumVars_dec (card : Name → Nat) (k : Nat) (z : Name) (xs : List Name) (hz : z ∉ xs) (f : Val → Rat) (σ : Val) :
    sumVars card xs (fun τ => f (dec k z τ)) σ = sumVars card xs f (dec k z σ) := by
  induction xs generalizing σ with
  | nil => rfl
  | cons x xs ih =>
    have hxz : x ≠ z := fun h => hz (h ▸ List.mem_cons_self ..)
    have hz' : z ∉ xs := fun h => hz (List.mem_cons_of_mem _ h)
    simp only [sumVars, sumVar, sumRange]
    refine congrArg List.sum (List.map_congr_left ?_)
    intro j _
    rw [ih hz', dec_set_other _ _ _ hxz]

theorem copyExt_card_other (M : Scm) (y z : Name) {v : Name} (h : v ≠ z) : (copyExt M y z).card v = M.card v := by
  simp [copyExt, h]

section
variable {M : Scm} {G : MG Name} {y z : Name}

/-- the copy factor -/
def cF (M : Scm) (y z : Name) (σ : Val) : Rat := cK (M.card y) (σ z / M.card z) (σ y)

theorem cF_indep (M : Scm) (y z : Name) {x : Name} (hxy : x ≠ y) (hxz : x ≠ z) : IndepOf (cF M y z) x := by
  intro σ k
  unfold cF
  rw [Val.set_other σ k (Ne.symm hxz), Val.set_other σ k (Ne.symm hxy)]

theorem copyExt_weight (M : Scm) (y z : Name) (hzl : z ∉ M.lat) {S : List Name} (hS : S.Nodup) (τ : Val) :
    (copyExt M y z).weight S τ =
      M.weight S (dec (M.card z) z τ) * (if z ∈ S then cF M y z τ else 1) := by
  unfold Scm.weight
  have h1 : ((copyExt M y z).lat.map fun u => (copyExt M y z).prior u (τ u)) =
      M.lat.map fun u => M.prior u (dec (M.card z) z τ u) := by
    apply List.map_congr_left
    intro u hu
    rw [dec_other _ _ _ (fun h : u = z => hzl (h ▸ hu))]
    rfl
  rw [h1, mul_assoc]
  congr 1
  by_cases hzS : z ∈ S
  · rw [if_pos hzS, mul_comm]
    have := prod_map_ite_mul S hS z hzS (cF M y z τ) (fun v => M.kern v (dec (M.card z) z τ))
    rw [← this]
    refine congrArg List.prod (List.map_congr_left ?_)
    intro v _
    simp only [copyExt, cF]
    split
    · rename_i h; subst h; rw [mul_comm]
    · rfl
  · rw [if_neg hzS, mul_one]
    refine congrArg List.prod (List.map_congr_left ?_)
    intro v hv
    have : v ≠ z := fun h => hzS (h ▸ hv)
    simp only [copyExt, if_neg this]

theorem copyExt_Q (hM : M.Compatible G) (hG : G.WF) (hyz : (y, z) ∈ G.di) {S : List Name} (hS : S.Nodup) (σ : Val) :
    (copyExt M y z).Q S σ = M.Q S (dec (M.card z) z σ) * (if z ∈ S then cF M y z σ else 1) := by
  have hz : z ∈ G.nodes := (hG.di_mem _ hyz).2
  have hy : y ∈ G.nodes := (hG.di_mem _ hyz).1
  have hzl : z ∉ M.lat := fun h => hM.lat_fresh z h hz
  have hyl : y ∉ M.lat := fun h => hM.lat_fresh y h hy
  unfold Scm.Q
  have hw : (copyExt M y z).weight S = fun τ => (if z ∈ S then cF M y z τ else 1) *
      M.weight S (dec (M.card z) z τ) := by
    funext τ; rw [copyExt_weight M y z hzl hS τ, mul_comm]
  rw [hw]
  have hc : sumVars (copyExt M y z).card (copyExt M y z).lat = sumVars M.card M.lat := by
    funext f
    exact sumVars_card_congr _ (fun x hx => copyExt_card_other M y z (fun h => hzl (h ▸ hx))) f
  rw [hc, sumVars_mul_left, sumVars_dec _ _ _ _ hzl, mul_comm]
  intro x hx
  split
  · exact cF_indep M y z (fun h => hyl (h ▸ hx)) (fun h => hzl (h ▸ hx))
  · exact fun _ _ => rfl

theorem copyExt_obs (hM : M.Compatible G) (hG : G.WF) (hyz : (y, z) ∈ G.di) (σ : Val) :
    (copyExt M y z).obs G σ = M.obs G (dec (M.card z) z σ) * cF M y z σ := by
  unfold Scm.obs
  rw [copyExt_Q hM hG hyz hG.nodup, if_pos (hG.di_mem _ hyz).2]

theorem copyExt_doProb (hM : M.Compatible G) (hG : G.WF) (hyz : (y, z) ∈ G.di) (hne : y ≠ z) {X Y : List Name}
    (hzY : z ∈ Y) (hyY : y ∉ Y) (hzX : z ∉ X) (hyX : y ∉ X) (σ : Val) :
    (copyExt M y z).doProb G X Y σ =
      ∑ j ∈ range (M.card y), cK (M.card y) (σ z / M.card z) j *
        M.doProb G X (y :: Y) ((dec (M.card z) z σ).set y j) := by
  have hz : z ∈ G.nodes := (hG.di_mem _ hyz).2
  have hy : y ∈ G.nodes := (hG.di_mem _ hyz).1
  -- the summed variables: `y` first
  have hA0nd : (G.nodes.filter fun v => v ∉ X ∧ v ∉ Y).Nodup := hG.nodup.filter _
  have hyA0 : y ∈ G.nodes.filter fun v => v ∉ X ∧ v ∉ Y := List.mem_filter.mpr ⟨hy, by simp [hyX, hyY]⟩
  have hA : (G.nodes.filter fun v => v ∉ X ∧ v ∉ y :: Y) =
      (G.nodes.filter fun v => v ∉ X ∧ v ∉ Y).erase y := by
    rw [hA0nd.erase_eq_filter, List.filter_filter]
    apply List.filter_congr
    intro v _
    by_cases h1 : v ∈ X <;> by_cases h2 : v ∈ Y <;> by_cases h3 : v = y <;> simp [h1, h2, h3]
  have hperm : (G.nodes.filter fun v => v ∉ X ∧ v ∉ Y).Perm (y :: G.nodes.filter fun v => v ∉ X ∧ v ∉ y :: Y) := by
    rw [hA]; exact List.perm_cons_erase hyA0
  have hzA : z ∉ G.nodes.filter fun v => v ∉ X ∧ v ∉ y :: Y := by
    intro h
    have := (List.mem_filter.mp h).2
    simp [hzY] at this
  have hyA : y ∉ G.nodes.filter fun v => v ∉ X ∧ v ∉ y :: Y := by
    intro h
    have := (List.mem_filter.mp h).2
    simp at this
  have hzVX : z ∈ G.nodes.filter (· ∉ X) := List.mem_filter.mpr ⟨hz, by simpa using hzX⟩
  -- the inner sums
  have hinner : ∀ τ : Val, sumVars (copyExt M y z).card (G.nodes.filter fun v => v ∉ X ∧ v ∉ y :: Y)
      ((copyExt M y z).Q (G.nodes.filter (· ∉ X))) τ =
      cF M y z τ * M.doProb G X (y :: Y) (dec (M.card z) z τ) := by
    intro τ
    have hQ : (copyExt M y z).Q (G.nodes.filter (· ∉ X)) = fun τ => cF M y z τ *
        M.Q (G.nodes.filter (· ∉ X)) (dec (M.card z) z τ) := by
      funext τ
      rw [copyExt_Q hM hG hyz (hG.nodup.filter _), if_pos hzVX, mul_comm]
    rw [hQ, sumVars_card_congr _ (fun x hx => copyExt_card_other M y z (fun h => hzA (h ▸ hx)))]
    rw [sumVars_mul_left, sumVars_dec _ _ _ _ hzA]
    · rfl
    · intro x hx
      exact cF_indep M y z (fun h => hyA (h ▸ hx)) (fun h => hzA (h ▸ hx))
  unfold Scm.doProb
  rw [sumVars_perm _ hperm]
  simp only [sumVars]
  rw [sumVar_eq_sum, copyExt_card_other M y z hne]
  apply Finset.sum_congr rfl
  intro j _
  have := hinner (σ.set y j)
  unfold Scm.doProb at this
  rw [this, dec_set_other _ _ _ hne]
  congr 1
  unfold cF
  rw [Val.set_same, Val.set_other σ j (Ne.symm hne)]

end
end NonId
end Y0
